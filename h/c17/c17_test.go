//go:build verif

package c17

import (
	"fmt"
	"os"
	"strings"
	"testing"
	"time"

	"github.com/pion/dtls/v3/zzverif/checks"
	"github.com/pion/dtls/v3/zzverif/run"
	"github.com/pion/dtls/v3/zzverif/world"
)

// C17 — Retransmission discipline: timer law, backoff, and no retransmission storms.
//
// One case = one execution of two real dtls.Conn endpoints in the bubble world:
//
//   prefix   reliable FIFO delivery of the default run until the K-th datagram destined to endpoint X is
//            at the head of the network ("cut"); K ranges over every datagram of the default run towards
//            X, plus K = all of them (the completed association);
//   mode     isolate: from the cut on every datagram is dropped (total silence for both endpoints);
//            deaf:    datagrams towards X are dropped, X's own (re)transmissions still reach the peer;
//            hold:    like deaf, but the datagrams towards X are withheld and released later;
//   follow-up (one per case, after M timeouts, i.e. at cut + I+2I+..+ivl(M-1) + ivl(M)/2):
//            none (silence until the horizon) | genuine xJ: the J most recent copies of the flight the
//            other side keeps sending (for X: the NEXT flight, then retransmissions of it; for X's peer:
//            retransmissions of X's PREVIOUS flight) | first: only the first datagram of a multi-datagram
//            flight | have: exactly the datagrams of the peer's retransmission that X already holds |
//            stale: byte-identical replay + the same old flight under fresh record sequence numbers |
//            garbage: 6-7 kinds of bytes nobody sent | storms of 200 stale / garbage datagrams, back to back
//            or paced at 0.37 I | release: everything withheld is delivered at once and the network is
//            reliable afterwards (zero-time closure, capped);
//   config   initial interval {100 ms, 1 s, 7 s} x backoff {on, off}.
//
// Families: A = (X, K, isolate|deaf, no follow-up); B = (X, K, isolate, M, target in {X, peer}, genuine x{1,2,5}
// | first | have | stale | garbage) and (X, K, deaf, M, genuine x{1,2,5} fed back to X); S = storms in every
// cut state (M=1); R = (X, K, hold, M, release). Quick tier: 8 variants, M in {1,2,3}, storms at I = 1 s.
// Thorough tier: 11 variants, M in {1,2,3,7}, storms at every interval, longer no-backoff horizons.
// Not enumerated (bounded out): a further delivery deviation inside the prefix ("<=1 further dd" of DESIGN.md).
//
// Oracle: oracle.go. Findings are keyed "<rule>:<variant>:<endpoint>:<flight>/<FSM state>".

var intervals = []time.Duration{100 * time.Millisecond, time.Second, 7 * time.Second}

// probe is what the default run of a variant tells the enumeration.
type probe struct {
	nTo  [2]int // datagrams delivered to each side in the default run
	C, F int    // per-datagram reaction constant, largest flight (datagrams)
	ok   bool
	err  string
}

func probeVariant(t *testing.T, p *world.PKI, v checks.Variant, seed uint64) probe {
	var pb probe
	world.Run(t, seed, func(w *world.World) {
		res := execute(w, p, scen{V: v, Ivl: time.Second, K: -1, Horizon: 5 * time.Second})
		if res.HarnessErr != "" {
			pb.err = res.HarnessErr
			return
		}
		if !res.HSDone[cli] || !res.HSDone[srv] {
			pb.err = fmt.Sprintf("default run does not complete: done=%v dead=%v", res.HSDone, res.Dead)
			return
		}
		reaction := 0
		for _, s := range res.Steps {
			if s.In == inNew {
				pb.nTo[s.Who]++
				if len(s.Emit) > reaction {
					reaction = len(s.Emit)
				}
			}
			if _, send := s.flightSend(); send && len(s.Emit) > pb.F {
				pb.F = len(s.Emit)
			}
		}
		// a reaction is at most one flight, plus one ACK datagram in DTLS 1.3
		pb.C = pb.F
		if v.V13 {
			pb.C++
		}
		if reaction > pb.C {
			pb.C = reaction
		}
		pb.ok = true
	})
	return pb
}

func quickVariants() []checks.Variant {
	want := []string{"12-cert", "12-psk", "12-resumed", "12-clientauth", "12-nohv", "12-mtu100", "13-hrr", "13-direct", "13-mtu200"}
	return pickVariants(want)
}

func thoroughVariants() []checks.Variant {
	want := []string{"12-cert", "12-psk", "12-ecdhepsk", "12-resumed", "12-clientauth", "12-nohv", "12-cid", "12-mtu100", "13-hrr", "13-direct", "13-clientauth", "13-mtu200"}
	return pickVariants(want)
}

func pickVariants(want []string) []checks.Variant {
	all := append(append(checks.Variants12(), checks.Variants13()...), checks.VariantsCombined()...)
	var out []checks.Variant
	for _, n := range want {
		for _, v := range all {
			if v.Name == n {
				out = append(out, v)
			}
		}
	}
	return out
}

// horizonFor: 10 fake minutes whenever backoff is on (the 60 s cap needs them). With backoff disabled the
// spacing is constant and the cap never comes into play: pure-silence cases observe 10 minutes (thorough) or
// 600 intervals (quick), follow-up cases observe 60 (quick) / 600 (thorough) intervals after the follow-up.
func horizonFor(sc scen, thorough bool) time.Duration {
	if !sc.NoBackoff {
		return 10 * time.Minute
	}
	h := 10 * time.Minute
	switch {
	case sc.Fol == folNone && !thorough:
		h = 600 * sc.Ivl
	case sc.Fol != folNone:
		n := time.Duration(60)
		if thorough {
			n = 600
		}
		h = sc.trigger() + n*sc.Ivl
		if sc.Fol == folPacedStale || sc.Fol == folPacedGarb {
			h += 80 * sc.Ivl
		}
	}
	if h > 10*time.Minute {
		h = 10 * time.Minute
	}
	return h
}

func enumerate(vs []checks.Variant, pbs map[string]probe, thorough bool) []scen {
	var out []scen
	ms := msFor(thorough) // thorough adds 7 timeouts: the 60 s cap has been reached (1 s, 7 s) before the follow-up
	add := func(sc scen) {
		sc.Horizon = horizonFor(sc, thorough)
		out = append(out, sc)
	}
	for _, v := range vs {
		pb := pbs[v.Name]
		for _, ivl := range intervals {
			for _, nobo := range []bool{false, true} {
				base := scen{V: v, Ivl: ivl, NoBackoff: nobo}
				// the completed association (no cut): silence, stale copies, garbage, storms
				done := base
				done.X, done.K = cli, pb.nTo[cli]
				add(done)
				for X := cli; X <= srv; X++ {
					for K := 0; K <= pb.nTo[X]; K++ {
						sc := base
						sc.X, sc.K = X, K
						completed := K == pb.nTo[X]
						// family A: silence
						if !completed {
							for _, mode := range []netMode{modeIsolate, modeDeaf} {
								a := sc
								a.Mode = mode
								add(a)
							}
						}
						// family B: one follow-up input after M timeouts
						for _, M := range ms {
							// ... in deaf mode (the peer keeps hearing X, its replies pile up) the pile is fed back to X
							if !completed {
								for _, J := range []int{1, 2, 5} {
									g := sc
									g.Mode, g.M, g.Fol, g.J = modeDeaf, M, folGenuine, J
									add(g)
								}
							}
							for _, toPeer := range []bool{false, true} {
								if completed && (X == srv) == !toPeer {
									// completed association: (X=client,target X) == (X=server,target P): keep one
									continue
								}
								b := sc
								b.M, b.ToPeer = M, toPeer
								if !completed {
									for _, J := range []int{1, 2, 5} {
										g := b
										g.Fol, g.J = folGenuine, J
										add(g)
									}
									if pb.F > 1 && !toPeer {
										for _, k := range []folKind{folFirstOnly, folHave} {
											g := b
											g.Fol = k
											add(g)
										}
									}
								}
								for _, k := range []folKind{folStale, folGarbage} {
									g := b
									g.Fol = k
									add(g)
								}
								// family S: storms in every FSM state
								if M == 1 && (thorough || ivl == time.Second) {
									for _, k := range []folKind{folStormStale, folStormGarb, folPacedStale, folPacedGarb} {
										g := b
										g.Fol = k
										add(g)
									}
								}
							}
							// family R: delayed datagrams released together, then a reliable network
							if !completed {
								r := sc
								r.Mode, r.Fol, r.M = modeHold, folRelease, M
								add(r)
							}
						}
					}
				}
			}
		}
	}
	// family F: one send of X refused by its transport (temporary error) at each position of the handshake, on
	// variants whose flights span several datagrams too; then a reliable network / silence
	for _, v := range vs {
		if v.Name != "12-cert" && v.Name != "12-mtu100" && v.Name != "13-mtu200" && v.Name != "13-direct" {
			continue
		}
		pb := pbs[v.Name]
		for X := cli; X <= srv; X++ {
			maxK := 8
			if v.Name == "12-mtu100" || v.Name == "13-mtu200" {
				maxK = 16
			}
			for k := 1; k <= maxK; k++ {
				for _, nobo := range []bool{false, true} {
					f := scen{V: v, Ivl: time.Second, NoBackoff: nobo, X: X, K: pb.nTo[X], SendFail: k}
					add(f)
					g := f
					g.K, g.Mode = pb.nTo[X]/2, modeDeaf
					add(g)
				}
			}
		}
	}
	return out
}

func msFor(thorough bool) []int {
	if thorough {
		return []int{1, 2, 3, 7}
	}
	return []int{1, 2, 3}
}

func stateBucket(n int) string {
	switch {
	case n == 0:
		return "0"
	case n <= 3:
		return "few"
	case n <= 12:
		return "some"
	default:
		return "many"
	}
}

func runCase(t *testing.T, p *world.PKI, sc scen, pb probe, seed uint64) run.Outcome {
	var o run.Outcome
	var res result
	world.Run(t, seed, func(w *world.World) { res = execute(w, p, sc) })
	l := law{I: sc.Ivl, NoBackoff: sc.NoBackoff, V13: sc.V.V13, C: pb.C, F: pb.F, End: res.End}
	ev := evaluate(l, res.Steps, res.Dead)
	if os.Getenv("VERIF_VERBOSE") != "" {
		fmt.Fprintf(os.Stderr, "=== %s cut=%v at=%v states=%v hs=%v dead=%v fol=%d note=%q C=%d F=%d\n%s", sc.id(), res.CutReached, res.CutAt,
			res.StateAtCut, res.HSDone, res.Dead, res.FolDelivered, res.FolNote, pb.C, pb.F, render(res.Steps, 400))
	}
	var texts []string
	switch {
	case res.HarnessErr != "":
		o.Key = "harness-error"
		texts = append(texts, "HARNESS: "+res.HarnessErr)
	case res.Storm != "":
		o.Key = fmt.Sprintf("storm:%s", sc.V.Name)
		texts = append(texts, "retransmission storm: "+res.Storm)
	}
	for _, v := range ev.Viol {
		if sc.SendFail > 0 && v.Rule == "overdue" && v.Who == sc.X {
			// an endpoint whose transport refused a send may give up: the duty to retransmit is not judged for it
			// (what it DOES emit afterwards is still judged by every other rule)
			continue
		}
		if o.Key == "" {
			o.Key = fmt.Sprintf("%s:%s:%s:%s", v.Rule, sc.V.Name, v.Who, v.Ctx)
		}
		if len(texts) < 3 {
			texts = append(texts, v.Rule+": "+v.Text)
		}
	}
	if len(texts) > 0 {
		o.Violation = fmt.Sprintf("case %s (cut at %v, FSM at cut client=%s server=%s, follow-up delivered %d): %s", sc.id(), res.CutAt,
			res.StateAtCut[cli], res.StateAtCut[srv], res.FolDelivered, strings.Join(texts, " || "))
	}
	mc, ms := ev.Models[cli], ev.Models[srv]
	o.NonTrivial = res.HarnessErr == "" && (sc.Fol == folNone || res.FolDelivered > 0)
	o.Evals = mc.timerChecked + ms.timerChecked + mc.recvd + ms.recvd
	verdict := "ok"
	if o.Violation != "" {
		verdict = "VIOLATION"
	}
	o.Class = fmt.Sprintf("%s|%s|%s|c=%s,T%s,R%s,%v|s=%s,T%s,R%s,%v|%s", sc.Mode, sc.Fol, boolStr(res.FolDelivered > 0, "fed", "unfed"),
		res.StateAtCut[cli], stateBucket(mc.timerSteps), stateBucket(mc.triggered), res.HSDone[cli],
		res.StateAtCut[srv], stateBucket(ms.timerSteps), stateBucket(ms.triggered), res.HSDone[srv], verdict)
	// abstract states / transitions for the evidence file: (endpoint, FSM flight/state after the step, input class,
	// number of datagrams emitted, flight (re)sent?) per step
	prev := ""
	for _, s := range res.Steps {
		fl, send := s.flightSend()
		st := fmt.Sprintf("%s|%s|%s|%d|%v|%s", s.Who, lastFSM(s.Trace), s.In, len(s.Emit), send, fl)
		o.States = append(o.States, run.Hash(sc.V.Name, st))
		if prev != "" {
			o.Transitions = append(o.Transitions, run.Hash(sc.V.Name, prev, st))
		}
		prev = st
	}
	o.States = dedup(o.States)
	o.Transitions = dedup(o.Transitions)
	o.Counters = map[string]int{
		"timer_steps_checked": mc.timerChecked + ms.timerChecked,
		"deliveries":          mc.recvd + ms.recvd,
		"triggered_resends":   mc.triggered + ms.triggered,
		"followup_datagrams":  res.FolDelivered,
	}
	if res.FolNote != "" {
		o.Counters["followup_had_nothing_to_deliver"] = 1
	}
	o.Sample = map[string]any{"case": sc.id(), "fsm_at_cut": res.StateAtCut, "steps": len(res.Steps),
		"client_timer_steps": mc.timerSteps, "server_timer_steps": ms.timerSteps, "outcome": verdict}
	return o
}

func dedup(x []uint64) []uint64 {
	seen := map[uint64]bool{}
	var out []uint64
	for _, v := range x {
		if !seen[v] {
			seen[v] = true
			out = append(out, v)
		}
	}
	return out
}

func boolStr(b bool, y, n string) string {
	if b {
		return y
	}
	return n
}

func TestC17(t *testing.T) {
	env := run.GetEnv()
	p := world.GetPKI(t)
	vs := quickVariants()
	if env.Thorough() {
		vs = thoroughVariants()
	}
	seed := env.Seed + 1
	pbs := map[string]probe{}
	for _, v := range vs {
		pb := probeVariant(t, p, v, seed)
		if !pb.ok {
			t.Fatalf("C17: default run of %s unusable: %s", v.Name, pb.err)
		}
		pbs[v.Name] = pb
	}
	scs := enumerate(vs, pbs, env.Thorough())
	var cases []run.Case
	for _, sc := range scs {
		sc := sc
		pb := pbs[sc.V.Name]
		cases = append(cases, run.Case{ID: sc.id(), Run: func(t *testing.T) run.Outcome { return runCase(t, p, sc, pb, seed) }})
	}
	probes := map[string]string{}
	for n, pb := range pbs {
		probes[n] = fmt.Sprintf("to_client=%d to_server=%d C=%d F=%d", pb.nTo[cli], pb.nTo[srv], pb.C, pb.F)
	}
	run.Main(t, "C17", cases, map[string]any{"variants": len(vs), "intervals": fmt.Sprint(intervals), "backoff": "on,off",
		"timeouts_before_followup": fmt.Sprint(msFor(env.Thorough())), "genuine_bursts": "1,2,5", "storm_size": 200, "silence_horizon": "10m (fake)",
		"default_run": probes, "cases": len(cases)})
}
