//go:build verif

package c17

import (
	"fmt"
	"strings"
	"time"

	"github.com/pion/dtls/v3/zzverif/checks"
	"github.com/pion/dtls/v3/zzverif/world"
)

// A scenario = a FIFO prefix of the default run up to a cut, a network mode after the cut, and one
// follow-up action at a fixed fake-time offset after the cut.

type netMode int

const (
	modeIsolate netMode = iota // after the cut every datagram (both directions) is dropped: total silence
	modeDeaf                   // after the cut datagrams towards X are dropped, datagrams from X still reach the peer
	modeHold                   // like deaf, but datagrams towards X are withheld (delayed) and released by the follow-up
)

var modeNames = [...]string{"isolate", "deaf", "hold"}

func (m netMode) String() string { return modeNames[m] }

type folKind int

const (
	folNone       folKind = iota
	folGenuine            // deliver the other side's most recent burst (and the next J-1 bursts as they are emitted)
	folFirstOnly          // deliver only the first datagram of the other side's most recent (multi-datagram) burst
	folHave               // deliver, from the peer's most recent retransmission, exactly the datagrams X already holds
	folStale              // byte copies of the last burst delivered to the target before the cut
	folGarbage            // one datagram of every garbage kind
	folStormStale         // 200 byte copies of old datagrams, back to back
	folStormGarb          // 200 garbage datagrams, back to back
	folPacedStale         // 200 byte copies of old datagrams, one every 0.37*I
	folPacedGarb          // 200 garbage datagrams, one every 0.37*I
	folRelease            // (modeHold) release everything withheld, then reliable FIFO delivery until quiescence
)

var folNames = [...]string{"none", "genuine", "first", "have", "stale", "garbage", "storm-stale", "storm-garbage", "paced-stale", "paced-garbage", "release"}

func (k folKind) String() string { return folNames[k] }

type scen struct {
	V         checks.Variant
	Ivl       time.Duration
	NoBackoff bool
	X         side // the endpoint that is cut off
	K         int  // the K-th datagram (0-based) destined to X and everything after it is affected
	Mode      netMode
	Fol       folKind
	M         int  // the follow-up happens between the M-th and (M+1)-th timeout after the cut
	ToPeer    bool // follow-up target: false = X, true = X's peer
	J         int  // folGenuine: number of bursts let through
	Horizon   time.Duration
	Storm     int // storm size (default 200)
	// SendFail k > 0: the k-th WriteTo of X (counted from the start of the scenario) is refused once by the transport
	// with a temporary, non-timeout net.Error (ECONNREFUSED-like). Whatever the library makes of a failed send —
	// give up, or carry on — what it emits afterwards is still bound by the timer law and by the input bound.
	SendFail int
}

func (s scen) id() string {
	bo := "bo"
	if s.NoBackoff {
		bo = "nobo"
	}
	id := fmt.Sprintf("%s/%s%d/%s/%v/%s", s.V.Name, s.X.String()[:1], s.K, s.Mode, s.Ivl, bo)
	if s.SendFail > 0 {
		id += fmt.Sprintf("/sendfail%d", s.SendFail)
	}
	if s.Fol != folNone {
		tgt := "X"
		if s.ToPeer {
			tgt = "P"
		}
		id += fmt.Sprintf("/%s-m%d-%s", s.Fol, s.M, tgt)
		if s.Fol == folGenuine {
			id += fmt.Sprintf("-j%d", s.J)
		}
	}
	return id
}

// trigger is the fake-time offset (from the cut) of the follow-up: halfway between the M-th and the
// (M+1)-th timeout of an endpoint that (re)armed its timer at the cut.
func (s scen) trigger() time.Duration {
	l := law{I: s.Ivl, NoBackoff: s.NoBackoff}
	var t time.Duration
	for i := 0; i < s.M; i++ {
		t += l.ivl(i)
	}
	return t + l.ivl(s.M)/2
}

// result of one execution
type result struct {
	Steps        []*step
	CutReached   bool
	CutAt        time.Duration
	End          time.Duration
	Dead         [2]bool
	HSDone       [2]bool
	StateAtCut   [2]string
	FolDelivered int    // datagrams delivered by the follow-up
	FolNote      string // why a follow-up had nothing to deliver
	Storm        string // non-empty: the zero-time exchange did not terminate
	HarnessErr   string
	ToX          int // datagrams delivered to X in the prefix
}

// closureCap: deliveries allowed in one zero-time closure (release / heal phase) before the exchange is
// called a storm. The per-datagram bound itself (C emissions per received datagram, bound-reaction /
// bound-total) is the oracle's; this cap only has to tell a chain reaction that dies out from one that does
// not, so it grows with what the release hands over: every released datagram may draw C emissions, and each
// of those one more round (an acknowledgement and the re-send it triggers).
const closureCap = 400

// garbage kinds (never sent by any endpoint)
func garbageKinds(old []byte) [][]byte {
	g := [][]byte{
		{0xff, 0xff, 0xff, 0xff, 0xff, 0xff, 0xff, 0xff, 0xff, 0xff, 0xff, 0xff, 0xff, 0xff, 0xff, 0xff, 0xff, 0xff, 0xff, 0xff},
		// handshake record, epoch 0, length field larger than the datagram
		{22, 0xfe, 0xfd, 0, 0, 0, 0, 0, 0, 0, 9, 0x01, 0x00, 1, 2, 3, 4},
		// application-data record of epoch 1 that cannot be authenticated
		append([]byte{23, 0xfe, 0xfd, 0, 1, 0, 0, 0, 0, 0, 77, 0, 32}, make([]byte, 32)...),
		// DTLS 1.3 unified header (epoch bits 3, 16-bit seq, length) with an unauthenticated body
		append([]byte{0x2f, 0x12, 0x34, 0, 32}, make([]byte, 32)...),
		// handshake record, epoch 0, whose handshake header claims a fragment longer than the record
		{22, 0xfe, 0xfd, 0, 0, 0, 0, 0, 0, 0, 10, 0, 14, 1, 0, 0, 50, 0, 0, 0, 0, 0, 0, 0, 50, 1, 2},
		// a single byte
		{0x16},
	}
	if len(old) > 8 {
		g = append(g, append([]byte(nil), old[:len(old)/2]...)) // truncated copy of an old datagram
	}
	return g
}

// lastBurst returns the datagrams of the most recent burst (same emission instant) in ds.
func lastBurst(ds []*world.Datagram) []*world.Datagram {
	if len(ds) == 0 {
		return nil
	}
	at := ds[len(ds)-1].At
	i := len(ds)
	for i > 0 && ds[i-1].At == at {
		i--
	}
	return ds[i:]
}

// splitBursts groups datagrams (emission order) by emission instant.
func splitBursts(ds []*world.Datagram) [][]*world.Datagram {
	var out [][]*world.Datagram
	for i, x := range ds {
		if i == 0 || x.At != ds[i-1].At {
			out = append(out, nil)
		}
		out[len(out)-1] = append(out[len(out)-1], x)
	}
	return out
}

func lastFSM(tr []traceEv) string {
	if len(tr) == 0 {
		return "-"
	}
	t := tr[len(tr)-1]
	return t.Flight + ":" + t.State
}

// execute runs one scenario inside world w.
func execute(w *world.World, p *world.PKI, sc scen) (res result) {
	d, err := newDriver(w, p, sc.V, sc.Ivl, sc.NoBackoff)
	if err != nil {
		res.HarnessErr = "setup: " + err.Error()
		return res
	}
	defer func() {
		res.Steps = d.steps
		if d.err != "" && res.HarnessErr == "" {
			res.HarnessErr = d.err
		}
		for s, e := range []*world.Endpoint{d.pr.C, d.pr.S} {
			done, herr := e.HS.Result()
			res.HSDone[s] = done && herr == nil
			res.Dead[s] = done && herr != nil
		}
		d.pr.CloseAll()
	}()
	X, P := sc.X, sc.X.other()
	if sc.SendFail > 0 {
		ep := d.pr.C
		if X == srv {
			ep = d.pr.S
		}
		ep.PC.FailWriteNumber(sc.SendFail, world.TempNetErr{})
	}
	storm := sc.Storm
	if storm == 0 {
		storm = 200
	}

	// ---- prefix: reliable FIFO delivery until the K-th datagram towards X is at the head
	for n := 0; ; n++ {
		w.Settle()
		h := w.Head()
		if h == nil {
			break
		}
		if n > 200 {
			res.HarnessErr = "prefix does not terminate"
			return res
		}
		if sideOf(h.Dst) == X {
			if res.ToX == sc.K && sc.K >= 0 {
				res.CutReached = true
				break
			}
			res.ToX++
		}
		d.deliverDatagram(h, inNew, "prefix")
	}
	d.collectTimer()
	res.CutAt = d.now()
	cutEmit := w.EmittedCount()
	cutBurstDelivered := 0
	cutHeadAt := time.Duration(-1)
	if h := w.Head(); h != nil && res.CutReached {
		cutHeadAt = h.At
		for _, x := range d.delivered[X] {
			if x.At == h.At && x.Src == h.Src {
				cutBurstDelivered++
			}
		}
	}
	for s := cli; s <= srv; s++ {
		res.StateAtCut[s] = lastFSM(d.rec.slice(s, 0, d.rec.count(s)))
	}
	hz := sc.Horizon
	if hz == 0 {
		hz = 10 * time.Minute
	}
	end := res.CutAt + hz + 333*time.Microsecond
	res.End = end
	if !res.CutReached && res.ToX != sc.K && sc.K >= 0 && sc.SendFail == 0 {
		// (with a refused send the handshake may have ended before the cut: what follows is observed all the same)
		res.HarnessErr = fmt.Sprintf("cut index %d out of range (%d datagrams towards %s)", sc.K, res.ToX, X)
		return res
	}

	var dropped [2][]*world.Datagram // by destination
	var held []*world.Datagram
	connected := false // after folRelease
	genuineLeft := 0   // folGenuine: bursts still to let through (after the first)
	target := X
	if sc.ToPeer {
		target = P
	}
	closure := 0
	capNow := closureCap

	// sweep handles everything in flight according to the current policy
	sweep := func() {
		for {
			w.Settle()
			h := w.Head()
			if h == nil {
				return
			}
			to := sideOf(h.Dst)
			class := d.emitClass[h.ID]
			if h.ID < cutEmit {
				class = inNew
			}
			switch {
			case !connected && to != X && h.ID < cutEmit:
				// already on its way to the peer when the cut happened: the cut only affects datagrams towards X
				// and what X emits afterwards
				d.deliverDatagram(h, inNew, "in-flight-at-cut")
			case connected:
				closure++
				if closure > capNow {
					if res.Storm == "" {
						res.Storm = fmt.Sprintf("more than %d datagrams exchanged in zero fake time after the release at %v (still in flight: %s)", capNow, d.now(), shapeOf(h.Data))
					}
					w.Take(h)
					continue
				}
				d.deliverDatagram(h, inUnknown, "connected")
			case genuineLeft > 0 && to == target:
				// let one whole burst through
				at := h.At
				for h != nil && sideOf(h.Dst) == target && h.At == at {
					d.deliverDatagram(h, d.emitClass[h.ID], "genuine+")
					res.FolDelivered++
					w.Settle()
					h = w.Head()
				}
				genuineLeft--
			case to == X && sc.Mode == modeHold:
				w.Take(h)
				held = append(held, h)
			case to == X || sc.Mode == modeIsolate:
				w.Take(h)
				dropped[to] = append(dropped[to], h)
			default: // deaf/hold: X's datagrams still reach the peer
				d.deliverDatagram(h, class, "from-cut-off-endpoint")
			}
		}
	}

	// runUntil lets fake time pass until t, sweeping after every emission
	runUntil := func(t time.Duration) {
		for guard := 0; ; guard++ {
			if guard > d.maxSteps {
				res.HarnessErr = "step cap reached"
				return
			}
			d.collectTimer()
			sweep()
			if d.now() >= t {
				return
			}
			closure = 0
			d.advance(t)
		}
	}

	if sc.Fol == folNone {
		runUntil(end)
		d.collectTimer()
		return res
	}

	// ---- follow-up
	tf := res.CutAt + sc.trigger()
	runUntil(tf)
	var old []byte
	if n := len(d.delivered[target]); n > 0 {
		old = d.delivered[target][n-1].Data
	}
	switch sc.Fol {
	case folGenuine, folFirstOnly, folHave:
		// the J most recent bursts that were sent towards the target since the cut (oldest first); if fewer
		// exist, the next bursts are let through as they are emitted (sweep)
		bursts := splitBursts(dropped[target])
		if len(bursts) == 0 {
			res.FolNote = "nothing was sent towards the target since the cut"
			break
		}
		want := sc.J
		last := bursts[len(bursts)-1]
		switch sc.Fol {
		case folFirstOnly:
			want = 1
			if len(last) < 2 {
				res.FolNote = "the pending flight is a single datagram"
			}
		case folHave:
			want = 1
			if target != X || cutBurstDelivered == 0 || last[0].At == cutHeadAt || len(last) <= cutBurstDelivered {
				res.FolNote = "the target holds no part of the pending flight (or the peer did not retransmit it)"
			}
		}
		if res.FolNote != "" {
			break
		}
		if len(bursts) > want {
			bursts = bursts[len(bursts)-want:]
		}
		genuineLeft = want - len(bursts)
		// Ground truth per datagram. The peer of X received every flight of X before the cut, so whatever X
		// re-sends is a retransmission for it (emitClass). X itself holds the first cutBurstDelivered
		// datagrams of the flight that was cut off: every later copy of that flight has the same datagram
		// partition, so position p of a copy is new for X iff X does not hold position p yet.
		have := map[int]bool{}
		for q := 0; q < cutBurstDelivered; q++ {
			have[q] = true
		}
		fullSize := 0
		if all := splitBursts(dropped[X]); len(all) > 0 && all[0][0].At == cutHeadAt {
			fullSize = cutBurstDelivered + len(all[0])
		}
		for _, b := range bursts {
			off := 0
			if b[0].At == cutHeadAt {
				off = cutBurstDelivered // the remainder of the original burst
			}
			positional := target == X && !(sc.V.V13 && sc.Mode == modeDeaf) && (off > 0 || fullSize == 0 || len(b) == fullSize)
			for i, x := range b {
				q := off + i
				if sc.Fol == folFirstOnly && i > 0 {
					break
				}
				if sc.Fol == folHave && !have[q] {
					continue
				}
				class := d.emitClass[x.ID]
				switch {
				case target != X:
				case !positional:
					class = inUnknown
				case have[q]:
					class = inRetx
				default:
					class = inNew
					have[q] = true
				}
				d.deliverDatagram(x, class, "genuine")
				res.FolDelivered++
			}
			sweep()
		}
	case folStale:
		prev := lastBurst(d.delivered[target])
		if len(prev) == 0 {
			res.FolNote = "nothing was delivered to the target before the cut"
			break
		}
		for i, x := range prev {
			// byte-identical copy (a replay), then the same flight under fresh record sequence numbers
			d.deliver(target, x.Data, inStale, "stale")
			d.deliver(target, resequence(x.Data, 1000+16*uint64(i)), inStale, "stale-reseq")
			res.FolDelivered += 2
			if e := emptyFragments(x.Data, 1500+16*uint64(i)); e != nil {
				// the same old messages repeated by a peer that sends zero-length fragments
				d.deliver(target, e, inStale, "stale-empty-fragment")
				res.FolDelivered++
			}
		}
	case folGarbage:
		for _, g := range garbageKinds(old) {
			d.deliver(target, g, inGarbage, "garbage")
			res.FolDelivered++
		}
	case folStormStale, folStormGarb, folPacedStale, folPacedGarb:
		var pool [][]byte
		stalePool := false
		class := inGarbage
		if sc.Fol == folStormStale || sc.Fol == folPacedStale {
			class = inStale
			for _, x := range d.delivered[target] {
				pool = append(pool, x.Data)
			}
			stalePool = true
			if len(pool) == 0 {
				res.FolNote = "nothing was delivered to the target before the cut"
				break
			}
		} else {
			pool = garbageKinds(old)
		}
		paced := sc.Fol == folPacedStale || sc.Fol == folPacedGarb
		gap := sc.Ivl*37/100 + 11*time.Microsecond
		for i := 0; i < storm; i++ {
			data := pool[i%len(pool)]
			if stalePool && i%4 != 3 {
				// three out of four stale datagrams carry fresh record sequence numbers (they pass the replay
				// filter and reach the handshake layer), the fourth is a byte-identical replay
				data = resequence(data, 2000+16*uint64(i))
				if i%4 == 1 {
					if e := emptyFragments(pool[i%len(pool)], 2000+16*uint64(i)); e != nil {
						data = e // the old message as a zero-length fragment
					}
				}
			}
			d.deliver(target, data, class, "storm")
			res.FolDelivered++
			sweep()
			if paced {
				runUntil(d.now() + gap)
			}
		}
	case folRelease:
		if len(held) == 0 {
			res.FolNote = "nothing was withheld"
		}
		connected = true
		capNow = closureCap + 40*len(held)
		for _, x := range held {
			closure++
			d.deliverDatagram(x, inUnknown, "release")
			res.FolDelivered++
		}
		held = nil
	}
	runUntil(end)
	d.collectTimer()
	return res
}

// ---------------------------------------------------------------------------------------------

// render prints a compact per-endpoint timeline (replay / spike output).
func render(steps []*step, max int) string {
	var sb strings.Builder
	for i, s := range steps {
		if i >= max {
			fmt.Fprintf(&sb, "  ... %d more steps\n", len(steps)-max)
			break
		}
		var em []string
		for _, e := range s.Emit {
			em = append(em, shapeOf(e.Data))
		}
		var tr []string
		for _, t := range s.Trace {
			tr = append(tr, strings.TrimPrefix(t.Flight, "Flight ")+":"+t.State[:4])
		}
		fmt.Fprintf(&sb, "  %14v %s %-7s %-8s emit=%d %v trace=%v\n", s.At, s.Who.String()[:1], s.In, s.Note, len(s.Emit), em, tr)
	}
	return sb.String()
}
