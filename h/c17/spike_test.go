//go:build verif

package c17

import (
	"fmt"
	"os"
	"strconv"
	"strings"
	"testing"
	"time"

	"github.com/pion/dtls/v3/zzverif/checks"
	"github.com/pion/dtls/v3/zzverif/world"
)

func findV(name string) checks.Variant {
	for _, v := range append(checks.Variants12(), checks.Variants13()...) {
		if v.Name == name {
			return v
		}
	}
	panic(name)
}

// C17_SPIKE="variant,X,K,mode,ivl,nobo,fol,M,toPeer,J"
func TestSpike(t *testing.T) {
	spec := os.Getenv("C17_SPIKE")
	if spec == "" {
		t.Skip()
	}
	p := world.GetPKI(t)
	for _, one := range strings.Split(spec, ";") {
		f := strings.Split(one, ",")
		at := func(i int) int { n, _ := strconv.Atoi(f[i]); return n }
		sc := scen{V: findV(f[0]), X: side(at(1)), K: at(2), Mode: netMode(at(3)), NoBackoff: at(5) == 1, Fol: folKind(at(6)), M: at(7), ToPeer: at(8) == 1, J: at(9)}
		sc.Ivl, _ = time.ParseDuration(f[4])
		var res result
		world.Run(t, 1, func(w *world.World) { res = execute(w, p, sc) })
		l := law{I: sc.Ivl, NoBackoff: sc.NoBackoff, V13: sc.V.V13, C: 3, F: 2, End: res.End}
		ev := evaluate(l, res.Steps, res.Dead)
		fmt.Printf("=== %s cut=%v at=%v states=%v hs=%v dead=%v fol=%d note=%q storm=%q herr=%q steps=%d\n", sc.id(), res.CutReached, res.CutAt, res.StateAtCut, res.HSDone, res.Dead, res.FolDelivered, res.FolNote, res.Storm, res.HarnessErr, len(res.Steps))
		fmt.Print(render(res.Steps, 80))
		for _, v := range ev.Viol {
			fmt.Println("  VIOL", v.Rule, v.Text)
		}
		for _, m := range ev.Models {
			fmt.Printf("  model %s: completed=%v state=%s/%s active=%v n=[%d,%d] timerSteps=%d checked=%d recvd=%d emitted=%d triggered=%d\n", m.who, m.completed, m.flight, m.fsmState, m.active, m.lo, m.hi, m.timerSteps, m.timerChecked, m.recvd, m.emitted, m.triggered)
		}
	}
}
