//go:build verif

// Package c17 is the check for property C17 "Retransmission discipline: timer law, backoff, and no
// retransmission storms" (DESIGN.md §5 C17).
//
// obs.go  — the observation layer: a timestamped FSM-trace recorder (pion log lines through
//
//	WithLoggerFactory, stamped with the bubble's fake clock) and a scenario driver written directly
//	on top of the world primitives (Head/Take/Push/Sleep/WaitActivity), which attributes every
//	emitted datagram either to exactly one delivery (a *reaction*) or to a timer.
//
// oracle.go — the retransmission law, evaluated per endpoint on the recorded step sequence.
// c17_test.go — the enumeration.
package c17

import (
	"fmt"
	"strings"
	"sync"
	"time"

	dtls "github.com/pion/dtls/v3"
	"github.com/pion/dtls/v3/zzverif/checks"
	"github.com/pion/dtls/v3/zzverif/world"
	"github.com/pion/logging"
)

// side indexes the two endpoints.
type side int

const (
	cli side = 0
	srv side = 1
)

func (s side) String() string {
	if s == cli {
		return "client"
	}
	return "server"
}

func (s side) other() side { return 1 - s }

func (s side) addr() world.Addr {
	if s == cli {
		return world.ClientAddr
	}
	return world.ServerAddr
}

func sideOf(a world.Addr) side {
	if a == world.ClientAddr {
		return cli
	}
	return srv
}

// ---------------------------------------------------------------------------------------------
// FSM trace recorder

// traceEv is one "[handshake:<side>] <flight>: <state>" line with the fake time at which it was logged.
type traceEv struct {
	At     time.Duration
	Flight string // "Flight 4b"
	State  string // Preparing | Sending | Waiting | Finished | Errored
}

type recorder struct {
	mu    sync.Mutex
	w     *world.World
	evs   [2][]traceEv
	lines [2]int
	errs  [2][]string
}

func (r *recorder) add(s side, level, msg string) {
	r.mu.Lock()
	r.lines[s]++
	if level == "E" || level == "W" {
		if len(r.errs[s]) < 8 {
			r.errs[s] = append(r.errs[s], msg)
		}
	}
	if fl, st, ok := parseFSMLine(msg); ok {
		r.evs[s] = append(r.evs[s], traceEv{At: r.w.Now(), Flight: fl, State: st})
	}
	r.mu.Unlock()
	if r.w.Verbose {
		r.w.Logf("  log[%s] %s %s", s, level, msg)
	}
}

// parseFSMLine recognises "[handshake:client] Flight 4: Waiting" and "[handshake13:server] Flight 2: Sending".
func parseFSMLine(msg string) (flight, state string, ok bool) {
	if !strings.HasPrefix(msg, "[handshake") {
		return "", "", false
	}
	i := strings.Index(msg, "] ")
	if i < 0 {
		return "", "", false
	}
	rest := msg[i+2:]
	if !strings.HasPrefix(rest, "Flight ") {
		return "", "", false
	}
	j := strings.LastIndex(rest, ": ")
	if j < 0 {
		return "", "", false
	}
	st := rest[j+2:]
	switch st {
	case "Preparing", "Sending", "Waiting", "Finished", "Errored":
		return rest[:j], st, true
	}
	return "", "", false
}

func (r *recorder) count(s side) int {
	r.mu.Lock()
	defer r.mu.Unlock()
	return len(r.evs[s])
}

func (r *recorder) slice(s side, lo, hi int) []traceEv {
	r.mu.Lock()
	defer r.mu.Unlock()
	return append([]traceEv(nil), r.evs[s][lo:hi]...)
}

func (r *recorder) totalLines() int {
	r.mu.Lock()
	defer r.mu.Unlock()
	return r.lines[0] + r.lines[1]
}

type recLogger struct {
	r *recorder
	s side
}

func (l recLogger) Trace(msg string)                  { l.r.add(l.s, "T", msg) }
func (l recLogger) Tracef(f string, a ...interface{}) { l.r.add(l.s, "T", fmt.Sprintf(f, a...)) }
func (l recLogger) Debug(msg string)                  { l.r.add(l.s, "D", msg) }
func (l recLogger) Debugf(f string, a ...interface{}) { l.r.add(l.s, "D", fmt.Sprintf(f, a...)) }
func (l recLogger) Info(msg string)                   { l.r.add(l.s, "I", msg) }
func (l recLogger) Infof(f string, a ...interface{})  { l.r.add(l.s, "I", fmt.Sprintf(f, a...)) }
func (l recLogger) Warn(msg string)                   { l.r.add(l.s, "W", msg) }
func (l recLogger) Warnf(f string, a ...interface{})  { l.r.add(l.s, "W", fmt.Sprintf(f, a...)) }
func (l recLogger) Error(msg string)                  { l.r.add(l.s, "E", msg) }
func (l recLogger) Errorf(f string, a ...interface{}) { l.r.add(l.s, "E", fmt.Sprintf(f, a...)) }

type recFactory struct {
	r *recorder
	s side
}

func (f recFactory) NewLogger(string) logging.LeveledLogger { return recLogger{f.r, f.s} }

// ---------------------------------------------------------------------------------------------
// Steps: the unit the oracle reasons about.

// inClass is the harness's ground truth about a delivered datagram (known by construction of the
// scenario, never taken from the implementation).
type inClass int

const (
	inNone    inClass = iota // timer step: nothing was delivered
	inNew                    // first delivery of data the receiver has not seen (FIFO prefix, "next genuine flight")
	inRetx                   // a genuine retransmission by the peer of a flight the receiver already has (fresh records)
	inStale                  // byte-identical copy of a datagram delivered earlier (old flight replayed)
	inGarbage                // bytes the peer never sent
	inUnknown                // delivery during a released/healed phase: may be either new or retransmitted
	inInit                   // not a delivery: what the endpoint did when its Handshake call started
)

var inNames = [...]string{"timer", "new", "retx", "stale", "garbage", "unknown", "init"}

func (c inClass) String() string { return inNames[c] }

// step is one quiescent-to-quiescent transition of the closed world, seen from the endpoint that acted.
type step struct {
	At    time.Duration
	Who   side    // the endpoint that received the datagram (delivery step) or whose timer fired (timer step)
	In    inClass // inNone = timer step
	InHas uint8   // content flags of the delivered datagram (hasClientHello)
	// InFromCompleted: the delivered datagram was emitted by the peer after the peer's FSM had reached FINISHED
	InFromCompleted bool
	Emit            []*world.Datagram
	Trace           []traceEv
	Note            string
}

const hasClientHello = 1

// sent reports whether the FSM went through SENDING during the step and something left the endpoint.
func (s *step) flightSend() (string, bool) {
	if len(s.Emit) == 0 {
		return "", false
	}
	for _, t := range s.Trace {
		if t.State == "Sending" {
			return t.Flight, true
		}
	}
	return "", false
}

func (s *step) lastState() (traceEv, bool) {
	if len(s.Trace) == 0 {
		return traceEv{}, false
	}
	return s.Trace[len(s.Trace)-1], true
}

// ---------------------------------------------------------------------------------------------
// Driver

type driver struct {
	w   *world.World
	pr  *world.Pair
	rec *recorder
	v   checks.Variant
	// cursors into the emission log / trace logs: everything before them has been attributed.
	emitCur  int
	traceCur [2]int
	steps    []*step
	// delivered[s] = datagrams delivered to side s so far (for stale replays), in order.
	delivered [2][]*world.Datagram
	maxSteps  int
	// emitClass[id] = what the datagram is for its receiver, provided the receiver got everything the
	// emitter sent before: a timer emission is a retransmission, a reaction to new data is new, a reaction
	// to anything else is a retransmission (DTLS 1.2) or possibly an ACK (DTLS 1.3: unknown).
	emitClass map[int]inClass
	// completed[s]: the FSM of s has reached FINISHED (as of the steps attributed so far);
	// byCompleted[id]: datagram id was emitted by an endpoint that had completed.
	completed   [2]bool
	byCompleted map[int]bool
	err         string // harness-level inconsistency (not a property violation)
}

// newDriver builds the pair for variant v with the given retransmission configuration. Both endpoints get
// the recorder as their logger factory (appended last, so it replaces the world's own sink).
func newDriver(w *world.World, p *world.PKI, v checks.Variant, ivl time.Duration, noBackoff bool) (*driver, error) {
	rec := &recorder{w: w}
	v.C.FlightInterval, v.S.FlightInterval = ivl, ivl
	v.C.NoBackoff, v.S.NoBackoff = noBackoff, noBackoff
	v.C.Extra = append(append([]dtls.Option(nil), v.C.Extra...), dtls.WithLoggerFactory(recFactory{rec, cli}))
	v.S.Extra = append(append([]dtls.Option(nil), v.S.Extra...), dtls.WithLoggerFactory(recFactory{rec, srv}))
	pr, err := v.Setup(w, p)
	if err != nil {
		return nil, err
	}
	d := &driver{w: w, pr: pr, rec: rec, v: v, maxSteps: 60000, emitClass: map[int]inClass{}, byCompleted: map[int]bool{}}
	// The resumption prelude (if any) used the same recorder: skip its trace and its datagrams.
	// NewPair started both handshakes; what they logged/emitted so far belongs to this association.
	d.emitCur = pr.FirstID
	for s := cli; s <= srv; s++ {
		evs := rec.slice(s, 0, rec.count(s))
		// the association's trace starts at the last "Preparing" of the very first flight logged after the prelude:
		// find the last index i such that evs[i] is a "Flight 0/1: Preparing" entry.
		start := 0
		for i, e := range evs {
			if e.State == "Preparing" && (e.Flight == "Flight 0" || e.Flight == "Flight 1") {
				start = i
			}
		}
		d.traceCur[s] = start
	}
	// From here on the driver owns the 1 ns skews (see deliver).
	w.NoSkew = true
	d.collectTimer()
	for _, st := range d.steps {
		st.In = inInit
	}
	return d, nil
}

func (d *driver) now() time.Duration { return d.w.Now() }

// log returns the emission log without copying it. Only called at settled points from the bubble's root
// goroutine (no endpoint goroutine is running, so nobody appends concurrently).
func (d *driver) log() []*world.Datagram { return d.w.Log }

// collectTimer attributes everything emitted/logged since the cursors to timer steps (one per endpoint and
// instant). It must be called at a settled point, before the next delivery.
func (d *driver) collectTimer() {
	if d.w.EmittedCount() == d.emitCur && d.rec.count(cli) == d.traceCur[cli] && d.rec.count(srv) == d.traceCur[srv] {
		return
	}
	em := d.log()
	type key struct {
		who side
		at  time.Duration
	}
	var order []key
	groups := map[key]*step{}
	get := func(k key) *step {
		if g, ok := groups[k]; ok {
			return g
		}
		g := &step{At: k.at, Who: k.who, In: inNone}
		groups[k] = g
		order = append(order, k)
		return g
	}
	for _, x := range em[d.emitCur:] {
		g := get(key{sideOf(x.Src), x.At})
		g.Emit = append(g.Emit, x)
		d.emitClass[x.ID] = inRetx
	}
	d.emitCur = len(em)
	for s := cli; s <= srv; s++ {
		n := d.rec.count(s)
		for _, t := range d.rec.slice(s, d.traceCur[s], n) {
			g := get(key{s, t.At})
			g.Trace = append(g.Trace, t)
		}
		d.traceCur[s] = n
	}
	// order: by time, then by first appearance (emission order is global and deterministic)
	for i := 1; i < len(order); i++ {
		for j := i; j > 0 && order[j].at < order[j-1].at; j-- {
			order[j], order[j-1] = order[j-1], order[j]
		}
	}
	for _, k := range order {
		g := groups[k]
		d.noteCompletion(g)
		d.steps = append(d.steps, g)
	}
}

// noteCompletion updates the completion flags from the step's trace and stamps its emissions.
func (d *driver) noteCompletion(g *step) {
	for _, t := range g.Trace {
		if t.State == "Finished" {
			d.completed[g.Who] = true
		}
	}
	for _, x := range g.Emit {
		d.byCompleted[x.ID] = d.completed[sideOf(x.Src)]
	}
}

// deliver hands bytes to side `to` as coming from its peer and records the reaction as one delivery step.
// The 1 ns skew before the delivery is performed here (and anything a timer does during that nanosecond is
// attributed to a timer step), then the datagram is pushed with no further passage of fake time, so that
// everything emitted before the next settled point is a reaction to this datagram and nothing else.
func (d *driver) deliver(to side, data []byte, class inClass, note string) *step {
	w := d.w
	w.Sleep(time.Nanosecond)
	d.collectTimer()
	st := &step{At: w.Now(), Who: to, In: class, Note: note}
	if containsClientHello(data) {
		st.InHas |= hasClientHello
	}
	w.Push(to.other().addr(), to.addr(), data)
	w.Settle()
	em := d.log()
	for _, x := range em[d.emitCur:] {
		st.Emit = append(st.Emit, x)
		switch {
		case class == inNew:
			d.emitClass[x.ID] = inNew
		case class == inUnknown || d.v.V13:
			d.emitClass[x.ID] = inUnknown
		default:
			d.emitClass[x.ID] = inRetx
		}
	}
	d.emitCur = len(em)
	for s := cli; s <= srv; s++ {
		n := d.rec.count(s)
		if s == to {
			st.Trace = d.rec.slice(s, d.traceCur[s], n)
		} else if n != d.traceCur[s] {
			d.err = fmt.Sprintf("harness: %s logged FSM lines during a delivery to %s", s, to)
		}
		d.traceCur[s] = n
	}
	if w.Now() != st.At {
		d.err = fmt.Sprintf("harness: fake time moved during a delivery (%v -> %v)", st.At, w.Now())
	}
	d.noteCompletion(st)
	d.steps = append(d.steps, st)
	if w.Verbose {
		w.Logf("deliver[%s] to %s %s -> emitted %d, trace %v", class, to, world.Describe(data), len(st.Emit), st.Trace)
	}
	return st
}

// deliverDatagram delivers an in-flight (or previously taken) datagram unchanged.
func (d *driver) deliverDatagram(x *world.Datagram, class inClass, note string) *step {
	d.w.Take(x)
	to := sideOf(x.Dst)
	st := d.deliver(to, x.Data, class, note)
	st.InFromCompleted = d.byCompleted[x.ID]
	d.delivered[to] = append(d.delivered[to], x)
	return st
}

// takeAll removes every in-flight datagram and returns them (emission order).
func (d *driver) takeAll() []*world.Datagram {
	fl := d.w.InFlight()
	for _, x := range fl {
		d.w.Take(x)
	}
	return fl
}

// advance lets fake time run until `until` (absolute) or the next emission, whichever is first.
// It returns true if an endpoint emitted.
func (d *driver) advance(until time.Duration) bool {
	d.w.Settle()
	left := until - d.now()
	if left <= 0 {
		return false
	}
	d.w.DrainActivity()
	if d.w.Head() != nil {
		return true
	}
	// WaitActivity adds 777 µs to its own timer; compensate so that `until` is honoured to the microsecond
	// (the harness timer stays off the library's timer grid because scenario times are not multiples of it).
	wait := left - 777*time.Microsecond
	if wait <= 0 {
		d.w.Sleep(left)
		return d.w.Head() != nil
	}
	act := d.w.WaitActivity(wait)
	d.w.Settle()
	return act || d.w.Head() != nil
}

func containsClientHello(b []byte) bool {
	recs, _ := world.ParseDatagram(b, 0)
	for _, r := range recs {
		for _, f := range r.HS {
			if f.Type == 1 {
				return true
			}
		}
	}
	return false
}

// hrrRandom is the fixed ServerHello.random that marks a HelloRetryRequest (RFC 8446 §4.1.3).
var hrrRandom = []byte{0xCF, 0x21, 0xAD, 0x74, 0xE5, 0x9A, 0x61, 0x11, 0xBE, 0x1D, 0x8C, 0x02, 0x1E, 0x65, 0xB8, 0x91,
	0xC2, 0xA2, 0x11, 0x16, 0x7A, 0xBB, 0x8C, 0x5E, 0x07, 0x9E, 0x09, 0xE2, 0xC8, 0xA8, 0x33, 0x9C}

// cookieRequests counts HelloVerifyRequest messages and HelloRetryRequest ServerHellos in a datagram.
func cookieRequests(b []byte) int {
	n := 0
	recs, _ := world.ParseDatagram(b, 0)
	for _, r := range recs {
		for _, f := range r.HS {
			switch {
			case f.Type == 3:
				n++
			case f.Type == 2 && f.FragOff == 0 && len(f.Body) >= 34 && string(f.Body[2:34]) == string(hrrRandom):
				n++
			}
		}
	}
	return n
}

func shapeOf(b []byte) string { return world.Describe(b) }

// resequence returns a copy of datagram b in which every cleartext (epoch 0, legacy header) record carries
// a fresh record sequence number (base, base+1, ...): an old flight that passes the replay filter, as an
// off-path sender or a retransmitting peer would produce it. Protected records are left untouched (they
// remain replays and are discarded by the receiver).
func resequence(b []byte, base uint64) []byte {
	out := append([]byte(nil), b...)
	recs, _ := world.ParseDatagram(b, 0)
	off := 0
	for _, r := range recs {
		if !r.Unified && r.Epoch == 0 && len(r.Raw) >= 13 {
			q := base
			base++
			for i := 0; i < 6; i++ {
				out[off+5+i] = byte(q >> (8 * uint(5-i)))
			}
		}
		off += len(r.Raw)
	}
	return out
}

// emptyFragments returns, for a datagram with plaintext (epoch 0) handshake records, a datagram in which every
// such record is replaced by a record (fresh sequence numbers from base) holding one zero-length fragment of
// the same non-empty message at offset 0: what a conforming peer that emits empty fragments would send when it
// repeats the message. nil if the datagram has no such record. pion itself never emits one.
func emptyFragments(b []byte, base uint64) []byte {
	recs, _ := world.ParseDatagram(b, 0)
	var out []byte
	for _, r := range recs {
		if r.Unified || r.Epoch != 0 || len(r.Raw) < 25 || r.Raw[0] != 22 {
			continue
		}
		h := r.Raw[13:25]
		if h[1] == 0 && h[2] == 0 && h[3] == 0 {
			continue // empty message
		}
		rec := append([]byte(nil), r.Raw[:13]...)
		q := base
		base++
		for i := 0; i < 6; i++ {
			rec[5+i] = byte(q >> (8 * uint(5-i)))
		}
		rec[11], rec[12] = 0, 12
		rec = append(rec, h[0], h[1], h[2], h[3], h[4], h[5], 0, 0, 0, 0, 0, 0)
		out = append(out, rec...)
	}
	return out
}
