//go:build verif

package c17

import (
	"fmt"
	"strings"
	"time"
)

// The oracle. It is evaluated per endpoint over the sequence of steps (obs.go) and demands exactly what the
// property text states (numbers refer to the rule names used in violation keys):
//
//  timer-law      "In the absence of incoming datagrams an endpoint that awaits a reply retransmits its current
//                 flight at intervals that start at the configured value and double after each timeout up to
//                 60 s (constant if backoff is disabled)": every emission that is not a reaction to a delivery
//                 (a timer step) must happen exactly ivl(n) after the previous (re)transmission of the flight,
//                 n = number of retransmissions of that flight since the last NEW data, ivl(n)=min(I*2^n,60s)
//                 (or I). Fake-clock timestamps are exact; tolerance 5 µs.
//  reset          "the initial interval being restored when new, not retransmitted, data arrives": a flight
//                 sent in reaction to NEW data starts at n=0. After retransmitted / stale / garbage input n is
//                 NOT reset: if the endpoint reacts by re-sending its flight (RFC 9147 §5.8.1 "read
//                 retransmit": the DTLS 1.3 FSM does that and treats it like a timeout), n may stay or grow by
//                 one; if it does not react, the pending timer and n are untouched. New data that does not yet
//                 complete the peer's flight resets n; whether the running timer is re-armed is not stated by
//                 the text, so both "keeps running" and "re-armed at I" are accepted.
//  cookie         "cookie requests are never retransmitted on a timer": a HelloVerifyRequest / HelloRetryRequest
//                 leaves the server only inside the reaction to a datagram carrying a ClientHello, at most one
//                 per datagram.
//  finished       "After completing it re-sends its final flight only in response to the peer's
//                 retransmission": once an endpoint's FSM has reached FINISHED, a DTLS 1.2 endpoint never
//                 emits on a timer, and no completed endpoint sends a flight in reaction to garbage. (A
//                 completed DTLS 1.3 server owns one reliable post-handshake message, NewSessionTicket, which
//                 awaits an ACK and therefore follows timer-law: it must be retransmitted on schedule until a
//                 datagram emitted by the COMPLETED client - which can only be an ACK - reaches the server, and
//                 never afterwards; after any other new datagram retransmissions are allowed, on schedule, but
//                 not required, because the harness cannot look inside protected records.)
//  bound          "The number of datagrams an endpoint emits is bounded by its timer schedule plus a constant per
//                 datagram received": a reaction has at most C datagrams, a timer step at most F (C, F
//                 measured on the variant's default run), and in total emitted <= (1+timer steps)*F + C*received.
//  overdue        liveness half of timer-law: at the end of the observation no endpoint that awaits a reply is
//                 later than ivl(n) since its last transmission.
//  storm          (evaluated by the driver) a bounded injection never produces an unbounded zero-time exchange.

const tol = 5 * time.Microsecond

type law struct {
	I         time.Duration
	NoBackoff bool
	V13       bool
	C, F      int           // reaction bound / flight size (datagrams), measured on the default run
	End       time.Duration // end of observation (absolute fake time)
}

func (l law) ivl(n int) time.Duration {
	g := l.I
	if l.NoBackoff {
		return g
	}
	for i := 0; i < n; i++ {
		g *= 2
		if g > 60*time.Second {
			return 60 * time.Second
		}
	}
	return g
}

type violation struct {
	Rule string // short rule name (part of the key)
	Who  side
	Text string
	Ctx  string // flight/state context for the key
}

// epModel is the reference state of one endpoint.
type epModel struct {
	who       side
	completed bool // FSM reached FINISHED at least once
	fsmState  string
	flight    string
	// retransmission chain of the flight currently awaiting a reply
	active   bool
	optional bool // the reply may or may not have arrived (released phase): emissions allowed, not required
	post     bool // chain of a post-handshake message (DTLS 1.3 NewSessionTicket)
	anchor   time.Duration
	lo, hi   int
	// new data arrived since the last transmission without completing a flight
	pendingNew bool
	// every input pending since the last transmission was of class unknown (new or not: the harness cannot tell)
	pendingUnknown bool
	pendingAt      time.Duration
	loOld          int
	hiOld          int

	timerSteps, recvd, emitted int
	timerChecked               int
	triggered                  int // flight sends in reaction to non-new input
	reactions                  int // delivery steps with emissions
}

type evalResult struct {
	Viol   []violation
	Models [2]*epModel
}

func absDur(d time.Duration) time.Duration {
	if d < 0 {
		return -d
	}
	return d
}

// evaluate runs the law over the steps. dead[s] tells that the endpoint's handshake failed (no liveness).
func evaluate(l law, steps []*step, dead [2]bool) evalResult {
	ms := [2]*epModel{{who: cli}, {who: srv}}
	var out []violation
	add := func(rule string, m *epModel, s *step, format string, a ...any) {
		if len(out) >= 6 {
			return
		}
		ctx := fmt.Sprintf("%s/%s", m.flight, m.fsmState)
		out = append(out, violation{Rule: rule, Who: m.who, Ctx: ctx,
			Text: fmt.Sprintf("%s @%v [%s %s, in=%s]: ", m.who, s.At, m.flight, m.fsmState, s.In) + fmt.Sprintf(format, a...)})
	}
	for _, s := range steps {
		m := ms[s.Who]
		nEmit := len(s.Emit)
		for _, e := range s.Emit {
			if sideOf(e.Src) != s.Who {
				add("harness-attribution", m, s, "datagram #%d emitted by %s during a step of %s", e.ID, sideOf(e.Src), s.Who)
			}
		}
		_, isSend := s.flightSend()
		cookies := 0
		for _, e := range s.Emit {
			cookies += cookieRequests(e.Data)
		}
		wasCompleted := m.completed
		flightBefore := m.flight
		for _, t := range s.Trace {
			if t.State == "Finished" {
				m.completed = true
			}
			m.fsmState, m.flight = t.State, t.Flight
		}
		m.emitted += nEmit

		switch s.In {
		case inInit:
			if isSend {
				m.active, m.post, m.optional, m.anchor, m.lo, m.hi = true, false, false, s.At, 0, 0
			}
		case inNone:
			if nEmit == 0 {
				continue
			}
			m.timerSteps++
			if cookies > 0 {
				add("cookie-on-timer", m, s, "a HelloVerifyRequest/HelloRetryRequest left the server with no datagram delivered to it (timer retransmission): %s", descEmit(s))
			}
			if wasCompleted && !l.V13 {
				add("finished-timer-emission", m, s, "a completed DTLS 1.2 endpoint emitted %s on a timer, %v after its previous transmission (no datagram was delivered to it at that instant)", descEmit(s), s.At-m.anchor)
			} else if !m.active {
				add("timer-without-flight", m, s, "emitted %s on a timer although no flight of it awaits a reply", descEmit(s))
			} else {
				gap := s.At - m.anchor
				jmin, jmax := -1, -1
				for j := m.lo; j <= m.hi; j++ {
					if absDur(gap-l.ivl(j)) <= tol {
						if jmin < 0 {
							jmin = j
						}
						jmax = j
					}
				}
				okOld := false
				if m.pendingNew {
					for j := m.loOld; j <= m.hiOld; j++ {
						if absDur(gap-l.ivl(j)) <= tol {
							okOld = true
						}
					}
					if absDur(s.At-m.pendingAt-l.I) <= tol {
						okOld = true
					}
				}
				switch {
				case m.pendingNew && (okOld || jmin >= 0):
					m.lo, m.hi = 1, 1
					if m.pendingUnknown && jmin >= 0 {
						// the harness could not tell whether the pending input was new to the endpoint (a protected
						// DTLS 1.3 record, a delivery of the released phase): the count may also simply have gone on
						m.hi = jmax + 1
					}
					m.timerChecked++
				case jmin >= 0:
					m.lo, m.hi = jmin+1, jmax+1
					m.timerChecked++
				default:
					add("timer-law", m, s, "retransmission %v after the previous transmission of the flight; the law allows %s (initial interval %v, backoff %v, retransmissions since last new data in [%d,%d])",
						gap, l.allowed(m.lo, m.hi), l.I, !l.NoBackoff, m.lo, m.hi)
					// resynchronise on the observed behaviour so that one deviation is reported once
					m.lo, m.hi = l.guessN(gap)+1, l.guessN(gap)+1
				}
			}
			m.pendingNew = false
			m.anchor = s.At
			if nEmit > l.F {
				add("bound-flight", m, s, "timer step emitted %d datagrams, more than the largest flight of the default run (%d)", nEmit, l.F)
			}
		default: // a delivery
			m.recvd++
			if nEmit > 0 {
				m.reactions++
			}
			if nEmit > l.C {
				add("bound-reaction", m, s, "%d datagrams emitted in reaction to ONE delivered datagram (%s); per-datagram constant of this variant is %d", nEmit, s.In, l.C)
			}
			if cookies > 0 && (s.InHas&hasClientHello == 0 || cookies > 1 || s.Who != srv) {
				add("cookie-unsolicited", m, s, "%d cookie request(s) emitted in reaction to a datagram without ClientHello (or more than one per datagram)", cookies)
			}
			if wasCompleted && isSend && s.In == inGarbage {
				add("finished-resend-on-garbage", m, s, "a completed endpoint re-sent its flight (%s) in reaction to garbage", descEmit(s))
			}
			newish := s.In == inNew || s.In == inUnknown
			switch {
			case isSend && cookies == 0:
				switch {
				case l.V13 && s.In == inNew && m.active && !m.post && m.flight == flightBefore:
					// DTLS 1.3: the input was new to the endpoint (an acknowledgement of part of its flight, a
					// further fragment of the peer's flight) and the endpoint answered by sending its CURRENT flight,
					// or what is left of it, again. The text gives the interval after a timeout and after new
					// data; this transmission is neither a timeout nor a new flight: the count may restart (new
					// data arrived) or go on by one (the FSM books the transmission as a retransmission).
					m.lo, m.hi = 0, m.hi+1
					m.triggered++
				case s.In == inNew || !m.active:
					m.lo, m.hi = 0, 0
					if s.In != inNew {
						m.triggered++
						if s.In == inUnknown {
							m.lo, m.hi = 0, 1
						}
					}
				case s.In == inUnknown:
					m.lo, m.hi = 0, m.hi+1
				default:
					m.hi++
					m.triggered++
				}
				m.active, m.post, m.anchor, m.pendingNew = true, false, s.At, false
				m.optional = s.In == inUnknown
			case isSend && cookies > 0:
				m.active, m.pendingNew = false, false
			case newish && m.active && !m.post:
				if !m.pendingNew {
					m.loOld, m.hiOld = m.lo, m.hi
				}
				if !m.pendingNew {
					m.pendingUnknown = true
				}
				m.pendingNew, m.pendingAt = true, s.At
				if s.In == inUnknown {
					m.optional = true
				} else {
					m.pendingUnknown = false // at least one pending input is known to be new
				}
			}
			// completion
			if m.completed && !wasCompleted {
				m.active, m.pendingNew = false, false
				if l.V13 && s.Who == srv && nEmit > 0 {
					// NewSessionTicket: a reliable post-handshake message awaiting its ACK
					m.active, m.post, m.optional, m.anchor, m.lo, m.hi = true, true, false, s.At, 0, 0
				}
			} else if m.completed && !l.V13 && m.fsmState == "Finished" {
				// DTLS 1.2 FINISHED has no timer
				m.active, m.pendingNew = false, false
			} else if wasCompleted && m.post && m.active && s.InFromCompleted {
				// a completed DTLS 1.3 client only ever emits ACKs: the post-handshake message is acknowledged
				m.active = false
			} else if wasCompleted && m.post && m.active && newish {
				// this may be the ACK for the post-handshake message (records are encrypted: the harness cannot
				// tell): from here on retransmissions of it are allowed (on schedule) but not required
				m.optional = true
			}
		}
	}
	for _, m := range ms {
		if m.active && !m.optional && !dead[m.who] {
			if late := l.End - m.anchor; late > l.ivl(m.hi)+tol {
				s := &step{At: l.End, Who: m.who}
				add("overdue", m, s, "no retransmission although the flight sent at %v still awaits a reply: %v elapsed, the law allows at most %v", m.anchor, late, l.ivl(m.hi))
			}
		}
		// total bound (implied by the per-step bounds; asserted as stated by the property)
		if max := (1+m.timerSteps)*l.F + l.C*m.recvd; m.emitted > max {
			s := &step{At: l.End, Who: m.who}
			add("bound-total", m, s, "emitted %d datagrams > (1+%d timer firings)*%d + %d*%d received", m.emitted, m.timerSteps, l.F, l.C, m.recvd)
		}
	}
	return evalResult{Viol: out, Models: ms}
}

func (l law) allowed(lo, hi int) string {
	var p []string
	seen := map[time.Duration]bool{}
	for j := lo; j <= hi && len(p) < 4; j++ {
		if g := l.ivl(j); !seen[g] {
			seen[g] = true
			p = append(p, g.String())
		}
	}
	return "{" + strings.Join(p, ",") + "}"
}

// guessN returns the n whose interval is closest to gap (for resynchronisation after a deviation).
func (l law) guessN(gap time.Duration) int {
	best, bd := 0, time.Duration(1<<62)
	for j := 0; j < 12; j++ {
		if d := absDur(gap - l.ivl(j)); d < bd {
			best, bd = j, d
		}
	}
	return best
}

func descEmit(s *step) string {
	var p []string
	for i, e := range s.Emit {
		if i == 3 {
			p = append(p, "...")
			break
		}
		p = append(p, shapeOf(e.Data))
	}
	return fmt.Sprintf("%d datagram(s) [%s]", len(s.Emit), strings.Join(p, " | "))
}
