package c16

import (
	"crypto/tls"
	"crypto/x509"
	"errors"
	"fmt"
	"strings"
	"testing"
	"time"

	dtls "github.com/pion/dtls/v3"
	"github.com/pion/dtls/v3/zzverif/run"
	"github.com/pion/dtls/v3/zzverif/world"
)

// Callback-fault family. Application-supplied code the library calls during a handshake — certificate and PSK
// callbacks, verification callbacks, the connection-ID generator, the session store — fails, or answers with
// nothing, at its k-th call. Whatever the handshake then does (fail is fine), the lifecycle clauses hold: every
// Close returns (twice, on both sides), every pending call returns, nothing is left behind, nothing panics (a
// panic in a library goroutine ends the worker and is reported for the journalled case).

var errInjectedCallback = errors.New("injected: backend unavailable")

// faultStore wraps a session store; the k-th Get / Set / Del (per kind) fails. Set stores before it reports the
// error (a write-through cache whose backing write failed); Get hands back a partial session with the error.
type faultStore struct {
	in                  *world.MapStore
	getAt, setAt, delAt int
	gets, sets, dels    int
}

func (s *faultStore) Get(k []byte) (dtls.Session, error) {
	s.gets++
	if s.gets == s.getAt {
		return dtls.Session{ID: append([]byte(nil), k...)}, errInjectedCallback
	}
	return s.in.Get(k)
}

func (s *faultStore) Set(k []byte, v dtls.Session) error {
	s.sets++
	err := s.in.Set(k, v)
	if s.sets == s.setAt {
		return errInjectedCallback
	}
	return err
}

func (s *faultStore) Del(k []byte) error {
	s.dels++
	if s.dels == s.delAt {
		return errInjectedCallback
	}
	return s.in.Del(k)
}

type cbFault struct {
	name string
	v13  bool
	mk   func(p *world.PKI) (c, s world.Cfg)
}

func cbFaults() []cbFault {
	countErr := func(at int, ok func() (*tls.Certificate, error)) func(*dtls.ClientHelloInfo) (*tls.Certificate, error) {
		n := 0
		return func(*dtls.ClientHelloInfo) (*tls.Certificate, error) {
			n++
			if n == at || at < 0 {
				return nil, errInjectedCallback
			}
			return ok()
		}
	}
	pskAt := func(key []byte, at int) dtls.Option {
		n := 0
		return dtls.WithPSK(func([]byte) ([]byte, error) {
			n++
			if n == at || at < 0 {
				return nil, errInjectedCallback
			}
			return key, nil
		})
	}
	key := []byte{7, 7, 7, 7}
	pskCfg := func() world.Cfg {
		return world.Cfg{Cred: "psk", PSK: key, Suites: []dtls.CipherSuiteID{dtls.TLS_PSK_WITH_AES_128_GCM_SHA256}}
	}
	var out []cbFault
	for _, v13 := range []bool{false, true} {
		ver := func(c world.Cfg) world.Cfg {
			if v13 {
				c.MinV, c.MaxV = 13, 13
			}
			return c
		}
		tag := map[bool]string{false: "12", true: "13"}[v13]
		for _, at := range []int{1, 2, -1} {
			at := at
			out = append(out, cbFault{fmt.Sprintf("%s/server-getcertificate-error@%d", tag, at), v13, func(p *world.PKI) (world.Cfg, world.Cfg) {
				s := ver(world.Cfg{Cred: "none"})
				cert := world.CertFor(p, "ecdsa", false)
				s.ExtraServer = []dtls.ServerOption{dtls.WithGetCertificate(countErr(at, func() (*tls.Certificate, error) { return cert, nil }))}
				return ver(world.Cfg{}), s
			}})
		}
		out = append(out, cbFault{tag + "/server-getcertificate-nil-nil", v13, func(p *world.PKI) (world.Cfg, world.Cfg) {
			s := ver(world.Cfg{Cred: "none"})
			s.ExtraServer = []dtls.ServerOption{dtls.WithGetCertificate(func(*dtls.ClientHelloInfo) (*tls.Certificate, error) { return nil, nil })}
			return ver(world.Cfg{ServerName: "not-served.example"}), s
		}})
		out = append(out, cbFault{tag + "/server-getcertificate-nil-nil-after-first", v13, func(p *world.PKI) (world.Cfg, world.Cfg) {
			s := ver(world.Cfg{Cred: "none"})
			cert := world.CertFor(p, "ecdsa", false)
			n := 0
			s.ExtraServer = []dtls.ServerOption{dtls.WithGetCertificate(func(*dtls.ClientHelloInfo) (*tls.Certificate, error) {
				n++
				if n == 1 {
					return cert, nil
				}
				return nil, nil
			})}
			return ver(world.Cfg{}), s
		}})
		for _, at := range []int{1, -1} {
			at := at
			out = append(out, cbFault{fmt.Sprintf("%s/client-getclientcertificate-error@%d", tag, at), v13, func(p *world.PKI) (world.Cfg, world.Cfg) {
				c := ver(world.Cfg{})
				c.ExtraClient = []dtls.ClientOption{dtls.WithGetClientCertificate(func(*dtls.CertificateRequestInfo) (*tls.Certificate, error) {
					return nil, errInjectedCallback
				})}
				return c, ver(world.Cfg{ClientAuth: dtls.RequireAndVerifyClientCert})
			}})
		}
		out = append(out, cbFault{tag + "/client-verifypeercertificate-error", v13, func(p *world.PKI) (world.Cfg, world.Cfg) {
			c := ver(world.Cfg{})
			c.Extra = []dtls.Option{dtls.WithVerifyPeerCertificate(func([][]byte, [][]*x509.Certificate) error { return errInjectedCallback })}
			return c, ver(world.Cfg{})
		}})
		out = append(out, cbFault{tag + "/server-verifyconnection-error", v13, func(p *world.PKI) (world.Cfg, world.Cfg) {
			s := ver(world.Cfg{})
			s.Extra = []dtls.Option{dtls.WithVerifyConnection(func(*dtls.State) error { return errInjectedCallback })}
			return ver(world.Cfg{}), s
		}})
		out = append(out, cbFault{tag + "/client-verifyconnection-error", v13, func(p *world.PKI) (world.Cfg, world.Cfg) {
			c := ver(world.Cfg{})
			c.Extra = []dtls.Option{dtls.WithVerifyConnection(func(*dtls.State) error { return errInjectedCallback })}
			return c, ver(world.Cfg{})
		}})
		for _, who := range []string{"client", "server"} {
			for _, kind := range []string{"nil", "long"} {
				who, kind := who, kind
				out = append(out, cbFault{fmt.Sprintf("%s/%s-cid-generator-%s", tag, who, kind), v13, func(p *world.PKI) (world.Cfg, world.Cfg) {
					c, s := ver(world.Cfg{CIDLen: 4}), ver(world.Cfg{CIDLen: 4})
					gen := dtls.WithConnectionIDGenerator(func() []byte {
						if kind == "long" {
							return make([]byte, 300)
						}
						return nil
					})
					if who == "client" {
						c.CIDLen = 0
						c.Extra = []dtls.Option{gen}
					} else {
						s.CIDLen = 0
						s.Extra = []dtls.Option{gen}
					}
					return c, s
				}})
			}
		}
	}
	for _, who := range []string{"client", "server"} {
		for _, at := range []int{1, 2, -1} {
			who, at := who, at
			out = append(out, cbFault{fmt.Sprintf("12/%s-psk-callback-error@%d", who, at), false, func(p *world.PKI) (world.Cfg, world.Cfg) {
				c, s := pskCfg(), pskCfg()
				if who == "client" {
					c.Extra = []dtls.Option{pskAt(key, at)}
				} else {
					s.Extra = []dtls.Option{pskAt(key, at)}
					s.MTU, c.MTU = 120, 120 // the client's last flight spans several datagrams: the server parses it in passes
				}
				return c, s
			}})
		}
		for _, op := range []string{"get", "set", "del"} {
			for _, at := range []int{1, 2} {
				who, op, at := who, op, at
				out = append(out, cbFault{fmt.Sprintf("12/%s-sessionstore-%s-error@%d", who, op, at), false, func(p *world.PKI) (world.Cfg, world.Cfg) {
					fs := &faultStore{in: world.NewMapStore()}
					switch op {
					case "get":
						fs.getAt = at
					case "set":
						fs.setAt = at
					default:
						fs.delAt = at
					}
					c, s := world.Cfg{Store: world.NewMapStore()}, world.Cfg{Store: world.NewMapStore()}
					if who == "client" {
						c.Store = fs
					} else {
						s.Store = fs
					}
					return c, s
				}})
			}
		}
	}
	return out
}

func callbackFaultRun(t *testing.T, p *world.PKI, f cbFault, seed uint64) run.Outcome {
	var o run.Outcome
	var viol []string
	bad := func(fm string, a ...any) { viol = append(viol, fmt.Sprintf(fm, a...)) }
	leak := world.RunLeak(t, seed, func(w *world.World) {
		cc, sc := f.mk(p)
		c, err := w.NewEndpoint(p, true, world.ClientAddr, world.ServerAddr, cc)
		if err != nil {
			o.Skip, o.Class = true, "config-refused"
			return
		}
		s, err := w.NewEndpoint(p, false, world.ServerAddr, world.ClientAddr, sc)
		if err != nil {
			o.Skip, o.Class = true, "config-refused"
			_ = c.Conn.Close()
			return
		}
		pr := &world.Pair{W: w, C: c, S: s, FirstID: w.EmittedCount()}
		c.StartHandshake()
		w.Settle()
		s.StartHandshake()
		w.Settle()
		n := world.NewNet(w, world.ClientAddr, nil)
		// two connections' worth of handshakes for the session-store faults (the second one resumes)
		_ = n.Pump(20*time.Second, pr.BothDone)
		n.Flush()
		cd, cerr := c.HS.Result()
		sd, serr := s.HS.Result()
		if cd && cerr == nil && sd && serr == nil {
			// both fine (the fault did not bite, or was tolerated): data must flow
			for _, dir := range [][2]*world.Endpoint{{c, s}, {s, c}} {
				got, rerr, werr := pr.Transfer(n, dir[0], dir[1], []byte("after-callback-fault"), 5*time.Second)
				if rerr != nil || werr != nil || string(got) != "after-callback-fault" {
					bad("both Handshake calls returned nil but data %s->%s does not flow: write=%v read=%v", dir[0].Name, dir[1].Name, werr, rerr)
				}
			}
		}
		// lifecycle: Close twice on each side; everything returns
		var closes []*world.Op
		for i := 0; i < 2; i++ {
			closes = append(closes, startCloseNoSkew(w, c, i), startCloseNoSkew(w, s, i))
			w.SettleLoose()
		}
		for _, d := range w.InFlight() {
			w.Take(d)
		}
		w.SettleLoose()
		if world.MutexBlocked() {
			bad("a goroutine is still waiting on a mutex after both sides were closed: %s", world.BubbleInventory())
			return
		}
		w.Settle()
		for _, op := range closes {
			if !op.Done() {
				bad("%s did not return", op.Name)
			}
		}
		for _, op := range w.Ops() {
			if !op.Done() {
				bad("application call %s still blocked after both sides were closed", op.Name)
			}
		}
		o.NonTrivial = true
		o.Class = fmt.Sprintf("callback-fault client-hs=%s server-hs=%s", hsClass(cd, cerr), hsClass(sd, serr))
	})
	if leak != "" {
		viol = append(viol, "goroutines left behind: "+firstLine(leak))
	}
	if len(viol) > 0 {
		o.Violation = fmt.Sprintf("case callback-fault/%s: %s", f.name, strings.Join(viol, "; "))
		o.Key = "callback-fault:" + firstLine(viol[0])
	}
	o.Sample = map[string]any{"fault": f.name, "class": o.Class}
	return o
}

func hsClass(done bool, err error) string {
	switch {
	case !done:
		return "pending"
	case err == nil:
		return "ok"
	}
	return "failed"
}

func callbackFaultCases(p *world.PKI, seed uint64) []run.Case {
	var cases []run.Case
	for _, f := range cbFaults() {
		f := f
		cases = append(cases, run.Case{ID: "callback-fault/" + f.name, Run: func(t *testing.T) run.Outcome { return callbackFaultRun(t, p, f, seed) }})
	}
	return cases
}
