package c16

import (
	"fmt"
	"strings"
	"testing"
	"time"

	"github.com/pion/dtls/v3/zzverif/checks"
	"github.com/pion/dtls/v3/zzverif/refimpl"
	"github.com/pion/dtls/v3/zzverif/run"
	"github.com/pion/dtls/v3/zzverif/world"
)

// Handshake-epoch alert family (DTLS 1.3). A conforming peer that gives up in the middle of a DTLS 1.3
// handshake — a client that rejects the server's certificate, a server that rejects the client's — protects its
// alert with the handshake traffic keys (epoch 2) once it has them (RFC 8446 §6, RFC 9147 §4). This library's
// own endpoints send handshake-time alerts differently, so with two library endpoints the receiver's path for
// such a record is never walked.
//
// One execution: the pair runs step by step on a reliable network. The first datagram of Y all of whose records
// are unified-header records of epoch 2 (the server's EncryptedExtensions.. flight for X = client, the client's
// final flight for X = server) is NOT delivered; in its place X receives one alert record sealed by the
// reference record layer under Y's handshake traffic secret with the record number of the first withheld record
// (counted from Y's earlier epoch-2 records; a number X has not seen). X holds the read keys of epoch 2 at that point: it has processed the ServerHello (a
// datagram of its own, delivered and settled before) resp. has sent its own ServerHello. From then on the
// network is silent, and fake time advances by 300 ms only (the first retransmission timer is 1 s away).
//
// Oracle ("a received fatal alert closes the connection in the same way", "unblocks every pending Handshake"):
// for a fatal alert and for close_notify X's Handshake has returned with an error, a Read returns a closed-class
// error at once, Close returns, nothing is left behind.
var hsAlerts = []authAlert{{"fatal-bad_certificate", 2, 42}, {"fatal-handshake_failure", 2, 40}, {"close_notify", 1, 0}}

func hsAlertRun(t *testing.T, p *world.PKI, v checks.Variant, xIsClient bool, al authAlert, seed uint64) run.Outcome {
	var o run.Outcome
	var viol []string
	bad := func(f string, a ...any) { viol = append(viol, fmt.Sprintf(f, a...)) }
	leak := world.RunLeak(t, seed, func(w *world.World) {
		pr, err := v.Setup(w, p)
		if err != nil {
			o.Skip = true
			return
		}
		x, y := pr.S, pr.C
		if xIsClient {
			x, y = pr.C, pr.S
		}
		n := world.NewNet(w, world.ClientAddr, nil)
		w.CIDLenHint = pr.CIDLenFor
		injected := false
		for i := 0; i < 400 && !injected && !pr.BothDone(); i++ {
			for _, d := range w.InFlight() {
				if d.Src != y.Addr || x.HS.Done() {
					continue
				}
				recs, perr := world.ParseDatagram(d.Data, pr.CIDLenFor(y.Addr))
				if perr != nil || len(recs) == 0 {
					continue
				}
				all := true
				for _, r := range recs {
					if !r.Unified || r.Epoch&3 != 2 {
						all = false
					}
				}
				if !all {
					continue
				}
				sec, ok := pr.GetSecrets()
				if !ok || !sec.V13 {
					continue
				}
				ts := sec.HSClient
				if xIsClient {
					ts = sec.HSServer
				}
				if len(ts) == 0 {
					continue
				}
				// record number: Y's epoch-2 numbers start at 0; the records of its earlier datagrams used the first ones
				seq := uint64(0)
				for _, e := range w.Emitted() {
					if e.Src != y.Addr || e.ID >= d.ID {
						continue
					}
					er, _ := world.ParseDatagram(e.Data, pr.CIDLenFor(y.Addr))
					for _, r := range er {
						if r.Unified && r.Epoch&3 == 2 {
							seq++
						}
					}
				}
				rec, serr := refimpl.Seal13(sec.Suite, refimpl.TrafficKeys13(sec.Suite, ts), refimpl.Record13{Type: world.CTAlert, Epoch: 2,
					Seq: seq, CID: recs[0].CID, Seq16: true, WithLength: true, Payload: []byte{al.level, al.desc}})
				if serr != nil {
					bad("harness: sealing the alert failed: %v", serr)
					return
				}
				w.Take(d)
				w.Push(y.Addr, x.Addr, rec)
				w.Settle()
				injected = true
				break
			}
			if injected || !n.Step() {
				break
			}
		}
		if !injected {
			o.Skip = true
			o.Class = "no-injection-point"
			pr.CloseAll()
			return
		}
		// silence: everything in flight is lost, 300 ms pass
		for k := 0; k < 6; k++ {
			for _, d := range w.InFlight() {
				w.Take(d)
			}
			w.Sleep(50 * time.Millisecond)
			w.SettleLoose()
		}
		for _, d := range w.InFlight() {
			w.Take(d)
		}
		xDone, xerr := x.HS.Result()
		if !xDone {
			bad("%s: Handshake still blocked 300 ms after the peer's authentic %s alert under the handshake traffic keys (epoch 2)", x.Name, al.name)
		} else if xerr == nil {
			bad("%s: Handshake returned nil after the peer's %s alert", x.Name, al.name)
		}
		closed := false
		if xDone {
			_ = x.Conn.SetReadDeadline(time.Now().Add(50 * time.Millisecond))
			rd := startRead(w, x)
			w.Sleep(60 * time.Millisecond)
			w.SettleLoose()
			if rd.Done() {
				if _, e := rd.Result(); e != nil {
					closed = true
				}
			} else {
				bad("%s: a Read with a deadline did not return", x.Name)
			}
			_ = x.Conn.SetReadDeadline(time.Time{})
		}
		xc := startClose(w, x, 0)
		w.SettleLoose()
		if !world.MutexBlocked() {
			w.Settle()
		}
		for _, d := range w.InFlight() {
			w.Take(d)
		}
		if !xc.Done() {
			bad("Close of %s did not return", x.Name)
		}
		finish(w, pr, n, x, y, bad)
		o.NonTrivial = true
		o.Class = fmt.Sprintf("hsalert %s hs-done=%v hs-err=%v closed=%v", al.name, xDone, xerr != nil, closed)
	})
	if leak != "" {
		viol = append(viol, "goroutines left behind: "+firstLine(leak))
	}
	if len(viol) > 0 {
		o.Violation = fmt.Sprintf("case %s/%s/hsalert/%s: %s", v.Name, sideName(xIsClient), al.name, strings.Join(viol, "; "))
		o.Key = "hsalert:" + firstLine(viol[0])
	}
	o.Sample = map[string]any{"variant": v.Name, "receiver": sideName(xIsClient), "alert": al.name, "class": o.Class}
	return o
}

func hsAlertCases(p *world.PKI, thorough bool, seed uint64) []run.Case {
	names := []string{"13-direct", "13-hrr", "13-clientauth"}
	if thorough {
		names = append(names, "13-mtu200")
	}
	var cases []run.Case
	for _, name := range names {
		var v checks.Variant
		for _, x := range append(checks.AllVariants(), checks.VariantsCombined()...) {
			if x.Name == name {
				v = x
			}
		}
		if v.Name == "" {
			continue
		}
		for _, xIsClient := range []bool{true, false} {
			for _, al := range hsAlerts {
				v, xIsClient, al := v, xIsClient, al
				cases = append(cases, run.Case{ID: fmt.Sprintf("%s/%s/hsalert/%s", v.Name, sideName(xIsClient), al.name),
					Run: func(t *testing.T) run.Outcome { return hsAlertRun(t, p, v, xIsClient, al, seed) }})
			}
		}
	}
	return cases
}
