package c16

import (
	"context"
	"errors"
	"fmt"
	"io"
	"net"
	"runtime"
	"strings"
	"sync"
	"testing"
	"time"

	dtls "github.com/pion/dtls/v3"
	"github.com/pion/dtls/v3/zzverif/checks"
	"github.com/pion/dtls/v3/zzverif/run"
	"github.com/pion/dtls/v3/zzverif/world"
)

// C16 — lifecycle: Close, alerts and deadlines are safe at any moment.
//
// Enumerated: handshake variant x side x position k (number of network deliveries performed before
// the action; positions past the end of the handshake are "established, idle" and "established, after
// one record each way") x action. Every execution runs to completion (everything closed) and ends with
// the goroutine-leak oracle of the bubble.

type action string

const (
	actClose1      action = "close1"      // one Close caller, with pending Handshake/Read(/Write)
	actClose2      action = "close2"      // two concurrent Close callers
	actClose3      action = "close3"      // three concurrent Close callers
	actPeerClose   action = "peerclose"   // the peer closes; local Read must see EOF; then local Close
	actBothClose   action = "bothclose"   // both sides call Close at the same quiescent point
	actAlert0      action = "alert0"      // a plaintext fatal alert arrives (epoch 0)
	actCtx         action = "ctxdeadline" // the HandshakeContext deadline expires here
	actReadDL      action = "readdeadline"
	actHoldClose   action = "holdclose"     // Close (x2) while the endpoint is inside an emission (holds the write lock)
	actHoldPeerCN  action = "holdreply"     // user Close while the reply to the peer's close_notify is being emitted
	actPeerCloseWF action = "peerclosewf"   // the peer closes while this endpoint's transport refuses writes (the close_notify reply cannot be sent)
	actCloseWF     action = "closewf"       // the application closes while the transport refuses writes (close_notify cannot be sent)
	actStallDL     action = "stalldeadline" // a Write stalled in a back-pressured transport is interrupted by the write deadline (set before or during the stall)
	actStallClose  action = "stallclose"    // Close (x2) while an emission is stalled in a back-pressured transport (honours deadlines, never completes by itself)
)

var allActions = []action{actClose1, actClose2, actClose3, actPeerClose, actBothClose, actAlert0, actCtx, actReadDL, actHoldClose, actHoldPeerCN, actStallClose, actStallDL, actPeerCloseWF, actCloseWF}

// closedClass: a "closed or EOF error". A pending HandshakeContext that Close interrupts reports "handshake
// failed: context canceled" (the library cancels the handshake's own context on Close); that one wording is
// accepted for the Handshake call only - Read and Write have to report that the connection is closed.
func closedClass(err error) bool {
	if err == nil {
		return false
	}
	if errors.Is(err, io.EOF) || errors.Is(err, dtls.ErrConnClosed) || errors.Is(err, net.ErrClosed) {
		return true
	}
	s := err.Error()
	return strings.Contains(s, "closed") || strings.Contains(s, "closing") || strings.Contains(s, "EOF")
}

func deadlineClass(err error) bool {
	if err == nil {
		return false
	}
	var ne net.Error
	if errors.As(err, &ne) && ne.Timeout() {
		return true
	}
	return errors.Is(err, context.DeadlineExceeded) || strings.Contains(err.Error(), "deadline") || strings.Contains(err.Error(), "timeout")
}

type sideOps struct {
	e        *world.Endpoint
	read     *world.Op
	write    *world.Op
	closes   []*world.Op
	estAtAct bool
}

func startRead(w *world.World, e *world.Endpoint) *world.Op {
	return w.Go(e.Name+".Read", func(op *world.Op) error {
		buf := make([]byte, 4096)
		k, err := e.Conn.Read(buf)
		op.Set(k, append([]byte(nil), buf[:k]...))
		return err
	})
}

func startWrite(w *world.World, e *world.Endpoint, payload string) *world.Op {
	return w.Go(e.Name+".Write", func(op *world.Op) error {
		_, err := e.Conn.Write([]byte(payload))
		return err
	})
}

func startClose(w *world.World, e *world.Endpoint, i int) *world.Op {
	return w.Go(fmt.Sprintf("%s.Close#%d", e.Name, i), func(*world.Op) error { return e.Conn.Close() })
}

// countAlerts counts alert-looking records (DTLS 1.2 without CID: content type 21 visible in the header)
// emitted by src from emission id `from` on.
func countAlertRecords(w *world.World, src world.Addr, from int) (alerts, datagrams int) {
	cidLen := 0
	if c := w.CIDLenHint; c != nil {
		cidLen = c(src)
	}
	for _, d := range w.Emitted() {
		if d.ID < from || d.Src != src {
			continue
		}
		datagrams++
		recs, _ := world.ParseDatagram(d.Data, cidLen)
		for _, r := range recs {
			switch {
			case !r.Unified && r.Type == world.CTAlert:
				alerts++
			case !r.Unified && r.Type == world.CTCID && r.Epoch > 0:
				alerts++ // DTLS 1.2 with CID: nothing but alerts is emitted during shutdown (no ACKs in 1.2)
			case r.Unified && len(r.Body) == 19:
				alerts++ // DTLS 1.3: 2-byte alert + content type + 16-byte tag (ACK records are longer)
			}
		}
	}
	return
}

func yield() {
	for i := 0; i < 300; i++ {
		runtime.Gosched()
	}
}

// posAfterLoss: the handshake runs to completion over a network with the delivery faults of the mask m
// (retransmissions, late copies and flights arriving at an endpoint that is already finished included),
// then the lifecycle action happens on the idle established connection.
const posAfterLoss = -1

// posAfterRebind: after a loss-free handshake with connection IDs a fresh record of the peer reaches the
// endpoint from a NEW source address (NAT rebinding): the endpoint starts, or - when the amplification
// budget of the new address does not cover a path_challenge towards a long peer connection ID - refuses to
// start a return-routability check. Then the lifecycle action happens.
const posAfterRebind = -2

func c16Run(t *testing.T, p *world.PKI, v checks.Variant, clientSide bool, pos int, act action, seed uint64, m world.Mask) run.Outcome {
	var o run.Outcome
	var viol []string
	bad := func(f string, a ...any) { viol = append(viol, fmt.Sprintf(f, a...)) }
	leak := world.RunLeak(t, seed, func(w *world.World) {
		var ctxCancel context.CancelFunc
		var pr *world.Pair
		var err error
		if act == actCtx {
			// build endpoints by hand so that X's handshake runs under a context we cancel by deadline
			pr, err = setupWithCtx(w, p, v, clientSide, &ctxCancel)
		} else {
			pr, err = v.Setup(w, p)
		}
		if err != nil {
			o.Skip = true
			return
		}
		if ctxCancel != nil {
			defer ctxCancel()
		}
		x, y := pr.S, pr.C
		if clientSide {
			x, y = pr.C, pr.S
		}
		n := world.NewNet(w, world.ClientAddr, m)
		w.CIDLenHint = pr.CIDLenFor
		tr := pr.Trace(n)
		defer func() { o.States, o.Transitions = tr.States, tr.Trans }()

		// --- reach position pos ---
		steps := 0
		holdArmed := false
		var holdHit, holdRelease chan struct{}
		var holdMu sync.Mutex
		if act == actHoldClose {
			// hold the pos-th emission of X
			holdHit, holdRelease = make(chan struct{}), make(chan struct{})
			cnt := 0
			base := w.EmittedCount()
			_ = base
			w.SetOnEmit(func(d *world.Datagram) {
				if d.Src != x.Addr {
					return
				}
				holdMu.Lock()
				mine := cnt == pos && !holdArmed
				cnt++
				if mine {
					holdArmed = true
				}
				holdMu.Unlock()
				if mine {
					close(holdHit)
					<-holdRelease
				}
			})
		}
		stage := "handshake"
		if act == actHoldClose {
			// Drive until the hold is hit or the handshake and a data exchange are over.
			hit := func() bool {
				select {
				case <-holdHit:
					return true
				default:
					return false
				}
			}
			// the very first emissions happen inside Setup (before the hook): position counts emissions after setup
			_ = n.Pump(20*time.Second, func() bool { return hit() || pr.BothDone() })
			if !hit() && pr.BothOK() {
				stage = "data"
				wr := startWrite(w, x, "held-payload")
				_ = n.Pump(2*time.Second, func() bool { return hit() || wr.Done() })
			}
			if !hit() {
				w.SetOnEmit(nil)
				o.Skip = true
				pr.CloseAll()
				return
			}
			// X is parked inside WriteTo holding the write lock. Close X twice from other goroutines.
			est := x.Snapshot().Established
			from := w.EmittedCount()
			c1 := startCloseNoSkew(w, x, 1)
			c2 := startCloseNoSkew(w, x, 2)
			w.SettleLoose()
			close(holdRelease)
			w.SetOnEmit(nil)
			w.SettleLoose()
			if !world.MutexBlocked() {
				w.Settle()
			}
			for _, c := range []*world.Op{c1, c2} {
				if !c.Done() {
					bad("Close did not return after the held emission was released (%s)", c)
				} else if _, e := c.Result(); e != nil {
					bad("Close returned an error: %v", e)
				}
			}
			if al, _ := countAlertRecords(w, x.Addr, from); al > 1 {
				bad("%d alert records emitted by one endpoint around Close (close_notify at most once)", al)
			} else if est && stage == "data" && al != 1 {
				bad("application closed an established open session but %d close_notify records were emitted", al)
			}
			finish(w, pr, n, x, y, bad)
			o.NonTrivial = true
			o.Class = fmt.Sprintf("holdclose/%s/est=%v", stage, est)
			return
		}

		if act == actStallDL {
			// pos selects the variant: 0 = deadline set before the Write, 1 = deadline set while the Write is
			// already parked in the transport, 2 = as 1 but the deadline is moved twice (later, then earlier).
			if pos > 3 {
				o.Skip = true
				pr.CloseAll()
				return
			}
			_ = n.Pump(20*time.Second, pr.BothDone)
			if !pr.BothOK() {
				o.Skip = true
				pr.CloseAll()
				return
			}
			n.Flush()
			st := x.PC.StallWrite(0)
			if pos == 0 {
				_ = x.Conn.SetWriteDeadline(time.Now().Add(50 * time.Millisecond))
			}
			wr := startWrite(w, x, "stalled-payload")
			w.Settle()
			if !st.IsHit() {
				bad("the Write did not reach the transport")
			}
			switch pos {
			case 1:
				_ = x.Conn.SetWriteDeadline(time.Now().Add(50 * time.Millisecond))
			case 2:
				_ = x.Conn.SetWriteDeadline(time.Now().Add(5 * time.Second))
				w.Settle()
				_ = x.Conn.SetWriteDeadline(time.Now().Add(50 * time.Millisecond))
			case 3:
				// the deadline expires and is re-armed (cleared) back to back, before whatever watches it has
				// run: the blocked Write is either interrupted by the momentary expiry or stays blocked — and then
				// it must still be interruptible by the next deadline (and by Close, checked at the end)
				_ = x.Conn.SetWriteDeadline(time.Now().Add(-time.Second))
				_ = x.Conn.SetWriteDeadline(time.Time{})
				w.Settle()
				if !wr.Done() {
					_ = x.Conn.SetWriteDeadline(time.Now().Add(50 * time.Millisecond))
				}
			}
			w.Settle()
			if wr.Done() && pos != 3 {
				bad("the stalled Write returned before its deadline: %v", wr)
			}
			w.Sleep(51 * time.Millisecond)
			if !wr.Done() {
				bad("a Write stalled in the transport was not interrupted by the write deadline (transport write: %q)", st.How())
				close(st.Release)
				w.Settle()
			} else if _, e := wr.Result(); !deadlineClass(e) {
				bad("the Write interrupted by its deadline returned %v (want a deadline error)", e)
			}
			x.PC.Unstall()
			// the connection stays usable once the deadline is cleared
			_ = x.Conn.SetWriteDeadline(time.Time{})
			got, rerr, werr := pr.Transfer(n, x, y, []byte("after-write-deadline"), 3*time.Second)
			if rerr != nil || werr != nil || string(got) != "after-write-deadline" {
				bad("connection unusable after a write deadline: read=%v write=%v", rerr, werr)
			}
			finish(w, pr, n, x, y, bad)
			o.NonTrivial = true
			o.Class = fmt.Sprintf("stalldeadline/v%d/%s", pos, st.How())
			return
		}

		if act == actStallClose {
			// The pos-th emission of X (counted from here) stalls inside the transport the way a back-pressured
			// socket does: it holds the library's write lock and ends only by deadline or close. Close must still
			// return, release the pending Write and leave nothing behind — without the stall ever being released.
			st := x.PC.StallWrite(pos)
			var wr *world.Op
			_ = n.Pump(20*time.Second, func() bool { return st.IsHit() || pr.BothDone() })
			if !st.IsHit() && pr.BothOK() {
				stage = "data"
				wr = startWrite(w, x, "stalled-payload")
				_ = n.Pump(2*time.Second, func() bool { return st.IsHit() || wr.Done() })
			}
			if !st.IsHit() {
				x.PC.Unstall()
				o.Skip = true
				pr.CloseAll()
				return
			}
			est := x.Snapshot().Established
			from := w.EmittedCount()
			c1 := startCloseNoSkew(w, x, 1)
			c2 := startCloseNoSkew(w, x, 2)
			w.SettleLoose()
			stuck := false
			for _, c := range []*world.Op{c1, c2} {
				if !c.Done() {
					stuck = true
					bad("Close did not return while an emission of this endpoint is stalled in the transport (%s)", c)
				} else if _, e := c.Result(); e != nil {
					bad("Close returned an error: %v", e)
				}
			}
			if wr != nil {
				if !wr.Done() {
					stuck = true
					bad("the Write stalled in the transport was not released by Close")
				} else if _, e := wr.Result(); e == nil || !(closedClass(e) || deadlineClass(e)) {
					bad("the Write stalled in the transport returned %v after Close (closed error expected)", e)
				}
			}
			if how := st.How(); how == "" {
				stuck = true
				bad("the stalled transport write is still parked after Close returned")
			}
			if stuck {
				close(st.Release) // unwind so that the execution can end
				w.SettleLoose()
			}
			x.PC.Unstall()
			if !world.MutexBlocked() {
				w.Settle()
			}
			if al, _ := countAlertRecords(w, x.Addr, from); al > 1 {
				bad("%d alert records emitted by one endpoint around Close (close_notify at most once)", al)
			} else if est && stage == "data" && al != 1 && !stuck {
				bad("application closed an established open session but %d close_notify records were emitted", al)
			}
			finish(w, pr, n, x, y, bad)
			o.NonTrivial = true
			o.Class = fmt.Sprintf("stallclose/%s/est=%v/%s", stage, est, st.How())
			return
		}

		for steps < pos && !pr.BothDone() {
			if !n.Step() {
				break
			}
			steps++
		}
		established := pr.BothOK()
		if pos == posAfterLoss {
			_ = n.Pump(30*time.Second+time.Duration(len(m))*world.HoldCap, pr.BothDone)
			if !pr.BothOK() || n.Faulted < len(m) {
				// completion under loss is C02's subject; a mask that did not fire is another mask's execution
				o.Skip = true
				pr.CloseAll()
				return
			}
			// what the faults left behind (held copies, the peer's retransmissions) is delivered as well
			n.ClearFaults()
			n.Flush()
			w.Sleep(1500 * time.Millisecond)
			n.Flush()
			stage = "established-after-loss"
		} else if pos == posAfterRebind {
			_ = n.Pump(20*time.Second, pr.BothDone)
			if !pr.BothOK() {
				o.Skip = true
				pr.CloseAll()
				return
			}
			n.Flush()
			yw := startWrite(w, y, "r")
			w.Settle()
			moved := 0
			for _, d := range w.InFlight() {
				if d.Src == y.Addr {
					w.Take(d)
					w.Push(world.Addr("10.0.0.88:8888"), x.Addr, d.Data)
					moved++
				}
			}
			w.Settle()
			if !yw.OK() || moved == 0 {
				bad("harness: no record of the peer to re-source (write %v)", yw)
			}
			// whatever the endpoint sends to the new address goes nowhere; the rest is delivered
			for _, d := range w.InFlight() {
				if d.Dst != x.Addr && d.Dst != y.Addr {
					w.Take(d)
				}
			}
			n.Flush()
			// the re-sourced record is genuine application data: the application takes it
			_ = x.Conn.SetReadDeadline(time.Now().Add(10 * time.Millisecond))
			dr := startRead(w, x)
			w.Sleep(11 * time.Millisecond)
			w.Settle()
			if !dr.Done() {
				bad("the Read that takes the re-sourced record did not return at its deadline")
			}
			_ = x.Conn.SetReadDeadline(time.Time{})
			stage = "established-after-rebind"
		} else if steps < pos {
			if !established {
				// the handshake cannot progress further without time passing and pos not reached: pump to completion
				_ = n.Pump(20*time.Second, pr.BothDone)
				established = pr.BothOK()
			}
			extra := pos - steps
			if !established || extra > 2 {
				o.Skip = true
				pr.CloseAll()
				return
			}
			n.Flush()
			stage = "established-idle"
			if extra == 2 {
				stage = "established-after-data"
				for _, dir := range [][2]*world.Endpoint{{pr.C, pr.S}, {pr.S, pr.C}} {
					got, rerr, werr := pr.Transfer(n, dir[0], dir[1], []byte("warmup"), 3*time.Second)
					if rerr != nil || werr != nil || string(got) != "warmup" {
						bad("warm-up data exchange failed: %v %v", rerr, werr)
					}
				}
			}
		}
		xs := x.Snapshot()
		ys := y.Snapshot()
		o.NonTrivial = true
		o.Class = fmt.Sprintf("%s/%s/xest=%v", act, stage, xs.Established)

		switch act {
		case actClose1, actClose2, actClose3, actBothClose:
			nclose := map[action]int{actClose1: 1, actClose2: 2, actClose3: 3, actBothClose: 1}[act]
			// pending calls on X
			// a peer reader, to observe EOF
			var yrd *world.Op
			if ys.Established {
				yrd = startRead(w, y)
				w.Settle()
			}
			// NOTE: a Read/Write issued while the handshake is running queues behind Conn.handshakeMutex (a
			// real mutex): from here on only loose settling works until Close has released everything.
			n.OnEvent = nil // what follows depends on the Go scheduler's order at a real mutex: not part of the state digest
			rd := startRead(w, x)
			var wr *world.Op
			w.SettleLoose()
			from := w.EmittedCount()
			var closes []*world.Op
			for i := 0; i < nclose; i++ {
				closes = append(closes, startCloseNoSkew(w, x, i))
			}
			if act == actBothClose {
				closes = append(closes, startCloseNoSkew(w, y, 0))
			}
			if !xs.Established {
				// a Write issued while the handshake is still running joins the pending calls
				wr = startWriteNoSkew(w, x, "pending-write")
			}
			w.SettleLoose()
			if world.MutexBlocked() {
				bad("after Close returned a goroutine is still waiting on a mutex: %s", world.BubbleInventory())
			} else {
				w.Settle()
			}
			for _, c := range closes {
				if !c.Done() {
					bad("%s did not return", c.Name)
				} else if _, e := c.Result(); e != nil {
					bad("%s returned error %v", c.Name, e)
				}
			}
			if !x.HS.Done() {
				bad("pending HandshakeContext not unblocked by Close")
			} else if _, e := x.HS.Result(); e != nil && !closedClass(e) && !errors.Is(e, context.Canceled) {
				bad("pending HandshakeContext returned %v (not a closed/EOF error)", e)
			}
			if !rd.Done() {
				bad("pending Read not unblocked by Close")
			} else if _, e := rd.Result(); !closedClass(e) {
				bad("pending Read returned %v (not a closed/EOF error)", e)
			}
			if wr != nil {
				if !wr.Done() {
					bad("pending Write not unblocked by Close")
				} else if _, e := wr.Result(); !closedClass(e) {
					bad("pending Write returned %v (not a closed/EOF error)", e)
				}
			}
			al, dg := countAlertRecords(w, x.Addr, from)
			_ = dg
			if true {
				if al > 1 {
					bad("%d alert records emitted by the closing endpoint (close_notify at most once)", al)
				}
				if xs.Established && al != 1 {
					bad("application closed an established, open session but %d close_notify records were emitted", al)
				}
			}
			// let the peer see it
			_ = n.Pump(3*time.Second, func() bool { return yrd != nil && yrd.Done() })
			if yrd != nil && xs.Established && act != actBothClose {
				if !yrd.Done() {
					bad("peer Read still blocked after the close_notify was delivered")
				} else if _, e := yrd.Result(); !errors.Is(e, io.EOF) {
					bad("peer Read returned %v after the other side closed (want io.EOF)", e)
				}
			}
			finish(w, pr, n, x, y, bad)

		case actPeerClose:
			if !xs.Established || !ys.Established {
				o.Skip = true
				pr.CloseAll()
				return
			}
			rd := startRead(w, x)
			w.Settle()
			from := w.EmittedCount()
			yc := startClose(w, y, 0)
			_ = n.Pump(3*time.Second, func() bool { return rd.Done() && yc.Done() })
			if !yc.Done() {
				bad("peer Close did not return")
			}
			if !rd.Done() {
				bad("Read not unblocked by the peer's close_notify")
			} else if _, e := rd.Result(); !errors.Is(e, io.EOF) {
				bad("Read returned %v after the peer closed (want io.EOF)", e)
			}
			xc := startClose(w, x, 0)
			w.Settle()
			n.Flush()
			if !xc.Done() {
				bad("Close after a received close_notify did not return")
			}
			for _, e := range []*world.Endpoint{x, y} {
				al, _ := countAlertRecords(w, e.Addr, from)
				if al > 1 {
					bad("%s emitted %d alert records (close_notify at most once)", e.Name, al)
				}
			}
			finish(w, pr, n, x, y, bad)

		case actPeerCloseWF, actCloseWF:
			if !xs.Established || !ys.Established {
				o.Skip = true
				pr.CloseAll()
				return
			}
			// X's transport starts failing every write (unreachable peer, ENOBUFS, a mux being torn down).
			rd := startRead(w, x)
			w.Settle()
			x.PC.SetWriteErr(errors.New("injected transport write fault"))
			var xc *world.Op
			if act == actPeerCloseWF {
				yc := startClose(w, y, 0)
				_ = n.Pump(3*time.Second, func() bool { return rd.Done() && yc.Done() })
				if !yc.Done() {
					bad("peer Close did not return")
				}
				if !rd.Done() {
					bad("Read not unblocked by the peer's close_notify although only the reply could not be sent")
				} else if _, e := rd.Result(); !errors.Is(e, io.EOF) {
					bad("Read returned %v after the peer's close_notify (want io.EOF: a received close_notify closes the connection whether or not the reply can be sent)", e)
				}
				// the connection is closed: Write fails with a closed error, a second Read does not block
				wr := startWrite(w, x, "after-peer-close")
				rd2 := startRead(w, x)
				w.Settle()
				if !wr.Done() {
					bad("Write after the peer's close_notify did not return")
				} else if _, e := wr.Result(); !closedClass(e) {
					bad("Write after the peer's close_notify returned %v (want a closed error)", e)
				}
				if !rd2.Done() {
					bad("a second Read after the peer's close_notify blocks: the connection was not closed")
				}
				xc = startClose(w, x, 0)
			} else {
				xc = startClose(w, x, 0)
				w.Settle()
				if !rd.Done() {
					bad("pending Read not released by Close when the transport refuses writes")
				} else if _, e := rd.Result(); !closedClass(e) {
					bad("pending Read returned %v after Close (want a closed / EOF error)", e)
				}
			}
			w.Settle()
			n.Flush()
			if !xc.Done() {
				bad("Close did not return when the transport refuses writes")
			}
			x.PC.SetWriteErr(nil)
			finish(w, pr, n, x, y, bad)

		case actHoldPeerCN:
			if !xs.Established || !ys.Established {
				o.Skip = true
				pr.CloseAll()
				return
			}
			// The peer closes; X's read loop answers close_notify with close_notify. Hold that reply
			// inside WriteTo and let the application call Close on X meanwhile.
			hit, rel := make(chan struct{}), make(chan struct{})
			once := false
			w.SetOnEmit(func(d *world.Datagram) {
				if d.Src == x.Addr && !once {
					once = true
					close(hit)
					<-rel
				}
			})
			from := w.EmittedCount()
			yc := startClose(w, y, 0)
			isHit := func() bool {
				select {
				case <-hit:
					return true
				default:
					return false
				}
			}
			// deliver the peer's close_notify by hand (Pump would Settle, which cannot return while a
			// goroutine waits on a mutex; up to the hold everything is durable, so Settle is fine)
			for i := 0; i < 10 && !isHit(); i++ {
				w.Settle()
				d := w.Head()
				if d == nil {
					break
				}
				w.Deliver(d)
				w.SettleLoose()
			}
			if !isHit() {
				w.SetOnEmit(nil)
				o.Class += "/no-reply"
				w.Settle()
				finish(w, pr, n, x, y, bad)
				return
			}
			c1 := startCloseNoSkew(w, x, 1)
			w.SettleLoose()
			close(rel)
			w.SetOnEmit(nil)
			w.SettleLoose()
			if !world.MutexBlocked() {
				w.Settle()
			}
			if !c1.Done() || !yc.Done() {
				bad("Close did not return (local %v, peer %v)", c1, yc)
			}
			al, _ := countAlertRecords(w, x.Addr, from)
			if al > 1 {
				bad("%d close_notify records emitted by one endpoint: the reply to the peer's close_notify and another one from the application's Close (at most once)", al)
			}
			finish(w, pr, n, x, y, bad)

		case actAlert0:
			// plaintext fatal alert (handshake_failure) with a fresh epoch-0 sequence number
			alert := []byte{21, 0xfe, 0xfd, 0, 0, 0, 0, 0, 0, 0x7f, byte(pos), 0, 2, 2, 40}
			rdStarted := false
			var rd *world.Op
			if xs.Established {
				rd = startRead(w, x)
				rdStarted = true
				w.Settle()
			}
			w.Push(y.Addr, x.Addr, alert)
			w.Settle()
			if !xs.Established {
				// during the handshake a fatal alert closes the connection: the handshake call must return an error
				if x.HS.Done() {
					if _, e := x.HS.Result(); e == nil && !x.Snapshot().Established {
						bad("HandshakeContext returned nil although the handshake was not established")
					}
				}
			}
			_ = rdStarted
			_ = rd
			finish(w, pr, n, x, y, bad)

		case actCtx:
			if xs.Established {
				// The handshake context is released after success (its deadline passes, or the caller cancels
				// it as callers do with defer cancel()): the established connection must not notice.
				if !ys.Established {
					o.Skip = true
					pr.CloseAll()
					return
				}
				how := "deadline-passed"
				if pos%2 == 1 && ctxCancel != nil {
					how = "cancelled"
					ctxCancel()
					w.Settle()
				} else {
					w.Sleep(ctxBudget + time.Millisecond)
				}
				for _, dir := range [][2]*world.Endpoint{{x, y}, {y, x}} {
					got, rerr, werr := pr.Transfer(n, dir[0], dir[1], []byte("after-ctx-release"), 3*time.Second)
					if rerr != nil || werr != nil || string(got) != "after-ctx-release" {
						bad("after the context given to HandshakeContext was released (%s) following a successful handshake, data %s -> %s fails: read=%v write=%v", how, dir[0].Name, dir[1].Name, rerr, werr)
					}
				}
				finish(w, pr, n, x, y, bad)
				o.NonTrivial = true
				o.Class = "ctxrelease/" + how
				return
			}
			// expire the context now: fake time jumps past the context deadline
			w.Sleep(ctxBudget + time.Millisecond)
			if !x.HS.Done() {
				bad("HandshakeContext not interrupted by its context deadline")
			} else if _, e := x.HS.Result(); e == nil {
				bad("HandshakeContext returned nil after its context deadline in an unfinished handshake")
			} else if !deadlineClass(e) && !closedClass(e) {
				bad("HandshakeContext returned %v after context deadline", e)
			}
			finish(w, pr, n, x, y, bad)

		case actReadDL:
			if !xs.Established || !ys.Established {
				o.Skip = true
				pr.CloseAll()
				return
			}
			_ = x.Conn.SetReadDeadline(time.Now().Add(50 * time.Millisecond))
			rd := startRead(w, x)
			w.Settle()
			if rd.Done() {
				bad("Read returned before its deadline: %v", rd)
			}
			w.Sleep(51 * time.Millisecond)
			if !rd.Done() {
				bad("blocked Read not interrupted by the read deadline")
			} else if _, e := rd.Result(); !deadlineClass(e) {
				bad("Read returned %v at its deadline (want a deadline error)", e)
			}
			// the connection stays usable
			_ = x.Conn.SetReadDeadline(time.Time{})
			got, rerr, werr := pr.Transfer(n, y, x, []byte("after-deadline"), 3*time.Second)
			if rerr != nil || werr != nil || string(got) != "after-deadline" {
				bad("connection unusable after a read deadline: read=%v write=%v", rerr, werr)
			}
			// write deadline in the past makes Write fail, then cleared works again
			_ = x.Conn.SetWriteDeadline(time.Now().Add(-time.Second))
			if _, e := x.Conn.Write([]byte("x")); !deadlineClass(e) {
				bad("Write with an expired write deadline returned %v", e)
			}
			_ = x.Conn.SetWriteDeadline(time.Time{})
			finish(w, pr, n, x, y, bad)
		}
	})
	if leak != "" {
		viol = append(viol, "goroutines left behind after everything was closed: "+firstLine(leak))
	}
	if len(viol) > 0 {
		o.Violation = fmt.Sprintf("variant=%s side=%s pos=%d action=%s: %s", v.Name, sideName(clientSide), pos, act, strings.Join(viol, "; "))
		o.Key = c16Key(act, viol)
	}
	o.Sample = map[string]any{"variant": v.Name, "side": sideName(clientSide), "position": pos, "action": string(act), "class": o.Class}
	return o
}

func c16Key(act action, viol []string) string {
	j := strings.Join(viol, ";")
	switch {
	case act == actHoldPeerCN && strings.Contains(j, "close_notify records emitted by one endpoint"):
		return "close-notify-twice:reply-to-peer-close_notify-races-application-Close"
	}
	return ""
}

func firstLine(s string) string {
	if i := strings.IndexByte(s, '\n'); i > 0 {
		return s[:i]
	}
	return s
}

func sideName(c bool) string {
	if c {
		return "client"
	}
	return "server"
}

const ctxBudget = 30 * time.Second

func setupWithCtx(w *world.World, p *world.PKI, v checks.Variant, clientSide bool, cancel *context.CancelFunc) (*world.Pair, error) {
	c, err := w.NewEndpoint(p, true, world.ClientAddr, world.ServerAddr, v.C)
	if err != nil {
		return nil, err
	}
	s, err := w.NewEndpoint(p, false, world.ServerAddr, world.ClientAddr, v.S)
	if err != nil {
		return nil, err
	}
	pr := &world.Pair{W: w, C: c, S: s, FirstID: w.EmittedCount()}
	ctx, cf := context.WithTimeout(context.Background(), ctxBudget)
	*cancel = cf
	start := func(e *world.Endpoint, withCtx bool) {
		if withCtx {
			e.HS = w.Go(e.Name+".Handshake", func(*world.Op) error { return e.Conn.HandshakeContext(ctx) })
		} else {
			e.StartHandshake()
		}
		w.Settle()
	}
	start(c, clientSide)
	start(s, !clientSide)
	return pr, nil
}

func startCloseNoSkew(w *world.World, e *world.Endpoint, i int) *world.Op {
	w.NoSkew = true
	defer func() { w.NoSkew = false }()
	return startClose(w, e, i)
}

func startWriteNoSkew(w *world.World, e *world.Endpoint, payload string) *world.Op {
	w.NoSkew = true
	defer func() { w.NoSkew = false }()
	return startWrite(w, e, payload)
}

// finish closes both sides (again), delivers what is left and checks that every application call returned.
func finish(w *world.World, pr *world.Pair, n *world.Net, x, y *world.Endpoint, bad func(string, ...any)) {
	c1 := startCloseNoSkew(w, x, 90)
	c2 := startCloseNoSkew(w, y, 91)
	w.SettleLoose()
	for _, d := range w.InFlight() {
		w.Take(d)
	}
	w.SettleLoose()
	if world.MutexBlocked() {
		bad("a goroutine is still waiting on a mutex after both sides were closed: %s", world.BubbleInventory())
		return
	}
	w.Settle()
	if !c1.Done() || !c2.Done() {
		bad("final Close did not return (%v, %v)", c1, c2)
	}
	for _, op := range w.Ops() {
		if !op.Done() {
			bad("application call %s still blocked after both sides were closed", op.Name)
		}
	}
}

func TestC16(t *testing.T) {
	env := run.GetEnv()
	p := world.GetPKI(t)
	names := []string{"12-cert", "12-psk", "12-cid", "13-direct"}
	if env.Thorough() {
		names = []string{"12-cert", "12-psk", "12-cid", "12-clientauth", "12-resumed", "12-mtu100", "13-direct", "13-hrr", "13-clientauth"}
	}
	maxPos := 14
	var cases []run.Case
	for _, name := range names {
		var v checks.Variant
		for _, x := range checks.AllVariants() {
			if x.Name == name {
				v = x
			}
		}
		for _, clientSide := range []bool{true, false} {
			for pos := 0; pos <= maxPos; pos++ {
				for _, act := range allActions {
					v, clientSide, pos, act := v, clientSide, pos, act
					cases = append(cases, run.Case{ID: fmt.Sprintf("%s/%s/p%d/%s", v.Name, sideName(clientSide), pos, act),
						Run: func(t *testing.T) run.Outcome { return c16Run(t, p, v, clientSide, pos, act, env.Seed+1, nil) }})
				}
			}
		}
	}
	// lifecycle after a lossy handshake: every single delivery fault over the first 6 datagrams per direction
	lossy := []string{"12-cert", "12-resumed", "12-cid", "13-direct"}
	lossActs := []action{actClose1, actPeerClose, actBothClose, actReadDL}
	masks := checks.EnumMasks(6, 1, []world.Action{world.ActDrop, world.ActDup, world.ActHold3})
	if env.Thorough() {
		lossy = append(lossy, "12-psk", "12-clientauth", "12-cid-resumed", "13-hrr", "13-clientauth")
		masks = checks.EnumMasks(8, 1, checks.AllFaultActions)
	}
	for _, name := range lossy {
		var v checks.Variant
		for _, x := range append(checks.AllVariants(), checks.VariantsCombined()...) {
			if x.Name == name {
				v = x
			}
		}
		if v.Name == "" {
			t.Fatalf("unknown variant %s", name)
		}
		for _, clientSide := range []bool{true, false} {
			for _, m := range masks {
				if len(m) == 0 {
					continue
				}
				for _, act := range lossActs {
					v, clientSide, m, act := v, clientSide, m, act
					cases = append(cases, run.Case{ID: fmt.Sprintf("%s/%s/afterloss[%s]/%s", v.Name, sideName(clientSide), m, act),
						Run: func(t *testing.T) run.Outcome { return c16Run(t, p, v, clientSide, posAfterLoss, act, env.Seed+1, m) }})
				}
			}
		}
	}
	// lifecycle after a NAT rebinding of the peer: symmetric 4-byte connection IDs (a return-routability check
	// starts) and a 200-byte peer connection ID against a 1-byte own one (the check is refused: the
	// path_challenge would exceed three times what the new address has sent)
	cidPSK := func(c, s int) checks.Variant {
		k := []byte{9, 9, 9}
		su := []dtls.CipherSuiteID{dtls.TLS_PSK_WITH_AES_128_GCM_SHA256}
		return checks.Variant{Name: fmt.Sprintf("12-psk-cid%d-%d", c, s), C: world.Cfg{CIDLen: c, Cred: "psk", PSK: k, Suites: su}, S: world.Cfg{CIDLen: s, Cred: "psk", PSK: k, Suites: su}}
	}
	for _, v := range []checks.Variant{cidPSK(4, 4), cidPSK(200, 1), cidPSK(1, 200)} {
		for _, clientSide := range []bool{true, false} {
			for _, act := range lossActs {
				v, clientSide, act := v, clientSide, act
				cases = append(cases, run.Case{ID: fmt.Sprintf("%s/%s/afterrebind/%s", v.Name, sideName(clientSide), act),
					Run: func(t *testing.T) run.Outcome {
						return c16Run(t, p, v, clientSide, posAfterRebind, act, env.Seed+1, nil)
					}})
			}
		}
	}
	early := earlyCloseCases(p, env.Thorough(), env.Seed+1)
	cases = append(cases, early...)
	auth := authAlertCases(p, env.Thorough(), env.Seed+1)
	cases = append(cases, auth...)
	cbf := callbackFaultCases(p, env.Seed+1)
	cases = append(cases, cbf...)
	hsa := hsAlertCases(p, env.Thorough(), env.Seed+1)
	cases = append(cases, hsa...)
	run.Main(t, "C16", cases, map[string]any{"early_close_cases": len(early), "authentic_alert_cases": len(auth), "callback_fault_cases": len(cbf), "handshake_epoch_alert_cases": len(hsa), "variants": names, "positions": maxPos + 1, "actions": fmt.Sprint(allActions),
		"after_loss_variants": lossy, "after_loss_masks": len(masks) - 1, "after_loss_actions": fmt.Sprint(lossActs)})
}
