package c16

import (
	"errors"
	"fmt"
	"io"
	"strings"
	"testing"
	"time"

	"github.com/pion/dtls/v3/zzverif/checks"
	"github.com/pion/dtls/v3/zzverif/refimpl"
	"github.com/pion/dtls/v3/zzverif/run"
	"github.com/pion/dtls/v3/zzverif/world"
)

// Early-close family. One side (Y) finishes its handshake before the other (the DTLS 1.2 server after
// sending its last flight, the resumed DTLS 1.2 client and the DTLS 1.3 client after sending Finished) and
// its application closes at once. Its close_notify travels right behind its final flight; with one
// reordering fault (swap / hold / duplicate — nothing is lost) the alert overtakes that flight and reaches
// X while X cannot read the epoch yet, so X handles it on whatever path it keeps early records on.
//
// Oracle (property text: "The peer's Read then returns EOF", "sends close_notify at most once", "unblocks
// every pending Handshake, Read and Write", "leaves no goroutine behind"): Y's Close returns; X's pending
// Handshake returns by the horizon; no endpoint emits more than one close_notify; and once X has ANSWERED
// the peer's close_notify (X emitted an alert although its application never called Close — proof that X
// received and processed it) X is closed: a Read on X returns a closed / EOF error instead of blocking, and a
// Write fails. If X never shows that it processed the alert (an implementation may drop records it cannot
// read yet) nothing beyond "every call returns after X's own Close, nothing leaks" is demanded.
//
// Mid-handshake variant (pos >= 0): Y's application closes after pos network events of the handshake, with
// the reordering fault in force, whatever state Y is in (its Handshake call is usually still pending and has
// to return with a closed-class error); whatever Y sends on Close may overtake its own last flight.
func earlyCloseRun(t *testing.T, p *world.PKI, v checks.Variant, yIsClient bool, pos int, seed uint64, m world.Mask) run.Outcome {
	var o run.Outcome
	var viol []string
	bad := func(f string, a ...any) { viol = append(viol, fmt.Sprintf(f, a...)) }
	leak := world.RunLeak(t, seed, func(w *world.World) {
		pr, err := v.Setup(w, p)
		if err != nil {
			o.Skip = true
			return
		}
		y, x := pr.S, pr.C
		if yIsClient {
			y, x = pr.C, pr.S
		}
		n := world.NewNet(w, world.ClientAddr, m)
		w.CIDLenHint = pr.CIDLenFor
		tr := pr.Trace(n)
		defer func() { o.States, o.Transitions = tr.States, tr.Trans }()

		if pos < 0 {
			_ = n.Pump(30*time.Second, func() bool { return y.HS.Done() })
			if d, e := y.HS.Result(); !d || e != nil {
				o.Skip = true
				o.Class = "closer-did-not-complete"
				pr.CloseAll()
				return
			}
		} else {
			steps := 0
			for steps < pos && !pr.BothDone() && n.Step() {
				steps++
			}
			if steps < pos || pr.BothDone() {
				o.Skip = true // past the handshake: the after-handshake families own those positions
				o.Class = "position-beyond-handshake"
				pr.CloseAll()
				return
			}
		}
		yPending := !y.HS.Done()
		xDoneBefore := x.HS.Done()
		from := w.EmittedCount()
		yc := startClose(w, y, 0)
		_ = n.Pump(40*time.Second, func() bool { return false }) // faults stay in force; run until nothing moves
		n.Flush()
		if !yc.Done() {
			bad("Close of %s did not return", y.Name)
		}
		if yPending {
			if !y.HS.Done() {
				bad("%s: the pending Handshake was not released by Close", y.Name)
			} else if _, e := y.HS.Result(); e != nil && !closedClass(e) && !strings.Contains(e.Error(), "context canceled") {
				bad("%s: the pending Handshake returned %v after Close (want a closed error)", y.Name, e)
			}
		}
		if pos < 0 && !x.HS.Done() {
			bad("the peer's Handshake is still pending 40 s after the other side closed (every datagram was delivered)")
		}
		// The peer may still be retransmitting protected handshake records here, so alert records are
		// recognised by reference decryption (the shutdown heuristic of countAlertRecords does not apply).
		dec := pr.NewDecoder()
		alertsBy := func(src world.Addr) int {
			dec.Poll()
			k := 0
			for _, r := range dec.Out {
				// close_notify = alert description 0; other alerts (a fatal alert that ends a failing handshake)
				// are not limited by the property
				if r.D.Src == src && r.D.ID >= from && r.Type == world.CTAlert && (r.OK || r.Plain) && len(r.Payload) == 2 && r.Payload[1] == 0 {
					k++
				}
			}
			return k
		}
		xAlerts, yAlerts := alertsBy(x.Addr), alertsBy(y.Addr)
		if yAlerts > 1 {
			bad("%s emitted %d close_notify records (at most once)", y.Name, yAlerts)
		}
		_, xerr := x.HS.Result()
		answered := xAlerts > 0 && x.HS.Done() && (xerr == nil || strings.Contains(xerr.Error(), "CloseNotify"))
		if answered {
			// X processed the peer's close_notify: it must be closed now.
			rd := startRead(w, x)
			wr := startWrite(w, x, "after-peer-close")
			w.Settle()
			_ = n.Pump(2*time.Second, func() bool { return rd.Done() && wr.Done() })
			if !rd.Done() {
				bad("%s answered the peer's close_notify (Handshake returned %v) but its Read blocks: the connection was not closed", x.Name, xerr)
			} else if _, e := rd.Result(); !errors.Is(e, io.EOF) && !closedClass(e) {
				bad("%s: Read after the peer's close_notify returned %v (want EOF / closed)", x.Name, e)
			}
			if wr.Done() {
				if _, e := wr.Result(); e == nil {
					bad("%s: Write succeeded after the peer's close_notify was answered", x.Name)
				}
			}
		}
		xc := startClose(w, x, 0)
		w.SettleLoose()
		if !world.MutexBlocked() {
			w.Settle()
		}
		n.Flush()
		if !xc.Done() {
			bad("Close of %s did not return", x.Name)
		}
		if al := alertsBy(x.Addr); al > 1 {
			bad("%s emitted %d close_notify records (at most once)", x.Name, al)
		}
		finish(w, pr, n, x, y, bad)
		o.NonTrivial = !xDoneBefore
		o.Class = fmt.Sprintf("earlyclose mid=%v closer-pending=%v peer-was-done=%v answered=%v peer-hs-ok=%v faults=%d", pos >= 0, yPending, xDoneBefore, answered, xerr == nil, n.Faulted)
	})
	if leak != "" {
		viol = append(viol, "goroutines left behind: "+firstLine(leak))
	}
	if len(viol) > 0 {
		o.Violation = fmt.Sprintf("case %s/%s/earlyclose@%d[%s]: %s", v.Name, sideName(yIsClient), pos, m, strings.Join(viol, "; "))
		o.Key = "earlyclose:" + firstLine(viol[0])
	}
	o.Sample = map[string]any{"variant": v.Name, "closer": sideName(yIsClient), "mask": m.String(), "class": o.Class}
	return o
}

func earlyCloseCases(p *world.PKI, thorough bool, seed uint64) []run.Case {
	names := []string{"12-cert", "12-resumed", "12-cid", "12-cid-resumed", "13-direct"}
	acts := []world.Action{world.ActDup, world.ActSwap, world.ActHold1, world.ActHold3}
	nd, maxMid := 6, 8
	if thorough {
		names = append(names, "12-psk", "12-clientauth", "12-mtu100", "13-hrr", "13-clientauth")
		acts = append(acts, world.ActDupLate)
		nd, maxMid = 10, 12
	}
	masks := checks.EnumMasks(nd, 1, acts)
	var cases []run.Case
	for _, name := range names {
		var v checks.Variant
		for _, x := range append(checks.AllVariants(), checks.VariantsCombined()...) {
			if x.Name == name {
				v = x
			}
		}
		if v.Name == "" {
			continue
		}
		for _, yIsClient := range []bool{true, false} {
			for _, m := range masks {
				v, yIsClient, m := v, yIsClient, m
				cases = append(cases, run.Case{ID: fmt.Sprintf("%s/%s/earlyclose[%s]", v.Name, sideName(yIsClient), m),
					Run: func(t *testing.T) run.Outcome { return earlyCloseRun(t, p, v, yIsClient, -1, seed, m) }})
				for pos := 1; pos <= maxMid; pos++ {
					pos := pos
					cases = append(cases, run.Case{ID: fmt.Sprintf("%s/%s/midclose@%d[%s]", v.Name, sideName(yIsClient), pos, m),
						Run: func(t *testing.T) run.Outcome { return earlyCloseRun(t, p, v, yIsClient, pos, seed, m) }})
				}
			}
		}
	}
	return cases
}

// Authentic-alert family. The peer Y is authenticated and holds the keys, but is not this library: right
// behind its ChangeCipherSpec + Finished it sends an alert record protected under the new epoch — in the
// same datagram ("append"), in a datagram that arrives just before that flight ("before"), or after both
// handshakes have returned ("after"). The alert is sealed by the harness's reference record layer with Y's
// write keys (root secrets read from Y's endpoint) and the record number that follows Y's Finished. In the
// first two placements X meets the alert while it cannot read that epoch yet, on whatever path it keeps
// early records on. DTLS 1.2 variants only (epoch 1 opens with ChangeCipherSpec).
//
// Oracle (property text: "a received fatal alert closes the connection in the same way", "The peer's Read then
// returns EOF", "close_notify at most once", no goroutine left): an implementation may discard a record it
// cannot read yet, so X is allowed to ignore the early alert completely. But it may not process it halfway:
// if X emitted an alert record of its own (the close_notify reply — its application never called Close) it
// has received the peer's close_notify and must be closed: Read returns a closed / EOF error at once, Write
// fails. In the "after" placement X can read the epoch, so the alert must close it: Read returns an error for
// close_notify (EOF) and fatal alerts alike; a warning alert other than close_notify must not close it.
type authAlert struct {
	name        string
	level, desc byte
}

var authAlerts = []authAlert{{"close_notify", 1, 0}, {"fatal-handshake_failure", 2, 40}, {"warning-user_canceled", 1, 90}}

func authAlertRun(t *testing.T, p *world.PKI, v checks.Variant, xIsClient bool, al authAlert, place string, seed uint64) run.Outcome {
	var o run.Outcome
	var viol []string
	bad := func(f string, a ...any) { viol = append(viol, fmt.Sprintf(f, a...)) }
	leak := world.RunLeak(t, seed, func(w *world.World) {
		pr, err := v.Setup(w, p)
		if err != nil {
			o.Skip = true
			return
		}
		x, y := pr.S, pr.C
		if xIsClient {
			x, y = pr.C, pr.S
		}
		n := world.NewNet(w, world.ClientAddr, nil)
		w.CIDLenHint = pr.CIDLenFor
		// forge builds the alert that follows the last epoch>=1 record of datagram data (emitted by Y).
		forge := func(data []byte) []byte {
			s, ok := pr.GetSecrets()
			if !ok || s.V13 {
				return nil
			}
			recs, _ := world.ParseDatagram(data, pr.CIDLenFor(y.Addr))
			var last *world.Rec
			for i := range recs {
				if !recs[i].Unified && recs[i].Epoch >= 1 {
					last = &recs[i]
				}
			}
			if last == nil {
				return nil
			}
			k := refimpl.KeyBlockFor(s.Suite, s.Master, s.ClientRandom, s.ServerRandom).Writer(!xIsClient)
			rec, err := refimpl.Seal12(s.Suite, k, refimpl.Record12{Type: world.CTAlert, Epoch: last.Epoch, Seq: last.Seq + 1,
				WrapCID: last.Type == world.CTCID, CID: last.CID, Payload: []byte{al.level, al.desc}})
			if err != nil {
				return nil
			}
			return rec
		}
		injected := false
		from := 0
		for i := 0; i < 400 && !injected; i++ {
			if place != "after" && !x.HS.Done() {
				for _, d := range w.InFlight() {
					if d.Src != y.Addr {
						continue
					}
					a := forge(d.Data)
					if a == nil {
						continue
					}
					from = w.EmittedCount()
					if place == "append" {
						w.Take(d)
						w.Push(d.Src, d.Dst, append(append([]byte(nil), d.Data...), a...))
					} else {
						w.Push(y.Addr, x.Addr, a)
					}
					w.Settle()
					injected = true
					break
				}
			}
			if injected {
				break
			}
			if pr.BothDone() {
				break
			}
			if !n.Step() {
				break
			}
		}
		if place == "after" {
			if err := n.Pump(20*time.Second, pr.BothDone); err != nil || !pr.BothOK() {
				o.Skip = true
				pr.CloseAll()
				return
			}
			n.Flush()
			// the newest epoch>=1 record Y emitted
			var lastD []byte
			for _, d := range w.Emitted() {
				if d.Src == y.Addr && forge(d.Data) != nil {
					lastD = d.Data
				}
			}
			if a := forge(lastD); a != nil {
				from = w.EmittedCount()
				w.Push(y.Addr, x.Addr, a)
				w.Settle()
				injected = true
			}
		}
		if !injected {
			o.Skip = true
			o.Class = "no-injection-point"
			pr.CloseAll()
			return
		}
		_ = n.Pump(12*time.Second, func() bool { return false })
		n.Flush()
		dec := pr.NewDecoder()
		alertsBy := func(src world.Addr) int {
			dec.Poll()
			k := 0
			for _, r := range dec.Out {
				// close_notify = alert description 0; other alerts (a fatal alert that ends a failing handshake)
				// are not limited by the property
				if r.D.Src == src && r.D.ID >= from && r.Type == world.CTAlert && (r.OK || r.Plain) && len(r.Payload) == 2 && r.Payload[1] == 0 {
					k++
				}
			}
			return k
		}
		replied := alertsBy(x.Addr) > 0
		xDone, xerr := x.HS.Result()
		// is X closed? A Read with a short deadline tells: closed => closed/EOF error at once; open => deadline error.
		_ = x.Conn.SetReadDeadline(time.Now().Add(50 * time.Millisecond))
		rd := startRead(w, x)
		if xDone {
			w.Sleep(60 * time.Millisecond)
			w.Settle()
		} else {
			w.SettleLoose()
		}
		closed := false
		if rd.Done() {
			if _, e := rd.Result(); e != nil && !deadlineClass(e) {
				closed = true
				if al.desc == 0 && xDone && xerr == nil && !errors.Is(e, io.EOF) && !closedClass(e) {
					bad("%s: Read after the peer's close_notify returned %v (want EOF / closed)", x.Name, e)
				}
			}
		} else if xDone {
			bad("%s: a Read with a deadline did not return", x.Name)
		}
		if xDone && xerr != nil {
			closed = true // the handshake call failed: nothing was established
		}
		mustClose := replied || (place == "after" && (al.level == 2 || al.desc == 0))
		if mustClose && !closed && xDone {
			bad("%s %s the peer's authentic %s alert (placement %s; Handshake returned %v) but the connection is not closed: Read still waits for data", x.Name,
				map[bool]string{true: "answered", false: "received"}[replied], al.name, place, xerr)
		}
		// (whether a warning alert other than close_notify closes the connection is not the property's subject:
		// this library closes on it, which is allowed)
		if mustClose && xDone && xerr == nil && closed {
			wr := startWrite(w, x, "after-alert")
			w.Settle()
			if wr.Done() {
				if _, e := wr.Result(); e == nil {
					bad("%s: Write succeeded on a connection closed by the peer's %s", x.Name, al.name)
				}
			}
		}
		_ = x.Conn.SetReadDeadline(time.Time{})
		xc := startClose(w, x, 0)
		w.SettleLoose()
		if !world.MutexBlocked() {
			w.Settle()
		}
		n.Flush()
		if !xc.Done() {
			bad("Close of %s did not return", x.Name)
		}
		if k := alertsBy(x.Addr); k > 1 {
			bad("%s emitted %d close_notify records (at most once)", x.Name, k)
		}
		finish(w, pr, n, x, y, bad)
		o.NonTrivial = true
		o.Class = fmt.Sprintf("authalert %s/%s hs-done=%v hs-ok=%v replied=%v closed=%v", al.name, place, xDone, xerr == nil, replied, closed)
	})
	if leak != "" {
		viol = append(viol, "goroutines left behind: "+firstLine(leak))
	}
	if len(viol) > 0 {
		o.Violation = fmt.Sprintf("case %s/%s/authalert/%s/%s: %s", v.Name, sideName(xIsClient), al.name, place, strings.Join(viol, "; "))
		o.Key = "authalert:" + firstLine(viol[0])
	}
	o.Sample = map[string]any{"variant": v.Name, "receiver": sideName(xIsClient), "alert": al.name, "placement": place, "class": o.Class}
	return o
}

func authAlertCases(p *world.PKI, thorough bool, seed uint64) []run.Case {
	names := []string{"12-cert", "12-resumed", "12-cid", "12-cid-resumed", "12-psk"}
	if thorough {
		names = append(names, "12-clientauth", "12-mtu100", "12-ecdhepsk")
	}
	var cases []run.Case
	for _, name := range names {
		var v checks.Variant
		for _, x := range append(checks.AllVariants(), checks.VariantsCombined()...) {
			if x.Name == name {
				v = x
			}
		}
		if v.Name == "" {
			continue
		}
		for _, xIsClient := range []bool{true, false} {
			for _, al := range authAlerts {
				for _, place := range []string{"append", "before", "after"} {
					v, xIsClient, al, place := v, xIsClient, al, place
					cases = append(cases, run.Case{ID: fmt.Sprintf("%s/%s/authalert/%s/%s", v.Name, sideName(xIsClient), al.name, place),
						Run: func(t *testing.T) run.Outcome { return authAlertRun(t, p, v, xIsClient, al, place, seed) }})
				}
			}
		}
	}
	return cases
}
