//go:build verif

package c11

import (
	"crypto/tls"
	"fmt"
	"sort"
	"strings"

	dtls "github.com/pion/dtls/v3"
	"github.com/pion/dtls/v3/zzverif/world"
)

// The independent policy model of C11. It is written from the property text, RFC 5246/8446/7301/
// 5764/7627 and the IANA registries; it reads nothing but the two world.Cfg values and never calls
// pion's negotiation code.
//
// A *policy* is what one endpoint's option set permits:
//   versions   every version in [MinV,MaxV] for which the endpoint enables at least one cipher suite
//   suites     the configured list (nil = the documented default list for the versions in range)
//   key type   server only: which authentication families its credential can serve
//   groups     the configured curve list (nil = default X25519MLKEM768(1.3 only), X25519, P-256, P-384)
//   sigs       the configured signature schemes (nil = unrestricted)
//   srtp/alpn  the configured lists (empty = feature not used)
//   ems        request / require / disable (DTLS 1.2 only; DTLS 1.3 has no such choice)
//
// Predict computes the set of outcomes that lie inside BOTH policies. The set is deliberately the
// most generous one that is still inside both policies (e.g. it does not model which suites a client
// without a PSK callback is able to offer): then (1) a completed handshake outside the set really is
// out of policy, and (2) Fail is declared only when truly no common value exists.

const (
	authECDSA = iota + 1 // certificate with an ECDSA or Ed25519 key (ECDHE_ECDSA suites)
	authRSA              // certificate with an RSA key (ECDHE_RSA suites)
	authPSK              // pre-shared key
	authAny13            // TLS 1.3 suite: independent of the key type
)

type suiteInfo struct {
	ID    uint16
	Name  string
	V13   bool
	Auth  int
	ECDHE bool
}

// IANA TLS cipher suite registry (the subset pion/dtls implements).
var suiteTable = []suiteInfo{
	{0x1301, "TLS_AES_128_GCM_SHA256", true, authAny13, true},
	{0x1302, "TLS_AES_256_GCM_SHA384", true, authAny13, true},
	{0x1303, "TLS_CHACHA20_POLY1305_SHA256", true, authAny13, true},
	{0xc0ac, "ECDHE_ECDSA_AES_128_CCM", false, authECDSA, true},
	{0xc0ae, "ECDHE_ECDSA_AES_128_CCM_8", false, authECDSA, true},
	{0xc02b, "ECDHE_ECDSA_AES_128_GCM_SHA256", false, authECDSA, true},
	{0xc02c, "ECDHE_ECDSA_AES_256_GCM_SHA384", false, authECDSA, true},
	{0xc00a, "ECDHE_ECDSA_AES_256_CBC_SHA", false, authECDSA, true},
	{0xcca9, "ECDHE_ECDSA_CHACHA20_POLY1305", false, authECDSA, true},
	{0xc02f, "ECDHE_RSA_AES_128_GCM_SHA256", false, authRSA, true},
	{0xc030, "ECDHE_RSA_AES_256_GCM_SHA384", false, authRSA, true},
	{0xc014, "ECDHE_RSA_AES_256_CBC_SHA", false, authRSA, true},
	{0xcca8, "ECDHE_RSA_CHACHA20_POLY1305", false, authRSA, true},
	{0xc0a4, "PSK_AES_128_CCM", false, authPSK, false},
	{0xc0a8, "PSK_AES_128_CCM_8", false, authPSK, false},
	{0xc0a9, "PSK_AES_256_CCM_8", false, authPSK, false},
	{0x00a8, "PSK_AES_128_GCM_SHA256", false, authPSK, false},
	{0x00ae, "PSK_AES_128_CBC_SHA256", false, authPSK, false},
	{0xccab, "PSK_CHACHA20_POLY1305", false, authPSK, false},
	{0xc037, "ECDHE_PSK_AES_128_CBC_SHA256", false, authPSK, true},
}

func lookupSuite(id uint16) (suiteInfo, bool) {
	for _, s := range suiteTable {
		if s.ID == id {
			return s, true
		}
	}
	return suiteInfo{}, false
}

// Documented default suite lists (pion/dtls README / cipher_suite.go doc: "in order of preference").
var (
	default12 = []uint16{0xc02b, 0xc02f, 0xcca9, 0xcca8, 0xc00a, 0xc014, 0xc02c, 0xc030}
	default13 = []uint16{0x1301, 0x1302, 0x1303}
)

// Named groups (IANA).
const (
	grpP256   = 0x0017
	grpP384   = 0x0018
	grpX25519 = 0x001d
	grpMLKEM  = 0x11ec // X25519MLKEM768, DTLS 1.3 only
)

var defaultGroups = []uint16{grpMLKEM, grpX25519, grpP256, grpP384}

// Policy is one endpoint's policy in model terms.
type Policy struct {
	IsClient  bool
	Range     []int // 12 and/or 13, plain configured range
	Versions  []int // range restricted to versions with at least one enabled suite
	Suites    []uint16
	KeyAuth   map[int]bool // server: authentication families the credential serves
	KeyFamily string       // server: "ecdsa", "rsa", "ed25519", "" (no certificate)
	Groups    []uint16
	Sigs      []uint16 // nil = unrestricted
	SRTP      []uint16
	ALPN      []string
	EMS       int
	CIDLen    int
}

func normV(v int) int {
	if v == 13 {
		return 13
	}
	return 12
}

// PolicyOf derives the policy from the pure-data configuration.
func PolicyOf(c world.Cfg, isClient bool) Policy {
	p := Policy{IsClient: isClient, EMS: c.EMS, ALPN: c.ALPN, CIDLen: c.CIDLen}
	lo, hi := normV(c.MinV), normV(c.MaxV)
	if c.MaxV == 0 {
		hi = 12
	}
	for v := lo; v <= hi; v++ {
		p.Range = append(p.Range, v)
	}
	if c.Suites != nil {
		for _, s := range c.Suites {
			p.Suites = append(p.Suites, uint16(s))
		}
	} else {
		for _, v := range p.Range {
			if v == 12 {
				p.Suites = append(p.Suites, default12...)
			} else {
				p.Suites = append(p.Suites, default13...)
			}
		}
	}
	for _, v := range p.Range {
		for _, s := range p.Suites {
			if si, ok := lookupSuite(s); ok && si.V13 == (v == 13) {
				p.Versions = append(p.Versions, v)
				break
			}
		}
	}
	if !isClient {
		p.KeyAuth = map[int]bool{authAny13: true}
		cred := c.Cred
		if cred == "" {
			cred = "ecdsa"
		}
		switch cred {
		case "ecdsa", "ecdsa2", "ecdsa384":
			p.KeyAuth[authECDSA], p.KeyFamily = true, "ecdsa"
		case "ed25519":
			p.KeyAuth[authECDSA], p.KeyFamily = true, "ed25519"
		case "rsa":
			p.KeyAuth[authRSA], p.KeyFamily = true, "rsa"
		}
		if c.PSK != nil {
			p.KeyAuth[authPSK] = true
		}
	}
	if c.Curves != nil {
		for _, g := range c.Curves {
			p.Groups = append(p.Groups, uint16(g))
		}
	} else {
		p.Groups = defaultGroups
	}
	if c.SigSchemes != nil {
		p.Sigs = []uint16{}
		for _, s := range c.SigSchemes {
			p.Sigs = append(p.Sigs, uint16(s))
		}
	}
	for _, s := range c.SRTP {
		p.SRTP = append(p.SRTP, uint16(s))
	}
	return p
}

func hasInt(l []int, x int) bool {
	for _, y := range l {
		if x == y {
			return true
		}
	}
	return false
}

func hasU16(l []uint16, x uint16) bool {
	for _, y := range l {
		if x == y {
			return true
		}
	}
	return false
}

func hasStr(l []string, x string) bool {
	for _, y := range l {
		if x == y {
			return true
		}
	}
	return false
}

// groupsFor returns the policy's groups usable with the version.
func (p Policy) groupsFor(v int) []uint16 {
	var out []uint16
	for _, g := range p.Groups {
		if g == grpMLKEM && v != 13 {
			continue
		}
		out = append(out, g)
	}
	return out
}

// sigFamilyOK: can a key of the family produce a signature of this scheme at all?
func sigFamilyOK(family string, scheme uint16) bool {
	switch family {
	case "ecdsa":
		return scheme&0xff == 0x03 && scheme>>8 >= 2 && scheme>>8 <= 6
	case "rsa":
		return (scheme&0xff == 0x01 && scheme>>8 >= 2 && scheme>>8 <= 6) || (scheme >= 0x0804 && scheme <= 0x0806) || (scheme >= 0x0809 && scheme <= 0x080b)
	case "ed25519":
		return scheme == uint16(tls.Ed25519)
	}
	return false
}

// Prediction is the model's verdict for a configuration pair.
type Prediction struct {
	Fail     bool
	FailDims []string // dimensions with an empty intersection (sorted)
	Version  int
	Suites   []uint16          // admissible suites
	Groups   []uint16          // admissible key-exchange groups (for suites with ECDHE)
	Sigs     func(uint16) bool // admissible server signature scheme
	C, S     Policy
}

func (p Prediction) FailKey() string { return strings.Join(p.FailDims, "+") }

func inter16(a, b []uint16) []uint16 {
	var out []uint16
	for _, x := range a {
		if hasU16(b, x) && !hasU16(out, x) {
			out = append(out, x)
		}
	}
	return out
}

// Predict computes the admissible outcome set of a configuration pair.
func Predict(cc, sc world.Cfg) Prediction {
	c, s := PolicyOf(cc, true), PolicyOf(sc, false)
	// A server with several certificates presents the one the ClientHello's server name selects (first
	// match by name, else the first one); a GetCertificate callback is asked whenever a name is given.
	// "Fits the server's key type" is judged against the key of that certificate.
	if sel := selectedCred(cc, sc); sel != "" {
		delete(s.KeyAuth, authECDSA)
		delete(s.KeyAuth, authRSA)
		switch sel {
		case "rsa", "rsaalt":
			s.KeyAuth[authRSA], s.KeyFamily = true, "rsa"
		case "ed25519":
			s.KeyAuth[authECDSA], s.KeyFamily = true, "ed25519"
		default:
			s.KeyAuth[authECDSA], s.KeyFamily = true, "ecdsa"
		}
	}
	pr := Prediction{C: c, S: s}
	dims := map[string]bool{}
	fail := func(d string) { dims[d] = true }
	finish := func() Prediction {
		for d := range dims {
			pr.FailDims = append(pr.FailDims, d)
		}
		sort.Strings(pr.FailDims)
		pr.Fail = len(pr.FailDims) > 0
		return pr
	}

	// Version: highest version both allow.
	best := 0
	for _, v := range c.Versions {
		if hasInt(s.Versions, v) && v > best {
			best = v
		}
	}
	if best == 0 {
		fail("version")
		return finish()
	}
	pr.Version = best

	// Feature lists that are independent of the suite.
	if best == 12 && ((c.EMS == 1 && s.EMS == 2) || (s.EMS == 1 && c.EMS == 2)) {
		fail("ems")
	}
	if len(c.SRTP) > 0 && len(s.SRTP) > 0 && len(inter16(c.SRTP, s.SRTP)) == 0 {
		fail("srtp")
	}
	if len(c.ALPN) > 0 && len(s.ALPN) > 0 {
		common := false
		for _, a := range c.ALPN {
			if hasStr(s.ALPN, a) {
				common = true
			}
		}
		if !common {
			fail("alpn")
		}
	}

	// Suites: offered ∩ enabled ∩ valid for the version ∩ fits the server's key type, and for each
	// the group / signature-scheme requirement must be satisfiable.
	pr.Groups = inter16(c.groupsFor(best), s.groupsFor(best))
	pr.Sigs = func(x uint16) bool {
		return (c.Sigs == nil || hasU16(c.Sigs, x)) && (s.Sigs == nil || hasU16(s.Sigs, x))
	}
	sigPossible := func() bool {
		if s.KeyFamily == "" {
			return true // no certificate: nothing is signed (generous for 1.3 + PSK-only servers)
		}
		if c.Sigs == nil && s.Sigs == nil {
			return true
		}
		l := c.Sigs
		if l == nil {
			l = s.Sigs
		}
		for _, x := range l {
			if pr.Sigs(x) && sigFamilyOK(s.KeyFamily, x) {
				return true
			}
		}
		return false
	}()
	var common, fit []uint16
	elim := map[string]bool{}
	for _, id := range c.Suites {
		si, ok := lookupSuite(id)
		if !ok || si.V13 != (best == 13) || !hasU16(s.Suites, id) || hasU16(common, id) {
			continue
		}
		common = append(common, id)
		if !s.KeyAuth[si.Auth] {
			continue
		}
		fit = append(fit, id)
		if si.ECDHE && len(pr.Groups) == 0 {
			elim["curve"] = true
			continue
		}
		if (si.Auth == authECDSA || si.Auth == authRSA || si.Auth == authAny13) && !sigPossible {
			elim["sig"] = true
			continue
		}
		pr.Suites = append(pr.Suites, id)
	}
	switch {
	case len(common) == 0:
		fail("suite")
	case len(fit) == 0:
		fail("keytype")
	case len(pr.Suites) == 0:
		for d := range elim {
			fail(d)
		}
	}
	return finish()
}

var credNames = map[string]string{"ecdsa": "server.test", "ecdsa2": "server.test", "ecdsa384": "server.test", "rsa": "server.test", "ed25519": "server.test",
	"rsaalt": "rsa.server.test", "ecalt": "ec.server.test"}

// selectedCred returns the credential a multi-certificate / GetCertificate server presents to this client
// ("" when the server has the single credential of Cfg.Cred).
func selectedCred(cc, sc world.Cfg) string {
	sni := cc.ServerName
	if sni == "" {
		sni = "server.test"
	}
	if sc.GetCertSwitch[1] != "" {
		return sc.GetCertSwitch[1] // what the callback hands out when the flight is built
	}
	if sc.GetCertSNI != "" {
		return sc.GetCertSNI
	}
	if len(sc.MultiCert) == 0 {
		return ""
	}
	for _, n := range sc.MultiCert {
		if credNames[n] == sni {
			return n
		}
	}
	return sc.MultiCert[0]
}

func versionString(v int) string {
	if v == 13 {
		return "254.252"
	}
	return "254.253"
}

// sanity cross-check of the model's registry numbers against the library's exported constants.
func registrySanity() error {
	pairs := map[uint16]dtls.CipherSuiteID{
		0x1301: dtls.TLS_AES_128_GCM_SHA256, 0xc02b: dtls.TLS_ECDHE_ECDSA_WITH_AES_128_GCM_SHA256, 0xc00a: dtls.TLS_ECDHE_ECDSA_WITH_AES_256_CBC_SHA,
		0xc02f: dtls.TLS_ECDHE_RSA_WITH_AES_128_GCM_SHA256, 0x00a8: dtls.TLS_PSK_WITH_AES_128_GCM_SHA256, 0xc037: dtls.TLS_ECDHE_PSK_WITH_AES_128_CBC_SHA256,
	}
	for k, v := range pairs {
		if uint16(v) != k {
			return fmt.Errorf("registry mismatch %#04x vs %#04x", k, uint16(v))
		}
	}
	return nil
}
