//go:build verif

package c11

import (
	"fmt"
	"testing"

	"github.com/pion/dtls/v3/zzverif/run"
	"github.com/pion/dtls/v3/zzverif/world"
)

// Family "resumed": the policy of either endpoint changes between two connections that share session
// stores. Connection 1 runs under (base + d1), is closed, and connection 2 — which may be an abbreviated
// handshake — runs under (base + d2) and is judged by the same policy oracle as every other pair: whatever
// an earlier connection negotiated, the parameters of THIS connection must lie inside THIS connection's
// policies (e.g. a side that now requires extended master secret never completes without it).
// Added after a seeded change showed that single-connection enumeration cannot see policy checks that are
// skipped on the resumption path.

func runResumed(t *testing.T, p *world.PKI, seed uint64, name string, c1, s1, c2, s2 world.Cfg) run.Outcome {
	var o run.Outcome
	world.Run(t, seed, func(w *world.World) {
		cs, ss := world.NewMapStore(), world.NewMapStore()
		c1.Store, s1.Store, c2.Store, s2.Store = cs, ss, cs, ss
		pr1, err := w.NewPair(p, c1, s1)
		if err != nil {
			o.Skip, o.Class = true, "config-rejected"
			return
		}
		n1 := world.NewNet(w, world.ClientAddr, nil)
		_ = n1.Pump(horizon, pr1.BothDone)
		first := pr1.BothOK()
		pr1.CloseAll()
		if !first || cs.Len() == 0 || ss.Len() == 0 {
			o.Skip, o.Class = true, "no-session-to-resume"
			return
		}
		pr, err := w.NewPair(p, c2, s2)
		if err != nil {
			o.Skip, o.Class = true, "config-rejected"
			return
		}
		n := world.NewNet(w, world.ClientAddr, nil)
		tr := pr.Trace(n)
		_ = n.Pump(horizon, pr.BothDone)
		o.States, o.Transitions = tr.States, tr.Trans
		if (pr.C.HS.Done() && !pr.C.HS.OK() && w.Delivered[world.ClientAddr] == 0) || (pr.S.HS.Done() && !pr.S.HS.OK() && w.Delivered[world.ServerAddr] == 0) {
			o.Class = "own-config-refused-at-handshake-start"
			pr.CloseAll()
			return
		}
		jc, js := c2, s2
		if abbreviatedOnWire(w, pr) {
			// An abbreviated handshake carries no certificate, key exchange or signature: the group and
			// signature-scheme lists are not exercised by this connection, so they cannot be violated by it.
			jc.SigSchemes, js.SigSchemes, jc.Curves, js.Curves = nil, nil, nil, nil
		}
		v := judge(w, pr, jc, js)
		o.Violation, o.Key, o.Class, o.Counters = v.Violation, v.Key, "resumed:"+v.Class, v.Counters
		if o.Violation != "" {
			o.Violation = name + ": " + o.Violation
			o.Key = "resumed:" + o.Key
			o.Counters["violation_key:"+o.Key]++
		}
		o.NonTrivial = true
		o.Sample = map[string]any{"case": name, "outcome": o.Class}
		pr.CloseAll()
	})
	return o
}

func resumedCases(p *world.PKI, seed uint64, thorough bool) []run.Case {
	var out []run.Case
	devs := append([]dev{{"none", "none", func(c, s *world.Cfg) {}}}, devCatalogue()...)
	for _, b := range bases(thorough) {
		if b.Name != "12-ecdsa" && b.Name != "12-psk" && !(thorough && b.Name == "12-rsa") {
			continue
		}
		for _, d1 := range devs {
			for _, d2 := range devs {
				b, d1, d2 := b, d1, d2
				name := fmt.Sprintf("resumed/%s/%s=>%s", b.Name, d1.Name, d2.Name)
				out = append(out, run.Case{ID: name, Run: func(t *testing.T) run.Outcome {
					c1, s1, c2, s2 := b.C, b.S, b.C, b.S
					d1.Apply(&c1, &s1)
					d2.Apply(&c2, &s2)
					return runResumed(t, p, seed, name, c1, s1, c2, s2)
				}})
			}
		}
	}
	return out
}

// abbreviatedOnWire reports whether the server of this association answered without Certificate /
// ServerKeyExchange / ServerHelloDone (judged from the captured datagrams).
func abbreviatedOnWire(w *world.World, pr *world.Pair) bool {
	sawSH, sawFull := false, false
	for _, d := range w.Emitted() {
		if d.Src != pr.S.Addr || d.ID < pr.FirstID {
			continue
		}
		recs, _ := world.ParseDatagram(d.Data, 0)
		for _, r := range recs {
			for _, f := range r.HS {
				switch f.Type {
				case 2:
					sawSH = true
				case 11, 12, 14:
					sawFull = true
				}
			}
		}
	}
	return sawSH && !sawFull
}
