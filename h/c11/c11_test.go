//go:build verif

package c11

import (
	"crypto/tls"
	"errors"
	"fmt"
	"os"
	"slices"
	"sort"
	"strings"
	"testing"
	"time"

	dtls "github.com/pion/dtls/v3"
	dtlsstate "github.com/pion/dtls/v3/internal/state"
	"github.com/pion/dtls/v3/pkg/crypto/elliptic"
	"github.com/pion/dtls/v3/pkg/protocol/extension"
	"github.com/pion/dtls/v3/pkg/protocol/handshake"
	"github.com/pion/dtls/v3/zzverif/run"
	"github.com/pion/dtls/v3/zzverif/world"
)

// C11 — negotiation honours both endpoints' policy.
//
// ENUMERATED (reliable FIFO network, no faults, horizon 30 s of fake time):
//   core  the FULL PRODUCT  version range {1.2, 1.3, 1.2-1.3}²  x  client suite list  x  server suite
//         list  x  server credential  x  curve list²  x  EMS policy {request, require, disable}².
//         quick: 7 suite shapes, 4 credentials, 3 curve shapes (142 884 pairs); thorough: 10 suite
//         shapes, 5 credentials, 5 curve shapes (1 012 500 pairs). Pairs the library refuses at
//         construction are skipped (counted); an endpoint that refuses its own option set at the very
//         start of Handshake (before any datagram reached it) is counted apart.
//   dev   every set of <= 2 (thorough: <= 3) deviations with pairwise distinct dimensions from a
//         catalogue over signature schemes, SRTP lists (+MKI), ALPN lists, CID generators, EMS, curves
//         and hello-verify, applied to each base pair (DTLS 1.2 ECDSA/RSA/Ed25519/PSK, DTLS 1.3,
//         dual-stack against 1.2/1.3, client authentication, and the empty intersections of version,
//         suite list and key type). The catalogue contains every "empty intersection in exactly one
//         dimension".
//
// ORACLE (judge): model.go computes from the two world.Cfg values alone either FAIL (+ the dimensions
// whose intersection is empty) or the set of admissible outcomes.
//   (A) every ServerHello / HelloRetryRequest captured on the wire carries only extension types that
//       the latest preceding ClientHello carried (exceptions: cookie in a HelloRetryRequest, RFC 8446
//       4.2.2; renegotiation_info answering the SCSV, RFC 5746 3.6). DTLS 1.3 EncryptedExtensions are
//       encrypted and not covered.
//   (B) model FAIL: no side may complete (violation "completed-despite-no-common-<dims>-dtls<v>");
//       and the statement "the handshake fails on both sides with an alert" is read literally: both
//       Handshake calls must return an error within the horizon ("no-common-value-but-no-failure[..]")
//       and an alert record must have been emitted ("no-common-value-but-no-alert[..]"); a protected
//       DTLS 1.3 record from a failing side is accepted as the alert.
//   (C) model compatible: every side that completed must report version = highest version both
//       policies allow, suite in offered ∩ enabled ∩ fits the server key ∩ version, key-exchange group
//       in both curve lists, EMS in use if it requires it (and not in use if it disables it; DTLS 1.2
//       only), SRTP profile / ALPN protocol in both lists, connection IDs only from both generators;
//       the same is checked on the wire: ServerHello suite ∈ ClientHello list, ServerKeyExchange curve
//       and signature scheme, ServerHello key_share group, ALPN / use_srtp selections, and the client's
//       CertificateVerify scheme (DTLS 1.2 client authentication). The DTLS 1.3 CertificateVerify
//       scheme is encrypted and not observable.
//       A compatible pair that fails or hangs is NOT a violation (the property demands in-policy
//       outcomes and clean failure, not success): counted as unexpected_failures with a breakdown.

const horizon = 30 * time.Second

var pskKey = []byte{0xAB, 0xC1, 0x23, 0x45, 0x67}

// ---- value sets ---------------------------------------------------------------------------------

type namedRange struct {
	Name     string
	Min, Max int
}

var ranges = []namedRange{{"12", 12, 12}, {"13", 13, 13}, {"dual", 12, 13}}

type namedSuites struct {
	Name string
	L    []dtls.CipherSuiteID
}

const (
	sECDSAGCM = dtls.TLS_ECDHE_ECDSA_WITH_AES_128_GCM_SHA256
	sECDSACBC = dtls.TLS_ECDHE_ECDSA_WITH_AES_256_CBC_SHA
	sRSAGCM   = dtls.TLS_ECDHE_RSA_WITH_AES_128_GCM_SHA256
	sPSKGCM   = dtls.TLS_PSK_WITH_AES_128_GCM_SHA256
	sEPSKCBC  = dtls.TLS_ECDHE_PSK_WITH_AES_128_CBC_SHA256
	s13A128   = dtls.TLS_AES_128_GCM_SHA256
	s13A256   = dtls.TLS_AES_256_GCM_SHA384
)

var suiteShapesQuick = []namedSuites{
	{"def", nil},
	{"eG", []dtls.CipherSuiteID{sECDSAGCM}},
	{"eCeG", []dtls.CipherSuiteID{sECDSACBC, sECDSAGCM}},
	{"rG", []dtls.CipherSuiteID{sRSAGCM}},
	{"pG", []dtls.CipherSuiteID{sPSKGCM}},
	{"t1", []dtls.CipherSuiteID{s13A128}},
	{"t1eG", []dtls.CipherSuiteID{s13A128, sECDSAGCM}}, // a list that spans both versions
	{"epC", []dtls.CipherSuiteID{sEPSKCBC}},            // PSK authentication that still needs a common group
}

var suiteShapesExtra = []namedSuites{
	{"t2rGpG", []dtls.CipherSuiteID{s13A256, sRSAGCM, sPSKGCM}},
	{"rGeG", []dtls.CipherSuiteID{sRSAGCM, sECDSAGCM}}, // both key families, RSA preferred
}

type namedCurves struct {
	Name string
	L    []elliptic.Curve
}

var curveShapes = []namedCurves{
	{"def", nil},
	{"x", []elliptic.Curve{elliptic.X25519}},
	{"p", []elliptic.Curve{elliptic.P256, elliptic.P384}},
}

var curveShapesExtra = []namedCurves{
	{"mp", []elliptic.Curve{elliptic.X25519MLKEM768, elliptic.P256}}, // the hybrid group exists in DTLS 1.3 only
	{"p3", []elliptic.Curve{elliptic.P384}},
}

var credsQuick = []string{"ecdsa", "rsa", "ed25519", "psk"}
var credsExtra = []string{"ecdsa+psk"}

var emsNames = []string{"req", "REQUIRE", "dis"}

func hasPSKSuite(l []dtls.CipherSuiteID) bool {
	for _, id := range l {
		if si, ok := lookupSuite(uint16(id)); ok && si.Auth == authPSK {
			return true
		}
	}
	return false
}

// coreCfg builds the configuration pair of one point of the core product.
// The client owns a PSK callback exactly when its suite list names a PSK suite (a client has no
// other credential here; this is the only way such a list is constructible).
func coreCfg(cv, sv namedRange, cs, ss namedSuites, cred string, cc, sc namedCurves, cems, sems int) (world.Cfg, world.Cfg) {
	c := world.Cfg{MinV: cv.Min, MaxV: cv.Max, Suites: cs.L, Curves: cc.L, EMS: cems}
	s := world.Cfg{MinV: sv.Min, MaxV: sv.Max, Suites: ss.L, Curves: sc.L, EMS: sems}
	if hasPSKSuite(cs.L) {
		c.Cred, c.PSK = "psk", pskKey
	}
	switch cred {
	case "psk":
		s.Cred, s.PSK = "psk", pskKey
	case "ecdsa+psk":
		s.Cred, s.PSK = "ecdsa", pskKey
	default:
		s.Cred = cred
	}
	return c, s
}

// ---- deviations ---------------------------------------------------------------------------------

type dev struct {
	Dim, Name string
	Apply     func(c, s *world.Cfg)
}

type base struct {
	Name string
	C, S world.Cfg
}

func sigs(l ...tls.SignatureScheme) []tls.SignatureScheme { return l }
func srtp(l ...dtls.SRTPProtectionProfile) []dtls.SRTPProtectionProfile {
	return l
}

const (
	p80  = dtls.SRTP_AES128_CM_HMAC_SHA1_80
	p32  = dtls.SRTP_AES128_CM_HMAC_SHA1_32
	pGCM = dtls.SRTP_AEAD_AES_128_GCM
)

// dropOnRetry is a ClientHello hook that removes one extension from every ClientHello that carries a cookie.
func dropOnRetry(t extension.Type) dtls.Option {
	return dtls.WithClientHelloMessageHook(func(m handshake.MessageClientHello) handshake.Message {
		if len(m.Cookie) > 0 {
			kept := make([]extension.Value, 0, len(m.Extensions))
			for _, e := range m.Extensions {
				if e.ExtensionType() != t {
					kept = append(kept, e)
				}
			}
			m.Extensions = kept
		}
		return &m
	})
}

// offerUnconfiguredSuites is a ClientHello hook that puts cipher suites the client is NOT configured with in
// front of its offer (in every ClientHello of the handshake, so the cookie exchange sees consistent hellos): the
// wire offer is wider than the client's policy; a server that picks one of them must be refused by the client.
func offerUnconfiguredSuites(extra ...uint16) dtls.Option {
	return dtls.WithClientHelloMessageHook(func(m handshake.MessageClientHello) handshake.Message {
		// idempotent: a second ClientHello may be built from the first one's (already widened) image
		var add []uint16
		for _, id := range extra {
			if !slices.Contains(m.CipherSuiteIDs, id) {
				add = append(add, id)
			}
		}
		m.CipherSuiteIDs = append(add, m.CipherSuiteIDs...)
		return &m
	})
}

// offerOnlyForeignGroups is a ClientHello hook that replaces the supported_groups list by groups this library
// has no implementation of (secp521r1, x448): what a conforming client with another policy sends. No group is
// common; a server that goes on anyway announces a group the hello did not list.
func offerOnlyForeignGroups() dtls.Option {
	return dtls.WithClientHelloMessageHook(func(m handshake.MessageClientHello) handshake.Message {
		ext := append([]extension.Value(nil), m.Extensions...)
		for i, e := range ext {
			if e.ExtensionType() == extension.TypeSupportedGroups {
				ext[i] = &extension.SupportedGroups{Groups: []elliptic.Curve{0x0019, 0x001e}}
			}
		}
		m.Extensions = ext
		return &m
	})
}

func devCatalogue() []dev {
	return []dev{
		// signature schemes
		{"sig", "sig=both[ecdsa256]", func(c, s *world.Cfg) {
			c.SigSchemes, s.SigSchemes = sigs(tls.ECDSAWithP256AndSHA256), sigs(tls.ECDSAWithP256AndSHA256)
		}},
		{"sig", "sig=c[ecdsa256]/s[ecdsa384,ecdsa256]", func(c, s *world.Cfg) {
			c.SigSchemes, s.SigSchemes = sigs(tls.ECDSAWithP256AndSHA256), sigs(tls.ECDSAWithP384AndSHA384, tls.ECDSAWithP256AndSHA256)
		}},
		{"sig", "sig=c[ecdsa384,ecdsa256]/s[ecdsa256]", func(c, s *world.Cfg) {
			c.SigSchemes, s.SigSchemes = sigs(tls.ECDSAWithP384AndSHA384, tls.ECDSAWithP256AndSHA256), sigs(tls.ECDSAWithP256AndSHA256)
		}},
		{"sig", "sig=c[ecdsa256]/s[ecdsa384]", func(c, s *world.Cfg) {
			c.SigSchemes, s.SigSchemes = sigs(tls.ECDSAWithP256AndSHA256), sigs(tls.ECDSAWithP384AndSHA384)
		}},
		{"sig", "sig=c[rsa256,ecdsa256]/s[rsa256,ecdsa384,ecdsa256]", func(c, s *world.Cfg) {
			c.SigSchemes, s.SigSchemes = sigs(tls.PKCS1WithSHA256, tls.ECDSAWithP256AndSHA256), sigs(tls.PKCS1WithSHA256, tls.ECDSAWithP384AndSHA384, tls.ECDSAWithP256AndSHA256)
		}},
		{"sig", "sig=c[rsa256]/s-default", func(c, s *world.Cfg) { c.SigSchemes = sigs(tls.PKCS1WithSHA256) }},
		{"sig", "sig=c-default/s[rsa256,pss256]", func(c, s *world.Cfg) { s.SigSchemes = sigs(tls.PKCS1WithSHA256, tls.PSSWithSHA256) }},
		{"sig", "sig=both[ed25519,ecdsa256,pss256]", func(c, s *world.Cfg) {
			c.SigSchemes, s.SigSchemes = sigs(tls.Ed25519, tls.ECDSAWithP256AndSHA256, tls.PSSWithSHA256), sigs(tls.PSSWithSHA256, tls.ECDSAWithP256AndSHA256, tls.Ed25519)
		}},
		// handshake-signature policy next to a (wider) certificate-signature policy: WithCertificateSignatureSchemes
		// constrains the signatures inside the chain only (all test chains are signed ECDSA-P256-SHA256, which
		// every list here contains); the handshake signature is still judged against WithSignatureSchemes
		{"sig", "sig=c[ecdsa256]+certsig[ecdsa256,ecdsa384]/s[ecdsa384]", func(c, s *world.Cfg) {
			c.SigSchemes, s.SigSchemes = sigs(tls.ECDSAWithP256AndSHA256), sigs(tls.ECDSAWithP384AndSHA384)
			c.Extra = append(c.Extra, dtls.WithCertificateSignatureSchemes(tls.ECDSAWithP256AndSHA256, tls.ECDSAWithP384AndSHA384))
		}},
		{"sig", "sig=c[ecdsa384]/s[ecdsa256]+certsig[ecdsa256,ecdsa384]", func(c, s *world.Cfg) {
			c.SigSchemes, s.SigSchemes = sigs(tls.ECDSAWithP384AndSHA384), sigs(tls.ECDSAWithP256AndSHA256)
			s.Extra = append(s.Extra, dtls.WithCertificateSignatureSchemes(tls.ECDSAWithP256AndSHA256, tls.ECDSAWithP384AndSHA384))
		}},
		{"sig", "sig=both[ecdsa384,ecdsa256]+certsig-both[ecdsa256]", func(c, s *world.Cfg) {
			c.SigSchemes, s.SigSchemes = sigs(tls.ECDSAWithP384AndSHA384, tls.ECDSAWithP256AndSHA256), sigs(tls.ECDSAWithP384AndSHA384, tls.ECDSAWithP256AndSHA256)
			c.Extra = append(c.Extra, dtls.WithCertificateSignatureSchemes(tls.ECDSAWithP256AndSHA256))
			s.Extra = append(s.Extra, dtls.WithCertificateSignatureSchemes(tls.ECDSAWithP256AndSHA256))
		}},
		// SRTP
		{"srtp", "srtp=both[80]", func(c, s *world.Cfg) { c.SRTP, s.SRTP = srtp(p80), srtp(p80) }},
		{"srtp", "srtp=c[80,GCM]/s[GCM,32]", func(c, s *world.Cfg) { c.SRTP, s.SRTP = srtp(p80, pGCM), srtp(pGCM, p32) }},
		{"srtp", "srtp=c[80]/s[32]", func(c, s *world.Cfg) { c.SRTP, s.SRTP = srtp(p80), srtp(p32) }},
		{"srtp", "srtp=c[80,32]/s[GCM]", func(c, s *world.Cfg) { c.SRTP, s.SRTP = srtp(p80, p32), srtp(pGCM) }},
		{"srtp", "srtp=c-only[80]", func(c, s *world.Cfg) { c.SRTP = srtp(p80) }},
		{"srtp", "srtp=s-only[80]", func(c, s *world.Cfg) { s.SRTP = srtp(p80) }},
		{"srtp", "srtp=both[80]+mki-differ", func(c, s *world.Cfg) {
			c.SRTP, s.SRTP, c.MKI, s.MKI = srtp(p80), srtp(p80), []byte{0xC1, 0xC2}, []byte{0x51, 0x52, 0x53}
		}},
		{"srtp", "srtp=c[80]/s[32]+mki-same", func(c, s *world.Cfg) {
			c.SRTP, s.SRTP, c.MKI, s.MKI = srtp(p80), srtp(p32), []byte{0xA1}, []byte{0xA1}
		}},
		// ALPN
		{"alpn", "alpn=both[a]", func(c, s *world.Cfg) { c.ALPN, s.ALPN = []string{"a"}, []string{"a"} }},
		{"alpn", "alpn=c[a,b]/s[b,c]", func(c, s *world.Cfg) { c.ALPN, s.ALPN = []string{"a", "b"}, []string{"b", "c"} }},
		{"alpn", "alpn=c[a]/s[b]", func(c, s *world.Cfg) { c.ALPN, s.ALPN = []string{"a"}, []string{"b"} }},
		{"alpn", "alpn=c[a,b]/s[c,d]", func(c, s *world.Cfg) { c.ALPN, s.ALPN = []string{"a", "b"}, []string{"c", "d"} }},
		{"alpn", "alpn=c-only[a]", func(c, s *world.Cfg) { c.ALPN = []string{"a"} }},
		{"alpn", "alpn=s-only[a]", func(c, s *world.Cfg) { s.ALPN = []string{"a"} }},
		// CID generators
		{"cid", "cid=both4", func(c, s *world.Cfg) { c.CIDLen, s.CIDLen = 4, 4 }},
		{"cid", "cid=c8/s1", func(c, s *world.Cfg) { c.CIDLen, s.CIDLen = 8, 1 }},
		{"cid", "cid=c4-only", func(c, s *world.Cfg) { c.CIDLen = 4 }},
		{"cid", "cid=s4-only", func(c, s *world.Cfg) { s.CIDLen = 4 }},
		{"cid", "cid=c-sendonly/s4", func(c, s *world.Cfg) { c.CIDLen, s.CIDLen = -1, 4 }},
		{"cid", "cid=c4/s-sendonly", func(c, s *world.Cfg) { c.CIDLen, s.CIDLen = 4, -1 }},
		// one-dimension empty intersections of the core dimensions (so they also combine with the above)
		{"ems", "ems=c-REQUIRE/s-dis", func(c, s *world.Cfg) { c.EMS, s.EMS = 1, 2 }},
		{"ems", "ems=c-dis/s-REQUIRE", func(c, s *world.Cfg) { c.EMS, s.EMS = 2, 1 }},
		{"ems", "ems=both-REQUIRE", func(c, s *world.Cfg) { c.EMS, s.EMS = 1, 1 }},
		{"curve", "curve=c[x]/s[p]", func(c, s *world.Cfg) {
			c.Curves, s.Curves = []elliptic.Curve{elliptic.X25519}, []elliptic.Curve{elliptic.P256, elliptic.P384}
		}},
		{"curve", "curve=c[p256,x]/s[x,p384]", func(c, s *world.Cfg) {
			c.Curves, s.Curves = []elliptic.Curve{elliptic.P256, elliptic.X25519}, []elliptic.Curve{elliptic.X25519, elliptic.P384}
		}},
		{"curve", "curve=c[p384]/s[x,p384]", func(c, s *world.Cfg) { // the server's first group is not the client's; a common one exists
			c.Curves, s.Curves = []elliptic.Curve{elliptic.P384}, []elliptic.Curve{elliptic.X25519, elliptic.P384}
		}},
		{"hv", "helloverify=off", func(c, s *world.Cfg) { s.SkipHelloVerify = true }},
		// a client whose second ClientHello (the one that carries the cookie) no longer offers an extension the
		// first one offered (ClientHello hook): the server answers the SECOND hello, so it may not echo it
		{"hook", "hook=ch2-drops-alpn", func(c, s *world.Cfg) {
			c.ALPN, s.ALPN = []string{"a"}, []string{"a"}
			c.Extra = append(c.Extra, dropOnRetry(extension.TypeALPN))
		}},
		// the wire offer is wider than the client's configured suite list (ClientHello hook): the configured list,
		// not the wire, is the client's policy
		{"hook", "hook=ch-offers-unconfigured-suites-first", func(c, s *world.Cfg) {
			if c.MaxV == 13 && c.MinV == 13 {
				c.Suites = []dtls.CipherSuiteID{dtls.TLS_AES_128_GCM_SHA256}
			} else if c.MaxV == 13 {
				c.Suites = []dtls.CipherSuiteID{dtls.TLS_AES_128_GCM_SHA256, dtls.TLS_ECDHE_ECDSA_WITH_AES_128_GCM_SHA256}
			} else if len(c.Suites) == 0 {
				c.Suites = []dtls.CipherSuiteID{dtls.TLS_ECDHE_ECDSA_WITH_AES_128_GCM_SHA256}
			}
			c.Extra = append(c.Extra, offerUnconfiguredSuites(uint16(dtls.TLS_AES_256_GCM_SHA384), uint16(dtls.TLS_CHACHA20_POLY1305_SHA256),
				uint16(dtls.TLS_ECDHE_ECDSA_WITH_AES_256_GCM_SHA384), uint16(dtls.TLS_ECDHE_RSA_WITH_AES_256_GCM_SHA384), uint16(dtls.TLS_PSK_WITH_AES_128_CCM_8)))
		}},
		{"hook", "hook=ch-offers-only-foreign-groups", func(c, s *world.Cfg) { c.Extra = append(c.Extra, offerOnlyForeignGroups()) }},
		{"hook", "hook=ch2-drops-ems", func(c, s *world.Cfg) { c.Extra = append(c.Extra, dropOnRetry(extension.TypeExtendedMasterSecret)) }},
		{"hook", "hook=ch2-drops-renegotiation-info", func(c, s *world.Cfg) { c.Extra = append(c.Extra, dropOnRetry(extension.TypeRenegotiationInfo)) }},
	}
}

func bases(thorough bool) []base {
	v13 := func(c world.Cfg) world.Cfg { c.MinV, c.MaxV = 13, 13; return c }
	dual := func(c world.Cfg) world.Cfg { c.MinV, c.MaxV = 12, 13; return c }
	pskC := world.Cfg{Cred: "psk", PSK: pskKey, Suites: []dtls.CipherSuiteID{sPSKGCM}}
	b := []base{
		{"12-ecdsa", world.Cfg{}, world.Cfg{Cred: "ecdsa"}},
		{"12-rsa", world.Cfg{}, world.Cfg{Cred: "rsa"}},
		{"12-ed25519", world.Cfg{}, world.Cfg{Cred: "ed25519"}},
		{"12-psk", pskC, pskC},
		// a suite list that needs a group for its first entry and none for its last
		{"12-ecdhepsk+pskccm8", world.Cfg{Cred: "psk", PSK: pskKey, Suites: []dtls.CipherSuiteID{sEPSKCBC, dtls.TLS_PSK_WITH_AES_128_CCM_8}},
			world.Cfg{Cred: "psk", PSK: pskKey, Suites: []dtls.CipherSuiteID{sEPSKCBC, dtls.TLS_PSK_WITH_AES_128_CCM_8}}},
		{"13-ecdsa", v13(world.Cfg{}), v13(world.Cfg{Cred: "ecdsa"})},
		{"13-rsa", v13(world.Cfg{}), v13(world.Cfg{Cred: "rsa"})},
		{"cdual-s12", dual(world.Cfg{}), world.Cfg{Cred: "ecdsa"}},
		{"c12-sdual", world.Cfg{}, dual(world.Cfg{Cred: "ecdsa"})},
		{"c13-sdual", v13(world.Cfg{}), dual(world.Cfg{Cred: "ecdsa"})},
		// empty intersections of the remaining core dimensions as bases
		{"c13-s12", v13(world.Cfg{}), world.Cfg{Cred: "ecdsa"}},
		{"12-suite-disjoint", world.Cfg{Suites: []dtls.CipherSuiteID{sECDSACBC}}, world.Cfg{Cred: "ecdsa", Suites: []dtls.CipherSuiteID{sECDSAGCM}}},
		{"12-clientauth", world.Cfg{Cred: "ecdsa"}, world.Cfg{Cred: "ecdsa", ClientAuth: dtls.RequireAndVerifyClientCert}},
		{"12-clientauth-rsa-server", world.Cfg{Cred: "ecdsa"}, world.Cfg{Cred: "rsa", ClientAuth: dtls.RequireAndVerifyClientCert}},
		{"12-keytype-misfit", world.Cfg{Suites: []dtls.CipherSuiteID{sECDSAGCM}}, world.Cfg{Cred: "rsa"}},
		// several certificates of different key kinds / a GetCertificate callback: the certificate presented
		// depends on the ClientHello's server name, the suite has to fit the key of that one
		{"12-multicert[ec,rsaalt]-sni=rsa", world.Cfg{ServerName: "rsa.server.test"}, world.Cfg{MultiCert: []string{"ecdsa", "rsaalt"}}},
		{"12-multicert[rsaalt,ec]-sni=default", world.Cfg{}, world.Cfg{MultiCert: []string{"rsaalt", "ecdsa"}}},
		{"12-multicert[ec,rsaalt]-sni=default", world.Cfg{}, world.Cfg{MultiCert: []string{"ecdsa", "rsaalt"}}},
		{"12-multicert[rsaalt,ecalt]-sni=ec", world.Cfg{ServerName: "ec.server.test"}, world.Cfg{MultiCert: []string{"rsaalt", "ecalt"}}},
		{"12-getcert-only[rsa]", world.Cfg{}, world.Cfg{Cred: "none", GetCertSNI: "rsa"}},
		{"12-static-ec+getcert[rsa]", world.Cfg{}, world.Cfg{Cred: "ecdsa", GetCertSNI: "rsa"}},
		{"12-static-rsa+getcert[ed25519]", world.Cfg{}, world.Cfg{Cred: "rsa", GetCertSNI: "ed25519"}},
		// a callback whose answer changes between the library's probe and the flight (rotated certificate store)
		{"12-getcert-switch[rsa,ed25519]", world.Cfg{}, world.Cfg{Cred: "none", GetCertSwitch: [2]string{"rsa", "ed25519"}}},
		{"12-getcert-switch[ed25519,rsa]", world.Cfg{}, world.Cfg{Cred: "none", GetCertSwitch: [2]string{"ed25519", "rsa"}}},
		{"12-getcert-switch[rsa,ecdsa]", world.Cfg{}, world.Cfg{Cred: "none", GetCertSwitch: [2]string{"rsa", "ecdsa"}}},
	}
	if thorough {
		epsk := world.Cfg{Cred: "psk", PSK: pskKey, Suites: []dtls.CipherSuiteID{sEPSKCBC}}
		b = append(b,
			base{"12-ecdhepsk", epsk, epsk},
			base{"13-ed25519", v13(world.Cfg{}), v13(world.Cfg{Cred: "ed25519"})},
			base{"cdual-s13", dual(world.Cfg{}), v13(world.Cfg{Cred: "ecdsa"})},
			base{"cdual-sdual", dual(world.Cfg{}), dual(world.Cfg{Cred: "ecdsa"})},
			base{"12-ecdsa384", world.Cfg{}, world.Cfg{Cred: "ecdsa384"}},
		)
	}
	return b
}

// devSets enumerates all sets of at most k deviations with pairwise distinct dimensions.
func devSets(devs []dev, k int) [][]dev {
	out := [][]dev{nil}
	byLen := map[int][][]dev{}
	var rec func(start int, cur []dev)
	rec = func(start int, cur []dev) {
		if len(cur) > 0 {
			byLen[len(cur)] = append(byLen[len(cur)], append([]dev(nil), cur...))
		}
		if len(cur) == k {
			return
		}
	next:
		for i := start; i < len(devs); i++ {
			for _, c := range cur {
				if c.Dim == devs[i].Dim {
					continue next
				}
			}
			rec(i+1, append(cur, devs[i]))
		}
	}
	rec(0, nil)
	for l := 1; l <= k; l++ {
		out = append(out, byLen[l]...)
	}
	return out
}

// ---- observation -------------------------------------------------------------------------------

// sideObs is what one endpoint reports after the handshake call returned nil.
type sideObs struct {
	OK        bool
	Done      bool
	Err       string
	Version   string
	Suite     uint16
	Group     uint16
	HasGroup  bool
	EMS       bool
	SRTP      uint16
	HasSRTP   bool
	ALPN      string
	LocalCID  []byte
	RemoteCID []byte
}

func observe(e *world.Endpoint) sideObs {
	var o sideObs
	done, err := e.HS.Result()
	o.Done, o.OK = done, done && err == nil
	if err != nil {
		o.Err = err.Error()
	}
	if !o.OK {
		return o
	}
	sn := e.Snapshot()
	o.Version, o.EMS, o.LocalCID, o.RemoteCID = sn.Version, sn.EMS, sn.LocalCID, sn.RemoteCID
	if st, ok := e.Conn.ConnectionState(); ok {
		o.Suite, o.ALPN = uint16(st.CipherSuiteID), st.NegotiatedProtocol
	} else {
		o.Suite, o.ALPN = sn.SuiteID, sn.ALPN
	}
	if p, ok := e.Conn.SelectedSRTPProtectionProfile(); ok {
		o.SRTP, o.HasSRTP = uint16(p), true
	}
	dtls.VerifPeek(e.Conn, func(in dtls.VerifInternals) {
		// The group of the key pair this endpoint actually used for the key exchange. (State12.NamedCurve
		// is not it: on a client it stays at the client's own first curve.)
		switch st := in.State.(type) {
		case *dtlsstate.State12:
			if st.LocalKeypair != nil {
				o.Group, o.HasGroup = uint16(st.LocalKeypair.Curve), true
			}
		case *dtlsstate.State13:
			o.Group, o.HasGroup = uint16(st.SelectedGroup), true
		}
	})
	return o
}

// verdict is the result of judging one execution.
type verdict struct {
	Violation string
	Key       string
	Class     string
	Counters  map[string]int
}

// slug renders an error text as a key fragment (keys are whitespace-free words).
func slug(s string) string {
	s = strings.TrimPrefix(s, "handshake failed: ")
	s = strings.TrimPrefix(s, "connection can not be created, ")
	var sb strings.Builder
	dash := false
	for _, r := range strings.ToLower(s) {
		if (r >= 'a' && r <= 'z') || (r >= '0' && r <= '9') {
			sb.WriteRune(r)
			dash = false
		} else if !dash && sb.Len() > 0 {
			sb.WriteByte('-')
			dash = true
		}
	}
	out := strings.TrimSuffix(sb.String(), "-")
	if len(out) > 48 {
		out = out[:48]
	}
	return out
}

func errClass(s string) string {
	if s == "" {
		return "ok"
	}
	// Keep the innermost, stable part of the error text.
	s = strings.TrimPrefix(s, "handshake error: ")
	if i := strings.Index(s, ": alert("); i >= 0 {
		s = s[:i]
	}
	if len(s) > 70 {
		s = s[:70]
	}
	return s
}

// judge applies the C11 oracle.
func judge(w *world.World, pr *world.Pair, cc, sc world.Cfg) verdict {
	v := verdict{Counters: map[string]int{}}
	m := Predict(cc, sc)
	co, so := observe(pr.C), observe(pr.S)
	// Records sent to an endpoint carry the CID that endpoint generated.
	wire := capture(w, pr.FirstID, max(cc.CIDLen, 0), max(sc.CIDLen, 0))

	viol := func(key, format string, a ...any) {
		if v.Violation == "" {
			v.Key, v.Violation = strings.ReplaceAll(key, " ", "-"), fmt.Sprintf(format, a...)
		}
	}
	vname := func(x int) string { return fmt.Sprintf("1.%d", x-10) }

	// (A) "a server never answers with an extension the client did not offer" — every ServerHello /
	// HelloRetryRequest on the wire against the latest ClientHello that preceded it. (DTLS 1.3
	// EncryptedExtensions are encrypted and therefore not covered.)
	var lastCH, finalSH *Hello
	var ske *SKE
	var cvScheme uint16
	hasCV := false
	for _, msg := range wire.Msgs {
		switch {
		case msg.FromCli && msg.Type == 1:
			h, err := parseClientHello(msg.Body)
			if err != nil {
				wire.ParseProblems = append(wire.ParseProblems, "ClientHello: "+err.Error())
				continue
			}
			h.Emission = msg.Emission
			lastCH = h
		case !msg.FromCli && msg.Type == 2:
			h, err := parseServerHello(msg.Body)
			if err != nil {
				wire.ParseProblems = append(wire.ParseProblems, "ServerHello: "+err.Error())
				continue
			}
			h.Emission = msg.Emission
			v.Counters["serverhello_checked"]++
			if lastCH == nil {
				viol("serverhello-without-clienthello", "ServerHello emitted (#%d) before any ClientHello", msg.Emission)
				continue
			}
			for _, e := range h.Exts {
				if _, ok := findExt(lastCH.Exts, e.Type); ok {
					continue
				}
				if h.IsHRR && e.Type == extCookie {
					continue // RFC 8446 4.2.2: the one extension a HelloRetryRequest may add
				}
				if e.Type == extRenegotiationInfo && hasU16(lastCH.Suites, 0x00ff) {
					continue // RFC 5746 3.6: answer to the SCSV
				}
				kind := "ServerHello"
				if h.IsHRR {
					kind = "HelloRetryRequest"
				}
				viol(fmt.Sprintf("unsolicited-extension-%d-in-%s", e.Type, kind),
					"%s (#%d) carries extension %d which the ClientHello (#%d, extensions %v) did not offer", kind, msg.Emission, e.Type, lastCH.Emission, extTypes(lastCH.Exts))
			}
			if !h.IsHRR {
				finalSH = h
			}
		case msg.FromCli && msg.Type == 15 && len(msg.Body) >= 2:
			// DTLS 1.2 client CertificateVerify (cleartext): the scheme the client signed with.
			cvScheme, hasCV = uint16(msg.Body[0])<<8|uint16(msg.Body[1]), true
		case !msg.FromCli && msg.Type == 12 && finalSH != nil:
			if si, ok := lookupSuite(finalSH.Suites[0]); ok {
				if k, err := parseSKE(msg.Body, si); err == nil {
					ske = k
				} else {
					wire.ParseProblems = append(wire.ParseProblems, "ServerKeyExchange: "+err.Error())
				}
			}
		}
	}
	if len(wire.ParseProblems) > 0 {
		v.Counters["wire_parse_problems"]++
	}

	alerts := wire.AlertsCli + wire.AlertsSrv
	outcome := func(o sideObs) string {
		switch {
		case o.OK:
			return "ok"
		case o.Done:
			return "err"
		}
		return "hang"
	}
	oc := outcome(co) + "/" + outcome(so)

	// (B) the model says no common value exists: nobody may complete.
	if m.Fail {
		dimkey := m.FailKey()
		if co.OK || so.OK {
			who := "client"
			o := co
			if !co.OK {
				who, o = "server", so
			}
			if co.OK && so.OK {
				who = "both sides"
			}
			viol(fmt.Sprintf("completed-despite-no-common-%s-dtls%s", dimkey, map[string]string{versionString(12): "1.2", versionString(13): "1.3"}[o.Version]),
				"no common value in dimension [%s] (model: %s) but %s completed the handshake (client %s, server %s; version %s suite %#04x alpn %q srtp %v)",
				dimkey, describe(m), who, outcome(co), outcome(so), o.Version, o.Suite, o.ALPN, o.HasSRTP)
			v.Class = "FAIL-expected:" + dimkey + " COMPLETED " + oc
			return v
		}
		v.Class = "fail-expected:" + dimkey + " " + oc
		if wire.AlertsCIDWrapped > 0 {
			v.Counters["alert_in_cid_envelope_at_epoch0"]++
		}
		// "...the handshake fails on both sides with an alert": both calls must return an error within
		// the horizon and an alert record must be on the wire (in DTLS 1.3 a protected record emitted
		// by a failing side is accepted as the alert: its content type is encrypted).
		side := func(o sideObs) string {
			if !o.Done {
				return "hang"
			}
			return "err(" + slug(o.Err) + ")"
		}
		switch {
		case !co.Done || !so.Done:
			v.Counters["failexpected_hang:"+dimkey+":"+oc]++
			viol(fmt.Sprintf("no-common-value-but-no-failure[%s]:client=%s,server=%s", verShape(cc, sc), side(co), side(so)),
				"no common value in dimension [%s] but the handshake does not fail on both sides within %v: client %s, server %s; alert records on the wire: %d (model: %s)",
				dimkey, horizon, side(co), side(so), alerts, describe(m))
			v.Class += " HANG"
		case alerts == 0 && wire.ProtectedCli+wire.ProtectedSrv == 0:
			v.Counters["failexpected_no_alert:"+dimkey]++
			viol(fmt.Sprintf("no-common-value-but-no-alert[%s]:client=%s,server=%s", verShape(cc, sc), side(co), side(so)),
				"no common value in dimension [%s]: both sides fail (client %s, server %s) but no alert record was emitted (model: %s)", dimkey, side(co), side(so), describe(m))
			v.Class += " NOALERT"
		default:
			v.Counters["failexpected_clean_failure"]++
			if alerts > 0 {
				v.Class += " alert"
			} else {
				v.Class += " protected-record"
			}
		}
		if v.Violation != "" {
			v.Class = "VIOLATION " + v.Class
		}
		return v
	}

	// (C) the model says compatible.
	if !co.OK || !so.OK {
		v.Counters["unexpected_failures"]++
		why := "c=" + errClass(co.Err) + " s=" + errClass(so.Err)
		if !co.Done {
			why = "c=HANG s=" + errClass(so.Err)
			if !so.Done {
				why = "c=HANG s=HANG"
			}
		} else if !so.Done {
			why = "c=" + errClass(co.Err) + " s=HANG"
		}
		v.Counters[fmt.Sprintf("unexpected_failure[v%s %s]: %s", vname(m.Version), verShape(cc, sc), why)]++
		v.Class = "compatible-but-failed " + oc
	}
	for _, side := range []struct {
		name string
		o    sideObs
		own  Policy
	}{{"client", co, m.C}, {"server", so, m.S}} {
		o := side.o
		if !o.OK {
			continue
		}
		// version
		if o.Version != versionString(m.Version) {
			got := 12
			if o.Version == versionString(13) {
				got = 13
			}
			inRange := hasInt(m.C.Range, got) && hasInt(m.S.Range, got)
			viol(fmt.Sprintf("version-%s-not-highest-common-%s[%s]", vname(got), vname(m.Version), verShape(cc, sc)),
				"%s completed with version %s (inside both ranges: %v) but the highest version both policies allow is %s (client allows %v, server allows %v)",
				side.name, o.Version, inRange, vname(m.Version), m.C.Versions, m.S.Versions)
			continue
		}
		// cipher suite
		if !hasU16(m.Suites, o.Suite) {
			si, _ := lookupSuite(o.Suite)
			reason := "outside-policy"
			switch {
			case !hasU16(m.C.Suites, o.Suite):
				reason = "not-offered-by-client"
			case !hasU16(m.S.Suites, o.Suite):
				reason = "not-enabled-on-server"
			case si.V13 != (m.Version == 13):
				reason = "wrong-version"
			case !m.S.KeyAuth[si.Auth]:
				reason = "misfits-server-key"
			}
			viol("suite-"+reason, "%s completed with cipher suite %#04x %s: %s (client list %#04x, server list %#04x, server key %q, admissible %#04x)",
				side.name, o.Suite, si.Name, reason, m.C.Suites, m.S.Suites, m.S.KeyFamily, m.Suites)
			continue
		}
		si, _ := lookupSuite(o.Suite)
		// key-exchange group
		if si.ECDHE && o.HasGroup && !hasU16(m.Groups, o.Group) {
			viol(fmt.Sprintf("group-%#04x-outside-policy", o.Group), "%s completed with key-exchange group %#04x; client allows %#04x, server allows %#04x",
				side.name, o.Group, m.C.groupsFor(m.Version), m.S.groupsFor(m.Version))
		}
		// EMS (DTLS 1.2 only)
		if m.Version == 12 {
			if side.own.EMS == 1 && !o.EMS {
				viol("ems-required-but-absent-"+side.name, "%s requires extended master secret but completed without it (peer policy %s)", side.name, emsNames[peerEMS(side.name, cc, sc)])
			}
			if side.own.EMS == 2 && o.EMS {
				viol("ems-disabled-but-used-"+side.name, "%s disables extended master secret but completed with it", side.name)
			}
		}
		// SRTP
		if o.HasSRTP && (!hasU16(m.C.SRTP, o.SRTP) || !hasU16(m.S.SRTP, o.SRTP)) {
			viol("srtp-profile-outside-policy", "%s completed with SRTP profile %#04x; client list %#04x, server list %#04x", side.name, o.SRTP, m.C.SRTP, m.S.SRTP)
		}
		// ALPN
		if o.ALPN != "" && (!hasStr(m.C.ALPN, o.ALPN) || !hasStr(m.S.ALPN, o.ALPN)) {
			viol("alpn-protocol-outside-policy", "%s completed with ALPN protocol %q; client list %q, server list %q", side.name, o.ALPN, m.C.ALPN, m.S.ALPN)
		}
		// connection IDs
		peer := m.S
		if side.name == "server" {
			peer = m.C
		}
		if side.own.CIDLen == 0 || peer.CIDLen == 0 {
			if len(o.LocalCID) > 0 || len(o.RemoteCID) > 0 {
				viol("cid-without-generator", "%s uses connection IDs (local %x remote %x) although a side has no generator (client %d, server %d)", side.name, o.LocalCID, o.RemoteCID, cc.CIDLen, sc.CIDLen)
			}
		} else {
			wantL, wantR := side.own.CIDLen, peer.CIDLen
			if wantL < 0 {
				wantL = 0
			}
			if wantR < 0 {
				wantR = 0
			}
			if len(o.LocalCID) != wantL || len(o.RemoteCID) != wantR {
				viol("cid-not-from-generators", "%s uses connection IDs local %x remote %x; generators produce %d / %d bytes", side.name, o.LocalCID, o.RemoteCID, wantL, wantR)
			}
		}
	}
	// wire-level values of a handshake at least one side completed
	if (co.OK || so.OK) && finalSH != nil {
		suite := finalSH.Suites[0]
		if lastCH != nil && !hasU16(lastCH.Suites, suite) {
			viol("serverhello-suite-not-in-clienthello", "ServerHello selects %#04x which the ClientHello did not list (%#04x)", suite, lastCH.Suites)
		}
		if !hasU16(m.Suites, suite) {
			viol("serverhello-suite-outside-policy", "ServerHello selects %#04x; admissible %#04x", suite, m.Suites)
		}
		if ks, ok := findExt(finalSH.Exts, extKeyShare); ok && len(ks.Data) >= 2 {
			g := uint16(ks.Data[0])<<8 | uint16(ks.Data[1])
			v.Counters["wire_group_checked"]++
			if !hasU16(m.Groups, g) {
				viol(fmt.Sprintf("group-%#04x-outside-policy", g), "ServerHello key_share uses group %#04x; admissible %#04x", g, m.Groups)
			}
		}
		if ske != nil && ske.HasCurve && lastCH != nil {
			if sg, ok := findExt(lastCH.Exts, extSupportedGroups); ok && len(sg.Data) >= 2 {
				listed := false
				for i := 2; i+1 < len(sg.Data); i += 2 {
					if uint16(sg.Data[i])<<8|uint16(sg.Data[i+1]) == ske.Curve {
						listed = true
					}
				}
				if !listed {
					viol("serverkeyexchange-curve-not-in-clienthello", "ServerKeyExchange uses curve %#04x which the ClientHello did not list (supported_groups %x)", ske.Curve, sg.Data[2:])
				}
			}
		}
		if ske != nil && ske.HasCurve {
			v.Counters["wire_group_checked"]++
			if !hasU16(m.Groups, ske.Curve) {
				viol(fmt.Sprintf("group-%#04x-outside-policy", ske.Curve), "ServerKeyExchange uses curve %#04x; admissible %#04x", ske.Curve, m.Groups)
			}
		}
		if ske != nil && ske.HasSig {
			v.Counters["wire_sigscheme_checked"]++
			sch := uint16(ske.Hash)<<8 | uint16(ske.Sig)
			if !m.Sigs(sch) {
				viol(fmt.Sprintf("sigscheme-%#04x-outside-policy", sch), "ServerKeyExchange is signed with scheme %#04x; client allows %#04x, server allows %#04x", sch, m.C.Sigs, m.S.Sigs)
			}
		}
		if hasCV {
			v.Counters["wire_client_sigscheme_checked"]++
			if !m.Sigs(cvScheme) {
				whose := "server"
				if m.C.Sigs != nil && !hasU16(m.C.Sigs, cvScheme) {
					whose = "client"
				}
				viol(fmt.Sprintf("client-certificateverify-sigscheme-%#04x-outside-%s-policy", cvScheme, whose),
					"the client's CertificateVerify is signed with scheme %#04x which the %s does not allow; client allows %#04x, server allows %#04x", cvScheme, whose, m.C.Sigs, m.S.Sigs)
			}
		}
		if e, ok := findExt(finalSH.Exts, extALPN); ok && len(e.Data) > 3 {
			p := string(e.Data[3:])
			if !hasStr(m.C.ALPN, p) || !hasStr(m.S.ALPN, p) {
				viol("alpn-protocol-outside-policy", "ServerHello selects ALPN %q; client list %q, server list %q", p, m.C.ALPN, m.S.ALPN)
			}
		}
		if e, ok := findExt(finalSH.Exts, extUseSRTP); ok && len(e.Data) >= 4 {
			p := uint16(e.Data[2])<<8 | uint16(e.Data[3])
			if !hasU16(m.C.SRTP, p) || !hasU16(m.S.SRTP, p) {
				viol("srtp-profile-outside-policy", "ServerHello selects SRTP profile %#04x; client list %#04x, server list %#04x", p, m.C.SRTP, m.S.SRTP)
			}
		}
	}
	if co.OK && so.OK {
		v.Counters["both_completed_in_policy_checked"]++
		v.Class = fmt.Sprintf("ok v%s suite%#04x grp%#04x ems%v srtp%v alpn%q cid%d/%d", vname(m.Version), co.Suite, co.Group, co.EMS, co.HasSRTP, co.ALPN, len(co.LocalCID), len(so.LocalCID))
	}
	if v.Violation != "" {
		v.Class = "VIOLATION " + v.Key
	}
	return v
}

func peerEMS(side string, cc, sc world.Cfg) int {
	if side == "client" {
		return sc.EMS
	}
	return cc.EMS
}

func verShape(cc, sc world.Cfg) string {
	n := func(c world.Cfg) string {
		switch {
		case c.MinV == 13:
			return "13"
		case c.MaxV == 13:
			return "dual"
		}
		return "12"
	}
	return "c" + n(cc) + "-s" + n(sc)
}

func describe(m Prediction) string {
	return fmt.Sprintf("client{v%v suites%#04x groups%#04x sigs%#04x srtp%#04x alpn%q ems%d} server{v%v suites%#04x key%q groups%#04x sigs%#04x srtp%#04x alpn%q ems%d}",
		m.C.Versions, m.C.Suites, m.C.Groups, m.C.Sigs, m.C.SRTP, m.C.ALPN, m.C.EMS, m.S.Versions, m.S.Suites, m.S.KeyFamily, m.S.Groups, m.S.Sigs, m.S.SRTP, m.S.ALPN, m.S.EMS)
}

// ---- one execution -----------------------------------------------------------------------------

func runPair(t *testing.T, p *world.PKI, seed uint64, name string, cc, sc world.Cfg) run.Outcome {
	var o run.Outcome
	world.Run(t, seed, func(w *world.World) {
		pr, err := w.NewPair(p, cc, sc)
		if err != nil {
			if !errors.Is(err, world.ErrConfig) {
				panic(err)
			}
			o.Skip, o.Class = true, "config-rejected"
			return
		}
		// An endpoint whose Handshake call returns before a single datagram has been delivered to it
		// refused its own option set (e.g. "no CipherSuites satisfy this Config" for a certificate that
		// fits none of the endpoint's own suites): the library's configuration check, raised late.
		// Nothing is negotiated; the peer can only wait. Counted apart, the oracle only demands that
		// nobody completes.
		earlyC, earlyS := pr.C.HS.Done() && !pr.C.HS.OK(), pr.S.HS.Done() && !pr.S.HS.OK()
		n := world.NewNet(w, world.ClientAddr, nil)
		tr := pr.Trace(n)
		_ = n.Pump(horizon, pr.BothDone)
		o.States, o.Transitions = tr.States, tr.Trans
		if earlyC || earlyS {
			who, e := "server", pr.S
			if earlyC {
				who, e = "client", pr.C
			}
			_, err := e.HS.Result()
			o.Class = "own-config-refused-at-handshake-start:" + who
			o.Counters = map[string]int{"own_config_refused_at_handshake_start[" + who + "]: " + errClass(err.Error()): 1}
			if pr.C.HS.OK() || pr.S.HS.OK() {
				o.Violation = name + ": an endpoint completed although its peer refused to start"
				o.Key = "completed-against-refusing-peer"
			}
			pr.CloseAll()
			return
		}
		v := judge(w, pr, cc, sc)
		o.Violation, o.Key, o.Class, o.Counters = v.Violation, v.Key, v.Class, v.Counters
		if o.Violation != "" {
			o.Violation = name + ": " + o.Violation
			// The worker keeps only the first 200 violation texts per shard: the per-key totals go
			// into the counters so that no cause is crowded out of the evidence.
			o.Counters["violation_key:"+o.Key]++
		}
		// Non-trivial: datagrams were exchanged in both directions, i.e. a negotiation took place.
		o.NonTrivial = w.Delivered[world.ClientAddr] > 0 && w.Delivered[world.ServerAddr] > 0
		o.Sample = map[string]any{"case": name, "outcome": o.Class}
		if f := os.Getenv("C11_DUMP"); f != "" { // debugging aid: one "class<TAB>case<TAB>errors" line per execution
			if fh, err := os.OpenFile(f, os.O_APPEND|os.O_CREATE|os.O_WRONLY, 0o644); err == nil {
				fmt.Fprintf(fh, "%s\t%s\tc=%v s=%v\n", o.Class, name, pr.C.HS, pr.S.HS)
				fh.Close()
			}
		}
		pr.CloseAll()
	})
	return o
}

// ---- enumeration -------------------------------------------------------------------------------

func TestC11(t *testing.T) {
	if err := registrySanity(); err != nil {
		t.Fatal(err)
	}
	env := run.GetEnv()
	p := world.GetPKI(t)
	suiteShapes, creds := suiteShapesQuick, credsQuick
	curveShapes := curveShapes
	if env.Thorough() {
		suiteShapes = append(append([]namedSuites{}, suiteShapesQuick...), suiteShapesExtra...)
		creds = append(append([]string{}, credsQuick...), credsExtra...)
		curveShapes = append(append([]namedCurves{}, curveShapes...), curveShapesExtra...)
	}
	var cases []run.Case
	// Configurations are built lazily (a world.Cfg pair per case would cost ~1 KB x 10^5..10^6 cases).
	add := func(name string, mk func() (world.Cfg, world.Cfg)) {
		cases = append(cases, run.Case{ID: name, Run: func(t *testing.T) run.Outcome {
			cc, sc := mk()
			return runPair(t, p, env.Seed+1, name, cc, sc)
		}})
	}
	devs := devCatalogue()
	kDev := 2
	if env.Thorough() {
		kDev = 3
	}
	sets := devSets(devs, kDev)
	bs := bases(env.Thorough())
	nDev := 0
	for _, b := range bs {
		for _, ds := range sets {
			names := make([]string, len(ds))
			for i, d := range ds {
				names[i] = d.Name
			}
			nm := "none"
			if len(ds) > 0 {
				nm = strings.Join(names, "&")
			}
			add("dev/"+b.Name+"/"+nm, func() (world.Cfg, world.Cfg) {
				cc, sc := b.C, b.S
				for _, d := range ds {
					d.Apply(&cc, &sc)
				}
				return cc, sc
			})
			nDev++
		}
	}
	nCore := 0
	for _, cv := range ranges {
		for _, sv := range ranges {
			for _, cs := range suiteShapes {
				for _, ss := range suiteShapes {
					for _, cred := range creds {
						for _, ccv := range curveShapes {
							for _, scv := range curveShapes {
								for cems := 0; cems < 3; cems++ {
									for sems := 0; sems < 3; sems++ {
										add(fmt.Sprintf("core/v=%s-%s/suites=%s-%s/cred=%s/curves=%s-%s/ems=%s-%s", cv.Name, sv.Name, cs.Name, ss.Name, cred, ccv.Name, scv.Name, emsNames[cems], emsNames[sems]),
											func() (world.Cfg, world.Cfg) { return coreCfg(cv, sv, cs, ss, cred, ccv, scv, cems, sems) })
										nCore++
									}
								}
							}
						}
					}
				}
			}
		}
	}
	dims := map[string]bool{}
	for _, d := range devs {
		dims[d.Dim] = true
	}
	dl := make([]string, 0, len(dims))
	for d := range dims {
		dl = append(dl, d)
	}
	sort.Strings(dl)
	resumed := resumedCases(p, env.Seed+1, env.Thorough())
	cases = append(cases, resumed...)
	run.Main(t, "C11", cases, map[string]any{
		"resumed_policy_change_cases": len(resumed),
		"core_product":                nCore, "version_ranges": len(ranges), "suite_shapes": len(suiteShapes), "server_credentials": creds,
		"curve_shapes": len(curveShapes), "ems_policies": 3,
		"deviation_values": len(devs), "deviation_dimensions": dl, "deviations_max": kDev, "deviation_sets": len(sets), "bases": len(bs), "deviation_cases": nDev,
		"horizon_s": int(horizon.Seconds()),
	})
}
