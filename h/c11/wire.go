//go:build verif

package c11

import (
	"bytes"
	"encoding/binary"
	"fmt"
	"sort"

	"github.com/pion/dtls/v3/zzverif/world"
)

// Independent, minimal decoders for the cleartext part of a handshake: ClientHello, ServerHello /
// HelloRetryRequest, ServerKeyExchange. They work on the datagrams captured by the world (never on
// pion's decoders) and reassemble fragmented messages (a DTLS 1.3 ClientHello carrying an
// X25519MLKEM768 key share does not fit one datagram).

// Extension numbers used by the oracle.
const (
	extServerName        = 0
	extSupportedGroups   = 10
	extPointFormats      = 11
	extSigAlgs           = 13
	extUseSRTP           = 14
	extALPN              = 16
	extEMS               = 23
	extSupportedVersions = 43
	extCookie            = 44
	extKeyShare          = 51
	extConnectionID      = 54
	extRenegotiationInfo = 0xff01
)

// Ext is one entry of an extension list.
type Ext struct {
	Type uint16
	Data []byte
}

// walkExtensions decodes "uint16 total; { uint16 type; uint16 len; data }*". An absent block (no
// bytes left) is an empty list.
func walkExtensions(b []byte) ([]Ext, error) {
	if len(b) == 0 {
		return nil, nil
	}
	if len(b) < 2 {
		return nil, fmt.Errorf("extension block: short length")
	}
	n := int(binary.BigEndian.Uint16(b))
	b = b[2:]
	if n != len(b) {
		return nil, fmt.Errorf("extension block: length %d but %d bytes follow", n, len(b))
	}
	var out []Ext
	for len(b) > 0 {
		if len(b) < 4 {
			return nil, fmt.Errorf("extension header truncated")
		}
		t := binary.BigEndian.Uint16(b)
		l := int(binary.BigEndian.Uint16(b[2:]))
		if len(b) < 4+l {
			return nil, fmt.Errorf("extension %d truncated", t)
		}
		out = append(out, Ext{Type: t, Data: b[4 : 4+l]})
		b = b[4+l:]
	}
	return out, nil
}

func findExt(l []Ext, t uint16) (Ext, bool) {
	for _, e := range l {
		if e.Type == t {
			return e, true
		}
	}
	return Ext{}, false
}

func extTypes(l []Ext) []int {
	out := make([]int, len(l))
	for i, e := range l {
		out[i] = int(e.Type)
	}
	return out
}

// Hello is a decoded ClientHello or ServerHello.
type Hello struct {
	Emission  int // id of the datagram that completed the message
	FromCli   bool
	MsgSeq    uint16
	LegacyVer [2]byte
	Random    []byte
	Cookie    []byte
	Suites    []uint16 // ClientHello: offered; ServerHello: the selected one
	Exts      []Ext
	IsHRR     bool
}

var hrrRandom = []byte{0xCF, 0x21, 0xAD, 0x74, 0xE5, 0x9A, 0x61, 0x11, 0xBE, 0x1D, 0x8C, 0x02, 0x1E, 0x65, 0xB8, 0x91,
	0xC2, 0xA2, 0x11, 0x16, 0x7A, 0xBB, 0x8C, 0x5E, 0x07, 0x9E, 0x09, 0xE2, 0xC8, 0xA8, 0x33, 0x9C}

type rdr struct {
	b   []byte
	err error
}

func (r *rdr) take(n int) []byte {
	if r.err != nil {
		return nil
	}
	if n < 0 || len(r.b) < n {
		r.err = fmt.Errorf("truncated (want %d, have %d)", n, len(r.b))
		return nil
	}
	x := r.b[:n]
	r.b = r.b[n:]
	return x
}

func (r *rdr) u8() int {
	x := r.take(1)
	if x == nil {
		return 0
	}
	return int(x[0])
}

func (r *rdr) u16() int {
	x := r.take(2)
	if x == nil {
		return 0
	}
	return int(binary.BigEndian.Uint16(x))
}

func parseClientHello(body []byte) (*Hello, error) {
	r := &rdr{b: body}
	h := &Hello{FromCli: true}
	copy(h.LegacyVer[:], r.take(2))
	h.Random = r.take(32)
	r.take(r.u8()) // session id
	h.Cookie = r.take(r.u8())
	cs := r.take(r.u16())
	for i := 0; i+1 < len(cs); i += 2 {
		h.Suites = append(h.Suites, binary.BigEndian.Uint16(cs[i:]))
	}
	r.take(r.u8()) // compression methods
	if r.err != nil {
		return nil, r.err
	}
	var err error
	h.Exts, err = walkExtensions(r.b)
	return h, err
}

func parseServerHello(body []byte) (*Hello, error) {
	r := &rdr{b: body}
	h := &Hello{}
	copy(h.LegacyVer[:], r.take(2))
	h.Random = r.take(32)
	r.take(r.u8()) // session id
	h.Suites = []uint16{uint16(r.u16())}
	r.u8() // compression method
	if r.err != nil {
		return nil, r.err
	}
	h.IsHRR = bytes.Equal(h.Random, hrrRandom)
	var err error
	h.Exts, err = walkExtensions(r.b)
	return h, err
}

// SKE is a decoded DTLS 1.2 ServerKeyExchange.
type SKE struct {
	HasCurve bool
	Curve    uint16
	HasSig   bool
	Hash     byte
	Sig      byte
}

// parseSKE decodes a ServerKeyExchange for the given suite family.
func parseSKE(body []byte, si suiteInfo) (*SKE, error) {
	r := &rdr{b: body}
	out := &SKE{}
	if si.Auth == authPSK {
		r.take(r.u16()) // identity hint
	}
	if si.ECDHE {
		if ct := r.u8(); ct != 3 && r.err == nil {
			return nil, fmt.Errorf("curve type %d", ct)
		}
		out.Curve = uint16(r.u16())
		out.HasCurve = true
		r.take(r.u8()) // public key
	}
	if si.Auth == authECDSA || si.Auth == authRSA {
		out.Hash = byte(r.u8())
		out.Sig = byte(r.u8())
		out.HasSig = true
		r.take(r.u16())
	}
	if r.err != nil {
		return nil, r.err
	}
	return out, nil
}

// hsMsg is a reassembled cleartext (epoch 0) handshake message.
type hsMsg struct {
	Emission int
	FromCli  bool
	Type     byte
	MsgSeq   uint16
	Body     []byte
}

type asmKey struct {
	cli bool
	seq uint16
	typ byte
	ln  uint32
}

type asm struct {
	buf   []byte
	have  []bool
	count int
	done  bool
}

// Wire is everything the oracle reads from the capture.
type Wire struct {
	Msgs             []hsMsg
	AlertsCli        int // cleartext alert records (content type 21, epoch 0) emitted by the client
	AlertsSrv        int
	AlertsCIDWrapped int
	ProtectedCli     int // protected records (epoch > 0 or unified header) emitted by the client
	ProtectedSrv     int
	ParseProblems    []string
}

// capture reassembles every epoch-0 handshake message and counts alert records, per sender, for the
// datagrams emitted from emission id `first` on.
func capture(w *world.World, first int, cliCID, srvCID int) *Wire {
	out := &Wire{}
	parts := map[asmKey]*asm{}
	for _, d := range w.Emitted() {
		if d.ID < first {
			continue
		}
		cli := d.Src == world.ClientAddr
		cidLen := cliCID // sent by the server, addressed to the client
		if cli {
			cidLen = srvCID
		}
		recs, err := world.ParseDatagram(d.Data, cidLen)
		if err != nil {
			out.ParseProblems = append(out.ParseProblems, fmt.Sprintf("#%d: %v", d.ID, err))
		}
		for _, r := range recs {
			switch {
			case !r.Unified && r.Type == world.CTCID && r.Epoch == 0 && len(r.Body) == 3 && r.Body[2] == world.CTAlert:
				// An unencrypted alert in a tls12_cid envelope (the library wraps epoch-0 alerts once a
				// peer CID is known). Not well-formed, but it is an alert on the wire.
				out.AlertsCIDWrapped++
				if cli {
					out.AlertsCli++
				} else {
					out.AlertsSrv++
				}
			case r.Unified || r.Epoch > 0:
				if cli {
					out.ProtectedCli++
				} else {
					out.ProtectedSrv++
				}
			case r.Type == world.CTAlert:
				if cli {
					out.AlertsCli++
				} else {
					out.AlertsSrv++
				}
			}
			for _, f := range r.HS {
				k := asmKey{cli, f.MsgSeq, f.Type, f.Len}
				a := parts[k]
				if a == nil {
					a = &asm{buf: make([]byte, f.Len), have: make([]bool, f.Len)}
					parts[k] = a
				}
				if uint64(f.FragOff)+uint64(f.FragLen) > uint64(f.Len) {
					out.ParseProblems = append(out.ParseProblems, fmt.Sprintf("#%d: fragment beyond message", d.ID))
					continue
				}
				for i := uint32(0); i < f.FragLen; i++ {
					if !a.have[f.FragOff+i] {
						a.have[f.FragOff+i] = true
						a.count++
					}
					a.buf[f.FragOff+i] = f.Body[i]
				}
				if a.count == int(f.Len) {
					// A retransmitted message (same seq, type, length) is reported again: every
					// ServerHello on the wire is checked, not just the first.
					whole := f.FragOff == 0 && f.FragLen == f.Len
					if !a.done || whole {
						a.done = true
						out.Msgs = append(out.Msgs, hsMsg{Emission: d.ID, FromCli: cli, Type: f.Type, MsgSeq: f.MsgSeq, Body: append([]byte(nil), a.buf...)})
					}
				}
			}
		}
	}
	sort.SliceStable(out.Msgs, func(i, j int) bool { return out.Msgs[i].Emission < out.Msgs[j].Emission })
	return out
}
