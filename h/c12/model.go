// Package c12 is the pure-component (E3, bounded-exhaustive) part of the check for property C12:
// "Fragmentation and reassembly reproduce every handshake message exactly once".
//
// This file holds everything that is independent of pion/dtls: the wire encoder used to build the
// inputs, the byte-coverage reference model (the oracle), and the enumerators (compositions,
// multiset permutations). Nothing here imports pion code, so the oracle cannot inherit its defects.
package c12

import (
	"fmt"
	"strings"
)

// ---------------------------------------------------------------------------------------------
// Inputs

// Frag identifies one handshake fragment: message index (0 = message_seq base, 1 = base+1, ...),
// fragment_offset and fragment_length.
type Frag struct {
	Msg, Off, Len int
}

func (f Frag) String() string { return fmt.Sprintf("m%d[%d,%d)", f.Msg, f.Off, f.Off+f.Len) }

// Msg is one original handshake message.
type Msg struct {
	Seq   uint16
	Typ   byte
	Epoch uint16
	Body  []byte
}

// NewMsg builds message number idx (message_seq base+idx) of the given length. Every body byte is
// distinct per position and per message so any mis-assembly changes the popped bytes.
func NewMsg(base uint16, idx, length int) Msg {
	m := Msg{Seq: base + uint16(idx), Typ: byte(11 + idx), Epoch: uint16(idx + 1), Body: make([]byte, length)}
	for i := range m.Body {
		m.Body[i] = byte(0x40*(idx+1) + i + 1)
	}
	return m
}

func put24(b []byte, v int) { b[0], b[1], b[2] = byte(v>>16), byte(v>>8), byte(v) }

// EncodeFragment renders one handshake fragment (12-byte header + the body slice) with the harness's
// own encoder (RFC 6347 §4.2.2).
func EncodeFragment(m Msg, off, flen int) []byte {
	out := make([]byte, 12, 12+flen)
	out[0] = m.Typ
	put24(out[1:], len(m.Body))
	out[4], out[5] = byte(m.Seq>>8), byte(m.Seq)
	put24(out[6:], off)
	put24(out[9:], flen)
	if off <= len(m.Body) {
		end := off + flen
		if end > len(m.Body) {
			end = len(m.Body)
		}
		out = append(out, m.Body[off:end]...)
	}
	return out
}

// EncodeWhole is the unfragmented message: what Pop must return.
func EncodeWhole(m Msg) []byte { return EncodeFragment(m, 0, len(m.Body)) }

// EncodeRecord wraps handshake fragments in one DTLS 1.2 plaintext record (13-byte header).
func EncodeRecord(epoch uint16, recSeq uint64, payload []byte) []byte {
	out := make([]byte, 13, 13+len(payload))
	out[0] = 22 // handshake
	out[1], out[2] = 0xfe, 0xfd
	out[3], out[4] = byte(epoch>>8), byte(epoch)
	for i := 0; i < 6; i++ {
		out[5+i] = byte(recSeq >> (8 * (5 - i)))
	}
	out[11], out[12] = byte(len(payload)>>8), byte(len(payload))
	return append(out, payload...)
}

// ParsedFragment is the harness's own parse of one handshake fragment.
type ParsedFragment struct {
	Typ          byte
	Length       int
	Seq          uint16
	Off, FragLen int
	Body         []byte
}

func get24(b []byte) int { return int(b[0])<<16 | int(b[1])<<8 | int(b[2]) }

// ParseFragment parses one handshake fragment that must fill raw exactly.
func ParseFragment(raw []byte) (ParsedFragment, bool) {
	if len(raw) < 12 {
		return ParsedFragment{}, false
	}
	p := ParsedFragment{Typ: raw[0], Length: get24(raw[1:]), Seq: uint16(raw[4])<<8 | uint16(raw[5]),
		Off: get24(raw[6:]), FragLen: get24(raw[9:]), Body: raw[12:]}
	return p, true
}

// ---------------------------------------------------------------------------------------------
// Reference model: byte coverage per message + in-order delivery cursor.

// Model is the independent reassembly reference.
type Model struct {
	lens    []int
	covered [][]bool
	seen    []bool // at least one fragment of the message arrived
	Next    int    // index of the next message to deliver (delivery cursor - base)
}

// NewModel creates a model for messages with the given lengths.
func NewModel(lens []int) *Model {
	m := &Model{lens: lens, covered: make([][]bool, len(lens)), seen: make([]bool, len(lens))}
	for i, l := range lens {
		m.covered[i] = make([]bool, l)
	}
	return m
}

// Reset clears the model.
func (m *Model) Reset() {
	for i := range m.covered {
		for j := range m.covered[i] {
			m.covered[i][j] = false
		}
		m.seen[i] = false
	}
	m.Next = 0
}

// Arrive records one fragment. It returns true iff the fragment belongs to an already delivered
// message (a retransmission); such fragments change nothing.
func (m *Model) Arrive(f Frag) (retransmit bool) {
	if f.Msg < m.Next {
		return true
	}
	m.seen[f.Msg] = true
	for i := f.Off; i < f.Off+f.Len && i < m.lens[f.Msg]; i++ {
		m.covered[f.Msg][i] = true
	}
	return false
}

// Complete reports full byte coverage of message i (and at least one fragment received: an empty
// message exists on the wire as one empty fragment).
func (m *Model) Complete(i int) bool {
	if i >= len(m.lens) || !m.seen[i] {
		return false
	}
	for _, c := range m.covered[i] {
		if !c {
			return false
		}
	}
	return true
}

// Deliverable reports whether the message at the cursor must surface now.
func (m *Model) Deliverable() bool { return m.Next < len(m.lens) && m.Complete(m.Next) }

// ---------------------------------------------------------------------------------------------
// Enumerators

// Compositions returns every ordered composition of n into positive parts (2^(n-1) of them, in a
// fixed order); n = 0 yields the single empty composition.
func Compositions(n int) [][]int {
	if n == 0 {
		return [][]int{{}}
	}
	var out [][]int
	for bits := 0; bits < 1<<(n-1); bits++ {
		var parts []int
		cur := 1
		for i := 0; i < n-1; i++ {
			if bits&(1<<i) != 0 {
				parts = append(parts, cur)
				cur = 1
			} else {
				cur++
			}
		}
		out = append(out, append(parts, cur))
	}
	return out
}

// CompString renders a composition as "1+2+1" ("0" for the empty message).
func CompString(c []int) string {
	if len(c) == 0 {
		return "0"
	}
	s := make([]string, len(c))
	for i, p := range c {
		s[i] = fmt.Sprint(p)
	}
	return strings.Join(s, "+")
}

// RealFrags returns the fragments of message msg for composition c (an empty message is one empty
// fragment at offset 0) and the boundary offsets 0 = b0 < b1 < ... < bk = n.
func RealFrags(msg int, c []int) (frs []Frag, bounds []int) {
	if len(c) == 0 {
		return []Frag{{msg, 0, 0}}, nil
	}
	off := 0
	bounds = append(bounds, 0)
	for _, p := range c {
		frs = append(frs, Frag{msg, off, p})
		off += p
		bounds = append(bounds, off)
	}
	return frs, bounds
}

// NextPermutation advances a to the next distinct arrangement in lexicographic order (multiset
// aware: equal elements are not distinguished). It returns false after the last one.
func NextPermutation(a []int) bool {
	i := len(a) - 2
	for i >= 0 && a[i] >= a[i+1] {
		i--
	}
	if i < 0 {
		return false
	}
	j := len(a) - 1
	for a[j] <= a[i] {
		j--
	}
	a[i], a[j] = a[j], a[i]
	for l, r := i+1, len(a)-1; l < r; l, r = l+1, r-1 {
		a[l], a[r] = a[r], a[l]
	}
	return true
}

// Subsets of size s of {0..n-1} as bitmasks, ascending.
func Subsets(n, s int) []int {
	var out []int
	for b := 0; b < 1<<n; b++ {
		c := 0
		for x := b; x != 0; x &= x - 1 {
			c++
		}
		if c == s {
			out = append(out, b)
		}
	}
	return out
}
