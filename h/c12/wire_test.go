package c12

import (
	"fmt"
	"sort"
	"strings"
	"testing"
	"time"

	"github.com/pion/dtls/v3/zzverif/checks"
	"github.com/pion/dtls/v3/zzverif/run"
	"github.com/pion/dtls/v3/zzverif/world"
)

// Wire-level sender part of C12. The fragmenter is also enumerated in isolation (txCases: every length x
// MTU through the connection's fragmentHandshake on a bare Conn); here the SAME clause — "fragments none of
// which carries more body bytes than the configured MTU", which partition the message — is read off the
// datagrams that real endpoints emit in complete handshakes, because what the fragmenter is given (MTU,
// connection state: negotiated connection IDs, epoch) is decided by the connection, not by the fragmenter.
//
// Case = (handshake variant, MTU, client CID length, server CID length, one delivery fault or none).
// Every record of every emitted datagram is taken apart: cleartext handshake records directly, protected ones
// after reference decryption (passive decoder keyed from the session's root secrets). For every handshake
// fragment: fragment_length <= sender's MTU; fragment_offset + fragment_length <= length; all fragments of one
// (sender, epoch, message_seq, transmission) agree on type and length and tile [0, length) without gap.
type wireSpec struct {
	v          checks.Variant
	mtu        int
	cidC, cidS int
	m          world.Mask
}

type fragKey struct {
	src   world.Addr
	epoch uint16
	seq   uint16
}

func parseFrags(b []byte) []world.HSFrag {
	var out []world.HSFrag
	for len(b) >= 12 {
		f := world.HSFrag{Type: b[0], Len: uint32(b[1])<<16 | uint32(b[2])<<8 | uint32(b[3]), MsgSeq: uint16(b[4])<<8 | uint16(b[5]),
			FragOff: uint32(b[6])<<16 | uint32(b[7])<<8 | uint32(b[8]), FragLen: uint32(b[9])<<16 | uint32(b[10])<<8 | uint32(b[11])}
		if int(f.FragLen) > len(b)-12 {
			return out
		}
		f.Body = b[12 : 12+f.FragLen]
		out = append(out, f)
		b = b[12+f.FragLen:]
	}
	return out
}

func wireCase(t *testing.T, p *world.PKI, sp wireSpec, seed uint64) run.Outcome {
	var o run.Outcome
	world.Run(t, seed, func(w *world.World) {
		v := sp.v
		v.C.MTU, v.S.MTU = sp.mtu, sp.mtu
		v.C.CIDLen, v.S.CIDLen = sp.cidC, sp.cidS
		pr, err := v.Setup(w, p)
		if err != nil {
			o.Skip = true
			o.Class = "config-rejected"
			return
		}
		defer pr.CloseAll()
		n := world.NewNet(w, world.ClientAddr, sp.m)
		_ = n.Pump(60*time.Second, pr.BothDone)
		if !pr.BothOK() {
			o.Class = "handshake-incomplete"
			o.Skip = true // completion is C02's subject
			return
		}
		n.ClearFaults()
		n.Flush()
		dec := pr.NewDecoder()
		recs := dec.Poll()
		type span struct{ off, ln uint32 }
		cover := map[fragKey][]span{}
		meta := map[fragKey][2]uint32{} // type, length
		var bad []string
		nfrag, maxBody := 0, uint32(0)
		for _, r := range recs {
			if r.Type != world.CTHandshake || !(r.OK || r.Plain) {
				continue
			}
			for _, f := range parseFrags(r.Payload) {
				nfrag++
				if f.FragLen > maxBody {
					maxBody = f.FragLen
				}
				if int(f.FragLen) > sp.mtu {
					bad = append(bad, fmt.Sprintf("%s emitted a fragment of message type %d (message_seq %d, epoch %d) with %d body bytes; the configured MTU is %d (datagram #%d)", r.D.Src, f.Type, f.MsgSeq, r.Epoch, f.FragLen, sp.mtu, r.D.ID))
				}
				if f.FragOff+f.FragLen > f.Len {
					bad = append(bad, fmt.Sprintf("%s: fragment [%d,+%d) runs past the message length %d (type %d seq %d)", r.D.Src, f.FragOff, f.FragLen, f.Len, f.Type, f.MsgSeq))
				}
				k := fragKey{r.D.Src, r.Epoch, f.MsgSeq}
				if m, ok := meta[k]; ok && (m[0] != uint32(f.Type) || m[1] != f.Len) {
					bad = append(bad, fmt.Sprintf("%s: fragments of message_seq %d (epoch %d) disagree on type/length: (%d,%d) vs (%d,%d)", r.D.Src, f.MsgSeq, r.Epoch, m[0], m[1], f.Type, f.Len))
				}
				meta[k] = [2]uint32{uint32(f.Type), f.Len}
				cover[k] = append(cover[k], span{f.FragOff, f.FragLen})
			}
		}
		for k, sps := range cover {
			sort.Slice(sps, func(i, j int) bool { return sps[i].off < sps[j].off })
			end := uint32(0)
			for _, s := range sps {
				if s.off > end {
					bad = append(bad, fmt.Sprintf("%s: the fragments of message_seq %d (epoch %d) leave bytes [%d,%d) uncovered", k.src, k.seq, k.epoch, end, s.off))
					break
				}
				if s.off+s.ln > end {
					end = s.off + s.ln
				}
			}
			if end < meta[k][1] && len(bad) == 0 {
				bad = append(bad, fmt.Sprintf("%s: the fragments of message_seq %d (epoch %d) cover only %d of %d bytes", k.src, k.seq, k.epoch, end, meta[k][1]))
			}
		}
		o.NonTrivial = nfrag > 0
		o.Evals = nfrag
		o.Class = fmt.Sprintf("wire ok maxbody<=mtu=%v fragmented=%v", int(maxBody) <= sp.mtu, int(maxBody) == sp.mtu)
		if len(bad) > 0 {
			sort.Strings(bad)
			o.Violation = fmt.Sprintf("variant=%s mtu=%d cid=%d/%d mask=%s: %s", sp.v.Name, sp.mtu, sp.cidC, sp.cidS, sp.m, bad[0])
			if len(bad) > 1 {
				o.Violation += fmt.Sprintf(" (+%d more)", len(bad)-1)
			}
			o.Key = "wire-fragment:" + strings.SplitN(bad[0], " ", 2)[1][:20]
			o.Class = "wire VIOLATION"
		}
		o.Sample = map[string]any{"variant": sp.v.Name, "mtu": sp.mtu, "cid": fmt.Sprintf("%d/%d", sp.cidC, sp.cidS), "mask": sp.m.String(), "fragments": nfrag, "max_body": maxBody}
	})
	return o
}

func wireCases(p *world.PKI, thorough bool, seed uint64) []run.Case {
	type cfg struct{ mtu, c, s int }
	cfgs := map[string][]cfg{
		"12-cert":       {{16, 16, 16}, {24, 40, 40}, {100, 200, 1}, {100, 1, 200}, {50, 0, 0}, {20, 4, 4}, {200, 4, 4}, {13, 0, 0}},
		"12-clientauth": {{64, 8, 64}, {300, 0, 0}},
		"12-psk":        {{16, 16, 16}, {12, 0, 12}},
		"12-resumed":    {{32, 32, 32}, {100, 0, 0}},
		"13-direct":     {{300, 0, 0}, {200, 4, 4}, {120, 120, 120}},
		"13-clientauth": {{250, 8, 1}},
	}
	acts := []world.Action{world.ActDrop}
	nd := 3
	if thorough {
		cfgs["12-ecdhepsk"] = []cfg{{40, 40, 0}, {40, 0, 40}}
		cfgs["13-hrr"] = []cfg{{300, 4, 4}, {150, 150, 2}}
		acts = []world.Action{world.ActDrop, world.ActDup, world.ActHold3}
		nd = 8
	}
	masks := checks.EnumMasks(nd, 1, acts)
	var names []string
	for k := range cfgs {
		names = append(names, k)
	}
	sort.Strings(names)
	var cases []run.Case
	for _, name := range names {
		var v checks.Variant
		found := false
		for _, x := range checks.AllVariants() {
			if x.Name == name {
				v, found = x, true
			}
		}
		if !found {
			continue
		}
		for _, c := range cfgs[name] {
			for _, m := range masks {
				sp := wireSpec{v: v, mtu: c.mtu, cidC: c.c, cidS: c.s, m: m}
				cases = append(cases, run.Case{ID: fmt.Sprintf("wire/%s/mtu%d/cid%d-%d/%s", name, c.mtu, c.c, c.s, m),
					Run: func(t *testing.T) run.Outcome { return wireCase(t, p, sp, seed) }})
			}
		}
	}
	return cases
}
