package c12

import (
	"fmt"
	"sort"
	"strings"
	"testing"
	"time"

	"github.com/pion/dtls/v3/zzverif/checks"
	"github.com/pion/dtls/v3/zzverif/run"
	"github.com/pion/dtls/v3/zzverif/world"
)

// TestC12Conn is the connection-level receiver part of C12: the reassembly buffer is driven through the
// real Conn receive path (record unpacking, decryption of protected flights, FragmentBuffer.Push, the
// drain loop that surfaces completed messages into the handshake cache, the flight parsers).
//
// Case = (handshake variant, MTU, flight index f). The handshake runs in lock step over the in-memory
// network: after every quiescent point the datagrams in flight form one batch. Batches before and after
// f are delivered in emission order. In batch f the datagrams are classed: "p0" = only cleartext epoch-0
// handshake records, "u2" = only DTLS 1.3 handshake-epoch records, anything else (ChangeCipherSpec,
// records of an epoch whose keys the receiver gets from an earlier datagram of the same batch, epoch 3)
// is fixed. Datagrams are re-ordered only among the positions of their own class — record-layer
// ordering (a record arriving before its keys or before the ChangeCipherSpec) is not reassembly and
// belongs to C02 — in every arrival order of the enumeration (every permutation of the class when n!
// is within the tier's cap, otherwise every single move of one datagram to every other position, every
// pair of adjacent transpositions and the reversal), and additionally with each datagram delivered
// twice (in place and again at the end of the batch). Every datagram is delivered, none is lost, and
// fake time does not advance between deliveries.
//
// Oracle: the receiver holds every byte of every message of the flight, so it must surface all of them:
// the handshake completes on both sides before the first retransmission timer could fire (fake time
// < 900 ms; the flight interval is 1 s), whatever the arrival order. A message that is complete in the
// buffer but not surfaced shows up as a handshake that needs a timer retransmission (or never ends).

type connSpec struct {
	v   checks.Variant
	mtu int
	f   int
}

func orders(n int, cap int) (out [][]int, full bool) {
	id := make([]int, n)
	for i := range id {
		id[i] = i
	}
	fact := 1
	for i := 2; i <= n; i++ {
		fact *= i
		if fact > cap {
			fact = cap + 1
			break
		}
	}
	if fact <= cap {
		var rec func(cur []int, used []bool)
		rec = func(cur []int, used []bool) {
			if len(cur) == n {
				out = append(out, append([]int(nil), cur...))
				return
			}
			for i := 0; i < n; i++ {
				if !used[i] {
					used[i] = true
					rec(append(cur, i), used)
					used[i] = false
				}
			}
		}
		rec(nil, make([]bool, n))
		return out, true
	}
	seen := map[string]bool{}
	add := func(p []int) {
		k := fmt.Sprint(p)
		if !seen[k] {
			seen[k] = true
			out = append(out, append([]int(nil), p...))
		}
	}
	add(id)
	for i := 0; i < n; i++ { // single moves
		for j := 0; j < n; j++ {
			if i == j {
				continue
			}
			p := append([]int(nil), id[:i]...)
			p = append(p, id[i+1:]...)
			q := append([]int(nil), p[:j]...)
			q = append(q, i)
			q = append(q, p[j:]...)
			add(q)
		}
	}
	for i := 0; i+1 < n; i++ { // two adjacent transpositions
		for j := i + 2; j+1 < n; j++ {
			p := append([]int(nil), id...)
			p[i], p[i+1] = p[i+1], p[i]
			p[j], p[j+1] = p[j+1], p[j]
			add(p)
		}
	}
	rev := make([]int, n)
	for i := range rev {
		rev[i] = n - 1 - i
	}
	add(rev)
	return out, false
}

// connExec runs one handshake; batch f is delivered in the order given (indices into the batch; an index
// may occur twice = duplicate delivery). Returns the batch size seen, whether the handshake completed in
// time, and a description.
func classOf(d *world.Datagram, cidLen int) string {
	recs, err := world.ParseDatagram(d.Data, cidLen)
	if err != nil || len(recs) == 0 {
		return "fixed"
	}
	p0, u2 := true, true
	for _, r := range recs {
		if r.Unified || r.Epoch != 0 || r.Type != world.CTHandshake {
			p0 = false
		}
		if !r.Unified || r.Epoch&3 != 2 {
			u2 = false
		}
	}
	switch {
	case p0:
		return "p0"
	case u2:
		return "u2"
	}
	return "fixed"
}

var lastClasses []string

func connExec(t *testing.T, p *world.PKI, sp connSpec, order []int, seed uint64) (n int, ok bool, reached bool, desc string) {
	world.Run(t, seed, func(w *world.World) {
		v := sp.v
		v.C.MTU, v.S.MTU = sp.mtu, sp.mtu
		pr, err := v.Setup(w, p)
		if err != nil {
			desc = "setup: " + err.Error()
			return
		}
		defer pr.CloseAll()
		var shapes []string
		for b := 0; b < 40; b++ {
			w.Settle()
			if pr.BothDone() {
				break
			}
			batch := w.InFlight()
			if len(batch) == 0 {
				break
			}
			for _, d := range batch {
				w.Take(d)
			}
			if b == sp.f {
				reached = true
				n = len(batch)
				if order == nil {
					order = make([]int, n)
					for i := range order {
						order[i] = i
					}
				}
				lastClasses = lastClasses[:0]
				for _, d := range batch {
					shapes = append(shapes, world.Describe(d.Data))
					lastClasses = append(lastClasses, classOf(d, pr.CIDLenFor(d.Src)))
				}
				for _, i := range order {
					if i >= len(batch) {
						continue
					}
					w.Push(batch[i].Src, batch[i].Dst, batch[i].Data)
					w.Settle()
				}
				continue
			}
			for _, d := range batch {
				w.Push(d.Src, d.Dst, d.Data)
				w.Settle()
			}
		}
		w.Settle()
		ok = pr.BothOK() && w.Now() < 900*time.Millisecond
		st := "completed"
		if !pr.BothOK() {
			cs, ss := pr.C.Snapshot(), pr.S.Snapshot()
			st = fmt.Sprintf("not completed without a retransmission timer (client done=%v, server done=%v; reassembly buffers hold client %d / server %d fragments of %d / %d messages; handshake caches %d / %d entries)", pr.C.HS.Done(), pr.S.HS.Done(), cs.FragCount, ss.FragCount, cs.FragMsgs, ss.FragMsgs, cs.CacheLen, ss.CacheLen)
		}
		desc = fmt.Sprintf("%s at +%v; flight datagrams: [%s]", st, w.Now().Round(time.Millisecond), strings.Join(shapes, " | "))
	})
	return
}

func connCase(t *testing.T, p *world.PKI, sp connSpec, thorough bool, seed uint64) run.Outcome {
	var o run.Outcome
	n, ok, reached, _ := connExec(t, p, sp, nil, seed)
	if !reached {
		o.Skip = true
		o.Class = "skip:flight-index-beyond-handshake"
		return o
	}
	if !ok {
		// in-order delivery itself does not complete: not this family's business (C02 owns it)
		o.Skip = true
		o.Class = "skip:in-order-run-does-not-complete"
		return o
	}
	cap := 720
	if thorough {
		cap = 5040
	}
	classes := append([]string(nil), lastClasses...)
	var ords [][]int
	full := true
	ident := make([]int, n)
	for i := range ident {
		ident[i] = i
	}
	movable := 0
	for _, cl := range []string{"p0", "u2"} {
		var pos []int
		for i, c := range classes {
			if c == cl {
				pos = append(pos, i)
			}
		}
		if len(pos) < 2 {
			continue
		}
		movable += len(pos)
		sub, f := orders(len(pos), cap)
		full = full && f
		for _, so := range sub {
			o1 := append([]int(nil), ident...)
			for k, j := range so {
				o1[pos[k]] = pos[j]
			}
			ords = append(ords, o1)
		}
	}
	if len(ords) == 0 {
		ords = append(ords, ident)
	}
	// duplicates: each datagram once more at the end of the batch
	for i := 0; i < n; i++ {
		ords = append(ords, append(append([]int(nil), ident...), i))
	}
	var bad []string
	for _, ord := range ords {
		o.Evals++
		if o.Evals%50 == 0 {
			run.Heartbeat()
		}
		_, ok, _, d := connExec(t, p, sp, ord, seed)
		if !ok {
			bad = append(bad, fmt.Sprintf("arrival order %v: %s", ord, d))
			if len(bad) >= 3 {
				break
			}
		}
	}
	o.NonTrivial = movable > 1
	o.Distinct = len(ords)
	o.Class = fmt.Sprintf("conn:n=%d movable=%d full-permutations=%v", n, movable, full)
	o.Counters = map[string]int{"conn_arrival_orders": len(ords)}
	if !full {
		o.Counters["conn_flights_beyond_permutation_cap"]++
	}
	if len(bad) > 0 {
		o.Key = "conn-flight-not-surfaced-without-retransmission"
		o.Violation = fmt.Sprintf("variant=%s mtu=%d flight-batch=%d (%d datagrams): every datagram was delivered exactly once or twice, none lost, yet the handshake did not complete before the first retransmission timer: %s", sp.v.Name, sp.mtu, sp.f, n, strings.Join(bad, " ;; "))
	}
	o.Sample = map[string]any{"variant": sp.v.Name, "mtu": sp.mtu, "flight_batch": sp.f, "datagrams": n, "classes": strings.Join(classes, ","), "arrival_orders": len(ords), "all_permutations": full}
	return o
}

func TestC12Conn(t *testing.T) {
	env := run.GetEnv()
	p := world.GetPKI(t)
	names := map[string][]int{"12-cert": {200, 400, 1200}, "12-clientauth": {300, 1200}, "12-psk": {100}, "13-direct": {300, 1200}, "13-clientauth": {400}}
	if env.Thorough() {
		names = map[string][]int{"12-cert": {100, 150, 200, 400, 1200}, "12-clientauth": {200, 300, 1200}, "12-psk": {60, 100}, "12-ecdhepsk": {100}, "12-resumed": {100}, "13-direct": {200, 300, 1200}, "13-clientauth": {300, 400}, "13-hrr": {300}}
	}
	var keys []string
	for k := range names {
		keys = append(keys, k)
	}
	sort.Strings(keys)
	var cases []run.Case
	for _, name := range keys {
		var v checks.Variant
		found := false
		for _, x := range checks.AllVariants() {
			if x.Name == name {
				v, found = x, true
			}
		}
		if !found {
			continue
		}
		for _, mtu := range names[name] {
			for f := 0; f < 12; f++ {
				sp := connSpec{v: v, mtu: mtu, f: f}
				cases = append(cases, run.Case{ID: fmt.Sprintf("conn/%s/mtu%d/f%d", name, mtu, f), Run: func(t *testing.T) run.Outcome { return connCase(t, p, sp, env.Thorough(), env.Seed+1) }})
			}
		}
	}
	wire := wireCases(p, env.Thorough(), env.Seed+1)
	cases = append(cases, wire...)
	run.Main(t, "C12", cases, map[string]any{"wire_sender_cases": len(wire), "layer": "connection-level receiver + wire-level sender", "permutation_cap": map[bool]int{false: 720, true: 5040}[env.Thorough()]})
}
