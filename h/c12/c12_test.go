//go:build verif

package c12

import (
	"bytes"
	"fmt"
	"runtime/debug"
	"sort"
	"strings"
	"testing"

	dtls "github.com/pion/dtls/v3"
	"github.com/pion/dtls/v3/internal/fragmentbuffer"
	"github.com/pion/dtls/v3/pkg/protocol/handshake"
	"github.com/pion/dtls/v3/zzverif/run"
)

// C12 — fragmentation and reassembly reproduce every handshake message exactly once (E3 part).
//
// SENDER  (family tx):   every body length 0..64 x every MTU 1..66 through the real fragmentHandshake.
// RECEIVER (rx1/rx2/...): the real FragmentBuffer against the byte-coverage reference model of model.go
// for every composition of every small message length, zero-length fragments at every boundary,
// duplicated fragments, EVERY arrival permutation, three ways of packing arrivals into records, one
// message or two interleaved messages, followed by a retransmission of every fragment.
//
// Known defects rediscovered here get the keys KeyF1 / KeyF10; the key is computed from the input
// shape (f1Cause / f10Cause), never from the symptom alone.
//
// Overlapping re-partitions (fragments of two different partitions of one message mixed) are outside
// the property's quantifier and are neither generated nor asserted.

// Rule is the enumeration rule reported with the evidence.
const Rule = "sender case = body length L (loops every MTU 1..66; one evaluation per (L, MTU)); receiver case = " +
	"(family, record packing, message length(s), composition(s) of each length into ordered fragment sizes, zero-length group), " +
	"where group z0 has no zero-length fragment and group z1-2 loops over every choice of one or two fragment boundaries " +
	"(offsets 0..L) that receive a zero-length fragment; inside a case every subset of the distinct fragments is duplicated once " +
	"(as long as arrivals <= the stated cap) and EVERY distinct arrival permutation of the resulting multiset is executed on a fresh " +
	"FragmentBuffer (Pop until nil after each Push), then every fragment is retransmitted alone and all together; one evaluation = one " +
	"arrival sequence under one packing (each / pair / all; packings that coincide for 1-2 arrivals are run once); an evaluation is " +
	"non-trivial iff it has >= 2 arrivals (>= 2 fragments, or a zero-length or duplicated fragment besides the message's own), " +
	"sender: iff the message is split into >= 2 fragments or is empty"

const (
	KeyF1  = "F1-pop-nil-deref"
	KeyF10 = "F10-zero-length-fragment-shadows-offset"
)

// Packing of consecutive arrivals into records (one Push per record).
const (
	modeEach = "each" // one fragment per record
	modePair = "pair" // arrivals 2i, 2i+1 share a record
	modeAll  = "all"  // every arrival in a single record
)

// ---------------------------------------------------------------------------------------------
// One shape = messages + the set of distinct fragments that may arrive.

type shape struct {
	family string
	base   uint16
	lens   []int
	frs    []Frag // distinct fragments, sorted by (Msg, Off, Len); an arrival is an index into frs
	strict bool   // liveness asserted (false for the stray-fragment family, which is outside "partition")
	mode   string
}

type viol struct {
	kind, key string
	text      func() string // built only for the first violation of each key in a case
}

type execCtx struct {
	sh      *shape
	msgs    []Msg
	want    [][]byte
	fragEnc [][]byte // encoded handshake fragment per item
	recEnc  [][]byte // single-fragment record per item
	model   *Model
	recSeq  uint64
	// retransmission phase: every fragment alone, then all fragments in one record
	retxRecs [][]byte

	*acc
}

// acc accumulates the results of every shape executed inside one case.
type acc struct {
	evals, distinct, pushes, pops int
	counters                      map[string]int
	viols                         map[string]*viol
	violOrder                     []string
	sample                        any
}

func newAcc() *acc { return &acc{counters: map[string]int{}, viols: map[string]*viol{}} }

func newExec(sh *shape, a *acc) *execCtx {
	x := &execCtx{sh: sh, model: NewModel(sh.lens), acc: a}
	for i, l := range sh.lens {
		m := NewMsg(sh.base, i, l)
		if sh.mode != modeEach {
			m.Epoch = 1 // a record has one epoch: messages that share records share the epoch
		}
		x.msgs = append(x.msgs, m)
		x.want = append(x.want, EncodeWhole(m))
	}
	for i, f := range sh.frs {
		x.fragEnc = append(x.fragEnc, EncodeFragment(x.msgs[f.Msg], f.Off, f.Len))
		x.recEnc = append(x.recEnc, EncodeRecord(x.msgs[f.Msg].Epoch, uint64(i), x.fragEnc[i]))
	}
	var all []byte
	for it := range sh.frs {
		x.retxRecs = append(x.retxRecs, x.recEnc[it])
		all = append(all, x.fragEnc[it]...)
	}
	x.retxRecs = append(x.retxRecs, EncodeRecord(1, 5000, all))
	return x
}

func (x *execCtx) render(order []int) string {
	s := make([]string, len(order))
	for i, it := range order {
		s[i] = x.sh.frs[it].String()
	}
	return strings.Join(s, " ")
}

func (x *execCtx) tags(order []int) string {
	var t []string
	if len(x.sh.lens) > 1 {
		t = append(t, "2msg")
	}
	zero, empty, stray, dup, reorder := false, false, false, false, false
	seen := map[int]bool{}
	for i, it := range order {
		f := x.sh.frs[it]
		L := x.sh.lens[f.Msg]
		switch {
		case f.Off > L:
			stray = true
		case L == 0:
			empty = true
		case f.Len == 0:
			zero = true
		}
		if seen[it] {
			dup = true
		}
		seen[it] = true
		if i > 0 && order[i-1] > it {
			reorder = true
		}
	}
	for _, p := range []struct {
		b bool
		s string
	}{{empty, "emptymsg"}, {zero, "zerofrag"}, {stray, "stray"}, {dup, "dup"}, {reorder, "reorder"},
		{x.sh.mode != modeEach, "packed"}, {x.sh.base != 0, "advanced"}} {
		if p.b {
			t = append(t, p.s)
		}
	}
	if len(t) == 0 {
		return "plain"
	}
	return strings.Join(t, ",")
}

// f10Cause: among the first upto arrivals, a zero-length fragment of message msg sits at an offset
// k < len at which a non-empty fragment starts, and it arrived before that fragment.
func (x *execCtx) f10Cause(order []int, upto, msg int) (cause, interior bool, at []int) {
	L := x.sh.lens[msg]
	firstZero := map[int]int{}
	firstReal := map[int]int{}
	for i := 0; i < upto && i < len(order); i++ {
		f := x.sh.frs[order[i]]
		if f.Msg != msg || f.Off >= L {
			continue
		}
		m := firstReal
		if f.Len == 0 {
			m = firstZero
		}
		if _, ok := m[f.Off]; !ok {
			m[f.Off] = i
		}
	}
	for k, z := range firstZero {
		if r, ok := firstReal[k]; ok && z < r {
			cause = true
			at = append(at, k)
			if k > 0 {
				interior = true
			}
		}
	}
	sort.Ints(at)
	return cause, interior, at
}

// f1Cause: the message at the delivery cursor has length 0, fragments of it arrived, none at offset 0.
func (x *execCtx) f1Cause(order []int, upto int) bool {
	cur := x.model.Next
	if cur >= len(x.sh.lens) || x.sh.lens[cur] != 0 {
		return false
	}
	any0, anyOther := false, false
	for i := 0; i < upto && i < len(order); i++ {
		f := x.sh.frs[order[i]]
		if f.Msg != cur {
			continue
		}
		if f.Off == 0 {
			any0 = true
		} else {
			anyOther = true
		}
	}
	return anyOther && !any0
}

func (x *execCtx) mk(kind, key string, order []int, upto int, detail string) *viol {
	if key == "" {
		key = kind + "/" + x.tags(order)
	}
	if v, ok := x.viols[key]; ok {
		return v // same cause already recorded in this case: counted, not rendered again
	}
	arrivals := x.render(order)
	return &viol{kind: kind, key: key, text: func() string {
		return fmt.Sprintf("%s: family=%s base=%d lens=%v packing=%s arrivals=[%s] after %d arrival(s): %s",
			kind, x.sh.family, x.sh.base, x.sh.lens, x.sh.mode, arrivals, upto, detail)
	}}
}

func short(b []byte) string {
	if len(b) > 40 {
		return fmt.Sprintf("%x...(%dB)", b[:40], len(b))
	}
	return fmt.Sprintf("%x", b)
}

// classifyPop explains an unexpected or wrong Pop result.
func (x *execCtx) classifyPop(out []byte) string {
	p, ok := ParseFragment(out)
	if !ok {
		return "surfaced-garbage"
	}
	idx := int(p.Seq) - int(x.sh.base)
	switch {
	case idx < 0 || idx >= len(x.msgs):
		return "surfaced-unknown-message"
	case idx < x.model.Next:
		return "surfaced-twice"
	case !x.model.Complete(idx):
		return "surfaced-before-complete"
	case idx > x.model.Next:
		return "surfaced-out-of-order"
	}
	return "wrong-content"
}

const staleLen = 2

// runOrder executes one arrival sequence against a fresh FragmentBuffer and the reference model.
func (x *execCtx) runOrder(order []int) (v *viol) {
	upto := 0
	defer func() {
		if r := recover(); r != nil {
			key := ""
			if x.f1Cause(order, upto) {
				key = KeyF1
			}
			v = x.mk("panic", key, order, upto, fmt.Sprintf("panic: %v", r))
		}
	}()
	sh := x.sh
	fb := fragmentbuffer.New()
	x.model.Reset()

	var staleRec []byte
	if sh.base > 0 {
		// A partial earlier message is buffered, then the connection moves the cursor (AdvanceTo).
		stale := Msg{Seq: sh.base - 1, Typ: 1, Body: []byte{0xEE, 0xEF}}
		staleRec = EncodeRecord(0, 99, EncodeFragment(stale, 0, 1))
		if _, _, err := fb.Push(staleRec); err != nil {
			return x.mk("push-error", "", order, 0, "prelude: "+err.Error())
		}
		x.pushes++
		if out, _ := fb.Pop(); out != nil {
			return x.mk("surfaced-before-complete", "", order, 0, "prelude: partial message surfaced "+short(out))
		}
		fb.AdvanceTo(sh.base)
		if size, count, msgs, cur := fb.VerifStats(); size != 0 || count != 0 || msgs != 0 || cur != sh.base {
			return x.mk("advance-to-left-stale-state", "", order, 0,
				fmt.Sprintf("after AdvanceTo(%d): size=%d count=%d messages=%d cursor=%d", sh.base, size, count, msgs, cur))
		}
	}

	for i := 0; i < len(order); {
		j := i + 1
		switch sh.mode {
		case modePair:
			j = i + 2
		case modeAll:
			j = len(order)
		}
		if j > len(order) {
			j = len(order)
		}
		group := order[i:j]
		var rec []byte
		if len(group) == 1 {
			rec = x.recEnc[group[0]]
		} else {
			var payload []byte
			for _, it := range group {
				payload = append(payload, x.fragEnc[it]...)
			}
			x.recSeq++
			rec = EncodeRecord(x.msgs[sh.frs[group[0]].Msg].Epoch, 1000+x.recSeq, payload)
		}
		wantRetx := false
		for _, it := range group {
			if x.model.Arrive(sh.frs[it]) {
				wantRetx = true
			}
		}
		upto = j
		isHS, isRetx, err := fb.Push(rec)
		x.pushes++
		switch {
		case err != nil:
			return x.mk("push-error", "", order, upto, err.Error())
		case !isHS:
			return x.mk("push-not-handshake", "", order, upto, "Push reported isHandshake=false for a handshake record")
		case wantRetx && !isRetx:
			return x.mk("retransmit-flag-missing", "", order, upto, "record carries a fragment of an already delivered message but isRetransmit=false")
		case !wantRetx && isRetx:
			return x.mk("retransmit-flag-on-new-data", "", order, upto, "isRetransmit=true but no fragment of the record belongs to a delivered message")
		}
		// Pop until nil, comparing with the reference.
		for {
			out, epoch := fb.Pop()
			x.pops++
			if out == nil {
				if x.model.Deliverable() {
					if !sh.strict {
						x.counters["stray_family_late_delivery"]++
						break
					}
					key, why := "", ""
					if cause, interior, at := x.f10Cause(order, upto, x.model.Next); cause {
						key = KeyF10
						why = fmt.Sprintf(" (a zero-length fragment at offset %v arrived before the non-empty fragment that starts there)", at)
						if interior {
							x.counters["F10_interior_offset"]++
						} else {
							x.counters["F10_offset0_only"]++
						}
					}
					if v, ok := x.viols[key]; ok && key != "" {
						return v
					}
					return x.mk("complete-message-not-surfaced", key, order, upto,
						fmt.Sprintf("reference has full byte coverage of message_seq %d (and all earlier ones are delivered) but Pop returned nil%s", x.msgs[x.model.Next].Seq, why))
				}
				break
			}
			if !x.model.Deliverable() || !bytes.Equal(out, x.want[x.model.Next]) {
				kind := x.classifyPop(out)
				wantS := "nothing"
				if x.model.Deliverable() {
					wantS = short(x.want[x.model.Next])
				}
				return x.mk(kind, "", order, upto, fmt.Sprintf("Pop returned %s, reference expects %s", short(out), wantS))
			}
			if epoch != x.msgs[x.model.Next].Epoch {
				return x.mk("wrong-epoch", "", order, upto, fmt.Sprintf("Pop epoch %d, fragments arrived in epoch %d", epoch, x.msgs[x.model.Next].Epoch))
			}
			x.model.Next++
		}
		i = j
	}

	if x.model.Next != len(x.msgs) {
		if sh.strict {
			return x.mk("harness-bug-not-all-delivered", "", order, upto, "model did not deliver every message")
		}
		return nil
	}
	upto = len(order)
	// Everything is delivered: nothing may remain buffered, the cursor is past the last message.
	wantCur := sh.base + uint16(len(x.msgs))
	if size, count, msgs, cur := fb.VerifStats(); size != 0 || count != 0 || msgs != 0 || cur != wantCur {
		return x.mk("buffer-not-empty-after-all-delivered", "", order, upto,
			fmt.Sprintf("size=%d count=%d messages=%d cursor=%d (want 0 0 0 %d)", size, count, msgs, cur, wantCur))
	}
	// Retransmission of every fragment of the delivered messages: one by one, then all in one record.
	recs := x.retxRecs
	if staleRec != nil {
		recs = append(recs[:len(recs):len(recs)], staleRec)
	}
	for ri, rec := range recs {
		isHS, isRetx, err := fb.Push(rec)
		x.pushes++
		if err != nil || !isHS || !isRetx {
			return x.mk("retransmit-flag-missing", "", order, upto,
				fmt.Sprintf("retransmission #%d of a delivered message: isHandshake=%v isRetransmit=%v err=%v", ri, isHS, isRetx, err))
		}
		out, _ := fb.Pop()
		x.pops++
		if out != nil {
			return x.mk("retransmission-surfaced-message", "", order, upto, fmt.Sprintf("retransmission #%d: Pop returned %s", ri, short(out)))
		}
	}
	if size, count, msgs, cur := fb.VerifStats(); size != 0 || count != 0 || msgs != 0 || cur != wantCur {
		return x.mk("retransmission-buffered-as-new-data", "", order, upto,
			fmt.Sprintf("after retransmissions: size=%d count=%d messages=%d cursor=%d (want 0 0 0 %d)", size, count, msgs, cur, wantCur))
	}
	return nil
}

func (x *execCtx) record(v *viol) {
	x.counters["viol:"+v.key]++
	if _, ok := x.viols[v.key]; !ok {
		x.viols[v.key] = v
		x.violOrder = append(x.violOrder, v.key)
	}
}

// skippedPacking: packings that coincide with another packing for this many arrivals are not run twice
// (one arrival: all three coincide; two arrivals: "pair" and "all" coincide).
func skippedPacking(mode string, arrivals int) bool {
	return (mode != modeEach && arrivals < 2) || (mode == modePair && arrivals <= 2)
}

// allOrders runs every distinct permutation of the multiset mult over the items of the shape.
func (x *execCtx) allOrders(mult []int) {
	var order []int
	for it, m := range mult {
		for c := 0; c < m; c++ {
			order = append(order, it)
		}
	}
	n := len(order)
	if skippedPacking(x.sh.mode, n) {
		return
	}
	for {
		x.evals++
		if n >= 2 {
			x.distinct++
		}
		if v := x.runOrder(order); v != nil {
			x.record(v)
		}
		if x.sample == nil && n >= 2 {
			x.sample = map[string]any{"family": x.sh.family, "lens": x.sh.lens, "packing": x.sh.mode, "arrivals": x.render(order)}
		}
		if !NextPermutation(order) {
			break
		}
	}
}

// allDupsAndOrders: every subset of the distinct fragments duplicated once (arrivals <= cap), every order.
func (x *execCtx) allDupsAndOrders(cap int) {
	n := len(x.sh.frs)
	for d := 0; d <= n && n+d <= cap; d++ {
		for _, mask := range Subsets(n, d) {
			mult := make([]int, n)
			for i := range mult {
				mult[i] = 1
				if mask&(1<<i) != 0 {
					mult[i] = 2
				}
			}
			x.allOrders(mult)
		}
	}
}

func (x *acc) outcome() run.Outcome {
	o := run.Outcome{Class: "held", Evals: x.evals, Distinct: x.distinct, NonTrivial: x.distinct > 0, Sample: x.sample,
		Counters: x.counters}
	if x.evals == 0 {
		o.Skip = true
		return o
	}
	x.counters["pushes"] += x.pushes
	x.counters["pops"] += x.pops
	if len(x.viols) > 0 {
		// A case reports one violation: unknown causes take precedence over the known F1/F10.
		pick := ""
		for _, k := range x.violOrder {
			if k != KeyF1 && k != KeyF10 {
				pick = k
				break
			}
		}
		if pick == "" {
			pick = x.violOrder[0]
		}
		v := x.viols[pick]
		o.Violation, o.Key, o.Class = v.text(), v.key, "VIOLATION:"+v.kind
		if len(x.viols) > 1 {
			keys := append([]string(nil), x.violOrder...)
			sort.Strings(keys)
			o.Violation += " [all keys in this case: " + strings.Join(keys, " ") + "]"
		}
	}
	return o
}

// ---------------------------------------------------------------------------------------------
// Shapes

func sortFrags(frs []Frag) {
	sort.Slice(frs, func(i, j int) bool {
		a, b := frs[i], frs[j]
		if a.Msg != b.Msg {
			return a.Msg < b.Msg
		}
		if a.Off != b.Off {
			return a.Off < b.Off
		}
		return a.Len < b.Len
	})
}

// zeroChoices: every set of at most zmax boundary positions (index into bounds) as bitmasks.
func zeroChoices(npos, zmax int) []int {
	var out []int
	for z := 0; z <= zmax && z <= npos; z++ {
		out = append(out, Subsets(npos, z)...)
	}
	return out
}

func zString(mask, npos int) string {
	if npos == 0 {
		return "-"
	}
	b := make([]byte, npos)
	for i := range b {
		b[i] = '0'
		if mask&(1<<i) != 0 {
			b[i] = '1'
		}
	}
	return string(b)
}

func withZeros(msg int, c []int, zmask int) []Frag {
	frs, bounds := RealFrags(msg, c)
	for p, off := range bounds {
		if zmask&(1<<p) != 0 {
			frs = append(frs, Frag{msg, off, 0})
		}
	}
	return frs
}

// capz is the maximum number of arrivals (fragments + duplicates) indexed by the number of zero-length
// fragment positions in the shape; 0 disables that number of zero-length fragments.
type capz [3]int

type bounds struct {
	L1       int  // one message: max length
	Cap1     capz // one fragment per record
	Cap1p    capz // packed records (pair / all)
	L2       int  // two messages: max length of each
	Cap2     capz
	Cap2p    capz
	LA       int // after AdvanceTo (base 3), one message
	CapA     capz
	LA2      int // after AdvanceTo, two messages
	CapA2    capz
	LH, CapH int // stray zero-length fragments beyond the message end
	TxMaxLen int
	TxMaxMTU int
}

func getBounds(thorough bool) bounds {
	if thorough {
		return bounds{L1: 7, Cap1: capz{9, 8, 7}, Cap1p: capz{8, 7, 6},
			L2: 4, Cap2: capz{8, 7, 0}, Cap2p: capz{7, 6, 0},
			LA: 5, CapA: capz{7, 7, 0}, LA2: 3, CapA2: capz{7, 6, 0}, LH: 3, CapH: 7, TxMaxLen: 64, TxMaxMTU: 66}
	}
	return bounds{L1: 6, Cap1: capz{8, 7, 7}, Cap1p: capz{7, 6, 5},
		L2: 3, Cap2: capz{7, 6, 0}, Cap2p: capz{6, 5, 0},
		LA: 4, CapA: capz{6, 6, 0}, LA2: 2, CapA2: capz{6, 5, 0}, LH: 2, CapH: 5, TxMaxLen: 64, TxMaxMTU: 66}
}

func (c capz) String() string {
	return fmt.Sprintf("arrivals<=%d/%d/%d with 0/1/2 zero-length fragments", c[0], c[1], c[2])
}

func popcount(x int) int {
	n := 0
	for ; x != 0; x &= x - 1 {
		n++
	}
	return n
}

// caseCost holds the estimated the work of a receiver case (arrivals pushed over all its sequences). It is used
// only to order the case list so that the driver's idx % nshards split is balanced.
var caseCost = map[string]float64{}

func estimate(sh shape, cap int) float64 {
	n := len(sh.frs)
	total := 0.0
	for d := 0; d <= n && n+d <= cap; d++ {
		if skippedPacking(sh.mode, n+d) {
			continue
		}
		perms := 1.0
		for i := 2; i <= n+d; i++ {
			perms *= float64(i)
		}
		for i := 0; i < d; i++ {
			perms /= 2
		}
		choose := 1.0
		for i := 0; i < d; i++ {
			choose = choose * float64(n-i) / float64(i+1)
		}
		total += choose * perms * float64(2*n+d+1)
	}
	for _, f := range sh.frs {
		if f.Len == 0 && f.Off < sh.lens[f.Msg] {
			return 4 * total // zero-length fragment at a fragment start: violating cases are re-executed 5x by the runner
		}
	}
	return total
}

// job is one shape with its arrivals cap; a case runs one or more jobs.
type job struct {
	sh  shape
	cap int
}

func rxCase(id string, jobs []job) []run.Case {
	cost := 0.0
	for _, j := range jobs {
		cost += estimate(j.sh, j.cap)
	}
	if cost == 0 {
		return nil // nothing to run (every arrival count of this shape coincides with another packing)
	}
	caseCost[id] = cost
	return []run.Case{{ID: id, Run: func(t *testing.T) run.Outcome {
		a := newAcc()
		for _, j := range jobs {
			sh := j.sh
			e0, p0 := a.evals, a.pushes
			newExec(&sh, a).allDupsAndOrders(j.cap)
			a.counters["arrival_sequences:"+sh.family+"/"+sh.mode] += a.evals - e0
			a.counters["pushes:"+sh.family+"/"+sh.mode] += a.pushes - p0
		}
		return a.outcome()
	}}}
}

// zeroGroups splits the zero-length-fragment choices of a composition into the two cases "z0" (no
// zero-length fragment) and "z1-2" (every choice of one or two boundary positions).
func zeroGroups(npos int) (names []string, groups [][]int) {
	names, groups = []string{"z0"}, [][]int{{0}}
	if rest := zeroChoices(npos, 2)[1:]; len(rest) > 0 {
		names, groups = append(names, "z1-2"), append(groups, rest)
	}
	return names, groups
}

// oneMsgCases: family/packing/L/composition/zero-positions; inside: dup subsets x permutations.
func oneMsgCases(family string, base uint16, modes []string, maxL int, caps capz) []run.Case {
	var cases []run.Case
	for _, mode := range modes {
		for L := 0; L <= maxL; L++ {
			for _, c := range Compositions(L) {
				npos := 0
				if L > 0 {
					npos = len(c) + 1
				}
				names, groups := zeroGroups(npos)
				for gi, group := range groups {
					var jobs []job
					for _, zm := range group {
						frs := withZeros(0, c, zm)
						cap := caps[popcount(zm)]
						if len(frs) > cap {
							continue
						}
						sortFrags(frs)
						jobs = append(jobs, job{shape{family: family, base: base, lens: []int{L}, frs: frs, strict: true, mode: mode}, cap})
					}
					if len(jobs) > 0 {
						id := fmt.Sprintf("%s/%s/L%d/c=%s/%s", family, mode, L, CompString(c), names[gi])
						cases = append(cases, rxCase(id, jobs)...)
					}
				}
			}
		}
	}
	return cases
}

// twoMsgCases: two interleaved messages (message_seq base, base+1).
func twoMsgCases(family string, base uint16, modes []string, maxL int, caps capz) []run.Case {
	var cases []run.Case
	for _, mode := range modes {
		for LA := 0; LA <= maxL; LA++ {
			for LB := 0; LB <= maxL; LB++ {
				for _, ca := range Compositions(LA) {
					for _, cb := range Compositions(LB) {
						na, nb := 0, 0
						if LA > 0 {
							na = len(ca) + 1
						}
						if LB > 0 {
							nb = len(cb) + 1
						}
						names, groups := zeroGroups(na + nb)
						for gi, group := range groups {
							var jobs []job
							for _, zm := range group {
								frs := append(withZeros(0, ca, zm&(1<<na-1)), withZeros(1, cb, zm>>na)...)
								cap := caps[popcount(zm)]
								if len(frs) > cap {
									continue
								}
								sortFrags(frs)
								jobs = append(jobs, job{shape{family: family, base: base, lens: []int{LA, LB}, frs: frs, strict: true, mode: mode}, cap})
							}
							if len(jobs) > 0 {
								id := fmt.Sprintf("%s/%s/LA%d/ca=%s/LB%d/cb=%s/%s", family, mode, LA, CompString(ca), LB, CompString(cb), names[gi])
								cases = append(cases, rxCase(id, jobs)...)
							}
						}
					}
				}
			}
		}
	}
	return cases
}

// strayCases: a valid partition plus zero-length fragments whose offset lies beyond the message end.
// These are not partitions, so only safety and "no panic" are asserted (strict=false).
func strayCases(maxL, cap int) []run.Case {
	var cases []run.Case
	for L := 0; L <= maxL; L++ {
		for _, c := range Compositions(L) {
			for smask := 1; smask < 4; smask++ {
				frs, _ := RealFrags(0, c)
				for b := 0; b < 2; b++ {
					if smask&(1<<b) != 0 {
						frs = append(frs, Frag{0, L + 1 + b, 0})
					}
				}
				if len(frs) > cap {
					continue
				}
				sortFrags(frs)
				id := fmt.Sprintf("rxstray/each/L%d/c=%s/s=%s", L, CompString(c), zString(smask, 2))
				cases = append(cases, rxCase(id, []job{{shape{family: "rxstray", lens: []int{L}, frs: frs, strict: false, mode: modeEach}, cap}})...)
			}
		}
	}
	return cases
}

// ---------------------------------------------------------------------------------------------
// Sender

type rawMessage struct {
	typ  handshake.Type
	body []byte
}

func (m *rawMessage) Marshal() ([]byte, error)    { return append([]byte(nil), m.body...), nil }
func (m *rawMessage) Unmarshal(data []byte) error { m.body = append([]byte(nil), data...); return nil }
func (m *rawMessage) Type() handshake.Type        { return m.typ }

func txOne(L, mtu int) (violKind, detail string, nfrag int) {
	const seq = 7
	msg := NewMsg(seq, 0, L)
	h := &handshake.Handshake{Header: handshake.Header{MessageSequence: seq}, Message: &rawMessage{typ: handshake.Type(msg.Typ), body: msg.Body}}
	// Production fills Header.Type/Length by marshalling the handshake before it is fragmented.
	if _, err := h.Marshal(); err != nil {
		return "tx-marshal-error", err.Error(), 0
	}
	frags, err := dtls.VerifFragmentHandshake(mtu, h)
	if err != nil {
		return "tx-fragment-error", err.Error(), 0
	}
	if len(frags) == 0 {
		return "tx-no-fragment", "no fragment produced", 0
	}
	if L == 0 && (len(frags) != 1 || len(frags[0]) != 12) {
		return "tx-empty-message-not-one-empty-fragment", fmt.Sprintf("%d fragments, first %dB", len(frags), len(frags[0])), len(frags)
	}
	off := 0
	var body []byte
	for i, raw := range frags {
		p, ok := ParseFragment(raw)
		if !ok {
			return "tx-short-fragment", fmt.Sprintf("fragment %d is %dB", i, len(raw)), len(frags)
		}
		switch {
		case len(p.Body) > mtu:
			return "tx-fragment-body-exceeds-mtu", fmt.Sprintf("fragment %d carries %d body bytes", i, len(p.Body)), len(frags)
		case p.FragLen != len(p.Body):
			return "tx-fragment-length-field", fmt.Sprintf("fragment %d: fragment_length=%d, %d body bytes", i, p.FragLen, len(p.Body)), len(frags)
		case p.Off != off:
			return "tx-fragment-offset-field", fmt.Sprintf("fragment %d: fragment_offset=%d, want %d", i, p.Off, off), len(frags)
		case p.Typ != msg.Typ || p.Length != L || p.Seq != seq:
			return "tx-header-inconsistent", fmt.Sprintf("fragment %d: type=%d length=%d seq=%d, want %d %d %d", i, p.Typ, p.Length, p.Seq, msg.Typ, L, seq), len(frags)
		}
		off += len(p.Body)
		body = append(body, p.Body...)
	}
	if !bytes.Equal(body, msg.Body) {
		return "tx-bodies-do-not-partition-message", fmt.Sprintf("concatenation %s", short(body)), len(frags)
	}
	// Round trip through the real receiver, in emission order and reversed.
	want := EncodeWhole(Msg{Seq: seq, Typ: msg.Typ, Body: msg.Body})
	for _, rev := range []bool{false, true} {
		fb := fragmentbuffer.New()
		fb.AdvanceTo(seq)
		var got [][]byte
		for i := range frags {
			raw := frags[i]
			if rev {
				raw = frags[len(frags)-1-i]
			}
			if _, _, err := fb.Push(EncodeRecord(0, uint64(i), raw)); err != nil {
				return "tx-roundtrip-push-error", err.Error(), len(frags)
			}
			for out, _ := fb.Pop(); out != nil; out, _ = fb.Pop() {
				got = append(got, out)
				if i != len(frags)-1 {
					return "tx-roundtrip-surfaced-before-complete", fmt.Sprintf("after %d of %d fragments (reversed=%v)", i+1, len(frags), rev), len(frags)
				}
			}
		}
		if len(got) != 1 || !bytes.Equal(got[0], want) {
			return "tx-roundtrip-mismatch", fmt.Sprintf("reversed=%v: got %d message(s)", rev, len(got)), len(frags)
		}
	}
	return "", "", len(frags)
}

// longCases: long histories on ONE buffer (the enumerations above use a fresh buffer per arrival order, so
// nothing that accumulates over hundreds of arrivals shows there). A fragment of the message being
// reassembled (or of the next message) arrives again and again — every copy is "recognised as a
// retransmission rather than new data" — and then the missing fragment arrives: the message must surface.
// N crosses the buffer's fragment-count limit (1000) and, with 1 KiB fragments, its size limit (2 MB):
// duplicates must not count against either.
func longCases() []run.Case {
	var cases []run.Case
	for _, n := range []int{10, 999, 1000, 1001, 2500} {
		for _, which := range []string{"current", "next"} {
			for _, flen := range []int{1, 1024} {
				n, which, flen := n, which, flen
				cases = append(cases, run.Case{ID: fmt.Sprintf("long/dup-%s/x%d/frag%d", which, n, flen), Run: func(t *testing.T) run.Outcome {
					o := run.Outcome{NonTrivial: true, Evals: n + 3, Class: "long-history"}
					fb := fragmentbuffer.New()
					body := bytes.Repeat([]byte{0xA5}, 2*flen)
					cur := Msg{Seq: 0, Typ: 1, Body: body}
					dupOf := cur
					if which == "next" {
						dupOf = Msg{Seq: 1, Typ: 1, Body: body}
					}
					first := EncodeFragment(dupOf, 0, flen)
					seq := uint64(0)
					push := func(raw []byte) error {
						seq++
						_, _, err := fb.Push(EncodeRecord(0, seq, raw))
						return err
					}
					fail := func(key, f string, a ...any) run.Outcome {
						o.Key, o.Violation = key, fmt.Sprintf("long/dup-%s x%d frag%d: ", which, n, flen)+fmt.Sprintf(f, a...)
						return o
					}
					for i := 0; i < n; i++ {
						if err := push(first); err != nil {
							return fail("duplicate-fragment-refused", "copy %d of an already buffered fragment was refused: %v", i+1, err)
						}
						if out, _ := fb.Pop(); out != nil {
							return fail("surfaced-before-complete", "a message surfaced after %d copies of one fragment", i+1)
						}
					}
					// now the genuine rest: the current message completes (for which=="next": both fragments of
					// message 0 first, then the second fragment of message 1)
					var rest [][]byte
					if which == "current" {
						rest = [][]byte{EncodeFragment(cur, flen, flen)}
					} else {
						rest = [][]byte{EncodeFragment(cur, 0, flen), EncodeFragment(cur, flen, flen), EncodeFragment(dupOf, flen, flen)}
					}
					var got [][]byte
					for _, r := range rest {
						if err := push(r); err != nil {
							return fail("fragment-refused-after-duplicates", "after %d duplicate copies a new fragment was refused: %v (duplicates were counted against the buffer limits)", n, err)
						}
						for out, _ := fb.Pop(); out != nil; out, _ = fb.Pop() {
							got = append(got, out)
						}
					}
					want := [][]byte{EncodeWhole(cur)}
					if which == "next" {
						want = append(want, EncodeWhole(dupOf))
					}
					if len(got) != len(want) {
						return fail("message-not-surfaced-after-duplicates", "%d message(s) surfaced, want %d", len(got), len(want))
					}
					for i := range want {
						if !bytes.Equal(got[i], want[i]) {
							return fail("message-corrupted-after-duplicates", "message %d differs", i)
						}
					}
					return o
				}})
			}
		}
	}
	return cases
}

// bigCases: messages whose length and fragment offsets do not fit in 16 bits (the 24-bit header fields use
// their top byte): a certificate chain of 64 KiB and more. Receiver: every listed arrival order of the
// fragments of one such message through the real buffer; sender: the real fragmenter at two MTUs.
func bigCases() []run.Case {
	var cases []run.Case
	for _, L := range []int{65535, 65536, 65537, 65792, 131071, 131072, 200000} {
		for _, flen := range []int{16000, 1100} {
			for _, order := range []string{"forward", "reverse", "tail-first", "head-twice"} {
				L, flen, order := L, flen, order
				cases = append(cases, run.Case{ID: fmt.Sprintf("big/rx/L%d/frag%d/%s", L, flen, order), Run: func(t *testing.T) run.Outcome {
					o := run.Outcome{NonTrivial: true, Class: "big-message"}
					body := make([]byte, L)
					for i := range body {
						body[i] = byte(i*7 + i>>8 + i>>16)
					}
					m := Msg{Seq: 0, Typ: 11, Body: body}
					var offs []int
					for off := 0; off < L; off += flen {
						offs = append(offs, off)
					}
					switch order {
					case "reverse":
						for i, j := 0, len(offs)-1; i < j; i, j = i+1, j-1 {
							offs[i], offs[j] = offs[j], offs[i]
						}
					case "tail-first":
						offs = append([]int{offs[len(offs)-1]}, offs[:len(offs)-1]...)
					case "head-twice":
						offs = append([]int{offs[0]}, offs...)
					}
					fail := func(key, f string, a ...any) run.Outcome {
						o.Key, o.Violation = key, fmt.Sprintf("big/rx L=%d frag=%d %s: ", L, flen, order)+fmt.Sprintf(f, a...)
						return o
					}
					fb := fragmentbuffer.New()
					for i, off := range offs {
						n := flen
						if off+n > L {
							n = L - off
						}
						o.Evals++
						if _, _, err := fb.Push(EncodeRecord(0, uint64(i+1), EncodeFragment(m, off, n))); err != nil {
							return fail("big-fragment-refused", "fragment [%d,%d) refused: %v", off, off+n, err)
						}
						out, _ := fb.Pop()
						last := i == len(offs)-1
						switch {
						case out != nil && !last:
							return fail("big-surfaced-before-complete", "a message surfaced after %d of %d fragments", i+1, len(offs))
						case last && out == nil:
							return fail("big-message-never-surfaces", "all %d bytes arrived (%d fragments) and no message surfaced", L, len(offs))
						case last && !bytes.Equal(out, EncodeWhole(m)):
							return fail("big-message-corrupted", "the surfaced message differs from the one sent (%d bytes, want %d)", len(out), 12+L)
						}
					}
					if out, _ := fb.Pop(); out != nil {
						return fail("big-message-surfaced-twice", "a second message surfaced")
					}
					return o
				}})
			}
		}
		for _, mtu := range []int{1200, 16000} {
			L, mtu := L, mtu
			cases = append(cases, run.Case{ID: fmt.Sprintf("big/tx/L%d/mtu%d", L, mtu), Run: func(t *testing.T) run.Outcome {
				o := run.Outcome{NonTrivial: true, Evals: 1, Class: "big-message"}
				if kind, detail, n := txOne(L, mtu); kind != "" {
					o.Key, o.Violation = kind+"/big", fmt.Sprintf("%s: family=tx len=%d mtu=%d fragments=%d: %s", kind, L, mtu, n, detail)
				}
				return o
			}})
		}
	}
	return cases
}

// lateAdvanceCases: the connection moves the cursor (AdvanceTo(n)) while fragments of message n itself are
// already buffered (they arrived while the buffer still expected an earlier message): message n of every
// length <= maxL in every composition into fragments, every arrival order, the cursor moved after k = 1..
// all-but-one... all arrivals. The message must surface exactly when its last byte has arrived and the cursor
// is at n, byte-identical, once.
func lateAdvanceCases(maxL int) []run.Case {
	var comps func(l int) [][]int
	comps = func(l int) [][]int {
		if l == 0 {
			return [][]int{nil}
		}
		var out [][]int
		for first := 1; first <= l; first++ {
			for _, rest := range comps(l - first) {
				out = append(out, append([]int{first}, rest...))
			}
		}
		return out
	}
	var cases []run.Case
	for L := 1; L <= maxL; L++ {
		L := L
		cases = append(cases, run.Case{ID: fmt.Sprintf("advlate/L%d", L), Run: func(t *testing.T) run.Outcome {
			o := run.Outcome{Class: "late-advance", Counters: map[string]int{}}
			body := make([]byte, L)
			for i := range body {
				body[i] = byte(0x40 + i)
			}
			const n = 3
			m := Msg{Seq: n, Typ: 11, Body: body}
			stale := Msg{Seq: n - 1, Typ: 1, Body: []byte{0xEE, 0xEF}}
			for _, c := range comps(L) {
				type fr struct{ off, l int }
				var frs []fr
				off := 0
				for _, l := range c {
					frs = append(frs, fr{off, l})
					off += l
				}
				ords, _ := permutations(len(frs), 720)
				for _, ord := range ords {
					for k := 1; k <= len(frs); k++ {
						o.Evals++
						fb := fragmentbuffer.New()
						seq := uint64(0)
						push := func(raw []byte) error { seq++; _, _, err := fb.Push(EncodeRecord(0, seq, raw)); return err }
						fail := func(key, f string, a ...any) run.Outcome {
							o.Key, o.Violation = key, fmt.Sprintf("advlate L=%d fragments=%v order=%v cursor moved to %d after %d arrival(s): ", L, c, ord, n, k)+fmt.Sprintf(f, a...)
							return o
						}
						if err := push(EncodeFragment(stale, 0, 1)); err != nil {
							return fail("push-error", "prelude: %v", err)
						}
						got := 0
						for i, idx := range ord {
							if err := push(EncodeFragment(m, frs[idx].off, frs[idx].l)); err != nil {
								return fail("push-error", "fragment [%d,%d): %v", frs[idx].off, frs[idx].off+frs[idx].l, err)
							}
							if i+1 == k {
								fb.AdvanceTo(n)
							}
							complete := i+1 == len(ord)
							for out, _ := fb.Pop(); out != nil; out, _ = fb.Pop() {
								got++
								switch {
								case i+1 < k:
									return fail("surfaced-before-cursor", "a message surfaced while the cursor was still before it")
								case !complete:
									return fail("surfaced-before-complete", "the message surfaced after %d of %d fragments", i+1, len(ord))
								case !bytes.Equal(out, EncodeWhole(m)):
									return fail("reassembled-differs", "the surfaced message differs from the one sent")
								}
							}
						}
						if got != 1 {
							return fail("advance-to-dropped-buffered-fragments", "%d message(s) surfaced, want 1: every byte of message %d arrived exactly once", got, n)
						}
					}
				}
			}
			o.NonTrivial = o.Evals > 0
			return o
		}})
	}
	return cases
}

// permutations returns every permutation of 0..n-1 when n! <= cap, else identity, reverse and all single moves.
func permutations(n, cap int) ([][]int, bool) {
	id := make([]int, n)
	for i := range id {
		id[i] = i
	}
	f := 1
	for i := 2; i <= n; i++ {
		f *= i
		if f > cap {
			break
		}
	}
	if f <= cap {
		var out [][]int
		var rec func(cur []int, used []bool)
		rec = func(cur []int, used []bool) {
			if len(cur) == n {
				out = append(out, append([]int(nil), cur...))
				return
			}
			for i := 0; i < n; i++ {
				if !used[i] {
					used[i] = true
					rec(append(cur, i), used)
					used[i] = false
				}
			}
		}
		rec(nil, make([]bool, n))
		return out, true
	}
	out := [][]int{id}
	rev := make([]int, n)
	for i := range rev {
		rev[i] = n - 1 - i
	}
	out = append(out, rev)
	for i := 0; i+1 < n; i++ {
		p := append([]int(nil), id...)
		p[i], p[i+1] = p[i+1], p[i]
		out = append(out, p)
	}
	return out, false
}

func txCases(b bounds) []run.Case {
	var cases []run.Case
	for L := 0; L <= b.TxMaxLen; L++ {
		L := L
		cases = append(cases, run.Case{ID: fmt.Sprintf("tx/L%d", L), Run: func(t *testing.T) (o run.Outcome) {
			o.Class = "held"
			o.Counters = map[string]int{}
			mtuNow := 0
			defer func() {
				if r := recover(); r != nil {
					o.Violation = fmt.Sprintf("panic: family=tx len=%d mtu=%d: %v", L, mtuNow, r)
					o.Key, o.Class = "panic/tx", "VIOLATION:panic"
				}
			}()
			for mtu := 1; mtu <= b.TxMaxMTU; mtu++ {
				mtuNow = mtu
				o.Evals++
				kind, detail, n := txOne(L, mtu)
				if n >= 2 || L == 0 {
					o.Distinct++
				}
				o.Counters["tx_fragments_emitted"] += n
				if kind != "" && o.Violation == "" {
					shapeTag := "multi-fragment"
					if n < 2 {
						shapeTag = "single-fragment"
					}
					o.Violation = fmt.Sprintf("%s: family=tx len=%d mtu=%d fragments=%d: %s", kind, L, mtu, n, detail)
					o.Key, o.Class = kind+"/"+shapeTag, "VIOLATION:"+kind
				}
			}
			o.NonTrivial = o.Distinct > 0
			o.Counters["sender_cases:tx"] += o.Evals
			o.Sample = map[string]any{"family": "tx", "len": L, "mtus": fmt.Sprintf("1..%d", b.TxMaxMTU)}
			return o
		}})
	}
	return cases
}

// ---------------------------------------------------------------------------------------------

func allCases(b bounds) []run.Case {
	var cases []run.Case
	cases = append(cases, txCases(b)...)
	cases = append(cases, strayCases(b.LH, b.CapH)...)
	cases = append(cases, longCases()...)
	cases = append(cases, bigCases()...)
	cases = append(cases, lateAdvanceCases(b.LA+2)...)
	cases = append(cases, oneMsgCases("rx1", 0, []string{modeEach}, b.L1, b.Cap1)...)
	cases = append(cases, oneMsgCases("rx1", 0, []string{modePair, modeAll}, b.L1, b.Cap1p)...)
	cases = append(cases, twoMsgCases("rx2", 0, []string{modeEach}, b.L2, b.Cap2)...)
	cases = append(cases, twoMsgCases("rx2", 0, []string{modePair, modeAll}, b.L2, b.Cap2p)...)
	cases = append(cases, oneMsgCases("rx1adv", 3, []string{modeEach}, b.LA, b.CapA)...)
	cases = append(cases, twoMsgCases("rx2adv", 3, []string{modeEach}, b.LA2, b.CapA2)...)
	// Deterministic order: most expensive first (ties by ID) so that round-robin sharding is balanced.
	sort.SliceStable(cases, func(i, j int) bool {
		ci, cj := caseCost[cases[i].ID], caseCost[cases[j].ID]
		if ci != cj {
			return ci > cj
		}
		return cases[i].ID < cases[j].ID
	})
	return cases
}

func TestC12(t *testing.T) {
	debug.SetGCPercent(800) // the buffers are tiny and short-lived; spend the time on cases, not on GC cycles
	env := run.GetEnv()
	b := getBounds(env.Thorough())
	cases := allCases(b)
	seen := map[string]bool{}
	for _, c := range cases {
		if seen[c.ID] {
			t.Fatalf("duplicate case id %s", c.ID)
		}
		seen[c.ID] = true
	}
	run.KeepGC = true
	run.Main(t, "C12", cases, map[string]any{
		"rule":                       Rule,
		"sender":                     fmt.Sprintf("body length 0..%d x MTU 1..%d", b.TxMaxLen, b.TxMaxMTU),
		"rx1_one_message":            fmt.Sprintf("len<=%d, every composition, zero-length fragments at every boundary, every dup subset, every permutation; one fragment per record: %v; packed (pair, all): %v", b.L1, b.Cap1, b.Cap1p),
		"rx2_two_messages":           fmt.Sprintf("each len<=%d, every pair of compositions, every dup subset, every interleaving; one per record: %v; packed: %v", b.L2, b.Cap2, b.Cap2p),
		"after_AdvanceTo_3":          fmt.Sprintf("one message len<=%d %v; two messages len<=%d %v", b.LA, b.CapA, b.LA2, b.CapA2),
		"stray_zero_length_offsets":  fmt.Sprintf("len<=%d + zero-length fragments at offsets len+1, len+2; arrivals<=%d (safety and no-panic only)", b.LH, b.CapH),
		"retransmission_after_every": "each fragment alone, then all fragments in one record",
	})
}

// TestC12Keying pins the cause keys to their input shapes on the smallest inputs: the keys F1 / F10 may
// only appear on these shapes, and an execution without the cause never gets them. It passes whether or
// not the defects are present in the tree (a fixed tree yields no violation at all).
func TestC12Keying(t *testing.T) {
	type tc struct {
		name  string
		sh    shape
		order []int
		allow string // the only key this input may produce
	}
	one := func(family string, L int, frs []Frag, strict bool) shape {
		return shape{family: family, lens: []int{L}, frs: frs, strict: strict, mode: modeEach}
	}
	cases := []tc{
		{"F1 minimal: empty message, only fragment has offset 1", one("rxstray", 0, []Frag{{0, 0, 0}, {0, 1, 0}}, false), []int{1, 0}, KeyF1},
		{"empty message, valid fragment first, stray later", one("rxstray", 0, []Frag{{0, 0, 0}, {0, 1, 0}}, false), []int{0, 1}, ""},
		{"F10 minimal (offset 0): [0,0) before [0,1)", one("rx1", 1, []Frag{{0, 0, 0}, {0, 0, 1}}, true), []int{0, 1}, KeyF10},
		{"F10 minimal (interior): [0,1) [1,1) [1,2)", one("rx1", 2, []Frag{{0, 0, 1}, {0, 1, 0}, {0, 1, 1}}, true), []int{0, 1, 2}, KeyF10},
		{"no cause: zero-length fragment after the real one", one("rx1", 2, []Frag{{0, 0, 1}, {0, 1, 0}, {0, 1, 1}}, true), []int{0, 2, 1}, ""},
		{"no cause: zero-length fragment at the end offset first", one("rx1", 2, []Frag{{0, 0, 2}, {0, 2, 0}}, true), []int{1, 0}, ""},
	}
	for _, c := range cases {
		sh := c.sh
		x := newExec(&sh, newAcc())
		v := x.runOrder(c.order)
		switch {
		case v == nil:
			t.Logf("%s: held", c.name)
		case v.key == c.allow && c.allow != "":
			t.Logf("%s: known defect reproduced, key=%s: %s", c.name, v.key, v.text())
		default:
			t.Errorf("%s: unexpected violation key=%q: %s", c.name, v.key, v.text())
		}
	}
}
