//go:build verif

package c12

import (
	"bytes"
	"fmt"
	"sort"
	"strings"
	"testing"

	dtls "github.com/pion/dtls/v3"
	"github.com/pion/dtls/v3/internal/fragmentbuffer"
	"github.com/pion/dtls/v3/pkg/protocol/handshake"
	"github.com/pion/dtls/v3/zzverif/run"
)

// C12 — fragmentation and reassembly reproduce every handshake message exactly once (E3 part).
//
// SENDER  (family tx):   every body length 0..64 x every MTU 1..66 through the real fragmentHandshake.
// RECEIVER (rx1/rx2/...): the real FragmentBuffer against the byte-coverage reference model of model.go
// for every composition of every small message length, zero-length fragments at every boundary,
// duplicated fragments, EVERY arrival permutation, three ways of packing arrivals into records, one
// message or two interleaved messages, followed by a retransmission of every fragment.
//
// Known defects rediscovered here get the keys KeyF1 / KeyF10; the key is computed from the input
// shape (f1Cause / f10Cause), never from the symptom alone.

const (
	KeyF1  = "F1-pop-nil-deref"
	KeyF10 = "F10-zero-length-fragment-shadows-offset"
)

// Packing of consecutive arrivals into records (one Push per record).
const (
	modeEach = "each" // one fragment per record
	modePair = "pair" // arrivals 2i, 2i+1 share a record
	modeAll  = "all"  // every arrival in a single record
)

// ---------------------------------------------------------------------------------------------
// One shape = messages + the set of distinct fragments that may arrive.

type shape struct {
	family string
	base   uint16
	lens   []int
	frs    []Frag // distinct fragments, sorted by (Msg, Off, Len); an arrival is an index into frs
	strict bool   // liveness asserted (false for the stray-fragment family, which is outside "partition")
	mode   string
}

type viol struct {
	kind, key, text string
}

type execCtx struct {
	sh      *shape
	msgs    []Msg
	want    [][]byte
	fragEnc [][]byte // encoded handshake fragment per item
	recEnc  [][]byte // single-fragment record per item
	model   *Model
	recSeq  uint64

	evals, distinct, pushes, pops int
	counters                      map[string]int
	viols                         map[string]*viol
	violOrder                     []string
	sample                        any
}

func newExec(sh *shape) *execCtx {
	x := &execCtx{sh: sh, model: NewModel(sh.lens), counters: map[string]int{}, viols: map[string]*viol{}}
	for i, l := range sh.lens {
		m := NewMsg(sh.base, i, l)
		x.msgs = append(x.msgs, m)
		x.want = append(x.want, EncodeWhole(m))
	}
	for i, f := range sh.frs {
		x.fragEnc = append(x.fragEnc, EncodeFragment(x.msgs[f.Msg], f.Off, f.Len))
		x.recEnc = append(x.recEnc, EncodeRecord(x.msgs[f.Msg].Epoch, uint64(i), x.fragEnc[i]))
	}
	return x
}

func (x *execCtx) render(order []int) string {
	s := make([]string, len(order))
	for i, it := range order {
		s[i] = x.sh.frs[it].String()
	}
	return strings.Join(s, " ")
}

func (x *execCtx) tags(order []int) string {
	var t []string
	if len(x.sh.lens) > 1 {
		t = append(t, "2msg")
	}
	zero, empty, stray, dup, reorder := false, false, false, false, false
	seen := map[int]bool{}
	for i, it := range order {
		f := x.sh.frs[it]
		L := x.sh.lens[f.Msg]
		switch {
		case f.Off > L:
			stray = true
		case L == 0:
			empty = true
		case f.Len == 0:
			zero = true
		}
		if seen[it] {
			dup = true
		}
		seen[it] = true
		if i > 0 && order[i-1] > it {
			reorder = true
		}
	}
	for _, p := range []struct {
		b bool
		s string
	}{{empty, "emptymsg"}, {zero, "zerofrag"}, {stray, "stray"}, {dup, "dup"}, {reorder, "reorder"},
		{x.sh.mode != modeEach, "packed"}, {x.sh.base != 0, "advanced"}} {
		if p.b {
			t = append(t, p.s)
		}
	}
	if len(t) == 0 {
		return "plain"
	}
	return strings.Join(t, ",")
}

// f10Cause: among the first upto arrivals, a zero-length fragment of message msg sits at an offset
// k < len at which a non-empty fragment starts, and it arrived before that fragment.
func (x *execCtx) f10Cause(order []int, upto, msg int) (cause, interior bool) {
	L := x.sh.lens[msg]
	firstZero := map[int]int{}
	firstReal := map[int]int{}
	for i := 0; i < upto && i < len(order); i++ {
		f := x.sh.frs[order[i]]
		if f.Msg != msg || f.Off >= L {
			continue
		}
		m := firstReal
		if f.Len == 0 {
			m = firstZero
		}
		if _, ok := m[f.Off]; !ok {
			m[f.Off] = i
		}
	}
	for k, z := range firstZero {
		if r, ok := firstReal[k]; ok && z < r {
			cause = true
			if k > 0 {
				interior = true
			}
		}
	}
	return cause, interior
}

// f1Cause: the message at the delivery cursor has length 0, fragments of it arrived, none at offset 0.
func (x *execCtx) f1Cause(order []int, upto int) bool {
	cur := x.model.Next
	if cur >= len(x.sh.lens) || x.sh.lens[cur] != 0 {
		return false
	}
	any0, anyOther := false, false
	for i := 0; i < upto && i < len(order); i++ {
		f := x.sh.frs[order[i]]
		if f.Msg != cur {
			continue
		}
		if f.Off == 0 {
			any0 = true
		} else {
			anyOther = true
		}
	}
	return anyOther && !any0
}

func (x *execCtx) mk(kind, key string, order []int, upto int, detail string) *viol {
	if key == "" {
		key = kind + "/" + x.tags(order)
	}
	return &viol{kind: kind, key: key, text: fmt.Sprintf("%s: family=%s base=%d lens=%v packing=%s arrivals=[%s] after %d arrival(s): %s",
		kind, x.sh.family, x.sh.base, x.sh.lens, x.sh.mode, x.render(order), upto, detail)}
}

func short(b []byte) string {
	if len(b) > 40 {
		return fmt.Sprintf("%x...(%dB)", b[:40], len(b))
	}
	return fmt.Sprintf("%x", b)
}

// classifyPop explains an unexpected or wrong Pop result.
func (x *execCtx) classifyPop(out []byte) string {
	p, ok := ParseFragment(out)
	if !ok {
		return "surfaced-garbage"
	}
	idx := int(p.Seq) - int(x.sh.base)
	switch {
	case idx < 0 || idx >= len(x.msgs):
		return "surfaced-unknown-message"
	case idx < x.model.Next:
		return "surfaced-twice"
	case !x.model.Complete(idx):
		return "surfaced-before-complete"
	case idx > x.model.Next:
		return "surfaced-out-of-order"
	}
	return "wrong-content"
}

const staleLen = 2

// runOrder executes one arrival sequence against a fresh FragmentBuffer and the reference model.
func (x *execCtx) runOrder(order []int) (v *viol) {
	upto := 0
	defer func() {
		if r := recover(); r != nil {
			key := ""
			if x.f1Cause(order, upto) {
				key = KeyF1
			}
			v = x.mk("panic", key, order, upto, fmt.Sprintf("panic: %v", r))
		}
	}()
	sh := x.sh
	fb := fragmentbuffer.New()
	x.model.Reset()

	var staleRec []byte
	if sh.base > 0 {
		// A partial earlier message is buffered, then the connection moves the cursor (AdvanceTo).
		stale := Msg{Seq: sh.base - 1, Typ: 1, Body: []byte{0xEE, 0xEF}}
		staleRec = EncodeRecord(0, 99, EncodeFragment(stale, 0, 1))
		if _, _, err := fb.Push(staleRec); err != nil {
			return x.mk("push-error", "", order, 0, "prelude: "+err.Error())
		}
		x.pushes++
		if out, _ := fb.Pop(); out != nil {
			return x.mk("surfaced-before-complete", "", order, 0, "prelude: partial message surfaced "+short(out))
		}
		fb.AdvanceTo(sh.base)
		if size, count, msgs, cur := fb.VerifStats(); size != 0 || count != 0 || msgs != 0 || cur != sh.base {
			return x.mk("advance-to-left-stale-state", "", order, 0,
				fmt.Sprintf("after AdvanceTo(%d): size=%d count=%d messages=%d cursor=%d", sh.base, size, count, msgs, cur))
		}
	}

	for i := 0; i < len(order); {
		j := i + 1
		switch sh.mode {
		case modePair:
			j = i + 2
		case modeAll:
			j = len(order)
		}
		if j > len(order) {
			j = len(order)
		}
		group := order[i:j]
		var rec []byte
		if len(group) == 1 {
			rec = x.recEnc[group[0]]
		} else {
			var payload []byte
			for _, it := range group {
				payload = append(payload, x.fragEnc[it]...)
			}
			x.recSeq++
			rec = EncodeRecord(x.msgs[sh.frs[group[0]].Msg].Epoch, 1000+x.recSeq, payload)
		}
		wantRetx := false
		for _, it := range group {
			if x.model.Arrive(sh.frs[it]) {
				wantRetx = true
			}
		}
		upto = j
		isHS, isRetx, err := fb.Push(rec)
		x.pushes++
		switch {
		case err != nil:
			return x.mk("push-error", "", order, upto, err.Error())
		case !isHS:
			return x.mk("push-not-handshake", "", order, upto, "Push reported isHandshake=false for a handshake record")
		case wantRetx && !isRetx:
			return x.mk("retransmit-flag-missing", "", order, upto, "record carries a fragment of an already delivered message but isRetransmit=false")
		case !wantRetx && isRetx:
			return x.mk("retransmit-flag-on-new-data", "", order, upto, "isRetransmit=true but no fragment of the record belongs to a delivered message")
		}
		// Pop until nil, comparing with the reference.
		for {
			out, epoch := fb.Pop()
			x.pops++
			if out == nil {
				if x.model.Deliverable() {
					if !sh.strict {
						x.counters["stray_family_late_delivery"]++
						break
					}
					key := ""
					if cause, interior := x.f10Cause(order, upto, x.model.Next); cause {
						key = KeyF10
						if interior {
							x.counters["F10_interior_offset"]++
						} else {
							x.counters["F10_offset0_only"]++
						}
					}
					return x.mk("complete-message-not-surfaced", key, order, upto,
						fmt.Sprintf("reference has full byte coverage of message_seq %d (and all earlier ones are delivered) but Pop returned nil", x.msgs[x.model.Next].Seq))
				}
				break
			}
			if !x.model.Deliverable() || !bytes.Equal(out, x.want[x.model.Next]) {
				kind := x.classifyPop(out)
				wantS := "nothing"
				if x.model.Deliverable() {
					wantS = short(x.want[x.model.Next])
				}
				return x.mk(kind, "", order, upto, fmt.Sprintf("Pop returned %s, reference expects %s", short(out), wantS))
			}
			if epoch != x.msgs[x.model.Next].Epoch {
				return x.mk("wrong-epoch", "", order, upto, fmt.Sprintf("Pop epoch %d, fragments arrived in epoch %d", epoch, x.msgs[x.model.Next].Epoch))
			}
			x.model.Next++
		}
		i = j
	}

	if x.model.Next != len(x.msgs) {
		if sh.strict {
			return x.mk("harness-bug-not-all-delivered", "", order, upto, "model did not deliver every message")
		}
		return nil
	}
	upto = len(order)
	// Everything is delivered: nothing may remain buffered, the cursor is past the last message.
	wantCur := sh.base + uint16(len(x.msgs))
	if size, count, msgs, cur := fb.VerifStats(); size != 0 || count != 0 || msgs != 0 || cur != wantCur {
		return x.mk("buffer-not-empty-after-all-delivered", "", order, upto,
			fmt.Sprintf("size=%d count=%d messages=%d cursor=%d (want 0 0 0 %d)", size, count, msgs, cur, wantCur))
	}
	// Retransmission of every fragment of the delivered messages: one by one, then all in one record.
	var all []byte
	recs := make([][]byte, 0, len(sh.frs)+2)
	for it := range sh.frs {
		recs = append(recs, x.recEnc[it])
		all = append(all, x.fragEnc[it]...)
	}
	recs = append(recs, EncodeRecord(0, 5000, all))
	if staleRec != nil {
		recs = append(recs, staleRec)
	}
	for ri, rec := range recs {
		isHS, isRetx, err := fb.Push(rec)
		x.pushes++
		if err != nil || !isHS || !isRetx {
			return x.mk("retransmit-flag-missing", "", order, upto,
				fmt.Sprintf("retransmission #%d of a delivered message: isHandshake=%v isRetransmit=%v err=%v", ri, isHS, isRetx, err))
		}
		out, _ := fb.Pop()
		x.pops++
		if out != nil {
			return x.mk("retransmission-surfaced-message", "", order, upto, fmt.Sprintf("retransmission #%d: Pop returned %s", ri, short(out)))
		}
	}
	if size, count, msgs, cur := fb.VerifStats(); size != 0 || count != 0 || msgs != 0 || cur != wantCur {
		return x.mk("retransmission-buffered-as-new-data", "", order, upto,
			fmt.Sprintf("after retransmissions: size=%d count=%d messages=%d cursor=%d (want 0 0 0 %d)", size, count, msgs, cur, wantCur))
	}
	return nil
}

func (x *execCtx) record(v *viol) {
	x.counters["viol:"+v.key]++
	if _, ok := x.viols[v.key]; !ok {
		x.viols[v.key] = v
		x.violOrder = append(x.violOrder, v.key)
	}
}

// allOrders runs every distinct permutation of the multiset mult over the items of the shape.
func (x *execCtx) allOrders(mult []int) {
	var order []int
	for it, m := range mult {
		for c := 0; c < m; c++ {
			order = append(order, it)
		}
	}
	n := len(order)
	// Packings that coincide with another packing for this many arrivals are not run twice.
	if (x.sh.mode != modeEach && n < 2) || (x.sh.mode == modePair && n <= 2) {
		return
	}
	for {
		x.evals++
		if n >= 2 {
			x.distinct++
		}
		if v := x.runOrder(order); v != nil {
			x.record(v)
		}
		if x.sample == nil && n >= 2 {
			x.sample = map[string]any{"family": x.sh.family, "lens": x.sh.lens, "packing": x.sh.mode, "arrivals": x.render(order)}
		}
		if !NextPermutation(order) {
			break
		}
	}
}

// allDupsAndOrders: every subset of the distinct fragments duplicated once (arrivals <= cap), every order.
func (x *execCtx) allDupsAndOrders(cap int) {
	n := len(x.sh.frs)
	for d := 0; d <= n && n+d <= cap; d++ {
		for _, mask := range Subsets(n, d) {
			mult := make([]int, n)
			for i := range mult {
				mult[i] = 1
				if mask&(1<<i) != 0 {
					mult[i] = 2
				}
			}
			x.allOrders(mult)
		}
	}
}

func (x *execCtx) outcome() run.Outcome {
	o := run.Outcome{Class: "held", Evals: x.evals, Distinct: x.distinct, NonTrivial: x.distinct > 0, Sample: x.sample,
		Counters: x.counters}
	if x.evals == 0 {
		o.Skip = true
		return o
	}
	x.counters["pushes"] += x.pushes
	x.counters["pops"] += x.pops
	x.counters["arrival_sequences:"+x.sh.family] += x.evals
	if len(x.viols) > 0 {
		// A case reports one violation: unknown causes take precedence over the known F1/F10.
		pick := ""
		for _, k := range x.violOrder {
			if k != KeyF1 && k != KeyF10 {
				pick = k
				break
			}
		}
		if pick == "" {
			pick = x.violOrder[0]
		}
		v := x.viols[pick]
		o.Violation, o.Key, o.Class = v.text, v.key, "VIOLATION:"+v.kind
		if len(x.viols) > 1 {
			keys := append([]string(nil), x.violOrder...)
			sort.Strings(keys)
			o.Violation += " [all keys in this case: " + strings.Join(keys, " ") + "]"
		}
	}
	return o
}

// ---------------------------------------------------------------------------------------------
// Shapes

func sortFrags(frs []Frag) {
	sort.Slice(frs, func(i, j int) bool {
		a, b := frs[i], frs[j]
		if a.Msg != b.Msg {
			return a.Msg < b.Msg
		}
		if a.Off != b.Off {
			return a.Off < b.Off
		}
		return a.Len < b.Len
	})
}

// zeroChoices: every set of at most zmax boundary positions (index into bounds) as bitmasks.
func zeroChoices(npos, zmax int) []int {
	var out []int
	for z := 0; z <= zmax && z <= npos; z++ {
		out = append(out, Subsets(npos, z)...)
	}
	return out
}

func zString(mask, npos int) string {
	if npos == 0 {
		return "-"
	}
	b := make([]byte, npos)
	for i := range b {
		b[i] = '0'
		if mask&(1<<i) != 0 {
			b[i] = '1'
		}
	}
	return string(b)
}

func withZeros(msg int, c []int, zmask int) []Frag {
	frs, bounds := RealFrags(msg, c)
	for p, off := range bounds {
		if zmask&(1<<p) != 0 {
			frs = append(frs, Frag{msg, off, 0})
		}
	}
	return frs
}

type bounds struct {
	L1, Z1, Cap1       int // one message: max length, max zero-length fragments, max arrivals
	L1p, Cap1p         int // one message, packed records (pair / all)
	L2, Z2, Cap2       int // two messages: max length of each, zero-length fragments overall, max arrivals
	L2p, Cap2p         int
	LA, ZA, CapA       int // after AdvanceTo (base 3), one message
	LA2, CapA2         int // after AdvanceTo, two messages
	LH, CapH           int // stray zero-length fragments beyond the message end
	TxMaxLen, TxMaxMTU int
}

func getBounds(thorough bool) bounds {
	if thorough {
		return bounds{L1: 7, Z1: 2, Cap1: 9, L1p: 6, Cap1p: 8, L2: 4, Z2: 1, Cap2: 8, L2p: 3, Cap2p: 8,
			LA: 5, ZA: 1, CapA: 7, LA2: 3, CapA2: 7, LH: 3, CapH: 7, TxMaxLen: 64, TxMaxMTU: 66}
	}
	return bounds{L1: 6, Z1: 2, Cap1: 8, L1p: 5, Cap1p: 7, L2: 3, Z2: 1, Cap2: 7, L2p: 3, Cap2p: 6,
		LA: 4, ZA: 1, CapA: 6, LA2: 2, CapA2: 6, LH: 2, CapH: 5, TxMaxLen: 64, TxMaxMTU: 66}
}

func rxCase(id string, sh shape, cap int) run.Case {
	return run.Case{ID: id, Run: func(t *testing.T) run.Outcome {
		sh := sh
		x := newExec(&sh)
		x.allDupsAndOrders(cap)
		return x.outcome()
	}}
}

// oneMsgCases: family/packing/L/composition/zero-positions; inside: dup subsets x permutations.
func oneMsgCases(family string, base uint16, modes []string, maxL, zmax, cap int) []run.Case {
	var cases []run.Case
	for _, mode := range modes {
		for L := 0; L <= maxL; L++ {
			for _, c := range Compositions(L) {
				npos := 0
				if L > 0 {
					npos = len(c) + 1
				}
				for _, zm := range zeroChoices(npos, zmax) {
					frs := withZeros(0, c, zm)
					if len(frs) > cap {
						continue
					}
					sortFrags(frs)
					id := fmt.Sprintf("%s/%s/L%d/c=%s/z=%s", family, mode, L, CompString(c), zString(zm, npos))
					cases = append(cases, rxCase(id, shape{family: family, base: base, lens: []int{L}, frs: frs, strict: true, mode: mode}, cap))
				}
			}
		}
	}
	return cases
}

// twoMsgCases: two interleaved messages (message_seq base, base+1).
func twoMsgCases(family string, base uint16, modes []string, maxL, zmax, cap int) []run.Case {
	var cases []run.Case
	for _, mode := range modes {
		for LA := 0; LA <= maxL; LA++ {
			for LB := 0; LB <= maxL; LB++ {
				for _, ca := range Compositions(LA) {
					for _, cb := range Compositions(LB) {
						na, nb := 0, 0
						if LA > 0 {
							na = len(ca) + 1
						}
						if LB > 0 {
							nb = len(cb) + 1
						}
						for _, zm := range zeroChoices(na+nb, zmax) {
							frs := append(withZeros(0, ca, zm&(1<<na-1)), withZeros(1, cb, zm>>na)...)
							if len(frs) > cap {
								continue
							}
							sortFrags(frs)
							id := fmt.Sprintf("%s/%s/LA%d/ca=%s/LB%d/cb=%s/z=%s", family, mode, LA, CompString(ca), LB, CompString(cb), zString(zm, na+nb))
							cases = append(cases, rxCase(id, shape{family: family, base: base, lens: []int{LA, LB}, frs: frs, strict: true, mode: mode}, cap))
						}
					}
				}
			}
		}
	}
	return cases
}

// strayCases: a valid partition plus zero-length fragments whose offset lies beyond the message end.
// These are not partitions, so only safety and "no panic" are asserted (strict=false).
func strayCases(maxL, cap int) []run.Case {
	var cases []run.Case
	for L := 0; L <= maxL; L++ {
		for _, c := range Compositions(L) {
			for smask := 1; smask < 4; smask++ {
				frs, _ := RealFrags(0, c)
				for b := 0; b < 2; b++ {
					if smask&(1<<b) != 0 {
						frs = append(frs, Frag{0, L + 1 + b, 0})
					}
				}
				if len(frs) > cap {
					continue
				}
				sortFrags(frs)
				id := fmt.Sprintf("rxstray/each/L%d/c=%s/s=%s", L, CompString(c), zString(smask, 2))
				cases = append(cases, rxCase(id, shape{family: "rxstray", lens: []int{L}, frs: frs, strict: false, mode: modeEach}, cap))
			}
		}
	}
	return cases
}

// ---------------------------------------------------------------------------------------------
// Sender

type rawMessage struct {
	typ  handshake.Type
	body []byte
}

func (m *rawMessage) Marshal() ([]byte, error)    { return append([]byte(nil), m.body...), nil }
func (m *rawMessage) Unmarshal(data []byte) error { m.body = append([]byte(nil), data...); return nil }
func (m *rawMessage) Type() handshake.Type        { return m.typ }

func txOne(L, mtu int) (violKind, detail string, nfrag int) {
	const seq = 7
	msg := NewMsg(seq, 0, L)
	h := &handshake.Handshake{Header: handshake.Header{MessageSequence: seq}, Message: &rawMessage{typ: handshake.Type(msg.Typ), body: msg.Body}}
	// Production fills Header.Type/Length by marshalling the handshake before it is fragmented.
	if _, err := h.Marshal(); err != nil {
		return "tx-marshal-error", err.Error(), 0
	}
	frags, err := dtls.VerifFragmentHandshake(mtu, h)
	if err != nil {
		return "tx-fragment-error", err.Error(), 0
	}
	if len(frags) == 0 {
		return "tx-no-fragment", "no fragment produced", 0
	}
	if L == 0 && (len(frags) != 1 || len(frags[0]) != 12) {
		return "tx-empty-message-not-one-empty-fragment", fmt.Sprintf("%d fragments, first %dB", len(frags), len(frags[0])), len(frags)
	}
	off := 0
	var body []byte
	for i, raw := range frags {
		p, ok := ParseFragment(raw)
		if !ok {
			return "tx-short-fragment", fmt.Sprintf("fragment %d is %dB", i, len(raw)), len(frags)
		}
		switch {
		case len(p.Body) > mtu:
			return "tx-fragment-body-exceeds-mtu", fmt.Sprintf("fragment %d carries %d body bytes", i, len(p.Body)), len(frags)
		case p.FragLen != len(p.Body):
			return "tx-fragment-length-field", fmt.Sprintf("fragment %d: fragment_length=%d, %d body bytes", i, p.FragLen, len(p.Body)), len(frags)
		case p.Off != off:
			return "tx-fragment-offset-field", fmt.Sprintf("fragment %d: fragment_offset=%d, want %d", i, p.Off, off), len(frags)
		case p.Typ != msg.Typ || p.Length != L || p.Seq != seq:
			return "tx-header-inconsistent", fmt.Sprintf("fragment %d: type=%d length=%d seq=%d, want %d %d %d", i, p.Typ, p.Length, p.Seq, msg.Typ, L, seq), len(frags)
		}
		off += len(p.Body)
		body = append(body, p.Body...)
	}
	if !bytes.Equal(body, msg.Body) {
		return "tx-bodies-do-not-partition-message", fmt.Sprintf("concatenation %s", short(body)), len(frags)
	}
	// Round trip through the real receiver, in emission order and reversed.
	want := EncodeWhole(Msg{Seq: seq, Typ: msg.Typ, Body: msg.Body})
	for _, rev := range []bool{false, true} {
		fb := fragmentbuffer.New()
		fb.AdvanceTo(seq)
		var got [][]byte
		for i := range frags {
			raw := frags[i]
			if rev {
				raw = frags[len(frags)-1-i]
			}
			if _, _, err := fb.Push(EncodeRecord(0, uint64(i), raw)); err != nil {
				return "tx-roundtrip-push-error", err.Error(), len(frags)
			}
			for out, _ := fb.Pop(); out != nil; out, _ = fb.Pop() {
				got = append(got, out)
				if i != len(frags)-1 {
					return "tx-roundtrip-surfaced-before-complete", fmt.Sprintf("after %d of %d fragments (reversed=%v)", i+1, len(frags), rev), len(frags)
				}
			}
		}
		if len(got) != 1 || !bytes.Equal(got[0], want) {
			return "tx-roundtrip-mismatch", fmt.Sprintf("reversed=%v: got %d message(s)", rev, len(got)), len(frags)
		}
	}
	return "", "", len(frags)
}

func txCases(b bounds) []run.Case {
	var cases []run.Case
	for L := 0; L <= b.TxMaxLen; L++ {
		L := L
		cases = append(cases, run.Case{ID: fmt.Sprintf("tx/L%d", L), Run: func(t *testing.T) (o run.Outcome) {
			o.Class = "held"
			o.Counters = map[string]int{}
			mtuNow := 0
			defer func() {
				if r := recover(); r != nil {
					o.Violation = fmt.Sprintf("panic: family=tx len=%d mtu=%d: %v", L, mtuNow, r)
					o.Key, o.Class = "panic/tx", "VIOLATION:panic"
				}
			}()
			for mtu := 1; mtu <= b.TxMaxMTU; mtu++ {
				mtuNow = mtu
				o.Evals++
				kind, detail, n := txOne(L, mtu)
				if n >= 2 || L == 0 {
					o.Distinct++
				}
				o.Counters["tx_fragments_emitted"] += n
				if kind != "" && o.Violation == "" {
					shapeTag := "multi-fragment"
					if n < 2 {
						shapeTag = "single-fragment"
					}
					o.Violation = fmt.Sprintf("%s: family=tx len=%d mtu=%d fragments=%d: %s", kind, L, mtu, n, detail)
					o.Key, o.Class = kind+"/"+shapeTag, "VIOLATION:"+kind
				}
			}
			o.NonTrivial = o.Distinct > 0
			o.Counters["sender_cases:tx"] += o.Evals
			o.Sample = map[string]any{"family": "tx", "len": L, "mtus": fmt.Sprintf("1..%d", b.TxMaxMTU)}
			return o
		}})
	}
	return cases
}

// ---------------------------------------------------------------------------------------------

func allCases(b bounds) []run.Case {
	var cases []run.Case
	cases = append(cases, txCases(b)...)
	cases = append(cases, strayCases(b.LH, b.CapH)...)
	cases = append(cases, oneMsgCases("rx1", 0, []string{modeEach}, b.L1, b.Z1, b.Cap1)...)
	cases = append(cases, oneMsgCases("rx1", 0, []string{modePair, modeAll}, b.L1p, b.Z1, b.Cap1p)...)
	cases = append(cases, twoMsgCases("rx2", 0, []string{modeEach}, b.L2, b.Z2, b.Cap2)...)
	cases = append(cases, twoMsgCases("rx2", 0, []string{modePair, modeAll}, b.L2p, b.Z2, b.Cap2p)...)
	cases = append(cases, oneMsgCases("rx1adv", 3, []string{modeEach}, b.LA, b.ZA, b.CapA)...)
	cases = append(cases, twoMsgCases("rx2adv", 3, []string{modeEach}, b.LA2, b.ZA, b.CapA2)...)
	return cases
}

func TestC12(t *testing.T) {
	env := run.GetEnv()
	b := getBounds(env.Thorough())
	cases := allCases(b)
	seen := map[string]bool{}
	for _, c := range cases {
		if seen[c.ID] {
			t.Fatalf("duplicate case id %s", c.ID)
		}
		seen[c.ID] = true
	}
	run.Main(t, "C12", cases, map[string]any{
		"sender":                     fmt.Sprintf("body length 0..%d x MTU 1..%d", b.TxMaxLen, b.TxMaxMTU),
		"rx1_one_message":            fmt.Sprintf("len<=%d, every composition, <=%d zero-length fragments at boundaries, every dup subset, arrivals<=%d, every permutation; packed records: len<=%d arrivals<=%d", b.L1, b.Z1, b.Cap1, b.L1p, b.Cap1p),
		"rx2_two_messages":           fmt.Sprintf("each len<=%d, every pair of compositions, <=%d zero-length fragment, every dup subset, arrivals<=%d, every interleaving; packed: len<=%d arrivals<=%d", b.L2, b.Z2, b.Cap2, b.L2p, b.Cap2p),
		"after_AdvanceTo_3":          fmt.Sprintf("one message len<=%d arrivals<=%d; two messages len<=%d arrivals<=%d", b.LA, b.CapA, b.LA2, b.CapA2),
		"stray_zero_length_offsets":  fmt.Sprintf("len<=%d + zero-length fragments at offsets len+1, len+2; arrivals<=%d (safety and no-panic only)", b.LH, b.CapH),
		"retransmission_after_every": "each fragment alone, then all fragments in one record",
	})
}
