//go:build verif

package c15

import (
	"bytes"
	"encoding/binary"
	"fmt"
	"net"
	"reflect"
	"sync/atomic"
	"testing"
	"unsafe"

	dtls "github.com/pion/dtls/v3"
	"github.com/pion/dtls/v3/internal/net/udp"
	"github.com/pion/dtls/v3/zzverif/run"
)

// Part R — listener routing (pure, no sockets, no bubble).
//
// The code under test is reached without modifying the library: connection_id.go's cidDatagramRouter /
// cidConnIdentifier are unexported functions of package dtls and udp.(*listener).getConn is an unexported
// method; they are bound with //go:linkname. The listener has no socket-less constructor (Listen always
// opens a *net.UDPConn), so a zero listener value is allocated through reflection (its type is reachable
// from the exported udp.PacketConn's `listener` field) and the fields getConn / PacketConn.WriteTo use are
// filled in exactly as ListenConfig.Listen does, with pConn a zero net.UDPConn (a write on it returns EINVAL
// after the identifier bookkeeping, which is all that is exercised here). The accept filter of
// dtls.listenWithConfig is a closure that cannot be reached; the probes use none.
//
// One case = (CID size, listener state, datagram of the catalogue); it is probed from every source address
// (the three connections' own addresses and a fourth, unknown one), each probe on a freshly built listener.
//
//   CID size   {0 (OnlySend listener), 1, 4, 8}
//   state      S0 three connections accepted, no ServerHello written yet (no CID known);
//              S1 every connection has written its ServerHello (CID extension) to its client;
//              S2 as S1, and connection 1 has since written to another address (its address entry is freed)
//   datagram   legacy records of content types 20..27 (type 25 with each connection's CID and an unknown
//              one), two-record datagrams (CID record first / second / after an epoch-0 handshake record),
//              all 32 unified-header flag combinations (C bit with each CID / unknown), two-record unified
//              datagrams (CID on both / on the first only, RFC 9147 §4), every proper prefix (truncation) of a tls12_cid datagram, of a unified datagram
//              with and without the L bit, and the empty datagram.
//
// Reference (RFC 9146 §6, RFC 9147 §4; written here, not derived from the code): walk the datagram record by
// record; if it is well formed and a record carries a CID that a connection has announced, the datagram
// belongs to that connection whatever its source address; otherwise (no CID record, unknown CID, or short /
// malformed datagram) it is routed by source address: to the connection accepted from that address while
// that entry exists, else to a new connection. For malformed datagrams the reference additionally tolerates
// routing by a CID found at the CID position of the first record header.

//go:linkname cidDatagramRouter github.com/pion/dtls/v3.cidDatagramRouter
func cidDatagramRouter(size int) func([]byte) (string, bool)

//go:linkname cidConnIdentifier github.com/pion/dtls/v3.cidConnIdentifier
func cidConnIdentifier() func([]byte) (string, bool)

//go:linkname udpGetConn github.com/pion/dtls/v3/internal/net/udp.(*listener).getConn
func udpGetConn(l unsafe.Pointer, raddr net.Addr, buf []byte) (*udp.PacketConn, bool, error)

var _ = dtls.RandomCIDGenerator // keeps package dtls linked in

type rAddr string

func (a rAddr) Network() string { return "udp" }
func (a rAddr) String() string  { return string(a) }

// fakeListener is a socket-less udp.listener.
type fakeListener struct {
	v reflect.Value // *listener
}

func listenerType() reflect.Type {
	f, ok := reflect.TypeOf(udp.PacketConn{}).FieldByName("listener")
	if !ok {
		panic("c15: udp.PacketConn has no listener field")
	}

	return f.Type.Elem()
}

func (l fakeListener) field(name string) reflect.Value {
	f := l.v.Elem().FieldByName(name)
	if !f.IsValid() {
		panic("c15: udp.listener has no field " + name)
	}

	return reflect.NewAt(f.Type(), unsafe.Pointer(f.UnsafeAddr())).Elem()
}

func newFakeListener(cidSize int) fakeListener {
	l := fakeListener{v: reflect.New(listenerType())}
	ch := l.field("acceptCh")
	ch.Set(reflect.MakeChan(ch.Type(), 128))
	m := l.field("conns")
	m.Set(reflect.MakeMap(m.Type()))
	l.field("doneCh").Set(reflect.ValueOf(make(chan struct{})))
	l.field("readDoneCh").Set(reflect.ValueOf(make(chan struct{})))
	l.field("datagramRouter").Set(reflect.ValueOf(cidDatagramRouter(cidSize)))
	l.field("connIdentifier").Set(reflect.ValueOf(cidConnIdentifier()))
	l.field("pConn").Set(reflect.ValueOf(new(net.UDPConn))) // no socket: writes fail with EINVAL after the bookkeeping
	acc := l.field("accepting").Addr().Interface().(*atomic.Value)
	acc.Store(true)

	return l
}

func (l fakeListener) getConn(src net.Addr, d []byte) (*udp.PacketConn, bool, error) {
	return udpGetConn(unsafe.Pointer(l.v.Pointer()), src, d)
}

// --- wire builders (by hand) -------------------------------------------------------------------

func legacyRec(ct byte, epoch uint16, seq uint64, cid []byte, body []byte) []byte {
	out := []byte{ct, 0xfe, 0xfd, byte(epoch >> 8), byte(epoch), byte(seq >> 40), byte(seq >> 32), byte(seq >> 24), byte(seq >> 16), byte(seq >> 8), byte(seq)}
	if ct == 25 {
		out = append(out, cid...)
	}
	out = append(out, byte(len(body)>>8), byte(len(body)))

	return append(out, body...)
}

func unifiedRec(flags byte, cid []byte, body []byte) []byte {
	out := []byte{0x20 | flags&0x1f}
	if flags&0x10 != 0 {
		out = append(out, cid...)
	}
	if flags&0x08 != 0 {
		out = append(out, 0x12, 0x34)
	} else {
		out = append(out, 0x56)
	}
	if flags&0x04 != 0 {
		out = append(out, byte(len(body)>>8), byte(len(body)))
	}

	return append(out, body...)
}

func body(n int, salt byte) []byte {
	b := make([]byte, n)
	for i := range b {
		b[i] = salt + byte(i*7)
	}

	return b
}

// serverHello builds a ServerHello flight datagram; cid == nil omits the connection_id extension.
func serverHello(cid []byte, v13 bool) []byte {
	var ext []byte
	if v13 {
		ext = append(ext, 0x00, 0x2b, 0x00, 0x02, 0xfe, 0xfc) // supported_versions: DTLS 1.3
	} else {
		ext = append(ext, 0x00, 0x17, 0x00, 0x00) // extended_master_secret
	}
	if cid != nil {
		ext = append(ext, 0x00, 54, 0x00, byte(1+len(cid)), byte(len(cid)))
		ext = append(ext, cid...)
	}
	sh := []byte{0xfe, 0xfd}
	sh = append(sh, body(32, 0x11)...)
	sh = append(sh, 0x00)       // session id
	sh = append(sh, 0xc0, 0x2b) // cipher suite
	if v13 {
		sh[len(sh)-2], sh[len(sh)-1] = 0x13, 0x01
	}
	sh = append(sh, 0x00) // compression
	sh = append(sh, byte(len(ext)>>8), byte(len(ext)))
	sh = append(sh, ext...)
	hs := []byte{2, 0, byte(len(sh) >> 8), byte(len(sh)), 0, 1, 0, 0, 0, 0, byte(len(sh) >> 8), byte(len(sh))}
	hs = append(hs, sh...)

	return legacyRec(22, 0, 1, nil, hs)
}

func clientHelloish() []byte {
	return legacyRec(22, 0, 0, nil, append([]byte{1, 0, 0, 30, 0, 0, 0, 0, 0, 0, 0, 30}, body(30, 0x33)...))
}

// --- reference ---------------------------------------------------------------------------------

// refWalk walks a datagram. It returns the CID of the first CID-carrying record and whether the whole
// datagram is a sequence of complete records (bodies of at least 17 bytes for protected records, so that no
// implementation-specific minimum matters).
func refWalk(d []byte, n int) (cid []byte, wellFormed bool) {
	if len(d) == 0 {
		return nil, false
	}
	for off := 0; off < len(d); {
		b := d[off]
		if b&0xe0 == 0x20 {
			p := off + 1
			var c []byte
			if b&0x10 != 0 {
				if n == 0 || len(d) < p+n {
					return cid, false
				}
				c = d[p : p+n]
				p += n
			}
			if b&0x08 != 0 {
				p += 2
			} else {
				p++
			}
			bl := len(d) - p
			if b&0x04 != 0 {
				if len(d) < p+2 {
					return cid, false
				}
				bl = int(binary.BigEndian.Uint16(d[p:]))
				p += 2
			}
			if bl < 17 || len(d) < p+bl {
				return cid, false
			}
			if cid == nil && c != nil {
				cid = c
			}
			off = p + bl

			continue
		}
		p := off + 11
		var c []byte
		if b == 25 {
			if len(d) < p+n {
				return cid, false
			}
			c = d[p : p+n]
			p += n
		}
		if len(d) < p+2 {
			return cid, false
		}
		bl := int(binary.BigEndian.Uint16(d[p:]))
		p += 2
		if bl < 1 || len(d) < p+bl {
			return cid, false
		}
		if cid == nil && c != nil && n > 0 {
			cid = c
		}
		off = p + bl
	}

	return cid, true
}

// headerCID is the CID found at the CID position of the first record header, if those bytes exist.
func headerCID(d []byte, n int) []byte {
	if len(d) == 0 || n == 0 {
		return nil
	}
	switch {
	case d[0] == 25 && len(d) >= 11+n:
		return d[11 : 11+n]
	case d[0]&0xf0 == 0x30 && len(d) >= 1+n:
		return d[1 : 1+n]
	}

	return nil
}

type probe struct {
	name string
	d    []byte
}

func ownCID(n, i int) []byte {
	c := make([]byte, n)
	for k := range c {
		c[k] = byte(0xa0 + 16*i + k)
	}

	return c
}

func unknownCID(n int) []byte {
	c := make([]byte, n)
	for k := range c {
		c[k] = byte(0x0f - k)
	}

	return c
}

func catalogue(n int, thorough bool) []probe {
	var out []probe
	add := func(name string, d []byte) { out = append(out, probe{name, d}) }
	cids := map[string][]byte{}
	names := []string{}
	if n > 0 {
		for i := 0; i < 3; i++ {
			cids[fmt.Sprintf("own%d", i)] = ownCID(n, i)
			names = append(names, fmt.Sprintf("own%d", i))
		}
		cids["unk"] = unknownCID(n)
		names = append(names, "unk")
	}
	add("empty", nil)
	for ct := byte(20); ct <= 27; ct++ {
		if ct == 25 {
			for _, cn := range names {
				add(fmt.Sprintf("legacy25-%s", cn), legacyRec(25, 1, 7, cids[cn], body(24, 1)))
			}

			continue
		}
		add(fmt.Sprintf("legacy%d-e1", ct), legacyRec(ct, 1, 7, nil, body(24, ct)))
	}
	add("legacy22-e0", clientHelloish())
	for _, cn := range names {
		c := cids[cn]
		add("two-23+25-"+cn, append(legacyRec(23, 1, 8, nil, body(24, 2)), legacyRec(25, 1, 9, c, body(24, 3))...))
		add("two-25+23-"+cn, append(legacyRec(25, 1, 8, c, body(24, 2)), legacyRec(23, 1, 9, nil, body(24, 3))...))
		add("two-22e0+25-"+cn, append(clientHelloish(), legacyRec(25, 1, 9, c, body(24, 3))...))
	}
	for fl := byte(0); fl < 32; fl++ {
		if fl&0x10 == 0 {
			add(fmt.Sprintf("unified-%02x", fl), unifiedRec(fl, nil, body(24, fl)))

			continue
		}
		for _, cn := range names {
			add(fmt.Sprintf("unified-%02x-%s", fl, cn), unifiedRec(fl, cids[cn], body(24, fl)))
		}
	}
	for _, cn := range names {
		c := cids[cn]
		add("two-U+U-"+cn, append(unifiedRec(0x1c|3, c, body(24, 4)), unifiedRec(0x1c|3, c, body(24, 5))...))
		// RFC 9147 §4: later records of a datagram may omit the CID, the first one carries it
		add("two-Ucid+Unocid-"+cn, append(unifiedRec(0x1c|3, c, body(24, 4)), unifiedRec(0x0c|3, nil, body(24, 5))...))
	}
	if n > 0 {
		trunc := map[string][]byte{
			"legacy25":   legacyRec(25, 1, 7, cids["own1"], body(24, 1)),
			"unifiedCSL": unifiedRec(0x1c|3, cids["own1"], body(24, 6)),
			"unifiedC":   unifiedRec(0x10|3, cids["own1"], body(24, 6)),
			"two25":      append(legacyRec(25, 1, 8, cids["own1"], body(20, 2)), legacyRec(25, 1, 9, cids["own1"], body(20, 3))...),
		}
		for _, tn := range []string{"legacy25", "unifiedCSL", "unifiedC", "two25"} {
			full := trunc[tn]
			for k := 1; k < len(full); k++ {
				if !thorough && k > 16+n && k%3 != 0 {
					continue
				}
				add(fmt.Sprintf("trunc-%s-%d", tn, k), full[:k])
			}
		}
	}

	return out
}

var routeSrc = []rAddr{"192.0.2.10:1000", "192.0.2.11:1001", "192.0.2.12:1002", "198.51.100.7:7777"}

// buildState builds a listener with three connections in the given state and returns the connections.
func buildState(n, state int, v13 bool) (fakeListener, []*udp.PacketConn, error) {
	l := newFakeListener(n)
	conns := make([]*udp.PacketConn, 3)
	for i := 0; i < 3; i++ {
		c, ok, err := l.getConn(routeSrc[i], clientHelloish())
		if err != nil || !ok || c == nil {
			return l, nil, fmt.Errorf("accepting connection %d: ok=%v err=%v", i, ok, err)
		}
		conns[i] = c
	}
	if state >= 1 {
		for i, c := range conns {
			_, _ = c.WriteTo(serverHello(ownCID(n, i), v13), routeSrc[i])
		}
	}
	if state >= 2 {
		_, _ = conns[1].WriteTo(legacyRec(25, 1, 1, ownCID(n, 1), body(24, 9)), rAddr("203.0.113.1:4444"))
	}

	return l, conns, nil
}

func routeCase(n, state int, v13 bool, pb probe) run.Outcome {
	var o run.Outcome
	o.Evals = len(routeSrc)
	cid, wf := refWalk(pb.d, n)
	hc := headerCID(pb.d, n)
	ownerOf := func(c []byte) int {
		if state == 0 || c == nil || n == 0 {
			return -1
		}
		for i := 0; i < 3; i++ {
			if bytes.Equal(c, ownCID(n, i)) {
				return i
			}
		}

		return -1
	}
	classes := map[string]bool{}
	for si, src := range routeSrc {
		l, conns, err := buildState(n, state, v13)
		if err != nil {
			o.Violation, o.Key = "route setup: "+err.Error(), "route-setup"

			return o
		}
		idx := func(c *udp.PacketConn) int {
			for i, x := range conns {
				if x == c {
					return i
				}
			}

			return 3 // a new connection
		}
		var got int
		func() {
			defer func() {
				if r := recover(); r != nil {
					got = -2
					o.Violation = fmt.Sprintf("[e-route] size=%d state=S%d datagram=%s (%x) src=%s: panic %v", n, state, pb.name, pb.d, src, r)
					o.Key = "e-route:panic:" + pb.name
				}
			}()
			c, ok, gerr := l.getConn(src, pb.d)
			switch {
			case gerr != nil || !ok || c == nil:
				got = -1
			default:
				got = idx(c)
			}
		}()
		if o.Violation != "" {
			return o
		}
		// reference
		fallback := 3
		if si < 3 && !(state == 2 && si == 1) {
			fallback = si
		}
		want := []int{fallback}
		switch {
		case wf && ownerOf(cid) >= 0:
			want = []int{ownerOf(cid)}
		case !wf && ownerOf(hc) >= 0:
			want = append(want, ownerOf(hc))
		}
		if n == 0 && len(pb.d) > 0 && pb.d[0] == 25 {
			// a tls12_cid record towards a zero-length CID is not a record of any connection (RFC 9146 §3:
			// a zero-length CID is never sent); where such garbage goes is not constrained by the property
			want = []int{0, 1, 2, 3}
		}
		okRoute := false
		for _, w := range want {
			if got == w {
				okRoute = true
			}
		}
		cl := "addr"
		switch {
		case got == 3:
			cl = "new"
		case wf && ownerOf(cid) >= 0 && got != fallback:
			cl = "cid-over-addr"
			o.NonTrivial = true
		case wf && ownerOf(cid) >= 0:
			cl = "cid"
		}
		if !wf {
			cl = "malformed-" + cl
			o.NonTrivial = true
		}
		classes[cl] = true
		if !okRoute {
			names := []string{"conn0", "conn1", "conn2", "a new connection"}
			g := "no connection (error)"
			if got >= 0 {
				g = names[got]
			}
			var ws []string
			for _, w := range want {
				ws = append(ws, names[w])
			}
			o.Violation = fmt.Sprintf("[e-route] size=%d state=S%d datagram=%s (%x) from %s: routed to %s, reference: %v (wellFormed=%v firstCID=%x)",
				n, state, pb.name, pb.d, src, g, ws, wf, cid)
			kind := pb.name
			if i := bytes.IndexByte([]byte(kind), '-'); i > 0 {
				kind = kind[:i]
			}
			o.Key = fmt.Sprintf("e-route:%s:S%d:n%d", kind, state, n)
			o.Class = "VIOLATION"

			return o
		}
	}
	o.Class = "route"
	for _, k := range []string{"addr", "new", "cid", "cid-over-addr", "malformed-addr", "malformed-new", "malformed-cid"} {
		if classes[k] {
			o.Class += " " + k
		}
	}
	o.Sample = map[string]any{"size": n, "state": state, "datagram": pb.name, "class": o.Class}

	return o
}

// identCase drives cidConnIdentifier through PacketConn.WriteTo: the connection must become reachable by
// CID exactly when the first record of the outgoing datagram is a complete ServerHello with a
// connection_id extension.
func identCase(n int, name string, out []byte, wantReg bool) run.Outcome {
	var o run.Outcome
	l := newFakeListener(n)
	c0, _, err := l.getConn(routeSrc[0], clientHelloish())
	if err != nil || c0 == nil {
		o.Violation, o.Key = "ident setup failed", "route-setup"

		return o
	}
	_, _ = c0.WriteTo(out, routeSrc[0])
	got, ok, gerr := l.getConn(routeSrc[3], legacyRec(25, 1, 5, ownCID(n, 0), body(24, 1)))
	reg := gerr == nil && ok && got == c0
	o.NonTrivial = true
	o.Class = fmt.Sprintf("ident registered=%v", reg)
	if reg != wantReg {
		o.Violation = fmt.Sprintf("[e-ident] size=%d outgoing=%s (%x): connection reachable by its CID from another address = %v, reference %v", n, name, out, reg, wantReg)
		o.Key = "e-ident:" + name
		o.Class = "VIOLATION"
	}

	return o
}

// backlogCase: the accept backlog (capacity k here) is full when datagrams from further new source
// addresses arrive; they are refused. Once the application has accepted the queued connections, the
// listener must be back to its initial behaviour for every address: a datagram from a previously refused
// source creates a connection that Accept hands out (nothing was left behind for that address), and the
// number of connections the listener holds never exceeds those it handed to the accept queue.
func backlogCase(k, extra int) run.Outcome {
	o := run.Outcome{NonTrivial: true, Class: "R:backlog", Evals: k + 2*extra}
	fail := func(f string, a ...any) run.Outcome {
		o.Key = "listener-backlog-refusal-leaves-state"
		o.Violation = fmt.Sprintf("backlog k=%d, %d further sources: ", k, extra) + fmt.Sprintf(f, a...)
		return o
	}
	l := newFakeListener(4)
	ch := l.field("acceptCh")
	ch.Set(reflect.MakeChan(ch.Type(), k))
	src := func(i int) net.Addr { return rAddr(fmt.Sprintf("198.51.100.%d:%d", 1+i%200, 1000+i)) }
	for i := 0; i < k; i++ {
		if c, ok, err := l.getConn(src(i), clientHelloish()); err != nil || !ok || c == nil {
			return fail("connection %d was not accepted although the backlog had room: ok=%v err=%v", i, ok, err)
		}
	}
	for i := k; i < k+extra; i++ {
		if c, ok, err := l.getConn(src(i), clientHelloish()); err == nil && ok && c != nil {
			return fail("source %d obtained a connection although the backlog was full", i)
		}
	}
	held := l.field("conns").Len()
	if held > k {
		return fail("the listener holds %d connections after %d were queued for Accept and %d were refused", held, k, extra)
	}
	// the application accepts everything that was queued
	for i := 0; i < k; i++ {
		if _, ok := ch.TryRecv(); !ok {
			return fail("accept queue held fewer than %d connections", k)
		}
	}
	// a refused source tries again: it must get a fresh connection that reaches the accept queue
	for i := k; i < k+extra && i < 2*k; i++ {
		c, ok, err := l.getConn(src(i), clientHelloish())
		if err != nil || !ok || c == nil {
			return fail("a source refused earlier gets no connection now that the backlog has room: ok=%v err=%v", ok, err)
		}
		got, recvOK := ch.TryRecv()
		if !recvOK || got.Pointer() != reflect.ValueOf(c).Pointer() {
			return fail("the connection for a source refused earlier is not handed to Accept (datagrams from %s go to a connection nobody can accept)", src(i))
		}
	}
	return o
}

func routeCases(thorough bool) []run.Case {
	var cases []run.Case
	for _, k := range []int{1, 2, 128} {
		for _, extra := range []int{1, 3, 20} {
			k, extra := k, extra
			cases = append(cases, run.Case{ID: fmt.Sprintf("R/backlog/k%d/x%d", k, extra), Run: func(*testing.T) run.Outcome { return backlogCase(k, extra) }})
		}
	}
	for _, n := range []int{0, 1, 4, 8} {
		for state := 0; state <= 2; state++ {
			for _, pb := range catalogue(n, thorough) {
				n, state, pb := n, state, pb
				v13 := state == 2 // vary the ServerHello flavour with the state
				cases = append(cases, run.Case{
					ID:  fmt.Sprintf("R/n%d/S%d/%s", n, state, pb.name),
					Run: func(*testing.T) run.Outcome { return routeCase(n, state, v13, pb) },
				})
			}
		}
		if n == 0 {
			continue
		}
		cid := ownCID(n, 0)
		sh := serverHello(cid, false)
		idents := []struct {
			name string
			d    []byte
			want bool
		}{
			{"serverhello12-cid", sh, true},
			{"serverhello13-cid", serverHello(cid, true), true},
			{"serverhello-nocid", serverHello(nil, false), false},
			{"serverhello+more", append(append([]byte(nil), sh...), legacyRec(22, 0, 2, nil, body(30, 5))...), true},
			{"other-first", append(legacyRec(22, 0, 0, nil, append([]byte{3, 0, 0, 3, 0, 0, 0, 0, 0, 0, 0, 3}, 0xfe, 0xfd, 0)), sh...), false},
			{"serverhello-truncated", sh[:len(sh)-2], false},
			{"appdata-cid", legacyRec(25, 1, 1, cid, body(24, 1)), false},
			{"empty", nil, false},
		}
		for _, it := range idents {
			n, it := n, it
			cases = append(cases, run.Case{
				ID:  fmt.Sprintf("R/n%d/ident/%s", n, it.name),
				Run: func(*testing.T) run.Outcome { return identCase(n, it.name, it.d, it.want) },
			})
		}
	}

	return cases
}
