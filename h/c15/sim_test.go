//go:build verif

package c15

import (
	"bytes"
	"errors"
	"fmt"
	"io"
	"net"
	"sort"
	"strings"
	"sync"
	"time"

	dtls "github.com/pion/dtls/v3"
	"github.com/pion/dtls/v3/pkg/protocol/extension"
	"github.com/pion/dtls/v3/pkg/protocol/handshake"
	"github.com/pion/dtls/v3/zzverif/refimpl"
	"github.com/pion/dtls/v3/zzverif/run"
	"github.com/pion/dtls/v3/zzverif/world"
)

// The migration world: V is the observed endpoint ("victim"), P its genuine peer. Both are real
// dtls.Conn objects. The harness is the whole network: every datagram either endpoint emits is taken
// off the wire and its fate is decided by the event being executed. P always lives at its original
// address; "the peer moved to X" is modelled by delivering P's datagrams to V as coming from X and by
// forwarding what V sends to X into P.

const (
	addrP1  = world.Addr("10.0.0.9:999") // peer′: the peer's new address
	addrP2  = world.Addr("10.0.0.8:888") // peer″: a second candidate path
	addrAtt = world.Addr("10.6.6.6:666") // off-path attacker (sees and re-sends datagrams, has no keys)

	// validationTimeout is the path-validation period of the reference model (DESIGN.md C15: 1 s).
	validationTimeout = time.Second
	tickStep          = 600 * time.Millisecond

	ctAppData = 23
	ctRRC     = 27
	rrcChal   = 0
	rrcResp   = 1
)

// config is one enumerated configuration.
type config struct {
	ver        int  // 12 | 13
	ccid, scid int  // world.Cfg.CIDLen of client / server: 0 none, -1 OnlySend (zero-length), n>0
	rrc        bool // leave the return_routability_check offer in place
	rrcStrip   string
	vServer    bool // V is the server (the client moves)
	payLen     int  // length of P's application payloads
}

func cidTag(n int) string {
	switch {
	case n == 0:
		return "N"
	case n < 0:
		return "Z"
	}

	return fmt.Sprint(n)
}

func (c config) name() string {
	r := "rrc"
	if !c.rrc {
		r = "no" + c.rrcStrip
	}
	v := "VC"
	if c.vServer {
		v = "VS"
	}

	return fmt.Sprintf("%d-c%ss%s-%s-%s", c.ver, cidTag(c.ccid), cidTag(c.scid), r, v)
}

// cidNegotiated: both sides configured a generator (RFC 9146 §3: the extension is echoed).
func (c config) cidNegotiated() bool { return c.ccid != 0 && c.scid != 0 }

// rrcExpected: the reference's view of whether RFC 9853 was negotiated.
func (c config) rrcExpected() bool { return c.cidNegotiated() && c.rrc }

func cidLenOf(n int) int {
	if n < 0 {
		return 0
	}

	return n
}

// vCIDLen is the length of V's own CID (carried by records P sends to V); 0 without negotiation.
func (c config) vCIDLen() int {
	if !c.cidNegotiated() {
		return 0
	}
	if c.vServer {
		return cidLenOf(c.scid)
	}

	return cidLenOf(c.ccid)
}

func (c config) pCIDLen() int {
	if !c.cidNegotiated() {
		return 0
	}
	if c.vServer {
		return cidLenOf(c.ccid)
	}

	return cidLenOf(c.scid)
}

// kind is the coarse configuration class used in outcome classes.
func (c config) kind() string {
	switch {
	case !c.cidNegotiated():
		return "nocid"
	case !c.rrc:
		return "cid-norrc"
	case c.vCIDLen() == 0:
		return "cid-rrc-v0"
	}

	return "cid-rrc"
}

func stripRRC(in []extension.Value) []extension.Value {
	out := make([]extension.Value, 0, len(in))
	for _, e := range in {
		if e.ExtensionType() != extension.TypeReturnRoutabilityCheck {
			out = append(out, e)
		}
	}

	return out
}

// chal is one path_challenge V emitted.
type chal struct {
	dst    world.Addr
	cookie []byte
	at     time.Duration
	data   []byte
	used   bool
}

type reader struct {
	mu   sync.Mutex
	got  [][]byte
	err  error
	nerr int
}

func (r *reader) errors() int {
	r.mu.Lock()
	defer r.mu.Unlock()

	return r.nerr
}

func (r *reader) take() [][]byte {
	r.mu.Lock()
	defer r.mu.Unlock()
	g := r.got
	r.got = nil

	return g
}

type sim struct {
	w    *world.World
	pr   *world.Pair
	cfg  config
	V, P *world.Endpoint
	vk   dirKeys // V's write keys
	pk   dirKeys // P's write keys
	vCID []byte  // V's own CID
	pCID []byte  // P's own CID
	vRd  *reader
	pRd  *reader
	expV uint64 // next expected sequence number of V's records (1.3 reconstruction)
	expP uint64

	// reference model
	cur       world.Addr          // validated address V sends to
	seen      map[uint64]bool     // sequence numbers of P->V records the model accepted
	maxSeq    uint64              // highest accepted
	hasMax    bool                //
	recvAll   map[world.Addr]int  // bytes delivered to V from an unvalidated address
	recvAuth  map[world.Addr]int  // ... of which authentic, accepted datagrams
	sentTo    map[world.Addr]int  // bytes V sent to an unvalidated address
	newestFrm map[world.Addr]bool // an authentic newest record arrived from the address
	chals     []*chal
	pending   map[world.Addr][]*chal // challenges not yet handed to the peer

	withheld []byte // captured, never delivered, older than the newest accepted
	lastDlv  []byte // most recently delivered genuine application record
	pOut     [][]byte
	chalN    int
	payN     int
	curEvent string

	viol, key  string
	trace      []string
	nontrivial bool
	disabled   bool
	states     []uint64
	trans      []uint64
	prevState  uint64
	cnt        map[string]int
	maxRatioPM int // max sent/recv (per mille) to an unvalidated address
}

func (s *sim) logf(f string, a ...any) {
	line := fmt.Sprintf(f, a...)
	s.trace = append(s.trace, line)
	s.w.Logf("c15: %s", line)
}

func (s *sim) fail(clause, f string, a ...any) {
	if s.viol != "" {
		return
	}
	s.viol = fmt.Sprintf("[%s] cfg=%s event=%s: ", clause, s.cfg.name(), s.curEvent) + fmt.Sprintf(f, a...)
	ev := s.curEvent
	s.key = fmt.Sprintf("%s:%s:v%d:%s", clause, ev, s.cfg.ver, s.cfg.kind())
}

func (s *sim) worldCfgs() (world.Cfg, world.Cfg) {
	c := world.Cfg{MinV: s.cfg.ver, MaxV: s.cfg.ver, CIDLen: s.cfg.ccid}
	sv := world.Cfg{MinV: s.cfg.ver, MaxV: s.cfg.ver, CIDLen: s.cfg.scid}
	if !s.cfg.rrc {
		switch s.cfg.rrcStrip {
		case "S": // the server declines: its ServerHello hook removes the extension
			sv.ExtraServer = append(sv.ExtraServer, dtls.WithServerHelloMessageHook(
				func(sh handshake.MessageServerHello) handshake.Message {
					sh.Extensions = stripRRC(sh.Extensions)

					return &sh
				}))
		default: // the client never offers it
			c.Extra = append(c.Extra, dtls.WithClientHelloMessageHook(
				func(ch handshake.MessageClientHello) handshake.Message {
					ch.Extensions = stripRRC(ch.Extensions)

					return &ch
				}))
		}
	}

	return c, sv
}

func startReader(w *world.World, e *world.Endpoint) *reader {
	r := &reader{}
	w.Go(e.Name+".ReadLoop", func(*world.Op) error {
		buf := make([]byte, 8192)
		for {
			n, err := e.Conn.Read(buf)
			r.mu.Lock()
			if err != nil {
				// Read also surfaces non-fatal receive errors (e.g. an unparsable datagram in DTLS 1.3); only
				// a closed connection ends the loop.
				r.err = err
				r.nerr++
				stop := errors.Is(err, dtls.ErrConnClosed) || errors.Is(err, io.EOF) || errors.Is(err, net.ErrClosed) || r.nerr > 64
				r.mu.Unlock()
				if stop {
					return err
				}

				continue
			}
			r.got = append(r.got, append([]byte(nil), buf[:n]...))
			r.mu.Unlock()
		}
	})

	return r
}

// setup establishes the association and prepares the two captured records.
func (s *sim) setup(p *world.PKI) error {
	w := s.w
	cc, sc := s.worldCfgs()
	pr, err := w.NewPair(p, cc, sc)
	if err != nil {
		return err
	}
	s.pr = pr
	n := world.NewNet(w, world.ClientAddr, nil)
	if err := n.Pump(30*time.Second, pr.BothDone); err != nil || !pr.BothOK() {
		return fmt.Errorf("handshake failed: %v client=%v server=%v", err, pr.C.HS, pr.S.HS)
	}
	for n.Step() { // post-handshake traffic (DTLS 1.3 ACK / NewSessionTicket)
	}
	s.V, s.P = pr.C, pr.S
	if s.cfg.vServer {
		s.V, s.P = pr.S, pr.C
	}
	ck, sk, err := secretsOf(pr)
	if err != nil {
		return err
	}
	s.vk, s.pk = ck, sk
	if s.cfg.vServer {
		s.vk, s.pk = sk, ck
	}
	vs, ps := s.V.Snapshot(), s.P.Snapshot()
	s.vCID, s.pCID = vs.LocalCID, ps.LocalCID
	if len(s.vCID) != s.cfg.vCIDLen() || len(s.pCID) != s.cfg.pCIDLen() ||
		!bytes.Equal(vs.RemoteCID, s.pCID) || !bytes.Equal(ps.RemoteCID, s.vCID) {
		return fmt.Errorf("CID negotiation differs from the reference: V local=%x remote=%x, P local=%x remote=%x, want lengths %d/%d",
			vs.LocalCID, vs.RemoteCID, ps.LocalCID, ps.RemoteCID, s.cfg.vCIDLen(), s.cfg.pCIDLen())
	}
	if vs.RRC != s.cfg.rrcExpected() || ps.RRC != s.cfg.rrcExpected() {
		return fmt.Errorf("RRC negotiation differs from the reference: V=%v P=%v want %v", vs.RRC, ps.RRC, s.cfg.rrcExpected())
	}
	s.cur = s.P.Addr
	s.seen = map[uint64]bool{}
	s.recvAll, s.recvAuth, s.sentTo = map[world.Addr]int{}, map[world.Addr]int{}, map[world.Addr]int{}
	s.newestFrm = map[world.Addr]bool{}
	s.pending = map[world.Addr][]*chal{}
	s.cnt = map[string]int{}
	s.curEvent = "setup"

	// (b) over the handshake: every protected record either endpoint sent carries the receiver's CID
	// exactly when the receiver asked for one.
	for _, d := range w.Emitted() {
		if d.ID < pr.FirstID {
			continue
		}
		if d.Src == s.V.Addr {
			s.checkWrapping(d, s.pCID)
		} else if d.Src == s.P.Addr {
			s.checkWrapping(d, s.vCID)
		}
	}
	// the records P already sent in the application epoch were all accepted by V (handshake)
	if seqs := ps.LocalSeq; int(s.pk.epoch) < len(seqs) {
		for q := uint64(0); q < seqs[s.pk.epoch]; q++ {
			s.seen[q] = true
			s.maxSeq, s.hasMax = q, true
		}
		s.expP = seqs[s.pk.epoch]
	}
	if seqs := vs.LocalSeq; int(s.vk.epoch) < len(seqs) {
		s.expV = seqs[s.vk.epoch]
	}

	s.vRd, s.pRd = startReader(w, s.V), startReader(w, s.P)
	w.Settle()
	// W: genuine, captured, withheld. D0: genuine, delivered from the original address.
	s.withheld = s.pWrite()
	if s.withheld == nil {
		return fmt.Errorf("setup: peer write produced no datagram")
	}
	d0 := s.pWrite()
	if d0 == nil {
		return fmt.Errorf("setup: peer write produced no datagram")
	}
	s.deliver(s.P.Addr, d0, true)
	s.lastDlv = d0
	s.visit("init")

	return nil
}

// checkWrapping is clause (b): protected records in d carry `cid` iff it is non-empty.
func (s *sim) checkWrapping(d *world.Datagram, cid []byte) {
	recs, err := splitRecords(d.Data, len(cid))
	if err != nil {
		s.fail("b-wrap", "datagram #%d %s->%s cannot be split into records (cid length %d): %v", d.ID, d.Src, d.Dst, len(cid), err)

		return
	}
	for _, r := range recs {
		if refimpl.IsUnifiedHeader(r[0]) {
			has := r[0]&0x10 != 0
			if has != (len(cid) > 0) {
				s.fail("b-wrap", "protected record in #%d %s->%s: C bit=%v but the receiver's CID is %x", d.ID, d.Src, d.Dst, has, cid)
			} else if has && !bytes.Equal(r[1:1+len(cid)], cid) {
				s.fail("b-wrap", "protected record in #%d %s->%s carries CID %x, receiver's CID is %x", d.ID, d.Src, d.Dst, r[1:1+len(cid)], cid)
			}

			continue
		}
		h, _, _, err := refimpl.ParseRecord12(r, len(cid))
		if err != nil || h.Epoch == 0 {
			continue
		}
		if s.cfg.ver == 13 && h.Type != refimpl.ContentTypeCID {
			// a DTLS 1.3 endpoint sends protected records with the unified header only
			s.fail("b-wrap", "DTLS 1.3 endpoint sent a legacy-format record of epoch %d type %d in #%d", h.Epoch, h.Type, d.ID)

			continue
		}
		has := h.Type == refimpl.ContentTypeCID
		if has != (len(cid) > 0) {
			s.fail("b-wrap", "protected record in #%d %s->%s: outer type %d but the receiver's CID is %x", d.ID, d.Src, d.Dst, h.Type, cid)
		} else if has && !bytes.Equal(h.CID, cid) {
			s.fail("b-wrap", "protected record in #%d %s->%s carries CID %x, receiver's CID is %x", d.ID, d.Src, d.Dst, h.CID, cid)
		}
	}
}

// drain takes everything off the wire: V's emissions are checked, classified and (unless they are
// path challenges) forwarded to the peer; P's emissions are captured for the running event.
func (s *sim) drain() {
	w := s.w
	for guard := 0; guard < 1000; guard++ {
		w.Settle()
		fl := w.InFlight()
		if len(fl) == 0 {
			return
		}
		for _, d := range fl {
			w.Take(d)
			switch d.Src {
			case s.V.Addr:
				s.onVEmit(d)
			case s.P.Addr:
				s.checkWrapping(d, s.vCID) // the peer is a real endpoint too
				s.pOut = append(s.pOut, d.Data)
				if d.Dst != s.V.Addr {
					s.logf("note: peer sent to %s", d.Dst)
				}
			}
		}
	}
	panic("c15: drain does not terminate")
}

func (s *sim) onVEmit(d *world.Datagram) {
	s.checkWrapping(d, s.pCID)
	if d.Dst != s.cur {
		// (d) amplification: bytes to an unvalidated address <= 3 x bytes received from it
		s.sentTo[d.Dst] += len(d.Data)
		if r := s.recvAll[d.Dst]; r > 0 {
			if pm := s.sentTo[d.Dst] * 1000 / r; pm > s.maxRatioPM {
				s.maxRatioPM = pm
			}
		}
		if s.sentTo[d.Dst] > 3*s.recvAll[d.Dst] {
			s.fail("d-amplification", "V has sent %d bytes to the unvalidated address %s but received only %d bytes from it (limit %d); datagram #%d of %d bytes",
				s.sentTo[d.Dst], d.Dst, s.recvAll[d.Dst], 3*s.recvAll[d.Dst], d.ID, len(d.Data))
		}
	}
	recs, err := splitRecords(d.Data, len(s.pCID))
	if err != nil {
		return // already reported by checkWrapping
	}
	forward := d.Dst != addrAtt
	for _, raw := range recs {
		r, err := s.vk.open(raw, len(s.pCID), s.expV)
		if err != nil {
			s.fail("harness-decode", "V emitted a record the reference cannot open with V's keys (#%d to %s, %d bytes): %v", d.ID, d.Dst, len(raw), err)

			return
		}
		if r.seq+1 > s.expV {
			s.expV = r.seq + 1
		}
		switch {
		case r.typ == ctRRC && len(r.payload) == 9 && r.payload[0] == rrcChal:
			ch := &chal{dst: d.Dst, cookie: append([]byte(nil), r.payload[1:]...), at: d.At, data: d.Data}
			for _, o := range s.chals {
				if bytes.Equal(o.cookie, ch.cookie) {
					s.fail("c-fresh-challenge", "V reused the challenge cookie %x", ch.cookie)
				}
			}
			s.chals = append(s.chals, ch)
			s.pending[d.Dst] = append(s.pending[d.Dst], ch)
			s.cnt["challenges"]++
			s.logf("  V -> %s path_challenge %x (%dB)", d.Dst, ch.cookie, len(d.Data))
			forward = false
		case r.typ == ctRRC:
			s.logf("  V -> %s rrc message %x", d.Dst, r.payload)
		case r.typ == ctAppData:
			// (c) application data goes to the validated address
			if d.Dst != s.cur {
				s.fail("c-destination", "V sent application data to %s, the validated peer address is %s", d.Dst, s.cur)
			}
			s.logf("  V -> %s appdata %q", d.Dst, r.payload)
		case r.typ == 21:
			s.cnt["alerts"]++
			s.logf("  V -> %s alert %x", d.Dst, r.payload)
		default:
			s.logf("  V -> %s type %d (%dB)", d.Dst, r.typ, len(r.payload))
		}
	}
	if forward {
		s.w.Push(s.V.Addr, s.P.Addr, d.Data)
	}
}

// pWrite lets the peer write one fresh payload and returns the captured datagram.
func (s *sim) pWrite() []byte {
	s.payN++
	pay := []byte(fmt.Sprintf("m%0*d", s.cfg.payLen-1, s.payN))
	s.pOut = nil
	op := s.w.Go("P.Write", func(*world.Op) error {
		_, err := s.P.Conn.Write(pay)

		return err
	})
	s.drain()
	if !op.OK() || len(s.pOut) != 1 {
		s.fail("harness-peer", "peer write: op=%v datagrams=%d", op, len(s.pOut))

		return nil
	}
	d := s.pOut[0]
	s.pOut = nil
	if s.viol != "" {
		return nil
	}

	return d
}

// openP opens a single-record datagram the peer emitted (or the harness derived from one).
func (s *sim) openP(data []byte) (rec, bool) {
	r, err := s.pk.open(data, len(s.vCID), s.expP)
	if err != nil {
		return rec{}, false
	}

	return r, true
}

// deliver hands `data` to V as coming from src and evaluates clauses (a), (c) and (d) against the
// reference model. authentic says whether the bytes were protected with the peer's real keys.
func (s *sim) deliver(src world.Addr, data []byte, authentic bool) {
	if s.viol != "" {
		return
	}
	// --- reference model: classify the record -------------------------------------------------
	var r rec
	opened := false
	if authentic {
		r, opened = s.openP(data)
		if !opened {
			s.fail("harness-decode", "reference cannot open a datagram it considers authentic")

			return
		}
	}
	cidOK := true
	if opened {
		if len(s.vCID) > 0 {
			cidOK = r.hasCID && bytes.Equal(r.cid, s.vCID)
		} else {
			cidOK = !r.hasCID
		}
	}
	accept := opened && cidOK && !s.seen[r.seq] && (!s.hasMax || r.seq+64 > s.maxSeq)
	newest := accept && (!s.hasMax || r.seq > s.maxSeq)
	if accept {
		s.seen[r.seq] = true
		if newest {
			s.maxSeq, s.hasMax = r.seq, true
		}
		if r.seq+1 > s.expP {
			s.expP = r.seq + 1
		}
	}
	if src != s.cur {
		s.nontrivial = true
		s.recvAll[src] += len(data)
		if accept {
			s.recvAuth[src] += len(data)
		}
		if newest {
			s.newestFrm[src] = true
		}
	}
	if !accept {
		s.nontrivial = true
		s.cnt["rejected"]++
	}
	// migration is permitted by this delivery iff RRC was negotiated, the record is an accepted
	// path_response from src whose cookie answers an unused challenge V sent to src less than the
	// validation timeout ago, and an authentic newest record has arrived from src.
	var answers *chal
	if accept && r.typ == ctRRC && len(r.payload) == 9 && r.payload[0] == rrcResp {
		for _, ch := range s.chals {
			if !ch.used && ch.dst == src && bytes.Equal(ch.cookie, r.payload[1:]) && s.w.Now()-ch.at < validationTimeout {
				answers = ch
			}
		}
	}
	mayMigrate := s.cfg.rrcExpected() && answers != nil && s.newestFrm[src] && src != s.cur
	s.logf("  deliver %dB from %s: authentic=%v cidOK=%v accept=%v newest=%v type=%d mayMigrate=%v", len(data), src, authentic, cidOK, accept, newest, r.typ, mayMigrate)

	// --- the real endpoint --------------------------------------------------------------------
	s.vRd.take()
	s.w.Push(src, s.V.Addr, data)
	s.drain()

	// (a) accepted <=> delivered to the application (application data records)
	got := s.vRd.take()
	var want [][]byte
	if accept && r.typ == ctAppData {
		want = [][]byte{r.payload}
	}
	if len(got) != len(want) || (len(got) == 1 && !bytes.Equal(got[0], want[0])) {
		why := "authentic record with V's CID, unseen sequence number"
		switch {
		case !authentic:
			why = "not authentic"
		case !cidOK:
			why = fmt.Sprintf("record format/CID does not match V's CID %x (hasCID=%v cid=%x)", s.vCID, r.hasCID, r.cid)
		case !accept:
			why = "replayed sequence number"
		}
		s.fail("a-accept", "V delivered %q to the application, the reference expects %q (%s); datagram from %s", got, want, why, src)
	}
	s.checkAddr(src, mayMigrate, answers)
}

// checkAddr is clause (c): RemoteAddr() equals the validated address, unless this very event
// permitted the migration to src.
func (s *sim) checkAddr(src world.Addr, mayMigrate bool, answers *chal) {
	if s.viol != "" {
		return
	}
	ra := world.Addr(s.V.Conn.RemoteAddr().String())
	if ra == s.cur {
		return
	}
	if mayMigrate && ra == src {
		s.logf("  V migrated %s -> %s", s.cur, ra)
		answers.used = true
		s.cnt["migrations"]++
		// the previous address is unvalidated from now on; the new one needs no budget any more
		delete(s.sentTo, ra)
		delete(s.recvAll, ra)
		delete(s.recvAuth, ra)
		delete(s.sentTo, s.cur)
		delete(s.recvAll, s.cur)
		delete(s.recvAuth, s.cur)
		s.newestFrm = map[world.Addr]bool{}
		s.cur = ra

		return
	}
	why := "no event permitted a migration"
	switch {
	case !s.cfg.rrcExpected():
		why = "return-routability checking was not negotiated: the address must never change"
	case !s.newestFrm[ra]:
		why = "no authentic newest record has arrived from that address"
	case answers == nil:
		why = "that address has not answered a fresh challenge in time"
	}
	s.fail("c-migrate", "RemoteAddr() changed from %s to %s: %s", s.cur, ra, why)
}

// visit records the abstract model state after an event.
func (s *sim) visit(ev string) {
	var pend []string
	for a, l := range s.pending {
		if len(l) > 0 {
			pend = append(pend, fmt.Sprintf("%s:%d", a, len(l)))
		}
	}
	sort.Strings(pend)
	var nf []string
	for a, b := range s.newestFrm {
		if b {
			nf = append(nf, string(a))
		}
	}
	sort.Strings(nf)
	live := 0
	for _, ch := range s.chals {
		if !ch.used && s.w.Now()-ch.at < validationTimeout {
			live++
		}
	}
	vs := s.V.Snapshot()
	st := fmt.Sprintf("%s|cur=%s|pend=%v|newest=%v|live=%d|ra=%s|closed=%v", s.cfg.kind(), s.cur, pend, nf, live, vs.RAddr, vs.Closed)
	h := run.Hash(st)
	s.states = append(s.states, h)
	if ev != "init" {
		kind := ev
		s.trans = append(s.trans, run.Hash(fmt.Sprint(s.prevState), kind, fmt.Sprint(h)))
	}
	s.prevState = h
}

// takePending removes the oldest undelivered challenge addressed to a.
func (s *sim) takePending(a world.Addr) *chal {
	l := s.pending[a]
	if len(l) == 0 {
		s.disabled = true
		s.logf("  (disabled: no challenge to %s is pending)", a)

		return nil
	}
	s.pending[a] = l[1:]

	return l[0]
}

// answer forwards the challenge to the peer and returns the peer's path_response datagram.
func (s *sim) answer(ch *chal) []byte {
	s.pOut = nil
	s.w.Push(s.V.Addr, s.P.Addr, ch.data)
	s.drain()
	if len(s.pOut) != 1 {
		s.fail("harness-peer", "peer answered a path_challenge with %d datagrams", len(s.pOut))

		return nil
	}
	d := s.pOut[0]
	s.pOut = nil
	if r, ok := s.openP(d); !ok || r.typ != ctRRC || len(r.payload) != 9 || r.payload[0] != rrcResp || !bytes.Equal(r.payload[1:], ch.cookie) {
		s.fail("harness-peer", "peer's answer to path_challenge %x is not the matching path_response", ch.cookie)

		return nil
	}

	return d
}

// reseal opens a genuine peer record and re-protects it with the real keys after edit.
func (s *sim) reseal(data []byte, edit func(r *rec)) []byte {
	r, ok := s.openP(data)
	if !ok {
		s.fail("harness-decode", "cannot open the peer's record for re-sealing")

		return nil
	}
	edit(&r)
	out, err := s.pk.seal(r)
	if err != nil {
		s.fail("harness-decode", "re-seal: %v", err)

		return nil
	}

	return out
}

func evAddr(name string) world.Addr {
	switch name[strings.IndexByte(name, '@')+1:] {
	case "p1":
		return addrP1
	case "p2":
		return addrP2
	case "att":
		return addrAtt
	}

	return ""
}

// step executes one event.
func (s *sim) step(ev string) {
	if s.viol != "" {
		return
	}
	s.curEvent = ev
	s.logf("event %s (cur=%s)", ev, s.cur)
	kind := ev
	if i := strings.IndexByte(ev, '@'); i >= 0 {
		kind = ev[:i]
	}
	a := evAddr(ev)
	if a == "" {
		a = s.P.Addr // "@peer": the original address
	}
	switch kind {
	case "fresh": // the peer writes; the datagram arrives from a
		if d := s.pWrite(); d != nil {
			s.deliver(a, d, true)
			s.lastDlv = d
		}
	case "replay": // an already delivered genuine record arrives again from a
		s.deliver(a, s.lastDlv, true)
	case "stale": // captured earlier, never delivered, older than the newest accepted
		s.deliver(a, s.withheld, true)
	case "stalechal": // an authentic path_challenge of the peer that is OLDER than the newest accepted record (a
		// record the peer sealed earlier and that was overtaken), arriving from a: V may answer it within the
		// amplification budget, but a stale record does not make a a candidate path
		if f := s.reseal(s.withheld, func(r *rec) {
			r.typ = ctRRC
			r.payload = []byte{rrcChal, 0xc1, 0xc2, 0xc3, 0xc4, 0xc5, 0xc6, 0xc7, 0xc8}
		}); f != nil {
			s.deliver(a, f, true)
		}
	case "chal": // the peer's own fresh path_challenge (newest sequence number) arriving from a: V answers it
		// towards a, within what is left of a's amplification budget
		if d := s.pWrite(); d != nil {
			s.chalN++
			if f := s.reseal(d, func(r *rec) {
				r.typ = ctRRC
				r.payload = []byte{rrcChal, 0xd1, 0xd2, 0xd3, 0xd4, 0xd5, 0xd6, 0xd7, byte(s.chalN)}
			}); f != nil {
				s.deliver(a, f, true)
			}
		}
	case "zeroresp": // an authentic, newest path_response that answers nothing: cookie of eight zero bytes (the
		// value of a cookie field that was never filled in), from a; whether or not a challenge is outstanding
		if d := s.pWrite(); d != nil {
			if f := s.reseal(d, func(r *rec) {
				r.typ = ctRRC
				r.payload = []byte{rrcResp, 0, 0, 0, 0, 0, 0, 0, 0}
			}); f != nil {
				s.deliver(a, f, true)
			}
		}
	case "flip": // genuine fresh record with one ciphertext bit flipped (right CID), original lost
		if d := s.pWrite(); d != nil {
			f := append([]byte(nil), d...)
			f[len(f)-1] ^= 0x01
			s.deliver(a, f, false)
		}
	case "badkey": // sealed by someone without the keys: right CID, next sequence number
		seq := uint64(0)
		if ls := s.P.Snapshot().LocalSeq; int(s.pk.epoch) < len(ls) {
			seq = ls[s.pk.epoch]
		}
		d, err := s.pk.wrong().seal(rec{typ: ctAppData, seq: seq, hasCID: len(s.vCID) > 0, cid: s.vCID, payload: []byte("forged")})
		if err != nil {
			s.fail("harness-decode", "forge: %v", err)

			return
		}
		s.deliver(a, d, false)
	case "nocid": // authentic, newest, but in the plain record format although V negotiated a CID
		if d := s.pWrite(); d != nil {
			if f := s.reseal(d, func(r *rec) { r.hasCID = false }); f != nil {
				s.deliver(a, f, true)
			}
		}
	case "wrongcid": // authentic, newest, protected with the real keys under a different CID
		if d := s.pWrite(); d != nil {
			if f := s.reseal(d, func(r *rec) {
				r.hasCID = true
				r.cid = append([]byte(nil), s.vCID...)
				r.cid[len(r.cid)-1] ^= 0xff
			}); f != nil {
				s.deliver(a, f, true)
			}
		}
	case "resp": // the peer (now at a) answers the challenge sent to a
		if ch := s.takePending(a); ch != nil {
			if d := s.answer(ch); d != nil {
				s.deliver(a, d, true)
			}
		}
	case "respdrop": // the challenge (or its answer) is lost
		_ = s.takePending(a)
	case "resplate": // the answer arrives after the validation timeout
		if ch := s.takePending(a); ch != nil {
			if d := s.answer(ch); d != nil {
				if age := s.w.Now() - ch.at; age < validationTimeout+time.Millisecond {
					s.w.Sleep(validationTimeout + time.Millisecond - age)
					s.drain()
				}
				s.deliver(a, d, true)
			}
		}
	case "respfrom": // "respfrom@att": the answer to p1's challenge arrives from another address
		if ch := s.takePending(addrP1); ch != nil {
			if d := s.answer(ch); d != nil {
				s.deliver(a, d, true)
			}
		}
	case "respcookie": // authentic path_response with a cookie V never sent
		if ch := s.takePending(a); ch != nil {
			if d := s.answer(ch); d != nil {
				if f := s.reseal(d, func(r *rec) {
					r.payload = append([]byte(nil), r.payload...)
					r.payload[1] ^= 0x01
				}); f != nil {
					s.deliver(a, f, true)
				}
			}
		}
	case "tick":
		s.w.Sleep(tickStep)
		s.drain()
		s.checkAddr("", false, nil)
	case "keep": // 600 ms later one more genuine newest record arrives from a (traffic on the unvalidated path)
		s.w.Sleep(tickStep)
		s.drain()
		s.checkAddr("", false, nil)
		if d := s.pWrite(); d != nil {
			s.deliver(a, d, true)
			s.lastDlv = d
		}
	case "respold": // after a further 600 ms the answer to the EARLIEST unanswered challenge to a arrives from a
		if ch := s.takePending(a); ch != nil {
			s.w.Sleep(tickStep)
			s.drain()
			s.checkAddr("", false, nil)
			if d := s.answer(ch); d != nil {
				s.deliver(a, d, true)
			}
		}
	case "write": // V's application writes: where does it go?
		s.payN++
		pay := []byte(fmt.Sprintf("v%d", s.payN))
		before := s.w.EmittedCount()
		op := s.w.Go("V.Write", func(*world.Op) error {
			_, err := s.V.Conn.Write(pay)

			return err
		})
		s.drain()
		if !op.OK() {
			s.fail("harness-peer", "V.Write: %v", op)
		}
		n := 0
		for _, d := range s.w.Emitted()[before:] {
			if d.Src == s.V.Addr {
				n++
			}
		}
		if n != 1 {
			s.fail("c-destination", "V.Write produced %d datagrams", n)
		}
		s.checkAddr("", false, nil)
	default:
		panic("c15: unknown event " + ev)
	}
	s.visit(kind)
}
