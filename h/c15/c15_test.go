//go:build verif

package c15

import (
	"fmt"
	"strings"
	"testing"

	"github.com/pion/dtls/v3/zzverif/run"
	"github.com/pion/dtls/v3/zzverif/world"
)

// C15 — Connection IDs and peer address migration follow RFC 9146 / RFC 9853.
//
// Part M (migration, E1 bubble world). One case = one configuration x one event sequence, executed on a
// fresh association of two real dtls.Conn endpoints. The harness is the whole network and an on-path
// observer with three extra addresses (peer′ p1, peer″ p2, attacker att); see sim_test.go.
//
//   configuration  client CID x server CID in {none, zero-length (OnlySend), 1, 4, 8}^2 x DTLS {1.2, 1.3}
//                  x return_routability_check {negotiated, offer removed by a ClientHello hook, declined by a
//                  ServerHello hook} (only when both sides use CIDs: the library always offers RRC together
//                  with connection_id) x observed endpoint V in {server, client}; plus two "amp"
//                  configurations with a 100-byte peer CID, in which one path_challenge is larger than three
//                  times a small genuine record.
//   events         fresh@{peer,p1,p2} (the peer writes, the datagram arrives from that address) |
//                  replay@{p1,att} (already delivered genuine record) | stale@p1 (genuine, captured before,
//                  never delivered, older than the newest accepted) | flip@att (genuine with one bit
//                  flipped, right CID) | badkey@att (sealed with wrong keys, right CID, next sequence
//                  number) | nocid@p1 (real keys, newest, plain record format although V owns a CID) |
//                  wrongcid@p1 (real keys, newest, another CID of the right length) | resp@{p1,p2,peer}
//                  (the pending path_challenge to that address is handed to the peer and its
//                  path_response arrives from that address) | respdrop@p1 | resplate@p1 (arrives 1 ms after
//                  the 1 s validation period) | respfrom@att (answer to p1's challenge arrives from att) |
//                  respcookie@p1 (real keys, cookie differs in one bit) | tick (600 ms of fake time) |
//                  write (V's application writes) | keep@p1 (600 ms pass, then one more genuine newest record
//                  arrives from p1: traffic on the still unvalidated path) | respold@p1 (600 ms pass, then the
//                  answer to the EARLIEST unanswered challenge to p1 arrives from p1). The reference measures
//                  "in time" from the moment the answered challenge was SENT, whatever arrived in between.
//   sequences      all sequences up to the depth of the tier (quick: 2 everywhere, 3 on 16 core configurations
//                  and the amp ones; thorough: 3 everywhere, 4 on 25 core configurations and the amp ones) in
//                  which every resp* event has an earlier unanswered fresh@ to the same address (resp@peer:
//                  after a possible migration). A resp* event that finds no pending challenge at run time is a
//                  no-op: that execution is skipped (its prefix is a case of its own).
//
// How RRC is negotiated in this tree: there is no option for it. Whenever a ConnectionIDGenerator is configured
// the client's ClientHello carries connection_id AND return_routability_check (flight1 of both versions); the
// server echoes return_routability_check iff it sends connection_id and the client offered it; both sides set
// state.RRCNegotiated = offered && echoed (negotiation.DecideConnectionID -> Common.CommitNegotiatedExtensions).
// "CIDs without RRC" therefore needs a message hook: WithClientHelloMessageHook removing extension 61 ("noC")
// or, DTLS 1.2 only, WithServerHelloMessageHook ("noS"; the DTLS 1.3 flights never run the ServerHello hook).
//
// Oracle = reference model (sim_test.go: deliver / checkAddr / onVEmit / checkWrapping), clauses
//   (a) a protected record reaches the application iff it is authentic, carries V's own CID exactly when V
//       owns one, and its sequence number is unseen;
//   (b) every protected record an endpoint emits carries the receiver's CID iff the receiver owns one;
//   (c) RemoteAddr() and the destination of application data change only at a delivery of an accepted
//       path_response from X answering an unused challenge V sent to X less than 1 s before, RRC
//       negotiated, and an authentic newest record having arrived from X; never otherwise;
//   (d) bytes V sent to an unvalidated address <= 3 x bytes delivered to V from it.
// Part R (listener routing, pure): route_test.go.

var cidOpts = []int{0, -1, 1, 4, 8}

func alphabet(c config) []string {
	ev := []string{"fresh@peer", "fresh@p1", "fresh@p2", "replay@p1", "replay@att", "stale@p1", "flip@att", "badkey@att", "tick", "write"}
	if c.vCIDLen() > 0 {
		ev = append(ev, "nocid@p1", "wrongcid@p1")
		if c.rrcExpected() {
			ev = append(ev, "resp@p1", "respdrop@p1", "resplate@p1", "respfrom@att", "respcookie@p1", "resp@p2", "resp@peer",
				"keep@p1", "respold@p1", "stalechal@p1", "chal@p1", "zeroresp@p1")
		}
	}

	return ev
}

// enabled is the static necessary condition for ev after prefix (see "sequences" above).
func enabled(prefix []string, ev string) bool {
	if !strings.HasPrefix(ev, "resp") {
		return true
	}
	target := ev[strings.IndexByte(ev, '@')+1:]
	if strings.HasPrefix(ev, "respfrom") {
		target = "p1"
	}
	out := 0
	migrated := false
	for _, p := range prefix {
		switch {
		case p == "fresh@"+target || p == "keep@"+target:
			if target != "peer" || migrated {
				out++
			}
		case strings.HasPrefix(p, "resp"):
			t := p[strings.IndexByte(p, '@')+1:]
			if strings.HasPrefix(p, "respfrom") {
				t = "p1"
			}
			if t == target && out > 0 {
				out--
			}
			if p == "resp@p1" || p == "resp@p2" {
				migrated = true
			}
		}
	}

	return out > 0
}

func sequences(c config, depth int) [][]string {
	al := alphabet(c)
	var out [][]string
	var rec func(prefix []string)
	rec = func(prefix []string) {
		if len(prefix) > 0 {
			out = append(out, append([]string(nil), prefix...))
		}
		if len(prefix) == depth {
			return
		}
		for _, e := range al {
			if enabled(prefix, e) {
				rec(append(prefix, e))
			}
		}
	}
	rec(nil)

	return out
}

// extraSequences keep traffic flowing from the candidate address while a challenge is pending and then answer
// the ORIGINAL challenge after more than the validation period (no migration may follow).
var extraSequences = [][]string{
	{"fresh@p1", "keep@p1", "respold@p1"},
	{"fresh@p1", "keep@p1", "keep@p1", "respold@p1"},
	{"fresh@p1", "tick", "fresh@p1", "tick", "resp@p1"},
	{"fresh@p1", "keep@p1", "resp@p1", "write"},
}

type cfgDepth struct {
	c     config
	depth int
}

func configs(thorough bool) []cfgDepth {
	base, deep := 2, 3
	if thorough {
		base, deep = 3, 4
	}
	// core configurations get one more event: V owns a CID in all of them except where noted
	shapes := []string{"c4s4-rrc-VS", "c4s4-rrc-VC", "c8s1-rrc-VC", "c1s8-rrc-VS", "cZs4-rrc-VS", "c4sZ-rrc-VC", "c4s4-noC-VS", "c1s1-rrc-VS"}
	if thorough {
		shapes = append(shapes, "c8s8-rrc-VS", "c1s4-rrc-VC", "c4s4-noC-VC", "c4s4-noS-VS", "c4sZ-rrc-VS" /* V owns no CID */)
	}
	core := map[string]bool{}
	for _, sh := range shapes {
		core["12-"+sh], core["13-"+sh] = true, true
	}
	var out []cfgDepth
	add := func(c config) {
		d := base
		if core[c.name()] {
			d = deep
		}
		out = append(out, cfgDepth{c, d})
	}
	for _, ver := range []int{12, 13} {
		for _, cc := range cidOpts {
			for _, sc := range cidOpts {
				for _, vs := range []bool{true, false} {
					c := config{ver: ver, ccid: cc, scid: sc, rrc: true, vServer: vs, payLen: 3}
					add(c)
					if c.cidNegotiated() {
						c.rrc, c.rrcStrip = false, "C"
						add(c)
						if cc == sc && cc > 0 && ver == 12 { // DTLS 1.3 flights do not run the ServerHello hook
							c.rrcStrip = "S"
							add(c)
						}
					}
				}
			}
		}
		// amplification budget: a path_challenge towards a 100-byte CID is larger than 3x (and smaller than
		// 4x) one small genuine record
		pl := 4
		if ver == 13 {
			pl = 14
		}
		out = append(out, cfgDepth{config{ver: ver, ccid: 100, scid: 1, rrc: true, vServer: true, payLen: pl}, deep})
		// a path_response towards a 200-byte CID is larger than 5x one path_challenge V receives: the budget of
		// the first challenge admits no answer, that of the second exactly one, that of the third none again
		// (what is LEFT of the budget counts, not the budget as a whole); V is the server, then the client
		out = append(out, cfgDepth{config{ver: ver, ccid: 200, scid: 1, rrc: true, vServer: true, payLen: pl}, deep})
		out = append(out, cfgDepth{config{ver: ver, ccid: -1, scid: 200, rrc: true, vServer: false, payLen: pl}, deep})
	}

	return out
}

func runCase(t *testing.T, p *world.PKI, c config, seq []string, seed uint64) run.Outcome {
	var o run.Outcome
	world.Run(t, seed, func(w *world.World) {
		s := &sim{w: w, cfg: c}
		defer func() {
			if s.pr != nil {
				s.pr.CloseAll()
			}
		}()
		if err := s.setup(p); err != nil {
			o.Violation = fmt.Sprintf("cfg=%s setup: %v", c.name(), err)
			o.Key = "setup:" + c.name()
			o.Class = "SETUP-FAILED"

			return
		}
		for _, ev := range seq {
			if s.viol != "" || s.disabled {
				break
			}
			s.step(ev)
		}
		o.States, o.Transitions = s.states, s.trans
		o.Counters = map[string]int{}
		for k, v := range s.cnt {
			o.Counters[k] = v
		}
		if s.maxRatioPM > 0 {
			o.Counters[fmt.Sprintf("amp_ratio_le_%d", (s.maxRatioPM+499)/500*500)]++
		}
		if n := s.vRd.errors(); n > 0 {
			o.Counters["v_read_errors"] = n
		}
		chal := s.cnt["challenges"]
		if chal > 2 {
			chal = 2
		}
		rej := 0
		if s.cnt["rejected"] > 0 {
			rej = 1
		}
		o.Class = fmt.Sprintf("%s mig%d chal%d rej%d", c.kind(), s.cnt["migrations"], chal, rej)
		o.NonTrivial = s.nontrivial
		if s.viol != "" {
			o.Violation = s.viol + " | trace: " + strings.Join(s.trace, " ; ")
			o.Key = s.key
			o.Class = "VIOLATION"
		} else if s.disabled {
			o.Skip = true
		}
		o.Sample = map[string]any{"config": c.name(), "events": seq, "class": o.Class, "trace": s.trace}
	})

	return o
}

// runGroup executes every enabled one-event extension of prefix (each on a fresh association) and merges
// the outcomes: the case fails with the first violating extension (the text names further ones).
func runGroup(t *testing.T, p *world.PKI, c config, prefix []string, seed uint64) run.Outcome {
	var g run.Outcome
	g.Counters = map[string]int{}
	maxMig, maxChal, more := 0, 0, 0
	var moreKeys []string
	all := true
	for _, ev := range alphabet(c) {
		if !enabled(prefix, ev) {
			continue
		}
		seq := append(append([]string(nil), prefix...), ev)
		o := runCase(t, p, c, seq, seed)
		for k, v := range o.Counters {
			g.Counters[k] += v
		}
		if o.Skip {
			g.Counters["skipped_executions"]++

			continue
		}
		all = false
		g.Evals++
		if o.NonTrivial {
			g.Distinct++
			g.NonTrivial = true
		}
		g.Counters["class:"+o.Class]++
		g.States = append(g.States, o.States...)
		g.Transitions = append(g.Transitions, o.Transitions...)
		var mig, chal, rej int
		if _, err := fmt.Sscanf(o.Class[strings.IndexByte(o.Class, ' ')+1:], "mig%d chal%d rej%d", &mig, &chal, &rej); err == nil {
			maxMig, maxChal = max(maxMig, mig), max(maxChal, chal)
		}
		if o.Violation != "" {
			if g.Violation == "" {
				g.Violation, g.Key = "extension "+ev+": "+o.Violation, o.Key
			} else {
				more++
				if len(moreKeys) < 8 {
					moreKeys = append(moreKeys, o.Key)
				}
			}
		}
		if g.Sample == nil {
			g.Sample = o.Sample
		}
	}
	g.Class = fmt.Sprintf("%s group mig<=%d chal<=%d", c.kind(), maxMig, maxChal)
	if g.Violation != "" {
		g.Class = "VIOLATION"
		if more > 0 {
			g.Violation = fmt.Sprintf("(+%d further violating extensions, keys %v) ", more, moreKeys) + g.Violation
		}
	}
	g.Skip = all

	return g
}

// A case is (configuration, event sequence). Sequences shorter than the configuration's depth bound D are
// cases of their own; the sequences of length D are run in groups "prefix,*" (all enabled extensions of a
// prefix of length D-1), which keeps the case list small without changing the set of executions.
func TestC15(t *testing.T) {
	env := run.GetEnv()
	p := world.GetPKI(t)
	var cases []run.Case
	nseq := 0
	cfgs := configs(env.Thorough())
	for _, cd := range cfgs {
		c, depth := cd.c, cd.depth
		for _, seq := range sequences(c, depth-1) {
			seq := seq
			nseq++
			cases = append(cases, run.Case{
				ID:  "M/" + c.name() + "/" + strings.Join(seq, ","),
				Run: func(t *testing.T) run.Outcome { return runCase(t, p, c, seq, env.Seed+15) },
			})
		}
		for _, seq := range append([][]string{nil}, sequences(c, depth-1)...) {
			if len(seq) != depth-1 {
				continue
			}
			seq := seq
			n := 0
			for _, ev := range alphabet(c) {
				if enabled(seq, ev) {
					n++
				}
			}
			nseq += n
			cases = append(cases, run.Case{
				ID:  "M/" + c.name() + "/" + strings.Join(append(append([]string(nil), seq...), "*"), ","),
				Run: func(t *testing.T) run.Outcome { return runGroup(t, p, c, seq, env.Seed+15) },
			})
		}
	}
	// deadline-sliding scenarios deeper than the tier's bound, on every RRC configuration in which V owns a CID
	for _, cd := range cfgs {
		c := cd.c
		if !c.rrcExpected() || c.vCIDLen() == 0 {
			continue
		}
		for _, seq := range extraSequences {
			if len(seq) <= cd.depth {
				continue // already enumerated
			}
			seq := seq
			nseq++
			cases = append(cases, run.Case{
				ID:  "M/" + c.name() + "/" + strings.Join(seq, ","),
				Run: func(t *testing.T) run.Outcome { return runCase(t, p, c, seq, env.Seed+15) },
			})
		}
	}
	cases = append(cases, routeCases(env.Thorough())...)
	run.Main(t, "C15", cases, map[string]any{
		"configurations":  len(cfgs),
		"event_sequences": nseq,
		"tier":            env.Tier,
	})
}
