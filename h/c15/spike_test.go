package c15

import (
	"fmt"
	"testing"
	"time"

	"github.com/pion/dtls/v3/zzverif/world"
)

func TestSpike(t *testing.T) {
	p := world.GetPKI(t)
	for _, v := range []int{12, 13} {
		for _, cl := range [][2]int{{4, 4}, {-1, 4}, {0, 4}, {8, 1}} {
			world.Run(t, 1, func(w *world.World) {
				c := world.Cfg{MinV: v, MaxV: v, CIDLen: cl[0]}
				s := world.Cfg{MinV: v, MaxV: v, CIDLen: cl[1], SkipHelloVerify: false}
				pr, err := w.NewPair(p, c, s)
				if err != nil {
					t.Fatal(err)
				}
				n := world.NewNet(w, world.ClientAddr, nil)
				err = n.Pump(30*time.Second, pr.BothDone)
				fmt.Println("v", v, cl, "pump", err, pr.C.HS, pr.S.HS, "t=", w.Now())
				// drain
				err = n.Pump(5*time.Second, nil)
				fmt.Println(" after drain", err, "t=", w.Now(), "emitted", w.EmittedCount())
				cs, ss := pr.C.Snapshot(), pr.S.Snapshot()
				fmt.Printf(" C: lcid=%x rcid=%x rrc=%v raddr=%s ep=%d/%d\n", cs.LocalCID, cs.RemoteCID, cs.RRC, cs.RAddr, cs.LocalEpoch, cs.RemoteEpoch)
				fmt.Printf(" S: lcid=%x rcid=%x rrc=%v raddr=%s ep=%d/%d\n", ss.LocalCID, ss.RemoteCID, ss.RRC, ss.RAddr, ss.LocalEpoch, ss.RemoteEpoch)
				for _, d := range w.Emitted() {
					fmt.Printf("  #%d %s->%s at %v %s\n", d.ID, d.Src, d.Dst, d.At, world.DescribeCID(d.Data, pr.CIDLenFor(d.Src)))
				}
				pr.CloseAll()
			})
		}
	}
}
