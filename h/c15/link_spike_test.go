package c15

import (
	"fmt"
	"net"
	"reflect"
	"testing"
	"unsafe"

	"github.com/pion/dtls/v3"
	"github.com/pion/dtls/v3/internal/net/udp"
)

var _ = dtls.RandomCIDGenerator

//go:linkname cidDatagramRouter github.com/pion/dtls/v3.cidDatagramRouter
func cidDatagramRouter(size int) func([]byte) (string, bool)

//go:linkname cidConnIdentifier github.com/pion/dtls/v3.cidConnIdentifier
func cidConnIdentifier() func([]byte) (string, bool)

//go:linkname udpGetConn github.com/pion/dtls/v3/internal/net/udp.(*listener).getConn
func udpGetConn(l unsafe.Pointer, raddr net.Addr, buf []byte) (*udp.PacketConn, bool, error)

func TestLinkSpike(t *testing.T) {
	r := cidDatagramRouter(4)
	id, ok := r([]byte{25, 0xfe, 0xfd, 0, 1, 0, 0, 0, 0, 0, 5, 'A', 'B', 'C', 'D', 0, 2, 1, 2})
	fmt.Printf("%q %v\n", id, ok)
	_ = cidConnIdentifier()
	pcT := reflect.TypeOf(udp.PacketConn{})
	f, _ := pcT.FieldByName("listener")
	lt := f.Type.Elem()
	fmt.Println(lt, lt.NumField())
	for i := 0; i < lt.NumField(); i++ {
		fmt.Println(i, lt.Field(i).Name, lt.Field(i).Type, lt.Field(i).Offset)
	}
}
