//go:build verif

package c15

import (
	"errors"
	"fmt"

	dtls "github.com/pion/dtls/v3"
	dtlsstate "github.com/pion/dtls/v3/internal/state"
	"github.com/pion/dtls/v3/zzverif/refimpl"
	"github.com/pion/dtls/v3/zzverif/world"
)

// Record-level access for the harness: every record is opened / sealed by the independent reference
// implementation (refimpl) keyed from the association's root secrets — never by a pion function.

// dirKeys are the record-protection keys of one direction in the application epoch.
type dirKeys struct {
	v13   bool
	suite *refimpl.Suite
	k12   refimpl.Keys12
	k13   refimpl.Keys13
	epoch uint16
}

// rec is one protected record in the clear.
type rec struct {
	typ     uint8
	epoch   uint16
	seq     uint64
	hasCID  bool
	cid     []byte
	payload []byte
}

// secretsOf reads the root secrets from the client endpoint and derives both directions.
func secretsOf(pr *world.Pair) (client, server dirKeys, err error) {
	var suiteID uint16
	var master, cr, sr, apC, apS []byte
	v13 := false
	dtls.VerifPeek(pr.C.Conn, func(in dtls.VerifInternals) {
		cs := dtlsstate.CommonState(in.State)
		if cs.CipherSuite == nil {
			return
		}
		suiteID = uint16(cs.CipherSuite.ID())
		a, b := cs.LocalRandom.MarshalFixed(), cs.RemoteRandom.MarshalFixed()
		cr, sr = append([]byte(nil), a[:]...), append([]byte(nil), b[:]...)
		switch st := in.State.(type) {
		case *dtlsstate.State12:
			master = append([]byte(nil), st.MasterSecret...)
		case *dtlsstate.State13:
			v13 = true
			apC = append([]byte(nil), st.KeySchedule.ClientApplicationTrafficSecret0...)
			apS = append([]byte(nil), st.KeySchedule.ServerApplicationTrafficSecret0...)
		}
	})
	suite, ok := refimpl.SuiteByID(suiteID)
	if !ok {
		return client, server, fmt.Errorf("no reference suite for %#04x", suiteID)
	}
	if v13 {
		if len(apC) == 0 || len(apS) == 0 {
			return client, server, errors.New("no DTLS 1.3 application traffic secrets")
		}
		client = dirKeys{v13: true, suite: suite, k13: refimpl.TrafficKeys13(suite, apC), epoch: 3}
		server = dirKeys{v13: true, suite: suite, k13: refimpl.TrafficKeys13(suite, apS), epoch: 3}

		return client, server, nil
	}
	if len(master) == 0 {
		return client, server, errors.New("no DTLS 1.2 master secret")
	}
	kb := refimpl.KeyBlockFor(suite, master, cr, sr)
	client = dirKeys{suite: suite, k12: kb.Client(), epoch: 1}
	server = dirKeys{suite: suite, k12: kb.Server(), epoch: 1}

	return client, server, nil
}

// wrong returns keys that differ from k in every key byte (an attacker's guess).
func (k dirKeys) wrong() dirKeys {
	flip := func(b []byte) []byte {
		o := append([]byte(nil), b...)
		for i := range o {
			o[i] ^= 0x5a
		}

		return o
	}
	w := k
	w.k12 = refimpl.Keys12{MAC: flip(k.k12.MAC), Key: flip(k.k12.Key), IV: append([]byte(nil), k.k12.IV...)}
	w.k13 = refimpl.Keys13{Key: flip(k.k13.Key), IV: append([]byte(nil), k.k13.IV...), SNKey: append([]byte(nil), k.k13.SNKey...)}

	return w
}

// open opens the single record `data` (one whole record). cidLen is the CID length records of this
// direction carry; expected is the next expected sequence number (DTLS 1.3 reconstruction).
func (k dirKeys) open(data []byte, cidLen int, expected uint64) (rec, error) {
	if k.v13 {
		if len(data) == 0 || !refimpl.IsUnifiedHeader(data[0]) {
			return rec{}, errors.New("not a unified-header record")
		}
		r, rest, err := refimpl.Open13(k.suite, k.k13, data, cidLen, expected)
		if err != nil {
			return rec{}, err
		}
		if len(rest) != 0 {
			return rec{}, errors.New("trailing bytes")
		}

		return rec{typ: r.Type, epoch: k.epoch, seq: r.Seq, hasCID: data[0]&0x10 != 0, cid: r.CID, payload: r.Payload}, nil
	}
	if len(data) == 0 || refimpl.IsUnifiedHeader(data[0]) {
		return rec{}, errors.New("not a DTLS 1.2 record")
	}
	r, err := refimpl.Open12(k.suite, k.k12, data, cidLen)
	if err != nil {
		return rec{}, err
	}

	return rec{typ: r.Type, epoch: r.Epoch, seq: r.Seq, hasCID: r.WrapCID, cid: r.CID, payload: r.Payload}, nil
}

// seal protects r in the wire format of the version: with hasCID the RFC 9146 tls12_cid format / the
// unified header with the C bit, otherwise the plain format.
func (k dirKeys) seal(r rec) ([]byte, error) {
	if k.v13 {
		var cid []byte
		if r.hasCID {
			cid = r.cid
		}

		return refimpl.Seal13(k.suite, k.k13, refimpl.Record13{
			Type: r.typ, Epoch: k.epoch, Seq: r.seq, CID: cid, Seq16: true, WithLength: true, Payload: r.payload,
		})
	}

	return refimpl.Seal12(k.suite, k.k12, refimpl.Record12{
		Type: r.typ, Epoch: k.epoch, Seq: r.seq, WrapCID: r.hasCID, CID: r.cid, Payload: r.payload,
	})
}

// splitRecords splits a datagram into whole records (cidLen as above).
func splitRecords(data []byte, cidLen int) ([][]byte, error) {
	var out [][]byte
	for len(data) > 0 {
		r, rest, _, err := refimpl.NextRecord(data, cidLen)
		if err != nil {
			return out, err
		}
		out = append(out, r)
		data = rest
	}

	return out, nil
}
