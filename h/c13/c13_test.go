//go:build verif

package c13

import (
	"bytes"
	"fmt"
	"strings"
	"sync"
	"testing"
	"time"

	dtls "github.com/pion/dtls/v3"
	"github.com/pion/dtls/v3/pkg/crypto/elliptic"
	"github.com/pion/dtls/v3/pkg/protocol/extension"
	"github.com/pion/dtls/v3/pkg/protocol/extension/dtls13"
	"github.com/pion/dtls/v3/pkg/protocol/handshake"
	"github.com/pion/dtls/v3/zzverif/run"
	"github.com/pion/dtls/v3/zzverif/world"
)

// C13 — Cookie exchange: only a cookie request is sent until the cookie comes back.
//
// Scenario (one execution): a REAL server endpoint with hello verification on (library default) and
// an attacker-controlled client side. A real client endpoint in the same world supplies the genuine
// first ClientHello and (after being handed the server's HelloVerifyRequest / HelloRetryRequest) the
// genuine second ClientHello; it is then closed and none of its datagrams reaches the server except
// through the attacker. The attacker parses both ClientHellos with its own parser (hello.go), builds
// one second ClientHello of the alphabet, frames it the way a real client would (message_seq 1, next
// record sequence numbers, same fragment size) and delivers it 1..3 times with fake-time gaps
// before / between / after the deliveries.
//
// Oracle (evaluated after every delivery and every pure time step, on the bytes the server emitted):
// until a complete ClientHello that echoes exactly a cookie this server issued and is otherwise
// byte-identical to the first ClientHello has been delivered,
//   * every record the server emits is a HelloVerifyRequest (1.2) / HelloRetryRequest (1.3) or an
//     alert; nothing else (ServerHello, Certificate, ServerKeyExchange, ServerHelloDone, CCS,
//     protected record, ACK, ...);
//   * an alert datagram is not larger than the datagram that triggered it;
//   * nothing at all is emitted in a step in which only fake time passes;
//   * cookie requests emitted so far <= ClientHello datagrams delivered so far (reading: a request in
//     direct response to a datagram carrying (part of) a ClientHello is "in direct response to a
//     ClientHello"; with a fragmented second ClientHello the 1.2 server answers the first fragment
//     with another HelloVerifyRequest, which this reading allows);
//   * a cookie-request datagram is not larger than the datagram(s) of the ClientHello delivery that
//     elicited it.
// Positive control: the exact genuine second ClientHello makes the server proceed with ServerHello.

// ---------------------------------------------------------------------------------------------
// Profiles: what the genuine client / server look like.

type profile struct {
	Name   string
	V13    bool
	C, S   world.Cfg
	Resume string // "": none; "unknown": client offers a session id the server's store no longer has; "known": store has it
	// SendFault: whenever an attacker datagram reaches the server its transport refuses the next WriteTo once with
	// a temporary, non-timeout net.Error (what a connected UDP socket reports after an ICMP port unreachable —
	// which is what a spoofed victim's host answers a cookie request with). Whatever the library makes of the
	// failed send, a cookie request may still leave only in direct response to a ClientHello, never on a timer.
	SendFault bool
	// FreeKeyShare: the client's first ClientHello has no share for the group the server prefers, so the
	// HelloRetryRequest selects a group and the genuine second ClientHello carries a fresh share for it
	// (RFC 8446 4.1.2: key_share is one of the fields a retried ClientHello replaces). "Otherwise identical" is
	// then judged with key_share left out, as the cookie extension is.
	FreeKeyShare bool
}

func profiles() []profile {
	v13 := func(c world.Cfg) world.Cfg { c.MinV, c.MaxV = 13, 13; return c }
	rich := world.Cfg{ALPN: []string{"h3", "verif"}, CIDLen: 4,
		SRTP: []dtls.SRTPProtectionProfile{dtls.SRTP_AES128_CM_HMAC_SHA1_80, dtls.SRTP_AEAD_AES_128_GCM}}
	alpn := world.Cfg{ALPN: []string{"h3", "verif"}}
	return []profile{
		// library defaults
		{Name: "12"},
		// more extensions in the ClientHello: ALPN, use_srtp, connection_id
		{Name: "12x", C: rich, S: rich},
		// DTLS 1.3 (ClientHello of ~1.5 kB: two fragments at the default MTU)
		{Name: "13", V13: true, C: v13(world.Cfg{}), S: v13(world.Cfg{})},
		// DTLS 1.2 with MTU 100: both ClientHellos are fragmented
		{Name: "12m", C: world.Cfg{MTU: 100}, S: world.Cfg{MTU: 100}},
		// the first ClientHello offers a session id the server's store does not (any longer) know
		{Name: "12r", Resume: "unknown"},
		{Name: "13x", V13: true, C: v13(alpn), S: v13(alpn)},
		// retransmission configuration of the server: backoff disabled, short flight interval (the timer path that
		// must never emit a cookie request depends on these options; added after a seeded change hid behind them)
		{Name: "12nb", S: world.Cfg{NoBackoff: true, FlightInterval: 300 * time.Millisecond}},
		{Name: "12sf", SendFault: true},
		{Name: "12nbsf", SendFault: true, S: world.Cfg{NoBackoff: true, FlightInterval: 300 * time.Millisecond}},
		{Name: "13sf", V13: true, SendFault: true, C: v13(world.Cfg{}), S: v13(world.Cfg{})},
		// a client that, like most other stacks, sends a key share for ONE group only, and not for the group the
		// server prefers: the HelloRetryRequest then also selects a group and the second ClientHello differs from
		// the first in key_share as well as in the cookie (the library's own client offers a share for every group)
		{Name: "13ks", V13: true, FreeKeyShare: true, C: v13(world.Cfg{Extra: []dtls.Option{oneKeyShare(elliptic.X25519)}}), S: v13(world.Cfg{})},
		{Name: "13nb", V13: true, C: v13(world.Cfg{}), S: v13(world.Cfg{NoBackoff: true, FlightInterval: 300 * time.Millisecond})},
	}
}

// oneKeyShare is a ClientHello hook that keeps, in a ClientHello offering shares for several groups, only the
// share for keep (idempotent: the second ClientHello carries the one share the server asked for and stays as
// it is).
func oneKeyShare(keep elliptic.Curve) dtls.Option {
	return dtls.WithClientHelloMessageHook(func(m handshake.MessageClientHello) handshake.Message {
		for i, e := range m.Extensions {
			if e.ExtensionType() != extension.TypeKeyShare {
				continue
			}
			ks, ok := e.(*dtls13.ClientKeyShare)
			if !ok {
				panic(fmt.Sprintf("HARNESS: key_share extension of type %T", e))
			}
			if len(ks.Shares) < 2 {
				continue
			}
			var kept []dtls13.KeyShareEntry
			for _, sh := range ks.Shares {
				if sh.Group == keep {
					kept = append(kept, sh)
				}
			}
			ext := append([]extension.Value(nil), m.Extensions...)
			ext[i] = &dtls13.ClientKeyShare{Shares: kept}
			m.Extensions = ext
		}
		return &m
	})
}

func (p profile) ver() string {
	if p.V13 {
		return "v13"
	}
	return "v12"
}

// ---------------------------------------------------------------------------------------------
// Genuine capture.

type genuine struct {
	CH1, CH2 [][]byte // datagrams of the genuine first / second ClientHello
	Req      []byte   // the cookie-request datagram that answered CH1
	M1, M2   *message
	H1, H2   *hello
	Cookie   []byte
	MaxFrag  int
	FreeKS   bool
}

func (g *genuine) analyse(v13 bool) error {
	var err error
	if g.M1, err = reassemble(g.CH1); err != nil {
		return fmt.Errorf("first ClientHello: %w", err)
	}
	if g.M2, err = reassemble(g.CH2); err != nil {
		return fmt.Errorf("second ClientHello: %w", err)
	}
	if g.M1.Type != hsClientHello || g.M2.Type != hsClientHello || g.M1.MsgSeq != 0 || g.M2.MsgSeq != 1 {
		return fmt.Errorf("unexpected genuine messages: type %d/%d seq %d/%d", g.M1.Type, g.M2.Type, g.M1.MsgSeq, g.M2.MsgSeq)
	}
	if g.H1, err = parseHello(g.M1.Body); err != nil {
		return err
	}
	if g.H2, err = parseHello(g.M2.Body); err != nil {
		return err
	}
	g.MaxFrag = 1200
	if len(g.M1.FragLens) > 1 {
		g.MaxFrag = g.M1.FragLens[0]
	} else if len(g.M2.FragLens) > 1 {
		g.MaxFrag = g.M2.FragLens[0]
	}
	// Fidelity of the attacker's own codec: decoding and re-encoding reproduces the genuine bytes.
	if !bytes.Equal(g.H1.marshal(), g.M1.Body) || !bytes.Equal(g.H2.marshal(), g.M2.Body) {
		return fmt.Errorf("ClientHello codec does not round-trip")
	}
	if !sameDatagrams(frame(g.M1.Body, 0, g.M1.RecSeq0, g.MaxFrag), g.CH1) {
		return fmt.Errorf("re-framing the first ClientHello does not reproduce the capture")
	}
	if g.M2.RecSeq0 != uint64(len(g.CH1)) || !sameDatagrams(frame(g.M2.Body, 1, g.M2.RecSeq0, g.MaxFrag), g.CH2) {
		return fmt.Errorf("re-framing the second ClientHello does not reproduce the capture")
	}
	rf, err := parseSingle(g.Req)
	if err != nil {
		return fmt.Errorf("cookie request: %w", err)
	}
	if g.Cookie, err = cookieFromRequest(rf.Body, v13); err != nil {
		return err
	}
	c2, ok := cookieOf(g.H2, v13)
	if !ok || !bytes.Equal(c2, g.Cookie) || len(g.Cookie) == 0 {
		return fmt.Errorf("genuine second ClientHello does not echo the issued cookie (%x vs %x)", c2, g.Cookie)
	}
	if !bytes.Equal(comparable(g.H2, v13, g.FreeKS), comparable(g.H1, v13, g.FreeKS)) {
		return fmt.Errorf("genuine second ClientHello differs from the first in more than the cookie")
	}
	if g.FreeKS && bytes.Equal(withoutCookie(g.H2, v13), withoutCookie(g.H1, v13)) {
		return fmt.Errorf("profile expects a HelloRetryRequest that selects a group, but the second ClientHello kept its key_share")
	}
	return nil
}

// ---------------------------------------------------------------------------------------------
// The attacker alphabet.

const (
	famNone      = "none"
	famCH1Verb   = "ch1-verbatim"
	famCH1Retr   = "ch1-retransmit"
	famAbsent    = "cookie-absent"
	famFlip      = "cookie-bitflip"
	famStale     = "cookie-stale"
	famTrunc     = "cookie-truncated"
	famExtended  = "cookie-extended"
	famBody      = "right-cookie-altered-body"
	famExact     = "exact"
	// famExactOrRef: right cookie, everything but the payload of key_share as in the first ClientHello, after a
	// HelloRetryRequest that selected a group: the property lets the server proceed, the protocol lets it
	// refuse (wrong group) — either is accepted
	famExactOrRef = "exact-or-refused"
	famResumeKnw = "resume-known-session"
	famNotHello  = "not-a-clienthello"
)

// second is what the attacker sends after the cookie request.
type second struct {
	None     bool
	NotHello bool     // Raw is not (part of) a ClientHello: it may elicit alerts at most, never a cookie request
	Raw      [][]byte // verbatim datagrams (same bytes at every repetition)
	H        *hello   // otherwise: this hello, framed freshly at every repetition
	MsgSeq   uint16
}

type variant struct {
	Name   string
	Family string
	Alt    string // body family: which field/extension was altered
	Build  func(g *genuine, stale []byte) second
}

func flipBit(b []byte, bit int) []byte {
	o := append([]byte{}, b...)
	o[bit/8] ^= 0x80 >> (bit % 8)
	return o
}

// buildVariants enumerates the alphabet for a profile from the structure of its genuine hellos
// (number of suites, extension types, cookie length) — never from random byte values.
func buildVariants(g *genuine, v13 bool) []variant {
	var vs []variant
	add := func(name, fam, alt string, b func(g *genuine, stale []byte) second) {
		vs = append(vs, variant{Name: name, Family: fam, Alt: alt, Build: b})
	}
	cookieVar := func(name, fam string, f func(c, stale []byte) []byte) {
		add(name, fam, "", func(g *genuine, stale []byte) second {
			return second{H: withCookie(g.H2, v13, f(g.Cookie, stale)), MsgSeq: 1}
		})
	}
	add("none", famNone, "", func(*genuine, []byte) second { return second{None: true} })
	add("ch1-verbatim", famCH1Verb, "", func(g *genuine, _ []byte) second { return second{Raw: g.CH1} })
	add("ch1-retransmit", famCH1Retr, "", func(g *genuine, _ []byte) second { return second{H: g.H1.clone(), MsgSeq: 0} })
	if v13 {
		// no cookie at all: the first ClientHello under message_seq 1
		add("cookie-ext-removed", famAbsent, "", func(g *genuine, _ []byte) second { return second{H: g.H1.clone(), MsgSeq: 1} })
		if g.FreeKS {
			// the second ClientHello (fresh share for the selected group) with the cookie extension left out
			add("cookie-ext-removed-fresh-share", famAbsent, "", func(g *genuine, _ []byte) second {
				h, err := parseHello(withoutCookie(g.H2, true))
				if err != nil {
					panic(err)
				}
				return second{H: h, MsgSeq: 1}
			})
			// right cookie, but the first ClientHello's own key_share instead of the requested one
			add("cookie-right-old-share", famExactOrRef, "", func(g *genuine, _ []byte) second {
				h := g.H2.clone()
				h.Exts[h.extIndex(extKeyShare)].Data = append([]byte{}, g.H1.Exts[g.H1.extIndex(extKeyShare)].Data...)
				return second{H: h, MsgSeq: 1}
			})
		}
	}
	cookieVar("cookie-empty", famAbsent, func(_, _ []byte) []byte { return nil })
	n := len(g.Cookie)
	for bit := 0; bit < 8*n; bit++ {
		bit := bit
		cookieVar(fmt.Sprintf("cookie-flip-%03d", bit), famFlip, func(c, _ []byte) []byte { return flipBit(c, bit) })
	}
	cookieVar("cookie-stale", famStale, func(_, stale []byte) []byte { return stale })
	for l := 1; l < n; l++ {
		l := l
		cookieVar(fmt.Sprintf("cookie-trunc-%02d", l), famTrunc, func(c, _ []byte) []byte { return c[:l] })
	}
	cookieVar("cookie-extended", famExtended, func(c, _ []byte) []byte { return append(append([]byte{}, c...), 0xA5) })

	bodyFam := famBody
	body := func(alt string, f func(h *hello)) {
		add("body/"+alt, bodyFam, alt, func(g *genuine, _ []byte) second {
			h := g.H2.clone()
			f(h)
			return second{H: h, MsgSeq: 1}
		})
	}
	body("legacy-version-feff", func(h *hello) { h.Ver = [2]byte{0xfe, 0xff} })
	body("legacy-version-fefc", func(h *hello) { h.Ver = [2]byte{0xfe, 0xfc} })
	for i := 0; i < 32; i++ {
		i := i
		body(fmt.Sprintf("random-byte%02d-bitflip", i), func(h *hello) { h.Random[i] ^= 1 << (i % 8) })
	}
	if len(g.H2.SID) == 0 {
		body("session-id-set-1", func(h *hello) { h.SID = []byte{0x5a} })
		body("session-id-set-32", func(h *hello) { h.SID = bytes.Repeat([]byte{0x5a}, 32) })
	} else {
		body("session-id-removed", func(h *hello) { h.SID = nil })
		body("session-id-bitflip", func(h *hello) { h.SID[0] ^= 1 })
		body("session-id-truncated", func(h *hello) { h.SID = h.SID[:len(h.SID)-1] })
	}
	if v13 {
		body("legacy-cookie-set", func(h *hello) { h.Cookie = []byte{0x5a} })
	}
	ns := len(g.H2.Suites)
	for i := 0; i < ns; i++ {
		i := i
		if ns > 1 {
			body(fmt.Sprintf("suite-%d-removed", i), func(h *hello) { h.Suites = append(h.Suites[:i:i], h.Suites[i+1:]...) })
		}
		body(fmt.Sprintf("suite-%d-altered", i), func(h *hello) { h.Suites[i] ^= 0x0100 })
		if i+1 < ns {
			body(fmt.Sprintf("suite-%d-%d-swapped", i, i+1), func(h *hello) { h.Suites[i], h.Suites[i+1] = h.Suites[i+1], h.Suites[i] })
		}
	}
	body("suite-appended", func(h *hello) { h.Suites = append(h.Suites, 0x00ff) })
	body("compression-altered", func(h *hello) { h.Comp = []byte{1} })
	body("compression-appended", func(h *hello) { h.Comp = append(h.Comp, 1) })
	body("compression-emptied", func(h *hello) { h.Comp = nil })
	for i, x := range g.H2.Exts {
		i, typ := i, x.Type
		if v13 && typ == extCookie {
			continue // alterations of the cookie extension are the cookie families above
		}
		// after a HelloRetryRequest that selected a group, key_share is (like the cookie) outside the comparison:
		// variants that only touch it are "exact or refused"
		bodyFam = famBody
		if g.FreeKS && typ == extKeyShare {
			bodyFam = famExactOrRef
		}
		body(fmt.Sprintf("ext-%d-removed", typ), func(h *hello) { h.Exts = append(h.Exts[:i:i], h.Exts[i+1:]...) })
		alter := func(h *hello) {
			d := h.Exts[i].Data
			if len(d) == 0 {
				h.Exts[i].Data = []byte{0}
			} else {
				d[len(d)-1] ^= 1
			}
		}
		body(fmt.Sprintf("ext-%d-altered", typ), alter)
		if g.FreeKS && i+1 < len(g.H2.Exts) && g.H2.Exts[i+1].Type == extKeyShare {
			bodyFam = famExactOrRef
		}
		if i+1 < len(g.H2.Exts) && !(v13 && g.H2.Exts[i+1].Type == extCookie) {
			body(fmt.Sprintf("ext-%d-%d-swapped", typ, g.H2.Exts[i+1].Type), func(h *hello) { h.Exts[i], h.Exts[i+1] = h.Exts[i+1], h.Exts[i] })
		}
	}
	bodyFam = famBody
	body("ext-unknown-appended", func(h *hello) { h.Exts = append(h.Exts, ext{Type: 0xffa5, Data: []byte{1, 2, 3}}) })
	if !v13 {
		body("ext-block-removed", func(h *hello) { h.HasExts, h.Exts = false, nil })
	}
	// datagrams that are not ClientHellos: a cookie request is "sent only in direct response to a ClientHello"
	rec := func(typ byte, seq uint64, body []byte) []byte {
		return append([]byte{typ, 0xfe, 0xfd, 0, 0, byte(seq >> 40), byte(seq >> 32), byte(seq >> 24), byte(seq >> 16), byte(seq >> 8), byte(seq), byte(len(body) >> 8), byte(len(body))}, body...)
	}
	oneRN := append([]byte{0, 16}, make([]byte, 16)...)
	nonHello := map[string][]byte{
		"ack-empty":              rec(26, 900, []byte{0, 0}),
		"ack-one-record":         rec(26, 901, oneRN),
		"alert-warning":          rec(21, 902, []byte{1, 0}),
		"ccs":                    rec(20, 903, []byte{1}),
		"unknown-content-type":   rec(99, 904, []byte{1, 2, 3}),
		"handshake-finished":     rec(22, 905, append([]byte{20, 0, 0, 12, 0, 1, 0, 0, 0, 0, 0, 12}, make([]byte, 12)...)),
		"handshake-hellorequest": rec(22, 906, []byte{0, 0, 0, 0, 0, 1, 0, 0, 0, 0, 0, 0}),
		"one-byte":               {0x16},
	}
	// not a datagram at all: the server's socket reports ECONNREFUSED once (an ICMP port unreachable for the cookie
	// request came back — what the host of a spoofed source address answers)
	nonHello["socket-error-econnrefused"] = socketErrMarker
	for _, name := range world.SortedKeys(nonHello) {
		d := nonHello[name]
		add("nothello-"+name, famNotHello, "", func(*genuine, []byte) second { return second{NotHello: true, Raw: [][]byte{d}} })
	}
	add("exact", famExact, "", func(g *genuine, _ []byte) second { return second{H: g.H2.clone(), MsgSeq: 1} })
	return vs
}

// ---------------------------------------------------------------------------------------------
// Tick placements.

type placement struct{ Pre, Mid, Post time.Duration }

var tickValues = []time.Duration{0, 1500 * time.Millisecond, 30 * time.Second}

func tickName(d time.Duration) string {
	switch d {
	case 0:
		return "0"
	case 1500 * time.Millisecond:
		return "1.5"
	}
	return fmt.Sprint(int(d.Seconds()))
}

func (p placement) String() string {
	return "t" + tickName(p.Pre) + "-" + tickName(p.Mid) + "-" + tickName(p.Post)
}

// placements: thorough = the full product {0,1.5s,30s}^3; quick = at most one non-zero gap, plus all
// gaps 1.5 s and all gaps 30 s. withMid=false (a single datagram or none is delivered) drops the
// "between" dimension.
func placements(thorough, withMid bool) []placement {
	var out []placement
	for _, a := range tickValues {
		for _, b := range tickValues {
			for _, c := range tickValues {
				if !withMid && b != 0 {
					continue
				}
				nz := 0
				for _, x := range []time.Duration{a, b, c} {
					if x != 0 {
						nz++
					}
				}
				all := a == c && (b == a || !withMid)
				if thorough || nz <= 1 || all {
					out = append(out, placement{a, b, c})
				}
			}
		}
	}
	return out
}

// ---------------------------------------------------------------------------------------------
// The oracle.

type oracle struct {
	v13       bool
	h1NoCk    []byte
	freeKS    bool
	exact     bool     // an exact ClientHello has been delivered
	proceeded bool     // the server emitted a real ServerHello after that
	chDgrams  int      // ClientHello datagrams delivered so far
	requests  int      // cookie requests emitted so far
	issued    [][]byte // cookies issued so far
	alerts    int
	kind      string // first violation kind ("" = none)
	text      string
}

func (o *oracle) fail(kind, format string, a ...any) {
	if o.kind == "" {
		o.kind = kind
		o.text = fmt.Sprintf(format, a...)
	}
}

// isExact: body echoes exactly a cookie this server issued and is otherwise identical to the first
// ClientHello.
func (o *oracle) isExact(body []byte) bool {
	h, err := parseHello(body)
	if err != nil {
		return false
	}
	c, ok := cookieOf(h, o.v13)
	if !ok {
		return false
	}
	hit := false
	for _, ic := range o.issued {
		if len(ic) > 0 && bytes.Equal(ic, c) {
			hit = true
		}
	}
	return hit && bytes.Equal(comparable(h, o.v13, o.freeKS), o.h1NoCk)
}

// observe judges what the server emitted in one step. trigger is the delivered datagram (nil for a
// pure time step), elicitBytes the total size of the datagrams of the current ClientHello delivery.
// It returns a short rendering of the reaction.
func (o *oracle) observe(trigger []byte, elicitBytes int, emitted [][]byte) string {
	if len(emitted) == 0 {
		return "-"
	}
	var toks []string
	for _, d := range emitted {
		recs, err := world.ParseDatagram(d, 0)
		isReq, isAlert, realSH := false, false, false
		var forbidden []string
		if err != nil {
			forbidden = append(forbidden, "unparseable("+err.Error()+")")
		}
		for _, r := range recs {
			switch {
			case r.Unified || r.Epoch != 0:
				forbidden = append(forbidden, fmt.Sprintf("protected-record(epoch %d)", r.Epoch))
			case r.Type == ctHandshake:
				if len(r.HS) == 0 {
					forbidden = append(forbidden, "malformed-handshake-record")
				}
				for _, f := range r.HS {
					switch {
					case !o.v13 && f.Type == hsHelloVerifyRequest && f.FragOff == 0 && f.FragLen == f.Len:
						isReq = true
						o.requests++
						if c, err := cookieFromRequest(f.Body, false); err == nil {
							o.issued = append(o.issued, c)
						}
					case o.v13 && f.Type == hsServerHello && f.FragOff == 0 && f.FragLen == f.Len && len(f.Body) >= 34 && bytes.Equal(f.Body[2:34], hrrRandom):
						isReq = true
						o.requests++
						if c, err := cookieFromRequest(f.Body, true); err == nil {
							o.issued = append(o.issued, c)
						}
					default:
						if f.Type == hsServerHello {
							realSH = true
						}
						forbidden = append(forbidden, world.HSName(f.Type))
					}
				}
			case r.Type == ctAlert && len(r.Body) == 2:
				isAlert = true
				o.alerts++
				toks = append(toks, fmt.Sprintf("alert(%d/%d)", r.Body[0], r.Body[1]))
			default:
				forbidden = append(forbidden, fmt.Sprintf("record-type-%d", r.Type))
			}
		}
		if isReq {
			toks = append(toks, "request")
		}
		if len(forbidden) > 0 {
			toks = append(toks, "["+strings.Join(forbidden, "+")+"]")
		}
		if o.exact {
			if realSH {
				o.proceeded = true
			}
			continue
		}
		switch {
		case trigger == nil:
			o.fail("emission-on-timer", "server emitted %s while only fake time passed", world.Describe(d))
		case len(forbidden) > 0:
			o.fail("forbidden-record", "server emitted %s (%s) before any ClientHello with the exact cookie and identical body was delivered",
				world.Describe(d), strings.Join(forbidden, "+"))
		case isAlert && len(d) > len(trigger):
			o.fail("alert-larger-than-trigger", "alert datagram of %d bytes answers a datagram of %d bytes", len(d), len(trigger))
		case isReq && len(d) > elicitBytes:
			o.fail("request-larger-than-clienthello", "cookie request datagram of %d bytes answers ClientHello datagram(s) of %d bytes", len(d), elicitBytes)
		}
	}
	if !o.exact && o.requests > o.chDgrams {
		o.fail("more-requests-than-clienthellos", "%d cookie requests emitted for %d ClientHello datagrams delivered", o.requests, o.chDgrams)
	}
	return strings.Join(toks, "+")
}

// ---------------------------------------------------------------------------------------------
// One execution.

type execCase struct {
	P    profile
	V    variant
	Reps int
	T    placement
}

func (c execCase) id() string {
	return fmt.Sprintf("%s/%s/r%d/%s", c.P.Name, c.V.Name, c.Reps, c.T)
}

type runner struct {
	w      *world.World
	pr     *world.Pair
	orc    *oracle
	seen   int
	steps  []string
	react  []string
	tr     world.Tracer
	tsteps int
	// notHello: the datagrams of the current "second" are not ClientHello datagrams
	notHello  bool
	sendFault bool
	freeKS    bool
}

// newServerEmissions returns what the server emitted since the last call and clears the network.
func (r *runner) newServerEmissions() [][]byte {
	r.w.Settle()
	var out [][]byte
	log := r.w.Emitted()
	for _, d := range log[r.seen:] {
		if d.Src == world.ServerAddr {
			out = append(out, d.Data)
		}
	}
	r.seen = len(log)
	for _, d := range r.w.InFlight() {
		r.w.Take(d)
	}
	return out
}

func (r *runner) visit(ev string) {
	r.tr.Visit(r.pr.StateString(nil), ev)
}

// deliver hands one attacker datagram to the server and judges the reaction. completes is the body
// of the ClientHello this datagram completes (nil if it is not the last fragment).
var socketErrMarker = []byte("\x00verif-socket-error")

func (r *runner) deliver(tag string, d []byte, elicit int, completes []byte, second bool) {
	if bytes.Equal(d, socketErrMarker) {
		r.w.PushReadErr(world.ServerAddr, world.ConnRefused())
		em := r.newServerEmissions()
		re := r.orc.observe(d, elicit, em)
		r.log(tag, d, em)
		if second {
			r.react = append(r.react, re)
		}
		r.visit("socket-error")
		return
	}
	if r.sendFault && second {
		r.pr.S.PC.FailNextWrites(1, world.TempNetErr{})
		defer r.pr.S.PC.FailNextWrites(0, nil)
	}
	ok := r.w.Push(world.ClientAddr, world.ServerAddr, d)
	if ok && !r.notHello {
		r.orc.chDgrams++
	}
	was := r.orc.exact
	ev := "deliver"
	if completes != nil && ok && !was && r.orc.isExact(completes) {
		// From this delivery on the server is allowed to proceed: its reaction to this very datagram is
		// already exempt (and is the positive control).
		r.orc.exact = true
		ev = "deliver-exact"
	}
	em := r.newServerEmissions()
	re := r.orc.observe(d, elicit, em)
	if r.orc.exact && !was {
		re = "no-serverhello(" + re + ")"
		if r.orc.proceeded {
			re = "PROCEEDS"
		}
	}
	r.log(tag, d, em)
	if second && !was {
		r.react = append(r.react, re)
	}
	r.visit(ev)
}

func (r *runner) log(tag string, d []byte, em [][]byte) {
	var ds []string
	for _, e := range em {
		ds = append(ds, world.Describe(e))
	}
	if len(ds) == 0 {
		ds = []string{"nothing"}
	}
	s := tag + " sleep"
	if d != nil {
		s = tag + " " + world.Describe(d)
	}
	s += " => " + strings.Join(ds, " ")
	r.steps = append(r.steps, s)
	r.w.Logf("c13: %s", s)
}

func (r *runner) sleep(tag string, d time.Duration) {
	if d == 0 {
		return
	}
	r.w.Sleep(d)
	em := r.newServerEmissions()
	re := r.orc.observe(nil, 0, em)
	r.log(fmt.Sprintf("%s(%v)", tag, d), nil, em)
	if re != "-" && !r.orc.exact {
		r.react = append(r.react, "timer:"+re)
	}
	r.tsteps++
	r.visit("sleep-" + tickName(d))
}

// setupPair builds the pair for a profile (with the resumption prelude when asked for).
func setupPair(w *world.World, p *world.PKI, prof profile) (*world.Pair, error) {
	c, s := prof.C, prof.S
	if prof.Resume != "" {
		cs, ss := world.NewMapStore(), world.NewMapStore()
		c.Store, s.Store = cs, ss
		pr, err := w.NewPair(p, c, s)
		if err != nil {
			return nil, err
		}
		n := world.NewNet(w, world.ClientAddr, nil)
		if err := n.Pump(30*time.Second, pr.BothDone); err != nil || !pr.BothOK() {
			return nil, fmt.Errorf("resumption prelude failed: %v %v %v", err, pr.C.HS, pr.S.HS)
		}
		pr.CloseAll()
		if cs.Len() == 0 || ss.Len() == 0 {
			return nil, fmt.Errorf("resumption prelude stored no session (client %d, server %d)", cs.Len(), ss.Len())
		}
		if prof.Resume == "unknown" {
			for _, k := range world.SortedKeys(ss.Snapshot()) {
				_ = ss.Del([]byte(k))
			}
		}
	}
	return w.NewPair(p, c, s)
}

// capture runs the world up to the point where the genuine first ClientHello has been answered by the
// server and the real client has produced (but not delivered) the genuine second ClientHello; the
// real client is then closed. The oracle is already active for the first ClientHello.
func (r *runner) capture(v13 bool) (*genuine, string) {
	w := r.w
	g := &genuine{}
	w.Settle()
	for _, d := range w.InFlight() {
		if d.Src != world.ClientAddr {
			return nil, "harness: server emitted before any ClientHello: " + world.Describe(d.Data)
		}
		w.Take(d)
		g.CH1 = append(g.CH1, d.Data)
	}
	r.seen = w.EmittedCount()
	m1, err := reassemble(g.CH1)
	if err != nil {
		return nil, "harness: " + err.Error()
	}
	h1, err := parseHello(m1.Body)
	if err != nil {
		return nil, "harness: " + err.Error()
	}
	r.orc.freeKS = r.freeKS
	r.orc.h1NoCk = comparable(h1, v13, r.orc.freeKS)
	g.FreeKS = r.freeKS
	r.visit("init")
	elicit := 0
	var reqs [][]byte
	for i, d := range g.CH1 {
		elicit += len(d)
		ok := w.Push(world.ClientAddr, world.ServerAddr, d)
		if ok {
			r.orc.chDgrams++
		}
		em := r.newServerEmissions()
		re := r.orc.observe(d, elicit, em)
		_ = re
		r.log(fmt.Sprintf("first[%d]", i), d, em)
		r.visit("deliver-first")
		reqs = append(reqs, em...)
	}
	if r.orc.kind != "" {
		return nil, ""
	}
	if len(reqs) != 1 || r.orc.requests != 1 {
		return nil, fmt.Sprintf("no-cookie-request: the first ClientHello was answered by %d datagrams / %d cookie requests", len(reqs), r.orc.requests)
	}
	g.Req = reqs[0]
	// let the real client answer; its datagrams never reach the server
	w.Push(world.ServerAddr, world.ClientAddr, g.Req)
	w.Settle()
	for _, d := range w.InFlight() {
		w.Take(d)
		if d.Src == world.ClientAddr {
			g.CH2 = append(g.CH2, d.Data)
		}
	}
	cl := w.Go("client.Close", func(*world.Op) error { return r.pr.C.Conn.Close() })
	w.Settle()
	_ = cl
	if em := r.newServerEmissions(); len(em) != 0 {
		r.orc.observe(nil, 0, em)
		return nil, ""
	}
	if err := g.analyse(v13); err != nil {
		return nil, "harness: " + err.Error()
	}
	return g, ""
}

var (
	staleMu    sync.Mutex
	staleCache = map[string][]byte{}
)

// staleCookie returns a cookie issued by ANOTHER server instance (another world, another seed) for
// the same profile.
func staleCookie(t *testing.T, p *world.PKI, prof profile, seed uint64) ([]byte, string) {
	key := fmt.Sprintf("%s/%d", prof.Name, seed)
	staleMu.Lock()
	defer staleMu.Unlock()
	if c, ok := staleCache[key]; ok {
		return c, ""
	}
	g, msg := probe(t, p, prof, seed)
	if g == nil {
		return nil, msg
	}
	staleCache[key] = g.Cookie
	return g.Cookie, ""
}

// probe runs only the capture phase.
func probe(t *testing.T, p *world.PKI, prof profile, seed uint64) (g *genuine, msg string) {
	world.Run(t, seed, func(w *world.World) {
		pr, err := setupPair(w, p, prof)
		if err != nil {
			msg = "setup: " + err.Error()
			return
		}
		r := &runner{w: w, pr: pr, orc: &oracle{v13: prof.V13}, freeKS: prof.FreeKeyShare}
		g, msg = r.capture(prof.V13)
		if g == nil && msg == "" {
			msg = r.orc.kind + ": " + r.orc.text
		}
		pr.CloseAll()
	})
	return g, msg
}

func compress(toks []string) string {
	var out []string
	for i := 0; i < len(toks); {
		j := i
		for j < len(toks) && toks[j] == toks[i] {
			j++
		}
		if j-i > 1 {
			out = append(out, fmt.Sprintf("%sx%d", toks[i], j-i))
		} else {
			out = append(out, toks[i])
		}
		i = j
	}
	return strings.Join(out, ",")
}

func runExec(t *testing.T, p *world.PKI, c execCase, seed uint64, ref *genuine) run.Outcome {
	var o run.Outcome
	v13 := c.P.V13
	var stale []byte
	if ref != nil {
		// (ref == nil: the enumeration-time probe already failed at the first ClientHello; this case
		// only replays that first exchange and needs no second ClientHello)
		var msg string
		if stale, msg = staleCookie(t, p, c.P, seed^0xC13C13); stale == nil {
			return run.Outcome{Violation: "harness: stale-cookie world failed: " + msg, Key: "harness", Class: "harness"}
		}
	}
	world.Run(t, seed, func(w *world.World) {
		pr, err := setupPair(w, p, c.P)
		if err != nil {
			o.Violation, o.Key = "setup: "+err.Error(), "harness"
			return
		}
		defer pr.CloseAll()
		r := &runner{w: w, pr: pr, orc: &oracle{v13: v13}, sendFault: c.P.SendFault, freeKS: c.P.FreeKeyShare}
		finish := func() {
			o.States, o.Transitions = r.tr.States, r.tr.Trans
			_, serr := pr.S.HS.Result()
			hs := "hs-pending"
			if pr.S.HS.Done() {
				hs = "hs-ok"
				if serr != nil {
					hs = "hs-failed"
				}
			}
			o.Class = fmt.Sprintf("%s/%s:%s;%s", c.P.Name, c.V.Family, compress(r.react), hs)
			o.Counters = map[string]int{
				"clienthello_datagrams_delivered": r.orc.chDgrams,
				"cookie_requests_observed":        r.orc.requests,
				"alerts_observed":                 r.orc.alerts,
				"time_steps":                      r.tsteps,
			}
			o.Sample = map[string]any{"case": c.id(), "steps": r.steps, "outcome": o.Class}
			if r.orc.kind != "" {
				o.NonTrivial = true
				o.Class += ";VIOLATION:" + r.orc.kind
				o.Key = violationKey(c, r.orc.kind)
				o.Violation = fmt.Sprintf("profile=%s second=%s reps=%d ticks=%s: %s; steps: %s",
					c.P.Name, c.V.Name, c.Reps, c.T, r.orc.text, strings.Join(r.steps, " | "))
			}
			if c.V.Family == famBody {
				verdict := "rejects"
				if r.orc.kind == "forbidden-record" {
					verdict = "ACCEPTS"
				} else {
					for _, re := range r.react {
						if strings.HasPrefix(re, "alert") {
							verdict += " " + re
							break
						}
					}
				}
				o.Counters[fmt.Sprintf("altered-body %s %s: %s", c.P.ver(), verdict, c.V.Alt)]++
			}
		}
		g, msg := r.capture(v13)
		if g == nil {
			if msg != "" {
				o.Violation, o.Key = msg, "harness"
				if strings.HasPrefix(msg, "no-cookie-request") {
					o.Key = "no-cookie-request:" + c.P.ver()
				}
				return
			}
			finish()
			return
		}
		if ref != nil && (!sameDatagrams(g.CH1, ref.CH1) || !sameDatagrams(g.CH2, ref.CH2) || !bytes.Equal(g.Req, ref.Req)) {
			o.Violation, o.Key = "harness: genuine capture differs from the enumeration-time probe (nondeterminism)", "harness"
			return
		}
		if ref == nil {
			// cannot happen: the probe failed but this run captured fine
			o.Violation, o.Key = "harness: capture succeeded although the enumeration-time probe failed (nondeterminism)", "harness"
			return
		}
		if bytes.Equal(stale, g.Cookie) {
			o.Violation, o.Key = "harness: the other server instance issued the same cookie", "harness"
			return
		}
		sec := c.V.Build(g, stale)
		r.notHello = sec.NotHello
		recSeq := uint64(len(g.CH1))
		r.sleep("pre", c.T.Pre)
		if !sec.None {
			first := true
			for rep := 1; rep <= c.Reps && r.orc.kind == ""; rep++ {
				var dg [][]byte
				var body []byte
				if sec.Raw != nil {
					dg = sec.Raw
					if m, err := reassemble(dg); err == nil {
						body = m.Body
					}
				} else {
					body = sec.H.marshal()
					dg = frame(body, sec.MsgSeq, recSeq, g.MaxFrag)
					recSeq += uint64(len(dg))
				}
				if c.V.Family == famExact && rep == 1 && !sameDatagrams(dg, g.CH2) {
					o.Violation, o.Key = "harness: the exact variant is not the genuine second ClientHello", "harness"
					return
				}
				elicit := 0
				for i, d := range dg {
					if !first {
						r.sleep("mid", c.T.Mid)
					}
					first = false
					if r.orc.kind != "" {
						break
					}
					if !sec.NotHello {
						elicit += len(d)
					}
					var completes []byte
					if i == len(dg)-1 {
						completes = body
					}
					r.deliver(fmt.Sprintf("second#%d[%d]", rep, i), d, elicit, completes, true)
				}
			}
		}
		if r.orc.kind == "" {
			r.sleep("post", c.T.Post)
		}
		finish()
		if r.orc.kind != "" {
			return
		}
		switch {
		case c.V.Family == famExact:
			// positive control: the genuine second ClientHello is recognised as exact by the oracle's own
			// predicate and the server proceeds with a real ServerHello
			o.NonTrivial = r.orc.exact && r.orc.proceeded
			if o.NonTrivial {
				o.Counters["positive_control_server_proceeded"]++
			} else {
				o.Counters["positive_control_FAILED"]++
				o.Class += ";POSITIVE-CONTROL-FAILED"
			}
		case c.V.Family == famExactOrRef:
			o.NonTrivial = r.orc.exact
			if r.orc.proceeded {
				o.Counters["free_keyshare_variant_server_proceeded"]++
			} else {
				o.Counters["free_keyshare_variant_server_refused"]++
			}
		case r.orc.exact:
			// a non-exact variant must never be judged exact: the alphabet would be mislabelled
			o.Violation, o.Key = "harness: variant "+c.V.Name+" was judged exact by the oracle", "harness"
		default:
			// the cookie was issued and every planned delivery / time step was carried out
			o.NonTrivial = true
		}
	})
	return o
}

func violationKey(c execCase, kind string) string {
	if c.V.Family == famBody && kind == "forbidden-record" {
		if c.P.V13 {
			return "v13-second-clienthello-differs:" + c.V.Alt
		}
		return "F11-second-clienthello-differs:" + c.V.Alt
	}
	return kind + ":" + c.P.ver() + ":" + c.V.Family
}

// ---------------------------------------------------------------------------------------------
// The property's carve-out, asserted separately: a first ClientHello that resumes a session the
// server's store knows is answered with the abbreviated flight (no cookie exchange).

func runResumeKnown(t *testing.T, p *world.PKI, seed uint64, pre time.Duration) run.Outcome {
	var o run.Outcome
	prof := profile{Name: "12k", Resume: "known"}
	world.Run(t, seed, func(w *world.World) {
		pr, err := setupPair(w, p, prof)
		if err != nil {
			o.Violation, o.Key = "setup: "+err.Error(), "harness"
			return
		}
		defer pr.CloseAll()
		w.Settle()
		var ch1 [][]byte
		for _, d := range w.InFlight() {
			w.Take(d)
			ch1 = append(ch1, d.Data)
		}
		seen := w.EmittedCount()
		m, err := reassemble(ch1)
		if err != nil {
			o.Violation, o.Key = "harness: "+err.Error(), "harness"
			return
		}
		h, err := parseHello(m.Body)
		if err != nil || len(h.SID) == 0 {
			o.Violation, o.Key = fmt.Sprintf("harness: resuming client sent no session id (%v)", err), "harness"
			return
		}
		if pre > 0 {
			w.Sleep(pre)
		}
		for _, d := range ch1 {
			w.Push(world.ClientAddr, world.ServerAddr, d)
			w.Settle()
		}
		var shape []string
		for _, d := range w.Emitted()[seen:] {
			if d.Src == world.ServerAddr {
				shape = append(shape, world.Shape(d.Data, 0))
			}
		}
		s := strings.Join(shape, " ")
		// ServerHello (h2), ChangeCipherSpec (r20), one epoch-1 record (Finished), and no HelloVerifyRequest (h3)
		abbreviated := strings.Contains(s, "h2.") && strings.Contains(s, "r20.") && strings.Contains(s, "r22.1.") && !strings.Contains(s, "h3.")
		o.Class = "12k/" + famResumeKnw + ":" + map[bool]string{true: "abbreviated-flight-4b", false: "other(" + s + ")"}[abbreviated]
		o.NonTrivial = abbreviated
		o.Counters = map[string]int{"resume_known_session_answered_with_flight_4b": map[bool]int{true: 1, false: 0}[abbreviated]}
		o.Sample = map[string]any{"case": "12k/resume-known", "server_emitted": s}
	})
	return o
}

// Information only (NOT part of the oracle, never a violation): the smallest datagram that carries
// "part of a ClientHello" (a 1-byte fragment, 26 bytes) also elicits a HelloVerifyRequest (48 bytes)
// from the DTLS 1.2 server while it waits for the second ClientHello. Such fragments are outside the
// attacker alphabet of this check ("framed as a real client would"); the observation is recorded in
// the outcome class so that the size clause of the oracle is read with it in mind.
func runTinyFragment(t *testing.T, p *world.PKI, prof profile, seed uint64) run.Outcome {
	var o run.Outcome
	world.Run(t, seed, func(w *world.World) {
		pr, err := setupPair(w, p, prof)
		if err != nil {
			o.Violation, o.Key = "setup: "+err.Error(), "harness"
			return
		}
		defer pr.CloseAll()
		r := &runner{w: w, pr: pr, orc: &oracle{v13: prof.V13}, freeKS: prof.FreeKeyShare}
		g, msg := r.capture(prof.V13)
		if g == nil {
			o.Class = "info/" + prof.Name + "/tiny-fragment:capture-failed(" + msg + r.orc.kind + ")"
			return
		}
		var in, out []string
		for i := 0; i < 3; i++ {
			d := frameFragment(len(g.M2.Body), 1, uint64(len(g.CH1)+i), i, g.M2.Body[i:i+1])
			w.Push(world.ClientAddr, world.ServerAddr, d)
			in = append(in, fmt.Sprint(len(d)))
			for _, e := range r.newServerEmissions() {
				out = append(out, world.Describe(e))
			}
		}
		o.Class = fmt.Sprintf("info/%s/tiny-fragment:%sB=>%s", prof.Name, strings.Join(in, "B,"), strings.Join(out, ","))
		o.Sample = map[string]any{"case": "info/" + prof.Name + "/tiny-fragment", "outcome": o.Class}
	})
	return o
}

// ---------------------------------------------------------------------------------------------

func TestC13(t *testing.T) {
	env := run.GetEnv()
	p := world.GetPKI(t)
	seed := env.Seed + 1
	thorough := env.Thorough()
	var cases []run.Case
	params := map[string]any{"tier": env.Tier, "tick_values_s": "0,1.5,30", "repetitions": "1,2,3"}
	var summary []string
	for _, prof := range profiles() {
		prof := prof
		ref, msg := probe(t, p, prof, seed)
		if ref == nil {
			// The very first exchange already breaks the property (or the harness): one case reports it.
			cases = append(cases, run.Case{ID: prof.Name + "/first-clienthello", Run: func(t *testing.T) run.Outcome {
				return runExec(t, p, execCase{P: prof, V: variant{Name: "first-clienthello", Family: "first-clienthello",
					Build: func(*genuine, []byte) second { return second{None: true} }}, Reps: 1}, seed, nil)
			}})
			summary = append(summary, prof.Name+": probe failed: "+msg)
			continue
		}
		vs := buildVariants(ref, prof.V13)
		fam := map[string]int{}
		n0 := len(cases)
		for _, v := range vs {
			v := v
			fam[v.Family]++
			reps := []int{1, 2, 3}
			if v.Family == famNone {
				reps = []int{1}
			}
			for _, rp := range reps {
				nd := rp * len(ref.CH2)
				if v.Family == famCH1Verb || v.Family == famCH1Retr {
					nd = rp * len(ref.CH1)
				}
				if v.Family == famNone {
					nd = 0
				}
				if v.Family == famNotHello {
					nd = rp
				}
				for _, tp := range placements(thorough, nd > 1) {
					c := execCase{P: prof, V: v, Reps: rp, T: tp}
					cases = append(cases, run.Case{ID: c.id(), Run: func(t *testing.T) run.Outcome { return runExec(t, p, c, seed, ref) }})
				}
			}
		}
		var fs []string
		for _, k := range world.SortedKeys(fam) {
			fs = append(fs, fmt.Sprintf("%s=%d", k, fam[k]))
		}
		summary = append(summary, fmt.Sprintf("%s: %d second hellos (%s), %d executions, ClientHello %d+%d datagrams, cookie %d bytes",
			prof.Name, len(vs), strings.Join(fs, " "), len(cases)-n0, len(ref.CH1), len(ref.CH2), len(ref.Cookie)))
	}
	for _, pre := range tickValues {
		pre := pre
		cases = append(cases, run.Case{ID: "12k/resume-known/t" + tickName(pre), Run: func(t *testing.T) run.Outcome { return runResumeKnown(t, p, seed, pre) }})
	}
	for _, prof := range profiles()[:3] {
		prof := prof
		cases = append(cases, run.Case{ID: "info/" + prof.Name + "/tiny-fragment", Run: func(t *testing.T) run.Outcome { return runTinyFragment(t, p, prof, seed) }})
	}
	params["profiles"] = summary
	params["executions"] = len(cases)
	run.Main(t, "C13", cases, params)
}
