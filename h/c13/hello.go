// Package c13 checks property C13 (cookie exchange: only a cookie request is sent until the cookie
// comes back). This file is the attacker's own minimal ClientHello parser / re-framer: record header,
// handshake header (with fragment reassembly and re-fragmentation) and ClientHello body. It never
// calls a pion decoder.
package c13

import (
	"bytes"
	"encoding/binary"
	"errors"
	"fmt"
)

const (
	ctAlert     = 21
	ctHandshake = 22

	hsClientHello        = 1
	hsServerHello        = 2
	hsHelloVerifyRequest = 3

	extCookie   = 44 // RFC 8446 §4.2.2
	extKeyShare = 51 // RFC 8446 §4.2.8
)

// hrrRandom is the RFC 8446 §4.1.3 HelloRetryRequest magic (SHA-256 of "HelloRetryRequest").
var hrrRandom = []byte{
	0xCF, 0x21, 0xAD, 0x74, 0xE5, 0x9A, 0x61, 0x11, 0xBE, 0x1D, 0x8C, 0x02, 0x1E, 0x65, 0xB8, 0x91,
	0xC2, 0xA2, 0x11, 0x16, 0x7A, 0xBB, 0x8C, 0x5E, 0x07, 0x9E, 0x09, 0xE2, 0xC8, 0xA8, 0x33, 0x9C,
}

type ext struct {
	Type uint16
	Data []byte
}

// hello is a decoded DTLS ClientHello body (RFC 6347 §4.2.1 / RFC 9147 §5.3).
type hello struct {
	Ver     [2]byte
	Random  [32]byte
	SID     []byte
	Cookie  []byte
	Suites  []uint16
	Comp    []byte
	HasExts bool
	Exts    []ext
}

var errShort = errors.New("c13: short ClientHello")

func parseHello(b []byte) (*hello, error) {
	h := &hello{}
	take := func(n int) ([]byte, error) {
		if len(b) < n {
			return nil, errShort
		}
		x := b[:n]
		b = b[n:]
		return x, nil
	}
	x, err := take(2)
	if err != nil {
		return nil, err
	}
	copy(h.Ver[:], x)
	if x, err = take(32); err != nil {
		return nil, err
	}
	copy(h.Random[:], x)
	vec8 := func() ([]byte, error) {
		l, err := take(1)
		if err != nil {
			return nil, err
		}
		v, err := take(int(l[0]))
		return append([]byte{}, v...), err
	}
	if h.SID, err = vec8(); err != nil {
		return nil, err
	}
	if h.Cookie, err = vec8(); err != nil {
		return nil, err
	}
	l, err := take(2)
	if err != nil {
		return nil, err
	}
	n := int(binary.BigEndian.Uint16(l))
	if n%2 != 0 {
		return nil, fmt.Errorf("c13: odd cipher suite vector %d", n)
	}
	cs, err := take(n)
	if err != nil {
		return nil, err
	}
	for i := 0; i < n; i += 2 {
		h.Suites = append(h.Suites, binary.BigEndian.Uint16(cs[i:]))
	}
	if h.Comp, err = vec8(); err != nil {
		return nil, err
	}
	if len(b) == 0 {
		return h, nil
	}
	h.HasExts = true
	if l, err = take(2); err != nil {
		return nil, err
	}
	if int(binary.BigEndian.Uint16(l)) != len(b) {
		return nil, fmt.Errorf("c13: extension block length %d, %d bytes left", binary.BigEndian.Uint16(l), len(b))
	}
	for len(b) > 0 {
		hd, err := take(4)
		if err != nil {
			return nil, err
		}
		d, err := take(int(binary.BigEndian.Uint16(hd[2:])))
		if err != nil {
			return nil, err
		}
		h.Exts = append(h.Exts, ext{Type: binary.BigEndian.Uint16(hd), Data: append([]byte{}, d...)})
	}
	return h, nil
}

func (h *hello) marshal() []byte {
	var o []byte
	o = append(o, h.Ver[:]...)
	o = append(o, h.Random[:]...)
	o = append(o, byte(len(h.SID)))
	o = append(o, h.SID...)
	o = append(o, byte(len(h.Cookie)))
	o = append(o, h.Cookie...)
	o = binary.BigEndian.AppendUint16(o, uint16(2*len(h.Suites)))
	for _, s := range h.Suites {
		o = binary.BigEndian.AppendUint16(o, s)
	}
	o = append(o, byte(len(h.Comp)))
	o = append(o, h.Comp...)
	if !h.HasExts {
		return o
	}
	var e []byte
	for _, x := range h.Exts {
		e = binary.BigEndian.AppendUint16(e, x.Type)
		e = binary.BigEndian.AppendUint16(e, uint16(len(x.Data)))
		e = append(e, x.Data...)
	}
	o = binary.BigEndian.AppendUint16(o, uint16(len(e)))
	return append(o, e...)
}

func (h *hello) clone() *hello {
	c := *h
	c.SID = append([]byte{}, h.SID...)
	c.Cookie = append([]byte{}, h.Cookie...)
	c.Suites = append([]uint16{}, h.Suites...)
	c.Comp = append([]byte{}, h.Comp...)
	c.Exts = make([]ext, len(h.Exts))
	for i, x := range h.Exts {
		c.Exts[i] = ext{Type: x.Type, Data: append([]byte{}, x.Data...)}
	}
	return &c
}

func (h *hello) extIndex(typ uint16) int {
	for i, x := range h.Exts {
		if x.Type == typ {
			return i
		}
	}
	return -1
}

// cookieOf returns the cookie a ClientHello echoes: the legacy cookie field (DTLS 1.2) or the
// payload of the cookie extension (DTLS 1.3). present=false if a 1.3 hello has no cookie extension
// (or a malformed one).
func cookieOf(h *hello, v13 bool) (cookie []byte, present bool) {
	if !v13 {
		return h.Cookie, true
	}
	i := h.extIndex(extCookie)
	if i < 0 {
		return nil, false
	}
	d := h.Exts[i].Data
	if len(d) < 2 || int(binary.BigEndian.Uint16(d)) != len(d)-2 {
		return nil, false
	}
	return d[2:], true
}

// withCookie returns a copy of h that echoes cookie instead. For 1.3 the cookie extension must exist.
func withCookie(h *hello, v13 bool, cookie []byte) *hello {
	c := h.clone()
	if !v13 {
		c.Cookie = append([]byte{}, cookie...)
		return c
	}
	i := c.extIndex(extCookie)
	if i < 0 {
		panic("c13: withCookie on a hello without cookie extension")
	}
	d := binary.BigEndian.AppendUint16(nil, uint16(len(cookie)))
	c.Exts[i].Data = append(d, cookie...)
	return c
}

// withoutCookie returns the canonical "everything but the cookie" encoding used by the oracle's
// exactness predicate: legacy cookie emptied (1.2) / cookie extension removed (1.3).
func withoutCookie(h *hello, v13 bool) []byte {
	c := h.clone()
	if !v13 {
		c.Cookie = nil
		return c.marshal()
	}
	var keep []ext
	for _, x := range c.Exts {
		if x.Type != extCookie {
			keep = append(keep, x)
		}
	}
	c.Exts = keep
	return c.marshal()
}

// comparable is withoutCookie with, if freeKS, the key_share extension left out as well: the form in which a
// second ClientHello is compared with the first when the HelloRetryRequest selected a group (the retried hello
// replaces key_share, RFC 8446 4.1.2).
func comparable(h *hello, v13, freeKS bool) []byte {
	if !freeKS {
		return withoutCookie(h, v13)
	}
	c := h.clone()
	var keep []ext
	for _, x := range c.Exts {
		if x.Type != extKeyShare {
			keep = append(keep, x)
		}
	}
	c.Exts = keep
	return withoutCookie(c, v13)
}

// ---------------------------------------------------------------------------------------------
// Framing.

// fragment is one handshake fragment carried alone in one record in one datagram.
type fragment struct {
	RecVer  [2]byte
	Epoch   uint16
	RecSeq  uint64
	Type    byte
	Len     int
	MsgSeq  uint16
	FragOff int
	Body    []byte
}

// parseSingle decodes a datagram that consists of exactly one epoch-0 handshake record with exactly
// one handshake fragment (what a ClientHello / HelloVerifyRequest datagram looks like).
func parseSingle(d []byte) (*fragment, error) {
	if len(d) < 25 {
		return nil, fmt.Errorf("c13: datagram of %d bytes too short", len(d))
	}
	if d[0] != ctHandshake {
		return nil, fmt.Errorf("c13: content type %d", d[0])
	}
	f := &fragment{RecVer: [2]byte{d[1], d[2]}, Epoch: binary.BigEndian.Uint16(d[3:5])}
	for _, x := range d[5:11] {
		f.RecSeq = f.RecSeq<<8 | uint64(x)
	}
	rl := int(binary.BigEndian.Uint16(d[11:13]))
	if rl != len(d)-13 {
		return nil, fmt.Errorf("c13: record length %d in datagram of %d", rl, len(d))
	}
	b := d[13:]
	f.Type = b[0]
	f.Len = int(b[1])<<16 | int(b[2])<<8 | int(b[3])
	f.MsgSeq = binary.BigEndian.Uint16(b[4:6])
	f.FragOff = int(b[6])<<16 | int(b[7])<<8 | int(b[8])
	fl := int(b[9])<<16 | int(b[10])<<8 | int(b[11])
	if fl != len(b)-12 {
		return nil, fmt.Errorf("c13: fragment length %d, %d bytes in record", fl, len(b)-12)
	}
	f.Body = b[12:]
	return f, nil
}

// message is a reassembled handshake message together with how it was framed.
type message struct {
	Type     byte
	MsgSeq   uint16
	Body     []byte
	RecSeq0  uint64 // record sequence number of the first fragment (the others follow consecutively)
	FragLens []int
}

// reassemble rebuilds one handshake message from its in-order, gap-free, consecutively numbered
// fragment datagrams (byte-coverage check included).
func reassemble(dgrams [][]byte) (*message, error) {
	if len(dgrams) == 0 {
		return nil, errors.New("c13: no datagram")
	}
	var m *message
	for i, d := range dgrams {
		f, err := parseSingle(d)
		if err != nil {
			return nil, err
		}
		if f.Epoch != 0 {
			return nil, fmt.Errorf("c13: epoch %d", f.Epoch)
		}
		if i == 0 {
			m = &message{Type: f.Type, MsgSeq: f.MsgSeq, RecSeq0: f.RecSeq, Body: make([]byte, 0, f.Len)}
		}
		if f.Type != m.Type || f.MsgSeq != m.MsgSeq || f.RecSeq != m.RecSeq0+uint64(i) || f.FragOff != len(m.Body) {
			return nil, fmt.Errorf("c13: fragment %d does not continue the message (type %d seq %d rec %d off %d)", i, f.Type, f.MsgSeq, f.RecSeq, f.FragOff)
		}
		m.Body = append(m.Body, f.Body...)
		m.FragLens = append(m.FragLens, len(f.Body))
		if i == len(dgrams)-1 && len(m.Body) != f.Len {
			return nil, fmt.Errorf("c13: reassembled %d of %d bytes", len(m.Body), f.Len)
		}
	}
	return m, nil
}

// frameFragment encodes one ClientHello fragment alone in one record in one datagram.
func frameFragment(total int, msgSeq uint16, recSeq uint64, off int, frag []byte) []byte {
	n := len(frag)
	d := make([]byte, 0, 25+n)
	d = append(d, ctHandshake, 0xfe, 0xfd, 0, 0)
	d = append(d, byte(recSeq>>40), byte(recSeq>>32), byte(recSeq>>24), byte(recSeq>>16), byte(recSeq>>8), byte(recSeq))
	d = binary.BigEndian.AppendUint16(d, uint16(12+n))
	d = append(d, hsClientHello, byte(total>>16), byte(total>>8), byte(total))
	d = binary.BigEndian.AppendUint16(d, msgSeq)
	d = append(d, byte(off>>16), byte(off>>8), byte(off), byte(n>>16), byte(n>>8), byte(n))
	return append(d, frag...)
}

// frame encodes body as a ClientHello with the given message_seq, one fragment per record per
// datagram, fragments of at most maxFrag bytes, record sequence numbers recSeq, recSeq+1, ...
func frame(body []byte, msgSeq uint16, recSeq uint64, maxFrag int) [][]byte {
	var out [][]byte
	off := 0
	for {
		n := len(body) - off
		if n > maxFrag {
			n = maxFrag
		}
		out = append(out, frameFragment(len(body), msgSeq, recSeq+uint64(len(out)), off, body[off:off+n]))
		off += n
		if off >= len(body) {
			return out
		}
	}
}

func sameDatagrams(a, b [][]byte) bool {
	if len(a) != len(b) {
		return false
	}
	for i := range a {
		if !bytes.Equal(a[i], b[i]) {
			return false
		}
	}
	return true
}

// cookieFromRequest extracts the cookie from a HelloVerifyRequest body (1.2) or from the cookie
// extension of a HelloRetryRequest body (1.3).
func cookieFromRequest(body []byte, v13 bool) ([]byte, error) {
	if !v13 {
		if len(body) < 3 || int(body[2]) != len(body)-3 {
			return nil, fmt.Errorf("c13: malformed HelloVerifyRequest (%d bytes)", len(body))
		}
		return append([]byte{}, body[3:]...), nil
	}
	// ServerHello: version(2) random(32) sid<0..32> suite(2) compression(1) extensions<..>
	if len(body) < 35 {
		return nil, errShort
	}
	p := 34 + 1 + int(body[34])
	p += 3
	if len(body) < p+2 {
		return nil, errShort
	}
	n := int(binary.BigEndian.Uint16(body[p:]))
	p += 2
	if len(body) != p+n {
		return nil, fmt.Errorf("c13: HelloRetryRequest extension block %d, %d left", n, len(body)-p)
	}
	for p < len(body) {
		if len(body) < p+4 {
			return nil, errShort
		}
		typ := binary.BigEndian.Uint16(body[p:])
		l := int(binary.BigEndian.Uint16(body[p+2:]))
		p += 4
		if len(body) < p+l {
			return nil, errShort
		}
		if typ == extCookie {
			d := body[p : p+l]
			if len(d) < 2 || int(binary.BigEndian.Uint16(d)) != len(d)-2 {
				return nil, errors.New("c13: malformed cookie extension in HelloRetryRequest")
			}
			return append([]byte{}, d[2:]...), nil
		}
		p += l
	}
	return nil, errors.New("c13: HelloRetryRequest carries no cookie")
}
