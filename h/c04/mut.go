package c04

// The mutation catalogue (DESIGN.md §2.4 MITM). A mutation is a pure function of a handshake message
// body; the attacker applies it to every transmission of the message identified by
// (direction, handshake type, message_seq). A nil result means "not applicable to this body".

import (
	"bytes"
	"encoding/binary"
	"fmt"
)

type mut struct {
	Name  string // stable, unique within a target
	Field string // coarse field label (goes into cause keys)
	Fn    func(body []byte) []byte
}

// target identifies a cleartext handshake message of a run.
type target struct {
	FromClient bool
	Type       byte
	Seq        uint16
	HRR        bool   // ServerHello carrying the HelloRetryRequest random
	Body       []byte // baseline body
}

func (t target) String() string {
	d := "s2c"
	if t.FromClient {
		d = "c2s"
	}
	n := hsName(t.Type)
	if t.HRR {
		n = "HelloRetryRequest"
	}
	return fmt.Sprintf("%s.%s#%d", d, n, t.Seq)
}

func (t target) typeName() string {
	if t.HRR {
		return "HelloRetryRequest"
	}
	return hsName(t.Type)
}

func flipBit(b []byte, byteOff int, bit uint) []byte {
	if byteOff < 0 || byteOff >= len(b) {
		return nil
	}
	o := clone(b)
	o[byteOff] ^= 1 << bit
	return o
}

// ---- helpers on vectors ----

func u16list(b []byte) []uint16 {
	var o []uint16
	for i := 0; i+1 < len(b); i += 2 {
		o = append(o, binary.BigEndian.Uint16(b[i:]))
	}
	return o
}

func putU16list(l []uint16) []byte {
	var o []byte
	for _, v := range l {
		o = binary.BigEndian.AppendUint16(o, v)
	}
	return o
}

type alter struct {
	Name string
	Fn   func(data []byte) []byte
}

// listAlters: remove / reorder / replace on a vector of fixed-size items with a lenBytes-byte length prefix,
// optionally followed by a tail (use_srtp's MKI).
func listAlters(lenBytes, item int, repl []byte) []alter {
	split := func(d []byte) (items [][]byte, tail []byte, ok bool) {
		r := &rd{b: d}
		var v []byte
		if lenBytes == 1 {
			v = r.take(r.u8())
		} else {
			v = r.take(r.u16())
		}
		if r.err != nil || len(v)%item != 0 {
			return nil, nil, false
		}
		for i := 0; i < len(v); i += item {
			items = append(items, v[i:i+item])
		}
		return items, r.b, true
	}
	join := func(items [][]byte, tail []byte) []byte {
		v := bytes.Join(items, nil)
		var o []byte
		if lenBytes == 1 {
			o = put8(o, v)
		} else {
			o = put16(o, v)
		}
		return append(o, tail...)
	}
	return []alter{
		{"remove-first", func(d []byte) []byte {
			it, tail, ok := split(d)
			if !ok || len(it) < 1 {
				return nil
			}
			return join(it[1:], tail)
		}},
		{"remove-last", func(d []byte) []byte {
			it, tail, ok := split(d)
			if !ok || len(it) < 2 {
				return nil
			}
			return join(it[:len(it)-1], tail)
		}},
		{"swap-first-two", func(d []byte) []byte {
			it, tail, ok := split(d)
			if !ok || len(it) < 2 {
				return nil
			}
			x := append([][]byte{it[1], it[0]}, it[2:]...)
			return join(x, tail)
		}},
		{"replace-first", func(d []byte) []byte {
			it, tail, ok := split(d)
			if !ok || len(it) < 1 || len(repl) != item {
				return nil
			}
			x := append([][]byte{repl}, it[1:]...)
			return join(x, tail)
		}},
	}
}

// alpnAlters: ALPN protocol_name_list<2..2^16-1> of opaque<1..2^8-1>.
func alpnAlters() []alter {
	split := func(d []byte) ([][]byte, bool) {
		r := &rd{b: d}
		v := &rd{b: r.take(r.u16())}
		if r.err != nil || len(r.b) != 0 {
			return nil, false
		}
		var names [][]byte
		for len(v.b) > 0 && v.err == nil {
			names = append(names, v.vec8())
		}
		return names, v.err == nil
	}
	join := func(n [][]byte) []byte {
		var v []byte
		for _, x := range n {
			v = put8(v, x)
		}
		return put16(nil, v)
	}
	return []alter{
		{"remove-first", func(d []byte) []byte {
			n, ok := split(d)
			if !ok || len(n) < 1 {
				return nil
			}
			return join(n[1:])
		}},
		{"remove-last", func(d []byte) []byte {
			n, ok := split(d)
			if !ok || len(n) < 2 {
				return nil
			}
			return join(n[:len(n)-1])
		}},
		{"swap-first-two", func(d []byte) []byte {
			n, ok := split(d)
			if !ok || len(n) < 2 {
				return nil
			}
			return join(append([][]byte{n[1], n[0]}, n[2:]...))
		}},
		{"replace-first", func(d []byte) []byte { // the other protocol both sides support
			n, ok := split(d)
			if !ok || len(n) < 1 {
				return nil
			}
			r := []byte(alpnA)
			if bytes.Equal(n[0], r) {
				r = []byte(alpnB)
			}
			return join(append([][]byte{r}, n[1:]...))
		}},
	}
}

var (
	genericAlters = []alter{
		{"flip-last-bit", func(d []byte) []byte { return flipBit(d, len(d)-1, 0) }},
		{"append-byte", func(d []byte) []byte { return append(clone(d), 0) }},
		{"empty", func(d []byte) []byte {
			if len(d) == 0 {
				return nil
			}
			return []byte{}
		}},
	}
)

// extAlters returns the type-specific alterations of one extension's data, as offered by a client
// (server=false) or as selected by a server (server=true).
func extAlters(typ uint16, server, hrr bool) []alter {
	a := append([]alter{}, genericAlters...)
	switch typ {
	case 10: // supported_groups: named_group_list<2..2^16-1>
		a = append(a, listAlters(2, 2, []byte{0x00, 0x18})...)
	case 11: // ec_point_formats<1..2^8-1>
		a = append(a, listAlters(1, 1, []byte{0x01})...)
	case 13, 50: // signature_algorithms<2..2^16-2>
		a = append(a, listAlters(2, 2, []byte{0x04, 0x01})...)
	case 14: // use_srtp: SRTPProtectionProfiles<2..2^16-1>, srtp_mki<0..255>
		la := listAlters(2, 2, []byte{0x00, 0x02})
		if server {
			// steer the selection to the other commonly supported profile
			la = append(la, alter{"select-other", func(d []byte) []byte {
				if len(d) < 4 {
					return nil
				}
				o := clone(d)
				if o[3] == byte(srtpA) {
					o[3] = byte(srtpB)
				} else {
					o[3] = byte(srtpA)
				}
				return o
			}})
		}
		a = append(a, la...)
	case 16:
		a = append(a, alpnAlters()...)
	case 43: // supported_versions: client versions<2..254>, server selected_version
		if server {
			a = append(a, alter{"select-1.2", func(d []byte) []byte {
				if len(d) != 2 {
					return nil
				}
				return []byte{0xfe, 0xfd}
			}})
		} else {
			a = append(a, listAlters(1, 2, []byte{0xfe, 0xfd})...)
		}
	case 51: // key_share
		switch {
		case hrr: // selected_group
			a = append(a, alter{"group-other", func(d []byte) []byte {
				if len(d) != 2 {
					return nil
				}
				return otherGroup(d)
			}})
		case server: // group, key_exchange<1..2^16-1>
			a = append(a, alter{"group-other", func(d []byte) []byte {
				if len(d) < 4 {
					return nil
				}
				return append(otherGroup(d[:2]), d[2:]...)
			}}, alter{"key-flip-first-bit", func(d []byte) []byte { return flipBit(d, 4, 7) }})
		default: // client_shares<0..2^16-1> of {group, key_exchange<1..2^16-1>}
			a = append(a, alter{"first-share-group-other", func(d []byte) []byte {
				if len(d) < 6 {
					return nil
				}
				o := clone(d)
				copy(o[2:4], otherGroup(d[2:4]))
				return o
			}}, alter{"first-share-key-flip-bit", func(d []byte) []byte { return flipBit(d, 6, 7) }},
				alter{"no-shares", func(d []byte) []byte {
					if len(d) <= 2 {
						return nil
					}
					return []byte{0, 0}
				}})
		}
	case 54: // connection_id: cid<0..2^8-1>
		a = append(a, alter{"cid-flip-first-bit", func(d []byte) []byte { return flipBit(d, 1, 7) }},
			alter{"cid-zero-length", func(d []byte) []byte {
				if len(d) <= 1 {
					return nil
				}
				return []byte{0}
			}})
	case 0: // server_name
		a = append(a, alter{"name-flip-first-letter", func(d []byte) []byte { return flipBit(d, 5, 0) }})
	case 44: // cookie<1..2^16-1>
		a = append(a, alter{"cookie-flip-first-bit", func(d []byte) []byte { return flipBit(d, 2, 7) }})
	}
	return a
}

func otherGroup(g []byte) []byte {
	if g[0] == 0x00 && g[1] == 0x1d { // x25519 -> secp256r1
		return []byte{0x00, 0x17}
	}
	return []byte{0x00, 0x1d}
}

// ---------------------------------------------------------------------------------------------

// chMut / shMut wrap a structural edit into a body function.
func chMut(name, field string, edit func(h *chello) bool) mut {
	return mut{Name: name, Field: field, Fn: func(b []byte) []byte {
		h, err := parseCH(b)
		if err != nil || !edit(h) {
			return nil
		}
		return h.marshal()
	}}
}

func shMut(name, field string, edit func(h *shello) bool) mut {
	return mut{Name: name, Field: field, Fn: func(b []byte) []byte {
		h, err := parseSH(b)
		if err != nil || !edit(h) {
			return nil
		}
		return h.marshal()
	}}
}

func flipIn(p *[]byte, off int, bit uint) bool {
	x := flipBit(*p, off, bit)
	if x == nil {
		return false
	}
	*p = x
	return true
}

// extMuts generates the extension-block mutations shared by ClientHello and ServerHello:
// get/set give access to the extension list of the parsed message.
func extMuts(exts []ext, hasExts bool, server, hrr bool, wrap func(name, field string, edit func(has *bool, e *[]ext) bool) mut) []mut {
	var out []mut
	if !hasExts {
		out = append(out, wrap("exts/add-block-with-unknown", "extensions", func(has *bool, e *[]ext) bool {
			if *has {
				return false
			}
			*has = true
			*e = []ext{{Type: 0xfafa}}
			return true
		}))
		return out
	}
	for i, x := range exts {
		i, typ := i, x.Type
		f := "ext:" + extName(typ)
		at := func(e []ext) bool { return i < len(e) && e[i].Type == typ }
		out = append(out, wrap(fmt.Sprintf("ext/%s/remove", extName(typ)), f, func(_ *bool, e *[]ext) bool {
			if !at(*e) {
				return false
			}
			*e = append(cloneExts((*e)[:i]), cloneExts((*e)[i+1:])...)
			return true
		}))
		if i+1 < len(exts) {
			out = append(out, wrap(fmt.Sprintf("ext/%s/swap-with-next", extName(typ)), "extension_order", func(_ *bool, e *[]ext) bool {
				if !at(*e) || i+1 >= len(*e) {
					return false
				}
				(*e)[i], (*e)[i+1] = (*e)[i+1], (*e)[i]
				return true
			}))
		}
		out = append(out, wrap(fmt.Sprintf("ext/%s/duplicate", extName(typ)), f, func(_ *bool, e *[]ext) bool {
			if !at(*e) {
				return false
			}
			*e = append(*e, ext{Type: typ, Data: clone((*e)[i].Data)})
			return true
		}))
		for _, al := range extAlters(typ, server, hrr) {
			al := al
			out = append(out, wrap(fmt.Sprintf("ext/%s/%s", extName(typ), al.Name), f, func(_ *bool, e *[]ext) bool {
				if !at(*e) {
					return false
				}
				d := al.Fn((*e)[i].Data)
				if d == nil {
					return false
				}
				(*e)[i].Data = d
				return true
			}))
		}
	}
	if len(exts) > 1 {
		out = append(out, wrap("exts/reverse-order", "extension_order", func(_ *bool, e *[]ext) bool {
			for a, b := 0, len(*e)-1; a < b; a, b = a+1, b-1 {
				(*e)[a], (*e)[b] = (*e)[b], (*e)[a]
			}
			return len(*e) > 1
		}))
	}
	out = append(out, wrap("exts/append-unknown", "extensions", func(_ *bool, e *[]ext) bool {
		*e = append(*e, ext{Type: 0xfafa, Data: []byte{}})
		return true
	}))
	out = append(out, wrap("exts/remove-block", "extensions", func(has *bool, e *[]ext) bool {
		*has, *e = false, nil
		return true
	}))
	// add an extension the message does not carry (solicited by the peer or not)
	for _, add := range []ext{{Type: 23}, {Type: 65281, Data: []byte{0}}} {
		add := add
		present := false
		for _, x := range exts {
			if x.Type == add.Type {
				present = true
			}
		}
		if !present {
			out = append(out, wrap(fmt.Sprintf("exts/add-%s", extName(add.Type)), "ext:"+extName(add.Type), func(_ *bool, e *[]ext) bool {
				*e = append(*e, ext{Type: add.Type, Data: clone(add.Data)})
				return true
			}))
		}
	}
	return out
}

// fieldMuts is the field-level catalogue for one target.
func fieldMuts(t target, md *mode) []mut {
	var out []mut
	raw := func(name, field string, fn func(b []byte) []byte) {
		out = append(out, mut{Name: name, Field: field, Fn: fn})
	}
	switch t.Type {
	case hsClientHello:
		h, err := parseCH(t.Body)
		if err != nil {
			return nil
		}
		ch := func(name, field string, edit func(h *chello) bool) { out = append(out, chMut(name, field, edit)) }
		ch("version/1.0", "version", func(h *chello) bool { h.Ver = []byte{0xfe, 0xff}; return true })
		ch("version/flip-low-bit", "version", func(h *chello) bool { return flipIn(&h.Ver, 1, 0) })
		ch("random/flip-first-bit", "random", func(h *chello) bool { return flipIn(&h.Random, 0, 7) })
		ch("random/flip-last-bit", "random", func(h *chello) bool { return flipIn(&h.Random, 31, 0) })
		if len(h.SID) > 0 {
			ch("session_id/flip-first-bit", "session_id", func(h *chello) bool { return flipIn(&h.SID, 0, 7) })
			ch("session_id/flip-last-bit", "session_id", func(h *chello) bool { return flipIn(&h.SID, len(h.SID)-1, 0) })
			ch("session_id/remove", "session_id", func(h *chello) bool { h.SID = nil; return true })
			ch("session_id/truncate", "session_id", func(h *chello) bool { h.SID = h.SID[:len(h.SID)-1]; return true })
		} else {
			ch("session_id/insert", "session_id", func(h *chello) bool { h.SID = bytes.Repeat([]byte{0x42}, 32); return true })
		}
		if len(h.Cookie) > 0 {
			ch("cookie/flip-first-bit", "cookie", func(h *chello) bool { return flipIn(&h.Cookie, 0, 7) })
			ch("cookie/flip-last-bit", "cookie", func(h *chello) bool { return flipIn(&h.Cookie, len(h.Cookie)-1, 0) })
			ch("cookie/remove", "cookie", func(h *chello) bool { h.Cookie = nil; return true })
		} else {
			ch("cookie/insert", "cookie", func(h *chello) bool { h.Cookie = bytes.Repeat([]byte{0x43}, 20); return true })
		}
		for i, s := range h.Suites {
			i, s := i, s
			ch(fmt.Sprintf("suites/remove-%d(%04x)", i, s), "cipher_suites", func(h *chello) bool {
				if i >= len(h.Suites) {
					return false
				}
				h.Suites = append(append([]uint16{}, h.Suites[:i]...), h.Suites[i+1:]...)
				return true
			})
			ch(fmt.Sprintf("suites/replace-%d(%04x)-unknown", i, s), "cipher_suites", func(h *chello) bool {
				if i >= len(h.Suites) {
					return false
				}
				h.Suites[i] = 0xfafa
				return true
			})
			ch(fmt.Sprintf("suites/replace-%d(%04x)-other", i, s), "cipher_suites", func(h *chello) bool {
				if i >= len(h.Suites) {
					return false
				}
				h.Suites[i] = md.foreignSuite
				return true
			})
		}
		ch("suites/swap-first-two", "cipher_suites", func(h *chello) bool {
			if len(h.Suites) < 2 {
				return false
			}
			h.Suites[0], h.Suites[1] = h.Suites[1], h.Suites[0]
			return true
		})
		ch("suites/reverse", "cipher_suites", func(h *chello) bool {
			for a, b := 0, len(h.Suites)-1; a < b; a, b = a+1, b-1 {
				h.Suites[a], h.Suites[b] = h.Suites[b], h.Suites[a]
			}
			return len(h.Suites) > 2
		})
		ch("suites/append-unknown", "cipher_suites", func(h *chello) bool { h.Suites = append(h.Suites, 0xfafa); return true })
		ch("suites/keep-only-last-real", "cipher_suites", func(h *chello) bool {
			// what a downgrade attacker does: leave only the suite the client likes least
			for i := len(h.Suites) - 1; i >= 0; i-- {
				if h.Suites[i] != 0x00ff {
					h.Suites = []uint16{h.Suites[i]}
					return true
				}
			}
			return false
		})
		ch("compression/replace-null-by-deflate", "compression_methods", func(h *chello) bool { h.Comp = []byte{1}; return true })
		ch("compression/append-deflate", "compression_methods", func(h *chello) bool { h.Comp = append(h.Comp, 1); return true })
		ch("compression/prepend-deflate", "compression_methods", func(h *chello) bool { h.Comp = append([]byte{1}, h.Comp...); return true })
		out = append(out, extMuts(h.Exts, h.HasExts, false, false, func(name, field string, edit func(has *bool, e *[]ext) bool) mut {
			return chMut(name, field, func(h *chello) bool { return edit(&h.HasExts, &h.Exts) })
		})...)
	case hsServerHello:
		h, err := parseSH(t.Body)
		if err != nil {
			return nil
		}
		sh := func(name, field string, edit func(h *shello) bool) { out = append(out, shMut(name, field, edit)) }
		sh("version/1.0", "version", func(h *shello) bool { h.Ver = []byte{0xfe, 0xff}; return true })
		sh("version/1.3", "version", func(h *shello) bool { h.Ver = []byte{0xfe, 0xfc}; return true })
		sh("version/flip-low-bit", "version", func(h *shello) bool { return flipIn(&h.Ver, 1, 0) })
		sh("random/flip-first-bit", "random", func(h *shello) bool { return flipIn(&h.Random, 0, 7) })
		sh("random/flip-last-bit", "random", func(h *shello) bool { return flipIn(&h.Random, 31, 0) })
		if !t.HRR {
			sh("random/hrr-magic", "random", func(h *shello) bool { h.Random = clone(hrrRandom); return true })
			sh("random/downgrade-sentinel-1.2", "random", func(h *shello) bool {
				copy(h.Random[24:], []byte{0x44, 0x4F, 0x57, 0x4E, 0x47, 0x52, 0x44, 0x01})
				return true
			})
		}
		if len(h.SID) > 0 {
			sh("session_id/flip-first-bit", "session_id", func(h *shello) bool { return flipIn(&h.SID, 0, 7) })
			sh("session_id/flip-last-bit", "session_id", func(h *shello) bool { return flipIn(&h.SID, len(h.SID)-1, 0) })
			sh("session_id/remove", "session_id", func(h *shello) bool { h.SID = nil; return true })
		} else {
			sh("session_id/insert", "session_id", func(h *shello) bool { h.SID = bytes.Repeat([]byte{0x42}, 32); return true })
		}
		sh("suite/select-other-offered", "cipher_suite", func(h *shello) bool {
			if h.Suite == md.suites[0] {
				h.Suite = md.suites[1]
			} else {
				h.Suite = md.suites[0]
			}
			return true
		})
		sh("suite/select-not-offered", "cipher_suite", func(h *shello) bool { h.Suite = md.foreignSuite; return true })
		sh("suite/select-unknown", "cipher_suite", func(h *shello) bool { h.Suite = 0xfafa; return true })
		sh("compression/deflate", "compression_method", func(h *shello) bool { h.Comp = 1; return true })
		out = append(out, extMuts(h.Exts, h.HasExts, true, t.HRR, func(name, field string, edit func(has *bool, e *[]ext) bool) mut {
			return shMut(name, field, func(h *shello) bool { return edit(&h.HasExts, &h.Exts) })
		})...)
	case hsHelloVerifyRequest:
		// server_version (2), cookie<0..2^8-1>
		raw("server_version/1.0", "server_version", func(b []byte) []byte {
			if len(b) < 2 {
				return nil
			}
			return append([]byte{0xfe, 0xff}, b[2:]...)
		})
		raw("server_version/1.2", "server_version", func(b []byte) []byte {
			if len(b) < 2 {
				return nil
			}
			return append([]byte{0xfe, 0xfd}, b[2:]...)
		})
		raw("server_version/1.3", "server_version", func(b []byte) []byte {
			if len(b) < 2 {
				return nil
			}
			return append([]byte{0xfe, 0xfc}, b[2:]...)
		})
		raw("server_version/flip-low-bit", "server_version", func(b []byte) []byte { return flipBit(b, 1, 0) })
		raw("cookie/flip-first-bit", "cookie", func(b []byte) []byte { return flipBit(b, 3, 7) })
		raw("cookie/flip-last-bit", "cookie", func(b []byte) []byte { return flipBit(b, len(b)-1, 0) })
		raw("cookie/truncate", "cookie", func(b []byte) []byte {
			if len(b) < 4 {
				return nil
			}
			o := clone(b[:len(b)-1])
			o[2]--
			return o
		})
		raw("cookie/extend", "cookie", func(b []byte) []byte {
			if len(b) < 3 || b[2] == 255 {
				return nil
			}
			o := append(clone(b), 0x5a)
			o[2]++
			return o
		})
		raw("cookie/empty", "cookie", func(b []byte) []byte {
			if len(b) < 4 {
				return nil
			}
			return []byte{b[0], b[1], 0}
		})
	case hsCertificate:
		certs, ok := splitCerts(t.Body)
		if !ok {
			return nil
		}
		for i, c := range certs {
			i := i
			for _, at := range []struct {
				name string
				off  int
			}{{"first-byte", 0}, {"serial", 15}, {"quarter", len(c) / 4}, {"middle", len(c) / 2}, {"three-quarters", 3 * len(c) / 4}, {"last-byte", len(c) - 1}} {
				at := at
				raw(fmt.Sprintf("cert%d/flip-bit-%s", i, at.name), fmt.Sprintf("certificate[%d]", i), func(b []byte) []byte {
					cs, ok := splitCerts(b)
					if !ok || i >= len(cs) {
						return nil
					}
					x := flipBit(cs[i], at.off, 0)
					if x == nil {
						return nil
					}
					cs[i] = x
					return joinCerts(cs)
				})
			}
			raw(fmt.Sprintf("cert%d/remove", i), "certificate_list", func(b []byte) []byte {
				cs, ok := splitCerts(b)
				if !ok || i >= len(cs) {
					return nil
				}
				return joinCerts(append(cs[:i:i], cs[i+1:]...))
			})
			raw(fmt.Sprintf("cert%d/duplicate", i), "certificate_list", func(b []byte) []byte {
				cs, ok := splitCerts(b)
				if !ok || i >= len(cs) {
					return nil
				}
				return joinCerts(append(cs, cs[i]))
			})
		}
		if len(certs) > 1 {
			raw("certs/swap-first-two", "certificate_list", func(b []byte) []byte {
				cs, ok := splitCerts(b)
				if !ok || len(cs) < 2 {
					return nil
				}
				cs[0], cs[1] = cs[1], cs[0]
				return joinCerts(cs)
			})
		}
		raw("certs/replace-by-other-valid-chain", "certificate_list", func(b []byte) []byte {
			if md.otherChain == nil {
				return nil
			}
			return joinCerts(md.otherChain)
		})
	case hsServerKeyExchange:
		kx := md.kx
		off := 0 // offset of the ECDH parameters
		if kx == "psk" || kx == "ecdhepsk" {
			if len(t.Body) < 2 {
				return nil
			}
			hl := int(binary.BigEndian.Uint16(t.Body))
			off = 2 + hl
			raw("psk_identity_hint/flip-last-bit", "psk_identity_hint", func(b []byte) []byte {
				if hl == 0 {
					return nil
				}
				return flipBit(b, 2+hl-1, 0)
			})
			raw("psk_identity_hint/truncate", "psk_identity_hint", func(b []byte) []byte {
				if hl == 0 || len(b) < 2+hl {
					return nil
				}
				o := binary.BigEndian.AppendUint16(nil, uint16(hl-1))
				o = append(o, b[2:2+hl-1]...)
				return append(o, b[2+hl:]...)
			})
			raw("psk_identity_hint/extend", "psk_identity_hint", func(b []byte) []byte {
				if len(b) < 2+hl {
					return nil
				}
				o := binary.BigEndian.AppendUint16(nil, uint16(hl+1))
				o = append(o, b[2:2+hl]...)
				o = append(o, 'x')
				return append(o, b[2+hl:]...)
			})
		}
		if kx == "ecdhe" || kx == "ecdhepsk" {
			if len(t.Body) < off+4 {
				return nil
			}
			pl := int(t.Body[off+3])
			raw("curve_type/explicit-prime", "curve_type", func(b []byte) []byte {
				o := clone(b)
				o[off] = 1
				return o
			})
			raw("named_curve/other", "named_curve", func(b []byte) []byte {
				o := clone(b)
				copy(o[off+1:off+3], otherGroup(b[off+1:off+3]))
				return o
			})
			raw("named_curve/p384", "named_curve", func(b []byte) []byte {
				o := clone(b)
				copy(o[off+1:off+3], []byte{0x00, 0x18})
				return o
			})
			raw("public_key/flip-first-bit", "public_key", func(b []byte) []byte { return flipBit(b, off+4, 0) })
			raw("public_key/flip-middle-bit", "public_key", func(b []byte) []byte { return flipBit(b, off+4+pl/2, 3) })
			raw("public_key/flip-last-bit", "public_key", func(b []byte) []byte { return flipBit(b, off+4+pl-1, 0) })
			if kx == "ecdhe" {
				so := off + 4 + pl // hash, signature alg, signature<16>
				raw("signature_algorithm/hash-sha384", "signature_algorithm", func(b []byte) []byte {
					if len(b) < so+4 {
						return nil
					}
					o := clone(b)
					if o[so] == 5 {
						o[so] = 4
					} else {
						o[so] = 5
					}
					return o
				})
				raw("signature_algorithm/sig-rsa", "signature_algorithm", func(b []byte) []byte {
					if len(b) < so+4 {
						return nil
					}
					o := clone(b)
					o[so+1] = 1
					return o
				})
				raw("signature/flip-first-bit", "signature", func(b []byte) []byte { return flipBit(b, so+4, 7) })
				raw("signature/flip-middle-bit", "signature", func(b []byte) []byte { return flipBit(b, so+4+(len(b)-so-4)/2, 2) })
				raw("signature/flip-last-bit", "signature", func(b []byte) []byte { return flipBit(b, len(b)-1, 0) })
				raw("signature/empty", "signature", func(b []byte) []byte {
					if len(b) < so+4 {
						return nil
					}
					return append(clone(b[:so+2]), 0, 0)
				})
			}
		}
	case hsCertificateRequest:
		raw("certificate_types/replace-first", "certificate_types", func(b []byte) []byte {
			if len(b) < 2 || b[0] == 0 {
				return nil
			}
			o := clone(b)
			o[1] ^= 0x03
			return o
		})
		raw("certificate_types/remove-first", "certificate_types", func(b []byte) []byte {
			if len(b) < 2 || b[0] == 0 {
				return nil
			}
			o := []byte{b[0] - 1}
			return append(o, b[2:]...)
		})
		ctl := 0
		if len(t.Body) > 0 {
			ctl = int(t.Body[0])
		}
		so := 1 + ctl
		for _, al := range listAlters(2, 2, []byte{0x04, 0x01}) {
			al := al
			raw("signature_algorithms/"+al.Name, "signature_algorithms", func(b []byte) []byte {
				if len(b) < so+2 {
					return nil
				}
				n := int(binary.BigEndian.Uint16(b[so:]))
				if len(b) < so+2+n {
					return nil
				}
				x := al.Fn(b[so : so+2+n])
				if x == nil {
					return nil
				}
				o := append(clone(b[:so]), x...)
				return append(o, b[so+2+n:]...)
			})
		}
		raw("certificate_authorities/flip-last-bit", "certificate_authorities", func(b []byte) []byte {
			if len(b) < so+2 {
				return nil
			}
			n := int(binary.BigEndian.Uint16(b[so:]))
			ca := so + 2 + n
			if len(b) < ca+2 || binary.BigEndian.Uint16(b[ca:]) == 0 {
				return nil
			}
			return flipBit(b, len(b)-1, 0)
		})
		raw("certificate_authorities/remove", "certificate_authorities", func(b []byte) []byte {
			if len(b) < so+2 {
				return nil
			}
			n := int(binary.BigEndian.Uint16(b[so:]))
			ca := so + 2 + n
			if len(b) < ca+2 || binary.BigEndian.Uint16(b[ca:]) == 0 {
				return nil
			}
			return append(clone(b[:ca]), 0, 0)
		})
		raw("certificate_authorities/add-bogus", "certificate_authorities", func(b []byte) []byte {
			if len(b) < so+2 {
				return nil
			}
			n := int(binary.BigEndian.Uint16(b[so:]))
			ca := so + 2 + n
			if len(b) < ca+2 {
				return nil
			}
			cas := clone(b[ca+2:])
			cas = put16(cas, []byte{0x30, 0x00})
			return put16(clone(b[:ca]), cas)
		})
	case hsServerHelloDone:
		// the body is empty; the generic "append a byte" below is the only field-level alteration
	case hsClientKeyExchange:
		kx := md.kx
		off := 0
		if kx == "psk" || kx == "ecdhepsk" {
			if len(t.Body) < 2 {
				return nil
			}
			il := int(binary.BigEndian.Uint16(t.Body))
			off = 2 + il
			raw("psk_identity/flip-last-bit", "psk_identity", func(b []byte) []byte {
				if il == 0 {
					return nil
				}
				return flipBit(b, 2+il-1, 0)
			})
			raw("psk_identity/truncate", "psk_identity", func(b []byte) []byte {
				if il == 0 || len(b) < 2+il {
					return nil
				}
				o := binary.BigEndian.AppendUint16(nil, uint16(il-1))
				o = append(o, b[2:2+il-1]...)
				return append(o, b[2+il:]...)
			})
			raw("psk_identity/extend", "psk_identity", func(b []byte) []byte {
				if len(b) < 2+il {
					return nil
				}
				o := binary.BigEndian.AppendUint16(nil, uint16(il+1))
				o = append(o, b[2:2+il]...)
				o = append(o, 'x')
				return append(o, b[2+il:]...)
			})
		}
		if kx == "ecdhe" || kx == "ecdhepsk" {
			raw("public_key/flip-first-bit", "public_key", func(b []byte) []byte { return flipBit(b, off+1, 0) })
			raw("public_key/flip-middle-bit", "public_key", func(b []byte) []byte { return flipBit(b, off+1+(len(b)-off-1)/2, 3) })
			raw("public_key/flip-last-bit", "public_key", func(b []byte) []byte { return flipBit(b, len(b)-1, 0) })
			raw("public_key/flip-top-bit-of-last-byte", "public_key", func(b []byte) []byte { return flipBit(b, len(b)-1, 7) })
		}
	case hsCertificateVerify:
		raw("signature_algorithm/hash-other", "signature_algorithm", func(b []byte) []byte {
			if len(b) < 4 {
				return nil
			}
			o := clone(b)
			if o[0] == 5 {
				o[0] = 4
			} else {
				o[0] = 5
			}
			return o
		})
		raw("signature_algorithm/sig-rsa", "signature_algorithm", func(b []byte) []byte {
			if len(b) < 4 {
				return nil
			}
			o := clone(b)
			o[1] = 1
			return o
		})
		raw("signature/flip-first-bit", "signature", func(b []byte) []byte { return flipBit(b, 4, 7) })
		raw("signature/flip-middle-bit", "signature", func(b []byte) []byte { return flipBit(b, 4+(len(b)-4)/2, 2) })
		raw("signature/flip-last-bit", "signature", func(b []byte) []byte { return flipBit(b, len(b)-1, 0) })
		raw("signature/empty", "signature", func(b []byte) []byte {
			if len(b) < 4 {
				return nil
			}
			return []byte{b[0], b[1], 0, 0}
		})
	}
	// every message: a byte after the end of the last field (still inside the handshake length)
	raw("trailing/append-zero-byte", "trailing_byte", func(b []byte) []byte { return append(clone(b), 0) })
	return out
}

// bitMuts is the thorough-tier catalogue: every single-bit flip of the body.
func bitMuts(t target, md *mode) []mut {
	sp := spans(t.Type, t.Body, md.kx, md.v13)
	out := make([]mut, 0, 8*len(t.Body))
	for off := range t.Body {
		for bit := uint(0); bit < 8; bit++ {
			off, bit := off, bit
			out = append(out, mut{Name: fmt.Sprintf("bit/%d.%d", off, bit), Field: labelAt(sp, off),
				Fn: func(b []byte) []byte { return flipBit(b, off, bit) }})
		}
	}
	return out
}

func splitCerts(b []byte) ([][]byte, bool) {
	r := &rd{b: b}
	l := &rd{b: r.take(r.u24())}
	if r.err != nil || len(r.b) != 0 {
		return nil, false
	}
	var out [][]byte
	for len(l.b) > 0 && l.err == nil {
		out = append(out, l.vec24())
	}
	return out, l.err == nil
}

func joinCerts(cs [][]byte) []byte {
	var l []byte
	for _, c := range cs {
		l = put24(l, c)
	}
	return put24(nil, l)
}
