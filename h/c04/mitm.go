package c04

// The on-path attacker: a delivery loop on top of the world. Every datagram in flight is taken off
// the network, opened with the attacker's own parser, the mutation is applied to the cleartext
// handshake message identified by (direction, type, message_seq) — on every transmission of it — and
// the re-framed datagram is handed to the addressee. Fake time advances only when nothing is in flight.

import (
	"bytes"
	"fmt"
	"time"

	dtls "github.com/pion/dtls/v3"
	dtlsstate "github.com/pion/dtls/v3/internal/state"
	"github.com/pion/dtls/v3/zzverif/world"
)

type mitm struct {
	w   *world.World
	pr  *world.Pair
	tgt *target // nil: pass-through (baseline)
	mu  *mut

	seen    []target // first transmission of every cleartext handshake message, in order of appearance
	seenKey map[string]bool
	applied int  // transmissions altered and delivered
	sawHVR  bool // the server emitted a HelloVerifyRequest in this run
	sawCKE  bool // the client emitted a ClientKeyExchange in this run (full DTLS 1.2 handshake)
	// the ClientHello bodies as the SERVER received them (message_seq 0 and 1)
	chAtServer [2][]byte
	events     []string
	onEvent    func(ev string)
	err        error
	// afterAlter counts deliveries since the first altered delivery; cut is set when the execution was
	// ended by the delivery cap instead of the fake-time horizon.
	afterAlter int
	cut        bool
	dropHVR    int // number of HelloVerifyRequest datagrams still to be lost on the way to the client
}

// deliveryCap bounds the deliveries after the first altered one. A failing DTLS 1.2 run needs about a dozen
// (two per retransmission tick up to +15 s); the cap matters for DTLS 1.3, where diverged handshake keys make
// both peers answer each other's retransmission immediately — an endless exchange at one fake instant.
const deliveryCap = 24

func newMITM(w *world.World, pr *world.Pair, tgt *target, mu *mut) *mitm {
	return &mitm{w: w, pr: pr, tgt: tgt, mu: mu, seenKey: map[string]bool{}}
}

func (a *mitm) event(format string, args ...any) {
	ev := fmt.Sprintf(format, args...)
	if len(a.events) < 60 {
		a.events = append(a.events, ev)
	}
	a.w.Logf("mitm: %s", ev)
	if a.onEvent != nil {
		a.w.Settle()
		f := ev
		if i := bytes.IndexByte([]byte(ev), ' '); i > 0 {
			f = ev[:i]
		}
		a.onEvent(f)
	}
}

// rewrite returns the datagram to deliver instead of d and whether it was altered.
func (a *mitm) rewrite(d *world.Datagram) ([]byte, bool) {
	fromClient := d.Src == world.ClientAddr
	recs, err := parseDatagram(d.Data)
	if err != nil {
		a.err = fmt.Errorf("%v in %s", err, world.Describe(d.Data))
		return d.Data, false
	}
	altered := false
	for ri := range recs {
		for mi := range recs[ri].Msgs {
			msg := &recs[ri].Msgs[mi]
			hrr := msg.Type == hsServerHello && len(msg.Body) >= 34 && bytes.Equal(msg.Body[2:34], hrrRandom)
			k := fmt.Sprintf("%v/%d/%d", fromClient, msg.Type, msg.MsgSeq)
			if !a.seenKey[k] {
				a.seenKey[k] = true
				a.seen = append(a.seen, target{FromClient: fromClient, Type: msg.Type, Seq: msg.MsgSeq, HRR: hrr, Body: clone(msg.Body)})
			}
			if !fromClient && msg.Type == hsHelloVerifyRequest {
				a.sawHVR = true
			}
			if fromClient && msg.Type == hsClientKeyExchange {
				a.sawCKE = true
			}
			if a.tgt != nil && a.tgt.FromClient == fromClient && a.tgt.Type == msg.Type && a.tgt.Seq == msg.MsgSeq {
				nb := a.mu.Fn(msg.Body)
				if nb != nil && !bytes.Equal(nb, msg.Body) {
					msg.Body = nb
					altered = true
				}
			}
			if fromClient && msg.Type == hsClientHello && msg.MsgSeq < 2 {
				a.chAtServer[msg.MsgSeq] = clone(msg.Body)
			}
		}
	}
	out := frameDatagram(recs)
	if !altered && !bytes.Equal(out, d.Data) {
		// the re-framer must be the identity on untouched datagrams
		a.err = fmt.Errorf("re-framing changed an untouched datagram: %s", world.Describe(d.Data))
		return d.Data, false
	}
	if altered && bytes.Equal(out, d.Data) {
		altered = false
	}
	return out, altered
}

// secondDiffersFromFirst: did the server receive a second ClientHello that differs from the first one
// it received in anything but the cookie?
func (a *mitm) secondDiffersFromFirst() bool {
	if a.chAtServer[0] == nil || a.chAtServer[1] == nil {
		return false
	}
	h0, e0 := parseCH(a.chAtServer[0])
	h1, e1 := parseCH(a.chAtServer[1])
	if e0 != nil || e1 != nil {
		return !bytes.Equal(a.chAtServer[0], a.chAtServer[1])
	}
	return !bytes.Equal(h0.withoutCookie(), h1.withoutCookie())
}

// pump delivers FIFO until stop() holds or the fake-time horizon passes.
func (a *mitm) pump(hz time.Duration, stop func() bool) {
	w := a.w
	end := w.Now() + hz
	for steps := 0; steps < 5000; steps++ {
		w.Settle()
		if a.err != nil || (stop != nil && stop()) {
			return
		}
		if d := w.Head(); d != nil {
			w.Take(d)
			if a.dropHVR > 0 && d.Src != world.ClientAddr {
				if recs, err := parseDatagram(d.Data); err == nil && len(recs) == 1 && len(recs[0].Msgs) == 1 && recs[0].Msgs[0].Type == hsHelloVerifyRequest {
					a.dropHVR--
					a.sawHVR = true
					a.event("LOSE %s %s", dirName(d.Src), world.Describe(d.Data))
					continue
				}
			}
			out, altered := a.rewrite(d)
			if a.err != nil {
				return
			}
			ok := w.Push(d.Src, d.Dst, out)
			w.Settle()
			tag := "deliver"
			if altered {
				tag = "ALTER"
				if ok {
					a.applied++
				}
			}
			if !ok {
				tag += "-to-closed"
			}
			a.event("%s %s %s", tag, dirName(d.Src), world.Describe(out))
			if a.applied > 0 {
				if a.afterAlter++; a.afterAlter >= deliveryCap {
					w.Settle()
					if stop == nil || !stop() {
						a.cut = true
					}
					return
				}
			}
			continue
		}
		left := end - w.Now()
		if left <= 0 {
			return
		}
		w.DrainActivity()
		if w.Head() != nil {
			continue
		}
		t0 := w.Now()
		if w.WaitActivity(left) {
			a.event("tick +%v", (w.Now() - t0).Round(time.Millisecond))
		}
	}
	a.err = fmt.Errorf("step cap reached")
}

func dirName(src world.Addr) string {
	if src == world.ClientAddr {
		return "C>S"
	}
	return "S>C"
}

// ---------------------------------------------------------------------------------------------

// params are the negotiated parameters an attacker might want to steer.
type params struct {
	Version   string
	Suite     uint16
	EMS       bool
	Curve     uint16
	ALPN      string
	SRTP      uint16
	LocalCID  bool
	RemoteCID bool
	SNI       string // server side: the name the server believes the client asked for
}

func ecdheSuite(id uint16) bool {
	switch id {
	case 0x00a8, 0xc0a8, 0xc0a4, 0xc0a9, 0x00ae, 0xccab: // plain PSK suites
		return false
	}
	return true
}

// paramsOf reads the negotiated parameters of an endpoint. The curve counts only where a key exchange
// took place on it (full DTLS 1.2 handshake with an (EC)DHE suite; DTLS 1.3 always).
func paramsOf(e *world.Endpoint, full12 bool) params {
	var p params
	dtls.VerifPeek(e.Conn, func(in dtls.VerifInternals) {
		cs := dtlsstate.CommonState(in.State)
		p.Version = fmt.Sprintf("%d.%d", cs.LocalVersion.Major, cs.LocalVersion.Minor)
		if cs.CipherSuite != nil {
			p.Suite = uint16(cs.CipherSuite.ID())
		}
		p.ALPN = cs.NegotiatedProtocol
		p.SRTP = uint16(cs.SRTPProtectionProfile())
		p.LocalCID = len(cs.LocalConnectionID()) > 0
		p.RemoteCID = len(cs.RemoteConnectionID) > 0
		if !cs.IsClient {
			p.SNI = cs.ServerName
		}
		switch st := in.State.(type) {
		case *dtlsstate.State12:
			p.EMS = st.ExtendedMasterSecret
			if full12 && ecdheSuite(p.Suite) && st.LocalKeypair != nil {
				p.Curve = uint16(st.LocalKeypair.Curve)
			}
		case *dtlsstate.State13:
			p.EMS = true // the TLS 1.3 key schedule always binds the transcript
			p.Curve = uint16(st.SelectedGroup)
		}
	})
	return p
}

func diffParams(who string, want, got params) []string {
	var d []string
	add := func(name string, a, b any) {
		if a != b {
			d = append(d, fmt.Sprintf("%s.%s(%v->%v)", who, name, a, b))
		}
	}
	add("version", want.Version, got.Version)
	add("suite", fmt.Sprintf("%04x", want.Suite), fmt.Sprintf("%04x", got.Suite))
	add("ems", want.EMS, got.EMS)
	add("curve", fmt.Sprintf("%04x", want.Curve), fmt.Sprintf("%04x", got.Curve))
	add("alpn", want.ALPN, got.ALPN)
	add("srtp", want.SRTP, got.SRTP)
	add("cid-in", want.LocalCID, got.LocalCID)
	add("cid-out", want.RemoteCID, got.RemoteCID)
	if want.SNI != got.SNI {
		// the altered name is attacker-chosen bytes: keep it out of cause keys
		how := "altered"
		if got.SNI == "" {
			how = "removed"
		}
		d = append(d, fmt.Sprintf("%s.sni(%s)", who, how))
	}
	return d
}
