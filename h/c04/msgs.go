package c04

// Independent decoders / encoders for the cleartext handshake message bodies the attacker rewrites
// (RFC 5246 §7.4, RFC 6347 §4.2, RFC 8446 §4.1, RFC 4279/5489 for the PSK key exchanges), and a
// field map (labelled byte spans) used to name the field a single-bit flip lands in.

import (
	"encoding/binary"
	"fmt"
)

type ext struct {
	Type uint16
	Data []byte
}

var extNames = map[uint16]string{0: "server_name", 10: "supported_groups", 11: "ec_point_formats", 13: "signature_algorithms",
	14: "use_srtp", 16: "alpn", 23: "extended_master_secret", 41: "pre_shared_key", 43: "supported_versions", 44: "cookie",
	45: "psk_key_exchange_modes", 50: "signature_algorithms_cert", 51: "key_share", 54: "connection_id", 61: "return_routability",
	65281: "renegotiation_info"}

func extName(t uint16) string {
	if n, ok := extNames[t]; ok {
		return n
	}
	return fmt.Sprintf("ext%d", t)
}

func parseExts(r *rd) (has bool, out []ext) {
	if r.err != nil || len(r.b) == 0 {
		return false, nil
	}
	blk := r.take(r.u16())
	if r.err != nil {
		return true, nil
	}
	if len(r.b) != 0 {
		r.err = fmt.Errorf("c04: %d bytes after the extension block", len(r.b))
		return true, nil
	}
	e := &rd{b: blk}
	for len(e.b) > 0 && e.err == nil {
		t := e.u16()
		d := e.vec16()
		if e.err == nil {
			out = append(out, ext{Type: uint16(t), Data: d})
		}
	}
	r.err = e.err
	return true, out
}

func putExts(o []byte, has bool, exts []ext) []byte {
	if !has {
		return o
	}
	var e []byte
	for _, x := range exts {
		e = binary.BigEndian.AppendUint16(e, x.Type)
		e = put16(e, x.Data)
	}
	return put16(o, e)
}

func cloneExts(in []ext) []ext {
	out := make([]ext, len(in))
	for i, x := range in {
		out[i] = ext{Type: x.Type, Data: clone(x.Data)}
	}
	return out
}

// chello is a ClientHello body.
type chello struct {
	Ver     []byte
	Random  []byte
	SID     []byte
	Cookie  []byte
	Suites  []uint16
	Comp    []byte
	HasExts bool
	Exts    []ext
}

func parseCH(b []byte) (*chello, error) {
	r := &rd{b: b}
	h := &chello{}
	h.Ver = clone(r.take(2))
	h.Random = clone(r.take(32))
	h.SID = r.vec8()
	h.Cookie = r.vec8()
	cs := r.take(r.u16())
	if r.err == nil && len(cs)%2 != 0 {
		return nil, fmt.Errorf("c04: odd cipher-suite vector")
	}
	for i := 0; i+1 < len(cs); i += 2 {
		h.Suites = append(h.Suites, binary.BigEndian.Uint16(cs[i:]))
	}
	h.Comp = r.vec8()
	h.HasExts, h.Exts = parseExts(r)
	if r.err != nil {
		return nil, r.err
	}
	return h, nil
}

func (h *chello) marshal() []byte {
	var o []byte
	o = append(o, h.Ver...)
	o = append(o, h.Random...)
	o = put8(o, h.SID)
	o = put8(o, h.Cookie)
	var cs []byte
	for _, s := range h.Suites {
		cs = binary.BigEndian.AppendUint16(cs, s)
	}
	o = put16(o, cs)
	o = put8(o, h.Comp)
	return putExts(o, h.HasExts, h.Exts)
}

// withoutCookie is the "everything but the cookie" encoding used by the carve-out predicate
// "the second ClientHello differs from the first apart from the cookie".
func (h *chello) withoutCookie() []byte {
	c := *h
	c.Cookie = nil
	return c.marshal()
}

// shello is a ServerHello / HelloRetryRequest body.
type shello struct {
	Ver     []byte
	Random  []byte
	SID     []byte
	Suite   uint16
	Comp    byte
	HasExts bool
	Exts    []ext
}

func parseSH(b []byte) (*shello, error) {
	r := &rd{b: b}
	h := &shello{}
	h.Ver = clone(r.take(2))
	h.Random = clone(r.take(32))
	h.SID = r.vec8()
	h.Suite = uint16(r.u16())
	h.Comp = byte(r.u8())
	h.HasExts, h.Exts = parseExts(r)
	if r.err != nil {
		return nil, r.err
	}
	return h, nil
}

func (h *shello) marshal() []byte {
	var o []byte
	o = append(o, h.Ver...)
	o = append(o, h.Random...)
	o = put8(o, h.SID)
	o = binary.BigEndian.AppendUint16(o, h.Suite)
	o = append(o, h.Comp)
	return putExts(o, h.HasExts, h.Exts)
}

// hrrRandom is the RFC 8446 §4.1.3 HelloRetryRequest magic.
var hrrRandom = []byte{
	0xCF, 0x21, 0xAD, 0x74, 0xE5, 0x9A, 0x61, 0x11, 0xBE, 0x1D, 0x8C, 0x02, 0x1E, 0x65, 0xB8, 0x91,
	0xC2, 0xA2, 0x11, 0x16, 0x7A, 0xBB, 0x8C, 0x5E, 0x07, 0x9E, 0x09, 0xE2, 0xC8, 0xA8, 0x33, 0x9C,
}

// ---------------------------------------------------------------------------------------------
// Field maps.

type span struct {
	From, To int
	Label    string
}

type spanner struct {
	r     rd
	total int
	out   []span
}

func newSpanner(b []byte) *spanner { return &spanner{r: rd{b: b}, total: len(b)} }

func (s *spanner) pos() int { return s.total - len(s.r.b) }

// field consumes n bytes under a label.
func (s *spanner) field(n int, label string) []byte {
	p := s.pos()
	x := s.r.take(n)
	if s.r.err == nil && n > 0 {
		s.out = append(s.out, span{p, p + n, label})
	}
	return x
}

// vec consumes a length-prefixed vector (lenBytes of length + payload) under one label.
func (s *spanner) vec(lenBytes int, label string) []byte {
	p := s.pos()
	var n int
	switch lenBytes {
	case 1:
		n = s.r.u8()
	case 2:
		n = s.r.u16()
	default:
		n = s.r.u24()
	}
	x := s.r.take(n)
	if s.r.err == nil {
		s.out = append(s.out, span{p, p + lenBytes + n, label})
	}
	return x
}

func (s *spanner) exts() {
	if s.r.err != nil || len(s.r.b) == 0 {
		return
	}
	s.field(2, "extensions_length")
	for len(s.r.b) > 0 && s.r.err == nil {
		p := s.pos()
		t := s.r.u16()
		s.r.take(s.r.u16())
		if s.r.err == nil {
			s.out = append(s.out, span{p, s.pos(), "ext:" + extName(uint16(t))})
		}
	}
}

// spans labels the bytes of a baseline message body. kx is "ecdhe", "psk" or "ecdhepsk" (selects the
// ServerKeyExchange / ClientKeyExchange layout). Bytes not covered (or everything, if the body does
// not decode) are labelled "body".
func spans(typ byte, body []byte, kx string, v13 bool) []span {
	s := newSpanner(body)
	switch typ {
	case hsClientHello:
		s.field(2, "version")
		s.field(32, "random")
		s.vec(1, "session_id")
		s.vec(1, "cookie")
		s.vec(2, "cipher_suites")
		s.vec(1, "compression_methods")
		s.exts()
	case hsServerHello:
		s.field(2, "version")
		s.field(32, "random")
		s.vec(1, "session_id")
		s.field(2, "cipher_suite")
		s.field(1, "compression_method")
		s.exts()
	case hsHelloVerifyRequest:
		s.field(2, "server_version")
		s.vec(1, "cookie")
	case hsCertificate:
		s.field(3, "certificate_list_length")
		for i := 0; len(s.r.b) > 0 && s.r.err == nil; i++ {
			s.vec(3, fmt.Sprintf("certificate[%d]", i))
		}
	case hsServerKeyExchange:
		if kx == "psk" || kx == "ecdhepsk" {
			s.vec(2, "psk_identity_hint")
		}
		if kx == "ecdhe" || kx == "ecdhepsk" {
			s.field(1, "curve_type")
			s.field(2, "named_curve")
			s.vec(1, "public_key")
		}
		if kx == "ecdhe" {
			s.field(2, "signature_algorithm")
			s.vec(2, "signature")
		}
	case hsCertificateRequest:
		s.vec(1, "certificate_types")
		s.vec(2, "signature_algorithms")
		s.vec(2, "certificate_authorities")
	case hsClientKeyExchange:
		if kx == "psk" || kx == "ecdhepsk" {
			s.vec(2, "psk_identity")
		}
		if kx == "ecdhe" || kx == "ecdhepsk" {
			s.vec(1, "public_key")
		}
	case hsCertificateVerify:
		s.field(2, "signature_algorithm")
		s.vec(2, "signature")
	}
	if s.r.err != nil || len(s.r.b) != 0 {
		return []span{{0, len(body), "body"}}
	}
	return s.out
}

func labelAt(sp []span, off int) string {
	for _, s := range sp {
		if off >= s.From && off < s.To {
			return s.Label
		}
	}
	return "body"
}
