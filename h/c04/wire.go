// Package c04 checks property C04 (transcript integrity: tampering with any handshake message
// prevents completion). This file is the attacker's own datagram parser / re-framer: DTLS record
// headers and handshake headers. It never calls a pion decoder.
//
// Scope of the re-framer: every record of a datagram that has a legacy (DTLSPlaintext) header, epoch 0
// and content type handshake is opened; it must consist of whole, unfragmented handshake messages
// (fragment_offset = 0, fragment_length = length) — the check runs with MTU 4000 on both sides (the
// library accepts any positive MTU; its inbound buffer is 8192 bytes) so that every message, including
// the certificate chains, is one fragment; a fragmented cleartext message is a harness error, never a
// verdict. Everything else (ChangeCipherSpec, alerts, epoch >= 1 records, tls12_cid records, DTLS 1.3
// unified-header records, ACKs) is passed through byte for byte.
package c04

import (
	"encoding/binary"
	"errors"
	"fmt"
)

const (
	ctChangeCipherSpec = 20
	ctAlert            = 21
	ctHandshake        = 22
	ctAppData          = 23

	hsClientHello        = 1
	hsServerHello        = 2
	hsHelloVerifyRequest = 3
	hsCertificate        = 11
	hsServerKeyExchange  = 12
	hsCertificateRequest = 13
	hsServerHelloDone    = 14
	hsCertificateVerify  = 15
	hsClientKeyExchange  = 16
	hsFinished           = 20
)

var hsNames = map[byte]string{1: "ClientHello", 2: "ServerHello", 3: "HelloVerifyRequest", 11: "Certificate",
	12: "ServerKeyExchange", 13: "CertificateRequest", 14: "ServerHelloDone", 15: "CertificateVerify",
	16: "ClientKeyExchange", 20: "Finished"}

func hsName(t byte) string {
	if n, ok := hsNames[t]; ok {
		return n
	}
	return fmt.Sprintf("hs%d", t)
}

// hsMsg is one whole cleartext handshake message.
type hsMsg struct {
	Type   byte
	MsgSeq uint16
	Body   []byte
}

// wrec is one element of a datagram: either an opened epoch-0 handshake record (Msgs != nil) or opaque bytes.
type wrec struct {
	Hdr  [11]byte // type, version, epoch, sequence number (length is recomputed)
	Msgs []hsMsg
	Raw  []byte // opaque element (whole record, or the unparsed tail of the datagram)
}

var errFragmented = errors.New("c04: cleartext handshake message is fragmented (harness bound: one fragment per message)")

// parseDatagram opens a datagram. It fails only on epoch-0 handshake records it cannot faithfully
// re-frame (fragmented or truncated handshake messages).
func parseDatagram(b []byte) ([]wrec, error) {
	var out []wrec
	for len(b) > 0 {
		legacy := len(b) >= 13 && (b[0] == ctChangeCipherSpec || b[0] == ctAlert || b[0] == ctHandshake || b[0] == ctAppData)
		if !legacy {
			// tls12_cid, unified header, ACK, ...: the rest of the datagram is not ours to touch
			out = append(out, wrec{Raw: b})
			return out, nil
		}
		n := int(binary.BigEndian.Uint16(b[11:13]))
		if len(b) < 13+n {
			out = append(out, wrec{Raw: b})
			return out, nil
		}
		rec, body := b[:13+n], b[13:13+n]
		b = b[13+n:]
		epoch := binary.BigEndian.Uint16(rec[3:5])
		if rec[0] != ctHandshake || epoch != 0 {
			out = append(out, wrec{Raw: rec})
			continue
		}
		w := wrec{}
		copy(w.Hdr[:], rec[:11])
		for len(body) > 0 {
			if len(body) < 12 {
				return nil, fmt.Errorf("c04: truncated handshake header (%d bytes)", len(body))
			}
			l := int(body[1])<<16 | int(body[2])<<8 | int(body[3])
			off := int(body[6])<<16 | int(body[7])<<8 | int(body[8])
			fl := int(body[9])<<16 | int(body[10])<<8 | int(body[11])
			if off != 0 || fl != l {
				return nil, errFragmented
			}
			if len(body) < 12+l {
				return nil, fmt.Errorf("c04: truncated handshake body (%d of %d bytes)", len(body)-12, l)
			}
			w.Msgs = append(w.Msgs, hsMsg{Type: body[0], MsgSeq: binary.BigEndian.Uint16(body[4:6]), Body: body[12 : 12+l]})
			body = body[12+l:]
		}
		if len(w.Msgs) == 0 {
			out = append(out, wrec{Raw: rec})
			continue
		}
		out = append(out, w)
	}
	return out, nil
}

// frameDatagram is the inverse of parseDatagram: record type, version, epoch and record sequence
// number are kept, message_seq is kept, the three length fields are recomputed.
func frameDatagram(recs []wrec) []byte {
	var d []byte
	for _, r := range recs {
		if r.Msgs == nil {
			d = append(d, r.Raw...)
			continue
		}
		var body []byte
		for _, m := range r.Msgs {
			n := len(m.Body)
			body = append(body, m.Type, byte(n>>16), byte(n>>8), byte(n))
			body = binary.BigEndian.AppendUint16(body, m.MsgSeq)
			body = append(body, 0, 0, 0, byte(n>>16), byte(n>>8), byte(n))
			body = append(body, m.Body...)
		}
		d = append(d, r.Hdr[:]...)
		d = binary.BigEndian.AppendUint16(d, uint16(len(body)))
		d = append(d, body...)
	}
	return d
}

// ---------------------------------------------------------------------------------------------
// A tiny cursor for the message-body parsers.

type rd struct {
	b   []byte
	err error
}

var errShort = errors.New("c04: short message")

func (r *rd) take(n int) []byte {
	if r.err != nil {
		return nil
	}
	if n < 0 || len(r.b) < n {
		r.err = errShort
		return nil
	}
	x := r.b[:n]
	r.b = r.b[n:]
	return x
}

func (r *rd) u8() int {
	x := r.take(1)
	if x == nil {
		return 0
	}
	return int(x[0])
}

func (r *rd) u16() int {
	x := r.take(2)
	if x == nil {
		return 0
	}
	return int(binary.BigEndian.Uint16(x))
}

func (r *rd) u24() int {
	x := r.take(3)
	if x == nil {
		return 0
	}
	return int(x[0])<<16 | int(x[1])<<8 | int(x[2])
}

func (r *rd) vec8() []byte  { return clone(r.take(r.u8())) }
func (r *rd) vec16() []byte { return clone(r.take(r.u16())) }
func (r *rd) vec24() []byte { return clone(r.take(r.u24())) }

func clone(b []byte) []byte { return append([]byte{}, b...) }

func put8(o []byte, v []byte) []byte { return append(append(o, byte(len(v))), v...) }
func put16(o []byte, v []byte) []byte {
	return append(binary.BigEndian.AppendUint16(o, uint16(len(v))), v...)
}
func put24(o []byte, v []byte) []byte {
	n := len(v)
	return append(append(o, byte(n>>16), byte(n>>8), byte(n)), v...)
}
