package c04

import (
	"fmt"
	"os"
	"testing"

	"github.com/pion/dtls/v3/zzverif/run"
	"github.com/pion/dtls/v3/zzverif/world"
)

// TestC04Dump prints the unmodified run of every mode (C04_DUMP=1): diagnostics only.
func TestC04Dump(t *testing.T) {
	if os.Getenv("C04_DUMP") == "" {
		t.Skip("diagnostics")
	}
	p := world.GetPKI(t)
	seed := seedFor(run.GetEnv())
	for _, m := range modes(p) {
		b := getBaseline(t, p, m, seed)
		fmt.Printf("%-34s err=%q client=%+v server=%+v\n", m.name, b.err, b.params[0], b.params[1])
		for _, tg := range b.targets {
			md := *m
			n := len(fieldMuts(tg, &md))
			line := fmt.Sprintf("    %-32s %4dB %3d field mutations", tg, len(tg.Body), n)
			if os.Getenv("C04_DUMP") == "2" {
				line += fmt.Sprintf(" %x", tg.Body)
			}
			fmt.Println(line)
		}
	}
}
