package c04

// C04 — transcript integrity: tampering with any handshake message prevents completion.
//
// Enumerated (DESIGN.md §5 C04): handshake mode (DTLS 1.2: key exchange {ECDHE-ECDSA certificate,
// the same with client authentication, PSK, ECDHE-PSK} x extended master secret {on, off} x
// {full, resumed} x hello-verify {on, off}; DTLS 1.3: {server certificate, mutual} x {HelloRetryRequest,
// direct}) x every cleartext handshake message of the unmodified run in either direction x every
// mutation of the field-level catalogue (mut.go); thorough tier additionally every single-bit flip
// of every such message body, one execution each. Both sides offer two cipher suites, two curves,
// two ALPN protocols, two SRTP profiles and a connection ID, so that steering is observable.
//
// Adversary: an on-path rewriter (mitm.go) that opens every datagram in flight with its own parser,
// applies the mutation to EVERY transmission of the message identified by (direction, handshake type,
// message_seq) and re-frames it with correct lengths; MTU 4000 keeps every message in one fragment.
//
// Oracle (property text): no endpoint that sent or received an altered message may report a
// successful handshake within the fake-time horizon; a side that completes must hold negotiated
// parameters identical to the unmodified run's. Two carve-outs (RFC 6347 §4.2.6: the first
// ClientHello and the HelloVerifyRequest are not part of the DTLS 1.2 transcript) get the weaker
// assertion "no negotiated parameter is steered, and a second ClientHello that differs from the first
// apart from the cookie is refused" — see judge().

import (
	"fmt"
	"sort"
	"strings"
	"sync"
	"testing"
	"time"

	dtls "github.com/pion/dtls/v3"
	"github.com/pion/dtls/v3/pkg/crypto/elliptic"
	"github.com/pion/dtls/v3/zzverif/checks"
	"github.com/pion/dtls/v3/zzverif/run"
	"github.com/pion/dtls/v3/zzverif/world"
)

const (
	alpnA = "h-a"
	alpnB = "h-b"
	srtpA = dtls.SRTP_AES128_CM_HMAC_SHA1_80 // 0x0001
	srtpB = dtls.SRTP_AEAD_AES_128_GCM       // 0x0007

	// mtu: one fragment per handshake message (the largest cleartext message, a certificate chain, is
	// well below it; the library accepts any positive MTU and reads datagrams of up to 8192 bytes).
	mtu = 4000
	// horizon of fake time per execution: retransmissions at +1 s, +3 s, +7 s and +15 s happen inside it, so a
	// "hung" verdict has seen every retransmission of the altered message altered in the same way.
	horizon = 16 * time.Second
)

var pskKey = []byte{0xC0, 0x4C, 0x04, 0x11, 0x22}

type mode struct {
	name         string
	v13          bool
	kx           string // layout of ServerKeyExchange / ClientKeyExchange in the unmodified run
	ems          bool
	resumed      bool
	hv           bool
	clientAuth   bool
	C, S         world.Cfg
	suites       [2]uint16
	foreignSuite uint16 // a real suite neither side configured
	otherChain   [][]byte
	// filled per target
	otherServerChain, otherClientChain [][]byte
}

func modes(p *world.PKI) []*mode {
	var out []*mode
	curves := []elliptic.Curve{elliptic.X25519, elliptic.P256}
	base := func(c world.Cfg) world.Cfg {
		c.Curves = curves
		c.ALPN = []string{alpnA, alpnB}
		c.SRTP = []dtls.SRTPProtectionProfile{srtpA, srtpB}
		c.CIDLen = 4
		c.MTU = mtu
		return c
	}
	type kxDef struct {
		name       string
		kx         string
		suites     [2]dtls.CipherSuiteID
		foreign    dtls.CipherSuiteID
		psk        bool
		clientAuth bool
	}
	kxs := []kxDef{
		{"cert", "ecdhe", [2]dtls.CipherSuiteID{dtls.TLS_ECDHE_ECDSA_WITH_AES_128_GCM_SHA256, dtls.TLS_ECDHE_ECDSA_WITH_CHACHA20_POLY1305_SHA256}, dtls.TLS_ECDHE_ECDSA_WITH_AES_256_CBC_SHA, false, false},
		{"certca", "ecdhe", [2]dtls.CipherSuiteID{dtls.TLS_ECDHE_ECDSA_WITH_AES_128_GCM_SHA256, dtls.TLS_ECDHE_ECDSA_WITH_CHACHA20_POLY1305_SHA256}, dtls.TLS_ECDHE_ECDSA_WITH_AES_256_CBC_SHA, false, true},
		// every PRF hash and record-protection kind at least once: the Finished computation takes the hash from the
		// negotiated suite, so a SHA-384 suite exercises a different verify_data path than the SHA-256 ones
		{"cert384", "ecdhe", [2]dtls.CipherSuiteID{dtls.TLS_ECDHE_ECDSA_WITH_AES_256_GCM_SHA384, dtls.TLS_ECDHE_ECDSA_WITH_AES_128_GCM_SHA256}, dtls.TLS_ECDHE_ECDSA_WITH_AES_256_CBC_SHA, false, false},
		{"certcbc", "ecdhe", [2]dtls.CipherSuiteID{dtls.TLS_ECDHE_ECDSA_WITH_AES_256_CBC_SHA, dtls.TLS_ECDHE_ECDSA_WITH_AES_128_CCM}, dtls.TLS_ECDHE_ECDSA_WITH_AES_128_GCM_SHA256, false, false},
		{"psk", "psk", [2]dtls.CipherSuiteID{dtls.TLS_PSK_WITH_AES_128_GCM_SHA256, dtls.TLS_PSK_WITH_AES_128_CCM_8}, dtls.TLS_PSK_WITH_AES_128_CBC_SHA256, true, false},
		// the second suite is a plain-PSK one: steering the suite here would also remove forward secrecy
		{"ecdhepsk", "ecdhepsk", [2]dtls.CipherSuiteID{dtls.TLS_ECDHE_PSK_WITH_AES_128_CBC_SHA256, dtls.TLS_PSK_WITH_AES_128_GCM_SHA256}, dtls.TLS_PSK_WITH_AES_128_CCM_8, true, false},
	}
	for _, k := range kxs {
		for _, ems := range []bool{true, false} {
			for _, resumed := range []bool{false, true} {
				for _, hv := range []bool{true, false} {
					if k.clientAuth && resumed {
						// a DTLS 1.2 server that received a client certificate never stores the session
						// (flight4Parse: state.SessionID = nil), so there is no resumed mutual-auth handshake
						continue
					}
					m := &mode{kx: k.kx, ems: ems, resumed: resumed, hv: hv, clientAuth: k.clientAuth,
						suites: [2]uint16{uint16(k.suites[0]), uint16(k.suites[1])}, foreignSuite: uint16(k.foreign)}
					m.name = fmt.Sprintf("12-%s-%s-%s-%s", k.name, map[bool]string{true: "ems", false: "noems"}[ems],
						map[bool]string{true: "resumed", false: "full"}[resumed], map[bool]string{true: "hv", false: "nohv"}[hv])
					c, s := base(world.Cfg{}), base(world.Cfg{})
					c.Suites, s.Suites = k.suites[:], k.suites[:]
					if k.psk {
						c.Cred, s.Cred = "psk", "psk"
						c.PSK, s.PSK = pskKey, pskKey
					}
					if k.clientAuth {
						c.Cred = "ecdsa"
						s.ClientAuth = dtls.RequireAndVerifyClientCert
					}
					if !ems {
						c.EMS, s.EMS = 2, 2
					}
					s.SkipHelloVerify = !hv
					m.C, m.S = c, s
					m.otherServerChain = p.ServerECDSA2.Certificate
					m.otherClientChain = p.ClientECDSA2.Certificate
					out = append(out, m)
				}
			}
		}
	}
	for _, ca := range []bool{false, true} {
		for _, hrr := range []bool{true, false} {
			m := &mode{v13: true, kx: "ecdhe", ems: true, hv: hrr, clientAuth: ca,
				suites: [2]uint16{uint16(dtls.TLS_AES_128_GCM_SHA256), uint16(dtls.TLS_CHACHA20_POLY1305_SHA256)}, foreignSuite: uint16(dtls.TLS_AES_256_GCM_SHA384)}
			m.name = fmt.Sprintf("13-%s-%s", map[bool]string{true: "certca", false: "cert"}[ca], map[bool]string{true: "hrr", false: "direct"}[hrr])
			c, s := base(world.Cfg{MinV: 13, MaxV: 13}), base(world.Cfg{MinV: 13, MaxV: 13})
			c.Suites = []dtls.CipherSuiteID{dtls.TLS_AES_128_GCM_SHA256, dtls.TLS_CHACHA20_POLY1305_SHA256}
			s.Suites = c.Suites
			if ca {
				c.Cred = "ecdsa"
				s.ClientAuth = dtls.RequireAndVerifyClientCert
			}
			s.SkipHelloVerify = !hrr
			m.C, m.S = c, s
			out = append(out, m)
		}
	}
	return out
}

func (m *mode) variant() checks.Variant {
	return checks.Variant{Name: m.name, V13: m.v13, C: m.C, S: m.S, Resumed: m.resumed}
}

// baseline is what the unmodified run of a mode looks like.
type baseline struct {
	err     string
	targets []target
	params  [2]params // client, server
}

var (
	baseMu sync.Mutex
	bases  = map[string]*baseline{}
)

func hasHVR(b *baseline) bool {
	for _, t := range b.targets {
		if !t.FromClient && t.Type == hsHelloVerifyRequest {
			return true
		}
	}
	return false
}

func seedFor(env run.Env) uint64 { return 0xC04 + env.Seed }

// getBaseline runs the mode through a pass-through MITM (cached per process).
func getBaseline(t *testing.T, p *world.PKI, m *mode, seed uint64) *baseline {
	baseMu.Lock()
	defer baseMu.Unlock()
	if b, ok := bases[m.name]; ok {
		return b
	}
	b := &baseline{}
	world.Run(t, seed, func(w *world.World) {
		pr, err := m.variant().Setup(w, p)
		if err != nil {
			b.err = "setup: " + err.Error()
			return
		}
		at := newMITM(w, pr, nil, nil)
		at.pump(horizon, pr.BothDone)
		if at.err != nil {
			b.err = "mitm: " + at.err.Error()
		} else if !pr.BothOK() {
			b.err = fmt.Sprintf("unmodified handshake did not complete: client=%v server=%v", pr.C.HS, pr.S.HS)
		}
		b.targets = at.seen
		b.params = [2]params{paramsOf(pr.C, at.sawCKE), paramsOf(pr.S, at.sawCKE)}
		pr.CloseAll()
	})
	bases[m.name] = b
	return b
}

// ---------------------------------------------------------------------------------------------

type c04case struct {
	m   *mode
	tgt target
	mu  mut
	// loseHVR: the first HelloVerifyRequest is lost on the way, so the client sends its first ClientHello
	// again (altered again by the attacker) before the cookie exchange goes on: the server handles the first
	// ClientHello twice
	loseHVR bool
}

// runCase executes one (mode, target, mutation).
func runCase(t *testing.T, p *world.PKI, cs c04case, seed uint64) run.Outcome {
	var o run.Outcome
	m := cs.m
	b := getBaseline(t, p, m, seed)
	if b.err != "" {
		o.Violation, o.Key, o.Class = "harness: baseline of "+m.name+": "+b.err, "harness", "harness"
		return o
	}
	// no-op guard: a mutation that leaves the bytes of the baseline message unchanged is no alteration
	mutated := cs.mu.Fn(cs.tgt.Body)
	if mutated == nil || string(mutated) == string(cs.tgt.Body) {
		o.Skip = true
		o.Class = "skipped:no-op-or-not-applicable"
		return o
	}
	world.Run(t, seed, func(w *world.World) {
		pr, err := m.variant().Setup(w, p)
		if err != nil {
			o.Violation, o.Key, o.Class = "harness: setup: "+err.Error(), "harness", "harness"
			return
		}
		at := newMITM(w, pr, &cs.tgt, &cs.mu)
		if cs.loseHVR {
			at.dropHVR = 1
		}
		tr := &world.Tracer{}
		tr.Visit(pr.StateString(nil), "init")
		at.onEvent = func(ev string) { tr.Visit(pr.StateString(nil), ev) }
		at.pump(horizon, pr.BothDone)
		o.States, o.Transitions = tr.States, tr.Trans
		if at.err != nil {
			o.Violation, o.Key, o.Class = "harness: mitm: "+at.err.Error(), "harness", "harness"
			pr.CloseAll()
			return
		}
		judge(&o, cs, b, pr, at)
		pr.CloseAll()
	})
	return o
}

// endpoint outcome labels
func endOutcome(op *world.Op) string {
	done, err := op.Result()
	switch {
	case !done:
		return "hung"
	case err == nil:
		return "COMPLETED"
	}
	s := strings.ToLower(err.Error())
	switch {
	case strings.Contains(s, "verify data") || strings.Contains(s, "finished"):
		return "failed-at-Finished"
	case strings.Contains(s, "alert"):
		return "alerted"
	}
	return "rejected"
}

func errText(op *world.Op) string {
	done, err := op.Result()
	switch {
	case !done:
		return "pending"
	case err == nil:
		return "nil"
	}
	s := err.Error()
	if len(s) > 90 {
		s = s[:90] + "…"
	}
	return s
}

// judge is the oracle.
func judge(o *run.Outcome, cs c04case, b *baseline, pr *world.Pair, at *mitm) {
	m, tgt, mu := cs.m, cs.tgt, cs.mu
	cOut, sOut := endOutcome(pr.C.HS), endOutcome(pr.S.HS)
	cOK, sOK := cOut == "COMPLETED", sOut == "COMPLETED"
	o.Counters = map[string]int{}
	o.Sample = map[string]any{"mode": m.name, "target": tgt.String(), "mutation": mu.Name, "client": cOut + ":" + errText(pr.C.HS),
		"server": sOut + ":" + errText(pr.S.HS), "applied": at.applied, "events": len(at.events)}
	if at.applied == 0 {
		// the message never appeared (cannot happen for a target taken from the unmodified run of the same seed)
		o.Violation, o.Key, o.Class = fmt.Sprintf("harness: %s %s never seen in flight", m.name, tgt), "harness", "harness"
		return
	}
	o.NonTrivial = true
	o.Counters["altered_transmissions"] = at.applied
	if at.applied > 1 {
		o.Counters["cases_with_altered_retransmission"] = 1
	}
	if at.cut {
		o.Counters["cut_by_delivery_cap"] = 1
	}

	// negotiated parameters of every side that completed, against the unmodified run
	var steer []string
	if cOK {
		steer = append(steer, diffParams("client", b.params[0], paramsOf(pr.C, at.sawCKE))...)
	}
	if sOK {
		steer = append(steer, diffParams("server", b.params[1], paramsOf(pr.S, at.sawCKE))...)
	}
	steerKey := steerNames(steer)

	// Carve-outs (RFC 6347 §4.2.6): HelloVerifyRequest — in particular (1) its server_version — and (2) the
	// ClientHello it answers are not part of the DTLS 1.2 handshake transcript, so no Finished can cover
	// them. Whether the carve-out applies is decided from THIS run: the altered message is a DTLS 1.2
	// HelloVerifyRequest, or it is ClientHello#0 and the server answered it with a HelloVerifyRequest.
	carve := ""
	if !m.v13 {
		switch {
		case tgt.Type == hsHelloVerifyRequest && mu.Field == "server_version":
			carve = "hvr-server-version"
		case tgt.Type == hsHelloVerifyRequest && mu.Field == "cookie":
			// not carved out: the cookie is outside the transcript but bound by its echo — the server accepts
			// a second ClientHello only with exactly the cookie it issued (retry.go
			// ValidateHelloVerifyRequestResponse), so an altered cookie must not lead to completion either
		case tgt.Type == hsHelloVerifyRequest:
			carve = "hvr"
		case tgt.Type == hsClientHello && tgt.Seq == 0 && at.sawHVR:
			carve = "first-clienthello"
		}
	}

	// overall class
	overall := "hung"
	switch {
	case cOK || sOK:
		overall = "COMPLETED"
	case cOut == "failed-at-Finished" || sOut == "failed-at-Finished":
		overall = "failed-at-Finished"
	case cOut != "hung" || sOut != "hung":
		overall = "rejected-early"
	}
	scope := "transcript"
	if carve != "" {
		scope = "carveout"
	}
	o.Class = fmt.Sprintf("%s/%s/c:%s/s:%s", scope, overall, cOut, sOut)
	o.Counters["outcome:"+scope+":"+overall] = 1

	desc := fmt.Sprintf("mode=%s altered=%s mutation=%s (field %s; %d transmissions altered): client=%s(%s) server=%s(%s)",
		m.name, tgt, mu.Name, mu.Field, at.applied, cOut, errText(pr.C.HS), sOut, errText(pr.S.HS))
	if len(steer) > 0 {
		desc += " STEERED " + strings.Join(steer, ",")
	}
	tail := "; fsm client=" + pr.C.Log.LastFSM() + " server=" + pr.S.Log.LastFSM() + "; events=" + strings.Join(at.events, " | ")

	if carve != "" {
		// weaker assertion
		differs := at.secondDiffersFromFirst()
		switch {
		case len(steer) > 0 && carve == "first-clienthello":
			o.Key = "F11-first-clienthello-steers:" + steerKey
			o.Violation = "the first ClientHello (outside the transcript) was altered, the second went through unmodified, and the handshake completed with a steered parameter: " + desc + tail
		case len(steer) > 0:
			o.Key = "helloverifyrequest-alteration-steers:" + steerKey
			o.Violation = "an altered HelloVerifyRequest steered a negotiated parameter: " + desc + tail
		case sOK && differs:
			o.Key = "F11-second-clienthello-differs-from-altered-first:" + mu.Field
			o.Violation = "the server completed although the second ClientHello it received differs from the first one apart from the cookie (no parameter steered): " + desc + tail
		}
		if o.Violation == "" && (cOK || sOK) {
			o.Counters["carveout_completed_unsteered:"+carve] = 1
		}
		return
	}

	// strict assertion: both endpoints sent or received the altered message (it was delivered)
	if !cOK && !sOK {
		return
	}
	typ, field := tgt.typeName(), mu.Field
	fullServer12 := !m.v13 && at.sawCKE
	// With the extended master secret in use on the completing server, the session hash (RFC 7627) binds the master
	// secret to every message from ClientHello through ClientKeyExchange: an alteration there that still lets the
	// server complete is not explained by F4 alone and gets its own key.
	inSessionHash := tgt.Type != hsCertificateVerify && tgt.Type != hsHelloVerifyRequest
	serverEMS := sOK && paramsOf(pr.S, at.sawCKE).EMS
	switch {
	case sOK && !cOK && fullServer12 && serverEMS && inSessionHash:
		o.Key = fmt.Sprintf("ems-session-hash-does-not-bind:%s:%s", typ, field)
		o.Violation = "server completed with the extended master secret in use although a " + typ + " covered by the session hash was altered: " + desc + tail
	case sOK && !cOK && fullServer12 && tgt.FromClient:
		o.Key = fmt.Sprintf("F4-server-accepts-altered:%s:%s", typ, field)
		o.Violation = "server completed although it received an altered " + typ + ": " + desc + tail
		o.Counters[fmt.Sprintf("F4[%s]:%s:%s", m.name, typ, field)] = 1
	case sOK && !cOK && fullServer12:
		o.Key = fmt.Sprintf("F4-server-completes-although-its-message-was-altered:%s:%s", typ, field)
		o.Violation = "server completed although the " + typ + " it sent reached the client altered (the client's Finished, computed over the altered transcript, is not checked): " + desc + tail
		o.Counters[fmt.Sprintf("F4s[%s]:%s:%s", m.name, typ, field)] = 1
	case sOK && cOK:
		o.Key = fmt.Sprintf("both-completed-after-altered:%s:%s:%s", family(m), typ, field)
		o.Violation = "BOTH endpoints completed after an altered " + typ + ": " + desc + tail
	case cOK:
		o.Key = fmt.Sprintf("client-completed-after-altered:%s:%s:%s", family(m), typ, field)
		o.Violation = "client completed after an altered " + typ + ": " + desc + tail
	default:
		o.Key = fmt.Sprintf("server-completed-after-altered:%s:%s:%s", family(m), typ, field)
		o.Violation = "server completed after an altered " + typ + ": " + desc + tail
	}
	if len(steer) > 0 {
		o.Counters["completed_with_steered:"+steerKey] = 1
	}
}

func family(m *mode) string {
	switch {
	case m.v13:
		return "dtls13"
	case m.resumed:
		return "dtls12-resumed"
	}
	return "dtls12-full"
}

// steerNames renders the steered parameter names (without endpoint prefix), sorted, joined by '+'.
func steerNames(steer []string) string {
	set := map[string]bool{}
	for _, s := range steer {
		if i := strings.IndexByte(s, '.'); i >= 0 {
			s = s[i+1:]
		}
		set[s] = true
	}
	var k []string
	for s := range set {
		k = append(k, s)
	}
	sort.Strings(k)
	return strings.Join(k, "+")
}

// ---------------------------------------------------------------------------------------------

func TestC04(t *testing.T) {
	env := run.GetEnv()
	p := world.GetPKI(t)
	seed := seedFor(env)
	var cases []run.Case
	nField, nBit := 0, 0
	perMode := map[string]int{}
	for _, m := range modes(p) {
		m := m
		b := getBaseline(t, p, m, seed)
		if b.err != "" {
			cases = append(cases, run.Case{ID: m.name + "/baseline", Run: func(t *testing.T) run.Outcome {
				return run.Outcome{Violation: "harness: baseline of " + m.name + ": " + b.err, Key: "harness", Class: "harness"}
			}})
			continue
		}
		for _, tg := range b.targets {
			tg := tg
			md := *m
			if tg.FromClient {
				md.otherChain = m.otherClientChain
			} else {
				md.otherChain = m.otherServerChain
			}
			muts := fieldMuts(tg, &md)
			nField += len(muts)
			if env.Thorough() {
				bm := bitMuts(tg, &md)
				nBit += len(bm)
				muts = append(muts, bm...)
			}
			for _, mu := range muts {
				cs := c04case{m: m, tgt: tg, mu: mu}
				perMode[m.name]++
				cases = append(cases, run.Case{ID: fmt.Sprintf("%s/%s/%s", m.name, tg, mu.Name),
					Run: func(t *testing.T) run.Outcome { return runCase(t, p, cs, seed) }})
				if tg.FromClient && tg.Type == hsClientHello && tg.Seq == 0 && hasHVR(b) {
					cl := cs
					cl.loseHVR = true
					perMode[m.name]++
					cases = append(cases, run.Case{ID: fmt.Sprintf("%s/%s/%s+hvr-lost", m.name, tg, mu.Name),
						Run: func(t *testing.T) run.Outcome { return runCase(t, p, cl, seed) }})
				}
			}
		}
	}
	run.Main(t, "C04", cases, map[string]any{
		"modes": len(modes(p)), "field_level_mutations": nField, "single_bit_flips": nBit, "mtu": mtu,
		"horizon_s": horizon.Seconds(), "seed": seed, "cases_per_mode": perMode,
	})
}
