module github.com/pion/dtls/v3/zzverif

go 1.26

require (
	github.com/pion/dtls/v3 v3.0.0
	github.com/pion/logging v0.2.4
	golang.org/x/crypto v0.48.0
)

require (
	github.com/pion/transport/v4 v4.1.0 // indirect
	golang.org/x/sys v0.41.0 // indirect
)

replace github.com/pion/dtls/v3 => /repo
