package c19

import (
	"bytes"
	"fmt"

	dtls "github.com/pion/dtls/v3"
	"github.com/pion/dtls/v3/pkg/protocol"
)

// Field-level corruptions: multi-byte corruptions of the serialised form that single-byte
// substitutions cannot reach (every cipher suite id the library knows, boundary epochs and sequence
// numbers, secrets and connection IDs of other lengths, role flip). The serialised form is a gob
// stream; gob matches struct fields by name, so a mirror struct re-encodes it with one field changed.

var allSuiteIDs = []dtls.CipherSuiteID{
	dtls.TLS_AES_128_GCM_SHA256, dtls.TLS_AES_256_GCM_SHA384, dtls.TLS_CHACHA20_POLY1305_SHA256,
	dtls.TLS_ECDHE_ECDSA_WITH_AES_128_CCM, dtls.TLS_ECDHE_ECDSA_WITH_AES_128_CCM_8,
	dtls.TLS_ECDHE_ECDSA_WITH_AES_128_GCM_SHA256, dtls.TLS_ECDHE_RSA_WITH_AES_128_GCM_SHA256,
	dtls.TLS_ECDHE_ECDSA_WITH_AES_256_GCM_SHA384, dtls.TLS_ECDHE_RSA_WITH_AES_256_GCM_SHA384,
	dtls.TLS_ECDHE_ECDSA_WITH_AES_256_CBC_SHA, dtls.TLS_ECDHE_RSA_WITH_AES_256_CBC_SHA,
	dtls.TLS_PSK_WITH_AES_128_CCM, dtls.TLS_PSK_WITH_AES_128_CCM_8, dtls.TLS_PSK_WITH_AES_256_CCM_8,
	dtls.TLS_PSK_WITH_AES_128_GCM_SHA256, dtls.TLS_PSK_WITH_AES_128_CBC_SHA256, dtls.TLS_ECDHE_PSK_WITH_AES_128_CBC_SHA256,
	dtls.TLS_ECDHE_ECDSA_WITH_CHACHA20_POLY1305_SHA256, dtls.TLS_ECDHE_RSA_WITH_CHACHA20_POLY1305_SHA256,
	dtls.TLS_PSK_WITH_CHACHA20_POLY1305_SHA256,
}

func fieldMutations(orig mirrorState) []mutation {
	var out []mutation
	add := func(name string, fn func(*mirrorState)) { out = append(out, mutation{Field: name, Fn: fn}) }
	for _, id := range allSuiteIDs {
		id := uint16(id)
		if id != orig.CipherSuiteID {
			add(fmt.Sprintf("CipherSuiteID=%#04x", id), func(m *mirrorState) { m.CipherSuiteID = id })
		}
	}
	for _, id := range []uint16{0, 0xffff} {
		id := id
		add(fmt.Sprintf("CipherSuiteID=%#04x", id), func(m *mirrorState) { m.CipherSuiteID = id })
	}
	for _, v := range []protocol.Version{{}, {Major: 0xfe, Minor: 0xff}, {Major: 3, Minor: 3}, {Major: 0xfe, Minor: 0xfb}} {
		v := v
		add(fmt.Sprintf("Version=%d.%d", v.Major, v.Minor), func(m *mirrorState) { m.Version = v })
	}
	for _, e := range []uint16{0, 2, 65535} {
		e := e
		add(fmt.Sprintf("LocalEpoch=%d", e), func(m *mirrorState) { m.LocalEpoch = e })
		add(fmt.Sprintf("RemoteEpoch=%d", e), func(m *mirrorState) { m.RemoteEpoch = e })
	}
	add("MasterSecret=nil", func(m *mirrorState) { m.MasterSecret = nil })
	add("MasterSecret=1byte", func(m *mirrorState) { m.MasterSecret = []byte{0x42} })
	add("MasterSecret=truncated47", func(m *mirrorState) { m.MasterSecret = bytes.Clone(m.MasterSecret[:len(m.MasterSecret)-1]) })
	add("MasterSecret=extended49", func(m *mirrorState) { m.MasterSecret = append(bytes.Clone(m.MasterSecret), 0) })
	add("MasterSecret=zero48", func(m *mirrorState) { m.MasterSecret = make([]byte, 48) })
	add("Randoms=swapped", func(m *mirrorState) { m.LocalRandom, m.RemoteRandom = m.RemoteRandom, m.LocalRandom })
	add("LocalRandom=zero", func(m *mirrorState) { m.LocalRandom = [32]byte{} })
	for _, q := range []struct {
		n string
		f func(uint64) uint64
	}{
		{"0", func(uint64) uint64 { return 0 }},
		{"minus1", func(s uint64) uint64 { return s - 1 }},
		{"plus1", func(s uint64) uint64 { return s + 1 }},
		{"2^48-2", func(uint64) uint64 { return 1<<48 - 2 }},
		{"2^48-1", func(uint64) uint64 { return 1<<48 - 1 }},
		{"2^48", func(uint64) uint64 { return 1 << 48 }},
		{"2^64-1", func(uint64) uint64 { return 1<<64 - 1 }},
	} {
		q := q
		add("SequenceNumber="+q.n, func(m *mirrorState) { m.SequenceNumber = q.f(m.SequenceNumber) })
	}
	big := bytes.Repeat([]byte{0x5a}, 300)
	add("LocalConnectionID=nil", func(m *mirrorState) { m.LocalConnectionID = nil })
	add("RemoteConnectionID=nil", func(m *mirrorState) { m.RemoteConnectionID = nil })
	add("ConnectionIDs=swapped", func(m *mirrorState) {
		m.LocalConnectionID, m.RemoteConnectionID = m.RemoteConnectionID, m.LocalConnectionID
	})
	add("LocalConnectionID=1byte", func(m *mirrorState) { m.LocalConnectionID = []byte{0x43} })
	add("RemoteConnectionID=1byte", func(m *mirrorState) { m.RemoteConnectionID = []byte{0x53} })
	add("LocalConnectionID=255bytes", func(m *mirrorState) { m.LocalConnectionID = big[:255] })
	add("RemoteConnectionID=255bytes", func(m *mirrorState) { m.RemoteConnectionID = big[:255] })
	add("LocalConnectionID=300bytes", func(m *mirrorState) { m.LocalConnectionID = big })
	add("RemoteConnectionID=300bytes", func(m *mirrorState) { m.RemoteConnectionID = big })
	add("LocalConnectionID=longer", func(m *mirrorState) { m.LocalConnectionID = append(bytes.Clone(m.LocalConnectionID), 0x01) })
	add("RemoteConnectionID=longer", func(m *mirrorState) { m.RemoteConnectionID = append(bytes.Clone(m.RemoteConnectionID), 0x01) })
	add("IsClient=flipped", func(m *mirrorState) { m.IsClient = !m.IsClient })
	add("RRCNegotiated=flipped", func(m *mirrorState) { m.RRCNegotiated = !m.RRCNegotiated })
	add("SRTPProtectionProfile=0", func(m *mirrorState) { m.SRTPProtectionProfile = 0 })
	add("SRTPProtectionProfile=0xffff", func(m *mirrorState) { m.SRTPProtectionProfile = 0xffff })
	add("PeerSRTPMKI=300bytes", func(m *mirrorState) { m.PeerSRTPMKI = big })
	add("PeerCertificates=nil", func(m *mirrorState) { m.PeerCertificates = nil })
	add("PeerCertificates=empty-entry", func(m *mirrorState) { m.PeerCertificates = [][]byte{{}} })
	add("PeerCertificates=garbage", func(m *mirrorState) { m.PeerCertificates = [][]byte{big, {0x30}} })
	add("IdentityHint=300bytes", func(m *mirrorState) { m.IdentityHint = big })
	add("SessionID=300bytes", func(m *mirrorState) { m.SessionID = big })
	add("NegotiatedProtocol=long", func(m *mirrorState) { m.NegotiatedProtocol = string(big) })
	return out
}
