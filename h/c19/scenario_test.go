package c19

import (
	"bytes"
	"fmt"
	"sort"
	"strings"
	"testing"
	"time"

	dtls "github.com/pion/dtls/v3"
	"github.com/pion/dtls/v3/zzverif/world"
)

// One C19 execution: establish, exchange a+b records, optionally leave one record in flight, export
// on side X, detach X silently, (corrupt,) unmarshal, resume on a new PacketConn at the same address,
// exchange 2 records each way with the untouched peer, close everything. All observations go into
// obs; the oracles (oracle_test.go) judge them.

type inflight int

const (
	inflNone       inflight = iota
	inflFromXLate           // record written by X before the export, delivered to the peer after the first resumed exchange
	inflToXLate             // record written by the peer before the export, delivered to the resumed X after the first resumed exchange
	inflFromXEarly          // ... delivered before any resumed record
	inflToXEarly
	// a network duplicate of the peer's last cleartext handshake datagram (its part of the handshake that set the
	// session up, e.g. the client's ClientKeyExchange flight) reaches the resumed X: after the first resumed
	// exchange / before any resumed record. Nothing is demanded of its delivery; the resumed side may not answer
	// it with records under numbers the original already used.
	inflHSDupLate
	inflHSDupEarly
)

var inflNames = [...]string{"none", "fromX-late", "toX-late", "fromX-early", "toX-early", "hsdup-late", "hsdup-early"}

func (i inflight) String() string { return inflNames[i] }
func (i inflight) fromX() bool    { return i == inflFromXLate || i == inflFromXEarly }
func (i inflight) early() bool    { return i == inflFromXEarly || i == inflToXEarly || i == inflHSDupEarly }
func (i inflight) hsDup() bool    { return i == inflHSDupLate || i == inflHSDupEarly }

type point struct {
	Client  bool // exporting side X is the client
	A, B    int  // records client->server, server->client before the export
	Infl    inflight
	NewAddr bool // the resumed endpoint is bound to a new local address (the peer must follow it)
}

// resumedNewAddr is where the resumed endpoint lives in the "new address" cases.
const resumedNewAddr = world.Addr("10.0.0.7:7777")

func (p point) String() string {
	side := "server"
	if p.Client {
		side = "client"
	}
	if p.NewAddr {
		return fmt.Sprintf("%s/a%d.b%d/%s/newaddr", side, p.A, p.B, p.Infl)
	}
	return fmt.Sprintf("%s/a%d.b%d/%s", side, p.A, p.B, p.Infl)
}

// mutation is one corruption of the serialised bytes.
type mutation struct {
	Trunc bool
	Pos   int
	Val   byte
	Field string // non-empty: field-level rewrite of the serialised form (see fieldMutations)
	Fn    func(*mirrorState)
}

func (m mutation) String() string {
	if m.Field != "" {
		return "field:" + m.Field
	}
	if m.Trunc {
		return fmt.Sprintf("trunc%d", m.Pos)
	}
	return fmt.Sprintf("set%d=%02x", m.Pos, m.Val)
}

func (m mutation) apply(bin []byte) []byte {
	if m.Field != "" {
		ms, err := decodeMirror(bin)
		if err != nil {
			panic("C19: mirror decode: " + err.Error())
		}
		m.Fn(&ms)
		return encodeMirror(ms)
	}
	if m.Trunc {
		return append([]byte(nil), bin[:m.Pos]...)
	}
	out := append([]byte(nil), bin...)
	out[m.Pos] = m.Val
	return out
}

var exporterLabels = [2]string{"EXTRACTOR-dtls_srtp", "EXPERIMENTAL-verif-c19"}

// params is what the connection reports about the negotiated session.
type params struct {
	StateOK bool
	Suite   uint16
	ALPN    string
	Session []byte
	Hint    []byte
	Certs   [][]byte
	SRTP    uint16
	SRTPOK  bool
	MKI     []byte
	EKM     [2][]byte
	EKMErr  [2]string
}

func ekm(st *dtls.State) (out [2][]byte, errs [2]string) {
	for i, l := range exporterLabels {
		func() {
			defer func() {
				if r := recover(); r != nil {
					errs[i] = fmt.Sprintf("panic: ExportKeyingMaterial: %v", r)
				}
			}()
			b, err := st.ExportKeyingMaterial(l, nil, 32)
			if err != nil {
				errs[i] = err.Error()
			}
			out[i] = b
		}()
	}
	return
}

func collect(conn *dtls.Conn) (p params, st dtls.State) {
	st, p.StateOK = conn.ConnectionState()
	if !p.StateOK {
		return
	}
	p.Suite = uint16(st.CipherSuiteID)
	p.ALPN = st.NegotiatedProtocol
	p.Session = st.SessionID
	p.Hint = st.IdentityHint
	p.Certs = st.PeerCertificates
	prof, ok := conn.SelectedSRTPProtectionProfile()
	p.SRTP, p.SRTPOK = uint16(prof), ok
	p.MKI, _ = conn.RemoteSRTPMasterKeyIdentifier()
	p.EKM, p.EKMErr = ekm(&st)
	return
}

func chainsEqual(a, b [][]byte) bool {
	if len(a) != len(b) {
		return false
	}
	for i := range a {
		if !bytes.Equal(a[i], b[i]) {
			return false
		}
	}
	return true
}

// diff lists the reported parameters in which b differs from a.
func (a params) diff(b params) []string {
	var d []string
	if a.StateOK != b.StateOK {
		return []string{"ConnectionState-unavailable"}
	}
	if a.Suite != b.Suite {
		d = append(d, fmt.Sprintf("CipherSuiteID %#04x->%#04x", a.Suite, b.Suite))
	}
	for i := range a.EKM {
		if !bytes.Equal(a.EKM[i], b.EKM[i]) || a.EKMErr[i] != b.EKMErr[i] {
			d = append(d, fmt.Sprintf("ExportKeyingMaterial[%s] %x(%s)->%x(%s)", exporterLabels[i], a.EKM[i], a.EKMErr[i], b.EKM[i], b.EKMErr[i]))
		}
	}
	if a.ALPN != b.ALPN {
		d = append(d, fmt.Sprintf("NegotiatedProtocol %q->%q", a.ALPN, b.ALPN))
	}
	if !bytes.Equal(a.Session, b.Session) {
		d = append(d, fmt.Sprintf("SessionID %x->%x", a.Session, b.Session))
	}
	if !bytes.Equal(a.Hint, b.Hint) {
		d = append(d, fmt.Sprintf("IdentityHint %x->%x", a.Hint, b.Hint))
	}
	if !chainsEqual(a.Certs, b.Certs) {
		d = append(d, fmt.Sprintf("PeerCertificates (%d certs -> %d certs)", len(a.Certs), len(b.Certs)))
	}
	if a.SRTP != b.SRTP || a.SRTPOK != b.SRTPOK {
		d = append(d, fmt.Sprintf("SRTP profile %#04x(%v)->%#04x(%v)", a.SRTP, a.SRTPOK, b.SRTP, b.SRTPOK))
	}
	if !bytes.Equal(a.MKI, b.MKI) {
		d = append(d, fmt.Sprintf("remote SRTP MKI %x->%x", a.MKI, b.MKI))
	}
	return d
}

// keyDiff is diff restricted to what depends on the key-relevant fields (suite, secrets, randoms, role).
func (a params) keyDiff(b params) []string {
	var d []string
	for _, x := range a.diff(b) {
		if strings.HasPrefix(x, "CipherSuiteID") || strings.HasPrefix(x, "ExportKeyingMaterial") || strings.HasPrefix(x, "ConnectionState") {
			d = append(d, x)
		}
	}
	return d
}

// wrec is one record X put on the wire.
type wrec struct {
	DgID  int
	Type  byte
	Epoch uint16
	Seq   uint64
	CID   []byte
	HS    []byte // handshake message types in a cleartext handshake record
}

type flow struct {
	Name   string // "X>P#1", "P>X#1", ...
	FromX  bool
	OK     bool
	Detail string
}

type obs struct {
	Point       point
	Mut         *mutation
	Stage       string // how far the scenario got: see constants below
	Detail      string // error text of the stage that stopped it
	Panic       string // "where: value" if one of the harness's own library calls panicked
	Bin         []byte
	Orig        params
	OrigSeqNext uint64 // private next sequence number of X's write epoch at the export (evidence only)
	EKMUnm      [2][]byte
	EKMUnmErr   [2]string
	Res         params
	Flows       []flow
	InflOK      bool // the in-flight record was delivered exactly where it was addressed
	InflDetail  string
	InflDup     string // non-empty: a second copy of the in-flight record was delivered again
	Before      []wrec // records X emitted before the export
	After       []wrec // records X emitted after the resume
	WireErr     string
	PeerCID     []byte // the CID X must put on its records (peer's local CID)
	XCID        []byte // the CID the peer puts on records to X
	// Migratable: the peer can learn a new address of X. It needs records from X that carry the
	// peer's own (non-empty) connection ID and a negotiated return-routability check (both judged on
	// the ORIGINAL connection pair before the export, never on the exported state).
	Migratable bool
	Leak       string
	MarkID     int
	States     []uint64
	Trans      []uint64
}

const (
	stNotEstablished = "not-established"
	stPreTraffic     = "pre-traffic-failed"
	stExport         = "export-failed"
	stUnmarshal      = "unmarshal-error"
	stResume         = "resume-error"
	stHSBlocked      = "handshake-blocked"
	stHSError        = "handshake-error"
	stRan            = "resumed"
)

type scen struct {
	w   *world.World
	n   *world.Net
	o   *obs
	ctr int
}

func (o *obs) notePanic(where string, err error) {
	if err != nil && strings.HasPrefix(err.Error(), "panic:") && o.Panic == "" {
		o.Panic = where + ": " + err.Error()
	}
}

// guarded runs fn converting a panic of the calling goroutine into an error.
func guarded(where string, fn func() error) (err error) {
	defer func() {
		if r := recover(); r != nil {
			err = fmt.Errorf("panic: %s: %v", where, r)
		}
	}()
	return fn()
}

func unblockRead(w *world.World, e *world.Endpoint) {
	_ = e.Conn.SetReadDeadline(time.Unix(1, 0))
	w.Settle()
	_ = e.Conn.SetReadDeadline(time.Time{})
}

func (s *scen) startRead(to *world.Endpoint) *world.Op {
	rd := s.w.Go(to.Name+".Read", func(op *world.Op) error {
		return guarded("Read", func() error {
			buf := make([]byte, 8192)
			k, err := to.Conn.Read(buf)
			op.Set(k, append([]byte(nil), buf[:k]...))
			return err
		})
	})
	s.w.Settle()
	return rd
}

func (s *scen) startWrite(from *world.Endpoint, payload []byte) *world.Op {
	wr := s.w.Go(from.Name+".Write", func(op *world.Op) error {
		return guarded("Write", func() error {
			k, err := from.Conn.Write(payload)
			op.Set(k, nil)
			return err
		})
	})
	s.w.Settle()
	return wr
}

// xfer writes payload on from and reads one message on to (bounded by a fake-time horizon).
func (s *scen) xfer(from, to *world.Endpoint, payload []byte, horizon time.Duration) (bool, string) {
	w := s.w
	rd := s.startRead(to)
	wr := s.startWrite(from, payload)
	_ = s.n.Pump(horizon, func() bool { return rd.Done() && wr.Done() })
	if !rd.Done() {
		unblockRead(w, to)
	}
	if !wr.Done() {
		_ = from.Conn.SetWriteDeadline(time.Unix(1, 0))
		w.Settle()
		_ = from.Conn.SetWriteDeadline(time.Time{})
	}
	wdone, werr := wr.Result()
	rdone, rerr := rd.Result()
	s.o.notePanic(from.Name, werr)
	s.o.notePanic(to.Name, rerr)
	switch {
	case !wdone:
		return false, "write blocked"
	case werr != nil:
		return false, "write: " + werr.Error()
	case !rdone:
		return false, "read blocked"
	case rerr != nil:
		return false, "read: " + rerr.Error()
	case !bytes.Equal(rd.Data, payload):
		return false, fmt.Sprintf("payload modified: wrote %q read %q", payload, rd.Data)
	}
	return true, ""
}

// pushAndRead delivers a held datagram and reads one message at its destination.
func (s *scen) pushAndRead(d *world.Datagram, to *world.Endpoint, horizon time.Duration) (got []byte, ok bool, detail string) {
	rd := s.startRead(to)
	s.w.Push(d.Src, d.Dst, d.Data)
	_ = s.n.Pump(horizon, rd.Done)
	if !rd.Done() {
		unblockRead(s.w, to)
	}
	done, err := rd.Result()
	s.o.notePanic(to.Name, err)
	switch {
	case !done:
		return nil, false, "read blocked"
	case err != nil:
		return nil, false, "read: " + err.Error()
	}
	return rd.Data, true, ""
}

func (s *scen) payload(tag string) []byte {
	s.ctr++
	return []byte(fmt.Sprintf("c19-%s-%02d-%s", tag, s.ctr, strings.Repeat("x", s.ctr%7)))
}

// runScenario executes one C19 execution. mut == nil: uncorrupted.
func runScenario(t *testing.T, p *world.PKI, cf config, pt point, mut *mutation, seed uint64) *obs {
	o := &obs{Point: pt, Mut: mut}
	o.Leak = world.RunLeak(t, seed, func(w *world.World) {
		ccfg, scfg := cf.Build()
		pr, err := w.NewPair(p, ccfg, scfg)
		if err != nil {
			o.Stage, o.Detail = stNotEstablished, err.Error()
			return
		}
		n := world.NewNet(w, world.ClientAddr, nil)
		s := &scen{w: w, n: n, o: o}
		if mut == nil {
			// evidence: abstract states / transitions visited (the pair's endpoints are looked up at
			// every visit, so the resumed endpoint takes the exporting one's place below)
			tr := pr.Trace(n)
			defer func() { o.States, o.Trans = tr.States, tr.Trans }()
		}
		if err := n.Pump(30*time.Second, pr.BothDone); err != nil || !pr.BothOK() {
			o.Stage, o.Detail = stNotEstablished, fmt.Sprintf("pump=%v client=%v server=%v", err, pr.C.HS, pr.S.HS)
			pr.CloseAll()
			return
		}
		n.Flush()
		x, peer := pr.S, pr.C
		if pt.Client {
			x, peer = pr.C, pr.S
		}
		// ---- traffic before the export
		for i := 0; i < pt.A; i++ {
			if ok, d := s.xfer(pr.C, pr.S, s.payload("pre-c2s"), 5*time.Second); !ok {
				o.Stage, o.Detail = stPreTraffic, d
				pr.CloseAll()
				return
			}
		}
		for i := 0; i < pt.B; i++ {
			if ok, d := s.xfer(pr.S, pr.C, s.payload("pre-s2c"), 5*time.Second); !ok {
				o.Stage, o.Detail = stPreTraffic, d
				pr.CloseAll()
				return
			}
		}
		var held *world.Datagram
		var heldPayload []byte
		var hsDup []byte
		if pt.Infl.hsDup() {
			for _, d := range w.Emitted() {
				if d.Src != peer.Addr || d.ID < pr.FirstID {
					continue
				}
				recs, _ := world.ParseDatagram(d.Data, 0)
				for _, r := range recs {
					if !r.Unified && r.Epoch == 0 && r.Type == world.CTHandshake {
						hsDup = d.Data
					}
				}
			}
			if hsDup == nil {
				o.Stage, o.Detail = stPreTraffic, "no cleartext handshake datagram of the peer to duplicate"
				pr.CloseAll()
				return
			}
		}
		if pt.Infl != inflNone && !pt.Infl.hsDup() {
			from := peer
			if pt.Infl.fromX() {
				from = x
			}
			heldPayload = s.payload("inflight")
			wr := s.startWrite(from, heldPayload)
			held = w.Head()
			if !wr.OK() || held == nil || held.Src != from.Addr {
				o.Stage, o.Detail = stPreTraffic, fmt.Sprintf("in-flight write: %v", wr)
				pr.CloseAll()
				return
			}
			w.Take(held)
		}
		w.Settle()
		if len(w.InFlight()) != 0 {
			o.Stage, o.Detail = stPreTraffic, "unexpected datagram in flight at the export point"
			pr.CloseAll()
			return
		}
		// ---- export on X
		var st dtls.State
		o.Orig, st = collect(x.Conn)
		xs, ps := x.Snapshot(), peer.Snapshot()
		o.PeerCID, o.XCID = ps.LocalCID, xs.LocalCID
		o.Migratable = len(ps.LocalCID) > 0 && xs.RRC && ps.RRC
		if int(xs.LocalEpoch) < len(xs.LocalSeq) {
			o.OrigSeqNext = xs.LocalSeq[xs.LocalEpoch]
		}
		if !o.Orig.StateOK {
			o.Stage, o.Detail = stExport, "ConnectionState() not available on an established connection"
			pr.CloseAll()
			return
		}
		var bin []byte
		if err := guarded("MarshalBinary", func() (e error) { bin, e = st.MarshalBinary(); return }); err != nil {
			o.Stage, o.Detail = stExport, "MarshalBinary: "+err.Error()
			o.notePanic("export", err)
			pr.CloseAll()
			return
		}
		o.Bin = bin
		o.MarkID = w.EmittedCount()
		// what X put on the wire, before the export and after the resume (called at the very end)
		collectWire := func() {
			cidLen := len(o.PeerCID)
			for _, d := range w.Emitted() {
				if (d.Src != x.Addr && d.Src != resumedNewAddr) || d.ID < pr.FirstID {
					continue
				}
				recs, perr := world.ParseDatagram(d.Data, cidLen)
				if perr != nil && o.WireErr == "" {
					o.WireErr = fmt.Sprintf("datagram #%d: %v", d.ID, perr)
				}
				for _, r := range recs {
					wr := wrec{DgID: d.ID, Type: r.Type, Epoch: r.Epoch, Seq: r.Seq, CID: append([]byte(nil), r.CID...)}
					for _, f := range r.HS {
						wr.HS = append(wr.HS, f.Type)
					}
					if d.ID < o.MarkID {
						o.Before = append(o.Before, wr)
					} else {
						o.After = append(o.After, wr)
					}
				}
			}
		}
		// ---- the old connection object disappears without a word to the peer
		x.Detach()
		closeOld := func() {
			w.Go(x.Name+".old.Close", func(*world.Op) error { return x.Conn.Close() })
			w.Settle()
		}
		closePeer := func() {
			w.Go(peer.Name+".Close", func(*world.Op) error { return peer.Conn.Close() })
			w.Settle()
			for _, d := range w.InFlight() {
				w.Take(d)
			}
			w.Settle()
		}
		// ---- import
		data := bin
		if mut != nil {
			data = mut.apply(bin)
		}
		var st2 dtls.State
		if err := guarded("UnmarshalBinary", func() error { return st2.UnmarshalBinary(data) }); err != nil {
			o.Stage, o.Detail = stUnmarshal, err.Error()
			o.notePanic("import", err)
			closeOld()
			closePeer()
			return
		}
		o.EKMUnm, o.EKMUnmErr = ekm(&st2)
		for _, e := range o.EKMUnmErr {
			if strings.HasPrefix(e, "panic:") && o.Panic == "" {
				o.Panic = "unmarshalled-state: " + e
			}
		}
		bindAddr := x.Addr
		if pt.NewAddr {
			bindAddr = resumedNewAddr
		}
		nx, err := x.ResumeFromAt(p, &st2, bindAddr)
		if err != nil {
			o.Stage, o.Detail = stResume, err.Error()
			o.notePanic("resume", err)
			closeOld()
			closePeer()
			return
		}
		if pt.Client {
			pr.C = nx
		} else {
			pr.S = nx
		}
		closeAll := func() {
			w.Go(nx.Name+".Close", func(*world.Op) error { return guarded("Close", nx.Conn.Close) })
			w.Settle()
			closeOld()
			closePeer()
		}
		hs := nx.StartResumedHandshake()
		w.Settle()
		if !hs.Done() {
			_ = n.Pump(5*time.Second, hs.Done)
		}
		if done, err := hs.Result(); !done {
			o.Stage = stHSBlocked
			closeAll()
			collectWire()
			return
		} else if err != nil {
			o.Stage, o.Detail = stHSError, err.Error()
			o.notePanic("resume-handshake", err)
			closeAll()
			collectWire()
			return
		}
		o.Stage = stRan
		o.Res, _ = collect(nx.Conn)
		for _, e := range o.Res.EKMErr {
			if strings.HasPrefix(e, "panic:") && o.Panic == "" {
				o.Panic = "resumed-state: " + e
			}
		}
		// ---- traffic after the resume: 2 records each way, the in-flight record in between
		hz := 2 * time.Second
		deliverHeld := func() {
			to := nx
			if pt.Infl.fromX() {
				to = peer
			}
			got, ok, d := s.pushAndRead(held, to, hz)
			o.InflOK, o.InflDetail = ok && bytes.Equal(got, heldPayload), d
			if ok && !bytes.Equal(got, heldPayload) {
				o.InflDetail = fmt.Sprintf("in-flight payload modified: wrote %q read %q", heldPayload, got)
			}
		}
		deliverHSDup := func() {
			w.Push(peer.Addr, nx.Addr, append([]byte(nil), hsDup...))
			_ = n.Pump(1500*time.Millisecond, nil)
			o.InflOK = true
		}
		if held != nil && pt.Infl.early() {
			deliverHeld()
		}
		if hsDup != nil && pt.Infl.early() {
			deliverHSDup()
		}
		// In the new-address cases the peer learns the address from the resumed side's records (it may
		// run a return-routability check first): let the network drain after each transfer, a few
		// milliseconds of fake time only. Where the peer cannot learn the address at all (no connection
		// ID on records to the peer, or no return-routability check negotiated) nothing is demanded
		// of the peer -> resumed direction and it is not attempted.
		drain := func() {
			if pt.NewAddr {
				_ = n.Pump(20*time.Millisecond, nil)
			}
		}
		for round := 1; round <= 2; round++ {
			ok, d := s.xfer(nx, peer, s.payload("post-x2p"), hz)
			o.Flows = append(o.Flows, flow{Name: fmt.Sprintf("X>P#%d", round), FromX: true, OK: ok, Detail: d})
			drain()
			if !pt.NewAddr || o.Migratable {
				ok, d = s.xfer(peer, nx, s.payload("post-p2x"), hz)
				o.Flows = append(o.Flows, flow{Name: fmt.Sprintf("P>X#%d", round), OK: ok, Detail: d})
				drain()
			}
			if round == 1 && held != nil && !pt.Infl.early() {
				deliverHeld()
			}
			if round == 1 && hsDup != nil && !pt.Infl.early() {
				deliverHSDup()
			}
		}
		if held != nil && o.InflOK {
			// a second copy of the same record must not be delivered again
			to := nx
			if pt.Infl.fromX() {
				to = peer
			}
			if got, ok, _ := s.pushAndRead(held, to, time.Second); ok {
				o.InflDup = fmt.Sprintf("second copy of the in-flight record was delivered again: %q", got)
			}
		}
		closeAll()
		collectWire()
	})
	return o
}

// seqReuse evaluates the record-number clause on the wire observations.
func seqReuse(o *obs) string {
	type key struct {
		e uint16
		s uint64
	}
	seen := map[key]int{}
	maxBefore := map[uint16]uint64{}
	hasBefore := map[uint16]bool{}
	for _, r := range o.Before {
		k := key{r.Epoch, r.Seq}
		if prev, dup := seen[k]; dup {
			return fmt.Sprintf("record number (epoch %d, seq %d) used twice before the export (datagrams #%d and #%d)", r.Epoch, r.Seq, prev, r.DgID)
		}
		seen[k] = r.DgID
		if !hasBefore[r.Epoch] || r.Seq > maxBefore[r.Epoch] {
			maxBefore[r.Epoch], hasBefore[r.Epoch] = r.Seq, true
		}
	}
	for _, r := range o.After {
		k := key{r.Epoch, r.Seq}
		if prev, dup := seen[k]; dup {
			return fmt.Sprintf("record number (epoch %d, seq %d) reused: datagram #%d already carried it, resumed side sent it again in #%d", r.Epoch, r.Seq, prev, r.DgID)
		}
		seen[k] = r.DgID
		if hasBefore[r.Epoch] && r.Seq <= maxBefore[r.Epoch] {
			return fmt.Sprintf("resumed side sent (epoch %d, seq %d) which is not greater than the %d already used before the export", r.Epoch, r.Seq, maxBefore[r.Epoch])
		}
	}
	return ""
}

// wireCID checks that every record X emitted after the resume is protected the way the session
// negotiated: tls12_cid records carrying the peer's CID, or plain records when the peer has none.
func wireCID(o *obs) string {
	if o.WireErr != "" {
		return "unparsable datagram from the resumed side: " + o.WireErr
	}
	for _, r := range o.After {
		if len(o.PeerCID) > 0 {
			if r.Type != world.CTCID || !bytes.Equal(r.CID, o.PeerCID) {
				return fmt.Sprintf("resumed side sent a record of type %d with CID %x; the peer's connection ID is %x", r.Type, r.CID, o.PeerCID)
			}
		} else if r.Type == world.CTCID {
			return "resumed side sent a tls12_cid record although the peer negotiated no connection ID"
		}
	}
	return ""
}

func epochsAfter(o *obs) string {
	m := map[uint16]bool{}
	for _, r := range o.After {
		m[r.Epoch] = true
	}
	var e []int
	for k := range m {
		e = append(e, int(k))
	}
	sort.Ints(e)
	return fmt.Sprint(e)
}
