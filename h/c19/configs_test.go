package c19

import (
	"strings"

	dtls "github.com/pion/dtls/v3"
	"github.com/pion/dtls/v3/zzverif/world"
)

// Configuration space of C19: suite class x feature set (<= k features of pairwise distinct
// dimensions). Both endpoints get the pure-data world.Cfg; nothing here is random.

type suiteClass struct {
	Name string
	ID   dtls.CipherSuiteID
	PSK  bool
	Cred string // server credential for certificate suites
}

var pskKey = []byte{0xAB, 0xC1, 0x23, 0x45, 0x67}

func quickSuites() []suiteClass {
	return []suiteClass{
		{Name: "ECDSA-GCM128", ID: dtls.TLS_ECDHE_ECDSA_WITH_AES_128_GCM_SHA256, Cred: "ecdsa"},
		{Name: "ECDSA-CCM", ID: dtls.TLS_ECDHE_ECDSA_WITH_AES_128_CCM, Cred: "ecdsa"},
		{Name: "ECDSA-CBC", ID: dtls.TLS_ECDHE_ECDSA_WITH_AES_256_CBC_SHA, Cred: "ecdsa"},
		{Name: "ECDSA-CHACHA", ID: dtls.TLS_ECDHE_ECDSA_WITH_CHACHA20_POLY1305_SHA256, Cred: "ecdsa"},
		{Name: "PSK-GCM", ID: dtls.TLS_PSK_WITH_AES_128_GCM_SHA256, PSK: true},
		{Name: "PSK-CBC", ID: dtls.TLS_PSK_WITH_AES_128_CBC_SHA256, PSK: true},
	}
}

// extraSuites are added in the thorough tier: every remaining DTLS 1.2 suite of the library.
func extraSuites() []suiteClass {
	return []suiteClass{
		{Name: "ECDSA-CCM8", ID: dtls.TLS_ECDHE_ECDSA_WITH_AES_128_CCM_8, Cred: "ecdsa"},
		{Name: "ECDSA-GCM256", ID: dtls.TLS_ECDHE_ECDSA_WITH_AES_256_GCM_SHA384, Cred: "ecdsa"},
		{Name: "RSA-GCM128", ID: dtls.TLS_ECDHE_RSA_WITH_AES_128_GCM_SHA256, Cred: "rsa"},
		{Name: "RSA-GCM256", ID: dtls.TLS_ECDHE_RSA_WITH_AES_256_GCM_SHA384, Cred: "rsa"},
		{Name: "RSA-CBC", ID: dtls.TLS_ECDHE_RSA_WITH_AES_256_CBC_SHA, Cred: "rsa"},
		{Name: "RSA-CHACHA", ID: dtls.TLS_ECDHE_RSA_WITH_CHACHA20_POLY1305_SHA256, Cred: "rsa"},
		{Name: "ED25519-GCM128", ID: dtls.TLS_ECDHE_ECDSA_WITH_AES_128_GCM_SHA256, Cred: "ed25519"},
		{Name: "PSK-CCM", ID: dtls.TLS_PSK_WITH_AES_128_CCM, PSK: true},
		{Name: "PSK-CCM8", ID: dtls.TLS_PSK_WITH_AES_128_CCM_8, PSK: true},
		{Name: "PSK-CCM8-256", ID: dtls.TLS_PSK_WITH_AES_256_CCM_8, PSK: true},
		{Name: "PSK-CHACHA", ID: dtls.TLS_PSK_WITH_CHACHA20_POLY1305_SHA256, PSK: true},
		{Name: "ECDHEPSK-CBC", ID: dtls.TLS_ECDHE_PSK_WITH_AES_128_CBC_SHA256, PSK: true},
	}
}

type feature struct {
	Dim, Name string
	CertOnly  bool // meaningless with a PSK suite
	Thorough  bool // only in the thorough tier
	Apply     func(c, s *world.Cfg)
}

func features() []feature {
	srtp80 := []dtls.SRTPProtectionProfile{dtls.SRTP_AES128_CM_HMAC_SHA1_80}
	return []feature{
		{Dim: "cid", Name: "cid=both4", Apply: func(c, s *world.Cfg) { c.CIDLen, s.CIDLen = 4, 4 }},
		{Dim: "cid", Name: "cid=c4/s-sendonly", Apply: func(c, s *world.Cfg) { c.CIDLen, s.CIDLen = 4, -1 }},
		{Dim: "cid", Name: "cid=c-sendonly/s4", Apply: func(c, s *world.Cfg) { c.CIDLen, s.CIDLen = -1, 4 }},
		{Dim: "cid", Name: "cid=c8/s1", Thorough: true, Apply: func(c, s *world.Cfg) { c.CIDLen, s.CIDLen = 8, 1 }},
		{Dim: "srtp", Name: "srtp=80", Apply: func(c, s *world.Cfg) { c.SRTP, s.SRTP = srtp80, srtp80 }},
		{Dim: "srtp", Name: "srtp=80+mki", Apply: func(c, s *world.Cfg) {
			c.SRTP, s.SRTP = srtp80, srtp80
			c.MKI, s.MKI = []byte{0xA1, 0xA2}, []byte{0xA1, 0xA2}
		}},
		{Dim: "srtp", Name: "srtp=c[80,GCM]/s[GCM,32]+mki-differ", Thorough: true, Apply: func(c, s *world.Cfg) {
			c.SRTP = []dtls.SRTPProtectionProfile{dtls.SRTP_AES128_CM_HMAC_SHA1_80, dtls.SRTP_AEAD_AES_128_GCM}
			s.SRTP = []dtls.SRTPProtectionProfile{dtls.SRTP_AEAD_AES_128_GCM, dtls.SRTP_AES128_CM_HMAC_SHA1_32}
			c.MKI, s.MKI = []byte{0xC1, 0xC2}, []byte{0x51, 0x52, 0x53}
		}},
		{Dim: "alpn", Name: "alpn=c[a,b]/s[b,c]", Apply: func(c, s *world.Cfg) { c.ALPN, s.ALPN = []string{"a", "b"}, []string{"b", "c"} }},
		{Dim: "ems", Name: "ems=off", Apply: func(c, s *world.Cfg) { c.EMS, s.EMS = 2, 2 }},
		{Dim: "ca", Name: "ca=requireverify+cert", CertOnly: true, Apply: func(c, s *world.Cfg) {
			s.ClientAuth = dtls.RequireAndVerifyClientCert
			c.Cred = "ecdsa"
		}},
		// session stores make the server issue a non-empty session id (fresh stores per execution)
		{Dim: "store", Name: "store=fresh", Apply: func(c, s *world.Cfg) { c.Store, s.Store = world.NewMapStore(), world.NewMapStore() }},
	}
}

type config struct {
	Name  string
	Suite suiteClass
	Feats []feature
}

// Build returns fresh endpoint configurations (nothing is shared between executions).
func (cf config) Build() (c, s world.Cfg) {
	su := cf.Suite
	if su.ID != 0 { // 0: library default suites
		c.Suites, s.Suites = []dtls.CipherSuiteID{su.ID}, []dtls.CipherSuiteID{su.ID}
	}
	if su.PSK {
		c.Cred, s.Cred, c.PSK, s.PSK = "psk", "psk", pskKey, pskKey
	} else {
		s.Cred = su.Cred
	}
	for _, f := range cf.Feats {
		f.Apply(&c, &s)
	}
	return c, s
}

func featSets(fs []feature, k int, psk, thorough bool) [][]feature {
	var usable []feature
	for _, f := range fs {
		if (f.CertOnly && psk) || (f.Thorough && !thorough) {
			continue
		}
		usable = append(usable, f)
	}
	byLen := map[int][][]feature{}
	var rec func(start int, cur []feature)
	rec = func(start int, cur []feature) {
		byLen[len(cur)] = append(byLen[len(cur)], append([]feature(nil), cur...))
		if len(cur) == k {
			return
		}
	next:
		for i := start; i < len(usable); i++ {
			for _, c := range cur {
				if c.Dim == usable[i].Dim {
					continue next
				}
			}
			rec(i+1, append(cur, usable[i]))
		}
	}
	rec(0, nil)
	var out [][]feature
	for l := 0; l <= k; l++ {
		out = append(out, byLen[l]...)
	}
	return out
}

func buildConfig(su suiteClass, fs []feature) config {
	cf := config{Suite: su, Feats: fs}
	names := []string{su.Name}
	for _, f := range fs {
		names = append(names, f.Name)
	}
	cf.Name = strings.Join(names, "&")
	return cf
}

// allConfigs enumerates suite class x feature sets with <= k features.
func allConfigs(thorough bool, k int) []config {
	suites := quickSuites()
	if thorough {
		suites = append(suites, extraSuites()...)
	}
	var out []config
	for _, su := range suites {
		for _, fs := range featSets(features(), k, su.PSK, thorough) {
			out = append(out, buildConfig(su, fs))
		}
	}
	return out
}

func findConfig(cfgs []config, name string) (config, bool) {
	for _, c := range cfgs {
		if c.Name == name {
			return c, true
		}
	}
	return config{}, false
}

// versionRangeConfigs: one endpoint is configured for DTLS 1.2-1.3, the other for 1.2 only, so the
// connection is an established DTLS 1.2 connection.
func versionRangeConfigs() []config {
	// no explicit suite list: an explicit DTLS 1.2 suite list narrows the effective version range to 1.2
	su := suiteClass{Name: "default-suites", Cred: "ecdsa"}
	return []config{
		buildConfig(su, []feature{{Dim: "vrange", Name: "v=c[1.2,1.3]/s1.2", Apply: func(c, s *world.Cfg) { c.MinV, c.MaxV = 12, 13 }}}),
		buildConfig(su, []feature{{Dim: "vrange", Name: "v=c1.2/s[1.2,1.3]", Apply: func(c, s *world.Cfg) { s.MinV, s.MaxV = 12, 13 }}}),
	}
}

func (cf config) hasDim(dim string) bool {
	for _, f := range cf.Feats {
		if f.Dim == dim {
			return true
		}
	}
	return false
}
