package c19

import (
	"bytes"
	"fmt"
	"strings"

	"github.com/pion/dtls/v3/zzverif/run"
	"github.com/pion/dtls/v3/zzverif/world"
)

func sideName(client bool) string {
	if client {
		return "client"
	}
	return "server"
}

func firstWord(s string) string {
	if i := strings.IndexAny(s, " ["); i > 0 {
		return s[:i]
	}
	return s
}

func appRecords(rs []wrec) int {
	k := 0
	for _, r := range rs {
		if r.Epoch > 0 && (r.Type == world.CTAppData || r.Type == world.CTCID) {
			k++
		}
	}
	return k
}

// cleanOracle judges an execution with the uncorrupted serialised state (the first sentence of C19).
func cleanOracle(cf config, o *obs) run.Outcome {
	var out run.Outcome
	side := sideName(o.Point.Client)
	out.Sample = map[string]any{"config": cf.Name, "point": o.Point.String(), "stage": o.Stage, "bytes": len(o.Bin),
		"next_seq_at_export": o.OrigSeqNext, "records_before": len(o.Before), "records_after": len(o.After)}
	out.Counters = map[string]int{}
	out.States, out.Transitions = o.States, o.Trans
	if o.Leak != "" {
		out.Counters["goroutine_leak_after_close"]++
	}
	fail := func(key, format string, a ...any) run.Outcome {
		out.Violation = fmt.Sprintf("config=%s point=%s: ", cf.Name, o.Point) + fmt.Sprintf(format, a...)
		out.Key = key + ":" + side
		if o.Point.NewAddr {
			out.Key += ":new-address"
		}
		out.Class = "VIOLATION " + key
		out.NonTrivial = true
		return out
	}
	if o.Panic != "" {
		return fail("panic:"+firstWord(o.Panic), "panic in %s", o.Panic)
	}
	switch o.Stage {
	case stNotEstablished, stPreTraffic:
		// the precondition of the property (an established, working DTLS 1.2 connection) is not met
		out.Class = o.Stage
		out.Counters["precondition_failed"]++
		return out
	case stExport:
		return fail("export-failed", "%s", o.Detail)
	case stUnmarshal:
		return fail("unmarshal-rejects-own-output", "UnmarshalBinary(MarshalBinary(state)) failed: %s", o.Detail)
	case stResume:
		return fail("resume-rejects-own-output", "ResumeWithOptions failed on an uncorrupted state: %s", o.Detail)
	case stHSBlocked:
		// what did the "resumed" side do instead? (cause key from the configuration and the wire)
		cc, sc := cf.Build()
		xc := sc
		if o.Point.Client {
			xc = cc
		}
		if xc.MaxV == 13 {
			what := "nothing was sent (it waits for a ClientHello)"
			for _, r := range o.After {
				for _, h := range r.HS {
					if r.Epoch == 0 && h == 1 {
						what = "it sent a fresh epoch-0 ClientHello to the peer"
					}
				}
			}
			out.Violation = fmt.Sprintf("config=%s point=%s: ", cf.Name, o.Point) + "the exporting endpoint is configured for DTLS 1.2-1.3 and negotiated DTLS 1.2; ResumeWithOptions with the same options returned no error but the connection ignored the imported state: Handshake() did not return within 5s of fake time and " + what
			out.Key = "resume-state-ignored-when-options-allow-dtls13"
			out.Class = "VIOLATION " + out.Key
			out.NonTrivial = true
			return out
		}
		for _, r := range o.After {
			for _, h := range r.HS {
				if r.Epoch == 0 && h == 1 {
					return fail("resume-state-ignored:sends-fresh-ClientHello", "the resumed connection ignored the imported state: it sent a fresh epoch-0 ClientHello to the peer and Handshake() did not return within 5s of fake time")
				}
			}
		}
		if len(o.After) == 0 {
			return fail("resume-state-ignored:waits-for-ClientHello", "the resumed connection ignored the imported state: Handshake() did not return within 5s of fake time and nothing was sent (it waits for a ClientHello)")
		}
		return fail("resumed-handshake-blocked", "Handshake() on the resumed connection did not return within 5s of fake time")
	case stHSError:
		return fail("resumed-handshake-error", "Handshake() on the resumed connection failed: %s", o.Detail)
	}
	out.NonTrivial = true
	// the wire first (the most specific causes): record numbers, then record form
	if msg := seqReuse(o); msg != "" {
		return fail("seq-reuse", "%s", msg)
	}
	if msg := wireCID(o); msg != "" {
		return fail("wire-cid", "%s", msg)
	}
	// data both ways, unmodified
	for _, f := range o.Flows {
		if !f.OK {
			dir := "resumed " + side + " -> untouched peer"
			if !f.FromX {
				dir = "untouched peer -> resumed " + side
			}
			return fail("no-data:"+f.Name[:3], "application data %s (%s) failed: %s", dir, f.Name, f.Detail)
		}
	}
	if o.Point.Infl != inflNone {
		if !o.InflOK {
			return fail("inflight-lost:"+o.Point.Infl.String(), "the record in flight at the export point was not delivered afterwards: %s", o.InflDetail)
		}
		if o.InflDup != "" {
			return fail("inflight-duplicate:"+o.Point.Infl.String(), "%s", o.InflDup)
		}
	}
	// same keying material: original state, unmarshalled state, state reported by the resumed connection
	for i := range exporterLabels {
		if o.Orig.EKMErr[i] != "" {
			return fail("exporter-error", "ExportKeyingMaterial(%q) on the original state failed: %s", exporterLabels[i], o.Orig.EKMErr[i])
		}
		if !bytes.Equal(o.Orig.EKM[i], o.EKMUnm[i]) || o.EKMUnmErr[i] != "" {
			return fail("exporter-differs:unmarshalled", "ExportKeyingMaterial(%q): original %x, after Marshal/Unmarshal %x (%s)", exporterLabels[i], o.Orig.EKM[i], o.EKMUnm[i], o.EKMUnmErr[i])
		}
	}
	if d := o.Orig.diff(o.Res); len(d) > 0 {
		return fail("param-differs:"+firstWord(d[0]), "the resumed connection reports different session parameters: %s", strings.Join(d, "; "))
	}
	if appRecords(o.After) < 2 {
		return fail("harness:no-records-observed", "only %d protected records of the resumed side seen on the wire", appRecords(o.After))
	}
	first := uint64(0)
	for _, r := range o.After {
		if r.Epoch > 0 {
			first = r.Seq
			break
		}
	}
	out.Class = fmt.Sprintf("resumed-ok %s cid%d/%d infl=%s", side, len(o.XCID), len(o.PeerCID), o.Point.Infl)
	if o.Point.NewAddr {
		if o.Migratable {
			out.Class += " newaddr:peer-follows"
		} else {
			out.Class += " newaddr:peer-cannot-follow(X>P only)"
		}
	}
	out.Counters[fmt.Sprintf("first_seq_after_resume=%d", first)]++
	return out
}

// corruptOracle judges an execution with a corrupted serialised state (the second sentence of C19):
// allowed are (a) an error from UnmarshalBinary / ResumeWithOptions / the resumed Handshake, (b) a
// connection over which data does not flow both ways (records are not authenticated / accepted),
// (c) a working connection whose key-relevant observables are unchanged (the corruption hit a field
// that does not feed the record protection). Never a panic.
func corruptOracle(cf config, o *obs) (class, key, violation string) {
	if o.Panic != "" {
		return "VIOLATION panic", "panic:" + firstWord(o.Panic) + ":" + sideName(o.Point.Client), "panic in " + o.Panic
	}
	switch o.Stage {
	case stNotEstablished, stPreTraffic, stExport:
		return "HARNESS " + o.Stage, "harness:" + o.Stage + ":" + sideName(o.Point.Client), "corruption scenario could not reach the export: " + o.Detail
	case stUnmarshal:
		return "rejected:unmarshal", "", ""
	case stResume:
		return "rejected:resume", "", ""
	case stHSError:
		return "rejected:handshake-error", "", ""
	case stHSBlocked:
		return "rejected:handshake-never-completes", "", ""
	}
	var bad []string
	for _, f := range o.Flows {
		if !f.OK {
			bad = append(bad, f.Name)
		}
	}
	if len(bad) > 0 {
		dirs := map[string]bool{}
		for _, b := range bad {
			dirs[b[:3]] = true
		}
		c := "no-data:"
		if dirs["X>P"] {
			c += "X>P"
		}
		if dirs["P>X"] {
			c += "P>X"
		}
		if len(bad) < len(o.Flows) && len(dirs) == 1 && len(bad) == 1 {
			c += "(partial)"
		}
		return c, "", ""
	}
	// works in both directions: then nothing key-relevant may have changed
	if d := o.Orig.keyDiff(o.Res); len(d) > 0 {
		if len(d) == 1 && strings.HasPrefix(d[0], "CipherSuiteID") {
			// Same exporter output and records accepted both ways, only the reported suite id differs.
			// Benign (same class as a corrupted PeerCertificates field) iff the substituted id names a
			// suite with the identical PRF hash, record cipher, MAC and key lengths (only key exchange /
			// authentication differ): then every key and every record byte is unchanged. Judged from an
			// independent table, not from the library.
			a, aok := recordProtection[o.Orig.Suite]
			b, bok := recordProtection[o.Res.Suite]
			if aok && bok && a == b {
				return classSuiteSameProtection, "", ""
			}
			return "VIOLATION suite-id-changes-record-protection", "corrupt-suite-id-of-different-record-protection-accepted:" + sideName(o.Point.Client),
				fmt.Sprintf("corrupted state yields a working connection with identical exporter output although the reported cipher suite names a different record protection / PRF (%q -> %q): %s", a, b, d[0])
		}
		return "VIOLATION works-but-differs", "corrupt-works-but-differs:" + firstWord(d[0]) + ":" + sideName(o.Point.Client), "corrupted state yields a working connection that reports different key-relevant parameters: " + strings.Join(d, "; ")
	}
	if msg := wireCID(o); msg != "" {
		return "VIOLATION works-but-differs", "corrupt-works-but-differs:wire-cid:" + sideName(o.Point.Client), "corrupted state yields a working connection, but " + msg
	}
	if d := o.Orig.diff(o.Res); len(d) > 0 {
		return "works:nonkey-field-changed:" + firstWord(d[0]), "", ""
	}
	if msg := seqReuse(o); msg != "" {
		return "works:sequence-differs", "", ""
	}
	return "works:identical-observables", "", ""
}

const classSuiteSameProtection = "works:nonkey-field-changed:CipherSuiteID-same-record-protection"

// recordProtection maps a cipher suite id to what determines keys and record bytes: PRF hash,
// record cipher (+MAC) and key lengths. Suites not listed share a class with nothing.
var recordProtection = map[uint16]string{
	0xc02b: "prf-sha256/aes128-gcm",             // ECDHE_ECDSA_WITH_AES_128_GCM_SHA256
	0xc02f: "prf-sha256/aes128-gcm",             // ECDHE_RSA_WITH_AES_128_GCM_SHA256
	0x00a8: "prf-sha256/aes128-gcm",             // PSK_WITH_AES_128_GCM_SHA256
	0xc02c: "prf-sha384/aes256-gcm",             // ECDHE_ECDSA_WITH_AES_256_GCM_SHA384
	0xc030: "prf-sha384/aes256-gcm",             // ECDHE_RSA_WITH_AES_256_GCM_SHA384
	0xc00a: "prf-sha256/aes256-cbc-hmac-sha1",   // ECDHE_ECDSA_WITH_AES_256_CBC_SHA
	0xc014: "prf-sha256/aes256-cbc-hmac-sha1",   // ECDHE_RSA_WITH_AES_256_CBC_SHA
	0xc0ac: "prf-sha256/aes128-ccm",             // ECDHE_ECDSA_WITH_AES_128_CCM
	0xc0a4: "prf-sha256/aes128-ccm",             // PSK_WITH_AES_128_CCM
	0xc0ae: "prf-sha256/aes128-ccm8",            // ECDHE_ECDSA_WITH_AES_128_CCM_8
	0xc0a8: "prf-sha256/aes128-ccm8",            // PSK_WITH_AES_128_CCM_8
	0xc0a9: "prf-sha256/aes256-ccm8",            // PSK_WITH_AES_256_CCM_8
	0x00ae: "prf-sha256/aes128-cbc-hmac-sha256", // PSK_WITH_AES_128_CBC_SHA256
	0xc037: "prf-sha256/aes128-cbc-hmac-sha256", // ECDHE_PSK_WITH_AES_128_CBC_SHA256
	0xcca9: "prf-sha256/chacha20-poly1305",      // ECDHE_ECDSA_WITH_CHACHA20_POLY1305_SHA256
	0xcca8: "prf-sha256/chacha20-poly1305",      // ECDHE_RSA_WITH_CHACHA20_POLY1305_SHA256
	0xccab: "prf-sha256/chacha20-poly1305",      // PSK_WITH_CHACHA20_POLY1305_SHA256
	0x1301: "tls13/aes128-gcm-sha256",
	0x1302: "tls13/aes256-gcm-sha384",
	0x1303: "tls13/chacha20-poly1305-sha256",
}
