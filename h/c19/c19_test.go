package c19

import (
	"bytes"
	"encoding/gob"
	"fmt"
	"sort"
	"strings"
	"sync"
	"testing"
	"time"

	dtls "github.com/pion/dtls/v3"
	"github.com/pion/dtls/v3/pkg/protocol"
	"github.com/pion/dtls/v3/zzverif/run"
	"github.com/pion/dtls/v3/zzverif/world"
)

// C19 — Exported state resumes the same session without reusing record numbers.
//
// Part 1 (resume): suite class x feature set (<=2 features) x exporting side x export point (a,b in
// 0..3 records per direction) x in-flight mode; oracle cleanOracle.
// Part 2 (corruption): for representative serialised states, EVERY truncation and EVERY byte set to
// {b^01, b^80, 00, ff}; oracle corruptOracle.
// Part 3: DTLS 1.3 state is refused.

const seedOffset = 19

// ---------------------------------------------------------------------------------------------
// corruption blobs

type blobSpec struct {
	Cfg    config
	Client bool
}

func (b blobSpec) name() string { return b.Cfg.Name + "/" + sideName(b.Client) }

var blobPoint = point{A: 1, B: 1, Infl: inflNone}

type blobCache struct {
	mu   sync.Mutex
	m    map[string][]byte // private copies taken when the export was made
	live map[string][]byte // the slices as MarshalBinary returned them
	bad  map[string]string
}

// get returns the serialised state of the blob's reference execution (uncorrupted, export point
// a=1,b=1). If the reference execution itself does not resume, why is non-empty: the corruption
// cases of this blob then report that instead of aborting the whole check.
func (c *blobCache) get(t *testing.T, p *world.PKI, b blobSpec, seed uint64) (bin []byte, why string) {
	c.mu.Lock()
	defer c.mu.Unlock()
	if bin, ok := c.m[b.name()]; ok {
		return bin, c.bad[b.name()]
	}
	pt := blobPoint
	pt.Client = b.Client
	o := runScenario(t, p, b.Cfg, pt, nil, seed)
	if o.Stage != stRan || len(o.Bin) == 0 {
		c.bad[b.name()] = fmt.Sprintf("reference execution (uncorrupted) did not resume: stage=%s %s %s", o.Stage, o.Detail, o.Panic)
	}
	// o.Bin is the slice MarshalBinary returned. Keep it as it is (live) next to a private copy: bytes handed
	// to the application must not change when something else is exported later.
	c.live[b.name()] = o.Bin
	c.m[b.name()] = bytes.Clone(o.Bin)
	return c.m[b.name()], c.bad[b.name()]
}

// changed lists the blobs whose bytes, as returned by MarshalBinary, no longer equal the copy taken at
// that moment.
func (c *blobCache) changed() []string {
	c.mu.Lock()
	defer c.mu.Unlock()
	var out []string
	for name, live := range c.live {
		if !bytes.Equal(live, c.m[name]) {
			out = append(out, name)
		}
	}
	sort.Strings(out)
	return out
}

func blobRefFailed(b blobSpec, why string) run.Outcome {
	return run.Outcome{Violation: "blob=" + b.name() + ": " + why, Key: "blob-reference-failed:" + sideName(b.Client), Class: "VIOLATION blob-reference-failed", NonTrivial: true,
		Sample: map[string]any{"blob": b.name(), "reference": why}}
}

func byteMutations(bin []byte, pos int) []mutation {
	var out []mutation
	if pos < len(bin) {
		b := bin[pos]
		seen := map[byte]bool{b: true}
		for _, v := range []byte{b ^ 0x01, b ^ 0x80, 0x00, 0xff} {
			if !seen[v] {
				seen[v] = true
				out = append(out, mutation{Pos: pos, Val: v})
			}
		}
	}
	return out
}

func unmarshalOutside(data []byte) (err error) {
	defer func() {
		if r := recover(); r != nil {
			err = fmt.Errorf("panic: UnmarshalBinary: %v", r)
		}
	}()
	var st dtls.State
	return st.UnmarshalBinary(data)
}

// corruptCase evaluates the truncation at pos and every byte substitution at pos.
func corruptCase(t *testing.T, p *world.PKI, cache *blobCache, b blobSpec, pos int, seed uint64) run.Outcome {
	bin, why := cache.get(t, p, b, seed)
	if why != "" {
		return blobRefFailed(b, why)
	}
	var out run.Outcome
	out.Counters = map[string]int{}
	if pos >= len(bin) {
		out.Skip = true
		return out
	}
	muts := []mutation{}
	if pos < len(bin) {
		muts = append(muts, mutation{Trunc: true, Pos: pos})
	}
	muts = append(muts, byteMutations(bin, pos)...)
	classes := map[string]bool{}
	pt := blobPoint
	pt.Client = b.Client
	for _, m := range muts {
		m := m
		out.Evals++
		var class, key, viol string
		if err := unmarshalOutside(m.apply(bin)); err != nil {
			class = "rejected:unmarshal"
			if len(err.Error()) >= 6 && err.Error()[:6] == "panic:" {
				class, key, viol = "VIOLATION panic", "panic:UnmarshalBinary:"+sideName(b.Client), err.Error()
			}
		} else {
			o := runScenario(t, p, b.Cfg, pt, &m, seed)
			if !bytes.Equal(o.Bin, bin) {
				t.Fatalf("C19: blob %s is not reproducible (harness nondeterminism)", b.name())
			}
			if o.Leak != "" {
				out.Counters["goroutine_leak_after_close"]++
			}
			class, key, viol = corruptOracle(b.Cfg, o)
			out.Counters["worlds_run"]++
		}
		out.Counters["corrupt "+class]++
		if class == classSuiteSameProtection {
			out.Counters["info_suite_id_changed_same_record_protection"]++
		}
		if !classes[class] {
			classes[class] = true
			out.Distinct++
		}
		if viol != "" && out.Violation == "" {
			out.Violation = fmt.Sprintf("blob=%s len=%d mutation=%s: %s", b.name(), len(bin), m, viol)
			out.Key = key
		}
		out.Class = class
	}
	out.NonTrivial = out.Evals > 0
	if out.Violation != "" {
		out.Class = "VIOLATION"
	} else if len(classes) > 1 {
		out.Class = "mixed"
	}
	out.Sample = map[string]any{"blob": b.name(), "pos": pos, "len": len(bin), "mutations": out.Evals}
	return out
}

// fieldCase evaluates the k-th field-level corruption of the blob.
func fieldCase(t *testing.T, p *world.PKI, cache *blobCache, b blobSpec, k int, seed uint64) run.Outcome {
	bin, why := cache.get(t, p, b, seed)
	if why != "" {
		return blobRefFailed(b, why)
	}
	orig, err := decodeMirror(bin)
	if err != nil {
		t.Fatalf("C19: mirror decode: %v", err)
	}
	m := fieldMutations(orig)[k]
	var out run.Outcome
	out.Counters = map[string]int{}
	out.NonTrivial = true
	pt := blobPoint
	pt.Client = b.Client
	var class, key, viol string
	if err := unmarshalOutside(m.apply(bin)); err != nil {
		class = "rejected:unmarshal"
		if strings.HasPrefix(err.Error(), "panic:") {
			class, key, viol = "VIOLATION panic", "panic:UnmarshalBinary:"+sideName(b.Client), err.Error()
		}
	} else {
		o := runScenario(t, p, b.Cfg, pt, &m, seed)
		if !bytes.Equal(o.Bin, bin) {
			t.Fatalf("C19: blob %s is not reproducible (harness nondeterminism)", b.name())
		}
		if o.Leak != "" {
			out.Counters["goroutine_leak_after_close"]++
		}
		class, key, viol = corruptOracle(b.Cfg, o)
	}
	out.Class = "field " + class
	out.Counters["field "+firstWord(m.Field[:strings.IndexByte(m.Field, '=')])+" -> "+class]++
	if class == classSuiteSameProtection {
		out.Counters["info_suite_id_changed_same_record_protection"]++
	}
	if viol != "" {
		out.Violation = fmt.Sprintf("blob=%s mutation=%s: %s", b.name(), m, viol)
		out.Key = key
	}
	out.Sample = map[string]any{"blob": b.name(), "mutation": m.String(), "outcome": class}
	return out
}

// ---------------------------------------------------------------------------------------------
// DTLS 1.3 state is refused

// mirror of the serialised form (gob matches struct fields by name), used to rewrite single fields.
type mirrorState struct {
	Version               protocol.Version
	LocalEpoch            uint16
	RemoteEpoch           uint16
	LocalRandom           [32]byte
	RemoteRandom          [32]byte
	CipherSuiteID         uint16
	MasterSecret          []byte
	SequenceNumber        uint64
	SRTPProtectionProfile uint16
	PeerSRTPMKI           []byte
	PeerCertificates      [][]byte
	IdentityHint          []byte
	SessionID             []byte
	LocalConnectionID     []byte
	RemoteConnectionID    []byte
	RRCNegotiated         bool
	IsClient              bool
	NegotiatedProtocol    string
}

func decodeMirror(bin []byte) (mirrorState, error) {
	var m mirrorState
	err := gob.NewDecoder(bytes.NewReader(bin)).Decode(&m)
	return m, err
}

func encodeMirror(m mirrorState) []byte {
	var buf bytes.Buffer
	if err := gob.NewEncoder(&buf).Encode(m); err != nil {
		panic(err)
	}
	return buf.Bytes()
}

func v13Case(t *testing.T, p *world.PKI, client bool, seed uint64) run.Outcome {
	var out run.Outcome
	side := sideName(client)
	fail := func(key, msg string) {
		if out.Violation == "" {
			out.Violation, out.Key, out.Class = "DTLS 1.3 "+side+": "+msg, key+":"+side, "VIOLATION "+key
		}
	}
	leak := world.RunLeak(t, seed, func(w *world.World) {
		cfg := world.Cfg{MinV: 13, MaxV: 13}
		pr, err := w.NewPair(p, cfg, cfg)
		if err != nil {
			out.Class, out.Skip = "config-rejected", true
			return
		}
		n := world.NewNet(w, world.ClientAddr, nil)
		if err := n.Pump(30*time.Second, pr.BothDone); err != nil || !pr.BothOK() {
			out.Class = stNotEstablished
			pr.CloseAll()
			return
		}
		n.Flush()
		x := pr.S
		if client {
			x = pr.C
		}
		out.NonTrivial = true
		st, ok := x.Conn.ConnectionState()
		refused := 0
		if !ok {
			refused++ // no state handed out at all: nothing to serialise
		} else {
			var bin []byte
			err := guarded("MarshalBinary", func() (e error) { bin, e = st.MarshalBinary(); return })
			switch {
			case err != nil && len(err.Error()) > 6 && err.Error()[:6] == "panic:":
				fail("panic:MarshalBinary-1.3", err.Error())
			case err == nil:
				fail("v13-marshal-accepted", fmt.Sprintf("MarshalBinary of a DTLS 1.3 connection state succeeded (%d bytes)", len(bin)))
			default:
				refused++
			}
			x.Detach()
			nx, err := x.ResumeFrom(p, &st)
			switch {
			case err != nil && len(err.Error()) > 6 && err.Error()[:6] == "panic:":
				fail("panic:Resume-1.3", err.Error())
			case err == nil:
				fail("v13-resume-accepted", "ResumeWithOptions accepted a DTLS 1.3 connection state")
				_ = nx
			default:
				refused++
			}
		}
		out.Counters = map[string]int{"v13_refusals": refused}
		pr.CloseAll()
	})
	if leak != "" {
		if out.Counters == nil {
			out.Counters = map[string]int{}
		}
		out.Counters["goroutine_leak_after_close"]++
	}
	if out.Class == "" {
		out.Class = "v13-refused"
	}
	out.Sample = map[string]any{"case": "v13-refused", "side": side}
	return out
}

// v13BlobCase: serialised bytes that say "DTLS 1.3" are refused by UnmarshalBinary.
func v13BlobCase(t *testing.T, p *world.PKI, cache *blobCache, b blobSpec, seed uint64) run.Outcome {
	var out run.Outcome
	bin, why := cache.get(t, p, b, seed)
	if why != "" {
		return blobRefFailed(b, why)
	}
	m, err := decodeMirror(bin)
	if err != nil {
		t.Fatalf("C19: mirror decode: %v", err)
	}
	out.NonTrivial = true
	// the mirror must be faithful: re-encoding it unchanged still unmarshals
	if err := unmarshalOutside(encodeMirror(m)); err != nil {
		t.Fatalf("C19: mirror re-encoding is not accepted: %v", err)
	}
	m.Version = protocol.Version1_3
	err = unmarshalOutside(encodeMirror(m))
	switch {
	case err == nil:
		out.Violation = "blob=" + b.name() + ": UnmarshalBinary accepted serialised bytes whose version field says DTLS 1.3"
		out.Key, out.Class = "v13-unmarshal-accepted", "VIOLATION v13-unmarshal-accepted"
	case len(err.Error()) > 6 && err.Error()[:6] == "panic:":
		out.Violation, out.Key, out.Class = err.Error(), "panic:UnmarshalBinary-1.3", "VIOLATION panic"
	default:
		out.Class = "v13-blob-refused"
	}
	out.Sample = map[string]any{"case": "v13-blob-refused", "blob": b.name()}
	return out
}

// ---------------------------------------------------------------------------------------------

func blobSpecs(cfgs []config, thorough bool) []blobSpec {
	var out []blobSpec
	add := func(name string) {
		cf, ok := findConfig(cfgs, name)
		if !ok {
			panic("C19: blob config not enumerated: " + name)
		}
		out = append(out, blobSpec{cf, true}, blobSpec{cf, false})
	}
	suites := quickSuites()
	for _, su := range suites {
		add(su.Name)
		add(su.Name + "&cid=both4&srtp=80+mki")
	}
	add("ECDSA-GCM128&alpn=c[a,b]/s[b,c]&ca=requireverify+cert")
	add("PSK-GCM&cid=c4/s-sendonly&alpn=c[a,b]/s[b,c]")
	add("ECDSA-CBC&cid=c-sendonly/s4&store=fresh")
	if thorough {
		for _, su := range extraSuites() {
			add(su.Name + "&cid=both4")
		}
	}
	return out
}

func TestC19(t *testing.T) {
	env := run.GetEnv()
	p := world.GetPKI(t)
	seed := env.Seed + seedOffset
	thorough := env.Thorough()
	kFeat := 2
	if thorough {
		kFeat = 3
	}
	cfgs := allConfigs(thorough, kFeat)
	infls := []inflight{inflNone, inflFromXLate, inflToXLate, inflHSDupLate}
	if thorough {
		infls = []inflight{inflNone, inflFromXLate, inflToXLate, inflFromXEarly, inflToXEarly, inflHSDupLate, inflHSDupEarly}
	}
	const maxRec = 3
	var cases []run.Case
	// Part 1
	nResume := 0
	for _, cf := range cfgs {
		for _, client := range []bool{true, false} {
			for a := 0; a <= maxRec; a++ {
				for b := 0; b <= maxRec; b++ {
					for _, in := range infls {
						cf, pt := cf, point{Client: client, A: a, B: b, Infl: in}
						nResume++
						cases = append(cases, run.Case{ID: "resume/" + cf.Name + "/" + pt.String(), Run: func(t *testing.T) run.Outcome {
							return cleanOracle(cf, runScenario(t, p, cf, pt, nil, seed))
						}})
					}
				}
			}
		}
	}
	// Part 1c: the resumed endpoint sends from a NEW local address (connection-ID configurations)
	nNewAddr := 0
	for _, cf := range cfgs {
		if !cf.hasDim("cid") {
			continue
		}
		for _, client := range []bool{true, false} {
			for a := 0; a <= maxRec; a++ {
				for b := 0; b <= maxRec; b++ {
					for _, in := range []inflight{inflNone, inflFromXLate} {
						cf, pt := cf, point{Client: client, A: a, B: b, Infl: in, NewAddr: true}
						nNewAddr++
						cases = append(cases, run.Case{ID: "resume/" + cf.Name + "/" + pt.String(), Run: func(t *testing.T) run.Outcome {
							return cleanOracle(cf, runScenario(t, p, cf, pt, nil, seed))
						}})
					}
				}
			}
		}
	}
	// Part 3
	cache := &blobCache{m: map[string][]byte{}, live: map[string][]byte{}, bad: map[string]string{}}
	blobs := blobSpecs(cfgs, thorough)
	for _, client := range []bool{true, false} {
		client := client
		cases = append(cases, run.Case{ID: "v13-refused/" + sideName(client), Run: func(t *testing.T) run.Outcome { return v13Case(t, p, client, seed) }})
	}
	for _, b := range blobs[:4] {
		b := b
		cases = append(cases, run.Case{ID: "v13-blob-refused/" + b.name(), Run: func(t *testing.T) run.Outcome { return v13BlobCase(t, p, cache, b, seed) }})
	}
	// Part 2: the blob lengths are known after the (deterministic) reference execution of each blob,
	// which every worker process repeats; one case per byte position.
	nCorrupt := 0
	for _, b := range blobs {
		b := b
		bin, why := cache.get(t, p, b, seed)
		if why != "" {
			cases = append(cases, run.Case{ID: "corrupt/" + b.name() + "/reference", Run: func(t *testing.T) run.Outcome { return blobRefFailed(b, why) }})
			continue
		}
		for pos := 0; pos < len(bin); pos++ {
			pos := pos
			nCorrupt++
			cases = append(cases, run.Case{ID: fmt.Sprintf("corrupt/%s/pos%04d", b.name(), pos), Run: func(t *testing.T) run.Outcome {
				return corruptCase(t, p, cache, b, pos, seed)
			}})
		}
	}
	// Part 2b: field-level corruptions of the same blobs
	nField := 0
	for _, b := range blobs {
		b := b
		bin, why := cache.get(t, p, b, seed)
		if why != "" {
			continue
		}
		orig, err := decodeMirror(bin)
		if err != nil {
			why := fmt.Sprintf("the exported state does not decode with the independent decoder: %v", err)
			cases = append(cases, run.Case{ID: "field/" + b.name() + "/reference", Run: func(t *testing.T) run.Outcome { return blobRefFailed(b, why) }})
			continue
		}
		for k, m := range fieldMutations(orig) {
			k := k
			nField++
			cases = append(cases, run.Case{ID: "field/" + b.name() + "/" + m.Field, Run: func(t *testing.T) run.Outcome { return fieldCase(t, p, cache, b, k, seed) }})
		}
	}
	// Part 2c: the bytes of every reference export, as returned by MarshalBinary, after all the other
	// exports of this process have happened
	cases = append(cases, run.Case{ID: "export-stability/all-reference-blobs", Run: func(t *testing.T) run.Outcome {
		ch := cache.changed()
		o := run.Outcome{NonTrivial: true, Class: "export-stability", Evals: len(blobs)}
		if len(ch) > 0 {
			o.Key = "exported-bytes-changed-after-a-later-export"
			o.Violation = fmt.Sprintf("the byte slices returned by State.MarshalBinary for %d of %d exports changed after later exports were made (e.g. %s): an application that serialises several connections before resuming gets corrupted state", len(ch), len(blobs), ch[0])
		}
		return o
	}})
	// Part 1b: endpoints configured for DTLS 1.2 AND 1.3 that negotiated DTLS 1.2 (the exported state is a
	// DTLS 1.2 state; the resume uses the endpoint's own options)
	for _, cf := range versionRangeConfigs() {
		for _, client := range []bool{true, false} {
			for _, ab := range [][2]int{{0, 0}, {1, 2}} {
				cf, pt := cf, point{Client: client, A: ab[0], B: ab[1]}
				cases = append(cases, run.Case{ID: "resume/" + cf.Name + "/" + pt.String(), Run: func(t *testing.T) run.Outcome {
					return cleanOracle(cf, runScenario(t, p, cf, pt, nil, seed))
				}})
			}
		}
	}
	run.Main(t, "C19", cases, map[string]any{
		"field_corruptions": nField, "new_address_cases": nNewAddr,
		"configs": len(cfgs), "features_max": kFeat, "sides": 2, "records_before_export_per_direction": "0..3", "inflight_modes": len(infls),
		"resume_cases": nResume, "corruption_blobs": len(blobs), "corruption_positions": nCorrupt,
		"corruption_values_per_byte": "b^01,b^80,00,ff + truncation at every length", "records_after_resume_per_direction": 2,
	})
}
