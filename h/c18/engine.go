package c18

import (
	"bytes"
	"encoding/hex"
	"fmt"
	"hash/fnv"
	"reflect"
	"sort"
	"strconv"
	"strings"
	"time"

	"github.com/pion/dtls/v3/zzverif/run"
)

// codec adapts one pion Marshal/Unmarshal pair under one decoding context.
type codec struct {
	name string // pion type, e.g. "MessageClientHello"
	ctx  string // decoding context label ("" if none), e.g. "ecdhe-psk", "cid4"
	dec  func(b []byte) (any, error)
	enc  func(v any) ([]byte, error)
	ref  refFn // independent framing reference (nil: no declared lengths in this format)
	// panicShape optionally refines the Key of a panic for a given input.
	panicShape func(b []byte) string
}

func (c *codec) label() string {
	if c.ctx == "" {
		return c.name
	}
	return c.name + "/" + c.ctx
}

// value is one enumerated value of a codec's grammar.
type value struct {
	v any
	// must: the value is inside the decoder's documented domain, so its own encoding has to be accepted.
	must bool
}

// acc aggregates the oracle verdicts of one case.
type acc struct {
	evals    int
	seen     map[uint64]struct{}
	vio      map[string]string // key -> first text
	vioN     map[string]int
	order    []string
	counters map[string]int
	sample   any
	thorough bool
}

func newAcc() *acc {
	return &acc{seen: map[uint64]struct{}{}, vio: map[string]string{}, vioN: map[string]int{}, counters: map[string]int{}}
}

// keyAlias reports a cause that is observed through an enclosing codec (a handshake message inside
// Handshake, Handshake inside a record) or through a secondary symptom under the key of the codec that
// owns the cause, so that one defect has one key.
var keyAlias = map[string]string{
	"reencode-fails:RecordLayer:unable-to-marshal-fragmented-handshakes":                   "reencode-fails:Handshake:unable-to-marshal-fragmented-handshakes",
	"reencode-fails:PlaintextRecord13:unable-to-marshal-fragmented-handshakes":             "reencode-fails:Handshake:unable-to-marshal-fragmented-handshakes",
	"reencode-fails:Handshake:invalid-signature-hash-algorithm":                            "reencode-fails:MessageServerKeyExchange:invalid-signature-hash-algorithm",
	"overread:Handshake/ecdhe:handshake_body/public":                                       "overread:MessageClientKeyExchange/ecdhe:public",
	"overread:Handshake/ecdhe-psk:handshake_body/public":                                   "overread:MessageClientKeyExchange/ecdhe-psk:public",
	"reencode-fails:MessageClientKeyExchange:public-key-must-not-be-longer-than-255-bytes": "overread:MessageClientKeyExchange/ecdhe:public",
	"reencode-fails:Handshake:public-key-must-not-be-longer-than-255-bytes":                "overread:MessageClientKeyExchange/ecdhe:public",
	"fixedpoint:MessageServerKeyExchange/ecdhe-psk:canonical-form-rejected":                "fixedpoint:MessageServerKeyExchange/ecdhe:canonical-form-rejected",
	"panic:Handshake.Unmarshal:ecdhe-psk-ClientKeyExchange":                                "panic:MessageClientKeyExchange.Unmarshal:ecdhe-psk-short",
	"overread:MessageClientKeyExchange/ecdhe-psk:public":                                   "overread:MessageClientKeyExchange/ecdhe:public",
	"truncated-accepted:RecordLayer:record_fragment":                                       "length:RecordLayer.Unmarshal:content-len-ignored",
	"overread:RecordLayer:record_fragment":                                                 "length:RecordLayer.Unmarshal:content-len-ignored",
}

func (a *acc) fail(key, text string) {
	if al, ok := keyAlias[key]; ok {
		key = al
	}
	if _, ok := a.vio[key]; !ok {
		if len(text) > 700 {
			text = text[:700] + "..."
		}
		a.vio[key] = text
		a.order = append(a.order, key)
	}
	a.vioN[key]++
}

func h64(tag string, b []byte) uint64 {
	h := fnv.New64a()
	_, _ = h.Write([]byte(tag))
	_, _ = h.Write([]byte{0})
	_, _ = h.Write(b)
	return h.Sum64()
}

// fresh records input b for codec c and reports whether it was new within this case.
func (a *acc) fresh(tag string, b []byte) bool {
	k := h64(tag, b)
	if _, ok := a.seen[k]; ok {
		return false
	}
	a.seen[k] = struct{}{}
	return true
}

func (a *acc) outcome(class string) run.Outcome {
	o := run.Outcome{Class: class, Evals: a.evals, Distinct: len(a.seen), NonTrivial: len(a.seen) > 0,
		Sample: a.sample, Counters: a.counters}
	if o.Evals == 0 {
		o.Evals = 1
	}
	if len(a.vio) > 0 {
		keys := make([]string, 0, len(a.vio))
		for k := range a.vio {
			keys = append(keys, k)
		}
		sort.Strings(keys)
		var sb strings.Builder
		for i, k := range keys {
			if i > 0 {
				sb.WriteString(" || ")
			}
			fmt.Fprintf(&sb, "[%s x%d] %s", k, a.vioN[k], a.vio[k])
		}
		o.Violation = sb.String()
		o.Key = strings.Join(keys, "+")
		o.Class = "VIOLATION"
	}
	return o
}

// guard runs f and converts a panic into a string.
func guard(f func()) (pan string) {
	defer func() {
		if r := recover(); r != nil {
			pan = fmt.Sprint(r)
		}
	}()
	f()
	return ""
}

func hx(b []byte) string {
	if len(b) > 160 {
		return hex.EncodeToString(b[:160]) + fmt.Sprintf("...(%dB)", len(b))
	}
	return hex.EncodeToString(b)
}

// safeDec / safeEnc call pion with panic capture.
func (c *codec) safeDec(b []byte) (v any, err error, pan string) {
	in := bytes.Clone(b) // decoders may alias the input; never let them see our master copy
	pan = guard(func() { v, err = c.dec(in) })
	return
}

func (c *codec) safeEnc(v any) (b []byte, err error, pan string) {
	pan = guard(func() { b, err = c.enc(v) })
	return
}

func (c *codec) panicKey(op string, b []byte) string {
	k := "panic:" + c.name + "." + op
	if c.ctx != "" {
		k += ":" + c.ctx
	}
	if c.panicShape != nil && b != nil {
		if s := c.panicShape(b); s != "" {
			k += "-" + s
		}
	}
	return k
}

// checkValue is oracle 1 (value round trip). It returns the encoding if the value was encodable and its
// encoding accepted.
func (a *acc) checkValue(c *codec, val value) []byte {
	a.evals++
	intact := shield(val.v)
	e, err, pan := c.safeEnc(val.v)
	if pan != "" {
		a.fail(c.panicKey("Marshal", nil), fmt.Sprintf("%s: Marshal panicked (%s) on value %s", c.label(), pan, dump(val.v)))
		return nil
	}
	if what := intact(); what != "" {
		a.fail("encode-touches-callers-memory:"+c.label(), fmt.Sprintf("%s: %s; v=%s", c.label(), what, trunc(dump(val.v), 300)))
	}
	if err != nil {
		if val.must {
			a.fail("encode-refuses:"+c.label(), fmt.Sprintf("%s: Marshal refuses a value of the message grammar: %v; v=%s", c.label(), err, trunc(dump(val.v), 300)))
		} else {
			a.counters["values_not_encodable"]++
		}
		return nil
	}
	want := dump(val.v) // after Marshal: some Marshal methods fill in derived header fields
	e = bytes.Clone(e)
	d, err, pan := c.safeDec(e)
	if pan != "" {
		a.fail(c.panicKey("Unmarshal", e), fmt.Sprintf("%s: Unmarshal panicked (%s) on its own encoding %s of %s", c.label(), pan, hx(e), want))
		return nil
	}
	if err != nil {
		if val.must {
			a.fail("roundtrip:"+c.label()+":own-encoding-rejected",
				fmt.Sprintf("%s: Unmarshal(Marshal(v)) failed: %v; v=%s wire=%s", c.label(), err, want, hx(e)))
		} else {
			a.counters["values_outside_decoder_domain"]++
		}
		return nil
	}
	a.counters["values_round_tripped"]++
	if got := dump(d); got != want {
		if !val.must {
			// outside the documented domain: the decoder is free to read it differently
			a.counters["values_outside_decoder_domain"]++
			return e
		}
		a.fail("roundtrip:"+c.label()+":value-changed",
			fmt.Sprintf("%s: Unmarshal(Marshal(v)) != v: v=%s got=%s wire=%s", c.label(), want, got, hx(e)))
	}
	e2, err, pan := c.safeEnc(d)
	switch {
	case pan != "":
		a.fail(c.panicKey("Marshal", nil), fmt.Sprintf("%s: Marshal panicked (%s) on decoded %s", c.label(), pan, hx(e)))
	case err != nil:
		a.fail("reencode-fails:"+c.name+":"+slug(err.Error()), fmt.Sprintf("%s: Marshal(Unmarshal(Marshal(v))) failed: %v; wire=%s", c.label(), err, hx(e)))
	case !bytes.Equal(e, e2):
		a.fail("roundtrip:"+c.label()+":marshal-not-fixed-point",
			fmt.Sprintf("%s: Marshal(Unmarshal(e)) != e for e=Marshal(v): e=%s e'=%s", c.label(), hx(e), hx(e2)))
	}
	if a.sample == nil {
		a.sample = map[string]any{"codec": c.label(), "value": trunc(want, 300), "wire": hx(e)}
	}
	return e
}

// slug turns an error text into a key fragment.
func slug(s string) string {
	var sb strings.Builder
	dash := false
	for _, r := range strings.ToLower(s) {
		if (r >= 'a' && r <= 'z') || (r >= '0' && r <= '9') {
			sb.WriteRune(r)
			dash = false
		} else if !dash && sb.Len() > 0 {
			sb.WriteByte('-')
			dash = true
		}
		if sb.Len() > 48 {
			break
		}
	}
	return strings.TrimSuffix(sb.String(), "-")
}

func trunc(s string, n int) string {
	if len(s) > n {
		return s[:n] + "..."
	}
	return s
}

// checkBytes is oracle 2 on one byte string x offered to the decoder.
// It returns pion's canonical re-encoding if x was accepted (nil otherwise).
func (a *acc) checkBytes(c *codec, x []byte, how string) []byte {
	a.evals++
	v, err, pan := c.safeDec(x)
	if pan != "" {
		a.fail(c.panicKey("Unmarshal", x), fmt.Sprintf("%s: Unmarshal panicked (%s) on input %s (%s)", c.label(), pan, hx(x), how))
		return nil
	}
	if err != nil {
		a.counters["inputs_rejected"]++
		return nil
	}
	a.counters["inputs_accepted"]++
	r, err, pan := c.safeEnc(v)
	if pan != "" {
		a.fail(c.panicKey("Marshal", nil), fmt.Sprintf("%s: Marshal panicked (%s) re-encoding accepted input %s (%s)", c.label(), pan, hx(x), how))
		return nil
	}
	if err != nil {
		a.fail("reencode-fails:"+c.name+":"+slug(err.Error()), fmt.Sprintf("%s: accepted input %s (%s) decodes to %s which Marshal refuses: %v", c.label(), hx(x), how, trunc(dump(v), 200), err))
		return nil
	}
	r = bytes.Clone(r)
	// canonical form must be a fixed point of decode-then-encode
	v2, err, pan := c.safeDec(r)
	switch {
	case pan != "":
		a.fail(c.panicKey("Unmarshal", r), fmt.Sprintf("%s: Unmarshal panicked (%s) on canonical form %s of accepted input %s", c.label(), pan, hx(r), hx(x)))
		return r
	case err != nil:
		a.fail("fixedpoint:"+c.label()+":canonical-form-rejected",
			fmt.Sprintf("%s: accepted input %s (%s) re-encodes to %s which Unmarshal rejects: %v", c.label(), hx(x), how, hx(r), err))
		return r
	}
	r2, err, pan := c.safeEnc(v2)
	if pan != "" || err != nil || !bytes.Equal(r, r2) {
		a.fail("fixedpoint:"+c.label()+":not-idempotent",
			fmt.Sprintf("%s: accepted input %s (%s): encode(decode(x))=%s but encode(decode(that))=%s err=%v panic=%q", c.label(), hx(x), how, hx(r), hx(r2), err, pan))
		return r
	}
	if c.ref == nil {
		return r
	}
	// declared lengths
	rx := c.ref(x)
	if rx.overrun != "" {
		a.fail("truncated-accepted:"+c.label()+":"+rx.overrun,
			fmt.Sprintf("%s: input %s (%s) was accepted although its %s runs past the end of the enclosing data; decoded as %s, re-encoded as %s",
				c.label(), hx(x), how, rx.overrun, trunc(dump(v), 200), hx(r)))
		return r
	}
	rr := c.ref(r)
	if rr.overrun == "" {
		if g := grew(rx.vecs, rr.vecs, ""); g != "" {
			field := g[:strings.IndexByte(g, '[')]
			a.fail("overread:"+c.label()+":"+strings.TrimPrefix(field, "/"),
				fmt.Sprintf("%s: input %s (%s) was decoded consuming bytes beyond a declared length: vector %s (declared->re-encoded); re-encoded as %s",
					c.label(), hx(x), how, g, hx(r)))
			return r
		}
	}
	// bytes after the end of the self-delimiting structure must not influence the value
	if rx.consumed < len(x) {
		a.counters["accepted_with_trailing_bytes"]++
		v3, err, pan := c.safeDec(x[:rx.consumed])
		if pan == "" && err == nil {
			if r3, err, pan := c.safeEnc(v3); pan == "" && err == nil && !bytes.Equal(r3, r) {
				a.fail("overread:"+c.label()+":trailing-bytes-change-value",
					fmt.Sprintf("%s: input %s (%s): the %d bytes after the end of the structure changed the decoded value: %s vs %s",
						c.label(), hx(x), how, len(x)-rx.consumed, hx(r), hx(r3)))
			}
		}
	}
	return r
}

var mutBytes = [3]byte{0x00, 0x01, 0xff}

// mutate offers every truncation, every one-byte extension and every single-byte substitution
// (00/01/ff) of the accepted encoding e to the decoder. from is the first byte offset at which
// substitutions and truncation points are generated (0 = whole encoding).
func (a *acc) mutate(c *codec, e []byte, from int) {
	tag := c.label()
	if !a.fresh(tag, e) {
		return // identical encoding already expanded in this case
	}
	a.checkBytes(c, e, "accepted encoding")
	buf := make([]byte, len(e)+1)
	for k := from; k < len(e); k++ {
		x := e[:k]
		if a.fresh(tag, x) {
			a.checkBytes(c, x, "truncated to "+strconv.Itoa(k)+" of "+strconv.Itoa(len(e)))
		}
	}
	for _, b := range mutBytes {
		copy(buf, e)
		buf[len(e)] = b
		if a.fresh(tag, buf) {
			a.checkBytes(c, buf, "extended by "+hex.EncodeToString([]byte{b}))
		}
	}
	buf = buf[:len(e)]
	for i := from; i < len(e); i++ {
		for _, b := range mutBytes {
			if e[i] == b {
				continue
			}
			copy(buf, e)
			buf[i] = b
			if a.fresh(tag, buf) {
				a.checkBytes(c, buf, fmt.Sprintf("byte %d set to %02x", i, b))
			}
		}
	}
}

// runValues is the standard case body: oracle 1 on every value, oracle 2 on every accepted encoding.
func runValues(c *codec, vals []value, from func(e []byte) int) run.Outcome {
	a := newAcc()
	for _, val := range vals {
		if e := a.checkValue(c, val); e != nil {
			f := 0
			if from != nil {
				f = from(e)
			}
			a.mutate(c, e, f)
		}
	}
	return a.outcome("held")
}

// ---- structural value rendering (equality of decoded values independent of Marshal) ----

var timeType = reflect.TypeOf(time.Time{})

// dump renders a value canonically: nil and empty slices are the same, time.Time is its Unix second
// (the only resolution the wire carries), interface values carry their dynamic type name.
func dump(v any) string {
	var sb strings.Builder
	dumpV(&sb, reflect.ValueOf(v))
	return sb.String()
}

func dumpV(sb *strings.Builder, v reflect.Value) {
	switch v.Kind() {
	case reflect.Invalid:
		sb.WriteString("nil")
	case reflect.Interface:
		if v.IsNil() {
			sb.WriteString("nil")
			return
		}
		dumpV(sb, v.Elem())
	case reflect.Pointer:
		if v.IsNil() {
			sb.WriteString("nil")
			return
		}
		dumpV(sb, v.Elem())
	case reflect.Struct:
		if v.Type() == timeType {
			// exported access only
			if v.CanInterface() {
				fmt.Fprintf(sb, "t%d", v.Interface().(time.Time).Unix())
			} else {
				sb.WriteString("t?")
			}
			return
		}
		sb.WriteString(v.Type().Name())
		sb.WriteByte('{')
		for i := 0; i < v.NumField(); i++ {
			if i > 0 {
				sb.WriteByte(' ')
			}
			sb.WriteString(v.Type().Field(i).Name)
			sb.WriteByte(':')
			dumpV(sb, v.Field(i))
		}
		sb.WriteByte('}')
	case reflect.Slice, reflect.Array:
		if v.Type().Elem().Kind() == reflect.Uint8 {
			sb.WriteByte('x')
			for i := 0; i < v.Len(); i++ {
				fmt.Fprintf(sb, "%02x", v.Index(i).Uint())
			}
			return
		}
		sb.WriteByte('[')
		for i := 0; i < v.Len(); i++ {
			if i > 0 {
				sb.WriteByte(' ')
			}
			dumpV(sb, v.Index(i))
		}
		sb.WriteByte(']')
	case reflect.String:
		sb.WriteString(strconv.Quote(v.String()))
	case reflect.Bool:
		sb.WriteString(strconv.FormatBool(v.Bool()))
	case reflect.Int, reflect.Int8, reflect.Int16, reflect.Int32, reflect.Int64:
		sb.WriteString(strconv.FormatInt(v.Int(), 10))
	case reflect.Uint, reflect.Uint8, reflect.Uint16, reflect.Uint32, reflect.Uint64:
		sb.WriteString(strconv.FormatUint(v.Uint(), 10))
	default:
		fmt.Fprintf(sb, "?%s", v.Kind())
	}
}
