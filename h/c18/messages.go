package c18

import (
	"fmt"
	"time"

	"github.com/pion/dtls/v3/pkg/crypto/clientcertificate"
	"github.com/pion/dtls/v3/pkg/crypto/elliptic"
	"github.com/pion/dtls/v3/pkg/crypto/hash"
	"github.com/pion/dtls/v3/pkg/crypto/signature"
	"github.com/pion/dtls/v3/pkg/crypto/signaturehash"
	"github.com/pion/dtls/v3/pkg/protocol"
	"github.com/pion/dtls/v3/pkg/protocol/extension"
	"github.com/pion/dtls/v3/pkg/protocol/handshake"
)

// key-exchange contexts (values of internal/ciphersuite/types.KeyExchangeAlgorithm: a bit mask)
const (
	kxNone     = 0
	kxPsk      = 2
	kxEcdhe    = 4
	kxEcdhePsk = 6
)

func kxName(k int) string {
	switch k {
	case kxPsk:
		return "psk"
	case kxEcdhe:
		return "ecdhe"
	case kxEcdhePsk:
		return "ecdhe-psk"
	}
	return "none"
}

func msgCodec(name, ctx string, mk func() handshake.Message, sch node) *codec {
	return &codec{name: name, ctx: ctx,
		dec: func(b []byte) (any, error) { m := mk(); return m, m.Unmarshal(b) },
		enc: func(v any) ([]byte, error) { return v.(handshake.Message).Marshal() },
		ref: refOf(sch)}
}

// msgGroup is one handshake message type under one decoding context with its bounded grammar,
// already split into journaled chunks.
type msgGroup struct {
	id    string
	codec *codec
	vals  func() []value
	from  func(e []byte) int
}

func randoms(th bool) []handshake.Random {
	var patR handshake.Random
	patR.GMTUnixTime = time.Unix(0x01020304, 0)
	copy(patR.RandomBytes[:], pat(28, 5))
	var zero handshake.Random
	zero.GMTUnixTime = time.Unix(0, 0)
	rs := []handshake.Random{zero, patR}
	if th {
		var ff handshake.Random
		ff.GMTUnixTime = time.Unix(0xffffffff, 0)
		for i := range ff.RandomBytes {
			ff.RandomBytes[i] = 0xff
		}
		rs = append(rs, ff)
	}
	return rs
}

func hrrRandom() handshake.Random {
	var r handshake.Random
	var fixed [32]byte
	copy(fixed[:], handshake.HelloRetryRequestRandom())
	r.UnmarshalFixed(fixed)
	return r
}

func nullCompression() *protocol.CompressionMethod {
	return protocol.CompressionMethods()[0]
}

// byteLens: the lengths a variable-length field takes. The quick tier uses the short list plus the largest
// extra value (the top of the length prefix: a decoder that caps a field at "the usual size" shows only there) and
// the value just above the longest usual one; the thorough tier uses everything.
func byteLens(th bool, quick []int, more ...int) []int {
	if th {
		return append(append([]int(nil), quick...), more...)
	}
	out := append([]int(nil), quick...)
	if len(quick) > 0 {
		top := quick[len(quick)-1] + 1
		out = append(out, top)
	}
	mx := -1
	for _, m := range more {
		if m > mx {
			mx = m
		}
	}
	if mx >= 0 {
		dup := false
		for _, q := range out {
			dup = dup || q == mx
		}
		if !dup {
			out = append(out, mx)
		}
	}
	return out
}

// chExtOffset finds the start of the extensions block of a ClientHello body with the reference parser.
func extOffsetOf(sch node, e []byte) int {
	// the extension block is the last top-level vector
	r := refOf(sch)(e)
	if r.overrun != "" || len(r.vecs) == 0 {
		return 0
	}
	last := r.vecs[len(r.vecs)-1]
	if last.name != "extensions" {
		return 0
	}
	return r.consumed - last.declared - 2
}

func clientHelloGroups(th bool) []msgGroup {
	c := msgCodec("MessageClientHello", "", func() handshake.Message { return &handshake.MessageClientHello{} }, schClientHello)
	var gs []msgGroup
	versions := []protocol.Version{protocol.Version1_2, protocol.Version1_0}
	if th {
		versions = append(versions, protocol.Version1_3, protocol.Version{Major: 3, Minor: 3})
	}
	sidLens := byteLens(th, []int{0, 1, 32}, 2, 255)
	cookieLens := byteLens(th, []int{0, 1, 20}, 2, 255)
	suiteLists := [][]uint16{{}, {0xc02b}, {0xc02b, 0x00ff}, {0x1301, 0x1302, 0xc02b}}
	if th {
		suiteLists = append(suiteLists, []uint16{0, 0xffff}, []uint16{0x0100, 0x0001, 0x0101, 0xff00})
	}
	comps := [][]*protocol.CompressionMethod{{nullCompression()}, {}}
	if th {
		comps = append(comps, []*protocol.CompressionMethod{nullCompression(), nullCompression()})
	}
	// A: full grid of the fixed part x extension lists of size <= 1
	single := chExtLists(1, false, th)
	for vi, ver := range versions {
		for ri, rnd := range randoms(th) {
			ver, rnd := ver, rnd
			gs = append(gs, msgGroup{id: fmt.Sprintf("msg/ClientHello/grid/v%d-r%d", vi, ri), codec: c, vals: func() []value {
				var vals []value
				for _, sl := range sidLens {
					for _, cl := range cookieLens {
						for _, su := range suiteLists {
							for _, cm := range comps {
								for _, ex := range single {
									vals = append(vals, value{&handshake.MessageClientHello{Version: ver, Random: rnd, SessionID: pat(sl, 0x51), Cookie: pat(cl, 0xc0),
										CipherSuiteIDs: su, CompressionMethods: cm, Extensions: ex.list}, ex.valid})
								}
							}
						}
					}
				}
				return vals
			}})
		}
	}
	// B: every subset of <= 3 extension types (all payload variants) on a fixed base; mutations confined
	// to the extensions block (the fixed part is mutated exhaustively in A)
	all := chExtLists(3, true, th)
	buckets := map[string][]extList{}
	var order []string
	for _, l := range all {
		k := l.bucket
		if _, ok := buckets[k]; !ok {
			order = append(order, k)
		}
		buckets[k] = append(buckets[k], l)
	}
	rnd := randoms(false)[1]
	for _, k := range order {
		ls := buckets[k]
		gs = append(gs, msgGroup{id: "msg/ClientHello/ext/" + k, codec: c, vals: func() []value {
			var vals []value
			for _, ex := range ls {
				vals = append(vals, value{&handshake.MessageClientHello{Version: protocol.Version1_2, Random: rnd, SessionID: nil, Cookie: pat(1, 0xc0),
					CipherSuiteIDs: []uint16{0xc02b, 0x1301}, CompressionMethods: []*protocol.CompressionMethod{nullCompression()}, Extensions: ex.list}, ex.valid})
			}
			return vals
		}, from: func(e []byte) int { return extOffsetOf(schClientHello, e) }})
	}
	return gs
}

func serverHelloGroups(th bool) []msgGroup {
	c := msgCodec("MessageServerHello", "", func() handshake.Message { return &handshake.MessageServerHello{} }, schServerHello)
	var gs []msgGroup
	versions := []protocol.Version{protocol.Version1_2, protocol.Version1_0}
	if th {
		versions = append(versions, protocol.Version1_3, protocol.Version{Major: 3, Minor: 3})
	}
	sidLens := byteLens(th, []int{0, 1, 32}, 2, 255)
	suites := []uint16{0xc02b, 0x1301, 0, 0xffff}
	rnds := append(randoms(th), hrrRandom())
	for _, ctx := range []string{"SH12", "SH13", "HRR"} {
		ctx := ctx
		lists := shExtLists(ctx, 3, th)
		for ri, rnd := range rnds {
			isHRR := ri == len(rnds)-1
			if isHRR != (ctx == "HRR") {
				continue
			}
			rnd := rnd
			gs = append(gs, msgGroup{id: fmt.Sprintf("msg/ServerHello/%s/r%d", ctx, ri), codec: c, vals: func() []value {
				var vals []value
				for _, ver := range versions {
					for _, sl := range sidLens {
						for _, su := range suites {
							su := su
							for _, ex := range lists {
								vals = append(vals, value{&handshake.MessageServerHello{Version: ver, Random: rnd, SessionID: pat(sl, 0x51),
									CipherSuiteID: &su, CompressionMethod: nullCompression(), Extensions: ex.list}, ex.valid})
							}
						}
					}
				}
				return vals
			}, from: func(e []byte) int {
				// mutate the whole message only for short extension blocks; otherwise the block itself
				if len(e) < 60 {
					return 0
				}
				return extOffsetOf(schServerHello, e)
			}})
		}
	}
	return gs
}

func opaqueSet(th bool, lens ...int) [][]byte {
	var out [][]byte
	for _, l := range lens {
		out = append(out, pat(l, 0xa0))
	}
	if th {
		out = append(out, make([]byte, 2), []byte{0xff, 0xff, 0xff})
	}
	return out
}

type sigAlg struct {
	h hash.Algorithm
	s signature.Algorithm
}

// sigAlgs lists (hash, signature) pairs of pion's signaturehash.Algorithms() plus the PSS_PSS and SHA-1 ones
// it declares it parses.
func sigAlgs(th bool) []sigAlg {
	as := []sigAlg{
		{hash.SHA256, signature.ECDSA}, {hash.SHA384, signature.ECDSA}, {hash.SHA512, signature.ECDSA},
		{hash.Ed25519, signature.Ed25519},
		{hash.SHA256, signature.RSA}, {hash.SHA512, signature.RSA},
		{hash.SHA256, signature.RSA_PSS_RSAE_SHA256}, {hash.SHA384, signature.RSA_PSS_RSAE_SHA384}, {hash.SHA512, signature.RSA_PSS_RSAE_SHA512},
	}
	if th {
		as = append(as, sigAlg{hash.SHA1, signature.RSA}, sigAlg{hash.SHA1, signature.ECDSA}, sigAlg{hash.SHA224, signature.RSA}, sigAlg{hash.MD5, signature.RSA},
			sigAlg{hash.SHA384, signature.RSA},
			sigAlg{hash.SHA256, signature.RSA_PSS_PSS_SHA256}, sigAlg{hash.SHA384, signature.RSA_PSS_PSS_SHA384}, sigAlg{hash.SHA512, signature.RSA_PSS_PSS_SHA512})
	}
	return as
}

func otherMessageGroups(th bool) []msgGroup {
	var gs []msgGroup
	add := func(id string, c *codec, vals func() []value) {
		gs = append(gs, msgGroup{id: "msg/" + id, codec: c, vals: vals})
	}

	// HelloVerifyRequest
	add("HelloVerifyRequest", msgCodec("MessageHelloVerifyRequest", "", func() handshake.Message { return &handshake.MessageHelloVerifyRequest{} }, schHelloVerifyRequest),
		func() []value {
			var vals []value
			for _, v := range []protocol.Version{protocol.Version1_0, protocol.Version1_2, protocol.Version1_3, {}, {Major: 0xff, Minor: 0xff}} {
				for _, l := range byteLens(th, []int{0, 1, 2, 20, 32}, 3, 254, 255) {
					for _, st := range []byte{0x00, 0x01, 0xc0, 0xff} {
						vals = append(vals, value{&handshake.MessageHelloVerifyRequest{Version: v, Cookie: pat(l, st)}, true})
					}
				}
			}
			return vals
		})

	// Certificate (1.2)
	add("Certificate", msgCodec("MessageCertificate", "", func() handshake.Message { return &handshake.MessageCertificate{} }, schCertificate),
		func() []value {
			certs := opaqueSet(th, 0, 1, 3, 40)
			var vals []value
			maxN := 3
			var rec func(cur [][]byte)
			rec = func(cur [][]byte) {
				vals = append(vals, value{&handshake.MessageCertificate{Certificate: append([][]byte(nil), cur...)}, true})
				if len(cur) == maxN {
					return
				}
				for _, c := range certs {
					rec(append(cur, c))
				}
			}
			rec(nil)
			return vals
		})

	// Certificate (1.3)
	ctEx := ctxExtLists("CT", 2, th)
	add("Certificate13", msgCodec("MessageCertificate13", "", func() handshake.Message { return &handshake.MessageCertificate13{} }, schCertificate13),
		func() []value {
			datas := opaqueSet(th, 1, 3, 40)
			var entries []handshake.CertificateEntry13
			for _, d := range datas {
				for _, ex := range ctEx {
					entries = append(entries, handshake.CertificateEntry13{CertificateData: d, Extensions: ex.list})
				}
			}
			var vals []value
			for _, cl := range byteLens(th, []int{0, 1, 4}, 255) {
				ctx := pat(cl, 0x70)
				vals = append(vals, value{&handshake.MessageCertificate13{CertificateRequestContext: ctx}, true})
				for _, e1 := range entries {
					vals = append(vals, value{&handshake.MessageCertificate13{CertificateRequestContext: ctx, CertificateList: []handshake.CertificateEntry13{e1}}, true})
					for _, e2 := range entries {
						vals = append(vals, value{&handshake.MessageCertificate13{CertificateRequestContext: ctx, CertificateList: []handshake.CertificateEntry13{e1, e2}}, true})
					}
				}
			}
			// zero-length cert_data is outside <1..2^24-1>: Marshal must refuse, nothing to decode
			vals = append(vals, value{&handshake.MessageCertificate13{CertificateList: []handshake.CertificateEntry13{{}}}, false})
			return vals
		})

	// ServerKeyExchange under each key-exchange context
	for _, kx := range []int{kxPsk, kxEcdhe, kxEcdhePsk} {
		kx := kx
		sch := map[int]node{kxPsk: schSKEPsk, kxEcdhe: schSKEEcdhe, kxEcdhePsk: schSKEEcdhePsk}[kx]
		add("ServerKeyExchange/"+kxName(kx), msgCodec("MessageServerKeyExchange", kxName(kx),
			func() handshake.Message { return &handshake.MessageServerKeyExchange{KeyExchangeAlgorithm: kxT(kx)} }, sch),
			func() []value { return skeValues(kx, th) })
	}
	// ClientKeyExchange under each key-exchange context
	for _, kx := range []int{kxPsk, kxEcdhe, kxEcdhePsk} {
		kx := kx
		sch := map[int]node{kxPsk: schCKEPsk, kxEcdhe: schCKEEcdhe, kxEcdhePsk: schCKEEcdhePsk}[kx]
		c := msgCodec("MessageClientKeyExchange", kxName(kx),
			func() handshake.Message { return &handshake.MessageClientKeyExchange{KeyExchangeAlgorithm: kxT(kx)} }, sch)
		if kx == kxEcdhePsk {
			c.panicShape = func(b []byte) string {
				if len(b) >= 2 && beN(b[:2]) == len(b)-2 {
					return "short" // identity fills the whole body: no ECDHE public-key length byte
				}
				return ""
			}
		}
		add("ClientKeyExchange/"+kxName(kx), c, func() []value { return ckeValues(kx, th) })
	}
	// no key-exchange context: both must refuse
	add("KeyExchange/none", msgCodec("MessageClientKeyExchange", "none",
		func() handshake.Message { return &handshake.MessageClientKeyExchange{} }, schCKEEcdhe),
		func() []value {
			return []value{{&handshake.MessageClientKeyExchange{PublicKey: pat(4, 1)}, false}, {&handshake.MessageClientKeyExchange{IdentityHint: pat(4, 1)}, false}}
		})

	// CertificateRequest (1.2)
	add("CertificateRequest", msgCodec("MessageCertificateRequest", "", func() handshake.Message { return &handshake.MessageCertificateRequest{} }, schCertificateRequest),
		func() []value {
			typeLists := [][]clientcertificate.Type{{}, {clientcertificate.RSASign}, {clientcertificate.ECDSASign, clientcertificate.RSASign}}
			algs := sigAlgs(th)
			algLists := [][]signaturehash.Algorithm{{}}
			for _, a := range algs {
				algLists = append(algLists, []signaturehash.Algorithm{{Hash: a.h, Signature: a.s}})
				for _, b := range algs[:3] {
					algLists = append(algLists, []signaturehash.Algorithm{{Hash: a.h, Signature: a.s}, {Hash: b.h, Signature: b.s}})
				}
			}
			names := [][]byte{{0x30}, pat(3, 1)}
			caLists := [][][]byte{{}, {names[0]}, {names[1]}, {names[0], names[1]}, {names[1], names[1], names[0]}}
			if th {
				caLists = append(caLists, [][]byte{pat(40, 7)}, [][]byte{{}, {1}})
			}
			var vals []value
			for _, t := range typeLists {
				for _, a := range algLists {
					for _, ca := range caLists {
						vals = append(vals, value{&handshake.MessageCertificateRequest{CertificateTypes: t, SignatureHashAlgorithms: a, CertificateAuthoritiesNames: ca}, true})
					}
				}
			}
			return vals
		})

	// CertificateRequest (1.3)
	crEx := ctxExtLists("CR", 3, th)
	add("CertificateRequest13", msgCodec("MessageCertificateRequest13", "", func() handshake.Message { return &handshake.MessageCertificateRequest13{} }, schCertificateRequest13),
		func() []value {
			var vals []value
			for _, cl := range byteLens(th, []int{0, 1, 4}, 255) {
				for _, ex := range crEx {
					vals = append(vals, value{&handshake.MessageCertificateRequest13{CertificateRequestContext: pat(cl, 0x70), Extensions: ex.list}, ex.valid})
				}
			}
			return vals
		})

	// CertificateVerify
	add("CertificateVerify", msgCodec("MessageCertificateVerify", "", func() handshake.Message { return &handshake.MessageCertificateVerify{} }, schCertificateVerify),
		func() []value {
			var vals []value
			for _, a := range sigAlgs(true) {
				for _, l := range byteLens(th, []int{0, 1, 2, 64}, 3, 255, 256) {
					vals = append(vals, value{&handshake.MessageCertificateVerify{HashAlgorithm: a.h, SignatureAlgorithm: a.s, Signature: pat(l, 0x90)}, true})
				}
			}
			return vals
		})

	// Finished
	add("Finished", msgCodec("MessageFinished", "", func() handshake.Message { return &handshake.MessageFinished{} }, schFinished),
		func() []value {
			var vals []value
			for _, l := range byteLens(th, []int{0, 1, 12, 32, 48}, 2, 64) {
				for _, st := range []byte{0, 1, 0xf0} {
					vals = append(vals, value{&handshake.MessageFinished{VerifyData: pat(l, st)}, true})
				}
			}
			return vals
		})

	// ServerHelloDone
	add("ServerHelloDone", msgCodec("MessageServerHelloDone", "", func() handshake.Message { return &handshake.MessageServerHelloDone{} }, schServerHelloDone),
		func() []value { return []value{{&handshake.MessageServerHelloDone{}, true}} })

	// EncryptedExtensions
	eeEx := ctxExtLists("EE", 3, th)
	add("EncryptedExtensions", msgCodec("MessageEncryptedExtensions", "", func() handshake.Message { return &handshake.MessageEncryptedExtensions{} }, schEncryptedExtensions),
		func() []value {
			var vals []value
			for _, ex := range eeEx {
				vals = append(vals, value{&handshake.MessageEncryptedExtensions{Extensions: ex.list}, ex.valid})
			}
			return vals
		})

	// NewSessionTicket
	nstEx := ctxExtLists("NST", 3, th)
	add("NewSessionTicket", msgCodec("MessageNewSessionTicket", "", func() handshake.Message { return &handshake.MessageNewSessionTicket{} }, schNewSessionTicket),
		func() []value {
			var vals []value
			u32 := []uint32{0, 1, 0xffffffff}
			if th {
				u32 = append(u32, 0x01020304, 604800)
			}
			for _, lt := range u32 {
				for _, aa := range u32 {
					for _, nl := range byteLens(th, []int{0, 1, 8}, 255) {
						for _, tl := range byteLens(th, []int{0, 1, 2, 32}, 256) {
							for _, ex := range nstEx {
								vals = append(vals, value{&handshake.MessageNewSessionTicket{TicketLifetime: lt, TicketAgeAdd: aa, TicketNonce: pat(nl, 0x11), Ticket: pat(tl, 0x77), Extensions: ex.list},
									ex.valid && tl > 0})
							}
						}
					}
				}
			}
			return vals
		})

	// KeyUpdate, RequestConnectionID: whole domain
	add("KeyUpdate", msgCodec("MessageKeyUpdate", "", func() handshake.Message { return &handshake.MessageKeyUpdate{} }, schKeyUpdate),
		func() []value {
			var vals []value
			for r := 0; r < 256; r++ {
				vals = append(vals, value{&handshake.MessageKeyUpdate{RequestUpdate: handshake.KeyUpdateRequest(r)}, r <= 1})
			}
			return vals
		})
	add("RequestConnectionID", msgCodec("MessageRequestConnectionID", "", func() handshake.Message { return &handshake.MessageRequestConnectionID{} }, schRequestConnectionID),
		func() []value {
			var vals []value
			for r := 0; r < 256; r++ {
				vals = append(vals, value{&handshake.MessageRequestConnectionID{NumCIDs: uint8(r)}, true})
			}
			return vals
		})

	// NewConnectionID
	add("NewConnectionID", msgCodec("MessageNewConnectionID", "", func() handshake.Message { return &handshake.MessageNewConnectionID{} }, schNewConnectionID),
		func() []value {
			cids := opaqueSet(th, 0, 1, 4, 8)
			var vals []value
			var rec func(cur [][]byte)
			rec = func(cur [][]byte) {
				for u := 0; u < 4; u++ {
					vals = append(vals, value{&handshake.MessageNewConnectionID{CIDs: append([][]byte(nil), cur...), Usage: handshake.ConnectionIDUsage(u)}, u <= 1})
				}
				if len(cur) == 3 {
					return
				}
				for _, c := range cids {
					rec(append(cur, c))
				}
			}
			rec(nil)
			return vals
		})
	return gs
}

func skeValues(kx int, th bool) []value {
	var vals []value
	hints := [][]byte{{}, {0x68}, pat(5, 0x61)}
	if th {
		hints = append(hints, pat(255, 0), pat(256, 1))
	}
	if kx == kxPsk {
		for _, h := range hints {
			vals = append(vals, value{&handshake.MessageServerKeyExchange{IdentityHint: h, KeyExchangeAlgorithm: kxT(kx)}, true})
		}
		return vals
	}
	if kx == kxEcdhe {
		hints = [][]byte{nil}
	} else {
		// RFC 5489 §2: psk_identity_hint<0..2^16-1> always precedes the ECDH parameters (possibly empty).
		// Boundary value: a hint whose two length bytes (0x0300 = 768) read like ECParameters "named_curve, 0x00..":
		// every truncation of its encoding declares a hint that runs past the end.
		vals = append(vals, value{&handshake.MessageServerKeyExchange{IdentityHint: append([]byte{0x1d, 0x01, 0xaa}, pat(765, 0)...),
			EllipticCurveType: elliptic.CurveTypeNamedCurve, NamedCurve: elliptic.X25519, PublicKey: []byte{0x04}, KeyExchangeAlgorithm: kxT(kx)}, true})
	}
	curves := []elliptic.Curve{elliptic.X25519, elliptic.P256, elliptic.P384}
	pubs := [][]byte{pat(1, 4), pat(32, 0x20), pat(65, 4)}
	if th {
		curves = append(curves, elliptic.X25519MLKEM768)
		pubs = append(pubs, pat(2, 0xfe), pat(97, 4), pat(255, 1))
	}
	type sg struct {
		a sigAlg
		s []byte
	}
	sigs := []sg{{sigAlg{hash.None, signature.Anonymous}, nil}}
	for _, a := range sigAlgs(th) {
		for _, l := range byteLens(th, []int{1, 64}, 2, 256) {
			sigs = append(sigs, sg{a, pat(l, 0x90)})
		}
	}
	for _, h := range hints {
		for _, c := range curves {
			for _, p := range pubs {
				for _, s := range sigs {
					vals = append(vals, value{&handshake.MessageServerKeyExchange{IdentityHint: h, EllipticCurveType: elliptic.CurveTypeNamedCurve, NamedCurve: c,
						PublicKey: p, HashAlgorithm: s.a.h, SignatureAlgorithm: s.a.s, Signature: s.s, KeyExchangeAlgorithm: kxT(kx)}, true})
				}
			}
		}
	}
	return vals
}

func ckeValues(kx int, th bool) []value {
	var vals []value
	ids := [][]byte{{}, {0x69}, pat(5, 0x61), pat(32, 1)}
	pubs := [][]byte{pat(1, 4), pat(2, 0), pat(32, 0x20), pat(65, 4)}
	if th {
		ids = append(ids, pat(255, 0), pat(256, 1), []byte{0, 0})
		pubs = append(pubs, pat(97, 4), pat(255, 1))
	}
	switch kx {
	case kxPsk:
		for _, id := range ids {
			vals = append(vals, value{&handshake.MessageClientKeyExchange{IdentityHint: id, KeyExchangeAlgorithm: kxT(kx)}, true})
		}
	case kxEcdhe:
		for _, p := range pubs {
			vals = append(vals, value{&handshake.MessageClientKeyExchange{PublicKey: p, KeyExchangeAlgorithm: kxT(kx)}, true})
		}
	case kxEcdhePsk:
		for _, id := range ids {
			for _, p := range pubs {
				vals = append(vals, value{&handshake.MessageClientKeyExchange{IdentityHint: id, PublicKey: p, KeyExchangeAlgorithm: kxT(kx)}, true})
			}
		}
	}
	return vals
}

// ---- handshake header and Handshake wrapper ----

func hsHeaderCodec() *codec {
	return &codec{name: "handshake.Header",
		dec: func(b []byte) (any, error) { v := &handshake.Header{}; return v, v.Unmarshal(b) },
		enc: func(v any) ([]byte, error) { return v.(*handshake.Header).Marshal() },
		ref: refOf(seqN{fx("handshake_header", 12)})}
}

func hsHeaderValues(t handshake.Type, th bool) []value {
	u24 := []uint32{0, 1, 0xffffff}
	seqs := []uint16{0, 1, 0xffff}
	if th {
		u24 = append(u24, 0x010203, 0x800000, 256)
		seqs = append(seqs, 0x0102, 0x8000)
	}
	var vals []value
	for _, l := range u24 {
		for _, s := range seqs {
			for _, fo := range u24 {
				for _, fl := range u24 {
					vals = append(vals, value{&handshake.Header{Type: t, Length: l, MessageSequence: s, FragmentOffset: fo, FragmentLength: fl}, true})
				}
			}
		}
	}
	return vals
}

func bodySchema(kx int) func(typ byte) node {
	return func(typ byte) node {
		switch handshake.Type(typ) {
		case handshake.TypeClientHello:
			return schClientHello
		case handshake.TypeServerHello:
			return schServerHello
		case handshake.TypeHelloVerifyRequest:
			return schHelloVerifyRequest
		case handshake.TypeNewSessionTicket:
			return schNewSessionTicket
		case handshake.TypeEncryptedExtensions:
			return schEncryptedExtensions
		case handshake.TypeRequestConnectionID:
			return schRequestConnectionID
		case handshake.TypeNewConnectionID:
			return schNewConnectionID
		case handshake.TypeCertificate:
			return schCertificate
		case handshake.TypeServerKeyExchange:
			return map[int]node{kxPsk: schSKEPsk, kxEcdhe: schSKEEcdhe, kxEcdhePsk: schSKEEcdhePsk}[kx]
		case handshake.TypeCertificateRequest:
			return schCertificateRequest
		case handshake.TypeCertificateVerify:
			return schCertificateVerify
		case handshake.TypeClientKeyExchange:
			return map[int]node{kxPsk: schCKEPsk, kxEcdhe: schCKEEcdhe, kxEcdhePsk: schCKEEcdhePsk}[kx]
		case handshake.TypeKeyUpdate:
			return schKeyUpdate
		}
		return nil
	}
}

func handshakeCodec(kx int) *codec {
	c := &codec{name: "Handshake", ctx: kxName(kx),
		dec: func(b []byte) (any, error) {
			v := &handshake.Handshake{KeyExchangeAlgorithm: kxT(kx)}
			return v, v.Unmarshal(b)
		},
		enc: func(v any) ([]byte, error) { return v.(*handshake.Handshake).Marshal() },
		ref: refHandshake(bodySchema(kx))}
	c.panicShape = func(b []byte) string {
		if len(b) > 12 {
			return handshake.Type(b[0]).String()
		}
		return ""
	}
	return c
}

type hsMsg struct {
	name string
	kx   int
	mk   func() handshake.Message
}

func handshakeCatalogue(th bool) []hsMsg {
	su := uint16(0xc02b)
	return []hsMsg{
		{"ClientHello", kxNone, func() handshake.Message {
			return &handshake.MessageClientHello{Version: protocol.Version1_2, Random: randoms(false)[1], Cookie: pat(2, 0xc0), CipherSuiteIDs: []uint16{0xc02b},
				CompressionMethods: []*protocol.CompressionMethod{nullCompression()}, Extensions: []extension.Value{&extension.ConnectionID{CID: []byte{7}}}}
		}},
		{"ServerHello", kxNone, func() handshake.Message {
			return &handshake.MessageServerHello{Version: protocol.Version1_2, Random: randoms(false)[1], SessionID: pat(1, 9), CipherSuiteID: &su,
				CompressionMethod: nullCompression(), Extensions: []extension.Value{&extension.ALPNSelection{Protocol: "h2"}}}
		}},
		{"HelloVerifyRequest", kxNone, func() handshake.Message {
			return &handshake.MessageHelloVerifyRequest{Version: protocol.Version1_2, Cookie: pat(3, 0xc0)}
		}},
		{"NewSessionTicket", kxNone, func() handshake.Message {
			return &handshake.MessageNewSessionTicket{TicketLifetime: 1, TicketAgeAdd: 2, TicketNonce: []byte{1}, Ticket: []byte{2, 3}}
		}},
		{"EncryptedExtensions", kxNone, func() handshake.Message {
			return &handshake.MessageEncryptedExtensions{Extensions: []extension.Value{&extension.ALPNSelection{Protocol: "a"}}}
		}},
		{"RequestConnectionID", kxNone, func() handshake.Message { return &handshake.MessageRequestConnectionID{NumCIDs: 2} }},
		{"NewConnectionID", kxNone, func() handshake.Message {
			return &handshake.MessageNewConnectionID{CIDs: [][]byte{{1, 2}, {}}, Usage: handshake.ConnectionIDSpare}
		}},
		{"Certificate", kxNone, func() handshake.Message { return &handshake.MessageCertificate{Certificate: [][]byte{pat(3, 1), {9}}} }},
		{"ServerKeyExchange-psk", kxPsk, func() handshake.Message {
			return &handshake.MessageServerKeyExchange{IdentityHint: []byte("hi"), KeyExchangeAlgorithm: kxT(kxPsk)}
		}},
		{"ServerKeyExchange-ecdhe", kxEcdhe, func() handshake.Message {
			return &handshake.MessageServerKeyExchange{EllipticCurveType: elliptic.CurveTypeNamedCurve, NamedCurve: elliptic.X25519, PublicKey: pat(4, 0x20),
				HashAlgorithm: hash.SHA256, SignatureAlgorithm: signature.ECDSA, Signature: pat(3, 0x90), KeyExchangeAlgorithm: kxT(kxEcdhe)}
		}},
		{"ServerKeyExchange-ecdhe-psk", kxEcdhePsk, func() handshake.Message {
			return &handshake.MessageServerKeyExchange{IdentityHint: []byte("hi"), EllipticCurveType: elliptic.CurveTypeNamedCurve, NamedCurve: elliptic.P256, PublicKey: pat(4, 0x20),
				KeyExchangeAlgorithm: kxT(kxEcdhePsk)}
		}},
		{"CertificateRequest", kxNone, func() handshake.Message {
			return &handshake.MessageCertificateRequest{CertificateTypes: []clientcertificate.Type{clientcertificate.ECDSASign},
				SignatureHashAlgorithms: []signaturehash.Algorithm{{Hash: hash.SHA256, Signature: signature.ECDSA}}, CertificateAuthoritiesNames: [][]byte{{0x30, 0x00}}}
		}},
		{"ServerHelloDone", kxNone, func() handshake.Message { return &handshake.MessageServerHelloDone{} }},
		{"CertificateVerify", kxNone, func() handshake.Message {
			return &handshake.MessageCertificateVerify{HashAlgorithm: hash.SHA256, SignatureAlgorithm: signature.ECDSA, Signature: pat(3, 0x90)}
		}},
		{"ClientKeyExchange-psk", kxPsk, func() handshake.Message {
			return &handshake.MessageClientKeyExchange{IdentityHint: []byte("id"), KeyExchangeAlgorithm: kxT(kxPsk)}
		}},
		{"ClientKeyExchange-ecdhe", kxEcdhe, func() handshake.Message {
			return &handshake.MessageClientKeyExchange{PublicKey: pat(4, 0x20), KeyExchangeAlgorithm: kxT(kxEcdhe)}
		}},
		{"ClientKeyExchange-ecdhe-psk", kxEcdhePsk, func() handshake.Message {
			return &handshake.MessageClientKeyExchange{IdentityHint: []byte("id"), PublicKey: pat(4, 0x20), KeyExchangeAlgorithm: kxT(kxEcdhePsk)}
		}},
		{"Finished", kxNone, func() handshake.Message { return &handshake.MessageFinished{VerifyData: pat(12, 0x30)} }},
		{"KeyUpdate", kxNone, func() handshake.Message {
			return &handshake.MessageKeyUpdate{RequestUpdate: handshake.KeyUpdateRequested}
		}},
	}
}

func handshakeValues(m hsMsg, th bool) []value {
	seqs := []uint16{0, 1, 0xffff}
	if th {
		seqs = append(seqs, 2, 0x0100, 0x8000)
	}
	var vals []value
	for _, s := range seqs {
		vals = append(vals, value{&handshake.Handshake{Header: handshake.Header{MessageSequence: s}, Message: m.mk(), KeyExchangeAlgorithm: kxT(m.kx)}, true})
	}
	// a non-zero fragment offset cannot be marshalled
	vals = append(vals, value{&handshake.Handshake{Header: handshake.Header{FragmentOffset: 1}, Message: m.mk(), KeyExchangeAlgorithm: kxT(m.kx)}, false})
	return vals
}
