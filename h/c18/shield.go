package c18

import (
	"bytes"
	"fmt"
	"reflect"
)

// Aliasing discipline of encoders. A value handed to Marshal belongs to the caller: its byte-slice fields may
// be sub-slices of a larger buffer (a read buffer, a neighbouring chunk of the same plaintext) with spare
// capacity behind them. "Decodes what it encodes to an equal value" has to hold for such values too, so an
// encoder must neither change the bytes of the value nor write behind them. shield re-homes every reachable,
// settable byte-slice field of v into a private buffer [4 sentinel bytes | content | 8 sentinel bytes] with the
// field's capacity reaching into the trailing sentinels, and returns a function that reports the first
// difference after the encoder has run.

const sentinel = 0xA5

type shielded struct {
	path    string
	buf     []byte
	content []byte
	n       int
}

func shield(v any) func() string {
	var all []shielded
	var walk func(path string, rv reflect.Value, depth int)
	walk = func(path string, rv reflect.Value, depth int) {
		if depth > 8 {
			return
		}
		switch rv.Kind() {
		case reflect.Ptr, reflect.Interface:
			if !rv.IsNil() {
				walk(path, rv.Elem(), depth+1)
			}
		case reflect.Struct:
			for i := 0; i < rv.NumField(); i++ {
				if rv.Type().Field(i).IsExported() {
					walk(path+"."+rv.Type().Field(i).Name, rv.Field(i), depth+1)
				}
			}
		case reflect.Slice:
			if rv.IsNil() {
				return
			}
			if rv.Type().Elem().Kind() == reflect.Uint8 {
				if !rv.CanSet() || rv.Type().Elem() != reflect.TypeOf(byte(0)) {
					return // lists of named one-byte enumerations are values, not buffers
				}
				n := rv.Len()
				buf := bytes.Repeat([]byte{sentinel}, 4+n+8)
				reflect.Copy(reflect.ValueOf(buf[4:4+n]), rv)
				s := shielded{path: path, buf: buf, n: n, content: bytes.Clone(buf[4 : 4+n])}
				nv := reflect.ValueOf(buf[4 : 4+n : 4+n+8])
				if nv.Type() != rv.Type() {
					nv = nv.Convert(rv.Type())
				}
				rv.Set(nv)
				all = append(all, s)
				return
			}
			for i := 0; i < rv.Len(); i++ {
				walk(fmt.Sprintf("%s[%d]", path, i), rv.Index(i), depth+1)
			}
		}
	}
	walk("v", reflect.ValueOf(v), 0)
	return func() string {
		for _, s := range all {
			if !bytes.Equal(s.buf[4:4+s.n], s.content) {
				return fmt.Sprintf("Marshal changed the bytes of the value's field %s: %x -> %x", s.path, s.content, s.buf[4:4+s.n])
			}
			for i, b := range s.buf[:4] {
				if b != sentinel {
					return fmt.Sprintf("Marshal wrote in front of the value's field %s (byte %d before it)", s.path, 4-i)
				}
			}
			for i, b := range s.buf[4+s.n:] {
				if b != sentinel {
					return fmt.Sprintf("Marshal wrote behind the value's field %s (its spare capacity, byte +%d, now %#02x): a neighbouring sub-slice of the caller's buffer would be overwritten", s.path, i, b)
				}
			}
		}
		return ""
	}
}
