package c18

import (
	"bytes"
	"fmt"

	"github.com/pion/dtls/v3/pkg/protocol/recordlayer"
	"github.com/pion/dtls/v3/zzverif/run"
)

// rec is one catalogue record: its wire bytes are built by the harness (not by pion's Marshal).
type rec struct {
	name string
	b    []byte
	// open: a DTLS 1.3 ciphertext record without a length field; it extends to the end of the datagram
	open bool
}

func legacyRecord(typ byte, epoch uint16, seq uint64, cid []byte, body []byte) []byte {
	b := []byte{typ, 0xfe, 0xfd, byte(epoch >> 8), byte(epoch), byte(seq >> 40), byte(seq >> 32), byte(seq >> 24), byte(seq >> 16), byte(seq >> 8), byte(seq)}
	b = append(b, cid...)
	b = append(b, byte(len(body)>>8), byte(len(body)))
	return append(b, body...)
}

func unifiedRecord(cid []byte, s16, withLen bool, epoch byte, seq uint16, body []byte) []byte {
	f := byte(0x20) | epoch&3
	if len(cid) > 0 {
		f |= 0x10
	}
	if s16 {
		f |= 0x08
	}
	if withLen {
		f |= 0x04
	}
	b := append([]byte{f}, cid...)
	if s16 {
		b = append(b, byte(seq>>8), byte(seq))
	} else {
		b = append(b, byte(seq))
	}
	if withLen {
		b = append(b, byte(len(body)>>8), byte(len(body)))
	}
	return append(b, body...)
}

func catalogue12(cidLen int, th bool) []rec {
	hsFinished := append([]byte{20, 0, 0, 12, 0, 3, 0, 0, 0, 0, 0, 12}, pat(12, 0x30)...)
	rs := []rec{
		{"alert", legacyRecord(21, 0, 1, nil, []byte{2, 40}), false},
		{"ccs", legacyRecord(20, 0, 2, nil, []byte{1}), false},
		{"hs", legacyRecord(22, 0, 3, nil, hsFinished), false},
		{"app1", legacyRecord(23, 1, 0, nil, []byte{0x41}), false},
		{"app300", legacyRecord(23, 1, 1, nil, pat(300, 0)), false},
		// a body that itself looks like a record header must not confuse the splitter
		{"app-nested", legacyRecord(23, 1, 2, nil, legacyRecord(23, 1, 9, nil, []byte{1, 2, 3})), false},
	}
	if cidLen >= 0 {
		cid := pat(cidLen, 0xc1)
		rs = append(rs,
			rec{"cid-a", legacyRecord(25, 1, 3, cid, pat(17, 0x80)), false},
			rec{"cid-b", legacyRecord(25, 1, 4, cid, []byte{0x17}), false})
	}
	if th {
		rs = append(rs, rec{"app-max", legacyRecord(23, 1, 5, nil, pat(0x4000, 7)), false},
			rec{"ack", legacyRecord(26, 0, 6, nil, []byte{0, 0}), false})
	}
	return rs
}

// refUnpack12 is the reference splitter for DTLS 1.2 datagrams: records are laid end to end, each
// 13 (+ CID length for tls12_cid) header bytes followed by exactly `length` bytes; anything else is an error.
// ok=false means "must be rejected"; undecided=true means the reference takes no position (zero-length record).
func refUnpack12(d []byte, cidLen int, cidAware bool) (out [][]byte, ok bool, undecided bool) {
	off := 0
	for off < len(d) {
		h := 13
		if cidAware && d[off] == 25 {
			h += cidLen
		}
		if len(d)-off < h {
			return nil, false, false
		}
		l := beN(d[off+h-2 : off+h])
		if l == 0 {
			undecided = true
		}
		if l > len(d)-off-h {
			return nil, false, false
		}
		out = append(out, d[off:off+h+l])
		off += h + l
	}
	return out, true, undecided
}

func sameSplit(a, b [][]byte) bool {
	if len(a) != len(b) {
		return false
	}
	for i := range a {
		if !bytes.Equal(a[i], b[i]) {
			return false
		}
	}
	return true
}

func renderSplit(rs [][]byte) string {
	s := "["
	for i, r := range rs {
		if i > 0 {
			s += " "
		}
		s += fmt.Sprintf("%dB:%s", len(r), hx(r[:min(len(r), 6)]))
	}
	return s + "]"
}

// garbage12 are trailers that cannot be a record: shorter than a header, or a header whose length runs
// past the end of the datagram.
func garbage12() [][]byte {
	return [][]byte{
		{0x17},
		pat(12, 0x16),
		legacyRecord(23, 1, 7, nil, pat(5, 1))[:16],                  // length 5, 3 bytes present
		legacyRecord(23, 1, 7, nil, nil)[:11],                        // header cut before the length field
		append(legacyRecord(23, 1, 7, nil, nil)[:11], 0xff, 0xff),    // length 65535, nothing present
		append(legacyRecord(22, 0, 7, nil, nil)[:11], 0x00, 0x02, 1), // length 2, 1 byte present
	}
}

type unpackFn func(d []byte) ([][]byte, error)

// checkDatagram is oracle 3 on one datagram.
func (a *acc) checkDatagram(fn string, call unpackFn, d []byte, want [][]byte, wantOK, undecided bool, how string) {
	a.evals++
	var got [][]byte
	var err error
	in := bytes.Clone(d)
	if pan := guard(func() { got, err = call(in) }); pan != "" {
		a.fail("panic:"+fn, fmt.Sprintf("%s panicked (%s) on datagram %s (%s)", fn, pan, hx(d), how))
		return
	}
	if undecided {
		a.counters["datagrams_with_zero_length_record"]++
		return
	}
	switch {
	case wantOK && err != nil:
		a.fail("unpack:"+fn+":valid-datagram-rejected",
			fmt.Sprintf("%s rejected (%v) datagram %s (%s) which is exactly the records %s", fn, err, hx(d), how, renderSplit(want)))
	case !wantOK && err == nil:
		a.fail("unpack:"+fn+":malformed-datagram-accepted",
			fmt.Sprintf("%s accepted datagram %s (%s) as %s although its last record is shorter than a header or declares a length past the end", fn, hx(d), how, renderSplit(got)))
	case wantOK && !sameSplit(got, want):
		a.fail("unpack:"+fn+":wrong-partition",
			fmt.Sprintf("%s split datagram %s (%s) into %s, reference %s", fn, hx(d), how, renderSplit(got), renderSplit(want)))
	}
	if err == nil {
		a.counters["datagrams_accepted"]++
	} else {
		a.counters["datagrams_rejected"]++
	}
}

// forConcats enumerates every sequence of <= 3 catalogue records.
func forConcats(cat []rec, f func(names string, parts []rec)) {
	f("empty", nil)
	for _, r1 := range cat {
		f(r1.name, []rec{r1})
		for _, r2 := range cat {
			f(r1.name+"+"+r2.name, []rec{r1, r2})
			for _, r3 := range cat {
				f(r1.name+"+"+r2.name+"+"+r3.name, []rec{r1, r2, r3})
			}
		}
	}
}

func concat(parts []rec) ([]byte, [][]byte) {
	var d []byte
	var bs [][]byte
	for _, p := range parts {
		d = append(d, p.b...)
		bs = append(bs, p.b)
	}
	return d, bs
}

func unpack12Case(cidAware bool, cidLen int, first rec, cat []rec, th bool) run.Outcome {
	a := newAcc()
	fn := "UnpackDatagram"
	call := unpackFn(recordlayer.UnpackDatagram)
	if cidAware {
		fn = "ContentAwareUnpackDatagram"
		call = func(d []byte) ([][]byte, error) { return recordlayer.ContentAwareUnpackDatagram(d, cidLen) }
	}
	tag := fmt.Sprintf("%s/cid%d", fn, cidLen)
	forConcats(cat, func(names string, parts []rec) {
		if len(parts) == 0 || parts[0].name != first.name {
			if !(len(parts) == 0 && first.name == cat[0].name) {
				return
			}
		}
		d, want := concat(parts)
		if a.fresh(tag, d) {
			// exact partition: the expected split is the catalogue records themselves; the reference
			// splitter (which never saw the boundaries) must agree with that too
			rw, rok, und := refUnpack12(d, cidLen, cidAware)
			if !rok || !sameSplit(rw, want) {
				a.fail("harness:reference-splitter-disagrees-with-construction", fmt.Sprintf("%s: %s", tag, names))
				return
			}
			if want == nil {
				want = [][]byte{}
			}
			a.checkDatagram(fn, call, d, want, true, und, names)
			if a.sample == nil && len(parts) == 3 {
				a.sample = map[string]any{"unpacker": tag, "records": names, "datagram_len": len(d)}
			}
		}
		// trailing garbage
		for gi, g := range garbage12() {
			x := append(bytes.Clone(d), g...)
			if !a.fresh(tag, x) {
				continue
			}
			rw, rok, und := refUnpack12(x, cidLen, cidAware)
			a.checkDatagram(fn, call, x, rw, rok, und, fmt.Sprintf("%s + garbage#%d", names, gi))
			if rok {
				a.counters["garbage_that_parses"]++
			}
		}
		// every truncation inside the last record (quick: of 1- and 2-record datagrams; thorough: all)
		if len(parts) > 0 && (th || len(parts) <= 2) {
			last := parts[len(parts)-1]
			if len(last.b) <= 64 || th && len(last.b) <= 400 {
				for k := len(d) - len(last.b) + 1; k < len(d); k++ {
					x := d[:k]
					if !a.fresh(tag, x) {
						continue
					}
					rw, rok, und := refUnpack12(x, cidLen, cidAware)
					a.checkDatagram(fn, call, x, rw, rok, und, fmt.Sprintf("%s truncated to %d", names, k))
				}
			}
		}
	})
	return a.outcome("held")
}

// ---- DTLS 1.3 ----

type ctx13 struct {
	cidLen      int
	cidRequired bool
	ctHeaders   bool
}

func (c ctx13) String() string {
	return fmt.Sprintf("cid%d-req%v-ct%v", c.cidLen, c.cidRequired, c.ctHeaders)
}

func catalogue13(cidLen int, th bool) []rec {
	hsFinished := append([]byte{20, 0, 0, 12, 0, 3, 0, 0, 0, 0, 0, 12}, pat(12, 0x30)...)
	rs := []rec{
		{"p-alert", legacyRecord(21, 0, 1, nil, []byte{2, 40}), false},
		{"p-hs", legacyRecord(22, 0, 2, nil, hsFinished), false},
		{"p-ack", legacyRecord(26, 0, 3, nil, []byte{0, 0}), false},
		{"c-s16-len", unifiedRecord(nil, true, true, 2, 0x0102, pat(16, 0xe0)), false},
		{"c-s8-len", unifiedRecord(nil, false, true, 3, 7, pat(20, 0xe0)), false},
		{"c-s16-open", unifiedRecord(nil, true, false, 3, 8, pat(16, 0xe0)), true},
		{"c-s8-open", unifiedRecord(nil, false, false, 1, 9, pat(33, 0x20)), true}, // body bytes look like unified headers
	}
	if cidLen > 0 {
		cid := pat(cidLen, 0xc1)
		other := pat(cidLen, 0x51)
		rs = append(rs,
			rec{"cC-s16-len", unifiedRecord(cid, true, true, 3, 0x0a0b, pat(16, 0xe0)), false},
			rec{"cC-s8-len", unifiedRecord(cid, false, true, 3, 1, pat(17, 0xe0)), false},
			rec{"cC-s16-open", unifiedRecord(cid, true, false, 3, 2, pat(16, 0xe0)), true},
			rec{"cD-s16-len", unifiedRecord(other, true, true, 3, 3, pat(16, 0xe0)), false}, // a different association's CID
		)
	}
	return rs
}

func garbage13() [][]byte {
	return [][]byte{
		{0x2c},
		{0x2f, 0x00},
		pat(12, 0x16),
		legacyRecord(22, 0, 7, nil, pat(5, 1))[:16],
		unifiedRecord(nil, true, true, 3, 1, pat(16, 0))[:5+15],            // declared 16, 15 present
		unifiedRecord(nil, true, true, 3, 1, pat(15, 0)),                   // declared 15: below the AEAD minimum
		unifiedRecord(nil, false, false, 3, 1, pat(15, 0)),                 // open record of 15 bytes: below the minimum
		{0x17, 0xfe, 0xfd, 0, 1, 0, 0, 0, 0, 0, 1, 0, 1, 0x41},             // application_data is never plaintext in DTLS 1.3
		{0x40, 0, 0, 0, 0, 0, 0, 0, 0, 0, 0, 0, 0, 0, 0, 0, 0, 0, 0, 0, 0}, // not a content type
	}
}

// refUnpack13 is the reference for RFC 9147 §4 / §4.1 / §9 datagram splitting as the library documents it:
// plaintext records (alert, handshake, ack) are length-delimited; ciphertext records use the unified
// header; a record without a length field extends to the end of the datagram; encrypted_record is
// 16..2^14+256 bytes; the C bit must agree with the negotiated CID (never set without one, always set if
// required); records carrying a CID different from the first ciphertext record's are another
// association's: the rest of the datagram is discarded.
func refUnpack13(d []byte, c ctx13) (out [][]byte, ok bool, undecided bool) {
	off := 0
	var firstCID []byte
	haveFirst := false
	for off < len(d) {
		t := d[off]
		if t == 21 || t == 22 || t == 26 {
			if len(d)-off < 13 {
				return nil, false, undecided
			}
			l := beN(d[off+11 : off+13])
			if l == 0 {
				undecided = true
			}
			if l > len(d)-off-13 {
				return nil, false, undecided
			}
			out = append(out, d[off:off+13+l])
			off += 13 + l
			continue
		}
		if !c.ctHeaders || t>>5 != 1 {
			return nil, false, undecided
		}
		hasC := t&0x10 != 0
		if (c.cidRequired && c.cidLen > 0 && !hasC) || (c.cidLen == 0 && hasC) {
			return nil, false, undecided
		}
		h := refUnified(d[off:], c.cidLen)
		if !h.ok {
			return nil, false, undecided
		}
		bodyLen := len(d) - off - h.size
		if h.l {
			bodyLen = h.length
		}
		if bodyLen < 16 || bodyLen > 1<<14+256 || bodyLen > len(d)-off-h.size {
			return nil, false, undecided
		}
		if c.cidLen > 0 {
			if !haveFirst {
				firstCID, haveFirst = append([]byte{}, h.cid...), true
			} else if !bytes.Equal(firstCID, h.cid) {
				return out, true, undecided
			}
		}
		out = append(out, d[off:off+h.size+bodyLen])
		off += h.size + bodyLen
	}
	return out, true, undecided
}

func unpack13Case(c ctx13, first rec, cat []rec, th bool) run.Outcome {
	a := newAcc()
	fn := "UnpackDatagram13"
	call := func(d []byte) ([][]byte, error) {
		return recordlayer.UnpackDatagram13(d, c.cidLen, c.cidRequired, c.ctHeaders)
	}
	tag := fn + "/" + c.String()
	forConcats(cat, func(names string, parts []rec) {
		if len(parts) == 0 || parts[0].name != first.name {
			if !(len(parts) == 0 && first.name == cat[0].name) {
				return
			}
		}
		d, boundaries := concat(parts)
		rw, rok, und := refUnpack13(d, c)
		if a.fresh(tag, d) {
			// where every record is length-delimited, legal in this context and of one association, the
			// reference must reproduce the construction boundaries (sanity of the reference itself)
			plain := rok
			for _, p := range parts {
				plain = plain && !p.open
			}
			if plain && len(rw) == len(parts) && !sameSplit(rw, boundaries) {
				a.fail("harness:reference-splitter-disagrees-with-construction", fmt.Sprintf("%s: %s", tag, names))
				return
			}
			if rok && rw == nil {
				rw = [][]byte{}
			}
			a.checkDatagram(fn, call, d, rw, rok, und, names)
			if rok && len(rw) == len(parts) && plain {
				a.counters["exact_partitions"]++
			}
			if a.sample == nil && len(parts) == 3 {
				a.sample = map[string]any{"unpacker": tag, "records": names, "datagram_len": len(d), "reference_records": len(rw), "reference_ok": rok}
			}
		}
		for gi, g := range garbage13() {
			x := append(bytes.Clone(d), g...)
			if !a.fresh(tag, x) {
				continue
			}
			rw, rok, und := refUnpack13(x, c)
			a.checkDatagram(fn, call, x, rw, rok, und, fmt.Sprintf("%s + garbage#%d", names, gi))
		}
		if len(parts) > 0 && (th || len(parts) <= 2) {
			last := parts[len(parts)-1]
			for k := len(d) - len(last.b) + 1; k < len(d); k++ {
				x := d[:k]
				if !a.fresh(tag, x) {
					continue
				}
				rw, rok, und := refUnpack13(x, c)
				a.checkDatagram(fn, call, x, rw, rok, und, fmt.Sprintf("%s truncated to %d", names, k))
			}
		}
	})
	return a.outcome("held")
}
