package c18

import (
	"sort"
	"strings"

	"github.com/pion/dtls/v3/internal/ciphersuite/types"
	"github.com/pion/dtls/v3/pkg/crypto/elliptic"
	"github.com/pion/dtls/v3/pkg/protocol"
	"github.com/pion/dtls/v3/pkg/protocol/extension"
	ext12 "github.com/pion/dtls/v3/pkg/protocol/extension/dtls12"
	ext13 "github.com/pion/dtls/v3/pkg/protocol/extension/dtls13"
)

func kxT(k int) types.KeyExchangeAlgorithm { return types.KeyExchangeAlgorithm(k) }

type extPayload interface {
	extension.Value
	extension.PayloadUnmarshaller
}

// extSpec is one extension payload codec: its full bounded grammar (for the payload-level check), a few
// representatives (for the extension-list enumeration inside handshake messages) and the handshake
// contexts in which RFC 8446 §4.2 / RFC 9147 / RFC 9146 / RFC 5764 / RFC 7301 / RFC 7627 / RFC 5746 allow it.
type extSpec struct {
	name string
	typ  extension.Type
	mk   func() extPayload
	sch  node
	vals func(th bool) []value
	few  func(th bool) []extension.Value
	ctxs string // space-separated context names
}

func seqs[T any](alphabet []T, minN, maxN int) [][]T {
	var out [][]T
	var rec func(cur []T)
	rec = func(cur []T) {
		if len(cur) >= minN {
			out = append(out, append([]T(nil), cur...))
		}
		if len(cur) == maxN {
			return
		}
		for _, a := range alphabet {
			rec(append(cur, a))
		}
	}
	rec(nil)
	return out
}

func vOf[T extension.Value](vs []T, must func(T) bool) []value {
	out := make([]value, 0, len(vs))
	for _, v := range vs {
		out = append(out, value{v, must == nil || must(v)})
	}
	return out
}

func one(v extension.Value) func(bool) []value {
	return func(bool) []value { return []value{{v, true}} }
}

func fewOf(vs ...extension.Value) func(bool) []extension.Value {
	return func(bool) []extension.Value { return vs }
}

func maxLen(th bool) int {
	if th {
		return 4
	}
	return 3
}

func extSpecs() []extSpec {
	u16s := func(th bool) []uint16 {
		if th {
			return []uint16{0x0403, 0x0804, 0x0807, 0xffff, 0x0000}
		}
		return []uint16{0x0403, 0x0804, 0x0807, 0xffff}
	}
	groups := func(th bool) []elliptic.Curve {
		if th {
			return []elliptic.Curve{elliptic.X25519, elliptic.P256, elliptic.P384, 0xffff, 0}
		}
		return []elliptic.Curve{elliptic.X25519, elliptic.P256, elliptic.P384, 0xffff}
	}
	names := []string{"a", "h2", "webrtc"}
	mkis := [][]byte{nil, {1}, {1, 2, 3, 4}}
	profiles := []extension.SRTPProtectionProfile{extension.SRTP_AES128_CM_HMAC_SHA1_80, extension.SRTP_AEAD_AES_128_GCM, 0xffff}
	vers := []protocol.Version{protocol.Version1_3, protocol.Version1_2, {Major: 3, Minor: 4}}
	shares := []ext13.KeyShareEntry{{Group: elliptic.X25519, KeyExchange: pat(1, 9)}, {Group: elliptic.X25519, KeyExchange: pat(32, 0x20)},
		{Group: elliptic.P256, KeyExchange: pat(2, 4)}, {Group: 0xffff, KeyExchange: pat(3, 1)}}

	return []extSpec{
		{name: "ServerNameOffer", typ: extension.TypeServerName, ctxs: "CH", sch: schSNIOffer,
			mk: func() extPayload { return &extension.ServerNameOffer{} },
			vals: func(th bool) []value {
				var vs []value
				for _, n := range []string{"a", "x.y", "example.com", "xn--nxasmq6b.example", strings.Repeat("a", 255)} {
					vs = append(vs, value{&extension.ServerNameOffer{ServerName: n}, true})
				}
				for _, n := range []string{"", "a.", "."} { // not host names: Marshal refuses
					vs = append(vs, value{&extension.ServerNameOffer{ServerName: n}, false})
				}
				return vs
			},
			few: fewOf(&extension.ServerNameOffer{ServerName: "a"}, &extension.ServerNameOffer{ServerName: "x.example"})},
		{name: "ServerNameAck", typ: extension.TypeServerName, ctxs: "SH12 EE", sch: schEmpty,
			mk: func() extPayload { return &extension.ServerNameAck{} }, vals: one(&extension.ServerNameAck{}), few: fewOf(&extension.ServerNameAck{})},
		{name: "SupportedGroups", typ: extension.TypeSupportedGroups, ctxs: "CH EE", sch: schU16List,
			mk: func() extPayload { return &extension.SupportedGroups{} },
			vals: func(th bool) []value {
				var vs []value
				for _, g := range seqs(groups(th), 1, maxLen(th)) {
					vs = append(vs, value{&extension.SupportedGroups{Groups: g}, true})
				}
				return append(vs, value{&extension.SupportedGroups{}, false}) // <2..2^16-1>: empty not encodable
			},
			few: fewOf(&extension.SupportedGroups{Groups: []elliptic.Curve{elliptic.X25519}}, &extension.SupportedGroups{Groups: []elliptic.Curve{elliptic.P256, elliptic.X25519}},
				&extension.SupportedGroups{Groups: []elliptic.Curve{elliptic.P256, elliptic.P256}})},
		{name: "SupportedPointFormats", typ: extension.TypeSupportedPointFormats, ctxs: "CH SH12", sch: schU8List,
			mk: func() extPayload { return &ext12.SupportedPointFormats{} },
			vals: func(th bool) []value {
				var vs []value
				for _, f := range seqs([]elliptic.CurvePointFormat{elliptic.CurvePointFormatUncompressed}, 0, 3) {
					vs = append(vs, value{&ext12.SupportedPointFormats{PointFormats: f}, true})
				}
				return vs
			},
			few: fewOf(&ext12.SupportedPointFormats{PointFormats: []elliptic.CurvePointFormat{elliptic.CurvePointFormatUncompressed}}, &ext12.SupportedPointFormats{})},
		{name: "SignatureAlgorithms", typ: extension.TypeSignatureAlgorithms, ctxs: "CH CR", sch: schU16List,
			mk: func() extPayload { return &extension.SignatureAlgorithms{} },
			vals: func(th bool) []value {
				var vs []value
				for _, s := range seqs(u16s(th), 1, maxLen(th)) {
					vs = append(vs, value{&extension.SignatureAlgorithms{Schemes: s}, true})
				}
				return append(vs, value{&extension.SignatureAlgorithms{}, false})
			},
			few: fewOf(&extension.SignatureAlgorithms{Schemes: []uint16{0x0403}}, &extension.SignatureAlgorithms{Schemes: []uint16{0x0804, 0xffff}})},
		{name: "SRTPOffer", typ: extension.TypeUseSRTP, ctxs: "CH", sch: schUseSRTP,
			mk: func() extPayload { return &extension.SRTPOffer{} },
			vals: func(th bool) []value {
				var vs []value
				for _, p := range seqs(profiles, 1, maxLen(th)) {
					for _, m := range mkis {
						vs = append(vs, value{&extension.SRTPOffer{ProtectionProfiles: p, MasterKeyIdentifier: m}, true})
					}
				}
				return append(vs, value{&extension.SRTPOffer{}, false})
			},
			few: fewOf(&extension.SRTPOffer{ProtectionProfiles: profiles[:1]}, &extension.SRTPOffer{ProtectionProfiles: profiles[:2], MasterKeyIdentifier: []byte{9}})},
		{name: "SRTPSelection", typ: extension.TypeUseSRTP, ctxs: "SH12 EE", sch: schUseSRTP,
			mk: func() extPayload { return &extension.SRTPSelection{} },
			vals: func(th bool) []value {
				var vs []value
				for _, p := range append(profiles, 0) {
					for _, m := range mkis {
						vs = append(vs, value{&extension.SRTPSelection{ProtectionProfile: p, MasterKeyIdentifier: m}, true})
					}
				}
				return vs
			},
			few: fewOf(&extension.SRTPSelection{ProtectionProfile: profiles[0]}, &extension.SRTPSelection{ProtectionProfile: profiles[1], MasterKeyIdentifier: []byte{9}})},
		{name: "ALPNOffer", typ: extension.TypeALPN, ctxs: "CH", sch: schALPN,
			mk: func() extPayload { return &extension.ALPNOffer{} },
			vals: func(th bool) []value {
				var vs []value
				al := names
				if th {
					al = append(append([]string(nil), names...), strings.Repeat("z", 255))
				}
				for _, p := range seqs(al, 1, 3) {
					vs = append(vs, value{&extension.ALPNOffer{Protocols: p}, true})
				}
				return append(vs, value{&extension.ALPNOffer{}, false}, value{&extension.ALPNOffer{Protocols: []string{""}}, false})
			},
			few: fewOf(&extension.ALPNOffer{Protocols: []string{"a"}}, &extension.ALPNOffer{Protocols: []string{"h2", "webrtc"}})},
		{name: "ALPNSelection", typ: extension.TypeALPN, ctxs: "SH12 EE", sch: schALPN,
			mk: func() extPayload { return &extension.ALPNSelection{} },
			vals: func(th bool) []value {
				var vs []value
				for _, n := range append(names, strings.Repeat("z", 255)) {
					vs = append(vs, value{&extension.ALPNSelection{Protocol: n}, true})
				}
				return append(vs, value{&extension.ALPNSelection{}, false})
			},
			few: fewOf(&extension.ALPNSelection{Protocol: "a"}, &extension.ALPNSelection{Protocol: "webrtc"})},
		{name: "ExtendedMasterSecret", typ: extension.TypeExtendedMasterSecret, ctxs: "CH SH12", sch: schEmpty,
			mk: func() extPayload { return &ext12.ExtendedMasterSecret{} }, vals: one(&ext12.ExtendedMasterSecret{}), few: fewOf(&ext12.ExtendedMasterSecret{})},
		{name: "OfferedPSKs", typ: extension.TypePreSharedKey, ctxs: "CH", sch: schOfferedPSKs,
			mk: func() extPayload { return &ext13.OfferedPSKs{} },
			vals: func(th bool) []value {
				ids := []ext13.PSKIdentity{{Identity: []byte("a"), ObfuscatedTicketAge: 0}, {Identity: []byte("xyz"), ObfuscatedTicketAge: 0xffffffff}}
				bs := []ext13.PSKBinder{pat(32, 1), pat(33, 0xf0)}
				if th {
					ids = append(ids, ext13.PSKIdentity{Identity: pat(40, 3), ObfuscatedTicketAge: 0x01020304})
					bs = append(bs, pat(255, 0))
				}
				var vs []value
				for _, il := range seqs(ids, 1, 2) {
					for _, bl := range seqs(bs, 1, 2) {
						vs = append(vs, value{&ext13.OfferedPSKs{Identities: il, Binders: bl}, len(il) == len(bl)})
					}
				}
				// binder shorter than Hash.length minimum (32) and empty lists are outside the grammar
				vs = append(vs, value{&ext13.OfferedPSKs{Identities: ids[:1], Binders: []ext13.PSKBinder{pat(31, 1)}}, false}, value{&ext13.OfferedPSKs{}, false})
				return vs
			},
			few: fewOf(&ext13.OfferedPSKs{Identities: []ext13.PSKIdentity{{Identity: []byte("a"), ObfuscatedTicketAge: 7}}, Binders: []ext13.PSKBinder{pat(32, 1)}})},
		{name: "SelectedPSK", typ: extension.TypePreSharedKey, ctxs: "SH13", sch: schFixed2,
			mk: func() extPayload { return &ext13.SelectedPSK{} },
			vals: func(th bool) []value {
				return vOf([]*ext13.SelectedPSK{{Identity: 0}, {Identity: 1}, {Identity: 0x0100}, {Identity: 0xffff}}, nil)
			},
			few: fewOf(&ext13.SelectedPSK{Identity: 0}, &ext13.SelectedPSK{Identity: 0xffff})},
		{name: "EarlyData", typ: extension.TypeEarlyData, ctxs: "CH EE", sch: schEmpty,
			mk: func() extPayload { return &ext13.EarlyData{} }, vals: one(&ext13.EarlyData{}), few: fewOf(&ext13.EarlyData{})},
		{name: "MaxEarlyData", typ: extension.TypeEarlyData, ctxs: "NST", sch: schFixed4,
			mk: func() extPayload { return &ext13.MaxEarlyData{} },
			vals: func(th bool) []value {
				return vOf([]*ext13.MaxEarlyData{{Size: 0}, {Size: 1}, {Size: 0x01020304}, {Size: 0xffffffff}}, nil)
			},
			few: fewOf(&ext13.MaxEarlyData{Size: 0}, &ext13.MaxEarlyData{Size: 0xffffffff}, &ext13.MaxEarlyData{Size: 0x01020304})},
		{name: "OfferedVersions", typ: extension.TypeSupportedVersions, ctxs: "CH", sch: schU8List,
			mk: func() extPayload { return &ext13.OfferedVersions{} },
			vals: func(th bool) []value {
				var vs []value
				for _, l := range seqs(vers, 1, maxLen(th)) {
					vs = append(vs, value{&ext13.OfferedVersions{Versions: l}, true})
				}
				return append(vs, value{&ext13.OfferedVersions{}, false})
			},
			few: fewOf(&ext13.OfferedVersions{Versions: []protocol.Version{protocol.Version1_2}}, &ext13.OfferedVersions{Versions: []protocol.Version{protocol.Version1_3, protocol.Version1_2}})},
		{name: "SelectedVersion", typ: extension.TypeSupportedVersions, ctxs: "SH13 HRR", sch: schFixed2,
			mk: func() extPayload { return &ext13.SelectedVersion{} },
			vals: func(th bool) []value {
				return vOf([]*ext13.SelectedVersion{{Version: protocol.Version1_3}, {Version: protocol.Version1_2}, {Version: protocol.Version{}}, {Version: protocol.Version{Major: 0xff, Minor: 0xff}}}, nil)
			},
			few: fewOf(&ext13.SelectedVersion{Version: protocol.Version1_3}, &ext13.SelectedVersion{Version: protocol.Version1_2})},
		{name: "Cookie", typ: extension.TypeCookie, ctxs: "CH HRR", sch: schCookieExt,
			mk: func() extPayload { return &ext13.Cookie{} },
			vals: func(th bool) []value {
				var vs []value
				for _, l := range byteLens(th, []int{1, 2, 32}, 255, 256) {
					for _, st := range []byte{0, 1, 0xf0} {
						vs = append(vs, value{&ext13.Cookie{Cookie: pat(l, st)}, true})
					}
				}
				return append(vs, value{&ext13.Cookie{}, false})
			},
			few: fewOf(&ext13.Cookie{Cookie: []byte{0xcc}}, &ext13.Cookie{Cookie: pat(5, 1)})},
		{name: "PSKKeyExchangeModes", typ: extension.TypePSKKeyExchangeModes, ctxs: "CH", sch: schU8List,
			mk: func() extPayload { return &ext13.PSKKeyExchangeModes{} },
			vals: func(th bool) []value {
				var vs []value
				for _, l := range seqs([]ext13.PSKKeyExchangeMode{ext13.PSKKE, ext13.PSKDHEKE, 255}, 1, maxLen(th)) {
					vs = append(vs, value{&ext13.PSKKeyExchangeModes{Modes: l}, true})
				}
				return append(vs, value{&ext13.PSKKeyExchangeModes{}, false})
			},
			few: fewOf(&ext13.PSKKeyExchangeModes{Modes: []ext13.PSKKeyExchangeMode{ext13.PSKDHEKE}}, &ext13.PSKKeyExchangeModes{Modes: []ext13.PSKKeyExchangeMode{ext13.PSKKE, ext13.PSKDHEKE}})},
		{name: "CertificateAuthorities", typ: extension.TypeCertificateAuthorities, ctxs: "CH CR", sch: schCertAuth,
			mk: func() extPayload { return &ext13.CertificateAuthorities{} },
			vals: func(th bool) []value {
				var vs []value
				al := [][]byte{{0x30}, pat(3, 1)}
				if th {
					al = append(al, pat(40, 9))
				}
				for _, l := range seqs(al, 1, 3) {
					vs = append(vs, value{&ext13.CertificateAuthorities{Authorities: l}, true})
				}
				return append(vs, value{&ext13.CertificateAuthorities{}, false}, value{&ext13.CertificateAuthorities{Authorities: [][]byte{{}}}, false})
			},
			few: fewOf(&ext13.CertificateAuthorities{Authorities: [][]byte{{0x30}}}, &ext13.CertificateAuthorities{Authorities: [][]byte{pat(3, 1), {0x30}}})},
		{name: "OIDFilters", typ: extension.TypeOIDFilters, ctxs: "CR", sch: schOIDFilters,
			mk: func() extPayload { return &ext13.OIDFilters{} },
			vals: func(th bool) []value {
				fs := []ext13.OIDFilter{{OID: []byte{1}}, {OID: []byte{2, 3}, Values: []byte{9}}, {OID: []byte{0x55, 0x1d, 0x25}, Values: pat(4, 0x30)}}
				var vs []value
				for _, l := range seqs(fs, 0, 3) {
					dup := false
					for i := range l {
						for j := 0; j < i; j++ {
							dup = dup || string(l[i].OID) == string(l[j].OID)
						}
					}
					vs = append(vs, value{&ext13.OIDFilters{Filters: l}, !dup})
				}
				return append(vs, value{&ext13.OIDFilters{Filters: []ext13.OIDFilter{{}}}, false})
			},
			few: fewOf(&ext13.OIDFilters{}, &ext13.OIDFilters{Filters: []ext13.OIDFilter{{OID: []byte{2, 3}, Values: []byte{9}}}})},
		{name: "PostHandshakeAuth", typ: extension.TypePostHandshakeAuth, ctxs: "CH", sch: schEmpty,
			mk: func() extPayload { return &ext13.PostHandshakeAuth{} }, vals: one(&ext13.PostHandshakeAuth{}), few: fewOf(&ext13.PostHandshakeAuth{})},
		{name: "CertificateSignatureAlgorithms", typ: extension.TypeSignatureAlgorithmsCert, ctxs: "CH CR", sch: schU16List,
			mk: func() extPayload { return &extension.CertificateSignatureAlgorithms{} },
			vals: func(th bool) []value {
				var vs []value
				for _, s := range seqs(u16s(th), 1, maxLen(th)) {
					vs = append(vs, value{&extension.CertificateSignatureAlgorithms{Schemes: s}, true})
				}
				return append(vs, value{&extension.CertificateSignatureAlgorithms{}, false})
			},
			few: fewOf(&extension.CertificateSignatureAlgorithms{Schemes: []uint16{0x0403, 0x0807}})},
		{name: "ClientKeyShare", typ: extension.TypeKeyShare, ctxs: "CH", sch: schClientKeyShare,
			mk: func() extPayload { return &ext13.ClientKeyShare{} },
			vals: func(th bool) []value {
				var vs []value
				for _, l := range seqs(shares, 0, 3) {
					dup := false
					for i := range l {
						for j := 0; j < i; j++ {
							dup = dup || l[i].Group == l[j].Group
						}
					}
					vs = append(vs, value{&ext13.ClientKeyShare{Shares: l}, !dup})
				}
				return append(vs, value{&ext13.ClientKeyShare{Shares: []ext13.KeyShareEntry{{Group: elliptic.X25519}}}, false})
			},
			few: fewOf(&ext13.ClientKeyShare{}, &ext13.ClientKeyShare{Shares: shares[:1]}, &ext13.ClientKeyShare{Shares: []ext13.KeyShareEntry{shares[0], shares[2]}})},
		{name: "ServerKeyShare", typ: extension.TypeKeyShare, ctxs: "SH13", sch: schServerKeyShare,
			mk: func() extPayload { return &ext13.ServerKeyShare{} },
			vals: func(th bool) []value {
				var vs []value
				for _, s := range shares {
					vs = append(vs, value{&ext13.ServerKeyShare{Share: s}, true})
				}
				return append(vs, value{&ext13.ServerKeyShare{}, false})
			},
			few: fewOf(&ext13.ServerKeyShare{Share: shares[0]}, &ext13.ServerKeyShare{Share: shares[2]})},
		{name: "RetryKeyShare", typ: extension.TypeKeyShare, ctxs: "HRR", sch: schFixed2,
			mk: func() extPayload { return &ext13.RetryKeyShare{} },
			vals: func(th bool) []value {
				return vOf([]*ext13.RetryKeyShare{{SelectedGroup: elliptic.X25519}, {SelectedGroup: elliptic.P256}, {SelectedGroup: 0}, {SelectedGroup: 0xffff}}, nil)
			},
			few: fewOf(&ext13.RetryKeyShare{SelectedGroup: elliptic.P256}, &ext13.RetryKeyShare{SelectedGroup: 0xffff})},
		{name: "ConnectionID", typ: extension.TypeConnectionID, ctxs: "CH SH12 SH13", sch: schConnectionID,
			mk: func() extPayload { return &extension.ConnectionID{} },
			vals: func(th bool) []value {
				var vs []value
				for _, l := range byteLens(th, []int{0, 1, 4, 8}, 2, 254, 255) {
					for _, st := range []byte{0, 1, 0xc1} {
						vs = append(vs, value{&extension.ConnectionID{CID: pat(l, st)}, true})
					}
				}
				return vs
			},
			few: fewOf(&extension.ConnectionID{}, &extension.ConnectionID{CID: []byte{7}}, &extension.ConnectionID{CID: pat(4, 0xc1)})},
		{name: "ReturnRoutabilityCheck", typ: extension.TypeReturnRoutabilityCheck, ctxs: "CH SH12 SH13", sch: schEmpty,
			mk: func() extPayload { return &extension.ReturnRoutabilityCheck{} }, vals: one(&extension.ReturnRoutabilityCheck{}), few: fewOf(&extension.ReturnRoutabilityCheck{})},
		{name: "RenegotiationInfo", typ: extension.TypeRenegotiationInfo, ctxs: "CH SH12", sch: schRenegotiation,
			mk: func() extPayload { return &ext12.RenegotiationInfo{} },
			vals: func(th bool) []value {
				var vs []value
				for i := 0; i < 256; i++ {
					vs = append(vs, value{&ext12.RenegotiationInfo{RenegotiatedConnection: uint8(i)}, true})
				}
				return vs
			},
			few: fewOf(&ext12.RenegotiationInfo{}, &ext12.RenegotiationInfo{RenegotiatedConnection: 1})},
		{name: "Raw", typ: 0xff00, ctxs: "", sch: seqN{restN{}},
			mk: func() extPayload { return &extension.Raw{Type: 0xff00} },
			vals: func(th bool) []value {
				var vs []value
				for _, l := range byteLens(th, []int{0, 1, 3, 16}, 255, 256) {
					vs = append(vs, value{&extension.Raw{Type: 0xff00, Data: pat(l, 0xd0)}, true})
				}
				return vs
			}},
	}
}

func extCodec(s extSpec) *codec {
	return &codec{name: "extension." + s.name,
		dec: func(b []byte) (any, error) { v := s.mk(); return v, v.UnmarshalData(b) },
		enc: func(v any) ([]byte, error) { return v.(extension.Value).MarshalData() },
		ref: refOf(s.sch)}
}

// rawListCodec is extension.ParseList / MarshalRawList (framing only).
func rawListCodec() *codec {
	return &codec{name: "extension.ParseList",
		dec: func(b []byte) (any, error) { return extension.ParseList(b) },
		enc: func(v any) ([]byte, error) {
			switch l := v.(type) {
			case []extension.Raw:
				return extension.MarshalRawList(l)
			}
			return nil, nil
		},
		ref: refOf(seqN{extBlock("extensions")})}
}

func rawListValues(th bool) []value {
	raws := []extension.Raw{{Type: 0, Data: nil}, {Type: 0xffff, Data: []byte{1}}, {Type: 54, Data: []byte{2, 0xaa, 0xbb}}, {Type: 0x0100, Data: pat(5, 0)}}
	var vs []value
	for _, l := range seqs(raws, 0, maxLen(th)) { // duplicates and any order are framing-legal
		vs = append(vs, value{l, true})
	}
	return vs
}

// ---- extension lists inside handshake messages ----

type extList struct {
	list   []extension.Value
	valid  bool   // the list satisfies the RFC rules for its context, so the message must decode
	bucket string // case bucket
}

// rawUnknown are extension types pion has no codec for: they must be preserved verbatim.
func rawUnknown() []extension.Value {
	return []extension.Value{extension.Raw{Type: 0xff00, Data: nil}, extension.Raw{Type: 0x1234, Data: []byte{1, 2, 3}}}
}

type extAlt struct {
	spec     string
	typ      extension.Type
	variants []extension.Value
}

func altsFor(ctx string, th bool) []extAlt {
	var alts []extAlt
	for _, s := range extSpecs() {
		ok := false
		for _, c := range strings.Fields(s.ctxs) {
			ok = ok || c == ctx
		}
		if ok {
			alts = append(alts, extAlt{s.name, s.typ, s.few(th)})
		}
	}
	alts = append(alts, extAlt{"Raw-ff00", 0xff00, rawUnknown()[:1]}, extAlt{"Raw-1234", 0x1234, rawUnknown()[1:]})
	// pre_shared_key must be the last extension of a ClientHello: keep it last in catalogue order
	sort.SliceStable(alts, func(i, j int) bool {
		return alts[i].typ != extension.TypePreSharedKey && alts[j].typ == extension.TypePreSharedKey
	})
	return alts
}

// subsets enumerates every subset of <= maxN extension types in catalogue order; for subsets of size
// <= fullUpTo every combination of payload variants, for larger ones the first variant of each.
func subsets(alts []extAlt, maxN, fullUpTo int, emit func(types []extAlt, list []extension.Value)) {
	var rec func(start int, chosen []extAlt)
	expand := func(chosen []extAlt) {
		if len(chosen) > fullUpTo {
			l := make([]extension.Value, len(chosen))
			for i, c := range chosen {
				l[i] = c.variants[0]
			}
			emit(chosen, l)
			return
		}
		var ex func(i int, cur []extension.Value)
		ex = func(i int, cur []extension.Value) {
			if i == len(chosen) {
				emit(chosen, append([]extension.Value(nil), cur...))
				return
			}
			for _, v := range chosen[i].variants {
				ex(i+1, append(cur, v))
			}
		}
		ex(0, nil)
	}
	rec = func(start int, chosen []extAlt) {
		expand(chosen)
		if len(chosen) == maxN {
			return
		}
		for i := start; i < len(alts); i++ {
			rec(i+1, append(chosen, alts[i]))
		}
	}
	rec(0, nil)
}

func has(list []extension.Value, t extension.Type) extension.Value {
	for _, v := range list {
		if v.ExtensionType() == t {
			return v
		}
	}
	return nil
}

func uniqueGroups(list []extension.Value) bool {
	g, _ := has(list, extension.TypeSupportedGroups).(*extension.SupportedGroups)
	if g == nil {
		return true
	}
	seen := map[elliptic.Curve]bool{}
	for _, c := range g.Groups {
		if seen[c] {
			return false
		}
		seen[c] = true
	}
	return true
}

// chValid is this harness's reading of the ClientHello extension rules (RFC 8446 §4.2, §4.2.8, §4.2.9,
// §4.2.10, §4.2.11, §9.2; RFC 9853 §3): which enumerated lists a conforming decoder has to accept.
func chValid(list []extension.Value) bool {
	if !uniqueGroups(list) {
		return false
	}
	for i, v := range list {
		if v.ExtensionType() == extension.TypePreSharedKey && i != len(list)-1 {
			return false
		}
	}
	psk := has(list, extension.TypePreSharedKey) != nil
	if psk && has(list, extension.TypePSKKeyExchangeModes) == nil {
		return false
	}
	if has(list, extension.TypeEarlyData) != nil && !psk {
		return false
	}
	if has(list, extension.TypeReturnRoutabilityCheck) != nil && has(list, extension.TypeConnectionID) == nil {
		return false
	}
	groups, _ := has(list, extension.TypeSupportedGroups).(*extension.SupportedGroups)
	ks, _ := has(list, extension.TypeKeyShare).(*ext13.ClientKeyShare)
	if sv, _ := has(list, extension.TypeSupportedVersions).(*ext13.OfferedVersions); sv != nil {
		is13 := false
		for _, v := range sv.Versions {
			is13 = is13 || v == protocol.Version1_3
		}
		if is13 {
			if (groups == nil) != (ks == nil) {
				return false
			}
			if !psk && !(has(list, extension.TypeSignatureAlgorithms) != nil && groups != nil) {
				return false
			}
		}
	}
	if ks != nil && groups != nil {
		// key shares must appear in the client's supported_groups preference order
		next := 0
		for _, s := range ks.Shares {
			found := false
			for next < len(groups.Groups) {
				g := groups.Groups[next]
				next++
				if g == s.Group {
					found = true
					break
				}
			}
			if !found {
				return false
			}
		}
	}
	return true
}

func bucketOf(types []extAlt) string {
	if len(types) == 0 {
		return "none"
	}
	return types[0].spec
}

func reversed(l []extension.Value) []extension.Value {
	r := make([]extension.Value, len(l))
	for i, v := range l {
		r[len(l)-1-i] = v
	}
	return r
}

func chExtLists(maxN int, bucketed bool, th bool) []extList {
	var out []extList
	full := 2
	if th || maxN <= 2 {
		full = maxN
	}
	subsets(altsFor("CH", th), maxN, full, func(ts []extAlt, l []extension.Value) {
		out = append(out, extList{l, chValid(l), bucketOf(ts)})
		if th && len(l) >= 2 {
			r := reversed(l)
			out = append(out, extList{r, chValid(r), bucketOf(ts)})
		}
	})
	return out
}

func shExtLists(ctx string, maxN int, th bool) []extList {
	var out []extList
	full := 2
	if th {
		full = maxN
	}
	subsets(altsFor(ctx, th), maxN, full, func(ts []extAlt, l []extension.Value) {
		valid := true
		if ctx == "HRR" {
			valid = has(l, extension.TypeSupportedVersions) != nil // RFC 8446 §4.1.4
		}
		out = append(out, extList{l, valid, bucketOf(ts)})
		if th && len(l) >= 2 {
			out = append(out, extList{reversed(l), valid, bucketOf(ts)})
		}
	})
	// an extension that belongs to the other ServerHello flavour is not acceptable
	switch ctx {
	case "SH12":
		out = append(out, extList{[]extension.Value{&ext12.ExtendedMasterSecret{}, &ext13.SelectedVersion{Version: protocol.Version1_3}}, false, "cross"})
	case "SH13":
		out = append(out, extList{[]extension.Value{&ext13.SelectedVersion{Version: protocol.Version1_3}, &extension.ALPNSelection{Protocol: "a"}}, false, "cross"})
	case "HRR":
		out = append(out, extList{[]extension.Value{&ext13.SelectedVersion{Version: protocol.Version1_3}, &extension.ConnectionID{}}, false, "cross"})
	}
	return out
}

func ctxExtLists(ctx string, maxN int, th bool) []extList {
	var out []extList
	subsets(altsFor(ctx, th), maxN, maxN, func(ts []extAlt, l []extension.Value) {
		valid := uniqueGroups(l)
		if ctx == "CR" {
			valid = has(l, extension.TypeSignatureAlgorithms) != nil // RFC 8446 §4.3.2
		}
		out = append(out, extList{l, valid, bucketOf(ts)})
		if th && len(l) >= 2 {
			out = append(out, extList{reversed(l), valid, bucketOf(ts)})
		}
	})
	return out
}
