package c18

import (
	"bytes"
	"fmt"

	"github.com/pion/dtls/v3/internal/negotiation"
	"github.com/pion/dtls/v3/pkg/protocol/extension"
	"github.com/pion/dtls/v3/pkg/protocol/handshake"
	"github.com/pion/dtls/v3/zzverif/run"
)

// ---- wire seeds: encodings built by the harness (TLS presentation language written out by hand) for
// shapes that pion's own Marshal never emits but a peer may send: unknown enumeration members, vectors
// whose length is not a multiple of the element size, absent optional blocks. ----

type wireGroup struct {
	id    string
	codec *codec
	wire  func() [][]byte
}

func w8(b []byte) []byte  { return append([]byte{byte(len(b))}, b...) }
func w16(b []byte) []byte { return append([]byte{byte(len(b) >> 8), byte(len(b))}, b...) }
func w24(b []byte) []byte {
	return append([]byte{byte(len(b) >> 16), byte(len(b) >> 8), byte(len(b))}, b...)
}
func cat(parts ...[]byte) []byte {
	var out []byte
	for _, p := range parts {
		out = append(out, p...)
	}
	return out
}

// IANA TLS SignatureScheme values (and a few unassigned ones).
var wireSchemes = [][]byte{{0x04, 0x03}, {0x05, 0x03}, {0x06, 0x03}, {0x08, 0x07}, {0x08, 0x08}, {0x04, 0x01}, {0x05, 0x01}, {0x06, 0x01},
	{0x08, 0x04}, {0x08, 0x05}, {0x08, 0x06}, {0x08, 0x09}, {0x08, 0x0a}, {0x08, 0x0b}, {0x02, 0x01}, {0x02, 0x03}, {0x03, 0x01}, {0x01, 0x01},
	{0x00, 0x00}, {0x04, 0x00}, {0x00, 0x01}, {0xff, 0xff}, {0x08, 0x1a}}

func runWire(c *codec, seeds [][]byte) run.Outcome {
	a := newAcc()
	for _, s := range seeds {
		a.mutate(c, s, 0)
		if a.sample == nil {
			a.sample = map[string]any{"codec": c.label(), "wire_seed": hx(s)}
		}
	}
	return a.outcome("held")
}

func wireSeedGroups(th bool) []wireGroup {
	var gs []wireGroup
	msg := func(name, ctx string, mk func() handshake.Message, sch node) *codec {
		return msgCodec(name, ctx, mk, sch)
	}

	gs = append(gs, wireGroup{"wire/CertificateVerify", msg("MessageCertificateVerify", "", func() handshake.Message { return &handshake.MessageCertificateVerify{} }, schCertificateVerify),
		func() [][]byte {
			var out [][]byte
			for _, s := range wireSchemes {
				for _, l := range []int{0, 1, 64} {
					out = append(out, cat(s, w16(pat(l, 0x90))))
				}
			}
			return out
		}})

	gs = append(gs, wireGroup{"wire/ServerKeyExchange/ecdhe", msg("MessageServerKeyExchange", "ecdhe",
		func() handshake.Message {
			return &handshake.MessageServerKeyExchange{KeyExchangeAlgorithm: kxT(kxEcdhe)}
		}, schSKEEcdhe),
		func() [][]byte {
			var out [][]byte
			for _, curve := range [][]byte{{0x00, 0x1d}, {0x00, 0x17}, {0x11, 0xec}, {0x00, 0x19}, {0xff, 0xff}} {
				for _, ct := range []byte{3, 1, 2} {
					for _, s := range wireSchemes {
						out = append(out, cat([]byte{ct}, curve, w8(pat(4, 0x20)), s, w16(pat(3, 0x90))))
					}
					out = append(out, cat([]byte{ct}, curve, w8(pat(4, 0x20))))
					out = append(out, cat([]byte{ct}, curve, w8(nil)))
				}
			}
			return out
		}})

	gs = append(gs, wireGroup{"wire/CertificateRequest", msg("MessageCertificateRequest", "", func() handshake.Message { return &handshake.MessageCertificateRequest{} }, schCertificateRequest),
		func() [][]byte {
			typeVecs := [][]byte{{}, {1}, {64, 1}, {1, 7, 64}, {0, 0xff}}
			algVecs := [][]byte{{}, {4, 3}, {4, 3, 5}, {4, 3, 5, 3}, {0xff, 0xff, 4, 3}, {4}, {4, 3, 4}, {8, 4, 8, 7}, {4, 3, 0}, {0, 0, 4, 1}}
			caVecs := [][]byte{{}, w16([]byte{0x30}), cat(w16([]byte{0x30}), w16(pat(3, 1))), w16(nil), {0}, {0, 1}}
			if th {
				algVecs = append(algVecs, []byte{4, 3, 5, 3, 6}, []byte{2, 1, 2}, []byte{6, 1, 4, 3, 4})
			}
			var out [][]byte
			for _, t := range typeVecs {
				for _, a := range algVecs {
					for _, c := range caVecs {
						out = append(out, cat(w8(t), w16(a), w16(c)))
					}
				}
			}
			return out
		}})

	gs = append(gs, wireGroup{"wire/ClientHello", msg("MessageClientHello", "", func() handshake.Message { return &handshake.MessageClientHello{} }, schClientHello),
		func() [][]byte {
			head := cat([]byte{0xfe, 0xfd}, pat(32, 1))
			suiteVecs := [][]byte{{}, {0xc0, 0x2b}, {0xc0}, {0xc0, 0x2b, 0x13}, {0xc0, 0x2b, 0x13, 0x01, 0x00}}
			compVecs := [][]byte{{}, {0}, {1}, {0, 1}, {1, 0, 0x40}}
			extBlocks := [][]byte{nil, w16(nil), w16(cat([]byte{0, 23}, w16(nil))), w16(cat([]byte{0xff, 0x00}, w16([]byte{1, 2}), []byte{0, 23}, w16(nil))),
				w16(cat([]byte{0, 23}, w16(nil), []byte{0, 23}, w16(nil)))}
			var out [][]byte
			for _, sid := range [][]byte{nil, pat(2, 0x51)} {
				for _, ck := range [][]byte{nil, pat(3, 0xc0)} {
					for _, su := range suiteVecs {
						for _, cm := range compVecs {
							for _, ex := range extBlocks {
								out = append(out, cat(head, w8(sid), w8(ck), w16(su), w8(cm), ex))
							}
						}
					}
				}
			}
			return out
		}})

	gs = append(gs, wireGroup{"wire/ServerHello", msg("MessageServerHello", "", func() handshake.Message { return &handshake.MessageServerHello{} }, schServerHello),
		func() [][]byte {
			var out [][]byte
			extBlocks := [][]byte{nil, w16(nil), w16(cat([]byte{0, 23}, w16(nil))), w16(cat([]byte{0, 43}, w16([]byte{0xfe, 0xfc}))),
				w16(cat([]byte{0, 43}, w16([]byte{0xfe, 0xfc}), []byte{0, 51}, w16(cat([]byte{0, 0x1d}, w16(pat(4, 1)))))),
				w16(cat([]byte{0, 23}, w16(nil), []byte{0, 43}, w16([]byte{0xfe, 0xfc})))}
			for _, rnd := range [][]byte{pat(32, 1), handshake.HelloRetryRequestRandom()} {
				for _, sid := range [][]byte{nil, pat(2, 0x51)} {
					for _, comp := range []byte{0, 1} {
						for _, ex := range extBlocks {
							out = append(out, cat([]byte{0xfe, 0xfd}, rnd, w8(sid), []byte{0xc0, 0x2b, comp}, ex))
						}
					}
				}
			}
			return out
		}})

	sni := extSpecs()[0]
	gs = append(gs, wireGroup{"wire/ext/ServerNameOffer", extCodec(sni), func() [][]byte {
		name := func(t byte, n string) []byte { return cat([]byte{t}, w16([]byte(n))) }
		return [][]byte{
			w16(name(0, "a")), w16(cat(name(1, "zz"), name(0, "a"))), w16(cat(name(0, "a"), name(7, "q"))), w16(cat(name(0, "a"), name(0, "b"))),
			w16(name(1, "zz")), w16(name(0, "a.")), w16(nil), w16(name(0, "")),
		}
	}})

	for _, s := range extSpecs() {
		if s.name != "SupportedPointFormats" && s.name != "PSKKeyExchangeModes" && s.name != "OfferedVersions" {
			continue
		}
		s := s
		gs = append(gs, wireGroup{"wire/ext/" + s.name, extCodec(s), func() [][]byte {
			return [][]byte{w8(nil), w8([]byte{0}), w8([]byte{1}), w8([]byte{0, 1, 2}), w8([]byte{0xfe, 0xfc}), w8([]byte{0xfe, 0xfc, 0xfe}), w8([]byte{0xfe, 0xfc, 0xfe, 0xfd})}
		}})
	}
	return gs
}

// ---- internal/negotiation: hooked hellos are canonicalised by encode-decode before use ----

// finalizeCases checks FinalizeClientHello (the canonicalisation every ClientHello goes through before it
// is sent, including after a user hook) on every enumerated extension subset: the canonical message must
// re-encode to the same bytes as the base message, and the ClientHelloSnapshot's view of each extension
// (a second, independent pion parser of the ClientHello body) must equal the harness's own parse.
func finalizeCases(th bool) []run.Case {
	var cs []run.Case
	for _, g := range clientHelloGroups(th) {
		if len(g.id) < len("msg/ClientHello/ext/") || g.id[:len("msg/ClientHello/ext/")] != "msg/ClientHello/ext/" {
			continue
		}
		g := g
		cs = append(cs, run.Case{ID: "finalize/" + g.id[len("msg/"):], Run: func(*testingT) run.Outcome {
			a := newAcc()
			for _, val := range g.vals() {
				ch := val.v.(*handshake.MessageClientHello)
				a.evals++
				want, err := ch.Marshal()
				if err != nil {
					continue
				}
				want = bytes.Clone(want)
				if !a.fresh("finalize", want) {
					continue
				}
				var canon *handshake.MessageClientHello
				var snap negotiation.ClientHelloSnapshot
				var ferr error
				if pan := guard(func() { canon, snap, ferr = negotiation.FinalizeClientHello(ch, nil) }); pan != "" {
					a.fail("panic:negotiation.FinalizeClientHello", fmt.Sprintf("FinalizeClientHello panicked (%s) on %s", pan, hx(want)))
					continue
				}
				if ferr != nil {
					if val.must {
						a.fail("finalize:ClientHello:valid-hello-rejected", fmt.Sprintf("FinalizeClientHello rejected %s: %v", hx(want), ferr))
					}
					continue
				}
				got, err := canon.Marshal()
				if err != nil || !bytes.Equal(got, want) {
					a.fail("finalize:ClientHello:canonical-form-differs", fmt.Sprintf("FinalizeClientHello(%s) re-encodes to %s (err=%v)", hx(want), hx(got), err))
					continue
				}
				// reference view of the extension block
				off := extOffsetOf(schClientHello, want)
				blk := want[off+2:]
				seen := map[extension.Type]bool{}
				for len(blk) >= 4 {
					typ := extension.Type(beN(blk[:2]))
					l := beN(blk[2:4])
					data := blk[4 : 4+l]
					blk = blk[4+l:]
					if seen[typ] {
						continue
					}
					seen[typ] = true
					raw, ok := snap.Extension(typ)
					if !ok || !bytes.Equal(raw.Data, data) || !snap.Offered(typ) {
						a.fail("finalize:ClientHello:snapshot-extension-differs",
							fmt.Sprintf("snapshot of %s: extension %d = (%v, %s), reference %s", hx(want), typ, ok, hx(raw.Data), hx(data)))
					}
				}
				if snap.Offered(0xfffe) {
					a.fail("finalize:ClientHello:snapshot-phantom-extension", fmt.Sprintf("snapshot of %s reports extension 0xfffe", hx(want)))
				}
				if a.sample == nil {
					a.sample = map[string]any{"codec": "negotiation.FinalizeClientHello", "wire": hx(want)}
				}
			}
			return a.outcome("held")
		}})
	}
	return cs
}
