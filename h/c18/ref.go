package c18

// Independent reference for the *framing* of the DTLS wire formats: a tiny TLS-presentation-language
// schema (fixed fields, length-prefixed vectors, lists, optional tails) and a parser that only answers
// the questions property C18 asks about declared lengths:
//
//   - does a declared length (or a fixed-size field) run past the end of its container?  (overrun)
//   - how many bytes does the message occupy according to its own declared lengths?       (consumed)
//   - which length-prefixed vectors does it contain and what length does each declare?    (vecs)
//
// Nothing here calls into pion.

import (
	"fmt"
)

// pvec is one length-prefixed vector found by the reference parser.
type pvec struct {
	name     string
	declared int
	kids     []*pvec
}

// refRes is the reference parser's verdict on one byte string.
type refRes struct {
	overrun  string // name of the field whose fixed size / declared length runs past its container ("" = none)
	slack    bool   // some container had bytes left after its last element
	consumed int    // bytes covered by the top-level structure
	vecs     []*pvec
}

type refFn func(b []byte) refRes

type parser struct {
	overrun string
	slack   bool
}

type node interface {
	parse(p *parser, b []byte, into *[]*pvec) int
}

type fixedN struct {
	name string
	n    int
}

func (f fixedN) parse(p *parser, b []byte, _ *[]*pvec) int {
	if len(b) < f.n {
		p.overrun = f.name
		return len(b)
	}
	return f.n
}

// vecN is opaque<..> / T<..> with a w-byte length prefix; inner==nil means opaque content.
type vecN struct {
	name  string
	w     int
	inner node
}

func beN(b []byte) int {
	v := 0
	for _, x := range b {
		v = v<<8 | int(x)
	}
	return v
}

func (v vecN) parse(p *parser, b []byte, into *[]*pvec) int {
	if len(b) < v.w {
		p.overrun = v.name + ".length"
		return len(b)
	}
	l := beN(b[:v.w])
	if l > len(b)-v.w {
		p.overrun = v.name
		return len(b)
	}
	pv := &pvec{name: v.name, declared: l}
	if v.inner != nil {
		c := v.inner.parse(p, b[v.w:v.w+l], &pv.kids)
		if p.overrun == "" && c < l {
			p.slack = true
		}
	}
	*into = append(*into, pv)
	return v.w + l
}

type seqN []node

func (s seqN) parse(p *parser, b []byte, into *[]*pvec) int {
	off := 0
	for _, n := range s {
		off += n.parse(p, b[off:], into)
		if p.overrun != "" {
			return off
		}
	}
	return off
}

// listN repeats item until the container is exhausted.
type listN struct{ item node }

func (l listN) parse(p *parser, b []byte, into *[]*pvec) int {
	off := 0
	for off < len(b) && p.overrun == "" {
		c := l.item.parse(p, b[off:], into)
		if c == 0 {
			break
		}
		off += c
	}
	return off
}

// restN is an unframed tail: everything up to the end of the container belongs to it.
type restN struct{}

func (restN) parse(_ *parser, b []byte, _ *[]*pvec) int { return len(b) }

// optN is an optional tail: absent if the container is exhausted.
type optN struct{ n node }

func (o optN) parse(p *parser, b []byte, into *[]*pvec) int {
	if len(b) == 0 {
		return 0
	}
	return o.n.parse(p, b, into)
}

// swN picks the continuation from the bytes at the current position.
type swN func(b []byte) node

func (s swN) parse(p *parser, b []byte, into *[]*pvec) int {
	n := s(b)
	if n == nil {
		return 0
	}
	return n.parse(p, b, into)
}

func fx(name string, n int) node          { return fixedN{name, n} }
func v8(name string, inner ...node) node  { return vecN{name, 1, innerOf(inner)} }
func v16(name string, inner ...node) node { return vecN{name, 2, innerOf(inner)} }
func v24(name string, inner ...node) node { return vecN{name, 3, innerOf(inner)} }
func innerOf(inner []node) node {
	switch len(inner) {
	case 0:
		return nil
	case 1:
		return inner[0]
	}
	return seqN(inner)
}

func refOf(n node) refFn {
	return func(b []byte) refRes {
		p := &parser{}
		var vecs []*pvec
		c := n.parse(p, b, &vecs)
		return refRes{overrun: p.overrun, slack: p.slack, consumed: c, vecs: vecs}
	}
}

// extBlock is `Extension extensions<0..2^16-1>` with opaque extension_data.
func extBlock(name string) node {
	return v16(name, listN{seqN{fx(name+".type", 2), v16(name + ".data")}})
}

// grew reports the first vector (by path) whose declared length in r exceeds the length the same vector
// declared in x. Only positions present in both parses with equal sibling counts are compared, so
// canonicalisations that drop or add elements are never misread as growth.
func grew(x, r []*pvec, path string) string {
	if len(x) != len(r) {
		return ""
	}
	for i := range x {
		here := fmt.Sprintf("%s/%s", path, x[i].name)
		if x[i].name != r[i].name {
			return ""
		}
		if r[i].declared > x[i].declared {
			return fmt.Sprintf("%s[%d] %d->%d", here, i, x[i].declared, r[i].declared)
		}
		if g := grew(x[i].kids, r[i].kids, here); g != "" {
			return g
		}
	}
	return ""
}

// ---- message schemas (RFC 5246 / 6347 / 8446 / 9147 / 9146 / 4279 / 5489 / 8422 / 9853) ----

var (
	schClientHello = seqN{fx("version", 2), fx("random", 32), v8("session_id"), v8("cookie"),
		v16("cipher_suites"), v8("compression_methods"), optN{extBlock("extensions")}}
	schServerHello = seqN{fx("version", 2), fx("random", 32), v8("session_id"), fx("cipher_suite", 2),
		fx("compression_method", 1), optN{extBlock("extensions")}}
	schHelloVerifyRequest = seqN{fx("version", 2), v8("cookie")}
	schCertificate        = seqN{v24("certificate_list", listN{v24("certificate")})}
	schCertificate13      = seqN{v8("context"), v24("certificate_list",
		listN{seqN{v24("cert_data"), extBlock("extensions")}})}
	schCertificateRequest = seqN{v8("certificate_types"), v16("signature_algorithms"),
		v16("certificate_authorities", listN{v16("distinguished_name")})}
	schCertificateRequest13 = seqN{v8("context"), extBlock("extensions")}
	schCertificateVerify    = seqN{fx("algorithm", 2), v16("signature")}
	schFinished             = seqN{restN{}}
	schServerHelloDone      = seqN{restN{}} // empty body; pion ignores the body altogether
	schEncryptedExtensions  = seqN{extBlock("extensions")}
	schNewSessionTicket     = seqN{fx("lifetime", 4), fx("age_add", 4), v8("nonce"), v16("ticket"), extBlock("extensions")}
	schKeyUpdate            = seqN{fx("request_update", 1)}
	schRequestConnectionID  = seqN{fx("num_cids", 1)}
	schNewConnectionID      = seqN{v16("cids", listN{v8("cid")}), fx("usage", 1)}

	schECDHEParams = seqN{fx("curve_type", 1), fx("named_curve", 2), v8("public"),
		optN{seqN{fx("algorithm", 2), v16("signature")}}}
	schSKEPsk      = seqN{v16("identity_hint")}
	schSKEEcdhe    = schECDHEParams
	schSKEEcdhePsk = seqN{v16("identity_hint"), schECDHEParams}
	schCKEPsk      = seqN{v16("identity")}
	schCKEEcdhe    = seqN{v8("public")}
	schCKEEcdhePsk = seqN{v16("identity"), v8("public")}
)

// ---- extension_data schemas ----

var (
	schEmpty          = seqN{}
	schSNIOffer       = seqN{v16("server_name_list", listN{seqN{fx("name_type", 1), v16("host_name")}})}
	schALPN           = seqN{v16("protocol_name_list", listN{v8("protocol_name")})}
	schUseSRTP        = seqN{v16("profiles"), v8("mki")}
	schU16List        = seqN{v16("list")}
	schU8List         = seqN{v8("list")}
	schRenegotiation  = seqN{fx("renegotiated_connection", 1)} // pion models only the empty value (one length byte)
	schOfferedPSKs    = seqN{v16("identities", listN{seqN{v16("identity"), fx("obfuscated_ticket_age", 4)}}), v16("binders", listN{v8("binder")})}
	schFixed2         = seqN{fx("value", 2)}
	schFixed4         = seqN{fx("value", 4)}
	schCookieExt      = seqN{v16("cookie")}
	schCertAuth       = seqN{v16("authorities", listN{v16("distinguished_name")})}
	schOIDFilters     = seqN{v16("filters", listN{seqN{v8("oid"), v16("values")}})}
	schClientKeyShare = seqN{v16("client_shares", listN{seqN{fx("group", 2), v16("key_exchange")}})}
	schServerKeyShare = seqN{fx("group", 2), v16("key_exchange")}
	schConnectionID   = seqN{v8("cid")}
)

// ---- content / record framing written out by hand (length field is not adjacent to its content) ----

// refHandshake: msg_type(1) length(3) message_seq(2) fragment_offset(3) fragment_length(3) body[length].
func refHandshake(body func(typ byte) node) refFn {
	return func(b []byte) refRes {
		if len(b) < 12 {
			return refRes{overrun: "handshake_header", consumed: len(b)}
		}
		l := beN(b[1:4])
		if l > len(b)-12 {
			return refRes{overrun: "handshake_body", consumed: len(b)}
		}
		pv := &pvec{name: "handshake_body", declared: l}
		res := refRes{consumed: 12 + l, vecs: []*pvec{pv}}
		if n := body(b[0]); n != nil {
			p := &parser{}
			c := n.parse(p, b[12:12+l], &pv.kids)
			res.overrun, res.slack = p.overrun, p.slack || c < l
		}
		return res
	}
}

// refRecord12: type(1) version(2) epoch(2) seq(6) [cid] length(2) fragment[length].
func refRecord12(cidLen int) refFn {
	return func(b []byte) refRes {
		h := 13
		if len(b) > 0 && b[0] == 25 {
			h += cidLen
		}
		if len(b) < h {
			return refRes{overrun: "record_header", consumed: len(b)}
		}
		l := beN(b[h-2 : h])
		if l > len(b)-h {
			return refRes{overrun: "record_fragment", consumed: len(b)}
		}
		return refRes{consumed: h + l, vecs: []*pvec{{name: "record_fragment", declared: l}}}
	}
}

// uniHdr is the reference decoding of a DTLS 1.3 unified header (RFC 9147 §4).
type uniHdr struct {
	ok      bool
	c, s, l bool
	epoch   byte
	cid     []byte
	seq     int
	length  int
	size    int
}

func refUnified(b []byte, cidLen int) uniHdr {
	var h uniHdr
	if len(b) < 1 || b[0]>>5 != 1 {
		return h
	}
	f := b[0]
	h.c, h.s, h.l, h.epoch = f&0x10 != 0, f&0x08 != 0, f&0x04 != 0, f&3
	off := 1
	if h.c {
		if len(b) < off+cidLen {
			return h
		}
		h.cid = b[off : off+cidLen]
		off += cidLen
	}
	sw := 1
	if h.s {
		sw = 2
	}
	if len(b) < off+sw {
		return h
	}
	h.seq = beN(b[off : off+sw])
	off += sw
	if h.l {
		if len(b) < off+2 {
			return h
		}
		h.length = beN(b[off : off+2])
		off += 2
	}
	h.size, h.ok = off, true
	return h
}

// refCiphertext13: unified header, then encrypted_record[length] if L is set, else the rest of the datagram.
func refCiphertext13(cidLen int) refFn {
	return func(b []byte) refRes {
		h := refUnified(b, cidLen)
		if !h.ok {
			return refRes{overrun: "unified_header", consumed: len(b)}
		}
		if !h.l {
			return refRes{consumed: len(b)}
		}
		if h.length > len(b)-h.size {
			return refRes{overrun: "encrypted_record", consumed: len(b)}
		}
		return refRes{consumed: h.size + h.length, vecs: []*pvec{{name: "encrypted_record", declared: h.length}}}
	}
}

// refRRC: msg_type(1) cookie(8) for the three defined types (RFC 9853 §5); the layout of a message with
// an unknown msg_type is not defined (receivers must parse-and-ignore), so it is an unframed tail.
var schRRC = seqN{swN(func(b []byte) node {
	if len(b) > 0 && b[0] > 2 {
		return restN{}
	}
	return seqN{fx("msg_type", 1), fx("cookie", 8)}
})}

var schACK = seqN{v16("record_numbers")}
var schAlert = seqN{fx("level", 1), fx("description", 1)}
