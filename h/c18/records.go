package c18

import (
	"fmt"

	"github.com/pion/dtls/v3/pkg/protocol"
	"github.com/pion/dtls/v3/pkg/protocol/alert"
	"github.com/pion/dtls/v3/pkg/protocol/handshake"
	"github.com/pion/dtls/v3/pkg/protocol/recordlayer"
	"github.com/pion/dtls/v3/zzverif/run"
)

func pat(n int, start byte) []byte {
	b := make([]byte, n)
	for i := range b {
		b[i] = start + byte(i)
	}
	return b
}

// ---- alert ----

func alertCodec() *codec {
	return &codec{name: "Alert",
		dec: func(b []byte) (any, error) { v := &alert.Alert{}; return v, v.Unmarshal(b) },
		enc: func(v any) ([]byte, error) { return v.(*alert.Alert).Marshal() },
		ref: refOf(schAlert)}
}

func alertCases() []run.Case {
	var cs []run.Case
	c := alertCodec()
	for hi := 0; hi < 16; hi++ {
		hi := hi
		cs = append(cs, run.Case{ID: fmt.Sprintf("alert/level-%x0-%xf", hi, hi), Run: func(*testingT) run.Outcome {
			var vals []value
			for lo := 0; lo < 16; lo++ {
				for d := 0; d < 256; d++ {
					vals = append(vals, value{&alert.Alert{Level: alert.Level(hi<<4 | lo), Description: alert.Description(d)}, true})
				}
			}
			return runValues(c, vals, nil)
		}})
	}
	return cs
}

// ---- ACK, RRC, ApplicationData, ChangeCipherSpec ----

func ackCodec() *codec {
	return &codec{name: "ACK",
		dec: func(b []byte) (any, error) { v := &protocol.ACK{}; return v, v.Unmarshal(b) },
		enc: func(v any) ([]byte, error) { return v.(*protocol.ACK).Marshal() },
		ref: refOf(seqN{v16("record_numbers", listN{fx("record_number", 16)})})}
}

func ackValues(th bool) []value {
	nums := []protocol.RecordNumber{{Epoch: 0, SequenceNumber: 0}, {Epoch: 1, SequenceNumber: 2}, {Epoch: ^uint64(0), SequenceNumber: ^uint64(0)}}
	if th {
		nums = append(nums, protocol.RecordNumber{Epoch: 3, SequenceNumber: 1 << 47}, protocol.RecordNumber{Epoch: 0x0102030405060708, SequenceNumber: 0x1112131415161718})
	}
	maxN := 3
	if th {
		maxN = 4
	}
	var vals []value
	var rec func(cur []protocol.RecordNumber)
	rec = func(cur []protocol.RecordNumber) {
		vals = append(vals, value{&protocol.ACK{Records: append([]protocol.RecordNumber(nil), cur...)}, true})
		if len(cur) == maxN {
			return
		}
		for _, n := range nums {
			rec(append(cur, n))
		}
	}
	rec(nil)
	return vals
}

func rrcCodec() *codec {
	return &codec{name: "ReturnRoutabilityCheck",
		dec: func(b []byte) (any, error) { v := &protocol.ReturnRoutabilityCheck{}; return v, v.Unmarshal(b) },
		enc: func(v any) ([]byte, error) { return v.(*protocol.ReturnRoutabilityCheck).Marshal() },
		ref: refOf(schRRC)}
}

func rrcValues() []value {
	var vals []value
	cookies := [][8]byte{{}, {1, 2, 3, 4, 5, 6, 7, 8}, {0xff, 0xff, 0xff, 0xff, 0xff, 0xff, 0xff, 0xff}, {0, 0, 0, 0, 0, 0, 0, 1}}
	for t := 0; t < 256; t++ {
		for _, ck := range cookies {
			// types above path_drop are not defined: pion ignores their body, so only the zero cookie round-trips
			must := t <= 2 || ck == [8]byte{}
			if !must {
				continue
			}
			vals = append(vals, value{&protocol.ReturnRoutabilityCheck{MessageType: protocol.ReturnRoutabilityCheckMessageType(t), Cookie: ck}, true})
		}
	}
	return vals
}

func appDataCodec() *codec {
	return &codec{name: "ApplicationData",
		dec: func(b []byte) (any, error) { v := &protocol.ApplicationData{}; return v, v.Unmarshal(b) },
		enc: func(v any) ([]byte, error) { return v.(*protocol.ApplicationData).Marshal() },
		ref: refOf(seqN{restN{}})}
}

func ccsCodec() *codec {
	return &codec{name: "ChangeCipherSpec",
		dec: func(b []byte) (any, error) { v := &protocol.ChangeCipherSpec{}; return v, v.Unmarshal(b) },
		enc: func(v any) ([]byte, error) { return v.(*protocol.ChangeCipherSpec).Marshal() },
		ref: refOf(seqN{fx("type", 1)})}
}

func innerPlaintextCodec() *codec {
	return &codec{name: "InnerPlaintext",
		dec: func(b []byte) (any, error) { v := &recordlayer.InnerPlaintext{}; return v, v.Unmarshal(b) },
		enc: func(v any) ([]byte, error) { return v.(*recordlayer.InnerPlaintext).Marshal() },
		ref: refOf(seqN{restN{}})}
}

func innerPlaintextValues(th bool) []value {
	var vals []value
	contents := [][]byte{nil, {0}, {1}, {0, 0}, {1, 0}, {0, 1}, {7, 8, 9}}
	zeros := []uint{0, 1, 2, 7}
	if th {
		zeros = append(zeros, 16, 255)
		contents = append(contents, pat(16, 1), make([]byte, 5))
	}
	for _, c := range contents {
		for t := 0; t < 256; t++ {
			for _, z := range zeros {
				// real_type 0 is not a content type: the trailing-zero scan cannot delimit it
				vals = append(vals, value{&recordlayer.InnerPlaintext{Content: c, RealType: protocol.ContentType(t), Zeros: z}, t != 0})
			}
		}
	}
	return vals
}

// ---- legacy / CID record header ----

func headerCodec(cidLen int) *codec {
	return &codec{name: "Header", ctx: fmt.Sprintf("cid%d", cidLen),
		dec: func(b []byte) (any, error) {
			v := &recordlayer.Header{ConnectionID: make([]byte, cidLen)}
			return v, v.Unmarshal(b)
		},
		enc: func(v any) ([]byte, error) { return v.(*recordlayer.Header).Marshal() },
		ref: func(b []byte) refRes {
			h := 13
			if len(b) > 0 && b[0] == 25 {
				h += cidLen
			}
			if len(b) < h {
				return refRes{overrun: "record_header", consumed: len(b)}
			}
			return refRes{consumed: h}
		}}
}

var contentTypes = []protocol.ContentType{20, 21, 22, 23, 25, 26, 27, 0, 24, 255}

func headerValues(cidLen int, ct protocol.ContentType, th bool) []value {
	versions := []protocol.Version{protocol.Version1_0, protocol.Version1_2, protocol.Version1_3, {Major: 3, Minor: 3}}
	epochs := []uint16{0, 1, 0xffff}
	seqs := []uint64{0, 1, 0xffffffffffff, 1 << 48}
	lens := []uint16{0, 1, 0x0100, 0xffff}
	if th {
		epochs = append(epochs, 2, 0x0100, 0x8000)
		seqs = append(seqs, 0x010203040506, 0x800000000000, 255, 256)
		lens = append(lens, 13, 0x4000, 0x4001)
	}
	var cid []byte
	if ct == protocol.ContentTypeConnectionID && cidLen > 0 {
		cid = pat(cidLen, 0xc1)
	}
	var vals []value
	for _, v := range versions {
		for _, e := range epochs {
			for _, s := range seqs {
				for _, l := range lens {
					must := (v == protocol.Version1_0 || v == protocol.Version1_2) && s <= 0xffffffffffff // Unmarshal documents only these versions; seq is uint48
					vals = append(vals, value{&recordlayer.Header{ContentType: ct, ContentLen: l, Version: v, Epoch: e, SequenceNumber: s, ConnectionID: cid}, must})
				}
			}
		}
	}
	return vals
}

// ---- DTLS 1.3 unified header ----

func unifiedCodec(cidLen int) *codec {
	return &codec{name: "UnifiedHeader", ctx: fmt.Sprintf("cid%d", cidLen),
		dec: func(b []byte) (any, error) {
			v := &recordlayer.UnifiedHeader{ConnectionID: make([]byte, cidLen)}
			return v, v.Unmarshal(b)
		},
		enc: func(v any) ([]byte, error) { return v.(*recordlayer.UnifiedHeader).Marshal() },
		ref: func(b []byte) refRes {
			h := refUnified(b, cidLen)
			if !h.ok {
				if len(b) > 0 && b[0]>>5 != 1 {
					return refRes{consumed: 0} // not a unified header at all: nothing declared
				}
				return refRes{overrun: "unified_header", consumed: len(b)}
			}
			return refRes{consumed: h.size}
		}}
}

func unifiedValues(cidLen int, th bool) []value {
	var vals []value
	seq8 := []uint16{0, 1, 0xff}
	seq16 := []uint16{0, 1, 0xff, 0x100, 0xffff}
	lens := []uint16{0, 1, 16, 0xffff}
	if th {
		seq8 = append(seq8, 0x7f, 0x80, 2)
		seq16 = append(seq16, 0x8000, 0x7fff, 0x0102)
		lens = append(lens, 15, 17, 0x4100, 0x4101, 0x0100)
	}
	var cid []byte
	if cidLen > 0 {
		cid = pat(cidLen, 0xc1)
	}
	for _, sb := range []bool{false, true} {
		seqs := seq8
		if sb {
			seqs = seq16
		}
		for _, lb := range []bool{false, true} {
			ls := []uint16{0}
			if lb {
				ls = lens
			}
			for ep := uint8(0); ep < 4; ep++ {
				for _, s := range seqs {
					for _, l := range ls {
						vals = append(vals, value{&recordlayer.UnifiedHeader{ConnectionID: cid, SequenceNumber: s, SeqBit: sb, Length: l, LengthBit: lb, EpochLow: ep}, true})
					}
				}
			}
		}
	}
	return vals
}

// unifiedWire checks UnifiedHeader.Unmarshal field by field against the reference decoding for every
// first byte 0..255 followed by each of a few tails (this reaches flag combinations, e.g. C set with a
// zero-length CID context, that UnifiedHeader.Marshal never produces).
func unifiedWireCase(cidLen int, th bool) run.Outcome {
	a := newAcc()
	c := unifiedCodec(cidLen)
	tails := [][]byte{nil, {0x01}, {0x01, 0x02}, pat(3, 0x10), pat(5, 0xa0), pat(7, 0), pat(9, 0xf8), pat(12, 0x40)}
	if th {
		for n := 0; n <= 12; n++ {
			tails = append(tails, pat(n, 0x80), make([]byte, n))
		}
	}
	for f := 0; f < 256; f++ {
		for _, t := range tails {
			x := append([]byte{byte(f)}, t...)
			if !a.fresh(c.label(), x) {
				continue
			}
			a.checkBytes(c, x, "first byte x tail grid")
			// field-level differential
			h := refUnified(x, cidLen)
			var u *recordlayer.UnifiedHeader
			var err error
			pan := guard(func() {
				u = &recordlayer.UnifiedHeader{ConnectionID: make([]byte, cidLen)}
				err = u.Unmarshal(x)
			})
			if pan != "" {
				continue // already reported by checkBytes
			}
			if (err == nil) != h.ok {
				a.fail("differential:UnifiedHeader.Unmarshal:acceptance",
					fmt.Sprintf("UnifiedHeader/cid%d: input %s: pion err=%v, reference well-formed=%v", cidLen, hx(x), err, h.ok))
				continue
			}
			if err != nil {
				continue
			}
			a.evals++
			got := fmt.Sprintf("cid=%x seq=%d S=%v len=%d L=%v ep=%d size=%d", u.ConnectionID, u.SequenceNumber, u.SeqBit, u.Length, u.LengthBit, u.EpochLow, u.Size())
			want := fmt.Sprintf("cid=%x seq=%d S=%v len=%d L=%v ep=%d size=%d", h.cid, h.seq, h.s, h.length, h.l, h.epoch, h.size)
			if got != want {
				a.fail("differential:UnifiedHeader.Unmarshal:fields",
					fmt.Sprintf("UnifiedHeader/cid%d: input %s decoded as {%s}, reference {%s}", cidLen, hx(x), got, want))
			}
		}
	}
	return a.outcome("held")
}

// ---- record catalogue shared by RecordLayer tests and the datagram unpackers ----

type content struct {
	name string
	mk   func() protocol.Content
}

func hsContent(name string, seq uint16, m func() handshake.Message) content {
	return content{name, func() protocol.Content {
		return &handshake.Handshake{Header: handshake.Header{MessageSequence: seq}, Message: m()}
	}}
}

func contentCatalogue(th bool) []content {
	cs := []content{
		{"ccs", func() protocol.Content { return &protocol.ChangeCipherSpec{} }},
		{"alert-warning-close", func() protocol.Content { return &alert.Alert{Level: alert.Warning, Description: alert.CloseNotify} }},
		{"alert-fatal-ff", func() protocol.Content { return &alert.Alert{Level: alert.Fatal, Description: 0xff} }},
		{"appdata-0", func() protocol.Content { return &protocol.ApplicationData{Data: []byte{}} }},
		{"appdata-1", func() protocol.Content { return &protocol.ApplicationData{Data: []byte{0x41}} }},
		{"appdata-3", func() protocol.Content { return &protocol.ApplicationData{Data: []byte{0x00, 0x01, 0xff}} }},
		{"ack-0", func() protocol.Content { return &protocol.ACK{} }},
		{"ack-2", func() protocol.Content {
			return &protocol.ACK{Records: []protocol.RecordNumber{{Epoch: 2, SequenceNumber: 5}, {Epoch: 3, SequenceNumber: 0}}}
		}},
		{"rrc-challenge", func() protocol.Content {
			return &protocol.ReturnRoutabilityCheck{MessageType: protocol.ReturnRoutabilityCheckPathChallenge, Cookie: [8]byte{1, 2, 3, 4, 5, 6, 7, 8}}
		}},
		{"rrc-drop", func() protocol.Content {
			return &protocol.ReturnRoutabilityCheck{MessageType: protocol.ReturnRoutabilityCheckPathDrop}
		}},
		hsContent("hs-finished", 3, func() handshake.Message { return &handshake.MessageFinished{VerifyData: pat(12, 0x30)} }),
		hsContent("hs-serverhellodone", 2, func() handshake.Message { return &handshake.MessageServerHelloDone{} }),
		hsContent("hs-hvr", 0, func() handshake.Message {
			return &handshake.MessageHelloVerifyRequest{Version: protocol.Version1_2, Cookie: pat(4, 0x50)}
		}),
		hsContent("hs-keyupdate", 7, func() handshake.Message {
			return &handshake.MessageKeyUpdate{RequestUpdate: handshake.KeyUpdateRequested}
		}),
	}
	if th {
		cs = append(cs,
			content{"appdata-16", func() protocol.Content { return &protocol.ApplicationData{Data: pat(16, 0x60)} }},
			hsContent("hs-certificate", 1, func() handshake.Message {
				return &handshake.MessageCertificate{Certificate: [][]byte{pat(3, 1), {}}}
			}),
			hsContent("hs-newcid", 9, func() handshake.Message {
				return &handshake.MessageNewConnectionID{CIDs: [][]byte{{1}, {2, 3}}, Usage: handshake.ConnectionIDSpare}
			}),
		)
	}
	return cs
}

func record12Codec() *codec {
	return &codec{name: "RecordLayer",
		dec: func(b []byte) (any, error) { v := &recordlayer.RecordLayer{}; return v, v.Unmarshal(b) },
		enc: func(v any) ([]byte, error) { return v.(*recordlayer.RecordLayer).Marshal() },
		ref: refRecord12(0)}
}

func record12Values(ct content, th bool) []value {
	var vals []value
	epochs := []uint16{0, 1, 0xffff}
	seqs := []uint64{0, 1, 0xffffffffffff}
	if th {
		epochs = append(epochs, 2, 0x0100)
		seqs = append(seqs, 0x010203040506, 256)
	}
	for _, v := range []protocol.Version{protocol.Version1_0, protocol.Version1_2} {
		for _, e := range epochs {
			for _, s := range seqs {
				vals = append(vals, value{&recordlayer.RecordLayer{Header: recordlayer.Header{Version: v, Epoch: e, SequenceNumber: s}, Content: ct.mk()}, true})
			}
		}
	}
	return vals
}

func plaintext13Codec() *codec {
	return &codec{name: "PlaintextRecord13",
		dec: func(b []byte) (any, error) { v := &recordlayer.PlaintextRecord13{}; return v, v.Unmarshal(b) },
		enc: func(v any) ([]byte, error) { return v.(*recordlayer.PlaintextRecord13).Marshal() },
		ref: refRecord12(0)}
}

func plaintext13Values(ct content, th bool) []value {
	var vals []value
	seqs := []uint64{0, 1, 0xffffffffffff}
	if th {
		seqs = append(seqs, 0x010203040506, 256)
	}
	typ := ct.mk().ContentType()
	legal := typ == protocol.ContentTypeAlert || typ == protocol.ContentTypeHandshake || typ == protocol.ContentTypeACK
	for _, v := range []protocol.Version{protocol.Version1_2, {}, protocol.Version1_0, protocol.Version1_3} {
		for _, e := range []uint16{0, 1} {
			for _, s := range seqs {
				vals = append(vals, value{&recordlayer.PlaintextRecord13{Header: recordlayer.Header{Version: v, Epoch: e, SequenceNumber: s}, Content: ct.mk()},
					legal && e == 0 && (v == protocol.Version1_2 || v == protocol.Version{})})
			}
		}
	}
	return vals
}

func ciphertext13Codec(cidLen int) *codec {
	return &codec{name: "CiphertextRecord13", ctx: fmt.Sprintf("cid%d", cidLen),
		dec: func(b []byte) (any, error) {
			v := &recordlayer.CiphertextRecord13{Header: recordlayer.UnifiedHeader{ConnectionID: make([]byte, cidLen)}}
			return v, v.Unmarshal(b)
		},
		enc: func(v any) ([]byte, error) { return v.(*recordlayer.CiphertextRecord13).Marshal() },
		ref: refCiphertext13(cidLen)}
}

func ciphertext13Values(cidLen int, th bool) []value {
	var vals []value
	var cid []byte
	if cidLen > 0 {
		cid = pat(cidLen, 0xc1)
	}
	seqs := []uint16{0, 1, 0xff, 0x100, 0xffff}
	lens := []int{15, 16, 17, 40}
	if th {
		seqs = append(seqs, 0x8000, 0x0102)
		lens = append(lens, 0, 1, 255, 256, 257)
	}
	for ep := uint8(0); ep < 4; ep++ {
		for _, s := range seqs {
			for _, l := range lens {
				vals = append(vals, value{&recordlayer.CiphertextRecord13{
					Header:          recordlayer.UnifiedHeader{ConnectionID: cid, EpochLow: ep, SequenceNumber: s, SeqBit: true, LengthBit: true, Length: uint16(l)},
					EncryptedRecord: pat(l, 0xe0)}, l >= 16}) // RFC 9147 §4.2.3: at least 16 bytes of ciphertext
			}
		}
	}
	return vals
}

// ciphertext13Wire feeds reference-built encodings of every flag combination (which pion's Marshal never
// emits: 8-bit sequence numbers, absent length) through oracle 2 and checks the decoded fields.
func ciphertext13WireCase(cidLen int, th bool) run.Outcome {
	a := newAcc()
	c := ciphertext13Codec(cidLen)
	bodies := []int{16, 17}
	if th {
		bodies = append(bodies, 15, 32, 256)
	}
	for f := 0x20; f < 0x40; f++ {
		for _, n := range bodies {
			for _, lenAdj := range []int{0, -1, 1} {
				x := []byte{byte(f)}
				if f&0x10 != 0 {
					x = append(x, pat(cidLen, 0xc1)...)
				}
				if f&0x08 != 0 {
					x = append(x, 0x12, 0x34)
				} else {
					x = append(x, 0x34)
				}
				if f&0x04 != 0 {
					x = append(x, byte((n+lenAdj)>>8), byte(n+lenAdj))
				} else if lenAdj != 0 {
					continue
				}
				x = append(x, pat(n, 0xe0)...)
				h := refUnified(x, cidLen)
				wantOK := h.ok && (!h.l || h.length == len(x)-h.size) && len(x)-h.size >= 16
				var r *recordlayer.CiphertextRecord13
				var err error
				pan := guard(func() {
					r = &recordlayer.CiphertextRecord13{Header: recordlayer.UnifiedHeader{ConnectionID: make([]byte, cidLen)}}
					err = r.Unmarshal(x)
				})
				a.evals++
				if pan != "" {
					a.fail(c.panicKey("Unmarshal", x), fmt.Sprintf("%s: panic %s on %s", c.label(), pan, hx(x)))
					continue
				}
				if (err == nil) != wantOK {
					a.fail("differential:CiphertextRecord13.Unmarshal:acceptance",
						fmt.Sprintf("%s: input %s: pion err=%v, reference acceptable=%v", c.label(), hx(x), err, wantOK))
					continue
				}
				if err == nil {
					got := fmt.Sprintf("cid=%x seq=%d ep=%d body=%x", r.Header.ConnectionID, r.Header.SequenceNumber, r.Header.EpochLow, r.EncryptedRecord)
					want := fmt.Sprintf("cid=%x seq=%d ep=%d body=%x", h.cid, h.seq, h.epoch, x[h.size:])
					if got != want {
						a.fail("differential:CiphertextRecord13.Unmarshal:fields",
							fmt.Sprintf("%s: input %s decoded as {%s}, reference {%s}", c.label(), hx(x), got, want))
					}
					a.mutate(c, x, 0)
				} else if a.fresh(c.label(), x) {
					a.checkBytes(c, x, "reference-built with wrong length")
				}
			}
		}
	}
	return a.outcome("held")
}
