package c18

import (
	"fmt"
	"os"
	"testing"
	"time"

	"github.com/pion/dtls/v3/pkg/protocol"
	"github.com/pion/dtls/v3/pkg/protocol/handshake"
	"github.com/pion/dtls/v3/zzverif/run"
)

type testingT = testing.T

// C18 — wire codecs round-trip and respect declared lengths.
//
// Enumerated (E3, bounded-exhaustive): for every codec under pkg/protocol/** every value of a bounded
// grammar (all combinations of small per-field domains); for every accepted encoding every truncation,
// every one-byte extension and every byte set to 00/01/ff; for the datagram unpackers every
// concatenation of <= 3 catalogue records, each with every garbage trailer and every truncation of the
// last record.
//
// Oracles (independent of pion: structural value comparison, a schema-driven framing reference in
// ref.go, reference unified-header decoder and reference datagram splitters):
//  1. Unmarshal(Marshal(v)) == v and Marshal(Unmarshal(Marshal(v))) == Marshal(v);
//  2. no panic; an accepted input re-encodes, and the re-encoding is a fixed point of decode∘encode;
//     an input in which a declared length or fixed field runs past its container is rejected; no
//     vector of the re-encoding is longer than the length the input declared for it; bytes after the end
//     of a self-delimiting structure do not change the value;
//  3. the unpackers return exactly the reference partition, and reject what the reference rejects.

func chunk(id string, c *codec, vals func() []value, from func([]byte) int, size int) []run.Case {
	n := len(vals())
	if n <= size {
		return []run.Case{{ID: id, Run: func(*testing.T) run.Outcome { return runValues(c, vals(), from) }}}
	}
	var cs []run.Case
	for i, k := 0, 0; i < n; i, k = i+size, k+1 {
		lo, hi := i, min(i+size, n)
		cs = append(cs, run.Case{ID: fmt.Sprintf("%s#%d", id, k), Run: func(*testing.T) run.Outcome { return runValues(c, vals()[lo:hi], from) }})
	}
	return cs
}

func buildCases(th bool) ([]run.Case, map[string]any) {
	var cases []run.Case
	sizes := map[string]int{}
	count := func(codecName string, n int) { sizes[codecName] += n }
	addVals := func(id string, c *codec, vals func() []value, from func([]byte) int) {
		count(c.label(), len(vals()))
		cases = append(cases, chunk(id, c, vals, from, 1500)...)
	}

	// record-layer contents
	cases = append(cases, alertCases()...)
	count("Alert", 1<<16)
	addVals("ack", ackCodec(), func() []value { return ackValues(th) }, nil)
	addVals("rrc", rrcCodec(), rrcValues, nil)
	addVals("appdata", appDataCodec(), func() []value {
		var vs []value
		for _, l := range byteLens(th, []int{0, 1, 2, 16}, 255, 1200) {
			for _, st := range []byte{0, 1, 0x16, 0xff} {
				vs = append(vs, value{&protocol.ApplicationData{Data: pat(l, st)}, true})
			}
		}
		return vs
	}, nil)
	addVals("ccs", ccsCodec(), func() []value { return []value{{&protocol.ChangeCipherSpec{}, true}} }, nil)
	addVals("innerplaintext", innerPlaintextCodec(), func() []value { return innerPlaintextValues(th) }, nil)

	// record headers
	for _, cl := range []int{0, 1, 4, 8} {
		for _, ct := range contentTypes {
			cl, ct := cl, ct
			if cl != 0 && ct != protocol.ContentTypeConnectionID {
				continue // the CID context only matters for tls12_cid
			}
			addVals(fmt.Sprintf("hdr/legacy/cid%d/ct%d", cl, ct), headerCodec(cl), func() []value { return headerValues(cl, ct, th) }, nil)
		}
	}
	for _, cl := range []int{0, 1, 4} {
		cl := cl
		addVals(fmt.Sprintf("hdr/unified/cid%d/values", cl), unifiedCodec(cl), func() []value { return unifiedValues(cl, th) }, nil)
		cases = append(cases, run.Case{ID: fmt.Sprintf("hdr/unified/cid%d/wire", cl), Run: func(*testing.T) run.Outcome { return unifiedWireCase(cl, th) }})
		count(fmt.Sprintf("UnifiedHeader/cid%d wire grid", cl), 256*8)
	}

	// records
	for _, ct := range contentCatalogue(th) {
		ct := ct
		addVals("rec12/"+ct.name, record12Codec(), func() []value { return record12Values(ct, th) }, nil)
		addVals("rec13p/"+ct.name, plaintext13Codec(), func() []value { return plaintext13Values(ct, th) }, nil)
	}
	for _, cl := range []int{0, 1, 4} {
		cl := cl
		addVals(fmt.Sprintf("rec13c/cid%d/values", cl), ciphertext13Codec(cl), func() []value { return ciphertext13Values(cl, th) }, nil)
		cases = append(cases, run.Case{ID: fmt.Sprintf("rec13c/cid%d/wire", cl), Run: func(*testing.T) run.Outcome { return ciphertext13WireCase(cl, th) }})
		count(fmt.Sprintf("CiphertextRecord13/cid%d wire grid", cl), 32*2*3)
	}

	// handshake header, wrapper, messages
	for _, t := range []handshake.Type{0, 1, 2, 11, 20, 24, 254, 255} {
		t := t
		addVals(fmt.Sprintf("hshdr/type%d", t), hsHeaderCodec(), func() []value { return hsHeaderValues(t, th) }, nil)
	}
	for _, m := range handshakeCatalogue(th) {
		m := m
		addVals("hs/"+m.name, handshakeCodec(m.kx), func() []value { return handshakeValues(m, th) }, nil)
	}
	for _, g := range clientHelloGroups(th) {
		addVals(g.id, g.codec, g.vals, g.from)
	}
	for _, g := range serverHelloGroups(th) {
		addVals(g.id, g.codec, g.vals, g.from)
	}
	for _, g := range otherMessageGroups(th) {
		addVals(g.id, g.codec, g.vals, g.from)
	}
	for _, g := range wireSeedGroups(th) {
		g := g
		cases = append(cases, run.Case{ID: g.id, Run: func(*testing.T) run.Outcome { return runWire(g.codec, g.wire()) }})
		count(g.codec.label()+" wire seeds", len(g.wire()))
	}

	// extension payloads and raw framing
	for _, s := range extSpecs() {
		s := s
		addVals("ext/"+s.name, extCodec(s), func() []value { return s.vals(th) }, nil)
	}
	addVals("ext/ParseList", rawListCodec(), func() []value { return rawListValues(th) }, nil)

	// hello canonicalisation used before hooks (internal/negotiation)
	cases = append(cases, finalizeCases(th)...)

	// datagram unpackers
	cat := catalogue12(-1, th)
	for _, first := range cat {
		first := first
		cases = append(cases, run.Case{ID: "unpack/UnpackDatagram/" + first.name, Run: func(*testing.T) run.Outcome { return unpack12Case(false, -1, first, cat, th) }})
	}
	count("UnpackDatagram datagrams(<=3 of catalogue)", 1+len(cat)+len(cat)*len(cat)+len(cat)*len(cat)*len(cat))
	for _, cl := range []int{0, 1, 4, 8} {
		cl := cl
		cat := catalogue12(cl, th)
		for _, first := range cat {
			first := first
			cases = append(cases, run.Case{ID: fmt.Sprintf("unpack/ContentAware/cid%d/%s", cl, first.name), Run: func(*testing.T) run.Outcome { return unpack12Case(true, cl, first, cat, th) }})
		}
		count(fmt.Sprintf("ContentAwareUnpackDatagram/cid%d datagrams", cl), 1+len(cat)+len(cat)*len(cat)+len(cat)*len(cat)*len(cat))
	}
	for _, cl := range []int{0, 1, 4} {
		for _, req := range []bool{false, true} {
			for _, cth := range []bool{true, false} {
				c := ctx13{cl, req, cth}
				cat := catalogue13(cl, th)
				for _, first := range cat {
					first := first
					cases = append(cases, run.Case{ID: fmt.Sprintf("unpack/13/%s/%s", c, first.name), Run: func(*testing.T) run.Outcome { return unpack13Case(c, first, cat, th) }})
				}
				count(fmt.Sprintf("UnpackDatagram13/%s datagrams", c), 1+len(cat)+len(cat)*len(cat)+len(cat)*len(cat)*len(cat))
			}
		}
	}

	if os.Getenv("C18_TIMING") != "" { // diagnostics only: per-case wall time on stderr; outcomes are unaffected
		for i := range cases {
			id, f := cases[i].ID, cases[i].Run
			cases[i].Run = func(t *testing.T) run.Outcome {
				t0 := time.Now()
				o := f(t)
				fmt.Fprintf(os.Stderr, "C18-TIMING %8.3fs evals=%d %s\n", time.Since(t0).Seconds(), o.Evals, id)
				return o
			}
		}
	}

	params := map[string]any{
		"tier":                th,
		"values_per_codec":    sizes,
		"mutations_per_input": "every truncation e[:k]; e+{00,01,ff}; every byte := 00/01/ff",
		"extension_subsets":   "every subset of <=3 extension types per context, all payload variants (quick: all variants for subsets <=2)",
		"datagrams":           "every sequence of <=3 catalogue records x {as is, each garbage trailer, each truncation of the last record}",
	}
	return cases, params
}

func TestC18(t *testing.T) {
	env := run.GetEnv()
	cases, params := buildCases(env.Thorough())
	run.KeepGC = true
	run.Main(t, "C18", cases, params)
}
