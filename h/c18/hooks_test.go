package c18

import (
	"bytes"
	"fmt"
	"testing"
	"time"

	dtls "github.com/pion/dtls/v3"
	"github.com/pion/dtls/v3/pkg/crypto/elliptic"
	"github.com/pion/dtls/v3/pkg/protocol/extension"
	extension12 "github.com/pion/dtls/v3/pkg/protocol/extension/dtls12"
	"github.com/pion/dtls/v3/pkg/protocol/handshake"
	"github.com/pion/dtls/v3/zzverif/run"
	"github.com/pion/dtls/v3/zzverif/world"
)

// TestC18Hooks decides the mechanism "hooked hello messages are canonicalised by encode-decode before
// use" on live handshakes, with a metamorphic oracle that needs no expected value: for a hook output H
// the library must behave exactly as for canon(H) = decode(encode(H)).
//
// Case = (configuration, hooked message in {ClientHello, ServerHello, CertificateRequest}, transformation T
// of the message's extension list from a fixed catalogue). Two executions per case over a reliable
// network: A with the hook returning T(m), B with the hook returning decode(encode(T(m))) (computed by the
// harness). Compared: the bytes of the hooked message on the wire, both handshake results, the negotiated
// connection IDs / SRTP profile / ALPN / EMS on both sides, and one payload each way. Any difference means
// that the in-memory shape of the hook's return value (a known extension given as raw bytes, a value
// instead of a pointer, a non-canonical field) reached the wire or the negotiation.

type extT struct {
	name string
	f    func([]extension.Value) []extension.Value
}

func asRaw(e extension.Value) extension.Value {
	d, err := e.MarshalData()
	if err != nil {
		return e
	}
	return extension.Raw{Type: e.ExtensionType(), Data: d}
}

func transforms() []extT {
	ts := []extT{
		{"identity", func(x []extension.Value) []extension.Value { return x }},
		{"all-raw", func(x []extension.Value) []extension.Value {
			out := make([]extension.Value, len(x))
			for i, e := range x {
				out[i] = asRaw(e)
			}
			return out
		}},
		{"reversed", func(x []extension.Value) []extension.Value {
			out := make([]extension.Value, len(x))
			for i, e := range x {
				out[len(x)-1-i] = e
			}
			return out
		}},
		{"pointformats-extra", func(x []extension.Value) []extension.Value {
			out := append([]extension.Value(nil), x...)
			for i, e := range out {
				if e.ExtensionType() == extension.TypeSupportedPointFormats {
					out[i] = &extension12.SupportedPointFormats{PointFormats: []elliptic.CurvePointFormat{1, 0, 2}}
				}
			}
			return out
		}},
	}
	for _, t := range []extension.Type{extension.TypeConnectionID, extension.TypeUseSRTP, extension.TypeALPN, extension.TypeExtendedMasterSecret,
		extension.TypeSupportedPointFormats, extension.TypeRenegotiationInfo, extension.TypeSupportedGroups, extension.TypeSignatureAlgorithms, extension.TypeServerName} {
		t := t
		ts = append(ts, extT{fmt.Sprintf("raw-%d", t), func(x []extension.Value) []extension.Value {
			out := append([]extension.Value(nil), x...)
			for i, e := range out {
				if e.ExtensionType() == t {
					out[i] = asRaw(e)
				}
			}
			return out
		}})
	}
	return ts
}

type hookObs struct {
	wire             []byte
	cOK, sOK         bool
	cCID, sCID       string
	srtpC, srtpS     uint16
	alpnC, alpnS     string
	emsC, emsS       bool
	c2s, s2c         bool
	applied, changed bool
}

func (o hookObs) String() string {
	return fmt.Sprintf("wire=%x… client-ok=%v server-ok=%v cid=%s|%s srtp=%d|%d alpn=%s|%s ems=%v|%v data c2s=%v s2c=%v", o.wire[:min(len(o.wire), 48)], o.cOK, o.sOK, o.cCID, o.sCID, o.srtpC, o.srtpS, o.alpnC, o.alpnS, o.emsC, o.emsS, o.c2s, o.s2c)
}

func hookRun(t *testing.T, p *world.PKI, base [2]world.Cfg, msg string, tr extT, canon bool, seed uint64) (obs hookObs) {
	var hsType byte
	world.Run(t, seed, func(w *world.World) {
		c, s := base[0], base[1]
		switch msg {
		case "ClientHello":
			hsType = 1
			hook := func(m handshake.MessageClientHello) handshake.Message {
				obs.applied = true
				m.Extensions = tr.f(m.Extensions)
				if canon {
					if raw, err := m.Marshal(); err == nil {
						y := &handshake.MessageClientHello{}
						if y.Unmarshal(raw) == nil {
							return y
						}
					}
				}
				return &m
			}
			c.Extra = append(append([]dtls.Option(nil), c.Extra...), dtls.WithClientHelloMessageHook(hook))
		case "ServerHello":
			hsType = 2
			hook := func(m handshake.MessageServerHello) handshake.Message {
				obs.applied = true
				m.Extensions = tr.f(m.Extensions)
				if canon {
					if raw, err := m.Marshal(); err == nil {
						y := &handshake.MessageServerHello{}
						if y.Unmarshal(raw) == nil {
							return y
						}
					}
				}
				return &m
			}
			s.ExtraServer = append(append([]dtls.ServerOption(nil), s.ExtraServer...), dtls.WithServerHelloMessageHook(hook))
		}
		ce, err := w.NewEndpoint(p, true, world.ClientAddr, world.ServerAddr, c)
		if err != nil {
			return
		}
		se, err := w.NewEndpoint(p, false, world.ServerAddr, world.ClientAddr, s)
		if err != nil {
			return
		}
		pr := &world.Pair{W: w, C: ce, S: se, FirstID: w.EmittedCount()}
		ce.StartHandshake()
		w.Settle()
		se.StartHandshake()
		w.Settle()
		n := world.NewNet(w, world.ClientAddr, nil)
		_ = n.Pump(6*time.Second, pr.BothDone)
		n.Flush()
		obs.cOK, obs.sOK = ce.HS.OK(), se.HS.OK()
		// the last complete transmission of the hooked message (the one the peer acted on)
		for _, d := range w.Emitted() {
			recs, _ := world.ParseDatagram(d.Data, 0)
			for _, r := range recs {
				for _, h := range r.HS {
					if h.Type == hsType && h.FragOff == 0 && int(h.FragLen) == int(h.Len) {
						obs.wire = append([]byte(nil), h.Body...)
					}
				}
			}
		}
		if obs.cOK && obs.sOK {
			cs, ss := ce.Snapshot(), se.Snapshot()
			obs.cCID, obs.sCID = fmt.Sprintf("%x/%x", cs.LocalCID, cs.RemoteCID), fmt.Sprintf("%x/%x", ss.LocalCID, ss.RemoteCID)
			obs.srtpC, obs.srtpS, obs.alpnC, obs.alpnS, obs.emsC, obs.emsS = cs.SRTP, ss.SRTP, cs.ALPN, ss.ALPN, cs.EMS, ss.EMS
			got, re, we := pr.Transfer(n, ce, se, []byte("hook-c2s"), 2*time.Second)
			obs.c2s = re == nil && we == nil && string(got) == "hook-c2s"
			got, re, we = pr.Transfer(n, se, ce, []byte("hook-s2c"), 2*time.Second)
			obs.s2c = re == nil && we == nil && string(got) == "hook-s2c"
		}
		pr.CloseAll()
	})
	return obs
}

func TestC18Hooks(t *testing.T) {
	env := run.GetEnv()
	p := world.GetPKI(t)
	srtp := []dtls.SRTPProtectionProfile{dtls.SRTP_AES128_CM_HMAC_SHA1_80}
	full := world.Cfg{CIDLen: 4, SRTP: srtp, ALPN: []string{"a", "b"}}
	nocid := world.Cfg{SRTP: srtp, ALPN: []string{"a"}}
	sendonly := world.Cfg{CIDLen: -1, ALPN: []string{"a"}}
	bases := map[string][2]world.Cfg{
		"12-cid4-srtp-alpn":     {full, full},
		"12-srtp-alpn":          {nocid, nocid},
		"12-cid-client-sendonly": {sendonly, full},
	}
	names := []string{"12-cid4-srtp-alpn", "12-srtp-alpn", "12-cid-client-sendonly"}
	var cases []run.Case
	for _, bn := range names {
		for _, msg := range []string{"ServerHello", "ClientHello"} {
			for _, tr := range transforms() {
				bn, msg, tr := bn, msg, tr
				cases = append(cases, run.Case{ID: fmt.Sprintf("hook/%s/%s/%s", bn, msg, tr.name), Run: func(t *testing.T) run.Outcome {
					var o run.Outcome
					a := hookRun(t, p, bases[bn], msg, tr, false, env.Seed+1)
					b := hookRun(t, p, bases[bn], msg, tr, true, env.Seed+1)
					o.Evals = 2
					o.NonTrivial = a.applied && b.applied && tr.name != "identity"
					o.Class = fmt.Sprintf("hooks:%s complete=%v", msg, a.cOK && a.sOK)
					same := bytes.Equal(a.wire, b.wire) && a.cOK == b.cOK && a.sOK == b.sOK && a.cCID == b.cCID && a.sCID == b.sCID && a.srtpC == b.srtpC && a.srtpS == b.srtpS &&
						a.alpnC == b.alpnC && a.alpnS == b.alpnS && a.emsC == b.emsC && a.emsS == b.emsS && a.c2s == b.c2s && a.s2c == b.s2c
					if !a.applied || !b.applied {
						o.Skip = true
						return o
					}
					if !same {
						o.Key = "hook-output-not-canonicalised:" + msg
						o.Violation = fmt.Sprintf("base=%s hook on %s, transformation %s: the library behaves differently for the hook's return value and for its encode-decode image: with the value as returned {%s}; with decode(encode(value)) {%s}", bn, msg, tr.name, a, b)
					}
					o.Sample = map[string]any{"base": bn, "message": msg, "transformation": tr.name, "completed": a.cOK && a.sOK}
					return o
				}})
			}
		}
	}
	run.Main(t, "C18", cases, map[string]any{"layer": "hello hooks (metamorphic: hook output vs its encode-decode image)", "transformations": len(transforms())})
}
