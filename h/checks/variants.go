package checks

import (
	"context"
	"fmt"
	"time"

	dtls "github.com/pion/dtls/v3"
	"github.com/pion/dtls/v3/zzverif/world"
)

// Variant is a named handshake flavour shared by several checks.
type Variant struct {
	Name    string
	V13     bool
	C, S    world.Cfg
	Resumed bool // run one clean full handshake over shared stores first
	// Interrupted (with Resumed): after the clean prelude a resumption attempt is cut off — the server's
	// abbreviated flight never arrives and both HandshakeContext calls run into their 3 s deadline, so no
	// fatal alert is exchanged — before the connection under test is set up.
	Interrupted bool
	// AliasStore (with Resumed): the session stores hand out their own slices (no defensive copies).
	AliasStore bool
	// Rewrite, when set, edits every datagram at emission (an on-path re-framer that turns this library's habits
	// into what another conforming implementation would put on the wire). Installed by Setup for the connection
	// under test.
	Rewrite func(d *world.Datagram)
}

var pskKey = []byte{0xAB, 0xC1, 0x23, 0x45, 0x67}

// Variants12 are the DTLS 1.2 handshake variants of C02 (and friends).
func Variants12() []Variant {
	return []Variant{
		{Name: "12-cert"},
		{Name: "12-psk", C: world.Cfg{Cred: "psk", PSK: pskKey, Suites: []dtls.CipherSuiteID{dtls.TLS_PSK_WITH_AES_128_GCM_SHA256}},
			S: world.Cfg{Cred: "psk", PSK: pskKey, Suites: []dtls.CipherSuiteID{dtls.TLS_PSK_WITH_AES_128_GCM_SHA256}}},
		{Name: "12-ecdhepsk", C: world.Cfg{Cred: "psk", PSK: pskKey, Suites: []dtls.CipherSuiteID{dtls.TLS_ECDHE_PSK_WITH_AES_128_CBC_SHA256}},
			S: world.Cfg{Cred: "psk", PSK: pskKey, Suites: []dtls.CipherSuiteID{dtls.TLS_ECDHE_PSK_WITH_AES_128_CBC_SHA256}}},
		{Name: "12-clientauth", C: world.Cfg{Cred: "ecdsa"}, S: world.Cfg{ClientAuth: dtls.RequireAndVerifyClientCert}},
		{Name: "12-resumed", Resumed: true},
		{Name: "12-mtu100", C: world.Cfg{MTU: 100}, S: world.Cfg{MTU: 100}},
		{Name: "12-nohv", S: world.Cfg{SkipHelloVerify: true}},
		{Name: "12-cid", C: world.Cfg{CIDLen: 4}, S: world.Cfg{CIDLen: 4}},
	}
}

// Variants13 are the DTLS 1.3 variants.
func Variants13() []Variant {
	v13 := func(c world.Cfg) world.Cfg { c.MinV, c.MaxV = 13, 13; return c }
	return []Variant{
		{Name: "13-hrr", V13: true, C: v13(world.Cfg{}), S: v13(world.Cfg{})},
		{Name: "13-direct", V13: true, C: v13(world.Cfg{}), S: v13(world.Cfg{SkipHelloVerify: true})},
		{Name: "13-clientauth", V13: true, C: v13(world.Cfg{Cred: "ecdsa"}), S: v13(world.Cfg{ClientAuth: dtls.RequireAndVerifyClientCert, SkipHelloVerify: true})},
		{Name: "dual-to13", V13: true, C: world.Cfg{MinV: 12, MaxV: 13}, S: world.Cfg{MinV: 12, MaxV: 13}},
		{Name: "dual-to12", C: world.Cfg{MinV: 12, MaxV: 13}, S: world.Cfg{MinV: 12, MaxV: 12}},
	}
}

// VariantsCombined are handshake variants that combine two non-default dimensions (used by C02 only).
func VariantsCombined() []Variant {
	return []Variant{
		// the peer is a conforming server that is not this library: HelloVerifyRequest.server_version = DTLS 1.0
		{Name: "12-hvr-version10", Rewrite: HVRVersion10},
		{Name: "12-psk-hvr-version10-mtu100", Rewrite: HVRVersion10, C: world.Cfg{MTU: 100, Cred: "psk", PSK: pskKey, Suites: []dtls.CipherSuiteID{dtls.TLS_PSK_WITH_AES_128_GCM_SHA256}},
			S: world.Cfg{MTU: 100, Cred: "psk", PSK: pskKey, Suites: []dtls.CipherSuiteID{dtls.TLS_PSK_WITH_AES_128_GCM_SHA256}}},
		{Name: "12-mtu100-store", C: world.Cfg{MTU: 100, Store: world.NewMapStore()}, S: world.Cfg{MTU: 100, Store: world.NewMapStore()}},
		{Name: "12-mtu100-resumed", Resumed: true, C: world.Cfg{MTU: 100}, S: world.Cfg{MTU: 100}},
		{Name: "12-mtu100-clientauth", C: world.Cfg{MTU: 100, Cred: "ecdsa"}, S: world.Cfg{MTU: 100, ClientAuth: dtls.RequireAndVerifyClientCert}},
		{Name: "12-cid-resumed", Resumed: true, C: world.Cfg{CIDLen: 4}, S: world.Cfg{CIDLen: 4}},
		{Name: "12-psk-mtu100", C: world.Cfg{MTU: 100, Cred: "psk", PSK: pskKey, Suites: []dtls.CipherSuiteID{dtls.TLS_PSK_WITH_AES_128_GCM_SHA256}},
			S: world.Cfg{MTU: 100, Cred: "psk", PSK: pskKey, Suites: []dtls.CipherSuiteID{dtls.TLS_PSK_WITH_AES_128_GCM_SHA256}}},
		// an MTU below the 12-byte Finished: the only DTLS 1.2 message sent protected is fragmented too (with a
		// connection ID every fragment travels in its own tls12_cid record)
		{Name: "12-psk-cid-mtu9", C: world.Cfg{MTU: 9, CIDLen: 4, Cred: "psk", PSK: pskKey, Suites: []dtls.CipherSuiteID{dtls.TLS_PSK_WITH_AES_128_GCM_SHA256}},
			S: world.Cfg{MTU: 9, CIDLen: 4, Cred: "psk", PSK: pskKey, Suites: []dtls.CipherSuiteID{dtls.TLS_PSK_WITH_AES_128_GCM_SHA256}}},
		{Name: "12-psk-mtu9", C: world.Cfg{MTU: 9, Cred: "psk", PSK: pskKey, Suites: []dtls.CipherSuiteID{dtls.TLS_PSK_WITH_AES_128_CCM_8}},
			S: world.Cfg{MTU: 9, Cred: "psk", PSK: pskKey, Suites: []dtls.CipherSuiteID{dtls.TLS_PSK_WITH_AES_128_CCM_8}}},
		// DTLS 1.3 with fragmented flights: partial ACKs and selective retransmission only exist here
		{Name: "13-mtu200", V13: true, C: world.Cfg{MinV: 13, MaxV: 13, MTU: 200}, S: world.Cfg{MinV: 13, MaxV: 13, MTU: 200, SkipHelloVerify: true}},
	}
}

// AllVariants returns 1.2 then 1.3 variants.
func AllVariants() []Variant { return append(Variants12(), Variants13()...) }

func findVariant(name string) (Variant, bool) {
	for _, v := range AllVariants() {
		if v.Name == name {
			return v, true
		}
	}
	return Variant{}, false
}

// Setup builds the pair for a variant inside world w. For resumed variants it first completes a
// clean full handshake over fresh shared stores and closes that connection.
func (v Variant) Setup(w *world.World, p *world.PKI) (*world.Pair, error) {
	pr, err := v.setup(w, p)
	return pr, err
}

// HVRVersion10 rewrites HelloVerifyRequest.server_version to DTLS 1.0, which is what RFC 6347 section 4.2.1 says a
// DTLS 1.2 server SHOULD send (the field must not be used for version negotiation; the message is outside the
// Finished transcript).
func HVRVersion10(d *world.Datagram) {
	b := d.Data
	if d.Src == world.ServerAddr && len(b) >= 13+12+2 && b[0] == 22 && b[3] == 0 && b[4] == 0 && b[13] == 3 {
		b[13+12], b[13+12+1] = 0xfe, 0xff
	}
}

func (v Variant) setup(w *world.World, p *world.PKI) (*world.Pair, error) {
	if v.Rewrite != nil {
		w.SetOnEmit(v.Rewrite)
	}
	c, s := v.C, v.S
	if v.Resumed {
		type lenStore interface {
			dtls.SessionStore
			Len() int
		}
		var cs, ss lenStore = world.NewMapStore(), world.NewMapStore()
		if v.AliasStore {
			cs, ss = world.NewAliasStore(), world.NewAliasStore()
		}
		c.Store, s.Store = cs, ss
		pr, err := w.NewPair(p, c, s)
		if err != nil {
			return nil, err
		}
		n := world.NewNet(w, world.ClientAddr, nil)
		if err := n.Pump(30*time.Second, pr.BothDone); err != nil || !pr.BothOK() {
			return nil, fmt.Errorf("resumption prelude failed: %v %v %v", err, pr.C.HS, pr.S.HS)
		}
		pr.CloseAll()
		if cs.Len() == 0 || ss.Len() == 0 {
			return nil, fmt.Errorf("resumption prelude stored no session (client %d, server %d)", cs.Len(), ss.Len())
		}
		if v.Interrupted {
			ce, err := w.NewEndpoint(p, true, world.ClientAddr, world.ServerAddr, c)
			if err != nil {
				return nil, err
			}
			se, err := w.NewEndpoint(p, false, world.ServerAddr, world.ClientAddr, s)
			if err != nil {
				return nil, err
			}
			ctx, cancel := context.WithTimeout(context.Background(), 3*time.Second)
			ce.HS = w.Go("client.Handshake(interrupted)", func(*world.Op) error { return ce.Conn.HandshakeContext(ctx) })
			w.Settle()
			se.HS = w.Go("server.Handshake(interrupted)", func(*world.Op) error { return se.Conn.HandshakeContext(ctx) })
			w.Settle()
			for i := 0; i < 400 && !(ce.HS.Done() && se.HS.Done()); i++ {
				w.Settle()
				d := w.Head()
				if d == nil {
					if !w.WaitActivity(500 * time.Millisecond) {
						continue
					}
					continue
				}
				w.Take(d)
				lost := false
				if d.Src == world.ServerAddr {
					recs, _ := world.ParseDatagram(d.Data, 0)
					for _, r := range recs {
						if r.Type == world.CTChangeCipherSpec || r.Epoch > 0 {
							lost = true // the abbreviated flight (ServerHello, ChangeCipherSpec, Finished) is lost, every time
						}
					}
				}
				if !lost {
					w.Push(d.Src, d.Dst, d.Data)
				}
			}
			cancel()
			w.Settle()
			_ = ce.Conn.Close()
			_ = se.Conn.Close()
			w.Settle()
			for _, d := range w.InFlight() {
				w.Take(d)
			}
		}
	}
	return w.NewPair(p, c, s)
}
