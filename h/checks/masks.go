package checks

import "github.com/pion/dtls/v3/zzverif/world"

// EnumMasks returns every mask with at most k faults over the first n datagrams of each direction,
// using the given fault actions, in deviation order (0 faults, then 1, then 2, ...).
func EnumMasks(n, k int, acts []world.Action) []world.Mask {
	type pos struct {
		c   bool
		idx int
	}
	var positions []pos
	for i := 0; i < n; i++ {
		positions = append(positions, pos{true, i}, pos{false, i})
	}
	out := []world.Mask{nil}
	var rec func(start int, cur world.Mask, left int)
	byLen := map[int][]world.Mask{}
	rec = func(start int, cur world.Mask, left int) {
		if len(cur) > 0 {
			byLen[len(cur)] = append(byLen[len(cur)], append(world.Mask(nil), cur...))
		}
		if left == 0 {
			return
		}
		for i := start; i < len(positions); i++ {
			for _, a := range acts {
				rec(i+1, append(cur, world.Fault{FromClient: positions[i].c, Idx: positions[i].idx, Act: a}), left-1)
			}
		}
	}
	rec(0, nil, k)
	for l := 1; l <= k; l++ {
		out = append(out, byLen[l]...)
	}
	return out
}

// AllFaultActions is every non-default delivery action.
var AllFaultActions = []world.Action{world.ActDrop, world.ActDup, world.ActSwap, world.ActHold1, world.ActHold3, world.ActDupLate}
