package checks

import (
	dtls "github.com/pion/dtls/v3"
	"github.com/pion/dtls/v3/pkg/protocol/extension"
	"github.com/pion/dtls/v3/pkg/protocol/handshake"
	"github.com/pion/dtls/v3/zzverif/world"
)

// Hello-hook configurations for C01. The public options WithServerHelloMessageHook /
// WithClientHelloMessageHook let an application rewrite a hello after the library has negotiated; the
// agreement property still has to hold for such a configuration: if the hook's output makes the two ends
// commit different values, at least one of them must fail the handshake. Every hook below replaces one
// negotiated value by another value that is *mutually supported* (so no peer-side offer check can catch
// it) or removes / adds one; the oracle is the unchanged agreement oracle.

var twoSRTP = []dtls.SRTPProtectionProfile{dtls.SRTP_AES128_CM_HMAC_SHA1_80, dtls.SRTP_AEAD_AES_128_GCM}

// rewriteExt returns a copy of exts where the extension of type t is replaced by f(payload) (dropped if f
// returns nil).
func rewriteExt(exts []extension.Value, t extension.Type, f func([]byte) []byte) []extension.Value {
	out := make([]extension.Value, 0, len(exts))
	for _, e := range exts {
		if e.ExtensionType() != t {
			out = append(out, e)
			continue
		}
		d, err := e.MarshalData()
		if err != nil {
			out = append(out, e)
			continue
		}
		if nd := f(append([]byte(nil), d...)); nd != nil {
			out = append(out, extension.Raw{Type: t, Data: nd})
		}
	}
	return out
}

func shHook(s *world.Cfg, f func(m *handshake.MessageServerHello)) {
	s.ExtraServer = append(append([]dtls.ServerOption(nil), s.ExtraServer...), dtls.WithServerHelloMessageHook(func(m handshake.MessageServerHello) handshake.Message {
		f(&m)
		return &m
	}))
}

func chHook(c *world.Cfg, f func(m *handshake.MessageClientHello)) {
	c.Extra = append(append([]dtls.Option(nil), c.Extra...), dtls.WithClientHelloMessageHook(func(m handshake.MessageClientHello) handshake.Message {
		f(&m)
		return &m
	}))
}

// HookDevs is the "hook" dimension of the C01 configuration catalogue.
func HookDevs() []Dev {
	drop := func([]byte) []byte { return nil }
	return []Dev{
		{Dim: "hook", Name: "hook=sh-srtp-other-common", Apply: func(c, s *world.Cfg) {
			c.SRTP, s.SRTP = twoSRTP, twoSRTP
			shHook(s, func(m *handshake.MessageServerHello) {
				m.Extensions = rewriteExt(m.Extensions, extension.TypeUseSRTP, func(d []byte) []byte {
					// profiles<2..> = len(2) id(2); mki<0..255>
					if len(d) >= 4 {
						if d[3] == byte(dtls.SRTP_AES128_CM_HMAC_SHA1_80) {
							d[2], d[3] = byte(dtls.SRTP_AEAD_AES_128_GCM>>8), byte(dtls.SRTP_AEAD_AES_128_GCM)
						} else {
							d[2], d[3] = 0, byte(dtls.SRTP_AES128_CM_HMAC_SHA1_80)
						}
					}
					return d
				})
			})
		}},
		{Dim: "hook", Name: "hook=sh-srtp-dropped", Apply: func(c, s *world.Cfg) {
			c.SRTP, s.SRTP = twoSRTP, twoSRTP
			shHook(s, func(m *handshake.MessageServerHello) { m.Extensions = rewriteExt(m.Extensions, extension.TypeUseSRTP, drop) })
		}},
		{Dim: "hook", Name: "hook=sh-alpn-other-common", Apply: func(c, s *world.Cfg) {
			c.ALPN, s.ALPN = []string{"a", "b"}, []string{"a", "b"}
			shHook(s, func(m *handshake.MessageServerHello) {
				m.Extensions = rewriteExt(m.Extensions, extension.TypeALPN, func(d []byte) []byte {
					if len(d) == 4 { // list len(2) name len(1) name(1)
						d[3] ^= 'a' ^ 'b'
					}
					return d
				})
			})
		}},
		{Dim: "hook", Name: "hook=sh-alpn-dropped", Apply: func(c, s *world.Cfg) {
			c.ALPN, s.ALPN = []string{"a", "b"}, []string{"a", "b"}
			shHook(s, func(m *handshake.MessageServerHello) { m.Extensions = rewriteExt(m.Extensions, extension.TypeALPN, drop) })
		}},
		{Dim: "hook", Name: "hook=sh-ems-dropped", Apply: func(c, s *world.Cfg) {
			shHook(s, func(m *handshake.MessageServerHello) { m.Extensions = rewriteExt(m.Extensions, extension.TypeExtendedMasterSecret, drop) })
		}},
		{Dim: "hook", Name: "hook=sh-cid-dropped", Apply: func(c, s *world.Cfg) {
			c.CIDLen, s.CIDLen = 4, 4
			shHook(s, func(m *handshake.MessageServerHello) { m.Extensions = rewriteExt(m.Extensions, extension.TypeConnectionID, drop) })
		}},
		{Dim: "hook", Name: "hook=sh-suite-other-common", Apply: func(c, s *world.Cfg) {
			both := []dtls.CipherSuiteID{dtls.TLS_ECDHE_ECDSA_WITH_AES_128_GCM_SHA256, dtls.TLS_ECDHE_ECDSA_WITH_AES_128_CCM}
			c.Suites, s.Suites = both, both
			shHook(s, func(m *handshake.MessageServerHello) {
				if m.CipherSuiteID != nil {
					id := uint16(both[0])
					if *m.CipherSuiteID == id {
						id = uint16(both[1])
					}
					m.CipherSuiteID = &id
				}
			})
		}},
		{Dim: "hook", Name: "hook=ch-srtp-offer-reordered", Apply: func(c, s *world.Cfg) {
			c.SRTP, s.SRTP = twoSRTP, []dtls.SRTPProtectionProfile{twoSRTP[1], twoSRTP[0]}
			chHook(c, func(m *handshake.MessageClientHello) {
				m.Extensions = rewriteExt(m.Extensions, extension.TypeUseSRTP, func(d []byte) []byte {
					if len(d) >= 6 && d[1] == 4 {
						d[2], d[3], d[4], d[5] = d[4], d[5], d[2], d[3]
					}
					return d
				})
			})
		}},
		{Dim: "hook", Name: "hook=ch-srtp-offer-unconfigured", Apply: func(c, s *world.Cfg) {
			// the client is configured with [80] but the hook offers [GCM, 80]; the server prefers GCM
			c.SRTP, s.SRTP = twoSRTP[:1], []dtls.SRTPProtectionProfile{twoSRTP[1], twoSRTP[0]}
			chHook(c, func(m *handshake.MessageClientHello) {
				m.Extensions = rewriteExt(m.Extensions, extension.TypeUseSRTP, func(d []byte) []byte {
					if len(d) >= 4 && d[1] == 2 {
						nd := []byte{0, 4, byte(dtls.SRTP_AEAD_AES_128_GCM >> 8), byte(dtls.SRTP_AEAD_AES_128_GCM), d[2], d[3]}
						return append(nd, d[4:]...)
					}
					return d
				})
			})
		}},
		{Dim: "hook", Name: "hook=ch-alpn-offer-unconfigured", Apply: func(c, s *world.Cfg) {
			c.ALPN, s.ALPN = []string{"a"}, []string{"b", "a"}
			chHook(c, func(m *handshake.MessageClientHello) {
				m.Extensions = rewriteExt(m.Extensions, extension.TypeALPN, func(d []byte) []byte {
					if len(d) == 4 {
						return []byte{0, 4, 1, 'b', 1, 'a'}
					}
					return d
				})
			})
		}},
	}
}
