package checks

import (
	"fmt"
	"regexp"
	"strings"
	"testing"
	"time"

	"github.com/pion/dtls/v3/zzverif/run"
	"github.com/pion/dtls/v3/zzverif/world"
)

// C02 — the handshake completes under any finite loss, duplication and reordering.
//
// Enumerated: handshake variant x every fault mask (<=k faults over the first N datagrams of each
// direction; fault kinds drop, dup, swap-with-successor, hold 1, hold 3, late duplicate).
// Oracle: both HandshakeContext calls return nil before a fake-time horizon derived from the
// retransmission schedule.

func horizonFor(m world.Mask) time.Duration {
	k := len(m)
	var sum time.Duration
	iv := time.Second
	for i := 0; i < k+3; i++ {
		sum += iv
		iv *= 2
		if iv > 60*time.Second {
			iv = 60 * time.Second
		}
	}
	h := 2 * sum
	for _, f := range m {
		if f.Act == world.ActSwap || f.Act == world.ActHold1 || f.Act == world.ActHold3 || f.Act == world.ActDupLate {
			h += world.HoldCap // a held datagram is released after at most HoldCap of fake time
		}
	}
	return h
}

// c02Key classifies a failing execution by its cause so that a known finding masks only its own cause
// (known_findings.txt); anything else stays a VIOLATION.
func c02Key(v Variant, pr *world.Pair, events []string) string {
	faulted := func(pred func(kind, rest string) bool) bool {
		for _, ev := range events {
			f := strings.Fields(ev)
			if len(f) < 3 {
				continue
			}
			kind := f[0]
			if kind == "deliver" || kind == "release" || kind == "tick" {
				continue
			}
			if pred(kind, strings.Join(f[2:], " ")) {
				return true
			}
		}
		return false
	}
	_, cerr := pr.C.HS.Result()
	cdone, sdone := pr.C.HS.Done(), pr.S.HS.Done()
	dualClient := v.C.MinV == 12 && v.C.MaxV == 13
	switch {
	case dualClient && v.S.MaxV == 13 && !cdone && !sdone:
		// fails with no fault at all: mask-independent
		return "dualstack-both-1.3-capable-never-starts"
	case dualClient && !cdone && !sdone && faulted(func(kind, rest string) bool {
		return kind == "DROP" && (strings.Contains(rest, "{ClientHello#0") || strings.Contains(rest, "{HelloVerifyRequest#0}"))
	}):
		return "dualstack-client-first-exchange-lost"
	case v.V13 && cerr != nil && strings.Contains(cerr.Error(), "unimplemented DTLS 1.3 flight") && faulted(func(kind, rest string) bool {
		return ackDatagram.MatchString(rest) // the server's final ACK datagram (single short epoch-3 record)
	}):
		return "dtls13-final-ack-lost-or-late-then-newsessionticket"
	case v.V13 && !v.S.SkipHelloVerify && !cdone && !sdone && faulted(func(kind, rest string) bool {
		return kind == "DROP" && strings.HasPrefix(rest, "97B{ServerHello#0}") // the HelloRetryRequest datagram
	}):
		return "dtls13-helloretryrequest-datagram-dropped"
	}
	return ""
}

var ackDatagram = regexp.MustCompile(`^[0-9]{2}B\{U\(e3,[0-9]{2}B\)\}$`)

func c02Run(t *testing.T, p *world.PKI, v Variant, m world.Mask, seed uint64) run.Outcome {
	var o run.Outcome
	world.Run(t, seed, func(w *world.World) {
		pr, err := v.Setup(w, p)
		if err != nil {
			o.Violation = "setup: " + err.Error()
			return
		}
		n := world.NewNet(w, world.ClientAddr, m)
		tr := pr.Trace(n)
		hz := horizonFor(m)
		perr := n.Pump(hz, pr.BothDone)
		o.States, o.Transitions = tr.States, tr.Trans
		o.NonTrivial = n.Faulted == len(m) && len(m) > 0
		lat := w.Now()
		cd, cerr := pr.C.HS.Result()
		sd, serr := pr.S.HS.Result()
		switch {
		case cd && sd && cerr == nil && serr == nil:
			o.Class = fmt.Sprintf("ok@%ds", int(lat.Seconds()))
		default:
			o.Class = "FAILED"
			o.Key = c02Key(v, pr, n.Events)
			o.Violation = fmt.Sprintf("variant=%s mask=%s: handshake did not complete within %v of fake time (pump=%v): client=%v server=%v; fsm client=%q server=%q; events=%s",
				v.Name, m, hz, perr, pr.C.HS, pr.S.HS, pr.C.Log.LastFSM(), pr.S.Log.LastFSM(), strings.Join(n.Events, " | "))
		}
		o.Sample = map[string]any{"variant": v.Name, "mask": m.String(), "outcome": o.Class, "events": n.Events}
		o.Counters = map[string]int{"retransmission_ticks": countPrefix(n.Events, "tick")}
		pr.CloseAll()
	})
	return o
}

func countPrefix(evs []string, p string) int {
	c := 0
	for _, e := range evs {
		if strings.HasPrefix(e, p) {
			c++
		}
	}
	return c
}

func TestC02(t *testing.T) {
	env := run.GetEnv()
	p := world.GetPKI(t)
	n, k := 6, 2
	var masks []world.Mask
	if env.Thorough() {
		masks = EnumMasks(8, 2, AllFaultActions)
		// all 2^12 drop-only masks over N=6 (beyond those already present)
		for bits := 0; bits < 1<<12; bits++ {
			var m world.Mask
			for i := 0; i < 12; i++ {
				if bits&(1<<i) != 0 {
					m = append(m, world.Fault{FromClient: i%2 == 0, Idx: i / 2, Act: world.ActDrop})
				}
			}
			if len(m) > 2 {
				masks = append(masks, m)
			}
		}
		n, k = 8, 2
	} else {
		masks = EnumMasks(n, k, AllFaultActions)
	}
	var cases []run.Case
	for _, v := range append(AllVariants(), VariantsCombined()...) {
		for _, m := range masks {
			v, m := v, m
			cases = append(cases, run.Case{ID: v.Name + "/" + m.String(), Run: func(t *testing.T) run.Outcome { return c02Run(t, p, v, m, env.Seed+1) }})
		}
	}
	// Acknowledgement loss on top of fragment loss (DTLS 1.3 with fragmented flights only: partial ACKs and
	// selective retransmission): one of the first 18 datagrams of one side is lost AND the first 1..3
	// datagrams the other side emits after its own first flight (in such a run: its ACKs) are lost as well.
	// The length of each side's first flight is measured on the variant's fault-free run.
	for _, v := range VariantsCombined() {
		if !v.V13 || v.S.MTU == 0 {
			continue
		}
		first := map[bool]int{}
		world.Run(t, env.Seed+1, func(w *world.World) {
			pr, err := v.Setup(w, p)
			if err != nil {
				return
			}
			n := world.NewNet(w, world.ClientAddr, nil)
			_ = n.Pump(20*time.Second, pr.BothDone)
			n.Flush()
			// a side's first flight = its datagrams emitted before the other side's second burst
			var order []bool
			for _, d := range w.Emitted() {
				if d.ID >= pr.FirstID {
					order = append(order, d.Src == world.ClientAddr)
				}
			}
			for _, side := range []bool{true, false} {
				seenSelf, cnt := false, 0
				for _, c := range order {
					if c == side {
						seenSelf = true
						cnt++
					} else if seenSelf {
						break
					}
				}
				first[side] = cnt
			}
			pr.CloseAll()
		})
		seen := map[string]bool{}
		for _, m := range masks {
			seen[m.String()] = true
		}
		for _, fromClient := range []bool{false, true} {
			for idx := 0; idx < 18; idx++ {
				for j := 1; j <= 3; j++ {
					m := world.Mask{{FromClient: fromClient, Idx: idx, Act: world.ActDrop}}
					for a := 0; a < j; a++ {
						m = append(m, world.Fault{FromClient: !fromClient, Idx: first[!fromClient] + a, Act: world.ActDrop})
					}
					if seen[m.String()] {
						continue
					}
					seen[m.String()] = true
					v, m := v, m
					cases = append(cases, run.Case{ID: v.Name + "/" + m.String(), Run: func(t *testing.T) run.Outcome { return c02Run(t, p, v, m, env.Seed+1) }})
				}
			}
		}
	}
	run.Main(t, "C02", cases, map[string]any{"ack_loss_family": "13-mtu200: one of the first 18 datagrams of a side dropped x the first j<=3 datagrams the other side emits after its own first flight dropped", "N_per_direction": n, "max_faults": k, "fault_kinds": fmt.Sprint(AllFaultActions),
		"variants": len(AllVariants()) + len(VariantsCombined()), "masks": len(masks), "thorough_extra": "all 2^12 drop-only masks over N=6"})
}
