package checks

import (
	"testing"
	"time"

	"github.com/pion/dtls/v3/zzverif/world"
)

func TestSmoke(t *testing.T) {
	p := world.GetPKI(t)
	for _, v := range []int{12, 13} {
		world.Run(t, 1, func(w *world.World) {
			pr, err := w.NewPair(p, world.Cfg{MinV: v, MaxV: v}, world.Cfg{MinV: v, MaxV: v})
			if err != nil {
				t.Fatal(err)
			}
			n := world.NewNet(w, world.ClientAddr, nil)
			err = n.Pump(30*time.Second, pr.BothDone)
			t.Logf("v=%d pump err=%v c=%v s=%v now=%v", v, err, pr.C.HS, pr.S.HS, w.Now())
			for _, e := range n.Events {
				t.Log(e)
			}
			pr.CloseAll()
		})
	}
}
