package checks

import (
	"bytes"
	"crypto/tls"
	"fmt"
	"sort"
	"strings"
	"testing"
	"time"

	dtls "github.com/pion/dtls/v3"
	"github.com/pion/dtls/v3/pkg/crypto/elliptic"
	"github.com/pion/dtls/v3/zzverif/run"
	"github.com/pion/dtls/v3/zzverif/world"
)

// C01 — handshake agreement. Enumerated: all configuration pairs with <=k configuration deviations
// (one value per dimension) x all delivery masks with <=d faults. Oracle: differential between the
// two endpoints and the configuration (no hand-written expected values).

// Dev is one configuration deviation: a named edit of the (client, server) configuration pair.
type Dev struct {
	Dim, Name string
	Apply     func(c, s *world.Cfg)
	Resumed   bool
}

func suiteDev(name string, id dtls.CipherSuiteID, cred string) Dev {
	return Dev{Dim: "suite", Name: "suite=" + name, Apply: func(c, s *world.Cfg) {
		c.Suites, s.Suites = []dtls.CipherSuiteID{id}, []dtls.CipherSuiteID{id}
		switch cred {
		case "psk":
			c.Cred, s.Cred, c.PSK, s.PSK = "psk", "psk", pskKey, pskKey
		default:
			s.Cred = cred
		}
	}}
}

// ConfigDevs is the catalogue of non-default configuration values.
func ConfigDevs() []Dev {
	d := []Dev{
		suiteDev("ECDSA-CCM", dtls.TLS_ECDHE_ECDSA_WITH_AES_128_CCM, "ecdsa"),
		suiteDev("ECDSA-CCM8", dtls.TLS_ECDHE_ECDSA_WITH_AES_128_CCM_8, "ecdsa"),
		suiteDev("ECDSA-GCM128", dtls.TLS_ECDHE_ECDSA_WITH_AES_128_GCM_SHA256, "ecdsa"),
		suiteDev("ECDSA-GCM256", dtls.TLS_ECDHE_ECDSA_WITH_AES_256_GCM_SHA384, "ecdsa"),
		suiteDev("ECDSA-CBC", dtls.TLS_ECDHE_ECDSA_WITH_AES_256_CBC_SHA, "ecdsa"),
		suiteDev("ECDSA-CHACHA", dtls.TLS_ECDHE_ECDSA_WITH_CHACHA20_POLY1305_SHA256, "ecdsa"),
		suiteDev("RSA-GCM128", dtls.TLS_ECDHE_RSA_WITH_AES_128_GCM_SHA256, "rsa"),
		suiteDev("RSA-GCM256", dtls.TLS_ECDHE_RSA_WITH_AES_256_GCM_SHA384, "rsa"),
		suiteDev("RSA-CBC", dtls.TLS_ECDHE_RSA_WITH_AES_256_CBC_SHA, "rsa"),
		suiteDev("RSA-CHACHA", dtls.TLS_ECDHE_RSA_WITH_CHACHA20_POLY1305_SHA256, "rsa"),
		suiteDev("ED25519-GCM128", dtls.TLS_ECDHE_ECDSA_WITH_AES_128_GCM_SHA256, "ed25519"),
		suiteDev("PSK-CCM", dtls.TLS_PSK_WITH_AES_128_CCM, "psk"),
		suiteDev("PSK-CCM8", dtls.TLS_PSK_WITH_AES_128_CCM_8, "psk"),
		suiteDev("PSK-CCM8-256", dtls.TLS_PSK_WITH_AES_256_CCM_8, "psk"),
		suiteDev("PSK-GCM", dtls.TLS_PSK_WITH_AES_128_GCM_SHA256, "psk"),
		suiteDev("PSK-CBC", dtls.TLS_PSK_WITH_AES_128_CBC_SHA256, "psk"),
		suiteDev("PSK-CHACHA", dtls.TLS_PSK_WITH_CHACHA20_POLY1305_SHA256, "psk"),
		suiteDev("ECDHEPSK-CBC", dtls.TLS_ECDHE_PSK_WITH_AES_128_CBC_SHA256, "psk"),
		{Dim: "suite", Name: "suites=c[GCM128,CBC]/s[CBC,GCM128]", Apply: func(c, s *world.Cfg) {
			c.Suites = []dtls.CipherSuiteID{dtls.TLS_ECDHE_ECDSA_WITH_AES_128_GCM_SHA256, dtls.TLS_ECDHE_ECDSA_WITH_AES_256_CBC_SHA}
			s.Suites = []dtls.CipherSuiteID{dtls.TLS_ECDHE_ECDSA_WITH_AES_256_CBC_SHA, dtls.TLS_ECDHE_ECDSA_WITH_AES_128_GCM_SHA256}
		}},
		{Dim: "suite", Name: "suites=c[PSK-GCM,ECDSA-GCM]+both-creds", Apply: func(c, s *world.Cfg) {
			c.Suites = []dtls.CipherSuiteID{dtls.TLS_PSK_WITH_AES_128_GCM_SHA256, dtls.TLS_ECDHE_ECDSA_WITH_AES_128_GCM_SHA256}
			s.Suites = []dtls.CipherSuiteID{dtls.TLS_ECDHE_ECDSA_WITH_AES_128_GCM_SHA256, dtls.TLS_PSK_WITH_AES_128_GCM_SHA256}
			c.PSK, s.PSK = pskKey, pskKey
		}},
		{Dim: "version", Name: "v=1.3", Apply: func(c, s *world.Cfg) { c.MinV, c.MaxV, s.MinV, s.MaxV = 13, 13, 13, 13 }},
		{Dim: "version", Name: "v=c[1.2,1.3]/s1.2", Apply: func(c, s *world.Cfg) { c.MinV, c.MaxV = 12, 13 }},
		{Dim: "version", Name: "v=c1.2/s[1.2,1.3]", Apply: func(c, s *world.Cfg) { s.MinV, s.MaxV = 12, 13 }},
		{Dim: "version", Name: "v=c[1.2,1.3]/s1.3", Apply: func(c, s *world.Cfg) { c.MinV, c.MaxV, s.MinV, s.MaxV = 12, 13, 13, 13 }},
		{Dim: "curve", Name: "curve=X25519", Apply: func(c, s *world.Cfg) { c.Curves, s.Curves = []elliptic.Curve{elliptic.X25519}, []elliptic.Curve{elliptic.X25519} }},
		{Dim: "curve", Name: "curve=P256", Apply: func(c, s *world.Cfg) { c.Curves, s.Curves = []elliptic.Curve{elliptic.P256}, []elliptic.Curve{elliptic.P256} }},
		{Dim: "curve", Name: "curve=P384", Apply: func(c, s *world.Cfg) { c.Curves, s.Curves = []elliptic.Curve{elliptic.P384}, []elliptic.Curve{elliptic.P384} }},
		{Dim: "curve", Name: "curve=c[P256,X25519]/s[X25519,P384]", Apply: func(c, s *world.Cfg) {
			c.Curves, s.Curves = []elliptic.Curve{elliptic.P256, elliptic.X25519}, []elliptic.Curve{elliptic.X25519, elliptic.P384}
		}},
		{Dim: "ems", Name: "ems=c-require", Apply: func(c, s *world.Cfg) { c.EMS = 1 }},
		{Dim: "ems", Name: "ems=s-require", Apply: func(c, s *world.Cfg) { s.EMS = 1 }},
		{Dim: "ems", Name: "ems=both-disable", Apply: func(c, s *world.Cfg) { c.EMS, s.EMS = 2, 2 }},
		{Dim: "ems", Name: "ems=c-disable", Apply: func(c, s *world.Cfg) { c.EMS = 2 }},
		{Dim: "ems", Name: "ems=s-disable", Apply: func(c, s *world.Cfg) { s.EMS = 2 }},
		{Dim: "clientauth", Name: "ca=request+cert", Apply: func(c, s *world.Cfg) { s.ClientAuth = dtls.RequestClientCert; c.Cred = "ecdsa" }},
		{Dim: "clientauth", Name: "ca=request-nocert", Apply: func(c, s *world.Cfg) { s.ClientAuth = dtls.RequestClientCert }},
		{Dim: "clientauth", Name: "ca=requireany+cert", Apply: func(c, s *world.Cfg) { s.ClientAuth = dtls.RequireAnyClientCert; c.Cred = "ecdsa" }},
		{Dim: "clientauth", Name: "ca=verifyifgiven+cert", Apply: func(c, s *world.Cfg) { s.ClientAuth = dtls.VerifyClientCertIfGiven; c.Cred = "ecdsa" }},
		{Dim: "clientauth", Name: "ca=verifyifgiven-nocert", Apply: func(c, s *world.Cfg) { s.ClientAuth = dtls.VerifyClientCertIfGiven }},
		{Dim: "clientauth", Name: "ca=requireverify+ecdsa", Apply: func(c, s *world.Cfg) { s.ClientAuth = dtls.RequireAndVerifyClientCert; c.Cred = "ecdsa" }},
		{Dim: "clientauth", Name: "ca=requireverify+rsa", Apply: func(c, s *world.Cfg) { s.ClientAuth = dtls.RequireAndVerifyClientCert; c.Cred = "rsa" }},
		{Dim: "clientauth", Name: "ca=requireverify+ed25519", Apply: func(c, s *world.Cfg) { s.ClientAuth = dtls.RequireAndVerifyClientCert; c.Cred = "ed25519" }},
		{Dim: "clientauth", Name: "ca=none+cert-unrequested", Apply: func(c, s *world.Cfg) { c.Cred = "ecdsa" }},
		{Dim: "cid", Name: "cid=both4", Apply: func(c, s *world.Cfg) { c.CIDLen, s.CIDLen = 4, 4 }},
		{Dim: "cid", Name: "cid=c8/s1", Apply: func(c, s *world.Cfg) { c.CIDLen, s.CIDLen = 8, 1 }},
		{Dim: "cid", Name: "cid=c4-only", Apply: func(c, s *world.Cfg) { c.CIDLen = 4 }},
		{Dim: "cid", Name: "cid=s4-only", Apply: func(c, s *world.Cfg) { s.CIDLen = 4 }},
		{Dim: "cid", Name: "cid=c-sendonly/s4", Apply: func(c, s *world.Cfg) { c.CIDLen, s.CIDLen = -1, 4 }},
		{Dim: "cid", Name: "cid=c4/s-sendonly", Apply: func(c, s *world.Cfg) { c.CIDLen, s.CIDLen = 4, -1 }},
		{Dim: "cid", Name: "cid=both-sendonly", Apply: func(c, s *world.Cfg) { c.CIDLen, s.CIDLen = -1, -1 }},
		{Dim: "srtp", Name: "srtp=both[80]", Apply: func(c, s *world.Cfg) {
			c.SRTP, s.SRTP = []dtls.SRTPProtectionProfile{dtls.SRTP_AES128_CM_HMAC_SHA1_80}, []dtls.SRTPProtectionProfile{dtls.SRTP_AES128_CM_HMAC_SHA1_80}
		}},
		{Dim: "srtp", Name: "srtp=c[80,GCM]/s[GCM,32]", Apply: func(c, s *world.Cfg) {
			c.SRTP = []dtls.SRTPProtectionProfile{dtls.SRTP_AES128_CM_HMAC_SHA1_80, dtls.SRTP_AEAD_AES_128_GCM}
			s.SRTP = []dtls.SRTPProtectionProfile{dtls.SRTP_AEAD_AES_128_GCM, dtls.SRTP_AES128_CM_HMAC_SHA1_32}
		}},
		{Dim: "srtp", Name: "srtp=both[80]+mki", Apply: func(c, s *world.Cfg) {
			c.SRTP, s.SRTP = []dtls.SRTPProtectionProfile{dtls.SRTP_AES128_CM_HMAC_SHA1_80}, []dtls.SRTPProtectionProfile{dtls.SRTP_AES128_CM_HMAC_SHA1_80}
			c.MKI, s.MKI = []byte{0xC1, 0xC2}, []byte{0x51, 0x52, 0x53}
		}},
		{Dim: "srtp", Name: "srtp=both[80]+same-mki", Apply: func(c, s *world.Cfg) {
			c.SRTP, s.SRTP = []dtls.SRTPProtectionProfile{dtls.SRTP_AES128_CM_HMAC_SHA1_80}, []dtls.SRTPProtectionProfile{dtls.SRTP_AES128_CM_HMAC_SHA1_80}
			c.MKI, s.MKI = []byte{0xA1, 0xA2}, []byte{0xA1, 0xA2}
		}},
		{Dim: "srtp", Name: "srtp=c-only", Apply: func(c, s *world.Cfg) { c.SRTP = []dtls.SRTPProtectionProfile{dtls.SRTP_AES128_CM_HMAC_SHA1_80} }},
		{Dim: "alpn", Name: "alpn=both[a]", Apply: func(c, s *world.Cfg) { c.ALPN, s.ALPN = []string{"a"}, []string{"a"} }},
		{Dim: "alpn", Name: "alpn=c[a,b]/s[b,c]", Apply: func(c, s *world.Cfg) { c.ALPN, s.ALPN = []string{"a", "b"}, []string{"b", "c"} }},
		{Dim: "alpn", Name: "alpn=c-only", Apply: func(c, s *world.Cfg) { c.ALPN = []string{"a"} }},
		{Dim: "alpn", Name: "alpn=s-only", Apply: func(c, s *world.Cfg) { s.ALPN = []string{"a"} }},
		{Dim: "mtu", Name: "mtu=both100", Apply: func(c, s *world.Cfg) { c.MTU, s.MTU = 100, 100 }},
		{Dim: "mtu", Name: "mtu=c60/s300", Apply: func(c, s *world.Cfg) { c.MTU, s.MTU = 60, 300 }},
		{Dim: "hv", Name: "helloverify=off", Apply: func(c, s *world.Cfg) { s.SkipHelloVerify = true }},
		{Dim: "store", Name: "store=fresh", Apply: func(c, s *world.Cfg) { c.Store, s.Store = world.NewMapStore(), world.NewMapStore() }},
		{Dim: "store", Name: "store=resumed", Resumed: true, Apply: func(c, s *world.Cfg) {}},
		{Dim: "sig", Name: "sig=ECDSA-P256-SHA256-only", Apply: func(c, s *world.Cfg) {
			c.SigSchemes, s.SigSchemes = []tls.SignatureScheme{tls.ECDSAWithP256AndSHA256}, []tls.SignatureScheme{tls.ECDSAWithP256AndSHA256}
		}},
		{Dim: "verify", Name: "verify=skip", Apply: func(c, s *world.Cfg) { c.Verify, s.Verify = "skip", "skip" }},
		{Dim: "pad", Name: "padding=7", Apply: func(c, s *world.Cfg) { c.Padding, s.Padding = 7, 7 }},
		{Dim: "window", Name: "replaywindow=2", Apply: func(c, s *world.Cfg) { c.ReplayWindow, s.ReplayWindow = 2, 2 }},
	}
	return d
}

// DevSets enumerates all sets of at most k deviations with pairwise distinct dimensions.
func DevSets(devs []Dev, k int) [][]Dev {
	out := [][]Dev{nil}
	byLen := map[int][][]Dev{}
	var rec func(start int, cur []Dev)
	rec = func(start int, cur []Dev) {
		if len(cur) > 0 {
			byLen[len(cur)] = append(byLen[len(cur)], append([]Dev(nil), cur...))
		}
		if len(cur) == k {
			return
		}
	next:
		for i := start; i < len(devs); i++ {
			for _, c := range cur {
				if c.Dim == devs[i].Dim {
					continue next
				}
			}
			rec(i+1, append(cur, devs[i]))
		}
	}
	rec(0, nil)
	for l := 1; l <= k; l++ {
		out = append(out, byLen[l]...)
	}
	return out
}

func devSetName(ds []Dev) string {
	if len(ds) == 0 {
		return "default"
	}
	n := make([]string, len(ds))
	for i, d := range ds {
		n[i] = d.Name
	}
	return strings.Join(n, "&")
}

func buildVariant(ds []Dev) Variant {
	v := Variant{Name: devSetName(ds)}
	for _, d := range ds {
		d.Apply(&v.C, &v.S)
		if d.Resumed {
			v.Resumed = true
		}
	}
	v.V13 = v.C.MaxV == 13 && v.S.MaxV == 13
	return v
}

var exporterLabels = []string{"EXTRACTOR-dtls_srtp", "EXPERIMENTAL-verif-a", "EXPERIMENTAL-verif-b"}

// agreement evaluates the C01 oracle on an established pair; returns "" if everything agrees.
func agreement(p *world.PKI, pr *world.Pair, n *world.Net, v Variant) string {
	cs, cok := pr.C.Conn.ConnectionState()
	ss, sok := pr.S.Conn.ConnectionState()
	if !cok || !sok {
		return fmt.Sprintf("ConnectionState unavailable after successful handshake (client %v server %v)", cok, sok)
	}
	csn, ssn := pr.C.Snapshot(), pr.S.Snapshot()
	if csn.Version != ssn.Version {
		return fmt.Sprintf("protocol version differs: client %s server %s", csn.Version, ssn.Version)
	}
	if cs.CipherSuiteID != ss.CipherSuiteID {
		return fmt.Sprintf("cipher suite differs: client %v server %v", cs.CipherSuiteID, ss.CipherSuiteID)
	}
	for _, label := range exporterLabels {
		for _, ln := range []int{16, 47} {
			a, ea := cs.ExportKeyingMaterial(label, nil, ln)
			b, eb := ss.ExportKeyingMaterial(label, nil, ln)
			if ea != nil || eb != nil {
				return fmt.Sprintf("exporter error label %q: client %v server %v", label, ea, eb)
			}
			if !bytes.Equal(a, b) || len(a) != ln {
				return fmt.Sprintf("exported keying material differs for label %q len %d: %x vs %x", label, ln, a, b)
			}
		}
	}
	if !bytes.Equal(csn.LocalCID, ssn.RemoteCID) || !bytes.Equal(csn.RemoteCID, ssn.LocalCID) {
		return fmt.Sprintf("connection IDs not mirrored: client local %x remote %x; server local %x remote %x", csn.LocalCID, csn.RemoteCID, ssn.LocalCID, ssn.RemoteCID)
	}
	if len(csn.LocalCID) > 0 && (v.C.CIDLen <= 0 || len(csn.LocalCID) != v.C.CIDLen || (csn.LocalCID[0] != 'C' && v.C.CIDLen > 1)) {
		return fmt.Sprintf("client local CID %x is not an output of the client's generator (len %d)", csn.LocalCID, v.C.CIDLen)
	}
	if len(ssn.LocalCID) > 0 && (v.S.CIDLen <= 0 || len(ssn.LocalCID) != v.S.CIDLen || (ssn.LocalCID[0] != 'S' && v.S.CIDLen > 1)) {
		return fmt.Sprintf("server local CID %x is not an output of the server's generator (len %d)", ssn.LocalCID, v.S.CIDLen)
	}
	if cs.NegotiatedProtocol != ss.NegotiatedProtocol {
		return fmt.Sprintf("ALPN differs: client %q server %q", cs.NegotiatedProtocol, ss.NegotiatedProtocol)
	}
	cp, cpok := pr.C.Conn.SelectedSRTPProtectionProfile()
	sp, spok := pr.S.Conn.SelectedSRTPProtectionProfile()
	if cp != sp || cpok != spok {
		return fmt.Sprintf("SRTP profile differs: client %v(%v) server %v(%v)", cp, cpok, sp, spok)
	}
	if cpok {
		// RFC 5764 4.1.1: the client offers its MKI; the server echoes it only if it accepts exactly
		// that value, otherwise it answers with an empty MKI.
		cm, _ := pr.C.Conn.RemoteSRTPMasterKeyIdentifier()
		sm, _ := pr.S.Conn.RemoteSRTPMasterKeyIdentifier()
		var wantAtClient []byte
		if len(v.C.MKI) > 0 && bytes.Equal(v.C.MKI, v.S.MKI) {
			wantAtClient = v.C.MKI
		}
		if !bytes.Equal(sm, v.C.MKI) || !bytes.Equal(cm, wantAtClient) {
			return fmt.Sprintf("SRTP MKI not mirrored: server sees %x (client offered %x), client sees %x (expected %x; server accepts %x)", sm, v.C.MKI, cm, wantAtClient, v.S.MKI)
		}
	}
	// peer certificate chains
	wantAtClient := presented(p, v.S, false, cs.CipherSuiteID)
	if abbreviated(pr) {
		wantAtClient = nil // nothing is presented in an abbreviated handshake
	}
	if !chainsEqual(cs.PeerCertificates, wantAtClient) {
		return fmt.Sprintf("client's view of the server chain (%d certs) is not what the server presented (%d certs)", len(cs.PeerCertificates), len(wantAtClient))
	}
	var wantAtServer [][]byte
	if v.S.ClientAuth != dtls.NoClientCert && !isPSKSuite(cs.CipherSuiteID) && !abbreviated(pr) {
		wantAtServer = presented(p, v.C, true, cs.CipherSuiteID)
	}
	if !chainsEqual(ss.PeerCertificates, wantAtServer) {
		return fmt.Sprintf("server's view of the client chain (%d certs) is not what the client presented (%d certs)", len(ss.PeerCertificates), len(wantAtServer))
	}
	// key log (DTLS 1.2 writes "CLIENT_RANDOM <random> <master secret>"): the master secrets must agree.
	// (Which random labels the line is a wire-conformance matter, checked by C10.)
	if ck, sk := keyLogSecrets(pr.C.KeyLog.String()), keyLogSecrets(pr.S.KeyLog.String()); ck != sk {
		return fmt.Sprintf("key-log master secrets differ: client %q server %q", ck, sk)
	}
	// data both ways
	for i, dir := range [][2]*world.Endpoint{{pr.C, pr.S}, {pr.S, pr.C}} {
		payload := []byte(fmt.Sprintf("verif-payload-%d-%s", i, dir[0].Name))
		got, rerr, werr := pr.Transfer(n, dir[0], dir[1], payload, 5*time.Second)
		if werr != nil || rerr != nil || !bytes.Equal(got, payload) {
			return fmt.Sprintf("application data %s->%s failed: write=%v read=%v got=%q", dir[0].Name, dir[1].Name, werr, rerr, got)
		}
	}
	return ""
}

// abbreviated reports whether this connection's handshake was an abbreviated (resumed) one, judged
// from the wire: the server never sent a Certificate / ServerKeyExchange / ServerHelloDone.
func abbreviated(pr *world.Pair) bool {
	if pr.C.Snapshot().Version != "254.253" {
		return false // DTLS 1.3 has no abbreviated handshake here (and its flight is encrypted)
	}
	sawServerHello, sawFull := false, false
	for _, d := range pr.W.Emitted() {
		if d.Src != pr.S.Addr || d.ID < pr.FirstID {
			continue
		}
		recs, _ := world.ParseDatagram(d.Data, 0)
		for _, r := range recs {
			for _, f := range r.HS {
				switch f.Type {
				case 2:
					sawServerHello = true
				case 11, 12, 14:
					sawFull = true
				}
			}
		}
	}
	return sawServerHello && !sawFull
}

// keyLogSecrets returns the last secret field of the key log (the connection under test).
func keyLogSecrets(log string) string {
	lines := strings.Split(strings.TrimSpace(log), "\n")
	f := strings.Fields(lines[len(lines)-1])
	if len(f) == 3 {
		return f[2]
	}
	return ""
}

func isPSKSuite(id dtls.CipherSuiteID) bool {
	switch id {
	case dtls.TLS_PSK_WITH_AES_128_CCM, dtls.TLS_PSK_WITH_AES_128_CCM_8, dtls.TLS_PSK_WITH_AES_256_CCM_8, dtls.TLS_PSK_WITH_AES_128_GCM_SHA256,
		dtls.TLS_PSK_WITH_AES_128_CBC_SHA256, dtls.TLS_PSK_WITH_CHACHA20_POLY1305_SHA256, dtls.TLS_ECDHE_PSK_WITH_AES_128_CBC_SHA256:
		return true
	}
	return false
}

// presented returns the chain the endpoint with configuration c presents.
func presented(p *world.PKI, c world.Cfg, isClient bool, suite dtls.CipherSuiteID) [][]byte {
	if isPSKSuite(suite) {
		return nil
	}
	cred := c.Cred
	if cred == "" && !isClient {
		cred = "ecdsa"
	}
	if c.Cert != nil {
		return c.Cert.Certificate
	}
	if cert := world.CertFor(p, cred, isClient); cert != nil {
		return cert.Certificate
	}
	return nil
}

func chainsEqual(a, b [][]byte) bool {
	if len(a) != len(b) {
		return false
	}
	for i := range a {
		if !bytes.Equal(a[i], b[i]) {
			return false
		}
	}
	return true
}

func c01Run(t *testing.T, p *world.PKI, ds []Dev, m world.Mask, seed uint64) run.Outcome {
	var o run.Outcome
	world.Run(t, seed, func(w *world.World) {
		v := buildVariant(ds)
		pr, err := v.Setup(w, p)
		if err != nil {
			o.Class = "config-rejected"
			o.Skip = true
			return
		}
		n := world.NewNet(w, world.ClientAddr, m)
		tr := pr.Trace(n)
		_ = n.Pump(horizonFor(m), pr.BothDone)
		o.States, o.Transitions = tr.States, tr.Trans
		if !pr.BothOK() {
			// Not this property's business (C02 / C11 own completion); counted for non-vacuity.
			o.Class = "not-both-established"
			pr.CloseAll()
			return
		}
		o.NonTrivial = true
		n.ClearFaults() // the fault mask quantifies over handshake datagrams; data flows over a reliable network
		n.Flush()
		if msg := agreement(p, pr, n, v); msg != "" {
			o.Violation = fmt.Sprintf("config=%s mask=%s: %s", v.Name, m, msg)
			o.Key = ""
			o.Class = "DISAGREE"
		} else {
			sn := pr.C.Snapshot()
			o.Class = fmt.Sprintf("agree v%s suite%#04x cid%d/%d", sn.Version, sn.SuiteID, len(sn.LocalCID), len(sn.RemoteCID))
		}
		o.Sample = map[string]any{"config": v.Name, "mask": m.String(), "outcome": o.Class}
		pr.CloseAll()
	})
	return o
}

func TestC01(t *testing.T) {
	env := run.GetEnv()
	p := world.GetPKI(t)
	devs := append(append(ConfigDevs(), HookDevs()...), MoreDevs()...)
	kc, nd, kd := 2, 6, 1
	if env.Thorough() {
		kc, nd, kd = 2, 6, 2
	}
	sets := DevSets(devs, kc)
	masks := EnumMasks(nd, kd, AllFaultActions)
	var cases []run.Case
	for _, ds := range sets {
		for _, m := range masks {
			ds, m := ds, m
			cases = append(cases, run.Case{ID: devSetName(ds) + "/" + m.String(), Run: func(t *testing.T) run.Outcome { return c01Run(t, p, ds, m, env.Seed+1) }})
		}
	}
	dims := map[string]bool{}
	for _, d := range devs {
		dims[d.Dim] = true
	}
	dl := make([]string, 0, len(dims))
	for d := range dims {
		dl = append(dl, d)
	}
	sort.Strings(dl)
	run.Main(t, "C01", cases, map[string]any{"config_deviations_max": kc, "config_values": len(devs), "config_dimensions": dl, "config_sets": len(sets),
		"delivery_faults_max": kd, "N_per_direction": nd, "masks": len(masks)})
}
