package checks

import (
	"crypto/tls"
	"hash"

	dtls "github.com/pion/dtls/v3"
	ics "github.com/pion/dtls/v3/internal/ciphersuite"
	"github.com/pion/dtls/v3/pkg/crypto/clientcertificate"
	"github.com/pion/dtls/v3/pkg/protocol/handshake"
	"github.com/pion/dtls/v3/pkg/protocol/recordlayer"
	"github.com/pion/dtls/v3/zzverif/world"
)

// Configuration values for the public options no other dimension reaches: application-supplied cipher
// suites (WithCustomCipherSuites), SHA-1 handshake signatures (WithInsecureHashes), an application-supplied
// hello random (WithHelloRandomBytesGenerator) and the CertificateRequest hook. The oracle is the unchanged
// agreement oracle: whatever the application plugs in, two endpoints that both report success must hold the
// same session.

// CustomSuiteID is the private-use identifier the wrapped suite answers to.
const CustomSuiteID dtls.CipherSuiteID = 0xFFA1

// customSuite presents a library suite under a private-use identifier, as an application-supplied suite would.
type customSuite struct {
	in ics.CipherSuite
	id dtls.CipherSuiteID
}

func (c *customSuite) String() string                          { return "VERIF_CUSTOM_" + c.in.String() }
func (c *customSuite) ID() dtls.CipherSuiteID                  { return c.id }
func (c *customSuite) CertificateType() clientcertificate.Type { return c.in.CertificateType() }
func (c *customSuite) HashFunc() func() hash.Hash              { return c.in.HashFunc() }
func (c *customSuite) AuthenticationType() dtls.CipherSuiteAuthenticationType {
	return c.in.AuthenticationType()
}
func (c *customSuite) KeyExchangeAlgorithm() dtls.CipherSuiteKeyExchangeAlgorithm {
	return c.in.KeyExchangeAlgorithm()
}
func (c *customSuite) ECC() bool { return c.in.ECC() }
func (c *customSuite) Init(ms, cr, sr []byte, isClient bool) error {
	return c.in.Init(ms, cr, sr, isClient)
}
func (c *customSuite) IsInitialized() bool { return c.in.IsInitialized() }
func (c *customSuite) Encrypt(pkt *recordlayer.RecordLayer, raw []byte) ([]byte, error) {
	return c.in.Encrypt(pkt, raw)
}
func (c *customSuite) Decrypt(h recordlayer.Header, in []byte) ([]byte, error) {
	return c.in.Decrypt(h, in)
}

// CustomSuites returns the option that installs fresh wrapped suites (one instance per call: suites are stateful).
func CustomSuites(ids map[dtls.CipherSuiteID]dtls.CipherSuiteID, order []dtls.CipherSuiteID) dtls.Option {
	return dtls.WithCustomCipherSuites(func() []dtls.CipherSuite {
		var out []dtls.CipherSuite
		for _, id := range order {
			out = append(out, &customSuite{in: ics.ForID(ics.ID(ids[id]), nil), id: id})
		}
		return out
	})
}

func addOpt(c *world.Cfg, o dtls.Option) { c.Extra = append(append([]dtls.Option(nil), c.Extra...), o) }

func constRandom(b byte) dtls.Option {
	return dtls.WithHelloRandomBytesGenerator(func() [handshake.RandomBytesLength]byte {
		var r [handshake.RandomBytesLength]byte
		for i := range r {
			r[i] = b
		}
		return r
	})
}

func crHook(s *world.Cfg, f func(m *handshake.MessageCertificateRequest)) {
	s.ExtraServer = append(append([]dtls.ServerOption(nil), s.ExtraServer...), dtls.WithCertificateRequestMessageHook(func(m handshake.MessageCertificateRequest) handshake.Message {
		f(&m)
		return &m
	}))
}

// MoreDevs is the catalogue of configuration values built on the remaining public options.
func MoreDevs() []Dev {
	// The wrapped algorithms are ones no hello hook of this catalogue substitutes: a custom suite that is a
	// mere alias of a standard suite offered next to it would let a hook swap the identifier without changing
	// a single key (both ends succeed and report different identifiers for the same algorithm) — an artefact
	// of the alias, not something an application-defined suite would show.
	chacha := dtls.TLS_ECDHE_ECDSA_WITH_CHACHA20_POLY1305_SHA256
	cbc := dtls.TLS_ECDHE_ECDSA_WITH_AES_256_CBC_SHA
	one := map[dtls.CipherSuiteID]dtls.CipherSuiteID{CustomSuiteID: chacha}
	two := map[dtls.CipherSuiteID]dtls.CipherSuiteID{CustomSuiteID: chacha, CustomSuiteID + 1: cbc}
	return []Dev{
		{Dim: "custom", Name: "custom=both[FFA1=chacha]+standard", Apply: func(c, s *world.Cfg) {
			addOpt(c, CustomSuites(one, []dtls.CipherSuiteID{CustomSuiteID}))
			addOpt(s, CustomSuites(one, []dtls.CipherSuiteID{CustomSuiteID}))
		}},
		{Dim: "custom", Name: "custom=c[FFA1,FFA2]/s[FFA2,FFA1]+standard", Apply: func(c, s *world.Cfg) {
			addOpt(c, CustomSuites(two, []dtls.CipherSuiteID{CustomSuiteID, CustomSuiteID + 1}))
			addOpt(s, CustomSuites(two, []dtls.CipherSuiteID{CustomSuiteID + 1, CustomSuiteID}))
		}},
		{Dim: "custom", Name: "custom=c-only+standard", Apply: func(c, s *world.Cfg) {
			addOpt(c, CustomSuites(one, []dtls.CipherSuiteID{CustomSuiteID}))
		}},
		{Dim: "sig", Name: "sig=ECDSA-SHA1+insecure-hashes", Apply: func(c, s *world.Cfg) {
			c.SigSchemes, s.SigSchemes = []tls.SignatureScheme{tls.ECDSAWithSHA1}, []tls.SignatureScheme{tls.ECDSAWithSHA1}
			addOpt(c, dtls.WithInsecureHashes(true))
			addOpt(s, dtls.WithInsecureHashes(true))
		}},
		{Dim: "sig", Name: "sig=c[SHA1,P256]/s[P256,SHA1]+insecure-hashes", Apply: func(c, s *world.Cfg) {
			c.SigSchemes = []tls.SignatureScheme{tls.ECDSAWithSHA1, tls.ECDSAWithP256AndSHA256}
			s.SigSchemes = []tls.SignatureScheme{tls.ECDSAWithP256AndSHA256, tls.ECDSAWithSHA1}
			addOpt(c, dtls.WithInsecureHashes(true))
			addOpt(s, dtls.WithInsecureHashes(true))
		}},
		{Dim: "rand", Name: "rand=both-constant-equal", Apply: func(c, s *world.Cfg) {
			addOpt(c, constRandom(0x5A))
			addOpt(s, constRandom(0x5A))
		}},
		{Dim: "rand", Name: "rand=c-constant", Apply: func(c, s *world.Cfg) { addOpt(c, constRandom(0xC3)) }},
		{Dim: "crhook", Name: "crhook=schemes-reversed+clientcert", Apply: func(c, s *world.Cfg) {
			s.ClientAuth = dtls.RequireAndVerifyClientCert
			c.Cred = "ecdsa"
			crHook(s, func(m *handshake.MessageCertificateRequest) {
				n := len(m.SignatureHashAlgorithms)
				for i := 0; i < n/2; i++ {
					m.SignatureHashAlgorithms[i], m.SignatureHashAlgorithms[n-1-i] = m.SignatureHashAlgorithms[n-1-i], m.SignatureHashAlgorithms[i]
				}
			})
		}},
		{Dim: "crhook", Name: "crhook=no-ca-names+clientcert", Apply: func(c, s *world.Cfg) {
			s.ClientAuth = dtls.RequireAndVerifyClientCert
			c.Cred = "ecdsa"
			crHook(s, func(m *handshake.MessageCertificateRequest) { m.CertificateAuthoritiesNames = nil })
		}},
	}
}
