package c14

import (
	"fmt"
	"strings"
	"testing"
	"time"

	"github.com/pion/dtls/v3/zzverif/checks"
	"github.com/pion/dtls/v3/zzverif/run"
	"github.com/pion/dtls/v3/zzverif/world"
)

// C14 — session resumption never keys a connection from mismatched secrets.
//
// Enumerated: (suite family x EMS x CID) x every history of <= 3 connections between the same two
// addresses over two shared, harness-owned session stores, with a store edit before each connection
// after the first (11 edits), x delivery fault masks inside the connections that follow an edit,
// x Finished-tampering adversaries on an abbreviated handshake. See Plan for the exact families.

// Step is one connection of a history after the prelude: the edit applied before it, the delivery
// mask and the adversary.
type Step struct {
	Edits       []Edit
	Mask        world.Mask
	Tamper      string
	GiveUp      time.Duration // > 0: both applications abandon this connection's handshake after that much fake time
	SlowSetJunk bool          // the server's store is slow in Set; an undecodable record reaches the server meanwhile
	SetFails    string        // "C" / "S": that side\'s store reports an error for its first Set of this connection (after storing)
}

// Plan is one enumerated history.
type Plan struct {
	Family string
	Cfg    Config
	Steps  []Step
}

func (p Plan) ID() string {
	parts := []string{p.Family, p.Cfg.Name}
	for _, s := range p.Steps {
		en := make([]string, len(s.Edits))
		for i, e := range s.Edits {
			en[i] = e.String()
		}
		x := strings.Join(en, "+")
		if x == "" {
			x = "none"
		}
		if len(s.Mask) > 0 {
			x += "@" + s.Mask.String()
		}
		if s.Tamper != "" {
			x += "!" + s.Tamper
		}
		if s.SlowSetJunk {
			x += "!junk-during-slow-set"
		}
		if s.SetFails != "" {
			x += "!set-fails-" + s.SetFails
		}
		if s.GiveUp > 0 {
			x = strings.Replace(x, "@"+s.Mask.String(), fmt.Sprintf("@blackout[%s..]", s.Mask[0]), 1) + fmt.Sprintf("~giveup%s", s.GiveUp)
		}
		parts = append(parts, x)
	}
	return strings.Join(parts, "/")
}

func runPlan(t *testing.T, p *world.PKI, pl Plan, seed uint64) run.Outcome {
	var o run.Outcome
	world.Run(t, seed, func(w *world.World) {
		h := NewHist(pl.Cfg)
		tr := &world.Tracer{}
		var recs []*ConnRec
		fail := func(msg string) {
			o.Violation = "harness: " + pl.ID() + ": " + msg
			o.Key = "harness"
			o.Class = "HARNESS"
		}
		r0, err := h.Connect(w, p, 0, nil, "", nil, tr)
		if err != nil {
			fail("prelude: " + err.Error())
			return
		}
		r0.Edit = "-"
		recs = append(recs, r0)
		if !(r0.cOK() && r0.sOK()) || len(r0.PostC) == 0 || len(r0.PostS) == 0 {
			fail(fmt.Sprintf("prelude (clean full handshake) did not establish and store a session: %s client=%v server=%v stores %d/%d", r0.Class(), r0.CErr, r0.SErr, len(r0.PostC), len(r0.PostS)))
			return
		}
		allFired, tampered, offered, effective := true, true, false, 0
		for i, st := range pl.Steps {
			var en []string
			for _, e := range st.Edits {
				if h.Apply(e) {
					effective++
				}
				en = append(en, e.String())
			}
			var tam Tamperer
			failed := ""
			if st.Tamper != "" {
				tam = MakeTamperer(h, st.Tamper, &failed)
			}
			h.GiveUp = st.GiveUp
			h.SlowSetJunk = st.SlowSetJunk
			h.SetFails = st.SetFails
			r, err := h.Connect(w, p, i+1, st.Mask, st.Tamper, tam, tr)
			if err != nil {
				fail(fmt.Sprintf("conn%d: %v", i+1, err))
				return
			}
			r.Edit = strings.Join(en, "+")
			if r.Edit == "" {
				r.Edit = "none"
			}
			recs = append(recs, r)
			if failed != "" {
				fail(fmt.Sprintf("conn%d adversary %s: %s", i+1, st.Tamper, failed))
				return
			}
			if r.Faulted != len(st.Mask) {
				allFired = false
			}
			if st.Tamper != "" && r.TamperedCount == 0 {
				tampered = false
			}
			if len(r.Wire.OfferedSID) > 0 {
				offered = true
			}
		}
		o.States, o.Transitions = tr.States, tr.Trans
		o.Class = HistClass(recs)
		o.NonTrivial = offered && allFired && tampered
		o.Counters = map[string]int{}
		for _, r := range recs[1:] {
			o.Counters["connections"]++
			switch {
			case r.Wire.Abbreviated() && r.cOK() && r.sOK():
				o.Counters["abbreviated_ok"]++
				if r.Wire.ServerSuite != recs[0].Wire.ServerSuite {
					o.Counters["abbreviated_ok_under_other_suite_than_original_session"]++
				}
			case r.Wire.Abbreviated():
				o.Counters["abbreviated_not_established"]++
				if r.Match() && r.Tamper == "" {
					o.Counters["matching_secret_but_not_established"]++
				}
			case r.cOK() && r.sOK() && len(r.Wire.OfferedSID) > 0:
				o.Counters["fallback_full_ok"]++
			case r.cOK() && r.sOK():
				o.Counters["full_ok_nothing_offered"]++
			default:
				o.Counters["failed_other"]++
			}
			if _, ok := r.Wire.fatal(true); ok {
				o.Counters["client_fatal_alerts"]++
			}
			if _, ok := r.Wire.fatal(false); ok {
				o.Counters["server_fatal_alerts"]++
			}
			o.Counters["opaque_alert_records_before_close"] += r.Wire.ClientOpaque + r.Wire.ServerOpaque
		}
		o.Counters["effective_edits"] = effective
		if fs := Judge(pl.Cfg, recs); len(fs) > 0 {
			f := fs[0]
			for _, x := range fs {
				o.Counters["violated:"+x.Key]++
			}
			o.Violation = pl.ID() + ": " + f.Text
			o.Key = f.Key
			o.Class = "VIOLATION " + f.Key
			last := recs[len(recs)-1]
			ev := last.Events
			if len(ev) > 40 {
				ev = ev[:40]
			}
			o.Violation += " ; events of last connection: " + strings.Join(ev, " | ")
		}
		o.Sample = map[string]any{"history": pl.ID(), "outcome": o.Class}
	})
	return o
}

// Plans enumerates the histories of a tier.
func Plans(thorough bool) ([]Plan, map[string]any) {
	var out []Plan
	edits := AllEdits()
	cfgs := Configs()
	kf := 1
	if thorough {
		kf = 2
	}
	masks := checks.EnumMasks(4, kf, checks.AllFaultActions)
	masks1 := checks.EnumMasks(4, 1, checks.AllFaultActions)
	// editSets: what may happen between two connections.
	editSets := [][]Edit{}
	for _, e := range edits {
		editSets = append(editSets, []Edit{e})
	}
	if thorough {
		// two edits between connections (ordered; the second acts on the result of the first)
		for _, a := range edits[1:] {
			for _, b := range edits[1:] {
				if a != b {
					editSets = append(editSets, []Edit{a, b})
				}
			}
		}
	}
	for _, c := range cfgs {
		// S: store histories on a reliable network: 2 and 3 connections.
		for _, a := range editSets {
			out = append(out, Plan{"S2", c, []Step{{Edits: a}}})
		}
		for _, a := range editSets {
			for _, b := range edits {
				out = append(out, Plan{"S3", c, []Step{{Edits: a}, {Edits: []Edit{b}}}})
			}
		}
		// L: every fault mask inside the connection that follows each edit, then one more clean connection.
		for _, a := range edits {
			for _, m := range masks[1:] {
				out = append(out, Plan{"L", c, []Step{{Edits: []Edit{a}, Mask: m}, {Edits: []Edit{EdNone}}}})
			}
		}
		// L2: faults in the THIRD connection (second consecutive resumption / retry after an edit).
		for _, a := range edits {
			for _, m := range masks1[1:] {
				out = append(out, Plan{"L2", c, []Step{{Edits: []Edit{a}}, {Edits: []Edit{EdNone}, Mask: m}}})
			}
		}
		if thorough {
			// LL: one fault in each of two consecutive resumptions.
			for _, m1 := range masks1[1:] {
				for _, m2 := range masks1[1:] {
					out = append(out, Plan{"LL", c, []Step{{Edits: []Edit{EdNone}, Mask: m1}, {Edits: []Edit{EdNone}, Mask: m2}}})
				}
			}
		}
		// T: Finished-tampering adversaries on an abbreviated handshake (stores agree: untouched, or both
		// swapped to the same foreign secret), followed by a clean connection.
		for _, k := range TamperKinds {
			out = append(out, Plan{"T", c, []Step{{Edits: []Edit{EdNone}, Tamper: k}, {Edits: []Edit{EdNone}}}})
			out = append(out, Plan{"T", c, []Step{{Edits: []Edit{EdSwapC, EdSwapS}, Tamper: k}, {Edits: []Edit{EdNone}}}})
			out = append(out, Plan{"T", c, []Step{{Edits: []Edit{EdNone}}, {Edits: []Edit{EdNone}, Tamper: k}}})
		}
	}
	// B: a connection whose handshake is cut off without any alert — every datagram of one direction is lost until
	// the application gives up and closes — then a clean connection. What an interrupted (abbreviated or, after
	// delC, full) handshake leaves in the stores must still be what was stored.
	for _, c := range cfgs {
		if c.MTU != 0 {
			continue
		}
		for _, fromClient := range []bool{false, true} {
			var m world.Mask
			from := 0
			if fromClient {
				from = 1 // the first ClientHello arrives: the server has started
			}
			for i := from; i < from+10; i++ {
				m = append(m, world.Fault{FromClient: fromClient, Idx: i, Act: world.ActDrop})
			}
			for _, e := range []Edit{EdNone, EdDelC, EdSwapS} {
				for _, g := range []time.Duration{500 * time.Millisecond, 4 * time.Second} {
					out = append(out, Plan{"B", c, []Step{{Edits: []Edit{e}, Mask: m, GiveUp: g}, {Edits: []Edit{EdNone}}}})
				}
			}
		}
	}
	// R: the same junk record, delivered while the server's store is inside a slow Set call of a full handshake
	// (an application-supplied store is part of the environment: it may block), then a clean connection
	for _, c := range cfgs {
		if c.MTU != 0 {
			continue
		}
		out = append(out, Plan{"R", c, []Step{{Edits: []Edit{EdDelC}, SlowSetJunk: true}, {Edits: []Edit{EdNone}}}})
		out = append(out, Plan{"R", c, []Step{{Edits: []Edit{EdDelC, EdDelS}, SlowSetJunk: true}, {Edits: []Edit{EdNone}}, {Edits: []Edit{EdNone}}}})
	}
	// W: a store whose Set reports an error although the entry is there (a full handshake after delC / delC+delS),
	// then a clean connection: an endpoint that answers the failed write with a fatal alert must not offer or
	// accept that session afterwards
	for _, c := range cfgs {
		if c.MTU != 0 {
			continue
		}
		for _, who := range []string{"C", "S"} {
			out = append(out, Plan{"W", c, []Step{{Edits: []Edit{EdDelC}, SetFails: who}, {Edits: []Edit{EdNone}}}})
			out = append(out, Plan{"W", c, []Step{{Edits: []Edit{EdDelC, EdDelS}, SetFails: who}, {Edits: []Edit{EdNone}}, {Edits: []Edit{EdNone}}}})
		}
	}
	// J: an undecodable unauthenticated record during a FULL handshake (the client's session is deleted
	// first), then a clean connection: what a fatal alert leaves in the stores
	for _, c := range cfgs {
		if c.MTU != 0 {
			continue
		}
		for _, k := range JunkKinds {
			out = append(out, Plan{"J", c, []Step{{Edits: []Edit{EdDelC}, Tamper: k}, {Edits: []Edit{EdNone}}}})
			out = append(out, Plan{"J", c, []Step{{Edits: []Edit{EdDelC, EdDelS}, Tamper: k}, {Edits: []Edit{EdNone}}, {Edits: []Edit{EdNone}}}})
		}
	}
	params := map[string]any{"configs": len(cfgs), "edits": len(edits), "edit_sets_between_connections": len(editSets),
		"max_connections": 3, "N_per_direction": 4, "max_faults": kf, "masks": len(masks), "fault_kinds": fmt.Sprint(checks.AllFaultActions),
		"tamper_kinds": TamperKinds, "histories": len(out)}
	return out, params
}

func TestC14(t *testing.T) {
	env := run.GetEnv()
	p := world.GetPKI(t)
	plans, params := Plans(env.Thorough())
	cases := make([]run.Case, 0, len(plans))
	for _, pl := range plans {
		pl := pl
		cases = append(cases, run.Case{ID: pl.ID(), Run: func(t *testing.T) run.Outcome { return runPlan(t, p, pl, env.Seed+1) }})
	}
	run.Main(t, "C14", cases, params)
}
