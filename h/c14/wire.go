// Package c14 checks property C14: session resumption never keys a connection from mismatched secrets.
package c14

import (
	"bytes"
	"fmt"

	"github.com/pion/dtls/v3/zzverif/world"
)

// connWire is what one connection looked like ON THE WIRE (independent parser: world.ParseDatagram).
type connWire struct {
	OfferedSID   []byte // session_id of the first ClientHello (empty: nothing offered)
	ClientRandom []byte // random of the first ClientHello
	ServerSID    []byte // session_id of the (last) ServerHello
	ServerRandom []byte
	ServerSuite  uint16
	SawSH        bool
	SawFull      bool // server sent Certificate / ServerKeyExchange / ServerHelloDone
	SawHVR       bool
	// Plain (unencrypted, 2-byte) alerts per side: level<<8|description.
	ClientAlerts, ServerAlerts []uint16
	// OpaqueAlerts counts alert records that are not 2 bytes long (encrypted), per side.
	ClientOpaque, ServerOpaque int
	// First epoch>=1 record body of each kind, per side (ciphertext as sent).
	ClientFin, ServerFin []byte // first epoch-1 handshake record body
	ClientApp, ServerApp []byte // first epoch-1 application data record body
	NClientHello         int
	NDatagrams           int
}

// Abbreviated: the ServerHello echoes the offered (non-empty) session id and the server sent none of
// Certificate / ServerKeyExchange / ServerHelloDone.
func (cw *connWire) Abbreviated() bool {
	return cw.SawSH && len(cw.OfferedSID) > 0 && bytes.Equal(cw.OfferedSID, cw.ServerSID) && !cw.SawFull
}

func (cw *connWire) fatal(client bool) (uint16, bool) {
	l := cw.ServerAlerts
	if client {
		l = cw.ClientAlerts
	}
	for _, a := range l {
		if a>>8 == 2 {
			return a, true
		}
	}
	return 0, false
}

// parseHello extracts random and session id from a ClientHello / ServerHello body.
func parseHello(body []byte) (random, sid, rest []byte, ok bool) {
	if len(body) < 35 {
		return nil, nil, nil, false
	}
	random = body[2:34]
	n := int(body[34])
	if len(body) < 35+n {
		return nil, nil, nil, false
	}
	return random, body[35 : 35+n], body[35+n:], true
}

// observe parses every datagram emitted since emission id `from` (up to, excluding, `to`; to<0 = all).
func observe(w *world.World, from, to int, cidLen int) *connWire {
	cw := &connWire{}
	for _, d := range w.Emitted() {
		if d.ID < from || (to >= 0 && d.ID >= to) {
			continue
		}
		cw.NDatagrams++
		fromClient := d.Src == world.ClientAddr
		recs, _ := world.ParseDatagram(d.Data, cidLen)
		for _, r := range recs {
			if r.Unified {
				continue
			}
			inner := r.Type
			switch {
			case r.Type == world.CTAlert:
				if len(r.Body) == 2 {
					v := uint16(r.Body[0])<<8 | uint16(r.Body[1])
					if fromClient {
						cw.ClientAlerts = append(cw.ClientAlerts, v)
					} else {
						cw.ServerAlerts = append(cw.ServerAlerts, v)
					}
				} else if fromClient {
					cw.ClientOpaque++
				} else {
					cw.ServerOpaque++
				}
			case r.Type == world.CTCID && len(r.Body) == 3 && r.Body[2] == world.CTAlert:
				// An unprotected alert in a tls12_cid record: inner plaintext = level, description, real_type
				// (a protected record is at least explicit nonce/IV + tag/MAC long).
				v := uint16(r.Body[0])<<8 | uint16(r.Body[1])
				if fromClient {
					cw.ClientAlerts = append(cw.ClientAlerts, v)
				} else {
					cw.ServerAlerts = append(cw.ServerAlerts, v)
				}
			case r.Epoch >= 1 && (inner == world.CTHandshake || inner == world.CTCID || inner == world.CTAppData):
				// Encrypted records. With a CID the outer type is 25 for everything: the first such
				// record of a side is its Finished, later ones are application data (close alerts come
				// after the observation window).
				body := append([]byte(nil), r.Body...)
				isFin := inner == world.CTHandshake
				isApp := inner == world.CTAppData
				if inner == world.CTCID {
					if fromClient {
						isFin = cw.ClientFin == nil
					} else {
						isFin = cw.ServerFin == nil
					}
					isApp = !isFin
				}
				switch {
				case isFin && fromClient && cw.ClientFin == nil:
					cw.ClientFin = body
				case isFin && !fromClient && cw.ServerFin == nil:
					cw.ServerFin = body
				case isApp && fromClient && cw.ClientApp == nil:
					cw.ClientApp = body
				case isApp && !fromClient && cw.ServerApp == nil:
					cw.ServerApp = body
				}
			}
			for _, f := range r.HS {
				if f.FragOff != 0 || f.FragLen != f.Len {
					if !fromClient && (f.Type == 11 || f.Type == 12 || f.Type == 14) {
						cw.SawFull = true
					}
					continue
				}
				switch {
				case fromClient && f.Type == 1:
					cw.NClientHello++
					if cw.ClientRandom == nil {
						if rnd, sid, _, ok := parseHello(f.Body); ok {
							cw.ClientRandom = append([]byte(nil), rnd...)
							cw.OfferedSID = append([]byte(nil), sid...)
						}
					}
				case !fromClient && f.Type == 2:
					if rnd, sid, rest, ok := parseHello(f.Body); ok {
						cw.SawSH = true
						cw.ServerRandom = append([]byte(nil), rnd...)
						cw.ServerSID = append([]byte(nil), sid...)
						if len(rest) >= 2 {
							cw.ServerSuite = uint16(rest[0])<<8 | uint16(rest[1])
						}
					}
				case !fromClient && f.Type == 3:
					cw.SawHVR = true
				case !fromClient && (f.Type == 11 || f.Type == 12 || f.Type == 14):
					cw.SawFull = true
				}
			}
		}
	}
	return cw
}

func (cw *connWire) String() string {
	return fmt.Sprintf("offered=%x shSID=%x sh=%v full=%v hvr=%v suite=%#04x alertsC=%x alertsS=%x opaque=%d/%d nCH=%d dgrams=%d",
		cw.OfferedSID, cw.ServerSID, cw.SawSH, cw.SawFull, cw.SawHVR, cw.ServerSuite, cw.ClientAlerts, cw.ServerAlerts,
		cw.ClientOpaque, cw.ServerOpaque, cw.NClientHello, cw.NDatagrams)
}
