package c14

import (
	"bytes"
	"encoding/hex"
	"fmt"
	"strings"
	"sync"
	"time"

	dtls "github.com/pion/dtls/v3"
	"github.com/pion/dtls/v3/zzverif/world"
)

// ---------------------------------------------------------------------------------------------
// Configurations

// Config is one (suite, EMS, CID) point. Both endpoints start with the suite list [Primary, Alt];
// the "wrong suite" store edits shrink one side's list to [Alt].
type Config struct {
	Name         string
	Primary, Alt dtls.CipherSuiteID
	PSK          bool
	EMSOff       bool
	CID          int  // 0: no connection IDs; n: both sides use counting n-byte generators
	MTU          int  // 0: default; n: both sides fragment their flights at n bytes (flights span several datagrams)
	NoHV         bool // the server skips the cookie exchange (WithInsecureSkipVerifyHello)
	SkipVerify   bool // the client does not verify certificate chains (WithInsecureSkipVerify): Finished checks are unaffected
	Alias        bool // both session stores keep and hand out the library's own slices (no defensive copies)
}

var pskKey = []byte{0xC1, 0x4C, 0x14, 0x77, 0x01}

// Configs enumerates suite family x EMS x CID x MTU.
func Configs() []Config {
	var out []Config
	type fam struct {
		n    string
		p, a dtls.CipherSuiteID
		psk  bool
	}
	fams := []fam{
		{"gcm", dtls.TLS_ECDHE_ECDSA_WITH_AES_128_GCM_SHA256, dtls.TLS_ECDHE_ECDSA_WITH_AES_256_GCM_SHA384, false},
		{"psk", dtls.TLS_PSK_WITH_AES_128_GCM_SHA256, dtls.TLS_PSK_WITH_AES_128_CBC_SHA256, true},
		{"cbc", dtls.TLS_ECDHE_ECDSA_WITH_AES_256_CBC_SHA, dtls.TLS_ECDHE_ECDSA_WITH_AES_128_GCM_SHA256, false},
	}
	for _, f := range fams {
		for _, emsOff := range []bool{false, true} {
			for _, cid := range []int{4, 0} {
				n := f.n
				if emsOff {
					n += "-noems"
				} else {
					n += "-ems"
				}
				if cid > 0 {
					n += "-cid"
				} else {
					n += "-nocid"
				}
				out = append(out, Config{Name: n, Primary: f.p, Alt: f.a, PSK: f.psk, EMSOff: emsOff, CID: cid})
				out = append(out, Config{Name: n + "-mtu200", Primary: f.p, Alt: f.a, PSK: f.psk, EMSOff: emsOff, CID: cid, MTU: 200})
				if !emsOff && cid == 0 {
					out = append(out, Config{Name: n + "-nohv", Primary: f.p, Alt: f.a, PSK: f.psk, EMSOff: emsOff, CID: cid, NoHV: true})
				}
				if emsOff == (cid == 0) {
					out = append(out, Config{Name: n + "-aliasstore", Primary: f.p, Alt: f.a, PSK: f.psk, EMSOff: emsOff, CID: cid, Alias: true})
				}
				if !f.psk && !emsOff {
					out = append(out, Config{Name: n + "-skipverify", Primary: f.p, Alt: f.a, EMSOff: emsOff, CID: cid, SkipVerify: true})
				}
			}
		}
	}
	return out
}

// cidGen is a counting connection-ID generator that lives as long as the HISTORY (not the
// connection), so that a CID negotiated on connection k is distinguishable from every earlier one.
type cidGen struct {
	mu   sync.Mutex
	tag  byte
	n    int
	ctr  int
	outs [][]byte
}

func (g *cidGen) next() []byte {
	g.mu.Lock()
	defer g.mu.Unlock()
	g.ctr++
	b := make([]byte, g.n)
	b[0] = g.tag
	for i := 1; i < g.n; i++ {
		b[i] = byte(g.ctr >> (8 * (g.n - 1 - i)))
	}
	g.outs = append(g.outs, b)
	return append([]byte(nil), b...)
}

func (g *cidGen) issued() int {
	g.mu.Lock()
	defer g.mu.Unlock()
	return len(g.outs)
}

func (g *cidGen) since(k int) [][]byte {
	g.mu.Lock()
	defer g.mu.Unlock()
	return append([][]byte(nil), g.outs[k:]...)
}

// ---------------------------------------------------------------------------------------------
// Store edits

type Edit int

const (
	EdNone Edit = iota
	EdDelC
	EdDelS
	EdSwapC
	EdSwapS
	EdTruncC
	EdTruncS
	EdRekeyS
	EdRekeyC
	EdSuiteS
	EdSuiteC
	NumEdits
)

var editNames = [...]string{"none", "delC", "delS", "swapC", "swapS", "truncC", "truncS", "rekeyS", "rekeyC", "suiteS", "suiteC"}

func (e Edit) String() string { return editNames[e] }

// AllEdits lists every edit.
func AllEdits() []Edit {
	out := make([]Edit, 0, NumEdits)
	for e := EdNone; e < NumEdits; e++ {
		out = append(out, e)
	}
	return out
}

// altSecret is the "different 48-byte value" swapped in. The SAME value is used on either side, so
// that swapC followed by swapS makes the stores agree again (on a secret no handshake ever produced).
func altSecret() []byte {
	b := make([]byte, 48)
	for i := range b {
		b[i] = byte(0xA5 ^ i)
	}
	return b
}

func otherID(id []byte) []byte {
	o := make([]byte, len(id))
	for i := range id {
		o[i] = id[i] ^ 0xFF
	}
	return o
}

// ClientKey is the key under which the client library files its session: "<remote addr>_<server name>".
const ClientKey = "10.0.0.2:2222_server.test"

// Hist is the state shared by the connections of one history.
type Hist struct {
	Cfg              Config
	CS, SS           *world.MapStore
	CSuites, SSuites []dtls.CipherSuiteID
	CGen, SGen       *cidGen
	LastSID          []byte // session id of the most recent connection in which both sides finished
	// GiveUp > 0: the applications of the NEXT connection abandon the handshake after that much fake time
	// (both sides are closed while their Handshake calls are pending); reset by Connect
	GiveUp time.Duration
	// SlowSetJunk: during the NEXT connection the server's store is slow: its Set call blocks; while it is blocked
	// an undecodable unauthenticated record (which makes the receiver send a fatal alert) is delivered to the
	// server, then the Set call is let through. Reset by Connect.
	SlowSetJunk bool
	// SetFails "C" / "S": during the NEXT connection the first Set call of that side's store stores the session
	// and then reports an error. Reset by Connect.
	SetFails string
}

func NewHist(c Config) *Hist {
	h := &Hist{Cfg: c, CS: world.NewMapStore(), SS: world.NewMapStore(),
		CSuites: []dtls.CipherSuiteID{c.Primary, c.Alt}, SSuites: []dtls.CipherSuiteID{c.Primary, c.Alt}}
	h.CS.Alias, h.SS.Alias = c.Alias, c.Alias
	if c.CID > 0 {
		h.CGen = &cidGen{tag: 'C', n: c.CID}
		h.SGen = &cidGen{tag: 'S', n: c.CID}
	}
	return h
}

// target is the session id the server-side edits act on: the one the client currently holds, else
// the most recently established one.
func (h *Hist) target() []byte {
	if v, ok := h.CS.Snapshot()[ClientKey]; ok && len(v.ID) > 0 {
		return v.ID
	}
	return h.LastSID
}

// Apply performs the edit directly on the harness-owned stores / suite lists; it reports whether
// anything changed.
func (h *Hist) Apply(e Edit) bool {
	cEntry, cHas := h.CS.Snapshot()[ClientKey]
	tid := h.target()
	sEntry, sHas := h.SS.Snapshot()[string(tid)]
	switch e {
	case EdNone:
		return false
	case EdDelC:
		if cHas {
			_ = h.CS.Del([]byte(ClientKey))
		}
		return cHas
	case EdDelS:
		if sHas {
			_ = h.SS.Del(tid)
		}
		return sHas
	case EdSwapC:
		if cHas {
			_ = h.CS.Set([]byte(ClientKey), dtls.Session{ID: cEntry.ID, Secret: altSecret()})
		}
		return cHas
	case EdSwapS:
		if sHas {
			_ = h.SS.Set(tid, dtls.Session{ID: sEntry.ID, Secret: altSecret()})
		}
		return sHas
	case EdTruncC:
		if cHas && len(cEntry.Secret) > 24 {
			_ = h.CS.Set([]byte(ClientKey), dtls.Session{ID: cEntry.ID, Secret: cEntry.Secret[:24]})
			return true
		}
		return false
	case EdTruncS:
		if sHas && len(sEntry.Secret) > 24 {
			_ = h.SS.Set(tid, dtls.Session{ID: sEntry.ID, Secret: sEntry.Secret[:24]})
			return true
		}
		return false
	case EdRekeyS:
		if sHas {
			_ = h.SS.Del(tid)
			o := otherID(tid)
			_ = h.SS.Set(o, dtls.Session{ID: o, Secret: sEntry.Secret})
		}
		return sHas
	case EdRekeyC:
		if cHas {
			_ = h.CS.Set([]byte(ClientKey), dtls.Session{ID: otherID(cEntry.ID), Secret: cEntry.Secret})
		}
		return cHas
	case EdSuiteS:
		ch := len(h.SSuites) != 1
		h.SSuites = []dtls.CipherSuiteID{h.Cfg.Alt}
		return ch
	case EdSuiteC:
		ch := len(h.CSuites) != 1
		h.CSuites = []dtls.CipherSuiteID{h.Cfg.Alt}
		return ch
	}
	return false
}

// cfgs builds the endpoint configurations of the next connection.
func (h *Hist) cfgs() (world.Cfg, world.Cfg) {
	c := world.Cfg{Suites: append([]dtls.CipherSuiteID(nil), h.CSuites...), Store: h.CS}
	s := world.Cfg{Suites: append([]dtls.CipherSuiteID(nil), h.SSuites...), Store: h.SS}
	if h.Cfg.PSK {
		c.Cred, s.Cred = "psk", "psk"
		c.PSK, s.PSK = pskKey, pskKey
	}
	if h.Cfg.EMSOff {
		c.EMS, s.EMS = 2, 2
	}
	c.MTU, s.MTU = h.Cfg.MTU, h.Cfg.MTU
	s.SkipHelloVerify = h.Cfg.NoHV
	if h.Cfg.SkipVerify {
		c.Verify = "skip"
	}
	if h.Cfg.CID > 0 {
		c.Extra = []dtls.Option{dtls.WithConnectionIDGenerator(h.CGen.next)}
		s.Extra = []dtls.Option{dtls.WithConnectionIDGenerator(h.SGen.next)}
	}
	return c, s
}

// ---------------------------------------------------------------------------------------------
// One connection and its record

// ConnRec is everything the oracle needs about one connection of a history.
type ConnRec struct {
	Idx           int
	Edit          string
	Mask          string
	Tamper        string
	PreC, PreS    map[string]dtls.Session // stores when the connection started (after the edit)
	PostC, PostS  map[string]dtls.Session // stores when it ended (before closing)
	Wire          *connWire
	CDone, SDone  bool
	CErr, SErr    error
	CMS, SMS      string // last key-log master secret (hex) of each side
	CExp, SExp    []byte // exporter output
	ExpErr        string
	CSnap, SSnap  world.Snap
	CGenNew       [][]byte // CIDs the generators produced during this connection
	SGenNew       [][]byte
	C2S, S2C      string // "" = payload delivered intact, otherwise what went wrong; "-" = not attempted
	Faulted       int
	Events        []string
	TamperedCount int
}

func (r *ConnRec) cOK() bool { return r.CDone && r.CErr == nil }
func (r *ConnRec) sOK() bool { return r.SDone && r.SErr == nil }

// Match: at the time of the connection the client held an entry whose id is the offered one, the
// server held an entry under that id, and the two secrets are equal.
func (r *ConnRec) Match() bool {
	off := r.Wire.OfferedSID
	if len(off) == 0 {
		return false
	}
	ce, ok := r.PreC[ClientKey]
	if !ok || !bytes.Equal(ce.ID, off) {
		return false
	}
	se, ok := r.PreS[string(off)]
	if !ok {
		return false
	}
	return len(ce.Secret) > 0 && bytes.Equal(ce.Secret, se.Secret)
}

// Class is the coarse outcome label of one connection.
func (r *ConnRec) Class() string {
	shape := "nohello"
	switch {
	case r.Wire.Abbreviated():
		shape = "abbr"
	case r.Wire.SawFull:
		shape = "full"
	case r.Wire.SawSH:
		shape = "sh-only"
	case r.Wire.SawHVR:
		shape = "hvr-only"
	}
	off := "offer"
	if len(r.Wire.OfferedSID) == 0 {
		off = "nooffer"
	}
	res := func(done bool, err error) string {
		switch {
		case !done:
			return "pend"
		case err == nil:
			return "ok"
		}
		return "err"
	}
	al := ""
	if _, ok := r.Wire.fatal(true); ok {
		al += "+alertC"
	}
	if _, ok := r.Wire.fatal(false); ok {
		al += "+alertS"
	}
	return fmt.Sprintf("%s/%s/c=%s,s=%s%s", off, shape, res(r.CDone, r.CErr), res(r.SDone, r.SErr), al)
}

func lastKeyLogSecret(log string) string {
	log = strings.TrimSpace(log)
	if log == "" {
		return ""
	}
	lines := strings.Split(log, "\n")
	f := strings.Fields(lines[len(lines)-1])
	if len(f) == 3 {
		return f[2]
	}
	return ""
}

func horizonFor(m world.Mask) time.Duration {
	k := len(m)
	var sum time.Duration
	iv := time.Second
	for i := 0; i < k+3; i++ {
		sum += iv
		iv *= 2
		if iv > 60*time.Second {
			iv = 60 * time.Second
		}
	}
	hz := 2 * sum
	for _, f := range m {
		if f.Act == world.ActSwap || f.Act == world.ActHold1 || f.Act == world.ActHold3 || f.Act == world.ActDupLate {
			hz += world.HoldCap
		}
	}
	return hz
}

const exporterLabel = "EXPERIMENTAL-verif-c14"

var pingC2S = []byte("c14 ping client->server: same plaintext on every connection")
var pingS2C = []byte("c14 ping server->client: same plaintext on every connection")

// Tamperer rewrites datagrams in transit; it returns nil to leave the datagram alone.
type Tamperer func(w *world.World, pr *world.Pair, d *world.Datagram) []byte

// Connect runs one connection of the history: fresh pair over the shared stores, the given delivery
// mask, optional tampering; records what happened; closes the pair.
func (h *Hist) Connect(w *world.World, p *world.PKI, idx int, m world.Mask, tamperName string, tamper Tamperer, tr *world.Tracer) (*ConnRec, error) {
	r := &ConnRec{Idx: idx, Mask: m.String(), Tamper: tamperName, PreC: h.CS.Snapshot(), PreS: h.SS.Snapshot(), C2S: "-", S2C: "-"}
	cg0, sg0 := 0, 0
	if h.CGen != nil {
		cg0, sg0 = h.CGen.issued(), h.SGen.issued()
	}
	cc, sc := h.cfgs()
	first := w.EmittedCount()
	pr, err := w.NewPair(p, cc, sc)
	if err != nil {
		return nil, err
	}
	n := world.NewNet(w, world.ClientAddr, m)
	if tr != nil {
		n.OnEvent = func(ev string) {
			w.Settle()
			tr.Visit(fmt.Sprintf("conn%d|", idx)+pr.StateString(n), world.AbstractEvent(ev))
		}
		tr.Visit(fmt.Sprintf("conn%d|", idx)+pr.StateString(n), fmt.Sprintf("open%d", idx))
	}
	switch h.SetFails {
	case "C":
		h.CS.FailSetAt = h.CS.Sets + 1
	case "S":
		h.SS.FailSetAt = h.SS.Sets + 1
	}
	h.SetFails = ""
	defer func() { h.CS.FailSetAt, h.SS.FailSetAt = 0, 0 }()
	slow := h.SlowSetJunk
	h.SlowSetJunk = false
	var gate chan struct{}
	if slow {
		gate = make(chan struct{})
		h.SS.SetGate(gate)
		defer h.SS.SetGate(nil)
	}
	hz := horizonFor(m)
	if h.GiveUp > 0 {
		hz, h.GiveUp = h.GiveUp, 0
	}
	end := w.Now() + hz
	var pend *world.Datagram
	var pendMod []byte
	for {
		left := end - w.Now()
		if left <= 0 {
			break
		}
		pend, pendMod = nil, nil
		perr := n.Pump(left, func() bool {
			if pr.BothDone() {
				return true
			}
			if gate != nil && h.SS.WaitingSets() > 0 {
				return true
			}
			if tamper != nil {
				if d := w.Head(); d != nil {
					if mod := tamper(w, pr, d); mod != nil {
						pend, pendMod = d, mod
						return true
					}
				}
			}
			return false
		})
		if gate != nil && h.SS.WaitingSets() > 0 {
			// the server is inside its (slow) SetSession: the junk record arrives now, then the store answers
			w.Push(world.ClientAddr, world.ServerAddr, []byte{21, 0xfe, 0xfd, 0, 0, 0, 0, 0x7f, 0, 0, 0x02, 0, 1, 2})
			w.Settle()
			r.TamperedCount++
			close(gate)
			h.SS.SetGate(nil)
			gate = nil
			w.Settle()
			continue
		}
		if pend == nil || pr.BothDone() {
			_ = perr
			break
		}
		w.Take(pend)
		w.Logf("TAMPER #%d %s -> %s", pend.ID, world.DescribeCID(pend.Data, h.Cfg.CID), world.DescribeCID(pendMod, h.Cfg.CID))
		w.Push(pend.Src, pend.Dst, pendMod)
		w.Settle()
		r.TamperedCount++
	}
	w.Settle()
	// Let whatever is still on its way (an alert, a last retransmission) arrive.
	n.ClearFaults()
	n.Flush()
	w.Settle()
	r.Faulted = n.Faulted
	r.CDone, r.CErr = pr.C.HS.Result()
	r.SDone, r.SErr = pr.S.HS.Result()
	if r.cOK() && r.sOK() {
		// The delivery mask quantifies over the handshake; what follows runs on a reliable network.
		n.ClearFaults()
		n.Flush()
		r.CMS, r.SMS = lastKeyLogSecret(pr.C.KeyLog.String()), lastKeyLogSecret(pr.S.KeyLog.String())
		r.CSnap, r.SSnap = pr.C.Snapshot(), pr.S.Snapshot()
		// Whether a key-log line is written at all is not this property's business: fall back to the
		// endpoint's own master secret.
		if r.CMS == "" {
			r.CMS = hex.EncodeToString(r.CSnap.MasterSecret)
		}
		if r.SMS == "" {
			r.SMS = hex.EncodeToString(r.SSnap.MasterSecret)
		}
		cs, cok := pr.C.Conn.ConnectionState()
		ss, sok := pr.S.Conn.ConnectionState()
		if cok && sok {
			a, ea := cs.ExportKeyingMaterial(exporterLabel, nil, 32)
			b, eb := ss.ExportKeyingMaterial(exporterLabel, nil, 32)
			r.CExp, r.SExp = a, b
			if ea != nil || eb != nil {
				r.ExpErr = fmt.Sprintf("client %v server %v", ea, eb)
			}
		} else {
			r.ExpErr = fmt.Sprintf("ConnectionState unavailable (client %v server %v)", cok, sok)
		}
		xfer := func(from, to *world.Endpoint, payload []byte) string {
			got, rerr, werr := pr.Transfer(n, from, to, payload, 5*time.Second)
			if werr != nil || rerr != nil || !bytes.Equal(got, payload) {
				return fmt.Sprintf("write=%v read=%v got=%q", werr, rerr, got)
			}
			return ""
		}
		r.C2S = xfer(pr.C, pr.S, pingC2S)
		r.S2C = xfer(pr.S, pr.C, pingS2C)
		if len(r.SSnap.SessionID) > 0 {
			h.LastSID = append([]byte(nil), r.SSnap.SessionID...)
		}
	} else {
		r.CMS, r.SMS = lastKeyLogSecret(pr.C.KeyLog.String()), lastKeyLogSecret(pr.S.KeyLog.String())
	}
	w.Settle()
	r.Wire = observe(w, first, -1, h.Cfg.CID)
	if h.CGen != nil {
		r.CGenNew, r.SGenNew = h.CGen.since(cg0), h.SGen.since(sg0)
	}
	r.Events = n.Events
	pr.CloseAll()
	w.Settle()
	// what the connection leaves in the stores, its shutdown included (a pending handshake ends with Close)
	r.PostC, r.PostS = h.CS.Snapshot(), h.SS.Snapshot()
	// Nothing of this connection may reach the next one.
	for _, d := range w.InFlight() {
		w.Take(d)
	}
	w.Settle()
	return r, nil
}
