package c14

import (
	"bytes"
	"fmt"
	"strings"

	"github.com/pion/dtls/v3/internal/ciphersuite"
	"github.com/pion/dtls/v3/pkg/protocol/recordlayer"
	"github.com/pion/dtls/v3/zzverif/world"
)

// Tampering adversaries for "each verifies the other's Finished".
//
//	flipS   flip one ciphertext byte of every epoch-1 record the server sends during the handshake (flight 4b Finished)
//	flipC   the same for the client's flight 5b Finished
//	rogueS  the server's Finished is replaced by a correctly encrypted Finished with a WRONG verify_data
//	        (an impostor that knows the session secret but did not see this handshake)
//	rogueC  the same for the client's Finished (rogue client)
//	mitmCH  one byte of the server_name in the ClientHello is changed in transit: both sides derive the
//	        same record keys but different transcripts, so the server's verify_data is wrong for the client
//	mitmSH  the cipher suite in the ServerHello is replaced by an unknown one: the client has to abort
//	        with a fatal alert while it holds the offered session
//
// The rogue variants use the library's own record protection as the ATTACKER's tool (never as an oracle).
//
//	shortS0 / shortS6 / longS13 and the same for C: as rogueS / rogueC, but the Finished keeps a PREFIX of
//	        the correct verify_data (0 or 6 of its 12 bytes) or the correct value plus one more byte: a
//	        comparison that is not an exact-length comparison accepts these
//	junkC / junkS  nothing is altered: while a FULL handshake is under way (the plan deletes the client's
//	        session first) one unauthenticated, undecodable record (an alert record with a one-byte body)
//	        reaches the client right behind its ClientKeyExchange flight / the server right behind its
//	        ServerHelloDone flight. An endpoint that answers with a fatal alert must not keep, offer or accept
//	        the session of that connection afterwards.
var JunkKinds = []string{"junkC", "junkS"}

var TamperKinds = []string{"flipS", "flipC", "rogueS", "rogueC", "mitmCH", "mitmSH", "shortS0", "shortC0", "shortS6", "shortC6", "longS13", "longC13"}

// rebuild reassembles a datagram from parsed records, replacing record i by repl.
func rebuild(recs []world.Rec, i int, repl []byte) []byte {
	var out []byte
	for j, r := range recs {
		if j == i {
			out = append(out, repl...)
		} else {
			out = append(out, r.Raw...)
		}
	}
	return out
}

func isFinishedRec(r world.Rec) bool {
	return !r.Unified && r.Epoch == 1 && (r.Type == world.CTHandshake || r.Type == world.CTCID)
}

// reencrypt opens one protected record sent by the given side, lets mutate change the plaintext and
// seals it again under the same epoch / sequence number.
func reencrypt(suite uint16, ms, cr, sr []byte, fromClient bool, cidLen int, raw []byte, mutate func(plain []byte) []byte) ([]byte, error) {
	recv := ciphersuite.ForID(ciphersuite.ID(suite), nil)
	send := ciphersuite.ForID(ciphersuite.ID(suite), nil)
	if recv == nil || send == nil {
		return nil, fmt.Errorf("unknown suite %#04x", suite)
	}
	if err := recv.Init(ms, cr, sr, !fromClient); err != nil {
		return nil, err
	}
	if err := send.Init(ms, cr, sr, fromClient); err != nil {
		return nil, err
	}
	var hdr recordlayer.Header
	if raw[0] == world.CTCID {
		hdr.ConnectionID = make([]byte, cidLen)
	}
	plain, err := recv.Decrypt(hdr, append([]byte(nil), raw...))
	if err != nil {
		return nil, fmt.Errorf("attacker cannot open the record: %w", err)
	}
	plain = append([]byte(nil), plain...)
	if err := hdr.Unmarshal(plain); err != nil {
		return nil, err
	}
	hdr.ConnectionID = append([]byte(nil), hdr.ConnectionID...)
	if repl := mutate(plain[hdr.Size():]); repl != nil {
		plain = append(append([]byte(nil), plain[:hdr.Size()]...), repl...)
	}
	return send.Encrypt(&recordlayer.RecordLayer{Header: hdr}, plain)
}

// MakeTamperer builds the adversary of the given kind for one connection of history h.
// failed is set when the adversary could not do its job (reported, never silently ignored).
func MakeTamperer(h *Hist, kind string, failed *string) Tamperer {
	cidLen := h.Cfg.CID
	// what the adversary has learnt from the wire so far
	var cr, sr []byte
	var suite uint16
	learn := func(d *world.Datagram, recs []world.Rec) {
		for _, r := range recs {
			for _, f := range r.HS {
				if f.FragOff != 0 || f.FragLen != f.Len {
					continue
				}
				if rnd, _, rest, ok := parseHello(f.Body); ok {
					switch {
					case f.Type == 1 && d.Src == world.ClientAddr:
						cr = append([]byte(nil), rnd...)
					case f.Type == 2 && d.Src == world.ServerAddr && len(rest) >= 2:
						sr = append([]byte(nil), rnd...)
						suite = uint16(rest[0])<<8 | uint16(rest[1])
					}
				}
			}
		}
	}
	junkSent := false
	secret := func() []byte {
		// the session secret, as the client's store holds it (a rogue peer that stole the session)
		return h.CS.Snapshot()[ClientKey].Secret
	}
	return func(w *world.World, pr *world.Pair, d *world.Datagram) []byte {
		recs, err := world.ParseDatagram(d.Data, cidLen)
		if err != nil {
			return nil
		}
		learn(d, recs)
		fromClient := d.Src == world.ClientAddr
		switch kind {
		case "junkC", "junkS":
			toClient := kind == "junkC"
			for _, r := range recs {
				if r.Epoch != 0 || r.Type != world.CTHandshake {
					continue
				}
				for _, f := range r.HS {
					// the client's ClientKeyExchange (16) passing towards the server / the server's ServerHelloDone (14)
					// passing towards the client: the victim has sent its flight and waits
					if (toClient && fromClient && f.Type == 16) || (!toClient && !fromClient && f.Type == 14) {
						if junkSent {
							return nil
						}
						junkSent = true
						junk := []byte{21, 0xfe, 0xfd, 0, 0, 0, 0, 0x7f, 0, 0, 0x01, 0, 1, 2}
						if toClient {
							w.Push(world.ServerAddr, world.ClientAddr, junk)
						} else {
							// the server is still waiting for the client's flight: the junk overtakes it
							w.Push(world.ClientAddr, world.ServerAddr, junk)
						}
						return append([]byte(nil), d.Data...)
					}
				}
			}
		case "flipS", "flipC":
			if fromClient != (kind == "flipC") {
				return nil
			}
			for i, r := range recs {
				if isFinishedRec(r) && len(r.Body) > 17 {
					raw := append([]byte(nil), r.Raw...)
					raw[len(raw)-len(r.Body)+17] ^= 0x01
					return rebuild(recs, i, raw)
				}
			}
		case "rogueS", "rogueC", "shortS0", "shortC0", "shortS6", "shortC6", "longS13", "longC13":
			if fromClient != strings.Contains(kind, "C") {
				return nil
			}
			for i, r := range recs {
				if !isFinishedRec(r) {
					continue
				}
				if cr == nil || sr == nil {
					*failed = "adversary saw a Finished before both hellos"
					return nil
				}
				out, err := reencrypt(suite, secret(), cr, sr, fromClient, cidLen, r.Raw, func(p []byte) []byte {
					// handshake header (12) + verify_data (12)
					if len(p) < 24 || p[0] != 20 {
						*failed = fmt.Sprintf("opened record is not a Finished (%d bytes, type %d)", len(p), p[0])
						return nil
					}
					n := -1
					switch kind[:len(kind)-1] {
					case "shortS", "shortC":
						n = int(kind[len(kind)-1] - '0')
					}
					switch {
					case kind == "longS13" || kind == "longC13":
						n = 13
					case kind == "rogueS" || kind == "rogueC":
						p[12+5] ^= 0x01 // corrupt verify_data only
						return nil
					}
					q := append([]byte(nil), p[:12]...)
					q[1], q[2], q[3] = 0, 0, byte(n)   // length
					q[9], q[10], q[11] = 0, 0, byte(n) // fragment_length
					if n <= 12 {
						return append(q, p[12:12+n]...)
					}
					return append(append(q, p[12:24]...), 0x00)
				})
				if err != nil {
					*failed = err.Error()
					return nil
				}
				return rebuild(recs, i, out)
			}
		case "mitmCH":
			if !fromClient {
				return nil
			}
			for i, r := range recs {
				if r.Epoch != 0 || r.Type != world.CTHandshake || len(r.HS) != 1 || r.HS[0].Type != 1 {
					continue
				}
				raw := append([]byte(nil), r.Raw...)
				k := bytes.Index(raw, []byte("server.test"))
				if k < 0 {
					*failed = "no server_name in the ClientHello"
					return nil
				}
				raw[k+len("server.test")-1] = 'u' // "server.tesu": same length, different transcript
				return rebuild(recs, i, raw)
			}
		case "mitmSH":
			if fromClient {
				return nil
			}
			for i, r := range recs {
				if r.Epoch != 0 || r.Type != world.CTHandshake {
					continue
				}
				for _, f := range r.HS {
					if f.Type != 2 || f.FragOff != 0 || f.FragLen != f.Len {
						continue
					}
					_, sid, _, ok := parseHello(f.Body)
					if !ok {
						continue
					}
					raw := append([]byte(nil), r.Raw...)
					// the record holds only this ServerHello at its start: 13 record + 12 handshake header
					off := 13 + 12 + 35 + len(sid)
					if len(r.HS) != 1 || off+2 > len(raw) {
						*failed = "unexpected ServerHello record layout"
						return nil
					}
					raw[off], raw[off+1] = 0x7f, 0x7f // not a cipher suite anyone knows
					return rebuild(recs, i, raw)
				}
			}
		}
		return nil
	}
}
