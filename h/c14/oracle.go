package c14

import (
	"bytes"
	"encoding/hex"
	"fmt"
	"sort"
	"strings"

	dtls "github.com/pion/dtls/v3"
)

// Finding is one oracle verdict.
type Finding struct {
	Key  string
	Text string
}

func hasID(m map[string]dtls.Session, id []byte) bool {
	for _, v := range m {
		if bytes.Equal(v.ID, id) {
			return true
		}
	}
	return false
}

func inList(l [][]byte, b []byte) bool {
	for _, x := range l {
		if bytes.Equal(x, b) {
			return true
		}
	}
	return false
}

// Judge evaluates the C14 oracle over the connections of one history and returns every violated
// clause (connections in order; clauses in the order of the property text). The first one is reported
// as the case's violation, the others are counted.
func Judge(cfg Config, recs []*ConnRec) []Finding {
	var out []Finding
	for k, r := range recs {
		at := fmt.Sprintf("conn%d[edit=%s mask=%s tamper=%s class=%s]", r.Idx, r.Edit, r.Mask, r.Tamper, r.Class())
		abbr := r.Wire.Abbreviated()
		both := r.cOK() && r.sOK()

		// (c) never two established endpoints keyed from different master secrets.
		if both && r.CMS != r.SMS {
			out = append(out, Finding{"established-with-different-master-secrets", fmt.Sprintf("%s: both HandshakeContext calls returned nil but the key-log master secrets differ: client %q server %q (application data c->s: %q, s->c: %q; \"\" = delivered)",
				at, r.CMS, r.SMS, r.C2S, r.S2C)})
		}
		// (a) an abbreviated handshake succeeds only when both stores held the same secret for the offered id.
		if abbr && (r.cOK() || r.sOK()) && !r.Match() {
			who := "client"
			if r.sOK() {
				who = "server"
			}
			if both {
				who = "both"
			}
			ce := r.PreC[ClientKey]
			se, sHas := r.PreS[string(r.Wire.OfferedSID)]
			out = append(out, Finding{"abbreviated-success-without-matching-secret/" + who, fmt.Sprintf("%s: abbreviated handshake (ServerHello echoed offered id %x, no Certificate/ServerKeyExchange/ServerHelloDone) succeeded at %s although the stores did not hold the same secret for that id: client entry id=%x secret=%x(%dB); server has entry=%v secret=%x(%dB)",
				at, r.Wire.OfferedSID, who, ce.ID, head(ce.Secret), len(ce.Secret), sHas, head(se.Secret), len(se.Secret))})
		}
		// (a') a stored session keeps the secret it was stored with: between the start and the end of a connection
		// an entry's secret may be replaced only by the master secret of a handshake of THIS connection (a new
		// session under the same key). Anything else means the stored secret was altered in place, and a later
		// abbreviated handshake would run under a value no full handshake ever established.
		for _, side := range []string{"client", "server"} {
			pre, post, ms := r.PreC, r.PostC, r.CMS
			if side == "server" {
				pre, post, ms = r.PreS, r.PostS, r.SMS
			}
			keys := make([]string, 0, len(pre))
			for key := range pre {
				keys = append(keys, key)
			}
			sort.Strings(keys)
			for _, key := range keys {
				was := pre[key]
				now, still := post[key]
				if !still || bytes.Equal(now.Secret, was.Secret) {
					continue
				}
				if ms != "" && hex.EncodeToString(now.Secret) == ms {
					continue
				}
				out = append(out, Finding{"stored-secret-altered-in-place/" + side, fmt.Sprintf("%s: the %s's stored session %x held secret %x(%dB) before this connection and %x(%dB) after it, which is not the master secret of a handshake of this connection (%q): the stored secret was altered in place",
					at, side, head(was.ID), head(was.Secret), len(was.Secret), head(now.Secret), len(now.Secret), ms)})
			}
		}
		// Tampered Finished: the receiving side must not complete.
		switch r.Tamper {
		case "flipS", "rogueS", "mitmCH", "shortS0", "shortS6", "longS13":
			if r.TamperedCount > 0 && r.cOK() {
				out = append(out, Finding{"client-accepted-bad-server-finished/" + r.Tamper, fmt.Sprintf("%s: the client completed although every server Finished it could have received was invalid (%d datagrams tampered)", at, r.TamperedCount)})
			}
		case "flipC", "rogueC", "shortC0", "shortC6", "longC13":
			if r.TamperedCount > 0 && r.sOK() {
				out = append(out, Finding{"server-accepted-bad-client-finished/" + r.Tamper, fmt.Sprintf("%s: the server completed although every client Finished it could have received was invalid (%d datagrams tampered)", at, r.TamperedCount)})
			}
		}
		// (b) a successful abbreviated handshake: same secret on both sides, working channel, fresh keys, fresh CIDs.
		if abbr && both {
			if r.ExpErr != "" || !bytes.Equal(r.CExp, r.SExp) || len(r.CExp) == 0 {
				out = append(out, Finding{"exporter-differs-after-resumption", fmt.Sprintf("%s: exporter output differs after resumption: client %x server %x err=%q", at, r.CExp, r.SExp, r.ExpErr)})
			}
			if r.C2S != "" || r.S2C != "" {
				out = append(out, Finding{"no-data-after-resumption", fmt.Sprintf("%s: application data does not flow after a successful abbreviated handshake: c->s %q, s->c %q", at, r.C2S, r.S2C)})
			}
			for j := 0; j < k; j++ {
				pv := recs[j]
				if pv.Wire.ClientRandom != nil && bytes.Equal(pv.Wire.ClientRandom, r.Wire.ClientRandom) {
					out = append(out, Finding{"client-random-reused", fmt.Sprintf("%s: ClientHello.random %x equals that of conn%d", at, r.Wire.ClientRandom, pv.Idx)})
				}
				if pv.Wire.ServerRandom != nil && bytes.Equal(pv.Wire.ServerRandom, r.Wire.ServerRandom) {
					out = append(out, Finding{"server-random-reused", fmt.Sprintf("%s: ServerHello.random %x equals that of conn%d", at, r.Wire.ServerRandom, pv.Idx)})
				}
				for _, pair := range []struct {
					n    string
					a, b []byte
				}{{"client Finished", pv.Wire.ClientFin, r.Wire.ClientFin}, {"server Finished", pv.Wire.ServerFin, r.Wire.ServerFin},
					{"client application data", pv.Wire.ClientApp, r.Wire.ClientApp}, {"server application data", pv.Wire.ServerApp, r.Wire.ServerApp}} {
					if pair.a != nil && bytes.Equal(pair.a, pair.b) {
						out = append(out, Finding{"record-ciphertext-reused", fmt.Sprintf("%s: the first protected %s record is byte-identical to that of conn%d (%x): record keys are not fresh", at, pair.n, pv.Idx, head(pair.a))})
					}
				}
			}
			c, s := r.CSnap, r.SSnap
			if !bytes.Equal(c.LocalCID, s.RemoteCID) || !bytes.Equal(c.RemoteCID, s.LocalCID) {
				out = append(out, Finding{"cid-not-mirrored", fmt.Sprintf("%s: connection IDs not mirrored: client local %x remote %x; server local %x remote %x", at, c.LocalCID, c.RemoteCID, s.LocalCID, s.RemoteCID)})
			}
			if cfg.CID > 0 {
				if len(c.LocalCID) == 0 || !inList(r.CGenNew, c.LocalCID) {
					out = append(out, Finding{"client-cid-not-fresh", fmt.Sprintf("%s: the client's negotiated CID %x is not one its generator produced during this connection (%x)", at, c.LocalCID, r.CGenNew)})
				}
				if len(s.LocalCID) == 0 || !inList(r.SGenNew, s.LocalCID) {
					out = append(out, Finding{"server-cid-not-fresh", fmt.Sprintf("%s: the server's negotiated CID %x is not one its generator produced during this connection (%x)", at, s.LocalCID, r.SGenNew)})
				}
				for j := 0; j < k; j++ {
					pv := recs[j]
					if len(pv.CSnap.LocalCID) > 0 && (bytes.Equal(pv.CSnap.LocalCID, c.LocalCID) || bytes.Equal(pv.SSnap.LocalCID, s.LocalCID)) {
						out = append(out, Finding{"cid-of-earlier-connection", fmt.Sprintf("%s: negotiated CIDs %x/%x repeat those of conn%d", at, c.LocalCID, s.LocalCID, pv.Idx)})
					}
				}
			} else if len(c.LocalCID)+len(c.RemoteCID)+len(s.LocalCID)+len(s.RemoteCID) != 0 {
				out = append(out, Finding{"cid-without-generator", fmt.Sprintf("%s: connection IDs in use although none was configured: %x %x %x %x", at, c.LocalCID, c.RemoteCID, s.LocalCID, s.RemoteCID)})
			}
		}
		// (d) a session on which an endpoint sent a fatal alert is gone from that endpoint's store.
		if a, ok := r.Wire.fatal(true); ok && len(r.Wire.OfferedSID) > 0 {
			sid := r.Wire.OfferedSID
			if hasID(r.PostC, sid) {
				out = append(out, Finding{"session-kept-after-fatal-alert/client", fmt.Sprintf("%s: the client sent fatal alert %d on the connection on which it offered session %x, yet its store still holds that session", at, a&0xff, sid)})
			}
			if k+1 < len(recs) && !hasID(recs[k+1].PreC, sid) && bytes.Equal(recs[k+1].Wire.OfferedSID, sid) {
				out = append(out, Finding{"session-offered-after-fatal-alert/client", fmt.Sprintf("%s: session %x is offered again on conn%d after the client sent fatal alert %d on it", at, sid, recs[k+1].Idx, a&0xff)})
			}
		}
		// ... also the session that this very connection established (full handshake): the client files it under
		// the ServerHello's session_id
		if a, ok := r.Wire.fatal(true); ok && r.Wire.SawSH && len(r.Wire.ServerSID) > 0 && !bytes.Equal(r.Wire.ServerSID, r.Wire.OfferedSID) {
			sid := r.Wire.ServerSID
			if hasID(r.PostC, sid) {
				out = append(out, Finding{"session-kept-after-fatal-alert/client", fmt.Sprintf("%s: the client sent fatal alert %d on the connection that established session %x, yet its store holds that session afterwards", at, a&0xff, sid)})
			}
			if k+1 < len(recs) && bytes.Equal(recs[k+1].Wire.OfferedSID, sid) {
				out = append(out, Finding{"session-offered-after-fatal-alert/client", fmt.Sprintf("%s: session %x, established on a connection on which the client sent fatal alert %d, is offered on conn%d", at, sid, a&0xff, recs[k+1].Idx)})
			}
		}
		if a, ok := r.Wire.fatal(false); ok && r.Wire.SawSH && len(r.Wire.ServerSID) > 0 {
			sid := r.Wire.ServerSID
			if _, has := r.PostS[string(sid)]; has {
				out = append(out, Finding{"session-kept-after-fatal-alert/server", fmt.Sprintf("%s: the server sent fatal alert %d on the connection bound to session %x (ServerHello.session_id), yet its store still holds that session", at, a&0xff, sid)})
			}
			if k+1 < len(recs) {
				nx := recs[k+1]
				if _, has := nx.PreS[string(sid)]; !has && nx.Wire.Abbreviated() && bytes.Equal(nx.Wire.ServerSID, sid) {
					out = append(out, Finding{"session-accepted-after-fatal-alert/server", fmt.Sprintf("%s: session %x is resumed again on conn%d after the server sent fatal alert %d on it", at, sid, nx.Idx, a&0xff)})
				}
			}
		}
	}
	return out
}

func head(b []byte) []byte {
	if len(b) > 8 {
		return b[:8]
	}
	return b
}

// HistClass joins the per-connection classes.
func HistClass(recs []*ConnRec) string {
	p := make([]string, len(recs))
	for i, r := range recs {
		p[i] = r.Class()
		if i > 0 && r.Wire.Abbreviated() && r.Wire.ServerSuite != recs[0].Wire.ServerSuite {
			p[i] += "(other suite than the original session)"
		}
		if r.Tamper != "" {
			p[i] = r.Tamper + ":" + p[i]
		}
	}
	return strings.Join(p, " | ")
}
