package world

import (
	"fmt"
	"hash/fnv"
	"sort"
	"strings"

	dtls "github.com/pion/dtls/v3"
	dtlsstate "github.com/pion/dtls/v3/internal/state"
)

// Snap is the private-state snapshot of one endpoint at a quiescent point (feeds digests and
// evidence; oracles read the public API and the wire).
type Snap struct {
	IsClient          bool
	Version           string
	LocalEpoch        uint16
	RemoteEpoch       uint16
	LocalSeq          []uint64
	LocalCID          []byte
	RemoteCID         []byte
	RAddr             string
	Queued            int
	PendingACKs       int
	FragSize          int
	FragCount         int
	FragMsgs          int
	FragCur           uint16
	Frags             [][3]uint32
	Cache             []string
	CacheLen          int
	HSSend, HSRecv    int
	Established       bool
	Closed            bool
	RRC               bool
	SRTP              uint16
	ALPN              string
	EMS               bool
	SuiteID           uint16
	HasSuite          bool
	MasterSecret      []byte
	SessionID         []byte
	PeerCerts         [][]byte
}

// Snapshot reads the endpoint's private state.
func (e *Endpoint) Snapshot() Snap {
	var s Snap
	dtls.VerifPeek(e.Conn, func(in dtls.VerifInternals) {
		cs := dtlsstate.CommonState(in.State)
		s.IsClient = cs.IsClient
		s.Version = fmt.Sprintf("%d.%d", cs.LocalVersion.Major, cs.LocalVersion.Minor)
		s.LocalEpoch = cs.LocalEpoch()
		s.RemoteEpoch = cs.RemoteEpoch()
		s.LocalSeq = append([]uint64(nil), cs.LocalSequenceNumber...)
		s.LocalCID = append([]byte(nil), cs.LocalConnectionID()...)
		s.RemoteCID = append([]byte(nil), cs.RemoteConnectionID...)
		if in.RAddr != nil {
			s.RAddr = in.RAddr.String()
		}
		s.Queued = in.QueuedEncrypted
		s.PendingACKs = in.PendingACKs
		s.FragSize, s.FragCount, s.FragMsgs, s.FragCur = in.FragmentBuffer.VerifStats()
		s.Frags = in.FragmentBuffer.VerifFragments()
		sort.Slice(s.Frags, func(i, j int) bool {
			a, b := s.Frags[i], s.Frags[j]
			if a[0] != b[0] {
				return a[0] < b[0]
			}
			if a[1] != b[1] {
				return a[1] < b[1]
			}
			return a[2] < b[2]
		})
		items := in.HandshakeCache.VerifItems()
		s.CacheLen = len(items)
		for _, it := range items {
			s.Cache = append(s.Cache, fmt.Sprintf("%d.%v.%d.%d", it.Typ, it.IsClient, it.Epoch, it.MessageSequence))
		}
		sort.Strings(s.Cache)
		s.Established = in.Established
		s.Closed = in.Closed
		s.RRC = cs.RRCNegotiated
		s.SRTP = uint16(cs.SRTPProtectionProfile())
		s.ALPN = cs.NegotiatedProtocol
		s.SessionID = append([]byte(nil), cs.SessionID...)
		s.PeerCerts = cs.PeerCertificates
		if cs.CipherSuite != nil {
			s.HasSuite = true
			s.SuiteID = uint16(cs.CipherSuite.ID())
		}
		switch st := in.State.(type) {
		case *dtlsstate.State12:
			s.HSSend, s.HSRecv = st.HandshakeSendSequence, st.HandshakeRecvSequence
			s.EMS = st.ExtendedMasterSecret
			s.MasterSecret = append([]byte(nil), st.MasterSecret...)
		case *dtlsstate.State13:
			s.HSSend, s.HSRecv = st.HandshakeSendSequence, st.HandshakeRecvSequence
		}
	})
	return s
}

// Digest is the canonical abstract state of the endpoint: no byte values (randoms, keys, CIDs).
func (s Snap) Digest() string {
	return fmt.Sprintf("v%s e%d/%d seq%v q%d a%d f%d.%d.%d%v c%v hs%d/%d est%v cl%v cid%d/%d",
		s.Version, s.LocalEpoch, s.RemoteEpoch, s.LocalSeq, s.Queued, s.PendingACKs, s.FragCount, s.FragMsgs, s.FragCur, s.Frags,
		s.Cache, s.HSSend, s.HSRecv, s.Established, s.Closed, len(s.LocalCID), len(s.RemoteCID))
}

// Tracer accumulates the abstract states and transitions visited by one execution.
type Tracer struct {
	States []uint64
	Trans  []uint64
	prev   uint64
	has    bool
}

func h64(s string) uint64 {
	h := fnv.New64a()
	_, _ = h.Write([]byte(s))
	return h.Sum64()
}

// Visit records the quiescent state reached by event ev.
func (t *Tracer) Visit(state string, ev string) {
	cur := h64(state)
	t.States = append(t.States, cur)
	if t.has {
		t.Trans = append(t.Trans, h64(fmt.Sprintf("%x|%s|%x", t.prev, ev, cur)))
	}
	t.prev, t.has = cur, true
}

// StateString is the canonical digest of the whole pair + network at a quiescent point.
func (p *Pair) StateString(n *Net) string {
	var sb strings.Builder
	for _, e := range []*Endpoint{p.C, p.S} {
		sb.WriteString(e.Name)
		sb.WriteString("{")
		sb.WriteString(e.Log.LastFSM())
		sb.WriteString(" ")
		sb.WriteString(e.Snapshot().Digest())
		if e.HS != nil {
			sb.WriteString(" " + opClass(e.HS))
		}
		sb.WriteString("}")
	}
	sb.WriteString("net[")
	for _, d := range p.W.InFlight() {
		sb.WriteString(short(d.Src) + ":" + Shape(d.Data, 0) + ",")
	}
	sb.WriteString("]")
	if n != nil {
		sb.WriteString("held[")
		for _, h := range n.held {
			sb.WriteString(short(h.d.Src) + ":" + Shape(h.d.Data, 0) + ",")
		}
		sb.WriteString("]")
	}
	return sb.String()
}

func opClass(o *Op) string {
	d, e := o.Result()
	switch {
	case !d:
		return "pending"
	case e == nil:
		return "ok"
	default:
		return "err"
	}
}

// AbstractEvent strips datagram ids and byte counts from an event string.
func AbstractEvent(ev string) string {
	f := strings.Fields(ev)
	if len(f) == 0 {
		return ev
	}
	return f[0]
}

// Trace attaches a tracer to the net: every network event is followed by a state visit.
func (p *Pair) Trace(n *Net) *Tracer {
	tr := &Tracer{}
	tr.Visit(p.StateString(n), "init")
	n.OnEvent = func(ev string) {
		p.W.Settle()
		tr.Visit(p.StateString(n), AbstractEvent(ev))
	}
	return tr
}
