package world

import (
	"bytes"
	"context"
	"crypto/tls"
	"crypto/x509"
	"errors"
	"fmt"
	"strings"
	"sync"
	"time"

	dtls "github.com/pion/dtls/v3"
	dtlsflight "github.com/pion/dtls/v3/internal/flight"
	"github.com/pion/dtls/v3/pkg/crypto/elliptic"
	"github.com/pion/dtls/v3/pkg/protocol"
	"github.com/pion/logging"
)

// Cfg is the pure-data endpoint configuration (DESIGN.md §2.1 "Configurations are deviations too").
// The zero value is the default: DTLS 1.2 only, ECDSA certificate on the server, no client
// certificate, roots + server name verification, EMS requested, hello-verify on (library default),
// no CID, no SRTP, no ALPN, default MTU.
type Cfg struct {
	MinV, MaxV      int // 0 = library default (1.2); 12; 13
	Suites          []dtls.CipherSuiteID
	Cred            string // "", "ecdsa", "ecdsa2", "ecdsa384", "rsa", "ed25519", "psk", "ecdhepsk" (psk + cert-less), "none", or a key of PKI extras
	Cert            *tls.Certificate
	PSK             []byte
	PSKHint         []byte
	Curves          []elliptic.Curve
	EMS             int // 0 request, 1 require, 2 disable
	ClientAuth      dtls.ClientAuthType
	CIDLen          int // 0 = no generator; -1 = OnlySend (nil CID); n>0 = deterministic n-byte CIDs
	SRTP            []dtls.SRTPProtectionProfile
	MKI             []byte
	ALPN            []string
	MTU             int
	SkipHelloVerify bool
	Store           dtls.SessionStore
	ReplayWindow    int
	FlightInterval  time.Duration
	NoBackoff       bool
	Padding         uint
	Verify          string // "" = RootCAs(+ServerName for clients); "skip" = InsecureSkipVerify; "other" = OtherRoots
	ServerName      string // client: default "server.test"
	SigSchemes      []tls.SignatureScheme
	MultiCert       []string // server: several static certificates (credential names, first = default); overrides Cred/Cert
	GetCertSNI      string   // server: WithGetCertificate callback that returns this credential for any non-empty server name
	// GetCertSwitch: server: WithGetCertificate callback that returns the first credential on its first call of a
	// connection (the library's probe before the handshake) and the second one on every later call (a
	// certificate store that was rotated in between)
	GetCertSwitch [2]string
	Extra         []dtls.Option
	ExtraServer   []dtls.ServerOption
	ExtraClient   []dtls.ClientOption
}

// Endpoint is one real dtls.Conn plus everything the harness observes about it.
type Endpoint struct {
	W        *World
	Name     string
	IsClient bool
	Addr     Addr
	Peer     Addr
	PC       *MemConn
	Conn     *dtls.Conn
	Cfg      Cfg
	KeyLog   *lockedBuf
	Log      *logSink
	cidCtr   int
	HS       *Op
	cachePtr *dtlsflight.Cache
}

type lockedBuf struct {
	mu sync.Mutex
	b  bytes.Buffer
}

func (l *lockedBuf) Write(p []byte) (int, error) {
	l.mu.Lock()
	defer l.mu.Unlock()
	return l.b.Write(p)
}

func (l *lockedBuf) String() string {
	l.mu.Lock()
	defer l.mu.Unlock()
	return l.b.String()
}

// logSink captures pion log lines; FSM lines feed the state digest.
type logSink struct {
	mu      sync.Mutex
	name    string
	w       *World
	lines   []string
	lastFSM string
}

func (s *logSink) add(level, msg string) {
	s.mu.Lock()
	if strings.HasPrefix(msg, "[handshake") && strings.Contains(msg, "Flight") {
		s.lastFSM = msg
	}
	if len(s.lines) < 4000 {
		s.lines = append(s.lines, level+" "+msg)
	}
	s.mu.Unlock()
	if s.w.Verbose {
		s.w.Logf("  log[%s] %s %s", s.name, level, msg)
	}
}

// LastFSM returns the last "[handshake:..." trace line.
func (s *logSink) LastFSM() string {
	s.mu.Lock()
	defer s.mu.Unlock()
	return s.lastFSM
}

func (s *logSink) Lines() []string {
	s.mu.Lock()
	defer s.mu.Unlock()
	return append([]string(nil), s.lines...)
}

type leveled struct{ s *logSink }

func (l leveled) Trace(msg string)                  { l.s.add("T", msg) }
func (l leveled) Tracef(f string, a ...interface{}) { l.s.add("T", fmt.Sprintf(f, a...)) }
func (l leveled) Debug(msg string)                  { l.s.add("D", msg) }
func (l leveled) Debugf(f string, a ...interface{}) { l.s.add("D", fmt.Sprintf(f, a...)) }
func (l leveled) Info(msg string)                   { l.s.add("I", msg) }
func (l leveled) Infof(f string, a ...interface{})  { l.s.add("I", fmt.Sprintf(f, a...)) }
func (l leveled) Warn(msg string)                   { l.s.add("W", msg) }
func (l leveled) Warnf(f string, a ...interface{})  { l.s.add("W", fmt.Sprintf(f, a...)) }
func (l leveled) Error(msg string)                  { l.s.add("E", msg) }
func (l leveled) Errorf(f string, a ...interface{}) { l.s.add("E", fmt.Sprintf(f, a...)) }

type logFactory struct{ s *logSink }

func (f logFactory) NewLogger(string) logging.LeveledLogger { return leveled{f.s} }

// MapStore is a harness-owned session store.
type MapStore struct {
	// Alias: keep and hand out the very slices the library passed in (no defensive copies), as simple in-memory
	// stores do; Snapshot always copies, so the oracle sees what the store held at that moment.
	Alias bool
	// Gate: when non-nil, Set blocks on it before storing (a slow store: a database write, a remote cache); the
	// harness closes it to let the call finish. Waiting counts the callers blocked there.
	Gate    chan struct{}
	Waiting int
	// FailSetAt k > 0: the k-th Set call (counted over the store's life, see Sets) stores the session and THEN
	// reports an error (a write-through cache whose backing write failed).
	FailSetAt int
	mu        sync.Mutex
	M         map[string]dtls.Session
	Sets      int
	Dels      int
	Gets      int
}

var errStoreWrite = errors.New("injected: session store write failed")

func NewMapStore() *MapStore { return &MapStore{M: map[string]dtls.Session{}} }

// AliasStore is a session store that keeps and hands out the very slices it was given (no defensive
// copies), as simple in-memory stores do — the repository's own test store among them. Whatever the
// library later does to a secret it obtained from Get, or passed to Set, happens to the stored session.
type AliasStore struct {
	mu sync.Mutex
	M  map[string]dtls.Session
}

func NewAliasStore() *AliasStore { return &AliasStore{M: map[string]dtls.Session{}} }

func (s *AliasStore) Set(key []byte, v dtls.Session) error {
	s.mu.Lock()
	defer s.mu.Unlock()
	s.M[string(key)] = v
	return nil
}

func (s *AliasStore) Get(key []byte) (dtls.Session, error) {
	s.mu.Lock()
	defer s.mu.Unlock()
	return s.M[string(key)], nil
}

func (s *AliasStore) Del(key []byte) error {
	s.mu.Lock()
	defer s.mu.Unlock()
	delete(s.M, string(key))
	return nil
}

func (s *AliasStore) Len() int {
	s.mu.Lock()
	defer s.mu.Unlock()
	return len(s.M)
}

func (s *MapStore) Set(key []byte, v dtls.Session) error {
	s.mu.Lock()
	if g := s.Gate; g != nil {
		s.Waiting++
		s.mu.Unlock()
		<-g
		s.mu.Lock()
		s.Waiting--
	}
	defer s.mu.Unlock()
	s.Sets++
	var ferr error
	if s.FailSetAt > 0 && s.Sets == s.FailSetAt {
		ferr = errStoreWrite
	}
	if s.Alias {
		s.M[string(key)] = v
		return ferr
	}
	s.M[string(key)] = dtls.Session{ID: append([]byte(nil), v.ID...), Secret: append([]byte(nil), v.Secret...)}
	return ferr
}

func (s *MapStore) Get(key []byte) (dtls.Session, error) {
	s.mu.Lock()
	defer s.mu.Unlock()
	s.Gets++
	v, ok := s.M[string(key)]
	if !ok {
		return dtls.Session{}, nil
	}
	if s.Alias {
		return v, nil
	}
	return dtls.Session{ID: append([]byte(nil), v.ID...), Secret: append([]byte(nil), v.Secret...)}, nil
}

func (s *MapStore) Del(key []byte) error {
	s.mu.Lock()
	defer s.mu.Unlock()
	s.Dels++
	delete(s.M, string(key))
	return nil
}

func (s *MapStore) Snapshot() map[string]dtls.Session {
	s.mu.Lock()
	defer s.mu.Unlock()
	out := map[string]dtls.Session{}
	for k, v := range s.M {
		out[k] = dtls.Session{ID: append([]byte(nil), v.ID...), Secret: append([]byte(nil), v.Secret...)}
	}
	return out
}

// WaitingSets reports how many Set calls are blocked at the gate.
func (s *MapStore) WaitingSets() int {
	s.mu.Lock()
	defer s.mu.Unlock()
	return s.Waiting
}

// SetGate installs (or, with nil, removes) the gate.
func (s *MapStore) SetGate(g chan struct{}) {
	s.mu.Lock()
	s.Gate = g
	s.mu.Unlock()
}

func (s *MapStore) Len() int {
	s.mu.Lock()
	defer s.mu.Unlock()
	return len(s.M)
}

func vers(v int) (protocol.Version, bool) {
	switch v {
	case 12:
		return protocol.Version1_2, true
	case 13:
		return protocol.Version1_3, true
	}
	return protocol.Version{}, false
}

// CertFor resolves a credential name.
func CertFor(p *PKI, name string, isClient bool) *tls.Certificate {
	switch name {
	case "ecdsa":
		if isClient {
			return &p.ClientECDSA
		}
		return &p.ServerECDSA
	case "ecdsa2":
		if isClient {
			return &p.ClientECDSA2
		}
		return &p.ServerECDSA2
	case "ecdsa384":
		return &p.ServerECDSA384
	case "rsa":
		if isClient {
			return &p.ClientRSA
		}
		return &p.ServerRSA
	case "ed25519":
		if isClient {
			return &p.ClientEd25519
		}
		return &p.ServerEd25519
	case "rsaalt": // RSA key, name "rsa.server.test"
		return &p.ServerRSAAlt
	case "ecalt": // ECDSA key, name "ec.server.test"
		return &p.ServerECDSAAlt
	case "wrongca":
		if isClient {
			return &p.ClientWrongCA
		}
		return &p.ServerWrongCA
	case "wrongname":
		return &p.ServerWrongName
	case "expired":
		if isClient {
			return &p.ClientExpired
		}
		return &p.ServerExpired
	}
	return nil
}

// Options turns the pure-data configuration into library options.
func (e *Endpoint) options(p *PKI) []dtls.Option {
	c := e.Cfg
	var o []dtls.Option
	if v, ok := vers(c.MinV); ok {
		o = append(o, dtls.WithMinVersion(v))
	}
	if v, ok := vers(c.MaxV); ok {
		o = append(o, dtls.WithMaxVersion(v))
	}
	if c.Suites != nil {
		o = append(o, dtls.WithCipherSuites(c.Suites...))
	}
	cred := c.Cred
	if cred == "" && !e.IsClient {
		cred = "ecdsa"
	}
	switch {
	case len(c.MultiCert) > 0:
		var l []tls.Certificate
		for _, n := range c.MultiCert {
			l = append(l, *CertFor(p, n, e.IsClient))
		}
		o = append(o, dtls.WithCertificates(l...))
	case c.Cert != nil:
		o = append(o, dtls.WithCertificates(*c.Cert))
	case cred == "psk" || cred == "ecdhepsk":
	case cred == "none" || cred == "":
	default:
		if cert := CertFor(p, cred, e.IsClient); cert != nil {
			o = append(o, dtls.WithCertificates(*cert))
		} else {
			panic("unknown credential " + cred)
		}
	}
	if c.PSK != nil {
		psk := append([]byte(nil), c.PSK...)
		o = append(o, dtls.WithPSK(func([]byte) ([]byte, error) { return psk, nil }))
		hint := c.PSKHint
		if hint == nil {
			hint = []byte("verif-hint")
		}
		o = append(o, dtls.WithPSKIdentityHint(hint))
	}
	if c.Curves != nil {
		o = append(o, dtls.WithEllipticCurves(c.Curves...))
	}
	switch c.EMS {
	case 1:
		o = append(o, dtls.WithExtendedMasterSecret(dtls.RequireExtendedMasterSecret))
	case 2:
		o = append(o, dtls.WithExtendedMasterSecret(dtls.DisableExtendedMasterSecret))
	}
	switch {
	case c.CIDLen < 0:
		o = append(o, dtls.WithConnectionIDGenerator(dtls.OnlySendCIDGenerator()))
	case c.CIDLen > 0:
		n := c.CIDLen
		o = append(o, dtls.WithConnectionIDGenerator(func() []byte { return e.nextCID(n) }))
	}
	if c.SRTP != nil {
		o = append(o, dtls.WithSRTPProtectionProfiles(c.SRTP...))
	}
	if c.MKI != nil {
		o = append(o, dtls.WithSRTPMasterKeyIdentifier(c.MKI))
	}
	if c.ALPN != nil {
		o = append(o, dtls.WithSupportedProtocols(c.ALPN...))
	}
	if c.MTU != 0 {
		o = append(o, dtls.WithMTU(c.MTU))
	}
	if c.Store != nil {
		o = append(o, dtls.WithSessionStore(c.Store))
	}
	if c.ReplayWindow != 0 {
		o = append(o, dtls.WithReplayProtectionWindow(c.ReplayWindow))
	}
	if c.FlightInterval != 0 {
		o = append(o, dtls.WithFlightInterval(c.FlightInterval))
	}
	if c.NoBackoff {
		o = append(o, dtls.WithDisableRetransmitBackoff(true))
	}
	if c.Padding != 0 {
		pad := c.Padding
		o = append(o, dtls.WithPaddingLengthGenerator(func(uint) uint { return pad }))
	}
	switch c.Verify {
	case "skip":
		o = append(o, dtls.WithInsecureSkipVerify(true))
	case "other":
		o = append(o, dtls.WithRootCAs(p.OtherRoots))
	default:
		o = append(o, dtls.WithRootCAs(p.Roots))
	}
	if e.IsClient {
		sn := c.ServerName
		if sn == "" {
			sn = "server.test"
		}
		o = append(o, dtls.WithServerName(sn))
	}
	if c.SigSchemes != nil {
		o = append(o, dtls.WithSignatureSchemes(c.SigSchemes...))
	}
	o = append(o, dtls.WithKeyLogWriter(e.KeyLog), dtls.WithLoggerFactory(logFactory{e.Log}))
	o = append(o, c.Extra...)
	return o
}

// nextCID returns deterministic, distinct connection IDs: tag byte ('C'/'S'), then a counter.
func (e *Endpoint) nextCID(n int) []byte {
	e.cidCtr++
	b := make([]byte, n)
	tag := byte('S')
	if e.IsClient {
		tag = 'C'
	}
	b[0] = tag
	for i := 1; i < n; i++ {
		b[i] = byte(e.cidCtr + i)
	}
	if n == 1 {
		b[0] = tag + byte(e.cidCtr)
	}
	return b
}

// CIDsIssued reports how many CIDs the generator produced.
func (e *Endpoint) CIDsIssued() int { return e.cidCtr }

var (
	ClientAddr = Addr("10.0.0.1:1111")
	ServerAddr = Addr("10.0.0.2:2222")
)

// NewEndpoint builds the real connection object (no handshake yet).
func (w *World) NewEndpoint(p *PKI, isClient bool, addr, peer Addr, cfg Cfg) (*Endpoint, error) {
	name := "server"
	if isClient {
		name = "client"
	}
	e := &Endpoint{W: w, Name: name, IsClient: isClient, Addr: addr, Peer: peer, Cfg: cfg, KeyLog: &lockedBuf{}}
	e.Log = &logSink{name: name, w: w}
	e.PC = w.NewConn(addr)
	opts := e.options(p)
	var err error
	if isClient {
		co := make([]dtls.ClientOption, 0, len(opts)+len(cfg.ExtraClient))
		for _, x := range opts {
			co = append(co, x)
		}
		co = append(co, cfg.ExtraClient...)
		e.Conn, err = dtls.ClientWithOptions(e.PC, peer, co...)
	} else {
		so := make([]dtls.ServerOption, 0, len(opts)+4)
		for _, x := range opts {
			so = append(so, x)
		}
		if cfg.ClientAuth != 0 {
			so = append(so, dtls.WithClientAuth(cfg.ClientAuth))
			if cfg.Verify == "other" {
				so = append(so, dtls.WithClientCAs(p.OtherRoots))
			} else {
				so = append(so, dtls.WithClientCAs(p.Roots))
			}
		}
		if cfg.SkipHelloVerify {
			so = append(so, dtls.WithInsecureSkipVerifyHello(true))
		}
		if cfg.GetCertSNI != "" {
			byName := CertFor(p, cfg.GetCertSNI, false)
			so = append(so, dtls.WithGetCertificate(func(info *dtls.ClientHelloInfo) (*tls.Certificate, error) {
				if info != nil && info.ServerName != "" {
					return byName, nil
				}
				return nil, nil
			}))
		}
		if cfg.GetCertSwitch[0] != "" {
			first, later := CertFor(p, cfg.GetCertSwitch[0], false), CertFor(p, cfg.GetCertSwitch[1], false)
			calls := 0
			so = append(so, dtls.WithGetCertificate(func(*dtls.ClientHelloInfo) (*tls.Certificate, error) {
				calls++
				if calls == 1 {
					return first, nil
				}
				return later, nil
			}))
		}
		so = append(so, cfg.ExtraServer...)
		e.Conn, err = dtls.ServerWithOptions(e.PC, peer, so...)
	}
	if err != nil {
		return nil, err
	}
	conn := e.Conn
	w.OnCleanup(func() { _ = conn.Close() })
	dtls.VerifPeek(conn, func(in dtls.VerifInternals) { e.cachePtr = in.HandshakeCache })
	return e, nil
}

// StartHandshake launches HandshakeContext as an application op.
func (e *Endpoint) StartHandshake() *Op {
	e.HS = e.W.Go(e.Name+".Handshake", func(*Op) error { return e.Conn.HandshakeContext(context.Background()) })
	return e.HS
}

// Pair is the standard two-endpoint association.
type Pair struct {
	W    *World
	C, S *Endpoint
	// FirstID is the emission id of the first datagram of this association.
	FirstID int
}

// ErrConfig marks a configuration the library refuses at construction.
var ErrConfig = errors.New("configuration rejected")

// NewPair builds client and server, starts the client's handshake, settles, then the server's.
// Only one endpoint is ever active between two quiescent points, so the RNG stream order is fixed.
func (w *World) NewPair(p *PKI, ccfg, scfg Cfg) (*Pair, error) {
	c, err := w.NewEndpoint(p, true, ClientAddr, ServerAddr, ccfg)
	if err != nil {
		return nil, fmt.Errorf("%w: client: %v", ErrConfig, err)
	}
	s, err := w.NewEndpoint(p, false, ServerAddr, ClientAddr, scfg)
	if err != nil {
		return nil, fmt.Errorf("%w: server: %v", ErrConfig, err)
	}
	pr := &Pair{W: w, C: c, S: s, FirstID: w.EmittedCount()}
	c.StartHandshake()
	w.Settle()
	s.StartHandshake()
	w.Settle()
	return pr, nil
}

// BothDone reports whether both handshake calls returned.
func (p *Pair) BothDone() bool { return p.C.HS.Done() && p.S.HS.Done() }

// BothOK reports whether both handshakes returned nil.
func (p *Pair) BothOK() bool { return p.C.HS.OK() && p.S.HS.OK() }

// CloseAll closes both connections and lets every goroutine finish.
func (p *Pair) CloseAll() {
	w := p.W
	a := w.Go("client.Close", func(*Op) error { return p.C.Conn.Close() })
	b := w.Go("server.Close", func(*Op) error { return p.S.Conn.Close() })
	w.Settle()
	// Closing may leave a close_notify in flight; drop everything.
	for _, d := range w.InFlight() {
		w.Take(d)
	}
	_ = a
	_ = b
	w.Settle()
}

// PoolRoots exposes the CA pool (for x509-aware oracles).
func (p *PKI) PoolRoots() *x509.CertPool { return p.Roots }

// Transfer writes payload on from, pumps the network and reads one message on to.
// It returns what Read returned.
func (p *Pair) Transfer(n *Net, from, to *Endpoint, payload []byte, horizon time.Duration) ([]byte, error, error) {
	w := p.W
	rd := w.Go(to.Name+".Read", func(op *Op) error {
		buf := make([]byte, 8192)
		k, err := to.Conn.Read(buf)
		op.Set(k, append([]byte(nil), buf[:k]...))
		return err
	})
	w.Settle()
	wr := w.Go(from.Name+".Write", func(op *Op) error {
		k, err := from.Conn.Write(payload)
		op.Set(k, nil)
		return err
	})
	_ = n.Pump(horizon, func() bool { return rd.Done() && wr.Done() })
	if !rd.Done() {
		// unblock the reader so no goroutine is left behind
		_ = to.Conn.SetReadDeadline(time.Unix(1, 0))
		w.Settle()
		_ = to.Conn.SetReadDeadline(time.Time{})
	}
	_, werr := wr.Result()
	rdone, rerr := rd.Result()
	if !rdone {
		rerr = ErrHorizon
	}
	if !wr.Done() {
		werr = ErrHorizon
	}
	return rd.Data, rerr, werr
}
