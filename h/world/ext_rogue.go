package world

import (
	"crypto"
	"crypto/ecdsa"
	"crypto/sha256"
	"crypto/tls"
	"encoding/asn1"
	"io"
	"math/big"

	dtls "github.com/pion/dtls/v3"
	dtlsflight "github.com/pion/dtls/v3/internal/flight"
	dtlshandshake "github.com/pion/dtls/v3/internal/handshake"
	dtlsstate "github.com/pion/dtls/v3/internal/state"
	"github.com/pion/dtls/v3/pkg/crypto/hash"
	"github.com/pion/dtls/v3/pkg/crypto/signature"
	"github.com/pion/dtls/v3/pkg/protocol/handshake"
	"github.com/pion/dtls/v3/zzverif/refimpl"
)

// Rogue endpoints (DESIGN.md §2.4): a real library endpoint whose freshly generated flights are edited
// through the verif flight-editor hook, so it stays cryptographically competent.

// FlightEdit edits one generated flight. flight is e.g. "Flight 4".
type FlightEdit func(e *Endpoint, st dtlsstate.Active, flight string, pkts []*dtlsflight.Packet) []*dtlsflight.Packet

// SetFlightEditor installs edit on the endpoint (call before StartHandshake).
func (e *Endpoint) SetFlightEditor(edit FlightEdit) {
	dtls.VerifPeek(e.Conn, func(in dtls.VerifInternals) {
		common := dtlsstate.CommonState(in.State)
		dtlshandshake.VerifSetFlightEditor(common, func(st dtlsstate.Active, flight string, pkts []*dtlsflight.Packet) []*dtlsflight.Packet {
			return edit(e, st, flight, pkts)
		})
		e.W.OnCleanup(func() { dtlshandshake.VerifSetFlightEditor(common, nil) })
	})
}

// HSType returns the handshake type of a packet, or 255 if it is not a handshake message.
func HSType(p *dtlsflight.Packet) handshake.Type {
	if h, ok := p.Record.Content.(*handshake.Handshake); ok && h.Message != nil {
		return h.Message.Type()
	}
	return handshake.Type(255)
}

// DropMessages returns an editor removing every handshake message of the given types from flight.
// For a DTLS 1.2 client flight 5 the Finished verify_data is recomputed over the edited transcript
// (the rogue is otherwise competent).
func DropMessages(flight string, types ...handshake.Type) FlightEdit {
	return func(e *Endpoint, st dtlsstate.Active, fl string, pkts []*dtlsflight.Packet) []*dtlsflight.Packet {
		if fl != flight {
			return pkts
		}
		out := pkts[:0:0]
		dropped := false
		for _, p := range pkts {
			t := HSType(p)
			drop := false
			for _, x := range types {
				if t == x {
					drop = true
				}
			}
			if drop {
				dropped = true
				continue
			}
			out = append(out, p)
		}
		if dropped {
			e.W.Logf("rogue %s: dropped %v from %s", e.Name, types, fl)
			if s12, ok := st.(*dtlsstate.State12); ok && s12.IsClient {
				refinish12(e, s12, out)
			}
		}
		return out
	}
}

// refinish12 recomputes the client's Finished verify_data over cache + the (edited) flight.
func refinish12(e *Endpoint, st *dtlsstate.State12, pkts []*dtlsflight.Packet) {
	var cache *dtlsflight.Cache
	// the editor runs on the FSM goroutine; the cache pointer is stable
	cache = e.cachePtr
	if cache == nil || st.CipherSuite == nil {
		return
	}
	rules := []dtlsflight.HandshakeCachePullRule{
		{Typ: handshake.TypeClientHello, Epoch: 0, IsClient: true},
		{Typ: handshake.TypeServerHello, Epoch: 0, IsClient: false},
		{Typ: handshake.TypeCertificate, Epoch: 0, IsClient: false},
		{Typ: handshake.TypeServerKeyExchange, Epoch: 0, IsClient: false},
		{Typ: handshake.TypeCertificateRequest, Epoch: 0, IsClient: false},
		{Typ: handshake.TypeServerHelloDone, Epoch: 0, IsClient: false},
	}
	transcript := cache.PullAndMerge(rules...)
	seq := uint16(st.HandshakeSendSequence)
	var fin *handshake.MessageFinished
	for _, p := range pkts {
		h, ok := p.Record.Content.(*handshake.Handshake)
		if !ok {
			continue
		}
		if f, isFin := h.Message.(*handshake.MessageFinished); isFin {
			fin = f
			break
		}
		cp := *h
		cp.Header.MessageSequence = seq
		seq++
		raw, err := cp.Marshal()
		if err != nil {
			return
		}
		transcript = append(transcript, raw...)
	}
	if fin == nil {
		return
	}
	suite, ok := refimpl.SuiteByID(uint16(st.CipherSuite.ID()))
	if !ok {
		return
	}
	fin.VerifyData = refimpl.VerifyData(suite.Hash, st.MasterSecret, transcript, true)
	st.LocalVerifyData = fin.VerifyData
}

// --- dishonest signers ----------------------------------------------------------------------

// FlipSigner produces signatures with one bit flipped.
type FlipSigner struct{ crypto.Signer }

func (s FlipSigner) Sign(r io.Reader, digest []byte, opts crypto.SignerOpts) ([]byte, error) {
	sig, err := s.Signer.Sign(r, digest, opts)
	if err == nil && len(sig) > 0 {
		sig[len(sig)/2] ^= 0x04
	}
	return sig, err
}

// StaleSigner signs something other than what it was asked to sign (a signature over other data).
type StaleSigner struct{ crypto.Signer }

func (s StaleSigner) Sign(r io.Reader, digest []byte, opts crypto.SignerOpts) ([]byte, error) {
	if opts != nil && opts.HashFunc() == crypto.Hash(0) {
		return s.Signer.Sign(r, append([]byte("stale transcript "), digest...), opts)
	}
	other := sha256.Sum256(append([]byte("stale"), digest...))
	d := make([]byte, len(digest))
	for i := range d {
		d[i] = other[i%len(other)]
	}
	return s.Signer.Sign(r, d, opts)
}

// WithSigner returns a copy of cert whose private key is replaced.
func WithSigner(cert tls.Certificate, k crypto.Signer) *tls.Certificate {
	c := cert
	c.PrivateKey = k
	return &c
}

// --- signature-scheme confusion (forgery from the PUBLIC key alone) --------------------------------

// PublicOnlySigner holds only a victim's ECDSA public key. Sign returns an ECDSA signature that verifies
// for the all-zero digest e=0: pick k, P = k*Q, r = P.x mod n, s = r*k^-1 mod n. It is what an attacker who
// merely knows the victim's certificate can produce; it is only "valid" if the verifier hashes the signed
// message to an empty digest (e.g. because the claimed scheme has no prehash) and still runs ECDSA.
type PublicOnlySigner struct{ Pub *ecdsa.PublicKey }

func (s PublicOnlySigner) Public() crypto.PublicKey { return s.Pub }

func (s PublicOnlySigner) Sign(io.Reader, []byte, crypto.SignerOpts) ([]byte, error) {
	return ForgeZeroDigestECDSA(s.Pub)
}

// ForgeZeroDigestECDSA returns the ASN.1 signature described above.
func ForgeZeroDigestECDSA(pub *ecdsa.PublicKey) ([]byte, error) {
	curve := pub.Curve
	n := curve.Params().N
	k := big.NewInt(0x5eed1234)
	x, _ := curve.ScalarMult(pub.X, pub.Y, k.Bytes()) //nolint:staticcheck // attacker arithmetic on a public point
	r := new(big.Int).Mod(x, n)
	s := new(big.Int).Mul(r, new(big.Int).ModInverse(k, n))
	s.Mod(s, n)
	return asn1.Marshal(struct{ R, S *big.Int }{r, s})
}

// ClaimScheme returns an editor that rewrites the signature scheme claimed in the ServerKeyExchange
// (flight "Flight 4") or CertificateVerify (flight "Flight 5") of a DTLS 1.2 flight and replaces the
// signature bytes.
func ClaimScheme(flight string, h hash.Algorithm, sig signature.Algorithm, forged func() []byte) FlightEdit {
	return func(e *Endpoint, st dtlsstate.Active, fl string, pkts []*dtlsflight.Packet) []*dtlsflight.Packet {
		if fl != flight {
			return pkts
		}
		for _, p := range pkts {
			hs, ok := p.Record.Content.(*handshake.Handshake)
			if !ok {
				continue
			}
			switch m := hs.Message.(type) {
			case *handshake.MessageServerKeyExchange:
				m.HashAlgorithm, m.SignatureAlgorithm, m.Signature = h, sig, forged()
			case *handshake.MessageCertificateVerify:
				m.HashAlgorithm, m.SignatureAlgorithm, m.Signature = h, sig, forged()
			}
		}
		if s12, ok := st.(*dtlsstate.State12); ok && s12.IsClient {
			refinish12(e, s12, pkts)
		}
		return pkts
	}
}
