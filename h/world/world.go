// Package world is the deterministic, closed environment ("bubble world", DESIGN.md §2.1 E1) in
// which real pion/dtls endpoints run: in-memory network whose every delivery is decided by the
// harness, fake time (testing/synctest), seeded crypto randomness (testing/cryptotest).
package world

import (
	"errors"
	"fmt"
	"net"
	"os"
	"strings"
	"sync"
	"sync/atomic"
	"syscall"
	"testing"
	"testing/cryptotest"
	"testing/synctest"
	"time"
)

// Addr is a harness-assigned network address.
type Addr string

func (a Addr) Network() string { return "mem" }
func (a Addr) String() string  { return string(a) }

// Datagram is one emitted (or injected) datagram.
type Datagram struct {
	ID    int // global emission order
	Src   Addr
	Dst   Addr
	Data  []byte
	At    time.Duration // fake time since world start
	Dir   int           // index per (Src) emission counter: k-th datagram emitted by Src
	Taken bool          // removed from the in-flight list
}

// World owns network, time origin and the op registry of one execution.
type World struct {
	T     *testing.T
	mu    sync.Mutex
	start time.Time
	conns map[Addr]*MemConn
	// inflight holds emitted-but-undelivered datagrams in emission order.
	inflight []*Datagram
	// Log is every datagram ever emitted by an endpoint (not injected ones).
	Log      []*Datagram
	perSrc   map[Addr]int
	activity chan struct{}
	ops      []*Op
	// Delivered counts deliveries per destination.
	Delivered map[Addr]int
	// OnEmit, if set, is called (outside the lock) for each emission from the emitting goroutine.
	// It may block (emission hold).
	OnEmit func(d *Datagram)
	// Trace collects free-form event lines for replay output.
	Trace   []string
	Verbose bool
	NoSkew  bool
	// CIDLenHint, if set, tells wire parsers which CID length to assume for datagrams emitted by an address.
	CIDLenHint func(src Addr) int
	closers    []func()
	onEmit     atomic.Pointer[func(d *Datagram)]
}

// Run executes body inside a fresh bubble with the given seed.
// A panic inside the bubble propagates to the caller (and kills the process unless recovered there).
func Run(t *testing.T, seed uint64, body func(w *World)) {
	_ = RunLeak(t, seed, body)
}

// RunLeak is Run, but reports (instead of propagating) the synctest panic raised when goroutines are
// still blocked inside the bubble after body and the final cleanup have finished: a goroutine leak.
func RunLeak(t *testing.T, seed uint64, body func(w *World)) (leak string) {
	defer func() {
		if r := recover(); r != nil {
			msg := fmt.Sprint(r)
			if strings.Contains(msg, "blocked goroutines remain") {
				leak = msg
				return
			}
			panic(r)
		}
	}()
	synctest.Test(t, func(t *testing.T) {
		cryptotest.SetGlobalRandom(t, seed)
		w := &World{
			T:         t,
			start:     time.Now(),
			conns:     map[Addr]*MemConn{},
			perSrc:    map[Addr]int{},
			activity:  make(chan struct{}, 1),
			Delivered: map[Addr]int{},
			Verbose:   os.Getenv("VERIF_VERBOSE") != "",
		}
		body(w)
		w.Cleanup()
	})
	return ""
}

// Cleanup closes every endpoint that is still open, discards the network and lets goroutines finish.
func (w *World) Cleanup() {
	w.mu.Lock()
	closers := append([]func(){}, w.closers...)
	w.closers = nil
	w.mu.Unlock()
	for _, c := range closers {
		go c()
	}
	synctest.Wait()
	w.mu.Lock()
	w.inflight = nil
	conns := w.conns
	w.mu.Unlock()
	for _, c := range conns {
		_ = c.Close()
	}
	synctest.Wait()
}

// OnCleanup registers a function run (in its own goroutine) when the world is torn down.
func (w *World) OnCleanup(f func()) {
	w.mu.Lock()
	w.closers = append(w.closers, f)
	w.mu.Unlock()
}

// Now returns fake time elapsed since the world started.
func (w *World) Now() time.Duration { return time.Since(w.start) }

func (w *World) Logf(format string, args ...any) {
	s := fmt.Sprintf("[%9.3fs] ", w.Now().Seconds()) + fmt.Sprintf(format, args...)
	w.mu.Lock()
	w.Trace = append(w.Trace, s)
	w.mu.Unlock()
	if w.Verbose {
		fmt.Fprintln(os.Stderr, s)
	}
}

// Settle blocks until every goroutine in the bubble is durably blocked.
func (w *World) Settle() { synctest.Wait() }

// NewConn creates the PacketConn bound to addr.
func (w *World) NewConn(addr Addr) *MemConn {
	c := &MemConn{w: w, addr: addr, inbox: make(chan inPkt, 4096), closed: make(chan struct{}), dlChanged: make(chan struct{}, 1), wdlChanged: make(chan struct{}, 1)}
	w.mu.Lock()
	w.conns[addr] = c
	w.perSrc[addr] = 0 // emission indices are per connection object
	w.mu.Unlock()
	return c
}

func (w *World) emit(src, dst Addr, b []byte) *Datagram {
	w.mu.Lock()
	d := &Datagram{ID: len(w.Log), Src: src, Dst: dst, Data: append([]byte(nil), b...), At: time.Since(w.start), Dir: w.perSrc[src]}
	w.perSrc[src]++
	w.Log = append(w.Log, d)
	w.inflight = append(w.inflight, d)
	w.mu.Unlock()
	select {
	case w.activity <- struct{}{}:
	default:
	}
	return d
}

// InFlight returns a copy of the in-flight list (emission order).
func (w *World) InFlight() []*Datagram {
	w.mu.Lock()
	defer w.mu.Unlock()
	return append([]*Datagram(nil), w.inflight...)
}

// Head returns the oldest in-flight datagram or nil.
func (w *World) Head() *Datagram {
	w.mu.Lock()
	defer w.mu.Unlock()
	if len(w.inflight) == 0 {
		return nil
	}
	return w.inflight[0]
}

// Take removes d from the in-flight list (the caller now owns its fate).
func (w *World) Take(d *Datagram) {
	w.mu.Lock()
	defer w.mu.Unlock()
	for i, x := range w.inflight {
		if x == d {
			w.inflight = append(w.inflight[:i], w.inflight[i+1:]...)
			d.Taken = true
			return
		}
	}
}

// EmittedCount returns the number of datagrams emitted so far.
func (w *World) EmittedCount() int {
	w.mu.Lock()
	defer w.mu.Unlock()
	return len(w.Log)
}

// Emitted returns a copy of the emission log.
func (w *World) Emitted() []*Datagram {
	w.mu.Lock()
	defer w.mu.Unlock()
	return append([]*Datagram(nil), w.Log...)
}

// Push delivers bytes to dst's inbox as coming from src (no in-flight bookkeeping).
// Returns false if dst does not exist or is closed.
func (w *World) Push(src, dst Addr, b []byte) bool {
	w.Skew()
	w.mu.Lock()
	c := w.conns[dst]
	w.Delivered[dst]++
	w.mu.Unlock()
	if c == nil {
		return false
	}
	select {
	case <-c.closed:
		return false
	default:
	}
	select {
	case c.inbox <- inPkt{src: src, b: append([]byte(nil), b...)}:
		return true
	default:
		panic("world: inbox overflow")
	}
}

// PushReadErr makes dst's next ReadFrom (after what is already queued) report err once: what a connected UDP
// socket does when an ICMP error for an earlier datagram comes back.
func (w *World) PushReadErr(dst Addr, err error) bool {
	w.Skew()
	w.mu.Lock()
	c := w.conns[dst]
	w.mu.Unlock()
	if c == nil {
		return false
	}
	select {
	case <-c.closed:
		return false
	default:
	}
	select {
	case c.inbox <- inPkt{err: err}:
		return true
	default:
		panic("world: inbox overflow")
	}
}

// ConnRefused is the error of a UDP socket after an ICMP port-unreachable: *net.OpError wrapping ECONNREFUSED.
func ConnRefused() error {
	return &net.OpError{Op: "read", Net: "udp", Err: os.NewSyscallError("recvfrom", syscall.ECONNREFUSED)}
}

// Deliver takes d out of flight and delivers it unchanged.
func (w *World) Deliver(d *Datagram) bool {
	w.Take(d)
	return w.Push(d.Src, d.Dst, d.Data)
}

// WaitActivity blocks until an endpoint emits or max fake time elapsed. Returns true on emission.
// Call only at a settled point with nothing in flight: fake time then jumps to the next timer.
func (w *World) WaitActivity(max time.Duration) bool {
	if max <= 0 {
		return false
	}
	// The odd offset keeps the harness timer off the millisecond grid of the library's timers.
	tm := time.NewTimer(max + 777*time.Microsecond)
	defer tm.Stop()
	select {
	case <-w.activity:
		return true
	case <-tm.C:
		return false
	}
}

// DrainActivity clears a pending activity token.
func (w *World) DrainActivity() {
	select {
	case <-w.activity:
	default:
	}
}

// Sleep advances fake time by exactly d (every timer due in between fires).
func (w *World) Sleep(d time.Duration) {
	time.Sleep(d)
	synctest.Wait()
}

// ---------------------------------------------------------------------------------------------

type inPkt struct {
	src Addr
	b   []byte
	err error // non-nil: ReadFrom reports this error instead of a datagram
}

// MemConn is the in-memory net.PacketConn handed to the library.
type MemConn struct {
	w         *World
	addr      Addr
	inbox     chan inPkt
	closed    chan struct{}
	closeOnce sync.Once
	mu        sync.Mutex
	rdl, wdl  time.Time
	dlChanged chan struct{}
	// WriteErr, if set, is returned by WriteTo instead of emitting.
	WriteErr error
	// stall, if set, makes one WriteTo block the way a back-pressured socket does (ext_stall.go).
	stall       atomic.Pointer[Stall]
	wdlChanged  chan struct{}
	lateFailN   int
	lateFailErr error
	failN       int
	failSkip    int
	lateZero    bool
	failErr     error
}

var errTimeout = &timeoutError{}

type timeoutError struct{}

func (*timeoutError) Error() string   { return "i/o timeout" }
func (*timeoutError) Timeout() bool   { return true }
func (*timeoutError) Temporary() bool { return true }

func (c *MemConn) ReadFrom(p []byte) (int, net.Addr, error) {
	for {
		c.mu.Lock()
		dl := c.rdl
		c.mu.Unlock()
		var tc <-chan time.Time
		var tm *time.Timer
		if !dl.IsZero() {
			d := time.Until(dl)
			if d <= 0 {
				return 0, nil, errTimeout
			}
			tm = time.NewTimer(d)
			tc = tm.C
		}
		select {
		case pk := <-c.inbox:
			if tm != nil {
				tm.Stop()
			}
			if pk.err != nil {
				return 0, nil, pk.err
			}
			n := copy(p, pk.b)
			return n, pk.src, nil
		case <-c.closed:
			if tm != nil {
				tm.Stop()
			}
			return 0, nil, net.ErrClosed
		case <-tc:
			return 0, nil, errTimeout
		case <-c.dlChanged:
			if tm != nil {
				tm.Stop()
			}
		}
	}
}

func (c *MemConn) WriteTo(p []byte, addr net.Addr) (int, error) {
	select {
	case <-c.closed:
		return 0, net.ErrClosed
	default:
	}
	c.mu.Lock()
	werr := c.WriteErr
	c.mu.Unlock()
	if werr != nil {
		return 0, werr
	}
	if ferr := c.takeFail(); ferr != nil {
		return 0, ferr
	}
	if st := c.stall.Load(); st != nil && !st.EmitFirst {
		if err := st.wait(c); err != nil {
			return 0, err
		}
	}
	dst, ok := addr.(Addr)
	if !ok {
		dst = Addr(addr.String())
	}
	d := c.w.emit(c.addr, dst, p)
	if hp := c.w.onEmit.Load(); hp != nil {
		(*hp)(d)
	} else if h := c.w.OnEmit; h != nil {
		h(d)
	}
	if st := c.stall.Load(); st != nil && st.EmitFirst {
		if err := st.wait(c); err != nil {
			return 0, err
		}
	}
	if lerr := c.takeLateFail(); lerr != nil {
		c.mu.Lock()
		zero := c.lateZero
		c.mu.Unlock()
		if zero {
			return 0, lerr
		}
		return len(p), lerr
	}
	return len(p), nil
}

func (c *MemConn) Close() error {
	c.closeOnce.Do(func() { close(c.closed) })
	return nil
}

func (c *MemConn) IsClosed() bool {
	select {
	case <-c.closed:
		return true
	default:
		return false
	}
}

func (c *MemConn) LocalAddr() net.Addr { return c.addr }

func (c *MemConn) SetDeadline(t time.Time) error {
	_ = c.SetReadDeadline(t)
	return c.SetWriteDeadline(t)
}

func (c *MemConn) SetReadDeadline(t time.Time) error {
	c.mu.Lock()
	c.rdl = t
	c.mu.Unlock()
	select {
	case c.dlChanged <- struct{}{}:
	default:
	}
	return nil
}

func (c *MemConn) SetWriteDeadline(t time.Time) error {
	c.mu.Lock()
	c.wdl = t
	c.mu.Unlock()
	select {
	case c.wdlChanged <- struct{}{}:
	default:
	}
	return nil
}

// ---------------------------------------------------------------------------------------------

// Op is an application call running in its own goroutine.
type Op struct {
	Name string
	mu   sync.Mutex
	done bool
	Err  error
	N    int
	Data []byte
	At   time.Duration // completion time
	ch   chan struct{}
}

// Skew advances fake time by one nanosecond. Every harness-initiated event is preceded by it, so
// that timers armed in reaction to different events never expire at the same fake instant (the
// firing order of simultaneous timers belongs to the Go runtime, not to the harness).
func (w *World) Skew() {
	if !w.NoSkew {
		// After the sleep, wait for quiescence before doing anything: if a library timer expires at
		// the very instant the harness wakes up, both wake-up orders converge to the same state.
		time.Sleep(time.Nanosecond)
		synctest.Wait()
	}
}

// Go starts fn as an application call.
func (w *World) Go(name string, fn func(op *Op) error) *Op {
	w.Skew()
	op := &Op{Name: name, ch: make(chan struct{})}
	w.mu.Lock()
	w.ops = append(w.ops, op)
	w.mu.Unlock()
	go func() {
		err := fn(op)
		op.mu.Lock()
		op.Err = err
		op.done = true
		op.At = w.Now()
		op.mu.Unlock()
		close(op.ch)
	}()
	return op
}

func (o *Op) Done() bool {
	o.mu.Lock()
	defer o.mu.Unlock()
	return o.done
}

// Result returns (done, err).
func (o *Op) Result() (bool, error) {
	o.mu.Lock()
	defer o.mu.Unlock()
	return o.done, o.Err
}

// OK reports done with nil error.
func (o *Op) OK() bool {
	d, e := o.Result()
	return d && e == nil
}

func (o *Op) Wait() <-chan struct{} { return o.ch }

func (o *Op) Set(n int, data []byte) {
	o.mu.Lock()
	o.N = n
	o.Data = data
	o.mu.Unlock()
}

func (o *Op) String() string {
	d, e := o.Result()
	if !d {
		return o.Name + ":pending"
	}
	if e == nil {
		return o.Name + ":ok"
	}
	return o.Name + ":err(" + e.Error() + ")"
}

// Ops returns all ops started so far.
func (w *World) Ops() []*Op {
	w.mu.Lock()
	defer w.mu.Unlock()
	return append([]*Op(nil), w.ops...)
}

// SetOnEmit installs (nil: removes) the emission hook in a way that is safe against concurrently emitting
// library goroutines (use this rather than assigning OnEmit when the test runs under the race detector).
func (w *World) SetOnEmit(f func(d *Datagram)) {
	if f == nil {
		w.onEmit.Store(nil)
		return
	}
	w.onEmit.Store(&f)
}

// SchedPoint, when set (by the E2 layer), is called before every observable harness-side action of a
// library goroutine; it parks the goroutine until the explorer grants it.
var SchedPoint func(kind string, obj any)

// ErrHorizon marks a pump that ran out of fake time.
var ErrHorizon = errors.New("world: fake-time horizon reached")
