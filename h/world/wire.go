package world

import (
	"encoding/binary"
	"fmt"
	"strings"
)

// Minimal, independent DTLS wire parser (harness side; never calls pion decoders).

const (
	CTChangeCipherSpec = 20
	CTAlert            = 21
	CTHandshake        = 22
	CTAppData          = 23
	CTHeartbeat        = 24
	CTCID              = 25
	CTACK              = 26
	CTRRC              = 27
)

// HSFrag is one handshake fragment found in a cleartext handshake record.
type HSFrag struct {
	Type    byte
	Len     uint32
	MsgSeq  uint16
	FragOff uint32
	FragLen uint32
	Body    []byte
}

// Rec is one record of a datagram.
type Rec struct {
	Unified bool
	Type    byte
	Ver     [2]byte
	Epoch   uint16 // unified: low 2 bits only
	Seq     uint64 // unified: encrypted low bits as found on the wire
	SeqLen  int    // unified: 1 or 2
	CID     []byte
	HasLen  bool
	Body    []byte
	Raw     []byte
	HS      []HSFrag // parsed when Type==22, epoch 0, legacy header
}

// ParseDatagram splits a datagram into records. cidLen is the CID length to assume for
// tls12_cid (type 25) records and unified headers with the C bit.
// Returns the records parsed so far and an error for the unparsable remainder.
func ParseDatagram(b []byte, cidLen int) ([]Rec, error) {
	var out []Rec
	for len(b) > 0 {
		first := b[0]
		if first&0xe0 == 0x20 { // unified header 001CSLEE
			r := Rec{Unified: true, Epoch: uint16(first & 3)}
			off := 1
			if first&0x10 != 0 {
				if len(b) < off+cidLen {
					return out, fmt.Errorf("short unified cid")
				}
				r.CID = b[off : off+cidLen]
				off += cidLen
			}
			if first&0x08 != 0 {
				if len(b) < off+2 {
					return out, fmt.Errorf("short unified seq")
				}
				r.Seq = uint64(binary.BigEndian.Uint16(b[off:]))
				r.SeqLen = 2
				off += 2
			} else {
				if len(b) < off+1 {
					return out, fmt.Errorf("short unified seq")
				}
				r.Seq = uint64(b[off])
				r.SeqLen = 1
				off++
			}
			n := len(b) - off
			if first&0x04 != 0 {
				if len(b) < off+2 {
					return out, fmt.Errorf("short unified len")
				}
				n = int(binary.BigEndian.Uint16(b[off:]))
				off += 2
				r.HasLen = true
			}
			if len(b) < off+n {
				return out, fmt.Errorf("short unified body")
			}
			r.Type = 0xff
			r.Body = b[off : off+n]
			r.Raw = b[:off+n]
			out = append(out, r)
			b = b[off+n:]
			continue
		}
		if len(b) < 13 {
			return out, fmt.Errorf("short legacy header")
		}
		r := Rec{Type: b[0], Ver: [2]byte{b[1], b[2]}, Epoch: binary.BigEndian.Uint16(b[3:5]), HasLen: true}
		r.Seq = uint64(b[5])<<40 | uint64(b[6])<<32 | uint64(b[7])<<24 | uint64(b[8])<<16 | uint64(b[9])<<8 | uint64(b[10])
		off := 11
		if r.Type == CTCID {
			if len(b) < off+cidLen+2 {
				return out, fmt.Errorf("short cid header")
			}
			r.CID = b[off : off+cidLen]
			off += cidLen
		}
		n := int(binary.BigEndian.Uint16(b[off:]))
		off += 2
		if len(b) < off+n {
			return out, fmt.Errorf("short legacy body")
		}
		r.Body = b[off : off+n]
		r.Raw = b[:off+n]
		if r.Type == CTHandshake && r.Epoch == 0 {
			r.HS = parseHS(r.Body)
		}
		out = append(out, r)
		b = b[off+n:]
	}
	return out, nil
}

func parseHS(b []byte) []HSFrag {
	var out []HSFrag
	for len(b) >= 12 {
		f := HSFrag{Type: b[0], Len: uint32(b[1])<<16 | uint32(b[2])<<8 | uint32(b[3]), MsgSeq: binary.BigEndian.Uint16(b[4:6]),
			FragOff: uint32(b[6])<<16 | uint32(b[7])<<8 | uint32(b[8]), FragLen: uint32(b[9])<<16 | uint32(b[10])<<8 | uint32(b[11])}
		if int(f.FragLen) > len(b)-12 {
			return out
		}
		f.Body = b[12 : 12+int(f.FragLen)]
		out = append(out, f)
		b = b[12+int(f.FragLen):]
	}
	return out
}

var hsNames = map[byte]string{0: "HelloRequest", 1: "ClientHello", 2: "ServerHello", 3: "HelloVerifyRequest", 4: "NewSessionTicket",
	8: "EncryptedExtensions", 11: "Certificate", 12: "ServerKeyExchange", 13: "CertificateRequest", 14: "ServerHelloDone",
	15: "CertificateVerify", 16: "ClientKeyExchange", 20: "Finished", 24: "KeyUpdate"}

// HSName names a handshake type.
func HSName(t byte) string {
	if n, ok := hsNames[t]; ok {
		return n
	}
	return fmt.Sprintf("hs%d", t)
}

var ctNames = map[byte]string{20: "CCS", 21: "Alert", 22: "HS", 23: "App", 24: "HB", 25: "CID", 26: "ACK", 27: "RRC"}

// DescribeCID is Describe with a CID length hint.
func DescribeCID(b []byte, cidLen int) string {
	recs, err := ParseDatagram(b, cidLen)
	var parts []string
	for _, r := range recs {
		switch {
		case r.Unified:
			parts = append(parts, fmt.Sprintf("U(e%d,%dB)", r.Epoch, len(r.Body)))
		case len(r.HS) > 0:
			var hs []string
			for _, f := range r.HS {
				s := fmt.Sprintf("%s#%d", HSName(f.Type), f.MsgSeq)
				if f.FragOff != 0 || f.FragLen != f.Len {
					s += fmt.Sprintf("[%d+%d/%d]", f.FragOff, f.FragLen, f.Len)
				}
				hs = append(hs, s)
			}
			parts = append(parts, strings.Join(hs, "+"))
		default:
			n := ctNames[r.Type]
			if n == "" {
				n = fmt.Sprintf("ct%d", r.Type)
			}
			parts = append(parts, fmt.Sprintf("%s(e%d,s%d,%dB)", n, r.Epoch, r.Seq, len(r.Body)))
		}
	}
	if err != nil {
		parts = append(parts, "?"+err.Error())
	}
	return fmt.Sprintf("%dB{%s}", len(b), strings.Join(parts, " "))
}

// Describe renders a datagram for traces.
func Describe(b []byte) string { return DescribeCID(b, 0) }

// Shape renders a datagram without byte values or lengths that depend on random data; used in state digests.
func Shape(b []byte, cidLen int) string {
	recs, err := ParseDatagram(b, cidLen)
	var sb strings.Builder
	for _, r := range recs {
		switch {
		case r.Unified:
			fmt.Fprintf(&sb, "U%d;", r.Epoch)
		case len(r.HS) > 0:
			for _, f := range r.HS {
				fmt.Fprintf(&sb, "h%d.%d.%d;", f.Type, f.MsgSeq, f.FragOff)
			}
		default:
			fmt.Fprintf(&sb, "r%d.%d.%d;", r.Type, r.Epoch, r.Seq)
		}
	}
	if err != nil {
		sb.WriteString("?")
	}
	return sb.String()
}
