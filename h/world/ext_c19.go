package world

import (
	"context"
	"fmt"

	dtls "github.com/pion/dtls/v3"
)

// C19 primitives: detaching an endpoint from the network without telling the peer, and building a
// new endpoint from an exported dtls.State (dtls.ResumeWithOptions) on the same address.

// Detach stops the endpoint's connection object from taking part in the world without emitting
// anything: its PacketConn is closed (reads fail, writes fail before reaching the network), which
// ends the connection's goroutines. The address binding stays until a new conn replaces it.
func (e *Endpoint) Detach() {
	_ = e.PC.Close()
	e.W.Settle()
}

// ResumeOptions returns the generic options the endpoint's Cfg turns into (the same builder the
// original endpoint used), bound to this endpoint's log sink / key log / CID generator.
func (e *Endpoint) ResumeOptions(p *PKI) []dtls.Option { return e.options(p) }

// ResumeFrom binds a NEW MemConn to e's address (replacing e's binding) and builds a new endpoint
// around dtls.ResumeWithOptions(st, ...) with options equivalent to e's. The old endpoint object is
// not touched (call Detach first). A panic inside the library call is returned as an error whose
// text starts with "panic:".
func (e *Endpoint) ResumeFrom(p *PKI, st *dtls.State) (ne *Endpoint, err error) {
	return e.ResumeFromAt(p, st, e.Addr)
}

// ResumeFromAt is ResumeFrom with the resumed endpoint bound to addr (a NEW MemConn). With
// addr != e.Addr the resumed endpoint sends from a new local address: e's (detached) binding stays,
// so whatever the peer still sends to the old address reaches a closed conn and is lost.
func (e *Endpoint) ResumeFromAt(p *PKI, st *dtls.State, addr Addr) (ne *Endpoint, err error) {
	w := e.W
	ne = &Endpoint{W: w, Name: e.Name + "'", IsClient: e.IsClient, Addr: addr, Peer: e.Peer, Cfg: e.Cfg, KeyLog: &lockedBuf{}, cidCtr: e.cidCtr}
	ne.Log = &logSink{name: ne.Name, w: w}
	w.Skew()
	ne.PC = w.NewConn(addr)
	defer func() {
		if r := recover(); r != nil {
			err = fmt.Errorf("panic: ResumeWithOptions: %v", r)
			ne = nil
		}
	}()
	conn, rerr := dtls.ResumeWithOptions(st, ne.PC, e.Peer, ne.options(p)...)
	if rerr != nil {
		return nil, rerr
	}
	ne.Conn = conn
	w.OnCleanup(func() { _ = conn.Close() })
	return ne, nil
}

// StartResumedHandshake runs HandshakeContext on a resumed endpoint (it installs the imported state
// and starts the connection's goroutines); panics in the calling goroutine become the op's error.
func (e *Endpoint) StartResumedHandshake() *Op {
	e.HS = e.W.Go(e.Name+".Handshake", func(*Op) (err error) {
		defer func() {
			if r := recover(); r != nil {
				err = fmt.Errorf("panic: Handshake: %v", r)
			}
		}()
		return e.Conn.HandshakeContext(context.Background())
	})
	return e.HS
}
