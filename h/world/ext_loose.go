package world

import (
	"bytes"
	"fmt"
	"runtime"
	"strings"
)

// SettleLoose is the quiescence test for situations in which some goroutine of the bubble waits on a real
// sync.Mutex (e.g. an application call queued behind Conn.handshakeMutex or Conn.writeLock): such a wait
// is not "durable", so synctest.Wait (Settle) would never return and fake time cannot advance. It yields
// until every other goroutine of the bubble is blocked (durably, or on a mutex/rwmutex/waitgroup/cond/
// semaphore). It panics after a bounded number of polls (harness error, never a violation).
func (w *World) SettleLoose() {
	for poll := 0; poll < 2000; poll++ {
		for i := 0; i < 50; i++ {
			runtime.Gosched()
		}
		if busy := bubbleBusy(); busy == "" {
			return
		}
	}
	panic("world: SettleLoose: bubble did not become quiescent: " + bubbleBusy())
}

// MutexBlocked reports whether some goroutine of the bubble currently waits on a mutex-like primitive.
func MutexBlocked() bool {
	for _, h := range bubbleHeaders() {
		if !strings.Contains(h, "(durable)") && isBlockedState(h) {
			return true
		}
	}
	return false
}

func bubbleHeaders() []string {
	buf := make([]byte, 1<<20)
	for {
		n := runtime.Stack(buf, true)
		if n < len(buf) {
			buf = buf[:n]
			break
		}
		buf = make([]byte, 2*len(buf))
	}
	var out []string
	for _, blk := range bytes.Split(buf, []byte("\n\n")) {
		line := blk
		if i := bytes.IndexByte(blk, '\n'); i >= 0 {
			line = blk[:i]
		}
		s := string(line)
		if strings.HasPrefix(s, "goroutine ") && strings.Contains(s, "synctest bubble") {
			out = append(out, s)
		}
	}
	return out
}

func isBlockedState(h string) bool {
	for _, k := range []string{"(durable)", "sync.Mutex.Lock", "sync.RWMutex", "sync.WaitGroup.Wait", "sync.Cond.Wait", "semacquire"} {
		if strings.Contains(h, k) {
			return true
		}
	}
	return false
}

// bubbleBusy returns "" if every goroutine of the bubble other than the caller is blocked.
func bubbleBusy() string {
	for _, h := range bubbleHeaders() {
		if strings.Contains(h, "[running") {
			continue // the caller
		}
		if !isBlockedState(h) {
			return h
		}
	}
	return ""
}

// GoNoSkew starts an application call without advancing fake time first (needed while a goroutine
// waits on a mutex: time cannot advance then).
func (w *World) GoNoSkew(name string, fn func(op *Op) error) *Op {
	old := w.NoSkew
	w.NoSkew = true
	defer func() { w.NoSkew = old }()
	return w.Go(name, fn)
}

// BubbleInventory renders the goroutine headers of the bubble (diagnostics).
func BubbleInventory() string { return fmt.Sprint(bubbleHeaders()) }

// CIDLenFor returns the connection-ID length to assume when parsing datagrams emitted by src
// (= the length of the CIDs its peer generates).
func (p *Pair) CIDLenFor(src Addr) int {
	peer := p.C
	if src == p.C.Addr {
		peer = p.S
	}
	if peer.Cfg.CIDLen > 0 {
		return peer.Cfg.CIDLen
	}
	return 0
}
