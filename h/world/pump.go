package world

import (
	"fmt"
	"sort"
	"strings"
	"time"
)

// Action is the fate of one emitted datagram.
type Action int

const (
	ActDeliver Action = iota // default: deliver now
	ActDrop                  // lose it
	ActDup                   // deliver twice (back to back)
	ActSwap                  // hold back until the next datagram from the same source has been handled
	ActHold1                 // hold back until 1 further emission (any source) has been handled
	ActHold3                 // hold back until 3 further emissions have been handled
	ActDupLate               // deliver now and once more after 2 further emissions have been handled
	NumActions
)

var actionNames = [...]string{"deliver", "drop", "dup", "swap", "hold1", "hold3", "duplate"}

func (a Action) String() string { return actionNames[a] }

// Fault is one deviation from reliable FIFO delivery: the Idx-th datagram emitted by Src gets Act.
type Fault struct {
	FromClient bool
	Idx        int
	Act        Action
}

func (f Fault) String() string {
	side := "s"
	if f.FromClient {
		side = "c"
	}
	return fmt.Sprintf("%s%d:%s", side, f.Idx, f.Act)
}

// Mask is a set of faults (at most one per datagram).
type Mask []Fault

func (m Mask) String() string {
	if len(m) == 0 {
		return "none"
	}
	s := make([]string, len(m))
	for i, f := range m {
		s[i] = f.String()
	}
	return strings.Join(s, ",")
}

// ParseMask is the inverse of Mask.String.
func ParseMask(s string) (Mask, error) {
	if s == "" || s == "none" {
		return nil, nil
	}
	var m Mask
	for _, part := range strings.Split(s, ",") {
		var side string
		var idx int
		var act string
		colon := strings.IndexByte(part, ':')
		if colon < 2 {
			return nil, fmt.Errorf("bad fault %q", part)
		}
		side = part[:1]
		if _, err := fmt.Sscanf(part[1:colon], "%d", &idx); err != nil {
			return nil, err
		}
		act = part[colon+1:]
		a := -1
		for i, n := range actionNames {
			if n == act {
				a = i
			}
		}
		if a < 0 {
			return nil, fmt.Errorf("bad action %q", act)
		}
		m = append(m, Fault{FromClient: side == "c", Idx: idx, Act: Action(a)})
	}
	return m, nil
}

// HoldCap bounds how long (fake time) a datagram can be held back: "delay" is finite.
const HoldCap = 10 * time.Second

type held struct {
	until     time.Duration // forced release time
	d         *Datagram
	releaseAt int  // release once w.handled >= releaseAt (emission-count based)
	swapSrc   Addr // for swap: release after the next datagram from this source was handled
	swap      bool
}

// Net is a delivery policy instance for one execution.
type Net struct {
	W        *World
	Client   Addr
	faults   map[[2]int]Action // key: {0|1 (server|client), idx}
	held     []*held
	handled  int // datagrams taken off the in-flight list so far
	perSrc   map[Addr]int
	Events   []string // event trace: one entry per transition
	Faulted  int      // faults that actually fired
	OnEvent  func(ev string)
	MaxSteps int
	lastEv   string
}

// NewNet builds a policy from a mask.
func NewNet(w *World, client Addr, m Mask) *Net {
	n := &Net{W: w, Client: client, faults: map[[2]int]Action{}, perSrc: map[Addr]int{}, MaxSteps: 100000}
	for _, f := range m {
		k := 0
		if f.FromClient {
			k = 1
		}
		n.faults[[2]int{k, f.Idx}] = f.Act
	}
	return n
}

func (n *Net) event(format string, a ...any) {
	ev := fmt.Sprintf(format, a...)
	n.Events = append(n.Events, ev)
	n.W.Logf("net: %s", ev)
	n.lastEv = ev
}

// post reports the last event to the observer once the transition has completed (settled).
func (n *Net) post() {
	if n.OnEvent != nil && n.lastEv != "" {
		n.W.Settle()
		n.OnEvent(n.lastEv)
	}
	n.lastEv = ""
}

func (n *Net) actionFor(d *Datagram) Action {
	k := 0
	if d.Src == n.Client {
		k = 1
	}
	if a, ok := n.faults[[2]int{k, d.Dir}]; ok {
		return a
	}
	return ActDeliver
}

// AddFault adds one fault to a running policy (idx = per-direction emission index of the datagram).
func (n *Net) AddFault(fromClient bool, idx int, act Action) {
	k := 0
	if fromClient {
		k = 1
	}
	n.faults[[2]int{k, idx}] = act
}

// ClearFaults makes the network reliable FIFO from now on (faults apply to the handshake only).
func (n *Net) ClearFaults() { n.faults = map[[2]int]Action{} }

// HeldCount returns the number of datagrams currently held back.
func (n *Net) HeldCount() int { return len(n.held) }

// releaseDue delivers every held datagram whose condition is met; returns whether anything was delivered.
func (n *Net) releaseDue(force bool) bool {
	did := false
	for i := 0; i < len(n.held); {
		h := n.held[i]
		due := force
		if h.swap {
			if n.perSrc[h.swapSrc] > h.releaseAt {
				due = true
			}
		} else if n.handled >= h.releaseAt {
			due = true
		}
		if n.W.Now() >= h.until {
			due = true
		}
		if due {
			n.held = append(n.held[:i], n.held[i+1:]...)
			n.event("release #%d %s", h.d.ID, Describe(h.d.Data))
			n.W.Push(h.d.Src, h.d.Dst, h.d.Data)
			n.W.Settle()
			n.post()
			did = true
			continue
		}
		i++
	}
	return did
}

// Step performs one transition if the network has something to do. It returns false when nothing is
// in flight and nothing is due (the caller may then advance time).
func (n *Net) Step() bool {
	w := n.W
	w.Settle()
	d := w.Head()
	if d == nil {
		return n.releaseDue(false)
	}
	w.Take(d)
	act := n.actionFor(d)
	if act != ActDeliver {
		n.Faulted++
	}
	switch act {
	case ActDeliver:
		n.event("deliver #%d %s->%s %s", d.ID, short(d.Src), short(d.Dst), Describe(d.Data))
		w.Push(d.Src, d.Dst, d.Data)
	case ActDrop:
		n.event("DROP #%d %s", d.ID, Describe(d.Data))
	case ActDup:
		n.event("DUP #%d %s", d.ID, Describe(d.Data))
		w.Push(d.Src, d.Dst, d.Data)
		w.Settle()
		w.Push(d.Src, d.Dst, d.Data)
	case ActSwap:
		n.event("SWAP(hold) #%d %s", d.ID, Describe(d.Data))
		n.held = append(n.held, &held{until: w.Now() + HoldCap, d: d, swap: true, swapSrc: d.Src, releaseAt: n.perSrc[d.Src] + 1})
	case ActHold1:
		n.event("HOLD1 #%d %s", d.ID, Describe(d.Data))
		n.held = append(n.held, &held{until: w.Now() + HoldCap, d: d, releaseAt: n.handled + 2})
	case ActHold3:
		n.event("HOLD3 #%d %s", d.ID, Describe(d.Data))
		n.held = append(n.held, &held{until: w.Now() + HoldCap, d: d, releaseAt: n.handled + 4})
	case ActDupLate:
		n.event("DUPLATE #%d %s", d.ID, Describe(d.Data))
		w.Push(d.Src, d.Dst, d.Data)
		n.held = append(n.held, &held{until: w.Now() + HoldCap, d: d, releaseAt: n.handled + 3})
	}
	n.handled++
	n.perSrc[d.Src]++
	w.Settle()
	n.post()
	n.releaseDue(false)
	return true
}

// Pump runs the network until stop() holds or the fake-time horizon passes.
// Time advances only when nothing is in flight (the default environment answer).
func (n *Net) Pump(horizon time.Duration, stop func() bool) error {
	w := n.W
	end := w.Now() + horizon
	for steps := 0; ; steps++ {
		if steps > n.MaxSteps {
			return fmt.Errorf("world: step cap %d reached", n.MaxSteps)
		}
		w.Settle()
		if stop != nil && stop() {
			return nil
		}
		if n.Step() {
			continue
		}
		left := end - w.Now()
		if left <= 0 {
			return ErrHorizon
		}
		w.DrainActivity()
		if w.Head() != nil {
			continue
		}
		t0 := w.Now()
		for _, h := range n.held {
			if d := h.until - t0; d < left {
				left = d
			}
		}
		if left <= 0 {
			n.releaseDue(false)
			continue
		}
		if w.WaitActivity(left) {
			n.event("tick +%v", (w.Now() - t0).Round(time.Millisecond))
			n.post()
		} else {
			n.releaseDue(false)
		}
	}
}

// Flush delivers everything still held or in flight (reliable network afterwards).
func (n *Net) Flush() {
	for n.Step() {
	}
	n.releaseDue(true)
	for n.Step() {
	}
}

func short(a Addr) string {
	switch a {
	case ClientAddr:
		return "C"
	case ServerAddr:
		return "S"
	}
	return string(a)
}

// SortedKeys is a tiny helper for deterministic map iteration.
func SortedKeys[V any](m map[string]V) []string {
	k := make([]string, 0, len(m))
	for x := range m {
		k = append(k, x)
	}
	sort.Strings(k)
	return k
}
