package world

import (
	"fmt"

	dtls "github.com/pion/dtls/v3"
	dtlsstate "github.com/pion/dtls/v3/internal/state"
	"github.com/pion/dtls/v3/zzverif/refimpl"
)

// Passive decoder (DESIGN.md §2.5): decodes every record an endpoint emitted, with keys derived by the
// independent reference implementation from the session's root secrets (DTLS 1.2: master secret and
// hello randoms; DTLS 1.3: handshake / first application traffic secrets, later generations derived by
// the reference with "traffic upd"). It never calls a pion record-protection function.

// Secrets are the root secrets of one association.
type Secrets struct {
	V13          bool
	Suite        *refimpl.Suite
	Master       []byte // 1.2
	ClientRandom []byte
	ServerRandom []byte
	HSClient     []byte // 1.3
	HSServer     []byte
	APClient     []byte
	APServer     []byte
	Exporter     []byte
}

// GetSecrets reads the root secrets from the client endpoint (nil,false while no suite is negotiated).
func (p *Pair) GetSecrets() (Secrets, bool) {
	var s Secrets
	ok := false
	dtls.VerifPeek(p.C.Conn, func(in dtls.VerifInternals) {
		cs := dtlsstate.CommonState(in.State)
		if cs.CipherSuite == nil {
			return
		}
		suite, found := refimpl.SuiteByID(uint16(cs.CipherSuite.ID()))
		if !found {
			return
		}
		s.Suite = suite
		cr := cs.LocalRandom.MarshalFixed()
		sr := cs.RemoteRandom.MarshalFixed()
		s.ClientRandom, s.ServerRandom = cr[:], sr[:]
		switch st := in.State.(type) {
		case *dtlsstate.State12:
			s.Master = append([]byte(nil), st.MasterSecret...)
			ok = len(s.Master) > 0
		case *dtlsstate.State13:
			s.V13 = true
			ks := st.KeySchedule
			s.HSClient, s.HSServer = ks.HandshakeTraffic.Client, ks.HandshakeTraffic.Server
			s.APClient, s.APServer = ks.ClientApplicationTrafficSecret0, ks.ServerApplicationTrafficSecret0
			s.Exporter = ks.ExporterMasterSecret
			ok = len(s.HSClient) > 0
		}
	})
	return s, ok
}

// Decoded is one record of an emitted datagram after reference decryption.
type Decoded struct {
	D         *Datagram
	Index     int  // record index inside the datagram
	Plain     bool // epoch 0 / unprotected record
	Unified   bool
	OK        bool // decrypted and authenticated under reference keys
	Epoch     uint16
	Seq       uint64
	OuterType uint8
	Type      uint8 // real content type
	CID       []byte
	Payload   []byte
	Raw       []byte
	Err       string
}

func (d Decoded) String() string {
	return fmt.Sprintf("#%d.%d %s e%d s%d t%d ok=%v %dB", d.D.ID, d.Index, short(d.D.Src), d.Epoch, d.Seq, d.Type, d.OK, len(d.Payload))
}

// Decoder decodes the emission log incrementally.
type Decoder struct {
	P        *Pair
	S        Secrets
	next     int // next emission id to decode
	expected map[string]uint64
	maxGen   int
	Out      []Decoded
}

// NewDecoder creates a decoder; secrets are (re)read lazily, so it may be created before the handshake.
func (p *Pair) NewDecoder() *Decoder {
	return &Decoder{P: p, next: p.FirstID, expected: map[string]uint64{}, maxGen: 12}
}

// Poll decodes everything emitted since the last call and returns the new records.
func (dc *Decoder) Poll() []Decoded {
	if s, ok := dc.P.GetSecrets(); ok {
		dc.S = s
	}
	var out []Decoded
	for _, d := range dc.P.W.Emitted() {
		if d.ID < dc.next {
			continue
		}
		dc.next = d.ID + 1
		if d.Src != dc.P.C.Addr && d.Src != dc.P.S.Addr {
			continue
		}
		out = append(out, dc.decodeDatagram(d)...)
	}
	dc.Out = append(dc.Out, out...)
	return out
}

func (dc *Decoder) decodeDatagram(d *Datagram) []Decoded {
	var out []Decoded
	cidLen := dc.P.CIDLenFor(d.Src)
	fromClient := d.Src == dc.P.C.Addr
	data := d.Data
	for idx := 0; len(data) > 0; idx++ {
		rec, rest, unified, err := refimpl.NextRecord(data, cidLen)
		if err != nil {
			out = append(out, Decoded{D: d, Index: idx, Raw: data, Err: err.Error()})
			return out
		}
		x := Decoded{D: d, Index: idx, Raw: rec, Unified: unified}
		if unified {
			dc.open13(&x, rec, cidLen, fromClient)
		} else {
			dc.open12(&x, rec, cidLen, fromClient)
		}
		out = append(out, x)
		data = rest
	}
	return out
}

func (dc *Decoder) open12(x *Decoded, rec []byte, cidLen int, fromClient bool) {
	h, body, _, err := refimpl.ParseRecord12(rec, cidLen)
	if err != nil {
		x.Err = err.Error()
		return
	}
	x.Epoch, x.Seq, x.OuterType, x.Type, x.CID = h.Epoch, h.Seq, h.Type, h.Type, h.CID
	if h.Epoch == 0 {
		x.Plain, x.OK, x.Payload = true, true, body
		return
	}
	if dc.S.Suite == nil || dc.S.V13 || len(dc.S.Master) == 0 {
		x.Err = "no DTLS 1.2 keys"
		return
	}
	kb := refimpl.KeyBlockFor(dc.S.Suite, dc.S.Master, dc.S.ClientRandom, dc.S.ServerRandom)
	r, err := refimpl.Open12(dc.S.Suite, kb.Writer(fromClient), rec, cidLen)
	if err != nil {
		x.Err = err.Error()
		return
	}
	x.OK, x.Type, x.Payload = true, r.Type, r.Payload
}

func (dc *Decoder) open13(x *Decoded, rec []byte, cidLen int, fromClient bool) {
	if dc.S.Suite == nil || !dc.S.V13 {
		x.Err = "no DTLS 1.3 keys"
		return
	}
	uh, err := refimpl.ParseUnifiedHeader(rec, cidLen)
	if err != nil {
		x.Err = err.Error()
		return
	}
	x.OuterType = 0xff
	x.CID = uh.CID
	side := "s"
	hs, ap := dc.S.HSServer, dc.S.APServer
	if fromClient {
		side = "c"
		hs, ap = dc.S.HSClient, dc.S.APClient
	}
	try := func(epoch uint16, secret []byte) bool {
		if len(secret) == 0 {
			return false
		}
		keys := refimpl.TrafficKeys13(dc.S.Suite, secret)
		k := fmt.Sprintf("%s%d", side, epoch)
		r, _, err := refimpl.Open13(dc.S.Suite, keys, rec, cidLen, dc.expected[k])
		if err != nil && dc.expected[k] > 1<<16 {
			// the header carries only the low bits: also try the reading "the counter started over"
			r, _, err = refimpl.Open13(dc.S.Suite, keys, rec, cidLen, 0)
		}
		if err != nil {
			return false
		}
		x.OK, x.Epoch, x.Seq, x.Type, x.Payload = true, epoch, r.Seq, r.Type, r.Payload
		if r.Seq+1 > dc.expected[k] {
			dc.expected[k] = r.Seq + 1
		}
		return true
	}
	if uh.EpochLow == 2 && try(2, hs) {
		return
	}
	secret := ap
	for g := 0; g < dc.maxGen && len(secret) > 0; g++ {
		epoch := uint16(3 + g)
		if uint8(epoch&3) == uh.EpochLow && try(epoch, secret) {
			return
		}
		secret = refimpl.NextTrafficSecret(dc.S.Suite.Hash, secret)
	}
	x.Epoch = uint16(uh.EpochLow)
	x.Err = "opens under no reference generation"
}

// SetExpected tells the decoder the next expected DTLS 1.3 record sequence number of one direction and
// epoch (needed after a harness-made jump of the counter: the header carries only the low bits).
func (dc *Decoder) SetExpected(fromClient bool, epoch uint16, seq uint64) {
	side := "s"
	if fromClient {
		side = "c"
	}
	dc.expected[fmt.Sprintf("%s%d", side, epoch)] = seq
}
