package world

import (
	"net"
	"os"
	"sync"
	"time"
)

// Stall makes the N-th WriteTo (counted from arming, 0-based) of a MemConn block the way a
// back-pressured socket does: it returns only when the stall is released (the write then goes out),
// when the write deadline passes or is moved into the past (i/o timeout, nothing emitted), or when the
// MemConn is closed. Waiting happens on bubble channels, so it is durable for synctest.
type Stall struct {
	N       int
	Hit     chan struct{} // closed when the stalled write is parked
	Release chan struct{} // close to let the stalled write proceed
	// EmitFirst: the datagram is handed to the network BEFORE the call blocks (the kernel took it, the call has
	// not returned yet): a deadline or Close that ends the call then reports an error for a datagram that left.
	EmitFirst bool
	mu        sync.Mutex
	cnt       int
	used      bool
	// How the stalled write ended: "released", "timeout", "closed" ("" while parked / never hit).
	Ended string
}

// StallWrite arms a stall on the N-th following WriteTo of c.
func (c *MemConn) StallWrite(n int) *Stall {
	s := &Stall{N: n, Hit: make(chan struct{}), Release: make(chan struct{})}
	c.stall.Store(s)
	return s
}

// StallWriteAfterEmit arms a stall on the N-th following WriteTo of c that emits the datagram first.
func (c *MemConn) StallWriteAfterEmit(n int) *Stall {
	s := &Stall{N: n, Hit: make(chan struct{}), Release: make(chan struct{}), EmitFirst: true}
	c.stall.Store(s)
	return s
}

// Unstall disarms (a parked write stays parked until released).
func (c *MemConn) Unstall() { c.stall.Store(nil) }

// IsHit reports whether the stalled write is (or was) parked.
func (s *Stall) IsHit() bool {
	select {
	case <-s.Hit:
		return true
	default:
		return false
	}
}

func (s *Stall) end(how string) {
	s.mu.Lock()
	s.Ended = how
	s.mu.Unlock()
}

// How reports how the stalled write ended.
func (s *Stall) How() string {
	s.mu.Lock()
	defer s.mu.Unlock()
	return s.Ended
}

func (s *Stall) wait(c *MemConn) error {
	s.mu.Lock()
	mine := s.cnt == s.N && !s.used
	s.cnt++
	if mine {
		s.used = true
	}
	s.mu.Unlock()
	if !mine {
		return nil
	}
	close(s.Hit)
	for {
		c.mu.Lock()
		dl := c.wdl
		c.mu.Unlock()
		var tc <-chan time.Time
		var tm *time.Timer
		if !dl.IsZero() {
			d := time.Until(dl)
			if d <= 0 {
				s.end("timeout")
				return errTimeout
			}
			tm = time.NewTimer(d)
			tc = tm.C
		}
		select {
		case <-s.Release:
			if tm != nil {
				tm.Stop()
			}
			s.end("released")
			return nil
		case <-c.closed:
			if tm != nil {
				tm.Stop()
			}
			s.end("closed")
			return net.ErrClosed
		case <-tc:
			s.end("timeout")
			return errTimeout
		case <-c.wdlChanged:
			if tm != nil {
				tm.Stop()
			}
		}
	}
}

// SetWriteErr makes every following WriteTo fail with err (nil restores normal operation).
func (c *MemConn) SetWriteErr(err error) {
	c.mu.Lock()
	c.WriteErr = err
	c.mu.Unlock()
}

// FailNextWrites makes the next n WriteTo calls fail with err (a transient local send error such as ENOBUFS);
// nothing is emitted for them.
func (c *MemConn) FailNextWrites(n int, err error) {
	c.mu.Lock()
	c.failSkip, c.failN, c.failErr = 0, n, err
	c.mu.Unlock()
}

// FailNextWritesAfterSend makes the next n WriteTo calls hand the datagram to the network and THEN report err
// (with the full length): a transport that fails after forwarding, e.g. a wrapper whose deadline bookkeeping
// fails after the send, or WriteTo returning n > 0 together with an error. The error does not prove that the
// datagram did not leave.
func (c *MemConn) FailNextWritesAfterSend(n int, err error) {
	c.mu.Lock()
	c.lateFailN, c.lateFailErr, c.lateZero = n, err, false
	c.mu.Unlock()
}

func (c *MemConn) takeLateFail() error {
	c.mu.Lock()
	defer c.mu.Unlock()
	if c.lateFailN > 0 {
		c.lateFailN--
		return c.lateFailErr
	}
	return nil
}

func (c *MemConn) takeFail() error {
	c.mu.Lock()
	defer c.mu.Unlock()
	if c.failSkip > 0 {
		c.failSkip--
		return nil
	}
	if c.failN > 0 {
		c.failN--
		return c.failErr
	}
	return nil
}

// TempNetErr is a transport error of the kind a connected UDP socket reports after an ICMP port-unreachable
// (ECONNREFUSED): a net.Error that is temporary and not a timeout.
type TempNetErr struct{}

func (TempNetErr) Error() string   { return "injected: connection refused (temporary)" }
func (TempNetErr) Timeout() bool   { return false }
func (TempNetErr) Temporary() bool { return true }

// FailWriteNumber makes the k-th WriteTo from now (k >= 1) fail once with err; the writes before it succeed.
func (c *MemConn) FailWriteNumber(k int, err error) {
	c.mu.Lock()
	c.failSkip, c.failN, c.failErr = k-1, 1, err
	c.mu.Unlock()
}

// TimeoutNetErr is what a transport reports when its write (or read) deadline passed: a net.Error with
// Timeout() == true that also matches os.ErrDeadlineExceeded.
type TimeoutNetErr struct{}

func (TimeoutNetErr) Error() string   { return "injected: i/o timeout" }
func (TimeoutNetErr) Timeout() bool   { return true }
func (TimeoutNetErr) Temporary() bool { return true }
func (TimeoutNetErr) Is(target error) bool {
	return target == os.ErrDeadlineExceeded
}

// FailNextWritesAfterSendZero is FailNextWritesAfterSend with the call reporting 0 bytes written (a transport
// whose deadline fired between handing the datagram to the kernel and returning).
func (c *MemConn) FailNextWritesAfterSendZero(n int, err error) {
	c.mu.Lock()
	c.lateFailN, c.lateFailErr, c.lateZero = n, err, true
	c.mu.Unlock()
}
