package world

// Pending reports how many delivered datagrams the endpoint owning this connection has not read yet.
// After a settle it is 0 while the endpoint's read loop is alive; a non-zero value at a quiescent point
// means the read loop no longer consumes datagrams (it has ended, or it is blocked on something other
// than the network). Added for C08.
func (c *MemConn) Pending() int { return len(c.inbox) }
