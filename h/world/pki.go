package world

import (
	"crypto"
	"crypto/ecdsa"
	"crypto/ed25519"
	"crypto/elliptic"
	"crypto/rand"
	"crypto/rsa"
	"crypto/tls"
	"crypto/x509"
	"crypto/x509/pkix"
	"math/big"
	"sync"
	"testing"
	"testing/cryptotest"
	"time"
)

// PKI holds every credential the harness uses. It is generated once per process with a fixed
// seed, so certificates are byte-identical across processes and replays. Validity 1990..2100
// because the bubble clock starts at 2000-01-01.
type PKI struct {
	CA, OtherCA       *x509.Certificate
	CAKey, OtherCAKey crypto.Signer
	Roots, OtherRoots *x509.CertPool
	ServerECDSA       tls.Certificate // CN/SAN "server.test", signed by CA
	ServerRSA         tls.Certificate
	ServerEd25519     tls.Certificate
	ServerECDSA384    tls.Certificate
	ClientECDSA       tls.Certificate // CN "client.test", signed by CA, ExtKeyUsageClientAuth
	ClientRSA         tls.Certificate
	ClientEd25519     tls.Certificate
	ServerWrongCA     tls.Certificate // "server.test" signed by OtherCA
	ServerWrongName   tls.Certificate // "evil.test" signed by CA
	ServerExpired     tls.Certificate // NotAfter 1995
	ClientWrongCA     tls.Certificate
	ClientExpired     tls.Certificate
	ServerECDSA2      tls.Certificate // a second valid server identity (different key)
	ClientECDSA2      tls.Certificate
	ServerRSAAlt      tls.Certificate // RSA key, CN/SAN "rsa.server.test" (generated last: earlier credentials keep their bytes)
	ServerECDSAAlt    tls.Certificate // ECDSA key, CN/SAN "ec.server.test"
}

var (
	pkiOnce sync.Once
	pki     *PKI
)

// GetPKI returns the process-wide PKI, generating it on first use. Must be called outside a bubble.
func GetPKI(t *testing.T) *PKI {
	pkiOnce.Do(func() {
		cryptotest.SetGlobalRandom(t, 0x5eed0001)
		pki = buildPKI()
	})
	return pki
}

var (
	notBefore = time.Date(1990, 1, 1, 0, 0, 0, 0, time.UTC)
	notAfter  = time.Date(2100, 1, 1, 0, 0, 0, 0, time.UTC)
	serial    = int64(1000)
)

func mustECDSA(c elliptic.Curve) crypto.Signer {
	k, err := ecdsa.GenerateKey(c, rand.Reader)
	if err != nil {
		panic(err)
	}
	return k
}

func mustRSA() crypto.Signer {
	k, err := rsa.GenerateKey(rand.Reader, 2048)
	if err != nil {
		panic(err)
	}
	return k
}

func mustEd() crypto.Signer {
	_, k, err := ed25519.GenerateKey(rand.Reader)
	if err != nil {
		panic(err)
	}
	return k
}

func mkCA(cn string) (*x509.Certificate, crypto.Signer) {
	key := mustECDSA(elliptic.P256())
	serial++
	tmpl := &x509.Certificate{
		SerialNumber: big.NewInt(serial), Subject: pkix.Name{CommonName: cn},
		NotBefore: notBefore, NotAfter: notAfter, IsCA: true, BasicConstraintsValid: true,
		KeyUsage: x509.KeyUsageCertSign | x509.KeyUsageDigitalSignature,
	}
	der, err := x509.CreateCertificate(rand.Reader, tmpl, tmpl, key.Public(), key)
	if err != nil {
		panic(err)
	}
	c, _ := x509.ParseCertificate(der)
	return c, key
}

func mkLeaf(ca *x509.Certificate, caKey crypto.Signer, key crypto.Signer, name string, client bool, nb, na time.Time) tls.Certificate {
	serial++
	eku := []x509.ExtKeyUsage{x509.ExtKeyUsageServerAuth}
	if client {
		eku = []x509.ExtKeyUsage{x509.ExtKeyUsageClientAuth}
	}
	tmpl := &x509.Certificate{
		SerialNumber: big.NewInt(serial), Subject: pkix.Name{CommonName: name}, DNSNames: []string{name},
		NotBefore: nb, NotAfter: na, KeyUsage: x509.KeyUsageDigitalSignature | x509.KeyUsageKeyEncipherment,
		ExtKeyUsage: eku, BasicConstraintsValid: true,
	}
	der, err := x509.CreateCertificate(rand.Reader, tmpl, ca, key.Public(), caKey)
	if err != nil {
		panic(err)
	}
	leaf, _ := x509.ParseCertificate(der)
	return tls.Certificate{Certificate: [][]byte{der}, PrivateKey: key, Leaf: leaf}
}

func buildPKI() *PKI {
	p := &PKI{}
	p.CA, p.CAKey = mkCA("verif CA")
	p.OtherCA, p.OtherCAKey = mkCA("verif other CA")
	p.Roots = x509.NewCertPool()
	p.Roots.AddCert(p.CA)
	p.OtherRoots = x509.NewCertPool()
	p.OtherRoots.AddCert(p.OtherCA)
	old := time.Date(1995, 1, 1, 0, 0, 0, 0, time.UTC)
	p.ServerECDSA = mkLeaf(p.CA, p.CAKey, mustECDSA(elliptic.P256()), "server.test", false, notBefore, notAfter)
	p.ServerECDSA2 = mkLeaf(p.CA, p.CAKey, mustECDSA(elliptic.P256()), "server.test", false, notBefore, notAfter)
	p.ServerECDSA384 = mkLeaf(p.CA, p.CAKey, mustECDSA(elliptic.P384()), "server.test", false, notBefore, notAfter)
	p.ServerRSA = mkLeaf(p.CA, p.CAKey, mustRSA(), "server.test", false, notBefore, notAfter)
	p.ServerEd25519 = mkLeaf(p.CA, p.CAKey, mustEd(), "server.test", false, notBefore, notAfter)
	p.ClientECDSA = mkLeaf(p.CA, p.CAKey, mustECDSA(elliptic.P256()), "client.test", true, notBefore, notAfter)
	p.ClientECDSA2 = mkLeaf(p.CA, p.CAKey, mustECDSA(elliptic.P256()), "client.test", true, notBefore, notAfter)
	p.ClientRSA = mkLeaf(p.CA, p.CAKey, mustRSA(), "client.test", true, notBefore, notAfter)
	p.ClientEd25519 = mkLeaf(p.CA, p.CAKey, mustEd(), "client.test", true, notBefore, notAfter)
	p.ServerWrongCA = mkLeaf(p.OtherCA, p.OtherCAKey, mustECDSA(elliptic.P256()), "server.test", false, notBefore, notAfter)
	p.ServerWrongName = mkLeaf(p.CA, p.CAKey, mustECDSA(elliptic.P256()), "evil.test", false, notBefore, notAfter)
	p.ServerExpired = mkLeaf(p.CA, p.CAKey, mustECDSA(elliptic.P256()), "server.test", false, notBefore, old)
	p.ClientWrongCA = mkLeaf(p.OtherCA, p.OtherCAKey, mustECDSA(elliptic.P256()), "client.test", true, notBefore, notAfter)
	p.ClientExpired = mkLeaf(p.CA, p.CAKey, mustECDSA(elliptic.P256()), "client.test", true, notBefore, old)
	p.ServerRSAAlt = mkLeaf(p.CA, p.CAKey, mustRSA(), "rsa.server.test", false, notBefore, notAfter)
	p.ServerECDSAAlt = mkLeaf(p.CA, p.CAKey, mustECDSA(elliptic.P256()), "ec.server.test", false, notBefore, notAfter)
	return p
}
