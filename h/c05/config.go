package c05

import (
	"fmt"

	dtls "github.com/pion/dtls/v3"
	"github.com/pion/dtls/v3/zzverif/refimpl"
	"github.com/pion/dtls/v3/zzverif/world"
)

// suiteClass is one record-protection construction of the property's quantifier.
type suiteClass struct {
	Short string
	ID    dtls.CipherSuiteID
	V13   bool
	PSK   bool
}

// suiteClasses: AES-128-GCM, AES-256-GCM, AES-128-CCM, CCM-8, AES-256-CBC-SHA, AES-128-CBC-SHA256 (PSK),
// ChaCha20-Poly1305, and the three DTLS 1.3 AEADs.
var suiteClasses = []suiteClass{
	{Short: "gcm128", ID: dtls.TLS_ECDHE_ECDSA_WITH_AES_128_GCM_SHA256},
	{Short: "gcm256", ID: dtls.TLS_ECDHE_ECDSA_WITH_AES_256_GCM_SHA384},
	{Short: "ccm", ID: dtls.TLS_ECDHE_ECDSA_WITH_AES_128_CCM},
	{Short: "ccm8", ID: dtls.TLS_ECDHE_ECDSA_WITH_AES_128_CCM_8},
	{Short: "cbc256sha", ID: dtls.TLS_ECDHE_ECDSA_WITH_AES_256_CBC_SHA},
	{Short: "cbc128sha256psk", ID: dtls.TLS_PSK_WITH_AES_128_CBC_SHA256, PSK: true},
	{Short: "chacha", ID: dtls.TLS_ECDHE_ECDSA_WITH_CHACHA20_POLY1305_SHA256},
	{Short: "13gcm128", ID: dtls.TLS_AES_128_GCM_SHA256, V13: true},
	{Short: "13gcm256", ID: dtls.TLS_AES_256_GCM_SHA384, V13: true},
	{Short: "13chacha", ID: dtls.TLS_CHACHA20_POLY1305_SHA256, V13: true},
}

// conf is one configuration: suite class x CID layout x padding x payload length x direction.
//
// pion/dtls never pads application-data records (its padding generator only feeds CID-wrapped handshake
// fragments), so a padded record cannot be obtained from a peer's Write. For the padded layouts - and for the
// DTLS 1.3 short header (8-bit sequence number, no length field), which pion never emits either - the "peer" is
// the reference record layer sealing the payload with the sender's real keys at the sender's next sequence
// number: what an RFC-conforming peer that pads would have put on the wire (RefSealed).
type conf struct {
	SC      suiteClass
	CID     bool // 4-byte connection IDs on both sides
	Pad     uint // zero octets of record padding in the inner plaintext (RFC 9146 §4, RFC 8446 §5.4)
	Short13 bool // DTLS 1.3 only: minimal unified header (S=0, L=0)
	CBCPad  int  // CBC suites only: whole extra blocks of TLS padding (RFC 5246 6.2.3.2 allows up to 255 bytes; pion sends the minimum)
	PLen    int  // payload length
	S2C     bool // false: client writes, server receives
}

// RefSealed: the genuine record is produced by the reference record layer with the sender's keys.
func (c conf) RefSealed() bool { return c.Pad > 0 || c.Short13 || c.CBCPad > 0 }

const cidLen = 4

var pskKey = []byte{0xC0, 0x5C, 0x05, 0x11, 0x22, 0x33}

func (c conf) Name() string {
	v := "12"
	if c.SC.V13 {
		v = "13"
	}
	cid := "nocid"
	if c.CID {
		cid = fmt.Sprintf("cid%d", cidLen)
	}
	dir := "c2s"
	if c.S2C {
		dir = "s2c"
	}
	short := ""
	if c.Short13 {
		short = "+short"
	}
	if c.CBCPad > 0 {
		short += fmt.Sprintf("+cbcpad%d", c.CBCPad)
	}
	return fmt.Sprintf("%s/%s/%s/pad%d%s/len%d/%s", v, c.SC.Short, cid, c.Pad, short, c.PLen, dir)
}

// LayoutKey names the header layout and construction (used in cause keys: no lengths, no direction).
func (c conf) LayoutKey() string {
	v := "12"
	if c.SC.V13 {
		v = "13"
	}
	cid := "nocid"
	if c.CID {
		cid = "cid"
	}
	return fmt.Sprintf("%s-%s-%s", v, c.Ref().Kind, cid)
}

func (c conf) Ref() *refimpl.Suite {
	s, ok := refimpl.SuiteByID(uint16(c.SC.ID))
	if !ok {
		panic("c05: suite missing from the reference table")
	}
	return s
}

// cfgs builds the two endpoint configurations.
func (c conf) cfgs() (ccfg, scfg world.Cfg) {
	base := world.Cfg{Suites: []dtls.CipherSuiteID{c.SC.ID}}
	if c.SC.V13 {
		base.MinV, base.MaxV = 13, 13
	}
	if c.SC.PSK {
		base.Cred = "psk"
		base.PSK = pskKey
	}
	if c.CID {
		base.CIDLen = cidLen
	}
	ccfg, scfg = base, base
	if c.SC.V13 {
		scfg.SkipHelloVerify = true
	}
	return ccfg, scfg
}

// layout is one CID x padding (x DTLS 1.3 header form) combination.
type layoutSpec struct {
	CID     bool
	Pad     uint
	Short13 bool
}

// layouts lists the combinations of a suite class: padding only exists where the record has an inner
// plaintext (RFC 9146 CID records, every DTLS 1.3 record). CBC + CID + padding is left out: pion's CBC+CID MAC
// is not the RFC 9146 one (finding F9 of C10), so a reference-sealed record would be rejected for that reason.
func layouts(sc suiteClass) []layoutSpec {
	switch {
	case sc.V13:
		return []layoutSpec{{false, 0, false}, {false, 7, false}, {true, 0, false}, {true, 7, false}, {false, 0, true}}
	case isCBC(sc):
		return []layoutSpec{{false, 0, false}, {true, 0, false}}
	}
	return []layoutSpec{{false, 0, false}, {true, 0, false}, {true, 7, false}}
}

func isCBC(sc suiteClass) bool {
	s, _ := refimpl.SuiteByID(uint16(sc.ID))
	return s != nil && s.Kind == refimpl.KindCBC
}

var payloadLens = []int{1, 16, 17, 100}

// bigLen: thorough tier only, plain layout only.
const bigLen = 1100

// cbcExtraLens: payload lengths for which the final CBC plaintext block is nothing but padding (HMAC-SHA1: 12
// without / 11 with CID; HMAC-SHA256: 16 / 15), so that block-level truncations can present "a record that is
// all padding" to the receiver without any key.
var cbcExtraLens = []int{11, 12, 15}

// allConfs enumerates the configuration space of a tier.
func allConfs(thorough bool) []conf {
	var out []conf
	for _, sc := range suiteClasses {
		lens := payloadLens
		if isCBC(sc) {
			lens = append(append([]int{}, payloadLens...), cbcExtraLens...)
		}
		for _, l := range layouts(sc) {
			for _, n := range lens {
				c := conf{SC: sc, CID: l.CID, Pad: l.Pad, Short13: l.Short13, PLen: n}
				out = append(out, c)
				// the opposite direction (client is the receiver): one payload length in quick, all in thorough
				if thorough || n == 17 {
					c.S2C = true
					out = append(out, c)
				}
			}
		}
		if isCBC(sc) {
			// a conforming peer that pads generously: every bit of the padding blocks is ciphertext nothing but the
			// padding check protects
			for _, pb := range []int{3, 15} {
				// (no connection-ID layout here: this library's CBC + CID MAC is the recorded finding F9, a reference
				// record of that layout is not accepted to begin with)
				out = append(out, conf{SC: sc, PLen: 17, CBCPad: pb}, conf{SC: sc, PLen: 100, CBCPad: pb})
			}
		}
		if thorough {
			// a payload close to the default MTU: every bit, every truncation (chained); structured subset fresh
			out = append(out, conf{SC: sc, PLen: bigLen})
		}
	}
	return out
}

// payloadBytes is the payload the sender writes; reflBytes what the receiver wrote earlier (same length,
// different content); forgedBytes what a keyed forger seals (never written by anyone).
func payloadBytes(n int) []byte {
	b := make([]byte, n)
	for i := range b {
		b[i] = byte(0x41 + (i*7+3)%50)
	}
	return b
}

func reflBytes(n int) []byte {
	b := make([]byte, n)
	for i := range b {
		b[i] = byte(0x30 + (i*3+1)%10)
	}
	return b
}

func forgedBytes(n int) []byte {
	b := make([]byte, n)
	for i := range b {
		b[i] = byte(0x21 + (i*5+2)%15)
	}
	return b
}
