package c05

import (
	"fmt"
	"testing"

	"github.com/pion/dtls/v3/zzverif/world"
)

func TestSpike(t *testing.T) {
	p := world.GetPKI(t)
	for _, cf := range allConfs(false) {
		if cf.PLen != 17 && cf.PLen != 1 {
			continue
		}
		world.Run(t, 7, func(w *world.World) {
			s, err := establish(w, p, cf)
			if err != nil {
				fmt.Printf("%-40s ERR %v\n", cf.Name(), err)
			} else {
				fmt.Printf("%-40s len=%d hdr=% x | refl=% x | %s seq=%d\n", cf.Name(), len(s.genuine), s.genuine[:s.lay.HdrLen], s.refl[:s.lay.HdrLen], s.analysed, s.lay.Seq)
			}
			if s != nil && s.pr != nil {
				s.pr.CloseAll()
			}
		})
	}
}
