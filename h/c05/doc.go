// Package c05 checks property C05 - record authenticity: Read returns only what the peer wrote, forgeries
// vanish.
//
// # What is enumerated
//
// Configuration = suite class (AES-128-GCM, AES-256-GCM, AES-128-CCM, CCM-8, AES-256-CBC-SHA,
// AES-128-CBC-SHA256 (PSK), ChaCha20-Poly1305; TLS_AES_128_GCM_SHA256, TLS_AES_256_GCM_SHA384,
// TLS_CHACHA20_POLY1305_SHA256) x layout (no CID / 4-byte CIDs on both sides; record padding 0 / 7 where the
// record has an inner plaintext; DTLS 1.3 additionally the short unified header) x payload length {1, 16, 17,
// 100} (CBC additionally 11, 12, 15: final plaintext block all padding; thorough additionally 1100) x
// direction. A pair of real endpoints is established, the receiver writes one record (captured: the reflection
// source), the sender writes one record which is CAPTURED and not delivered. pion/dtls never pads application
// data, so for the padded layouts and the short header the genuine record is sealed by the reference record
// layer (../refimpl) with the sender's real keys at the sender's next sequence number.
//
// For every configuration EVERY forgery of the catalogue (mutate.go) is presented to the receiver:
// every single-bit flip of the whole datagram; every truncation; extension by 1 / 16 junk bytes; every
// header-field edit (epoch +1/-1/0/max, sequence number +-1, +-2^16, 0, max, every other content type of
// {0, 20..27, 255}, six other versions, length +-1 / +-16 with and without matching body change, 0, 65535,
// each CID byte, the sender's CID, CID removed / added with re-framing; DTLS 1.3: the other epoch bits, wire
// sequence +-1/+-256, every pure re-encoding of the unified header (S, L, C bits), legacy first bytes, the body
// under a DTLS 1.2-style header); the same-plaintext record of ANOTHER session of the same configuration
// (as is, its body under the genuine header, the genuine body under its header); the receiver's OWN earlier
// record reflected (same three forms); epoch-0 forms (protected body under an epoch-0 header, plaintext
// application data at three sequence numbers, CID-typed variants, a well-formed change_cipher_spec); records
// sealed by a forger HOLDING THE SENDER'S KEYS under a wrong CID (plus the positive control under the right
// CID); for CBC every contiguous block run under the genuine header and the padding malleations of the last
// one / two blocks (the inputs of defect F2).
//
// # Oracle
//
// The scope of a forged datagram is decided from its bytes by the RFC record formats alone (classify):
//
//	vanish         claims protection (non-zero epoch or unified header, not change_cipher_spec) and differs from
//	               the genuine record in an authenticated bit or was made without this direction's keys:
//	               after the forgery the pending Read has returned no data and NO datagram was emitted by anyone;
//	               then the genuine record is delivered: Read returns exactly the payload; delivered again: nothing;
//	               50 ms later: nothing; the last pending Read ends with the deadline error.
//	unaltered+junk the genuine record intact, followed by junk that is a separate record of the datagram
//	               (RFC 6347 4.1.1): nothing emitted, no foreign bytes, the payload exactly once overall.
//	unprotected    epoch 0 in a legacy header, or change_cipher_spec: outside the property's second sentence;
//	               only "Read never returns bytes nobody wrote" is demanded, the rest is recorded.
//	control        keyed forger, right parameters, next sequence number: must be DELIVERED (non-vacuity).
//
// No exclusion from the must-vanish set was found among altered bits: in DTLS 1.2 epoch, sequence number, type,
// version and length are in the additional data / MAC input (RFC 5246 6.2.3.3, RFC 6347 4.1.2.1), the CID too
// (RFC 9146 5.1-5.3), the explicit nonce and the CBC IV determine the plaintext; in DTLS 1.3 the whole unified
// header as sent is the additional data (RFC 9147 4), so even pure re-encodings must fail. A Read that returns
// an ERROR after a forgery delivers nothing and is counted, not judged (VERIF_C05_STRICT_READERR=1 judges it).
//
// Two execution shapes: "chain" - all in-scope forgeries of a family group on ONE connection, the per-forgery
// clauses after each, the genuine record at the end (a lost genuine record is attributed by re-running the
// chain's forgeries one per fresh connection); "fresh" - ONE forgery per fresh connection, so that "the genuine
// record bearing that sequence number is still accepted afterwards" is tested from the initial state.
//
// CBC forgeries whose header is untouched are first fed to the receiver's own cipher-suite object on the
// harness goroutine (exactly as Conn.decryptLegacyRecord calls it): a panic there is reported with the key
// F2-cbc-padding-longer-than-record-panic instead of killing the worker (VERIF_C05_LIVE=1 injects anyway).
//
// # Rule (evidence file)
//
// A case is (configuration, family group, shape). Its executions are the forgeries of the group for that
// configuration, each a deterministic function of the captured record; an execution is non-trivial when the
// forged datagram differs from the genuine one, was injected into an established connection with a Read
// pending, and every clause of its scope was evaluated (the keyed forger's positive control is counted as
// keyed_control_delivered / keyed_control_failed).
package c05
