package c05

import (
	"bytes"
	"encoding/binary"
	"errors"
	"fmt"
	"time"

	dtls "github.com/pion/dtls/v3"
	dtlsstate "github.com/pion/dtls/v3/internal/state"
	"github.com/pion/dtls/v3/zzverif/refimpl"
	"github.com/pion/dtls/v3/zzverif/world"
)

// region is a named byte range of the captured record.
type region struct {
	Name     string
	From, To int // [From, To)
}

// layout is what the independent parser says about the captured genuine record.
type layout struct {
	V13     bool
	HdrLen  int
	CIDOff  int // -1: no CID in the header
	SeqOff  int
	SeqLen  int
	LenOff  int    // -1: no length field
	Type    byte   // DTLS 1.2 outer type
	Epoch   uint16 // DTLS 1.2: header epoch; DTLS 1.3: low two bits
	Seq     uint64 // DTLS 1.2: header sequence number; DTLS 1.3: the clear record sequence number
	Regions []region
}

func (l layout) regionOf(off int) string {
	for _, r := range l.Regions {
		if off >= r.From && off < r.To {
			return r.Name
		}
	}
	return "?"
}

// readEvent is one completed Read on the receiver.
type readEvent struct {
	N    int
	Data []byte
	Err  error
}

// sess is one established association with a captured, undelivered record.
type sess struct {
	w        *world.World
	cf       conf
	pr       *world.Pair
	snd, rcv *world.Endpoint
	rcvCID   []byte // CID the receiver expects on incoming records (nil: none)
	sndCID   []byte // CID the sender expects (carried by the receiver's own records)
	payload  []byte
	genuine  []byte // the captured datagram (one record)
	refl     []byte // a datagram the receiver itself sent earlier (one record)
	lay      layout
	k12      refimpl.Keys12 // sender's write keys (DTLS 1.2)
	k13      refimpl.Keys13 // sender's write keys (DTLS 1.3)
	sndEpoch uint16         // sender's current write epoch
	nextSeq  uint64         // sender's next record sequence number in that epoch (read before the genuine record is made)
	analysed string         // "" or why the reference could not open the genuine record
	rd       *world.Op
}

var errSetup = errors.New("c05 setup")

func setupErr(format string, a ...any) error {
	return fmt.Errorf("%w: %s", errSetup, fmt.Sprintf(format, a...))
}

// establish builds the pair, completes the handshake over a reliable network, lets the receiver write one
// record (the reflection source) and the sender one record (the genuine record), both captured.
func establish(w *world.World, p *world.PKI, cf conf) (*sess, error) {
	ccfg, scfg := cf.cfgs()
	pr, err := w.NewPair(p, ccfg, scfg)
	if err != nil {
		return nil, setupErr("pair: %v", err)
	}
	s := &sess{w: w, cf: cf, pr: pr, payload: payloadBytes(cf.PLen)}
	net := world.NewNet(w, world.ClientAddr, nil)
	if perr := net.Pump(30*time.Second, pr.BothDone); perr != nil || !pr.BothOK() {
		return s, setupErr("handshake failed: pump=%v client=%v server=%v", perr, pr.C.HS, pr.S.HS)
	}
	// post-handshake traffic (DTLS 1.3 ACK / NewSessionTicket) drains over a reliable network
	for i := 0; i < 4; i++ {
		net.Flush()
		w.Settle()
		w.Sleep(5 * time.Millisecond)
	}
	net.Flush()
	w.Settle()
	if len(w.InFlight()) != 0 {
		return s, setupErr("network not quiet after the handshake")
	}
	s.snd, s.rcv = pr.C, pr.S
	if cf.S2C {
		s.snd, s.rcv = pr.S, pr.C
	}
	rs, ss := s.rcv.Snapshot(), s.snd.Snapshot()
	s.rcvCID, s.sndCID = rs.LocalCID, ss.LocalCID
	if cf.CID && (len(s.rcvCID) != cidLen || len(s.sndCID) != cidLen) {
		return s, setupErr("connection IDs not negotiated: receiver %x sender %x", s.rcvCID, s.sndCID)
	}
	if !cf.CID && (len(s.rcvCID) != 0 || len(s.sndCID) != 0) {
		return s, setupErr("unexpected connection IDs: receiver %x sender %x", s.rcvCID, s.sndCID)
	}
	if !ss.HasSuite || ss.SuiteID != uint16(cf.SC.ID) {
		return s, setupErr("negotiated suite %04x, wanted %04x", ss.SuiteID, uint16(cf.SC.ID))
	}

	capture := func(e *world.Endpoint, pl []byte) ([]byte, error) {
		wr := w.Go(e.Name+".Write", func(op *world.Op) error {
			k, werr := e.Conn.Write(pl)
			if werr == nil && k != len(pl) {
				werr = fmt.Errorf("short write %d/%d", k, len(pl))
			}
			return werr
		})
		w.Settle()
		if !wr.OK() {
			return nil, setupErr("%s: %s", e.Name, wr)
		}
		var got [][]byte
		for _, d := range w.InFlight() {
			w.Take(d)
			if d.Src == e.Addr {
				got = append(got, d.Data)
			} else {
				return nil, setupErr("unexpected datagram from %s during capture", d.Src)
			}
		}
		if len(got) != 1 {
			return nil, setupErr("%s: one Write produced %d datagrams", e.Name, len(got))
		}
		return got[0], nil
	}
	if s.refl, err = capture(s.rcv, reflBytes(cf.PLen)); err != nil {
		return s, err
	}
	if err = s.keys(); err != nil { // before the write: DTLS 1.3 reads the sender's next sequence number
		return s, err
	}
	if cf.RefSealed() {
		if s.genuine, err = s.refSeal(s.payload, int(cf.Pad), s.rcvCID, s.nextSeq); err != nil {
			return s, setupErr("reference seal: %v", err)
		}
	} else if s.genuine, err = capture(s.snd, s.payload); err != nil {
		return s, err
	}
	if err = s.analyse(); err != nil {
		return s, err
	}
	return s, nil
}

// keys derives the sender's write keys with the reference implementation: DTLS 1.2 from the master secret
// and the hello randoms, DTLS 1.3 from the sender's current application traffic secret.
func (s *sess) keys() error {
	ref := s.cf.Ref()
	var err error
	dtls.VerifPeek(s.snd.Conn, func(in dtls.VerifInternals) {
		cs := dtlsstate.CommonState(in.State)
		s.sndEpoch = cs.LocalEpoch()
		if int(s.sndEpoch) < len(cs.LocalSequenceNumber) {
			s.nextSeq = cs.LocalSequenceNumber[s.sndEpoch]
		}
		switch st := in.State.(type) {
		case *dtlsstate.State12:
			lr, rr := cs.LocalRandom.MarshalFixed(), cs.RemoteRandom.MarshalFixed()
			cr, sr := lr[:], rr[:]
			if !cs.IsClient {
				cr, sr = rr[:], lr[:]
			}
			kb := refimpl.KeyBlockFor(ref, st.MasterSecret, cr, sr)
			s.k12 = kb.Writer(cs.IsClient)
		case *dtlsstate.State13:
			if st.TrafficKeys == nil {
				err = setupErr("no DTLS 1.3 traffic keys")
				return
			}
			g, ok := st.TrafficKeys.CurrentWrite()
			if !ok {
				err = setupErr("no current DTLS 1.3 write generation")
				return
			}
			s.k13 = refimpl.TrafficKeys13(ref, g.Secret)
			if g.Epoch != s.sndEpoch {
				err = setupErr("write generation epoch %d, local epoch %d", g.Epoch, s.sndEpoch)
			}
		}
	})
	return err
}

// analyse parses the captured record with the independent parser, checks that it is the single
// application-data record the scenario expects and (where the reference can) that it opens to the payload.
func (s *sess) analyse() error {
	g := s.genuine
	ref := s.cf.Ref()
	cl := len(s.rcvCID)
	seqClear := s.nextSeq
	l := layout{V13: s.cf.SC.V13, CIDOff: -1, LenOff: -1}
	inner := s.cf.PLen
	if s.cf.SC.V13 || s.cf.CID {
		inner += 1 + int(s.cf.Pad)
	}
	if s.cf.SC.V13 {
		h, err := refimpl.ParseUnifiedHeader(g, cl)
		if err != nil {
			return setupErr("captured datagram is not a unified-header record: %v (% x)", err, head(g))
		}
		if (len(h.CID) > 0) != s.cf.CID || (s.cf.CID && !bytes.Equal(h.CID, s.rcvCID)) {
			return setupErr("captured record CID %x, receiver expects %x", h.CID, s.rcvCID)
		}
		if h.EpochLow != uint8(s.sndEpoch&3) {
			return setupErr("captured record epoch bits %d, sender epoch %d", h.EpochLow, s.sndEpoch)
		}
		body := len(g) - h.Size
		if h.WithLength && int(h.Length) != body {
			return setupErr("captured datagram holds more than one record (%d of %d body bytes)", h.Length, body)
		}
		if body != inner+ref.TagLen {
			return setupErr("ciphertext is %d bytes, expected payload %d + type 1 + padding %d + tag %d", body, s.cf.PLen, s.cf.Pad, ref.TagLen)
		}
		l.HdrLen, l.Epoch, l.Seq = h.Size, uint16(h.EpochLow), seqClear
		p := 1
		l.Regions = append(l.Regions, region{"hdr.flags", 0, 1})
		if len(h.CID) > 0 {
			l.CIDOff = p
			l.Regions = append(l.Regions, region{"hdr.cid", p, p + cl})
			p += cl
		}
		l.SeqOff, l.SeqLen = p, 1
		if h.Seq16 {
			l.SeqLen = 2
		}
		l.Regions = append(l.Regions, region{"hdr.seq", p, p + l.SeqLen})
		p += l.SeqLen
		if h.WithLength {
			l.LenOff = p
			l.Regions = append(l.Regions, region{"hdr.len", p, p + 2})
			p += 2
		}
		l.Regions = append(l.Regions, region{"ct", p, len(g) - ref.TagLen}, region{"tag", len(g) - ref.TagLen, len(g)})
		rec, rest, err := refimpl.Open13(ref, s.k13, g, cl, seqClear)
		switch {
		case err != nil:
			// not this property's business (wire conformance is C10's): the forgeries below need no key
			s.analysed = fmt.Sprintf("reference cannot open the genuine DTLS 1.3 record: %v", err)
		case len(rest) != 0 || rec.Type != 23 || !bytes.Equal(rec.Payload, s.payload) || rec.Pad != int(s.cf.Pad) || rec.Seq != seqClear:
			return setupErr("genuine DTLS 1.3 record opens to type %d seq %d pad %d payload %x (rest %d)", rec.Type, rec.Seq, rec.Pad, head(rec.Payload), len(rest))
		}
		s.lay = l
		return nil
	}

	h, body, rest, err := refimpl.ParseRecord12(g, cl)
	if err != nil || len(rest) != 0 {
		return setupErr("captured datagram is not exactly one DTLS 1.2 record: %v rest=%d (% x)", err, len(rest), head(g))
	}
	wantType := byte(23)
	if s.cf.CID {
		wantType = refimpl.ContentTypeCID
	}
	if h.Type != wantType || h.Epoch == 0 || h.Epoch != s.sndEpoch || h.Seq != s.nextSeq || h.Version != [2]byte{0xfe, 0xfd} {
		return setupErr("captured record has type %d epoch %d seq %d version %x (sender at epoch %d seq %d)", h.Type, h.Epoch, h.Seq, h.Version, s.sndEpoch, s.nextSeq)
	}
	if s.cf.CID && !bytes.Equal(h.CID, s.rcvCID) {
		return setupErr("captured record CID %x, receiver expects %x", h.CID, s.rcvCID)
	}
	l.Type, l.Epoch, l.Seq = h.Type, h.Epoch, h.Seq
	l.HdrLen = len(g) - len(body)
	l.SeqOff, l.SeqLen = 5, 6
	l.Regions = []region{{"hdr.type", 0, 1}, {"hdr.version", 1, 3}, {"hdr.epoch", 3, 5}, {"hdr.seq", 5, 11}}
	p := 11
	if s.cf.CID {
		l.CIDOff = p
		l.Regions = append(l.Regions, region{"hdr.cid", p, p + cl})
		p += cl
	}
	l.LenOff = p
	l.Regions = append(l.Regions, region{"hdr.len", p, p + 2})
	p += 2
	switch ref.Kind {
	case refimpl.KindCBC:
		macLen := ref.MAC.Size()
		want := 16 + (inner+macLen)/16*16 + 16 + 16*s.cf.CBCPad
		if len(body) != want {
			return setupErr("CBC body is %d bytes, expected IV 16 + padded(%d + MAC %d) = %d", len(body), inner, macLen, want)
		}
		l.Regions = append(l.Regions, region{"iv", p, p + 16}, region{"ct", p + 16, len(g)})
	default:
		if len(body) != ref.ExplicitLen+inner+ref.TagLen {
			return setupErr("AEAD body is %d bytes, expected explicit %d + plaintext %d + tag %d", len(body), ref.ExplicitLen, inner, ref.TagLen)
		}
		if ref.ExplicitLen > 0 {
			l.Regions = append(l.Regions, region{"explicit", p, p + ref.ExplicitLen})
		}
		l.Regions = append(l.Regions, region{"ct", p + ref.ExplicitLen, len(g) - ref.TagLen}, region{"tag", len(g) - ref.TagLen, len(g)})
	}
	s.lay = l
	rec, err := refimpl.Open12(ref, s.k12, g, cl)
	switch {
	case err != nil && ref.Kind == refimpl.KindCBC && s.cf.CID:
		// F9 (C10): pion's CBC+CID MAC is not the RFC 9146 one; both endpoints are pion, so it does not matter
		// here. The reference still decrypts (CBC needs no MAC key); only the "opens to the payload" check is skipped.
		s.analysed = "reference MAC differs (F9, CBC+CID)"
		pt, derr := s.cbcPlain(g)
		if derr != nil || len(pt) < inner || !bytes.Equal(pt[:s.cf.PLen], s.payload) || pt[s.cf.PLen] != 23 {
			return setupErr("genuine CBC+CID record does not decrypt to the payload: %v", derr)
		}
	case err != nil:
		// not this property's business (wire conformance is C10's): the keyless forgeries need no key
		s.analysed = fmt.Sprintf("reference cannot open the genuine DTLS 1.2 record: %v", err)
	case rec.Type != 23 || !bytes.Equal(rec.Payload, s.payload) || rec.Pad != int(s.cf.Pad):
		return setupErr("genuine DTLS 1.2 record opens to type %d pad %d payload %x", rec.Type, rec.Pad, head(rec.Payload))
	}
	return nil
}

// refSeal seals an application-data record with the sender's write keys (the keyed forger / padding peer).
func (s *sess) refSeal(payload []byte, pad int, cid []byte, seq uint64) ([]byte, error) {
	ref := s.cf.Ref()
	if s.cf.SC.V13 {
		return refimpl.Seal13(ref, s.k13, refimpl.Record13{Type: 23, Epoch: s.sndEpoch, Seq: seq, CID: cid,
			Seq16: !s.cf.Short13, WithLength: !s.cf.Short13, Pad: pad, Payload: payload})
	}
	return refimpl.Seal12(ref, s.k12, refimpl.Record12{Type: 23, Epoch: s.sndEpoch, Seq: seq, WrapCID: len(cid) > 0, CID: cid,
		Pad: pad, ExtraPadBlocks: s.cf.CBCPad, Payload: payload})
}

// cbcPlain decrypts the CBC body of a DTLS 1.2 record with the sender's write key (no MAC or padding check).
func (s *sess) cbcPlain(rec []byte) ([]byte, error) {
	body := rec[s.lay.HdrLen:]
	if len(body) < 32 || len(body)%16 != 0 {
		return nil, fmt.Errorf("CBC body of %d bytes", len(body))
	}
	return refimpl.CBCDecryptRaw(s.k12.Key, body[:16], body[16:])
}

func head(b []byte) []byte {
	if len(b) > 24 {
		return b[:24]
	}
	return b
}

// ---- reader -------------------------------------------------------------------------------------------

// startRead posts one Read on the receiver.
func (s *sess) startRead() {
	conn := s.rcv.Conn
	s.rd = s.w.Go(s.rcv.Name+".Read", func(op *world.Op) error {
		buf := make([]byte, 8192)
		k, err := conn.Read(buf)
		op.Set(k, append([]byte(nil), buf[:k]...))
		return err
	})
	s.w.Settle()
}

// poll returns the completed Read, if any, and posts the next one.
func (s *sess) poll() *readEvent {
	if s.rd == nil || !s.rd.Done() {
		return nil
	}
	_, err := s.rd.Result()
	ev := &readEvent{N: s.rd.N, Data: s.rd.Data, Err: err}
	s.startRead()
	return ev
}

// stopRead unblocks the pending Read with a deadline in the past of the bubble clock.
func (s *sess) stopRead() *readEvent {
	if s.rd == nil {
		return nil
	}
	_ = s.rcv.Conn.SetReadDeadline(time.Unix(1, 0))
	s.w.Settle()
	var ev *readEvent
	if s.rd.Done() {
		_, err := s.rd.Result()
		ev = &readEvent{N: s.rd.N, Data: s.rd.Data, Err: err}
	}
	s.rd = nil
	_ = s.rcv.Conn.SetReadDeadline(time.Time{})
	return ev
}

// inject hands bytes to the receiver as coming from the sender's address and waits for quiescence.
func (s *sess) inject(b []byte) {
	s.w.Push(s.snd.Addr, s.rcv.Addr, b)
	s.w.Settle()
}

func be16(b []byte) int        { return int(binary.BigEndian.Uint16(b)) }
func put16(b []byte, v int)    { binary.BigEndian.PutUint16(b, uint16(v)) }
func clone(b []byte) []byte    { return append([]byte(nil), b...) }
func cat(p ...[]byte) []byte   { return bytes.Join(p, nil) }
func rep(v byte, n int) []byte { return bytes.Repeat([]byte{v}, n) }
