package c05

import (
	"strings"
	"testing"

	"github.com/pion/dtls/v3/zzverif/run"
	"github.com/pion/dtls/v3/zzverif/world"
)

// family groups: one chained case and one fresh-connection case per configuration and group.
var famGroups = [][]string{
	{"bits"},
	{"trunc"},
	{"field", "ext", "splice", "reflect", "epoch0", "keyed"},
	{"cbc"},
}

func TestC05(t *testing.T) {
	env := run.GetEnv()
	p := world.GetPKI(t)
	seed := env.Seed + 5
	confs := allConfs(env.Thorough())

	// chained cases first, fresh-connection cases after them: the two kinds differ in cost by an order of
	// magnitude and the driver shards by index modulo 16
	var chain, fresh []run.Case
	for _, cf := range confs {
		cf := cf
		for _, fams := range famGroups {
			fams := fams
			if fams[0] == "cbc" && !isCBC(cf.SC) {
				continue
			}
			g := strings.Join(fams, "+")
			chain = append(chain, run.Case{ID: "chain/" + cf.Name() + "/" + g, Run: func(t *testing.T) run.Outcome {
				return runChained(t, p, cf, fams, seed).outcome("chain")
			}})
			// quick: structured subset, except for the shortest payload where every forgery gets its own connection
			structuredOnly := !env.Thorough() && cf.PLen != 1
			fresh = append(fresh, run.Case{ID: "fresh/" + cf.Name() + "/" + g, Run: func(t *testing.T) run.Outcome {
				return runFresh(t, p, cf, fams, seed, structuredOnly, nil, 0).outcome("fresh")
			}})
		}
	}
	cases := append(chain, fresh...)
	params := map[string]any{
		"configurations":            len(confs),
		"suite_classes":             len(suiteClasses),
		"payload_lengths":           payloadLens,
		"cbc_extra_payload_lengths": cbcExtraLens,
		"thorough_extra_payload":    bigLen,
		"cases":                     len(cases),
		"chain":                     "every in-scope forgery of the family group on one connection; per-forgery clauses after each; genuine record twice at the end; a lost genuine record is attributed by re-running the chain's forgeries one per fresh connection",
		"fresh":                     "one fresh connection per forgery: forgery, genuine record, genuine record again. quick: every forgery for payload length 1, else the structured subset (every field edit, first/last bit of every region, region-boundary truncations, junk extension, splice, reflection, epoch-0, keyed wrong-CID + control, CBC block runs / padding malleation); thorough: every forgery",
		"reference_sealed":          "padded layouts and the DTLS 1.3 short header: genuine record sealed by the reference record layer with the sender's keys (pion never pads application data)",
	}
	run.Main(t, "C05", cases, params)
}
