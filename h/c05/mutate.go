package c05

import (
	"bytes"
	"fmt"

	"github.com/pion/dtls/v3/zzverif/refimpl"
)

// scope says which clause of the property a forged datagram falls under. It is decided from the forged
// bytes by the record formats of RFC 6347 §4.1 / RFC 9146 §4 / RFC 9147 §4 alone (classify), never from
// what the implementation does with them.
type scope int

const (
	// scVanish: a record that claims protection (non-zero epoch - or a DTLS 1.3 unified header - and a content
	// type other than change_cipher_spec) and differs from the genuine record in an authenticated bit, or was
	// made without the keys of this direction of this session: nothing delivered, nothing emitted, genuine
	// record still accepted.
	scVanish scope = iota
	// scUnaltered: the genuine record, bit for bit, followed by junk bytes that form a separate (undecodable)
	// record of the same datagram (RFC 6347 §4.1.1: several records per datagram, delimited by the length
	// field). No authenticated bit of the genuine record is altered, so the receiver may deliver it or drop the
	// whole datagram; what is demanded: nothing emitted, no foreign bytes, the payload exactly once overall.
	scUnaltered
	// scUnprotected: the forged record does not claim protection (epoch 0 in a legacy header) or is a
	// change_cipher_spec: outside the second sentence of the property. Demanded: Read never returns bytes the
	// peer did not write. What else happens (alert, error, closed connection) is recorded, not judged.
	scUnprotected
	// scControl: a record sealed by the keyed forger with the right parameters and the next sequence number:
	// authentic from the receiver's point of view, must be delivered (shows that the keyed forger works, so that
	// its wrong-CID sibling is rejected for the CID and nothing else).
	scControl
)

func (s scope) String() string {
	return [...]string{"vanish", "unaltered+junk", "unprotected", "control"}[s]
}

// mut is one forged datagram.
type mut struct {
	Fam  string // family (one chained case / one fresh case per family group)
	Name string // unique within the configuration
	Desc string // what was edited, without offsets (part of the cause key)
	// Structured: member of the structured subset that the quick tier also runs one-per-fresh-connection.
	Structured bool
	// Suspect: the analyser (reference CBC decryption with the receiver's read key) says this CBC forgery
	// decrypts to well-formed padding that is longer than the record minus the MAC (the F2 input shape).
	Suspect bool
	Make    func() []byte
}

const junk = 0xA5

// classify decides the scope of forged bytes for this session's receiver.
func (s *sess) classify(m []byte) scope {
	g := s.genuine
	if len(m) > len(g) && bytes.Equal(m[:len(g)], g) && s.lay.LenOff >= 0 {
		return scUnaltered
	}
	if len(m) == 0 {
		return scVanish
	}
	if s.cf.SC.V13 && refimpl.IsUnifiedHeader(m[0]) {
		return scVanish
	}
	if m[0] == 20 {
		return scUnprotected
	}
	if len(m) >= 5 && m[3] == 0 && m[4] == 0 {
		return scUnprotected
	}
	return scVanish
}

// seqPreserving: the forged record carries the genuine record's epoch and sequence number in the clear
// (DTLS 1.2) or its header sequence bytes and epoch bits (DTLS 1.3), i.e. it competes for the same replay slot.
func (s *sess) seqPreserving(m []byte) bool {
	l := s.lay
	if len(m) < l.SeqOff+l.SeqLen {
		return false
	}
	if !bytes.Equal(m[l.SeqOff:l.SeqOff+l.SeqLen], s.genuine[l.SeqOff:l.SeqOff+l.SeqLen]) {
		return false
	}
	if l.V13 {
		return m[0]&3 == s.genuine[0]&3 && refimpl.IsUnifiedHeader(m[0])
	}
	return bytes.Equal(m[3:5], s.genuine[3:5])
}

func (s *sess) with(f func(b []byte) []byte) func() []byte {
	return func() []byte { return f(clone(s.genuine)) }
}

func fixed(b []byte) func() []byte { return func() []byte { return clone(b) } }

// splice12 builds type || version || epoch || seq || [cid] || len(body) || body.
func hdr12(typ byte, ver [2]byte, epoch uint16, seq uint64, cid []byte, body []byte) []byte {
	return cat(refimpl.Header12(typ, ver, epoch, seq, cid, len(body)), body)
}

// catalogue enumerates every forgery of one configuration. donor is the same-suite, same-plaintext record
// of another session (nil if unavailable).
func (s *sess) catalogue(donor []byte, want map[string]bool) []mut {
	var out []mut
	g, l := s.genuine, s.lay
	n := len(g)
	wanted := func(f string) bool { return want == nil || want[f] }
	add := func(m mut) {
		if wanted(m.Fam) {
			out = append(out, m)
		}
	}
	body := g[l.HdrLen:]
	dtls12 := [2]byte{0xfe, 0xfd}

	// ---- every single-bit flip of the whole datagram -------------------------------------------------------
	edge := map[[2]int]bool{}
	for _, r := range l.Regions {
		if r.To > r.From {
			edge[[2]int{r.From, 7}] = true
			edge[[2]int{r.To - 1, 0}] = true
		}
	}
	for off := 0; off < n && wanted("bits"); off++ {
		for bit := 7; bit >= 0; bit-- {
			off, bit := off, bit
			add(mut{Fam: "bits", Name: fmt.Sprintf("bit/%d.%d", off, bit), Desc: "bitflip:" + l.regionOf(off),
				Structured: edge[[2]int{off, bit}],
				Make:       s.with(func(b []byte) []byte { b[off] ^= 1 << uint(bit); return b })})
		}
	}

	// ---- every truncation ----------------------------------------------------------------------------------
	cut := map[int]bool{0: true, 1: true, n - 1: true}
	for _, r := range l.Regions {
		cut[r.From] = true
	}
	for k := 0; k < n && wanted("trunc"); k++ {
		k := k
		where := "end"
		if k < n {
			where = l.regionOf(k)
		}
		add(mut{Fam: "trunc", Name: fmt.Sprintf("trunc/%d", k), Desc: "truncated-in:" + where, Structured: cut[k],
			Make: s.with(func(b []byte) []byte { return b[:k] })})
	}

	// ---- extension by junk (length field untouched) ----------------------------------------------------------
	for _, k := range []int{1, 16} {
		k := k
		add(mut{Fam: "ext", Name: fmt.Sprintf("ext/+%d", k), Desc: fmt.Sprintf("extended-by-%d-junk", k), Structured: true,
			Make: s.with(func(b []byte) []byte { return append(b, rep(junk, k)...) })})
	}

	// ---- header-field edits ---------------------------------------------------------------------------------
	field := func(name string, f func(b []byte) []byte) {
		add(mut{Fam: "field", Name: "field/" + name, Desc: "field:" + name, Structured: true, Make: s.with(f)})
	}
	lenEdits := func() {
		if l.LenOff < 0 {
			return
		}
		lo := l.LenOff
		cur := be16(g[lo:])
		field("len+1,body+1", func(b []byte) []byte { put16(b[lo:], cur+1); return append(b, junk) })
		field("len-1,body-1", func(b []byte) []byte { put16(b[lo:], cur-1); return b[:len(b)-1] })
		field("len+16,body+16", func(b []byte) []byte { put16(b[lo:], cur+16); return append(b, rep(junk, 16)...) })
		field("len-16,body-16", func(b []byte) []byte {
			if cur < 16 {
				return b
			}
			put16(b[lo:], cur-16)
			return b[:len(b)-16]
		})
		field("len+1", func(b []byte) []byte { put16(b[lo:], cur+1); return b })
		field("len-1", func(b []byte) []byte { put16(b[lo:], cur-1); return b })
		field("len=0,nobody", func(b []byte) []byte { put16(b[lo:], 0); return b[:l.HdrLen] })
		field("len=0", func(b []byte) []byte { put16(b[lo:], 0); return b })
		field("len=65535", func(b []byte) []byte { put16(b[lo:], 0xffff); return b })
	}
	cidEdits := func() {
		if l.CIDOff >= 0 {
			co := l.CIDOff
			for i := 0; i < cidLen; i++ {
				i := i
				field(fmt.Sprintf("cid[%d]^ff", i), func(b []byte) []byte { b[co+i] ^= 0xff; return b })
			}
			field("cid=sender's", func(b []byte) []byte { copy(b[co:], s.sndCID); return b })
			field("cid=zero", func(b []byte) []byte { copy(b[co:], make([]byte, cidLen)); return b })
			field("cid-bytes-removed", func(b []byte) []byte { return append(b[:co], b[co+cidLen:]...) })
		}
	}

	if !l.V13 {
		mask48 := uint64(1)<<48 - 1
		setSeq := func(b []byte, v uint64) {
			v &= mask48
			for i := 0; i < 6; i++ {
				b[5+i] = byte(v >> uint(8*(5-i)))
			}
		}
		for _, d := range []struct {
			n string
			v uint16
		}{{"epoch+1", l.Epoch + 1}, {"epoch-1", l.Epoch - 1}, {"epoch=0", 0}, {"epoch=65535", 0xffff}, {"epoch+2", l.Epoch + 2}} {
			d := d
			field(d.n, func(b []byte) []byte { put16(b[3:], int(d.v)); return b })
		}
		for _, d := range []struct {
			n string
			v uint64
		}{{"seq+1", l.Seq + 1}, {"seq-1", l.Seq - 1}, {"seq+65536", l.Seq + 1<<16}, {"seq-65536", l.Seq - 1<<16}, {"seq=0", 0}, {"seq=max", mask48}} {
			d := d
			field(d.n, func(b []byte) []byte { setSeq(b, d.v); return b })
		}
		for _, t := range []byte{0, 20, 21, 22, 23, 24, 25, 26, 27, 255} {
			t := t
			if t == l.Type {
				continue
			}
			field(fmt.Sprintf("type=%d", t), func(b []byte) []byte { b[0] = t; return b })
		}
		for _, v := range [][2]byte{{0xfe, 0xff}, {0xfe, 0xfc}, {0x03, 0x03}, {0xff, 0xfd}, {0x00, 0x00}, {0xfe, 0xfe}} {
			v := v
			field(fmt.Sprintf("version=%02x%02x", v[0], v[1]), func(b []byte) []byte { b[1], b[2] = v[0], v[1]; return b })
		}
		lenEdits()
		cidEdits()
		if l.CIDOff >= 0 {
			// CID removed: the same protected body re-framed as an ordinary (non-CID) record of each plausible type
			for _, t := range []byte{23, 22, 21} {
				t := t
				field(fmt.Sprintf("cid-removed,type=%d", t), func([]byte) []byte { return hdr12(t, dtls12, l.Epoch, l.Seq, nil, body) })
			}
		} else {
			// CID added although none was negotiated
			fake := []byte{'S', 2, 3, 4}
			field("cid-added,type=25", func([]byte) []byte { return hdr12(25, dtls12, l.Epoch, l.Seq, fake, body) })
			field("cid-added,type=23", func([]byte) []byte { return hdr12(23, dtls12, l.Epoch, l.Seq, fake, body) })
			field("cid-added-empty,type=25", func([]byte) []byte { return hdr12(25, dtls12, l.Epoch, l.Seq, nil, body) })
		}
	} else {
		h, _ := refimpl.ParseUnifiedHeader(g, len(s.rcvCID))
		re := func(name string, f func(u *refimpl.UnifiedHeader)) {
			field(name, func([]byte) []byte {
				u := h
				u.CID = clone(h.CID)
				f(&u)
				return cat(u.Marshal(), body)
			})
		}
		for e := uint8(0); e < 4; e++ {
			e := e
			if e != h.EpochLow {
				re(fmt.Sprintf("epochbits=%d", e), func(u *refimpl.UnifiedHeader) { u.EpochLow = e })
			}
		}
		for _, d := range []int{1, -1, 256, -256} {
			d := d
			re(fmt.Sprintf("wireseq%+d", d), func(u *refimpl.UnifiedHeader) {
				v := int(u.SeqLow) + d
				if u.Seq16 {
					u.SeqLow = uint16(v)
				} else {
					u.SeqLow = uint16(v) & 0xff
				}
			})
		}
		// pure re-encodings of the same header fields: the header as sent is the additional data (RFC 9147 §4),
		// so each of them must fail authentication
		if h.Seq16 {
			re("S=0,seq-low-byte", func(u *refimpl.UnifiedHeader) { u.Seq16 = false; u.SeqLow &= 0xff })
			re("S=0,seq-high-byte", func(u *refimpl.UnifiedHeader) { u.Seq16 = false; u.SeqLow >>= 8 })
		} else {
			re("S=1,seq-zero-extended", func(u *refimpl.UnifiedHeader) { u.Seq16 = true })
		}
		if h.WithLength {
			re("L=0,length-omitted", func(u *refimpl.UnifiedHeader) { u.WithLength = false })
		} else {
			re("L=1,length-added", func(u *refimpl.UnifiedHeader) { u.WithLength = true; u.Length = uint16(len(body)) })
		}
		if len(h.CID) > 0 {
			re("C=0,cid-removed", func(u *refimpl.UnifiedHeader) { u.CID = nil })
		} else {
			re("C=1,cid-added", func(u *refimpl.UnifiedHeader) { u.CID = []byte{'S', 2, 3, 4} })
		}
		for _, t := range []byte{20, 21, 22, 23, 25, 26, 0x0f, 0x4f, 0xef} {
			t := t
			field(fmt.Sprintf("firstbyte=%d", t), func(b []byte) []byte { b[0] = t; return b })
		}
		// the protected body under a DTLS 1.2-style header that claims the sender's real (non-zero) epoch
		field("legacy-header,type=23,epoch=N", func([]byte) []byte { return hdr12(23, dtls12, s.sndEpoch, l.Seq, nil, body) })
		// the content types DTLS 1.3 still accepts in DTLSPlaintext framing (alert, handshake, ACK), naming the
		// real epoch, at the genuine and at a far-ahead sequence number (nothing of it may stick, not even in
		// the anti-replay state: the genuine record that follows must be delivered)
		for _, t := range []byte{21, 22, 26} {
			t := t
			field(fmt.Sprintf("legacy-header,type=%d,epoch=N", t), func([]byte) []byte { return hdr12(t, dtls12, s.sndEpoch, l.Seq, nil, body) })
			field(fmt.Sprintf("legacy-header,type=%d,epoch=N,seq+100000", t), func([]byte) []byte { return hdr12(t, dtls12, s.sndEpoch, l.Seq+100000, nil, body) })
		}
		if len(h.CID) > 0 {
			field("legacy-header,type=25,epoch=N", func([]byte) []byte { return hdr12(25, dtls12, s.sndEpoch, l.Seq, h.CID, body) })
		}
		lenEdits()
		cidEdits()
	}

	// ---- splice from another session, reflection of the receiver's own record --------------------------------
	other := func(fam, what string, rec []byte) {
		if rec == nil {
			return
		}
		add(mut{Fam: fam, Name: fam + "/as-is", Desc: what + ":as-is", Structured: true, Make: fixed(rec)})
		if len(rec) <= l.HdrLen {
			return
		}
		ob := rec[s.hdrLenOf(rec):]
		// foreign body under the genuine header (length field fixed up)
		add(mut{Fam: fam, Name: fam + "/genuine-header", Desc: what + ":body-under-genuine-header", Structured: true,
			Make: func() []byte {
				b := cat(g[:l.HdrLen], ob)
				if l.LenOff >= 0 {
					put16(b[l.LenOff:], len(ob))
				}
				return b
			}})
		// genuine body under the foreign header
		add(mut{Fam: fam, Name: fam + "/foreign-header", Desc: what + ":genuine-body-under-its-header", Structured: true,
			Make: func() []byte {
				hl := s.hdrLenOf(rec)
				b := cat(rec[:hl], body)
				if l.LenOff >= 0 && hl == l.HdrLen {
					put16(b[l.LenOff:], len(body))
				}
				return b
			}})
	}
	other("splice", "other-session", donor)
	other("reflect", "own-record", s.refl)

	// ---- epoch 0 ---------------------------------------------------------------------------------------------
	e0 := func(name string, mk func() []byte) {
		add(mut{Fam: "epoch0", Name: "epoch0/" + name, Desc: "epoch0:" + name, Structured: true, Make: mk})
	}
	forged := forgedBytes(s.cf.PLen)
	e0("protected-body,type=23", func() []byte { return hdr12(23, dtls12, 0, l.Seq, nil, body) })
	e0("plaintext-appdata", func() []byte { return hdr12(23, dtls12, 0, l.Seq, nil, forged) })
	e0("plaintext-appdata,seq=0", func() []byte { return hdr12(23, dtls12, 0, 0, nil, forged) })
	e0("plaintext-appdata,seq=2^32", func() []byte { return hdr12(23, dtls12, 0, 1<<32, nil, forged) })
	if len(s.rcvCID) > 0 {
		e0("protected-body,type=25", func() []byte { return hdr12(25, dtls12, 0, l.Seq, s.rcvCID, body) })
		e0("plaintext-innerplaintext,type=25", func() []byte {
			return hdr12(25, dtls12, 0, l.Seq, s.rcvCID, cat(forged, []byte{23}))
		})
	}

	if !l.V13 {
		// change_cipher_spec is the one content type the property leaves out: pion/dtls never protects it
		// (CipherSuite.Decrypt passes it through). Recorded for information: a well-formed one-byte CCS in the
		// current epoch carrying the genuine record's sequence number.
		e0("ccs,valid-body,epoch=N,same-seq", func() []byte { return hdr12(20, dtls12, l.Epoch, l.Seq, nil, []byte{1}) })
	}

	// ---- forger holding the sender's keys: wrong connection ID --------------------------------------------------
	if len(s.rcvCID) > 0 && s.cf.Ref().Kind != refimpl.KindCBC {
		keyed := func(name, desc string, cid []byte, seq uint64) {
			add(mut{Fam: "keyed", Name: "keyed/" + name, Desc: desc, Structured: true, Make: func() []byte {
				b, err := s.refSeal(forged, 0, cid, seq)
				if err != nil {
					panic("c05: keyed forger: " + err.Error())
				}
				return b
			}})
		}
		wrong := clone(s.rcvCID)
		wrong[cidLen-1] ^= 0x01
		keyed("wrong-cid,same-seq", "keyed:sealed-under-wrong-cid", wrong, l.Seq)
		keyed("wrong-cid,next-seq", "keyed:sealed-under-wrong-cid", wrong, l.Seq+1)
		keyed("senders-cid,same-seq", "keyed:sealed-under-senders-cid", s.sndCID, l.Seq)
		keyed("control:right-cid,next-seq", "keyed:control", s.rcvCID, l.Seq+1)
	}

	// ---- CBC: block-level truncations and padding malleation ---------------------------------------------------
	if !l.V13 && s.cf.Ref().Kind == refimpl.KindCBC && wanted("cbc") {
		out = append(out, s.cbcMuts()...)
	}

	// identity guard and uniqueness of names
	seen := map[string]bool{}
	for _, m := range out {
		if seen[m.Name] {
			panic("c05: duplicate mutation name " + m.Name)
		}
		seen[m.Name] = true
	}
	return out
}

// hdrLenOf returns the header length of a record of this session's layout family (same version, same CID use).
func (s *sess) hdrLenOf(rec []byte) int {
	if s.lay.V13 {
		h, err := refimpl.ParseUnifiedHeader(rec, len(s.rcvCID))
		if err != nil {
			return s.lay.HdrLen
		}
		return h.Size
	}
	if len(rec) > 0 && rec[0] == refimpl.ContentTypeCID {
		return 13 + len(s.rcvCID)
	}
	return 13
}

// cbcMuts: forgeries that need no key but exploit the CBC structure (RFC 5246 §6.2.3.2).
//
//	cbctrunc  every contiguous run of >= 2 blocks of IV||C1..Cn under the genuine header with the length fixed
//	          up: the first block of the run acts as IV. When the final plaintext block of the genuine record is
//	          all padding, the run "last three blocks" presents a record whose padding covers everything but
//	          less than a MAC.
//	cbcpad    the last plaintext block forced to sixteen bytes of value p (p = 0..15) by XORing the preceding
//	          ciphertext block - an attacker who knows the plaintext block does this without the key; the
//	          analyser's decryption stands in for that knowledge. For p = 16 the seventeenth padding byte lies
//	          in the garbled preceding block: all 256 values of the byte that decides it are enumerated, exactly
//	          as the keyless attacker would.
func (s *sess) cbcMuts() []mut {
	var out []mut
	g, l := s.genuine, s.lay
	body := g[l.HdrLen:]
	nb := len(body) / 16 // blocks including the IV
	macLen := s.cf.Ref().MAC.Size()
	frame := func(b []byte) []byte {
		r := cat(g[:l.HdrLen], b)
		put16(r[l.LenOff:], len(b))
		return r
	}
	suspect := func(b []byte) bool {
		if len(b) < 32 || len(b)%16 != 0 {
			return false
		}
		pt, err := refimpl.CBCDecryptRaw(s.k12.Key, b[:16], b[16:])
		if err != nil {
			return false
		}
		p := int(pt[len(pt)-1])
		if p+1 > len(pt) {
			return false
		}
		for _, x := range pt[len(pt)-1-p:] {
			if int(x) != p {
				return false
			}
		}
		return len(pt)-macLen-(p+1) < 0
	}
	for i := 0; i < nb; i++ {
		for j := i + 2; j <= nb; j++ {
			if i == 0 && j == nb {
				continue
			}
			b := body[16*i : 16*j]
			out = append(out, mut{Fam: "cbc", Name: fmt.Sprintf("cbctrunc/%d-%d", i, j), Desc: "cbc:block-run", Structured: true,
				Suspect: suspect(b), Make: fixed(frame(b))})
		}
	}
	pt, err := s.cbcPlain(g)
	if err != nil {
		return out
	}
	last := pt[len(pt)-16:]
	for p := 0; p <= 15; p++ {
		b := clone(body)
		for k := 0; k < 16; k++ {
			b[len(b)-32+k] ^= last[k] ^ byte(p)
		}
		out = append(out, mut{Fam: "cbc", Name: fmt.Sprintf("cbcpad/p=%d", p), Desc: "cbc:last-block-all-padding", Structured: true,
			Suspect: suspect(b), Make: fixed(frame(b))})
	}
	if nb >= 3 {
		base := clone(body)
		for k := 0; k < 16; k++ {
			base[len(base)-32+k] ^= last[k] ^ 16
		}
		for v := 0; v < 256; v++ {
			b := clone(base)
			b[len(b)-48+15] = byte(v)
			sus := suspect(b)
			out = append(out, mut{Fam: "cbc", Name: fmt.Sprintf("cbcpad/p=16,prev[15]=%d", v), Desc: "cbc:last-17-bytes-padding",
				Structured: sus || v == 0 || v == 255, Suspect: sus, Make: fixed(frame(b))})
		}
	}
	return out
}
