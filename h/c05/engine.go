package c05

import (
	"bytes"
	"context"
	"errors"
	"fmt"
	"io"
	"os"
	"runtime"
	"sort"
	"strings"
	"testing"
	"time"

	dtls "github.com/pion/dtls/v3"
	dtlsstate "github.com/pion/dtls/v3/internal/state"
	"github.com/pion/dtls/v3/pkg/protocol/recordlayer"
	"github.com/pion/dtls/v3/zzverif/run"
	"github.com/pion/dtls/v3/zzverif/world"
)

// KeyF2 is the cause key of the CBC "padding longer than the record" crash (DESIGN.md §4 F2).
const KeyF2 = "F2-cbc-padding-longer-than-record-panic"

// finding is one violated clause, attributed to one forged input.
type finding struct {
	Kind string // which clause
	Mut  string // mutation name
	Desc string // mutation description (offset-free)
	Text string
}

// acc accumulates what one case saw.
type acc struct {
	cf         conf
	findings   []finding
	evals      int
	nontrivial int
	counters   map[string]int
	sigs       map[string]int
	sample     map[string]any
	harness    string // harness-level failure (setup, leak): reported as a violation with its own key
	states     []uint64
	trans      []uint64
}

func newAcc(cf conf) *acc {
	return &acc{cf: cf, counters: map[string]int{}, sigs: map[string]int{}}
}

func (a *acc) add(kind string, m mut, format string, args ...any) {
	a.counters["violating_inputs"]++
	if len(a.findings) < 8 {
		a.findings = append(a.findings, finding{Kind: kind, Mut: m.Name, Desc: m.Desc, Text: fmt.Sprintf(format, args...)})
	}
}

// strictReadErr: treat a Read that returns an error after a forgery as an effect of the forgery (off by
// default: the property lists "nothing delivered, no alert, genuine record still accepted"; an error return
// delivers nothing). The occurrences are always counted.
var strictReadErr = os.Getenv("VERIF_C05_STRICT_READERR") != ""

// liveF2: inject forgeries that make the connection's own CBC.Decrypt panic (kills the worker; for reproducers).
var liveF2 = os.Getenv("VERIF_C05_LIVE") != ""

func errSig(err error) string {
	switch {
	case err == nil:
		return "ok"
	case errors.Is(err, io.EOF):
		return "EOF"
	case errors.Is(err, context.DeadlineExceeded):
		return "deadline"
	}
	s := err.Error()
	if len(s) > 48 {
		s = s[:48]
	}
	return strings.ReplaceAll(s, " ", "_")
}

func hexHead(b []byte, n int) string {
	if len(b) > n {
		return fmt.Sprintf("%x…(%dB)", b[:n], len(b))
	}
	return fmt.Sprintf("%x", b)
}

// preflightCBC feeds a forged record whose header is the genuine one (so that the receive path provably
// reaches the cipher: right epoch, unused sequence number, right CID) to the receiver's OWN cipher-suite
// object, exactly as Conn.decryptLegacyRecord does, but on the harness goroutine where a panic can be
// recovered and keyed. Returns the panic text ("" = returned normally).
func (s *sess) preflightCBC(m []byte) (panicked string) {
	var hdr recordlayer.Header
	if len(m) > 0 && m[0] == 25 {
		hdr.ConnectionID = make([]byte, len(s.rcvCID))
	}
	dtls.VerifPeek(s.rcv.Conn, func(in dtls.VerifInternals) {
		cs := dtlsstate.CommonState(in.State)
		if cs.CipherSuite == nil {
			return
		}
		defer func() {
			if r := recover(); r != nil {
				panicked = fmt.Sprint(r)
			}
		}()
		_, _ = cs.CipherSuite.Decrypt(hdr, clone(m))
	})
	return panicked
}

// scopeOf is classify plus the one scope that is not a property of the bytes: the keyed positive control.
func (s *sess) scopeOf(m mut, data []byte) scope {
	if strings.HasPrefix(m.Name, "keyed/control:") {
		return scControl
	}
	return s.classify(data)
}

// observation after one injection.
type observation struct {
	read    *readEvent
	emitted []*world.Datagram
}

func (s *sess) observe(before int) observation {
	var o observation
	o.read = s.poll()
	if log := s.w.Emitted(); len(log) > before {
		o.emitted = log[before:]
	}
	return o
}

func (o observation) sig() string {
	var parts []string
	switch {
	case o.read == nil:
		parts = append(parts, "silent")
	case o.read.Err == nil:
		parts = append(parts, "READ-DATA")
	default:
		parts = append(parts, "read-error("+errSig(o.read.Err)+")")
	}
	if len(o.emitted) > 0 {
		parts = append(parts, fmt.Sprintf("emitted%d", len(o.emitted)))
	}
	return strings.Join(parts, "+")
}

func (s *sess) describeEmitted(ds []*world.Datagram) string {
	var parts []string
	for _, d := range ds {
		cl := len(s.sndCID)
		if d.Src == s.snd.Addr {
			cl = len(s.rcvCID)
		}
		parts = append(parts, fmt.Sprintf("%s->%s %s", d.Src, d.Dst, world.DescribeCID(d.Data, cl)))
	}
	return strings.Join(parts, "; ")
}

// judgeForgery applies the per-forgery clauses; returns false if the connection state can no longer be
// trusted for further chained forgeries.
func (s *sess) judgeForgery(a *acc, m mut, sc scope, data []byte, o observation) {
	id := fmt.Sprintf("%s forgery %s [%s, %d bytes %s]", s.cf.Name(), m.Name, sc, len(data), hexHead(data, 20))
	if o.read != nil && o.read.Err == nil {
		got := o.read.Data
		switch {
		case sc == scControl:
			if bytes.Equal(got, forgedBytes(s.cf.PLen)) {
				a.counters["keyed_control_delivered"]++
			} else {
				a.counters["keyed_control_failed"]++
			}
		case sc == scUnaltered && bytes.Equal(got, s.payload):
			a.counters["unaltered_record_before_junk_delivered"]++
		case sc == scUnprotected:
			a.add("unprotected-record-delivered", m, "%s: Read returned %d bytes %s after a record that does not even claim protection; the peer's payload %s had not been delivered yet",
				id, len(got), hexHead(got, 24), hexHead(s.payload, 24))
		default:
			a.add("forged-record-delivered", m, "%s: Read returned %d bytes %s although the record cannot authenticate (genuine payload %s not yet delivered)",
				id, len(got), hexHead(got, 24), hexHead(s.payload, 24))
		}
	} else if sc == scControl {
		a.counters["keyed_control_failed"]++
	}
	if o.read != nil && o.read.Err != nil {
		a.counters["read_error_after_forgery:"+sc.String()+":"+errSig(o.read.Err)]++
		if strictReadErr && sc == scVanish {
			a.add("forgery-surfaced-as-read-error", m, "%s: the pending Read returned error %v", id, o.read.Err)
		}
	}
	if len(o.emitted) > 0 && sc != scUnprotected && sc != scControl {
		a.add("forgery-answered-with-datagram", m, "%s: %d datagram(s) emitted in response: %s", id, len(o.emitted), s.describeEmitted(o.emitted))
	}
}

// finish delivers the genuine record (twice) and closes the book on this connection.
// delivered is how often the payload had already been returned by Read (scUnaltered may deliver it early).
func (s *sess) finish(a *acc, ctx mut, sc scope, already int, chained int) {
	id := fmt.Sprintf("%s after %s", s.cf.Name(), ctx.Name)
	if chained > 1 {
		id = fmt.Sprintf("%s after a chain of %d forgeries (%s … )", s.cf.Name(), chained, ctx.Fam)
	}
	count := already
	step := func(what string) observation {
		e0 := s.w.EmittedCount()
		s.inject(s.genuine)
		o := s.observe(e0)
		if o.read != nil && o.read.Err == nil {
			if bytes.Equal(o.read.Data, s.payload) {
				count++
			} else if !(sc == scControl) {
				a.add("read-returned-unwritten-bytes", ctx, "%s: %s: Read returned %d bytes %s, the peer wrote %s", id, what, len(o.read.Data), hexHead(o.read.Data, 24), hexHead(s.payload, 24))
			}
		}
		if o.read != nil && o.read.Err != nil {
			a.counters["read_error_on_genuine:"+errSig(o.read.Err)]++
		}
		if len(o.emitted) > 0 && sc != scUnprotected {
			a.add("genuine-record-answered-with-datagram", ctx, "%s: %s: %d datagram(s) emitted: %s", id, what, len(o.emitted), s.describeEmitted(o.emitted))
		}
		return o
	}
	o1 := step("genuine record delivered")
	switch {
	case sc == scUnprotected:
		if count == 1 {
			a.counters["genuine_accepted_after_unprotected_record"]++
		} else {
			a.counters["genuine_lost_after_unprotected_record("+o1.sig()+")"]++
		}
	case count != 1:
		a.add("genuine-record-rejected-after-forgery", ctx, "%s: the genuine record was delivered to the receiver and Read returned the payload %d times (expected exactly once); observation: %s",
			id, count, o1.sig())
	}
	step("genuine record delivered a second time")
	e0 := s.w.EmittedCount()
	s.w.Sleep(50 * time.Millisecond)
	o3 := s.observe(e0)
	if o3.read != nil && o3.read.Err == nil {
		if bytes.Equal(o3.read.Data, s.payload) {
			count++
		} else {
			a.add("read-returned-unwritten-bytes", ctx, "%s: 50 ms later Read returned %d bytes %s", id, len(o3.read.Data), hexHead(o3.read.Data, 24))
		}
	}
	if len(o3.emitted) > 0 && sc != scUnprotected {
		a.add("forgery-answered-with-datagram", ctx, "%s: 50 ms later %d datagram(s) were emitted: %s", id, len(o3.emitted), s.describeEmitted(o3.emitted))
	}
	if count > 1 {
		a.add("genuine-record-delivered-twice", ctx, "%s: the payload was returned by Read %d times in total but written once", id, count)
	}
	if ev := s.stopRead(); ev != nil && ev.Err == nil {
		a.add("read-returned-unwritten-bytes", ctx, "%s: the last pending Read returned %d bytes %s instead of the deadline error", id, ev.N, hexHead(ev.Data, 24))
	}
}

// donorRecord runs the same configuration in another world (other seed: other randoms, other keys), captures
// the record carrying the same plaintext and uses that session as the baseline control: with no forgery at all
// the genuine record is delivered exactly once.
func donorRecord(t *testing.T, p *world.PKI, cf conf, seed uint64) (rec []byte, problem string) {
	a := newAcc(cf)
	leak := world.RunLeak(t, seed, func(w *world.World) {
		s, err := establish(w, p, cf)
		if s != nil && s.pr != nil {
			defer s.pr.CloseAll()
		}
		if err != nil {
			problem = err.Error()
			return
		}
		rec = clone(s.genuine)
		s.startRead()
		s.finish(a, mut{Name: "no forgery (baseline)", Fam: "baseline", Desc: "baseline"}, scVanish, 0, 0)
	})
	if leak != "" && problem == "" {
		problem = "goroutines left behind: " + leak
	}
	if problem == "" && len(a.findings) > 0 {
		problem = "baseline: " + a.findings[0].Kind + ": " + a.findings[0].Text
		if cf.RefSealed() {
			problem = "baseline (record sealed by the reference record layer with the sender's keys: RFC 9146 §4 / RFC 8446 §5.4 padding, RFC 9147 §4 short header): " + a.findings[0].Kind + ": " + a.findings[0].Text
		}
	}
	return rec, problem
}

func famSet(fams []string) map[string]bool {
	m := map[string]bool{}
	for _, f := range fams {
		m[f] = true
	}
	return m
}

// selectMuts filters the catalogue.
func selectMuts(all []mut, fams map[string]bool, structuredOnly bool) []int {
	var idx []int
	for i, m := range all {
		if !fams[m.Fam] {
			continue
		}
		if structuredOnly && !m.Structured {
			continue
		}
		idx = append(idx, i)
	}
	return idx
}

// runChained: one connection, every selected in-scope forgery in turn, the per-forgery clauses after each,
// the genuine record at the end.
func runChained(t *testing.T, p *world.PKI, cf conf, fams []string, seed uint64) *acc {
	a := newAcc(cf)
	donor, prob := donorRecord(t, p, cf, seed+1000)
	if prob != "" {
		a.harness = "donor/baseline session: " + prob
		return a
	}
	want := famSet(fams)
	var chained []string
	leak := world.RunLeak(t, seed, func(w *world.World) {
		s, err := establish(w, p, cf)
		if s != nil && s.pr != nil {
			defer s.pr.CloseAll()
		}
		if err != nil {
			a.harness = err.Error()
			return
		}
		if s.analysed != "" {
			a.counters["analyser:"+strings.ReplaceAll(s.analysed, " ", "_")]++
		}
		all := s.catalogue(donor, want)
		s.startRead()
		var last mut
		n := 0
		for _, i := range selectMuts(all, want, false) {
			m := all[i]
			data := m.Make()
			if bytes.Equal(data, s.genuine) {
				a.counters["identity_mutations_skipped"]++
				continue
			}
			sc := s.scopeOf(m, data)
			if sc != scVanish {
				a.counters["left_to_fresh_connections:"+sc.String()]++
				continue
			}
			if m.Fam == "cbc" {
				if pn := s.preflightCBC(data); pn != "" {
					a.add(KeyF2, m, "%s forgery %s [%d bytes]: the receiver's own cipher suite object panics in Decrypt on this record (header untouched, so Conn.decryptLegacyRecord reaches it): %s; analyser: padding longer than record = %v",
						cf.Name(), m.Name, len(data), pn, m.Suspect)
					if !liveF2 {
						continue
					}
				}
			}
			e0 := w.EmittedCount()
			w.Logf("c05: inject %s (%s) %s", m.Name, sc, hexHead(data, 24))
			s.inject(data)
			o := s.observe(e0)
			s.judgeForgery(a, m, sc, data, o)
			a.evals++
			a.sigs["vanish:"+o.sig()]++
			if m.Suspect {
				a.counters["cbc_padding_longer_than_record_inputs"]++
			}
			chained = append(chained, m.Name)
			last = m
			n++
		}
		if n == 0 {
			s.stopRead()
			return
		}
		a.nontrivial = n
		if n > 1 {
			last = mut{Name: last.Name, Fam: strings.Join(fams, ","), Desc: "chain:" + strings.Join(fams, ",")}
		}
		s.finish(a, last, scVanish, 0, n)
		a.evals++
		a.sample = map[string]any{"case": "chain/" + cf.Name(), "families": fams, "forgeries": n, "record_bytes": len(s.genuine),
			"header": fmt.Sprintf("%x", s.genuine[:s.lay.HdrLen]), "ref_sealed": cf.RefSealed()}
	})
	if leak != "" && a.harness == "" {
		a.harness = "goroutines left behind: " + leak
	}
	// A genuine record lost after a chain says nothing about WHICH forgery did it: find the first forgery that
	// reproduces the loss on a fresh connection.
	for _, f := range a.findings {
		if f.Kind == "genuine-record-rejected-after-forgery" && len(chained) > 1 {
			b := runFresh(t, p, cf, fams, seed, false, chained, 1)
			for _, bf := range b.findings {
				bf.Text = "[attributed by re-running the chain's forgeries one per fresh connection] " + bf.Text
				a.findings = append([]finding{bf}, a.findings...)
			}
			break
		}
	}
	return a
}

// runFresh: one fresh connection per forgery: forgery, genuine record, genuine record again.
// only (if non-nil) restricts to the named mutations; stopAfter > 0 stops after that many violating inputs.
func runFresh(t *testing.T, p *world.PKI, cf conf, fams []string, seed uint64, structuredOnly bool, only []string, stopAfter int) *acc {
	a := newAcc(cf)
	donor, prob := donorRecord(t, p, cf, seed+1000)
	if prob != "" {
		a.harness = "donor/baseline session: " + prob
		return a
	}
	want := famSet(fams)
	onlySet := map[string]bool{}
	for _, n := range only {
		onlySet[n] = true
	}
	// probe: which forgeries exist for this configuration. Every execution below re-establishes the same
	// deterministic session (same seed), so the catalogue built here - pure functions of the captured bytes and
	// of key material - is reused; each execution checks that it captured the very same record.
	var idx []int
	var names []string
	var all []mut
	var probeGenuine []byte
	leak := world.RunLeak(t, seed, func(w *world.World) {
		s, err := establish(w, p, cf)
		if s != nil && s.pr != nil {
			defer s.pr.CloseAll()
		}
		if err != nil {
			a.harness = err.Error()
			return
		}
		all = s.catalogue(donor, want)
		probeGenuine = clone(s.genuine)
		for _, i := range selectMuts(all, want, structuredOnly) {
			if only != nil && !onlySet[all[i].Name] {
				continue
			}
			idx = append(idx, i)
			names = append(names, all[i].Name)
		}
	})
	if leak != "" && a.harness == "" {
		a.harness = "goroutines left behind: " + leak
	}
	if a.harness != "" {
		return a
	}
	for k, i := range idx {
		if stopAfter > 0 && a.counters["violating_inputs"] >= stopAfter {
			break
		}
		if k%128 == 127 {
			runtime.GC() // between two worlds: a deterministic point (the worker runs with the collector off)
		}
		i, k := i, k
		leak := world.RunLeak(t, seed, func(w *world.World) {
			s, err := establish(w, p, cf)
			if s != nil && s.pr != nil {
				defer s.pr.CloseAll()
			}
			if err != nil {
				a.harness = err.Error()
				return
			}
			if !bytes.Equal(s.genuine, probeGenuine) {
				a.harness = fmt.Sprintf("the session is not reproducible: captured %s, the probe captured %s", hexHead(s.genuine, 24), hexHead(probeGenuine, 24))
				return
			}
			m := all[i]
			data := m.Make()
			if bytes.Equal(data, s.genuine) {
				a.counters["identity_mutations_skipped"]++
				return
			}
			sc := s.scopeOf(m, data)
			if m.Fam == "cbc" {
				if pn := s.preflightCBC(data); pn != "" {
					a.add(KeyF2, m, "%s forgery %s [%d bytes]: the receiver's own cipher suite object panics in Decrypt on this record (header untouched, so Conn.decryptLegacyRecord reaches it): %s; analyser: padding longer than record = %v",
						cf.Name(), m.Name, len(data), pn, m.Suspect)
					if !liveF2 {
						return
					}
				}
			}
			s.startRead()
			tr := &world.Tracer{}
			visit := func(ev string) { tr.Visit(s.rcv.Snapshot().Digest()+"|"+s.snd.Snapshot().Digest(), ev) }
			visit("established")
			e0 := w.EmittedCount()
			w.Logf("c05: inject %s (%s) %s", m.Name, sc, hexHead(data, 24))
			s.inject(data)
			o := s.observe(e0)
			visit(sc.String() + ":" + o.sig())
			s.judgeForgery(a, m, sc, data, o)
			already := 0
			if sc == scUnaltered && o.read != nil && o.read.Err == nil && bytes.Equal(o.read.Data, s.payload) {
				already = 1
			}
			s.finish(a, m, sc, already, 1)
			visit("genuine,genuine-again")
			a.states = append(a.states, tr.States...)
			a.trans = append(a.trans, tr.Trans...)
			a.evals++
			a.nontrivial++
			a.sigs[sc.String()+":"+o.sig()]++
			a.counters["scope:"+sc.String()]++
			if s.seqPreserving(data) {
				a.counters["sequence_number_preserving_forgeries"]++
			}
			if m.Suspect {
				a.counters["cbc_padding_longer_than_record_inputs"]++
			}
			if a.sample == nil {
				a.sample = map[string]any{"case": "fresh/" + cf.Name(), "families": fams, "first_forgery": m.Name, "scope": sc.String(),
					"bytes": hexHead(data, 32), "genuine": hexHead(s.genuine, 32), "ref_sealed": cf.RefSealed()}
			}
		})
		if leak != "" && a.harness == "" {
			a.harness = "goroutines left behind (" + names[k] + "): " + leak
		}
		if a.harness != "" {
			break
		}
	}
	return a
}

// outcome renders an accumulator as the worker's result.
func (a *acc) outcome(mode string) run.Outcome {
	o := run.Outcome{Evals: a.evals, Distinct: a.nontrivial, NonTrivial: a.nontrivial > 0, Sample: a.sample, Counters: a.counters,
		States: a.states, Transitions: a.trans}
	sigs := make([]string, 0, len(a.sigs))
	for k, v := range a.sigs {
		sigs = append(sigs, k)
		o.Counters["outcome:"+k] += v
	}
	sort.Strings(sigs)
	o.Class = mode + "{" + strings.Join(sigs, ",") + "}"
	if a.harness != "" {
		o.Violation = "harness: " + a.cf.Name() + ": " + a.harness
		o.Key = "harness-setup-failed/" + a.cf.LayoutKey()
		if strings.Contains(a.harness, "baseline") {
			// with no forgery at all the genuine record is not delivered exactly once
			o.Key = "baseline-genuine-record-not-accepted/" + a.cf.LayoutKey()
			if a.cf.RefSealed() {
				o.Key = "baseline-reference-sealed-record-not-accepted/" + a.cf.LayoutKey()
			}
		}
		o.Class = "HARNESS"
		return o
	}
	if len(a.findings) > 0 {
		var keys []string
		seen := map[string]bool{}
		var texts []string
		for _, f := range a.findings {
			k := f.Kind
			if f.Kind != KeyF2 {
				k = f.Kind + "/" + f.Desc + "/" + a.cf.LayoutKey()
			}
			// '+' joins the causes of one case (the driver splits on it): keep it out of a single cause
			k = strings.ReplaceAll(strings.ReplaceAll(k, " ", "_"), "+", "_plus_")
			if !seen[k] && len(keys) < 4 {
				seen[k] = true
				keys = append(keys, k)
			}
			if len(texts) < 3 {
				texts = append(texts, f.Text)
			}
		}
		o.Key = strings.Join(keys, "+")
		o.Violation = fmt.Sprintf("%d violating input(s); first: %s", a.counters["violating_inputs"], strings.Join(texts, " || "))
		o.Class = "VIOLATION"
	}
	return o
}
