package c07

import (
	"context"
	"fmt"
	"strings"
	"testing"
	"time"

	dtls "github.com/pion/dtls/v3"
	"github.com/pion/dtls/v3/zzverif/refimpl"
	"github.com/pion/dtls/v3/zzverif/run"
	"github.com/pion/dtls/v3/zzverif/world"
)

// Public-key observer. "Never emitted unprotected" also fails when a record is protected under keys that
// anybody can compute. After a session with writes in both directions and (DTLS 1.3) key updates by both sides —
// every operation order of the list below — a passive observer tries to open EVERY protected record either
// endpoint emitted with keys derived from public material only:
//
//	DTLS 1.2: the key block of an empty master secret and of 48 zero bytes over the hello randoms on the wire;
//	DTLS 1.3: traffic secrets that are empty or all-zero, and their "traffic upd" successors up to depth 5.
//
// Any record that authenticates under one of them is readable by everyone: a violation. (The keyed formulas
// themselves are C10's / C20's subject; this catalogue only asks "is the secret in there at all".)
func pubKeyRun(t *testing.T, p *world.PKI, cc cfgCase, ops string, seed uint64) run.Outcome {
	var o run.Outcome
	world.Run(t, seed, func(w *world.World) {
		pr, err := cc.v.Setup(w, p)
		if err != nil {
			o.Skip = true
			return
		}
		defer pr.CloseAll()
		n := world.NewNet(w, world.ClientAddr, nil)
		w.CIDLenHint = pr.CIDLenFor
		if perr := n.Pump(30*time.Second, pr.BothDone); perr != nil || !pr.BothOK() {
			o.Skip = true
			o.Class = "handshake-failed"
			return
		}
		n.Flush()
		w.Sleep(50 * time.Millisecond)
		n.Flush()
		wrote := 0
		for i, c := range ops {
			e, peer := pr.C, pr.S
			if c == 'S' || c == 's' {
				e, peer = pr.S, pr.C
			}
			switch c {
			case 'c', 's': // write
				got, rerr, werr := pr.Transfer(n, e, peer, []byte(fmt.Sprintf("c07-pubkeys-%d-%s", i, e.Name)), 5*time.Second)
				if rerr == nil && werr == nil && len(got) > 0 {
					wrote++
				}
			case 'C', 'S': // key update (DTLS 1.3)
				if !cc.v.V13 {
					continue
				}
				op := w.Go(e.Name+".UpdateKeys", func(*world.Op) error {
					return e.Conn.UpdateKeys(context.Background(), dtls.KeyUpdateOptions{RequestPeerUpdate: i%2 == 1})
				})
				_ = n.Pump(10*time.Second, op.Done)
				n.Flush()
			}
		}
		n.Flush()
		s, ok := pr.GetSecrets()
		if !ok {
			o.Skip = true
			o.Class = "no-secrets"
			return
		}
		type cand struct {
			name string
			k12  refimpl.Keys12
			k13  refimpl.Keys13
		}
		var cands []cand
		if s.V13 {
			hl := len(s.APClient)
			for _, base := range []struct {
				n string
				b []byte
			}{{"all-zero", make([]byte, hl)}, {"empty", []byte{}}} {
				sec := base.b
				for g := 0; g <= 5; g++ {
					cands = append(cands, cand{name: fmt.Sprintf("%s traffic secret after %d updates", base.n, g), k13: refimpl.TrafficKeys13(s.Suite, sec)})
					sec = refimpl.NextTrafficSecret(s.Suite.Hash, sec)
				}
			}
		} else {
			for _, base := range []struct {
				n string
				b []byte
			}{{"empty master secret", []byte{}}, {"all-zero master secret", make([]byte, 48)}} {
				kb := refimpl.KeyBlockFor(s.Suite, base.b, s.ClientRandom, s.ServerRandom)
				cands = append(cands, cand{name: base.n + " (client write keys)", k12: kb.Client()}, cand{name: base.n + " (server write keys)", k12: kb.Server()})
			}
		}
		tried, protected := 0, 0
		var viol []string
		for _, d := range w.Emitted() {
			if d.ID < pr.FirstID || (d.Src != pr.C.Addr && d.Src != pr.S.Addr) {
				continue
			}
			cidLen := pr.CIDLenFor(d.Src)
			data := d.Data
			for idx := 0; len(data) > 0; idx++ {
				rec, rest, unified, perr := refimpl.NextRecord(data, cidLen)
				if perr != nil {
					break
				}
				data = rest
				if !unified && (len(rec) < 13 || (rec[3] == 0 && rec[4] == 0)) {
					continue // epoch 0: unprotected by definition (plaintextPolicy judges those)
				}
				protected++
				for _, c := range cands {
					tried++
					opened := false
					if s.V13 {
						if !unified {
							continue
						}
						_, _, oerr := refimpl.Open13(s.Suite, c.k13, rec, cidLen, 0)
						opened = oerr == nil
					} else {
						_, oerr := refimpl.Open12(s.Suite, c.k12, rec, cidLen)
						opened = oerr == nil
					}
					if opened {
						viol = append(viol, fmt.Sprintf("datagram #%d record %d emitted by %s opens under keys derived from public material only: %s", d.ID, idx, d.Src, c.name))
					}
				}
			}
		}
		o.NonTrivial = protected > 0
		o.Evals = tried
		o.Class = fmt.Sprintf("pubkeys protected>0=%v wrote=%d", protected > 0, wrote)
		if len(viol) > 0 {
			o.Violation = fmt.Sprintf("config=%s ops=%s: %s (+%d more)", cc.name, ops, viol[0], len(viol)-1)
			o.Key = "record-opens-under-public-keys"
		}
		o.Sample = map[string]any{"config": cc.name, "ops": ops, "protected_records": protected, "trial_decryptions": tried}
	})
	return o
}

func pubKeyCases(p *world.PKI, thorough bool, seed uint64) []run.Case {
	// c/s = Write by client/server, C/S = UpdateKeys by client/server (ignored on DTLS 1.2)
	seqs := []string{"cs", "CcsScs", "ScsCcs", "CCcsSScs", "CScsCScs"}
	if thorough {
		seqs = append(seqs, "CCCcsSSScs", "cCsScCsS", "SCSCcs")
	}
	var cases []run.Case
	for _, cc := range configs(thorough) {
		if strings.Contains(cc.name, "keylen") {
			continue
		}
		for _, ops := range seqs {
			if !cc.v.V13 && ops != "cs" {
				continue
			}
			cc, ops := cc, ops
			cases = append(cases, run.Case{ID: fmt.Sprintf("pubkeys/%s/%s", cc.name, ops), Run: func(t *testing.T) run.Outcome { return pubKeyRun(t, p, cc, ops, seed) }})
		}
	}
	return cases
}
