package c07

import (
	"bytes"
	"errors"
	"fmt"
	"strings"
	"testing"
	"time"

	dtls "github.com/pion/dtls/v3"
	"github.com/pion/dtls/v3/zzverif/checks"
	"github.com/pion/dtls/v3/zzverif/refimpl"
	"github.com/pion/dtls/v3/zzverif/run"
	"github.com/pion/dtls/v3/zzverif/world"
)

// C07 — confidentiality: nothing secret leaves unprotected.
//
// Enumerated: suite/version/CID configuration x side x position k at which the application calls
// Write(marker) (k = number of network deliveries performed before the call: before, during and after
// the handshake; a Write issued during the handshake queues behind the handshake and fires the moment it
// completes) x an optional follow-up (second Write, Close) x an injected unprotected application-data
// record carrying another marker at the same position. Every datagram of the execution is inspected raw
// and decoded with reference keys.

var marker = []byte("VERIF-SECRET-MARKER-0123456789ab")   // 32 bytes written by the application
var injected = []byte("VERIF-INJECTED-PLAINTEXT-abcdefg") // carried by a forged epoch-0 application-data record

type cfgCase struct {
	name string
	v    checks.Variant
}

func mk(name string, suite dtls.CipherSuiteID, psk bool, cid int, v13 bool) cfgCase {
	c, s := world.Cfg{CIDLen: cid}, world.Cfg{CIDLen: cid}
	if suite != 0 {
		c.Suites, s.Suites = []dtls.CipherSuiteID{suite}, []dtls.CipherSuiteID{suite}
	}
	if psk {
		c.Cred, s.Cred, c.PSK, s.PSK = "psk", "psk", []byte{9, 8, 7, 6}, []byte{9, 8, 7, 6}
	}
	if v13 {
		c.MinV, c.MaxV, s.MinV, s.MaxV = 13, 13, 13, 13
	}
	return cfgCase{name: fmt.Sprintf("%s/cid%d", name, cid), v: checks.Variant{Name: name, C: c, S: s, V13: v13}}
}

func configs(thorough bool) []cfgCase {
	var out []cfgCase
	for _, cid := range []int{0, 4} {
		out = append(out,
			mk("12-gcm128", dtls.TLS_ECDHE_ECDSA_WITH_AES_128_GCM_SHA256, false, cid, false),
			mk("12-cbc", dtls.TLS_ECDHE_ECDSA_WITH_AES_256_CBC_SHA, false, cid, false),
			mk("12-chacha", dtls.TLS_ECDHE_ECDSA_WITH_CHACHA20_POLY1305_SHA256, false, cid, false),
			mk("12-psk-gcm", dtls.TLS_PSK_WITH_AES_128_GCM_SHA256, true, cid, false),
			mk("13-aes128gcm", dtls.TLS_AES_128_GCM_SHA256, false, cid, true),
		)
		if thorough {
			out = append(out,
				mk("12-gcm256", dtls.TLS_ECDHE_ECDSA_WITH_AES_256_GCM_SHA384, false, cid, false),
				mk("12-ccm", dtls.TLS_ECDHE_ECDSA_WITH_AES_128_CCM, false, cid, false),
				mk("12-ccm8", dtls.TLS_ECDHE_ECDSA_WITH_AES_128_CCM_8, false, cid, false),
				mk("12-psk-cbc", dtls.TLS_PSK_WITH_AES_128_CBC_SHA256, true, cid, false),
				mk("12-ecdhepsk", dtls.TLS_ECDHE_PSK_WITH_AES_128_CBC_SHA256, true, cid, false),
				mk("13-chacha", dtls.TLS_CHACHA20_POLY1305_SHA256, false, cid, true),
				mk("13-aes256gcm", dtls.TLS_AES_256_GCM_SHA384, false, cid, true),
			)
		}
	}
	// resumed and client-auth flavours
	res := mk("12-resumed", 0, false, 0, false)
	res.v.Resumed = true
	ca := mk("12-clientauth", 0, false, 0, false)
	ca.v.C.Cred = "ecdsa"
	ca.v.S.ClientAuth = dtls.RequireAndVerifyClientCert
	// a resumption attempt cut off without an alert, then a resumed connection; stores that do not copy
	ri := mk("12-resumed-after-interrupted", 0, false, 0, false)
	ri.v.Resumed, ri.v.Interrupted, ri.v.AliasStore = true, true, true
	ra := mk("12-resumed-aliasstore", 0, false, 0, false)
	ra.v.Resumed, ra.v.AliasStore = true, true
	// pre-shared keys at the edges of the 16-bit length field of the premaster encoding (RFC 4279): whatever the
	// library does with a key it cannot encode, the session keys must still depend on it. No extended master
	// secret here, so that "derived from an empty / truncated key" is computable from the hello randoms alone.
	for _, n := range []int{1, 65535, 65536, 65537, 131072} {
		pk := mk(fmt.Sprintf("12-psk-gcm-keylen%d", n), dtls.TLS_PSK_WITH_AES_128_GCM_SHA256, true, 0, false)
		key := bytes.Repeat([]byte{0x5a, 0xc3, 0x17}, n/3+1)[:n]
		pk.v.C.PSK, pk.v.S.PSK = key, key
		pk.v.C.EMS, pk.v.S.EMS = 2, 2
		out = append(out, pk)
	}
	// a server whose PSK callback fails (unknown identity, backend down) against a peer that uses the empty key:
	// whatever the server does with the failed lookup, it must not end up keyed from "no key at all"
	pf := mk("12-psk-gcm-server-lookup-fails", dtls.TLS_PSK_WITH_AES_128_GCM_SHA256, true, 0, false)
	pf.v.C.PSK = []byte{}
	pf.v.C.EMS, pf.v.S.EMS = 2, 2
	pf.v.S.Extra = append(pf.v.S.Extra, dtls.WithPSK(func([]byte) ([]byte, error) { return nil, errors.New("injected: psk backend unavailable") }))
	out = append(out, pf)
	out = append(out, res, ca, ri, ra)
	return out
}

// plaintextPolicy checks one decoded record against the "never unprotected" rules.
func plaintextPolicy(v13 bool, r world.Decoded) string {
	if v13 && !r.Unified && r.Epoch != 0 {
		// DTLS 1.3 protects every record of epoch >= 1 behind a unified header; a record in DTLSPlaintext
		// framing that names such an epoch carries its content in clear
		return fmt.Sprintf("DTLS 1.3 session: record in plaintext framing (type %d) at epoch %d emitted by %s (datagram #%d): handshake / application content after ServerHello left unprotected", r.OuterType, r.Epoch, r.D.Src, r.D.ID)
	}
	if !r.Plain {
		return ""
	}
	switch r.OuterType {
	case world.CTAppData:
		return fmt.Sprintf("application-data record emitted at epoch 0 (datagram #%d)", r.D.ID)
	case world.CTHandshake:
		for _, f := range parseHS(r.Payload) {
			switch {
			case f == 20:
				return fmt.Sprintf("Finished emitted unprotected at epoch 0 (datagram #%d)", r.D.ID)
			case v13 && f != 1 && f != 2:
				return fmt.Sprintf("DTLS 1.3 handshake message type %d emitted unprotected (datagram #%d)", f, r.D.ID)
			}
		}
	case world.CTACK, world.CTRRC:
		if v13 {
			return fmt.Sprintf("DTLS 1.3 record type %d emitted unprotected (datagram #%d)", r.OuterType, r.D.ID)
		}
	}
	return ""
}

func parseHS(b []byte) []byte {
	var types []byte
	for len(b) >= 12 {
		fl := int(b[9])<<16 | int(b[10])<<8 | int(b[11])
		types = append(types, b[0])
		if 12+fl > len(b) {
			break
		}
		b = b[12+fl:]
	}
	return types
}

// cbRec records what ExportKeyingMaterial returns on the State handed to the application's
// VerifyConnection callback (the exporter interface as it is reachable during the handshake).
type cbRec struct {
	calls int
	vals  map[string][]byte
	errs  map[string]string
}

var exporterLabels = []string{"EXTRACTOR-dtls_srtp", "EXPERIMENTAL-verif"}
var exporterLens = []int{16, 60}

func (r *cbRec) cb(st *dtls.State) error {
	r.calls++
	if r.vals == nil {
		r.vals, r.errs = map[string][]byte{}, map[string]string{}
	}
	for _, label := range exporterLabels {
		for _, n := range exporterLens {
			k := fmt.Sprintf("%s/%d", label, n)
			got, err := st.ExportKeyingMaterial(label, nil, n)
			if err != nil {
				r.errs[k] = err.Error()
				delete(r.vals, k)
			} else {
				r.vals[k] = append([]byte(nil), got...)
				delete(r.errs, k)
			}
		}
	}
	return nil
}

// exporterOracle: the exporter output must equal the reference exporter keyed by the session secret and
// must differ from every public-only derivation (computable from the cleartext hellos alone).
func exporterOracle(pr *world.Pair, cbs [2]*cbRec) string {
	sec, ok := pr.GetSecrets()
	if !ok {
		return "no secrets available after a completed handshake"
	}
	for ei, e := range []*world.Endpoint{pr.C, pr.S} {
		st, ok := e.Conn.ConnectionState()
		if !ok {
			return e.Name + ": ConnectionState unavailable"
		}
		for _, where := range []string{"ConnectionState", "VerifyConnection callback"} {
			for _, label := range exporterLabels {
				for _, n := range exporterLens {
					var got []byte
					if where == "ConnectionState" {
						var err error
						got, err = st.ExportKeyingMaterial(label, nil, n)
						if err != nil {
							return fmt.Sprintf("%s: exporter error %v", e.Name, err)
						}
					} else {
						// a refusal (error) inside the callback leaks nothing; a value must be the keyed one
						if cbs[ei] == nil {
							continue
						}
						v, has := cbs[ei].vals[fmt.Sprintf("%s/%d", label, n)]
						if !has {
							continue
						}
						got = v
					}
					h := sec.Suite.Hash
					var want []byte
					if sec.V13 {
						want = refimpl.Exporter13(h, sec.Exporter, label, nil, n)
					} else {
						want = refimpl.Exporter12(h, sec.Master, sec.ClientRandom, sec.ServerRandom, label, nil, false, n)
					}
					// public-only derivations: same formulas with an empty / all-zero secret, both random orders
					type pubDer struct {
						how string
						val []byte
					}
					public := []pubDer{
						{"the TLS 1.2 PRF with an empty secret over label+client_random+server_random", refimpl.Exporter12(h, nil, sec.ClientRandom, sec.ServerRandom, label, nil, false, n)},
						{"the TLS 1.2 PRF with an empty secret over label+server_random+client_random", refimpl.Exporter12(h, nil, sec.ServerRandom, sec.ClientRandom, label, nil, false, n)},
						{"P_hash with an empty secret over label+client_random+server_random", refimpl.PHash(h, nil, append(append([]byte(label), sec.ClientRandom...), sec.ServerRandom...), n)},
						{"P_hash with an empty secret over label+server_random+client_random", refimpl.PHash(h, nil, append(append([]byte(label), sec.ServerRandom...), sec.ClientRandom...), n)},
						{"the TLS 1.2 exporter keyed by the master secret of an EMPTY pre-shared key (premaster 00 00 00 00, no extended master secret)", refimpl.Exporter12(h, refimpl.MasterSecret(h, refimpl.PSKPremaster(nil), sec.ClientRandom, sec.ServerRandom), sec.ClientRandom, sec.ServerRandom, label, nil, false, n)},
						{"the TLS 1.3 exporter with an all-zero exporter secret", refimpl.Exporter13(h, make([]byte, h.Size()), label, nil, n)},
						{"the TLS 1.3 exporter with an empty exporter secret", refimpl.Exporter13(h, nil, label, nil, n)},
					}
					for _, pub := range public {
						if bytes.Equal(got, pub.val) {
							return fmt.Sprintf("%s: keying material exported through %s for label %q equals %s: it is computable from the cleartext part of the handshake", e.Name, where, label, pub.how)
						}
					}
					if !bytes.Equal(got, want) {
						return fmt.Sprintf("%s: keying material exported through %s for label %q (%d bytes) differs from the reference exporter keyed by the session secret", e.Name, where, label, n)
					}
				}
			}
		}
	}
	return ""
}

func c07Run(t *testing.T, p *world.PKI, cc cfgCase, clientWrites bool, pos int, follow string, seed uint64) run.Outcome {
	var o run.Outcome
	world.Run(t, seed, func(w *world.World) {
		cbs := [2]*cbRec{{}, {}}
		vv := cc.v
		vv.C.Extra = append(append([]dtls.Option(nil), vv.C.Extra...), dtls.WithVerifyConnection(cbs[0].cb))
		vv.S.Extra = append(append([]dtls.Option(nil), vv.S.Extra...), dtls.WithVerifyConnection(cbs[1].cb))
		pr, err := vv.Setup(w, p)
		if err != nil {
			o.Skip = true
			return
		}
		n := world.NewNet(w, world.ClientAddr, nil)
		w.CIDLenHint = pr.CIDLenFor
		dec := pr.NewDecoder()
		x, y := pr.S, pr.C
		if clientWrites {
			x, y = pr.C, pr.S
		}
		steps := 0
		for steps < pos && !pr.BothDone() && n.Step() {
			steps++
		}
		if steps < pos {
			if !pr.BothDone() {
				_ = n.Pump(20*time.Second, pr.BothDone)
			}
			if pos-steps > 1 || !pr.BothOK() {
				o.Skip = true
				pr.CloseAll()
				return
			}
			n.Flush()
		}
		stage := "handshake"
		if pr.BothOK() {
			stage = "established"
		}
		seqn := uint64(0x700000 + pos)
		plainApp := append([]byte{23, 0xfe, 0xfd, 0, 0, byte(seqn >> 40), byte(seqn >> 32), byte(seqn >> 24), byte(seqn >> 16), byte(seqn >> 8), byte(seqn), 0, byte(len(injected))}, injected...)
		if follow == "inject" {
			// an unprotected application-data record with a marker arrives at both endpoints
			w.Push(x.Addr, y.Addr, plainApp)
			w.Push(y.Addr, x.Addr, plainApp)
			w.Settle()
			// and unprotected records that claim the receiver's current read epoch, with bodies shorter than
			// anything record protection produces (explicit nonce, tag, MAC) and longer ones, in the plain
			// layout and, where the receiver owns a connection ID, in the tls12_cid layout (inner type 23)
			for _, dir := range [][2]*world.Endpoint{{x, y}, {y, x}} {
				from, to := dir[0], dir[1]
				ep := from.Snapshot().LocalEpoch
				cid := to.Snapshot().LocalCID
				sq := uint64(0x710000 + pos*64)
				for _, e := range []uint16{ep, ep + 1} {
					if e == 0 {
						continue
					}
					for _, k := range []int{1, 2, 7, 8, 9, 16, 17, len(injected)} {
						body := injected[:k]
						sq++
						hdr := []byte{23, 0xfe, 0xfd, byte(e >> 8), byte(e), byte(sq >> 40), byte(sq >> 32), byte(sq >> 24), byte(sq >> 16), byte(sq >> 8), byte(sq), 0, byte(len(body))}
						w.Push(from.Addr, to.Addr, append(hdr, body...))
						if len(cid) > 0 && !cc.v.V13 {
							sq++
							inner := append(append([]byte(nil), body...), 23)
							h2 := append([]byte{25, 0xfe, 0xfd, byte(e >> 8), byte(e), byte(sq >> 40), byte(sq >> 32), byte(sq >> 24), byte(sq >> 16), byte(sq >> 8), byte(sq)}, cid...)
							h2 = append(h2, 0, byte(len(inner)))
							w.Push(from.Addr, to.Addr, append(h2, inner...))
						}
						w.Settle()
					}
				}
			}
		}
		// the application writes now; during the handshake the call queues behind it (a real mutex: loose mode)
		w.NoSkew = true
		wr := w.Go("Write", func(*world.Op) error { _, e := x.Conn.Write(marker); return e })
		var wr2, cl *world.Op
		switch follow {
		case "write2":
			wr2 = w.Go("Write2", func(*world.Op) error { _, e := x.Conn.Write(append([]byte("2-"), marker...)); return e })
		case "close":
			// Close is issued once the first write returned (below)
		}
		deliver := func() {
			for i := 0; i < 400; i++ {
				w.SettleLoose()
				d := w.Head()
				if d == nil {
					return
				}
				w.Deliver(d)
			}
		}
		deliver()
		w.SettleLoose()
		stuck := world.MutexBlocked()
		w.NoSkew = false
		if !stuck {
			w.Settle()
		}
		// collect what the peer's application can read
		var got [][]byte
		if !stuck && y.HS.OK() {
			for i := 0; i < 8; i++ {
				_ = y.Conn.SetReadDeadline(time.Now().Add(20 * time.Millisecond))
				rd := w.Go("peer.Read", func(op *world.Op) error {
					b := make([]byte, 512)
					k, e := y.Conn.Read(b)
					op.Set(k, append([]byte(nil), b[:k]...))
					return e
				})
				w.Sleep(25 * time.Millisecond)
				if !rd.Done() {
					break
				}
				if _, e := rd.Result(); e != nil {
					if strings.Contains(e.Error(), "deadline") || strings.Contains(e.Error(), "EOF") || strings.Contains(e.Error(), "closed") {
						break
					}
					continue // errors about discarded records are reported to Read; keep reading
				}
				got = append(got, rd.Data)
			}
			_ = y.Conn.SetReadDeadline(time.Time{})
		}
		if follow == "close" && wr.Done() && !stuck {
			// the application closes right after its write: the close_notify must not leak anything either
			cl = w.Go("Close", func(*world.Op) error { return x.Conn.Close() })
			_ = n.Pump(2*time.Second, cl.Done)
			n.Flush()
		}
		recs := dec.Poll()
		o.NonTrivial = true
		var viol []string
		// (a) raw bytes: the marker never appears on the wire
		finished := map[string][]byte{}
		var certDER [][]byte
		for _, r := range recs {
			if r.OK && !r.Plain && r.Type == world.CTHandshake && len(r.Payload) > 12 {
				switch r.Payload[0] {
				case 20:
					finished[fmt.Sprintf("Finished of %s", r.D.Src)] = r.Payload[12:]
				default:
					if cc.v.V13 && len(r.Payload) >= 40 {
						certDER = append(certDER, r.Payload[12:44]) // a 32-byte window of every protected 1.3 handshake body
					}
				}
			}
		}
		for _, d := range w.Emitted() {
			if d.ID < pr.FirstID {
				continue
			}
			if bytes.Contains(d.Data, marker[:24]) {
				viol = append(viol, fmt.Sprintf("datagram #%d from %s contains the application payload in clear", d.ID, d.Src))
			}
			for name, body := range finished {
				if len(body) >= 12 && bytes.Contains(d.Data, body) {
					viol = append(viol, fmt.Sprintf("datagram #%d contains the plaintext %s body", d.ID, name))
				}
			}
			for _, win := range certDER {
				if bytes.Contains(d.Data, win) {
					viol = append(viol, fmt.Sprintf("datagram #%d contains plaintext bytes of a DTLS 1.3 handshake message sent after ServerHello", d.ID))
					break
				}
			}
		}
		// (b) record-level policy
		sawMarkerRecord := 0
		for _, r := range recs {
			if m := plaintextPolicy(cc.v.V13, r); m != "" {
				viol = append(viol, m)
			}
			if r.OK && !r.Plain && r.Type == world.CTAppData && bytes.Equal(r.Payload, marker) {
				sawMarkerRecord++
				if r.Epoch == 0 {
					viol = append(viol, "application data carried at epoch 0")
				}
			}
		}
		// (c) the injected unprotected application data is never delivered
		for _, g := range got {
			if bytes.Contains(g, injected[:16]) || (len(g) > 0 && len(g) <= len(injected) && bytes.Equal(g, injected[:len(g)])) {
				viol = append(viol, fmt.Sprintf("application data that arrived in an unprotected record was delivered by Read (%d bytes: %q)", len(g), g))
			}
		}
		// data written is delivered when both sides completed (non-vacuity of the encrypted path)
		delivered := 0
		for _, g := range got {
			if bytes.Equal(g, marker) {
				delivered++
			}
		}
		if stuck {
			viol = append(viol, "a goroutine is still waiting on a mutex after the network went quiet: "+world.BubbleInventory())
		}
		// (d) exporter
		if pr.BothOK() && !stuck && follow == "" {
			if m := exporterOracle(pr, cbs); m != "" {
				viol = append(viol, m)
			}
		}
		werr := "pending"
		if d, e := wr.Result(); d {
			werr = fmt.Sprint(e)
		}
		_, _ = wr2, cl
		o.Class = fmt.Sprintf("%s follow=%s write=%s onwire=%d delivered=%d", stage, follow, short(werr), sawMarkerRecord, delivered)
		if len(viol) > 0 {
			o.Violation = fmt.Sprintf("config=%s writer=%s pos=%d follow=%s: %s", cc.name, x.Name, pos, follow, strings.Join(dedup(viol), "; "))
			o.Key = c07Key(cc, viol)
		}
		o.Sample = map[string]any{"config": cc.name, "writer": x.Name, "position": pos, "follow": follow, "class": o.Class}
		o.Counters = map[string]int{"records_decoded": len(recs), "marker_records_on_wire": sawMarkerRecord, "marker_delivered": delivered}
		if pr.BothOK() && !stuck && follow == "" {
			for i, side := range []string{"client", "server"} {
				o.Counters["verifyconnection_callback_calls_"+side] += cbs[i].calls
				o.Counters["verifyconnection_callback_exports_with_value_"+side] += len(cbs[i].vals)
				o.Counters["verifyconnection_callback_exports_refused_"+side] += len(cbs[i].errs)
			}
		}
		pr.CloseAll()
	})
	return o
}

func c07Key(cc cfgCase, viol []string) string {
	for _, v := range viol {
		if cc.v.V13 && strings.Contains(v, "computable from the cleartext part of the handshake") && strings.Contains(v, "empty secret") {
			return "F8-dtls13-exporter-keyed-by-empty-secret"
		}
	}
	return ""
}

func short(s string) string {
	if s == "<nil>" {
		return "ok"
	}
	if len(s) > 40 {
		return s[:40]
	}
	return s
}

func dedup(in []string) []string {
	seen := map[string]bool{}
	var out []string
	for _, s := range in {
		if !seen[s] {
			seen[s] = true
			out = append(out, s)
		}
	}
	return out
}

// c07Loss: the handshake itself under a small MTU and one delivery fault (a fragment of a multi-record
// flight lost, delayed or duplicated, so that selective or timer retransmissions happen), then one
// Write(marker) in each direction; the same wire oracles: raw search for the marker, for the Finished
// bodies and for windows of every protected DTLS 1.3 handshake body, and the record-level policy.
func c07Loss(t *testing.T, p *world.PKI, cc cfgCase, mtu int, m world.Mask, seed uint64) run.Outcome {
	var o run.Outcome
	world.Run(t, seed, func(w *world.World) {
		vv := cc.v
		vv.C.MTU, vv.S.MTU = mtu, mtu
		pr, err := vv.Setup(w, p)
		if err != nil {
			o.Skip = true
			return
		}
		n := world.NewNet(w, world.ClientAddr, m)
		w.CIDLenHint = pr.CIDLenFor
		if err := n.Pump(40*time.Second, pr.BothDone); err != nil || !pr.BothOK() {
			// liveness under faults is C02's business; a handshake that does not complete is still audited
			// for what it put on the wire, provided the secrets are available
			n.ClearFaults()
			n.Flush()
		}
		// the faults stay in force for what follows the handshake at once (DTLS 1.3: the server's
		// NewSessionTicket and its acknowledgement), so that post-handshake flights are retransmitted too
		_ = n.Pump(50*time.Millisecond, func() bool { return false })
		n.ClearFaults()
		n.Flush()
		if !pr.BothOK() {
			o.Skip = true
			o.Class = "loss:handshake-incomplete"
			pr.CloseAll()
			return
		}
		for _, e := range []*world.Endpoint{pr.C, pr.S} {
			e := e
			wr := w.Go(e.Name+".Write", func(*world.Op) error { _, er := e.Conn.Write(marker); return er })
			_ = n.Pump(3*time.Second, wr.Done)
		}
		_ = n.Pump(3500*time.Millisecond, func() bool { return false }) // post-handshake retransmissions, if any (1 s, then 2 s)
		n.Flush()
		dec := pr.NewDecoder()
		recs := dec.Poll()
		o.NonTrivial = n.Faulted > 0 || len(m) == 0
		var viol []string
		finished := map[string][]byte{}
		var windows [][]byte
		for _, r := range recs {
			if r.OK && !r.Plain && r.Type == world.CTHandshake && len(r.Payload) > 12 {
				if r.Payload[0] == 20 {
					finished[fmt.Sprintf("Finished of %s", r.D.Src)] = r.Payload[12:]
				} else if cc.v.V13 && len(r.Payload) >= 44 {
					windows = append(windows, r.Payload[12:44])
				}
			}
		}
		for _, d := range w.Emitted() {
			if d.ID < pr.FirstID {
				continue
			}
			if bytes.Contains(d.Data, marker[:24]) {
				viol = append(viol, fmt.Sprintf("datagram #%d from %s contains the application payload in clear", d.ID, d.Src))
			}
			for name, body := range finished {
				if len(body) >= 12 && bytes.Contains(d.Data, body) {
					viol = append(viol, fmt.Sprintf("datagram #%d contains the plaintext %s body", d.ID, name))
				}
			}
			for _, win := range windows {
				if bytes.Contains(d.Data, win) {
					viol = append(viol, fmt.Sprintf("datagram #%d from %s contains plaintext bytes of a DTLS 1.3 handshake message sent after ServerHello", d.ID, d.Src))
					break
				}
			}
			if len(viol) > 4 {
				break
			}
		}
		seen := map[string]bool{}
		for _, r := range recs {
			if mm := plaintextPolicy(cc.v.V13, r); mm != "" && !seen[mm] && len(viol) < 8 {
				seen[mm] = true
				viol = append(viol, mm)
			}
		}
		o.Class = fmt.Sprintf("loss mtu=%d fault-fired=%v", mtu, n.Faulted > 0)
		o.Counters = map[string]int{"records_decoded": len(recs), "loss_protected_13_handshake_windows": len(windows)}
		if len(viol) > 0 {
			o.Violation = fmt.Sprintf("config=%s mtu=%d mask=%s: %s", cc.name, mtu, m, strings.Join(viol, "; "))
		}
		o.Sample = map[string]any{"config": cc.name, "mtu": mtu, "mask": m.String(), "class": o.Class}
		pr.CloseAll()
	})
	return o
}

func TestC07(t *testing.T) {
	env := run.GetEnv()
	p := world.GetPKI(t)
	var cases []run.Case
	for _, cc := range configs(env.Thorough()) {
		for _, clientWrites := range []bool{true, false} {
			side := "server"
			if clientWrites {
				side = "client"
			}
			for pos := 0; pos <= 12; pos++ {
				for _, follow := range []string{"", "write2", "close", "inject"} {
					cc, clientWrites, pos, follow := cc, clientWrites, pos, follow
					cases = append(cases, run.Case{ID: fmt.Sprintf("%s/%s/p%d/%s", cc.name, side, pos, follow),
						Run: func(t *testing.T) run.Outcome { return c07Run(t, p, cc, clientWrites, pos, follow, env.Seed+1) }})
				}
			}
		}
	}
	lossMTUs := map[string][]int{"13-aes128gcm/cid0": {100, 300, 1200}, "12-gcm128/cid0": {100}, "12-clientauth/cid0": {200}}
	lossN, lossK := 14, 1
	if env.Thorough() {
		lossMTUs = map[string][]int{"13-aes128gcm/cid0": {100, 200, 300, 1200}, "13-aes128gcm/cid4": {200, 1200}, "13-chacha/cid0": {150}, "12-gcm128/cid0": {100}, "12-cbc/cid4": {150}, "12-clientauth/cid0": {100, 200}}
		lossN = 24
	}
	lossMasks := checks.EnumMasks(lossN, lossK, []world.Action{world.ActDrop, world.ActHold3, world.ActDup})
	for _, cc := range configs(env.Thorough()) {
		for _, mtu := range lossMTUs[cc.name] {
			for _, m := range lossMasks {
				cc, mtu, m := cc, mtu, m
				cases = append(cases, run.Case{ID: fmt.Sprintf("%s/loss/mtu%d/%s", cc.name, mtu, m), Run: func(t *testing.T) run.Outcome { return c07Loss(t, p, cc, mtu, m, env.Seed+1) }})
			}
		}
	}
	pk := pubKeyCases(p, env.Thorough(), env.Seed+1)
	cases = append(cases, pk...)
	run.Main(t, "C07", cases, map[string]any{"public_key_observer_cases": len(pk), "loss_family": fmt.Sprintf("small-MTU handshakes x every mask with <=%d fault over the first %d datagrams per direction (drop, hold3, dup)", lossK, lossN), "configs": len(configs(env.Thorough())), "positions": 13, "follow_ups": "none, second Write, Close, injected unprotected application data"})
}
