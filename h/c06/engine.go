package c06

import (
	"bytes"
	"context"
	"fmt"
	"strings"
	"sync"
	"testing"
	"time"

	dtls "github.com/pion/dtls/v3"
	dtlsstate "github.com/pion/dtls/v3/internal/state"
	"github.com/pion/dtls/v3/zzverif/checks"
	"github.com/pion/dtls/v3/zzverif/world"
)

// DefaultWindow is what the property text calls "64 by default" (config.go defaultReplayProtectionWindow).
const DefaultWindow = 64

// scen is the part of an execution that is shared by all arrival sequences of one group.
type scen struct {
	V    checks.Variant
	W    int  // replay window configured on the RECEIVER; 0 = leave the library default
	N    int  // number of distinct payloads written (= records captured)
	S2C  bool // false: client writes, server receives; true: the other direction
	Lazy bool // true: no Read is pending while the datagrams arrive; the application reads afterwards
	// KeyUpdateAfter > 0 (DTLS 1.3 only): the sender calls UpdateKeys after that many writes, so that the
	// remaining records travel in the next epoch (separate replay window).
	KeyUpdateAfter int
	// PresetSeq > 0: before the writes the sender's record counter of its epoch is set to this value (verif
	// hook, as C09 does for 2^48) and one primer record with that number is written, delivered and read, so
	// that the enumerated records sit around a boundary of the sequence-number encoding (DTLS 1.3 puts 16
	// bits on the wire: multiples of 65536) without 65536 writes. Eager reader only.
	PresetSeq uint64
	// Resumed (DTLS 1.2 only): after the handshake the receiver is exported (ConnectionState) and brought back
	// with ResumeWithOptions and the same options, replay window included; the records are written and
	// arrive afterwards. The configured window has to hold on the resumed association as well.
	Resumed bool
}

func (s scen) effW() int {
	if s.W <= 0 {
		return DefaultWindow
	}
	return s.W
}

func (s scen) String() string {
	dir := "c2s"
	if s.S2C {
		dir = "s2c"
	}
	mode := "eager"
	if s.Lazy {
		mode = "lazy"
	}
	w := fmt.Sprint(s.W)
	if s.W == 0 {
		w = "dflt"
	}
	ku := ""
	if s.KeyUpdateAfter > 0 {
		ku = fmt.Sprintf("/ku%d", s.KeyUpdateAfter)
	}
	if s.PresetSeq > 0 {
		ku += fmt.Sprintf("/at%d", s.PresetSeq)
	}
	if s.Resumed {
		ku += "/resumed"
	}
	return fmt.Sprintf("%s/%s/%s/W%s/n%d%s", s.V.Name, dir, mode, w, s.N, ku)
}

// step is what happened at one arrival.
type step struct {
	Rec       int     // index of the arriving record (k-th Write)
	Verdict   verdict // reference verdict at this arrival
	Dist      int64   // sequence numbers behind the newest accepted record of its epoch; -1 = newer
	Delivered int     // payloads returned by Read between this arrival and the next settled point
}

// exec is the result of one execution (= one arrival sequence on a fresh pair of endpoints).
type exec struct {
	Skip      string // setup did not reach the scenario (reported as violation by the caller: never expected)
	Violation string
	Key       string
	Steps     []step
	Counts    []int // per record: number of times its payload was returned by Read
	Leak      string
	RecKinds  string // wire form of the captured records, e.g. "App(e1)" / "CID(e1)" / "U(e3)"
	BaseSeq   uint64
	KUSeqs    int // sequence numbers of the old epoch consumed by the key update
}

func payload(k int) []byte {
	// distinct contents AND distinct lengths
	return []byte(fmt.Sprintf("c06/payload-%03d/%s", k, strings.Repeat("x", k%7)))
}

// wClass buckets the configured window size by its remainder modulo the 64-bit word size of the usual
// bitmap implementations (part of the cause key: which window sizes a finding concerns).
func wClass(w int) string {
	switch r := w % 64; {
	case r == 0:
		return "Wmod64=0"
	case r <= 32:
		return "Wmod64=1..32"
	default:
		return "Wmod64=33..63"
	}
}

// relW renders a distance relative to the window size.
func relW(d int64, w int) string {
	switch {
	case d < 0:
		return "newer"
	case d < int64(w):
		return "<W"
	case d == int64(w):
		return "=W"
	}
	return ">W"
}

// runSeq executes one arrival sequence (indices into the n captured records, repetitions allowed).
func runSeq(t *testing.T, p *world.PKI, sc scen, arrivals []int, seed uint64) exec {
	var ex exec
	ex.Leak = world.RunLeak(t, seed, func(w *world.World) {
		runSeqIn(w, p, sc, arrivals, &ex)
	})
	if ex.Leak != "" && ex.Violation == "" {
		ex.Violation = fmt.Sprintf("%s arrivals=%s: goroutines left behind: %s", sc, compact(arrivals), ex.Leak)
		ex.Key = "harness-goroutine-leak"
	}
	return ex
}

func runSeqIn(w *world.World, p *world.PKI, sc scen, arrivals []int, ex *exec) {
	v := sc.V
	if sc.S2C {
		v.C.ReplayWindow = sc.W
	} else {
		v.S.ReplayWindow = sc.W
	}
	pr, err := v.Setup(w, p)
	if err != nil {
		ex.Skip = "setup: " + err.Error()
		return
	}
	defer pr.CloseAll()
	net := world.NewNet(w, world.ClientAddr, nil)
	if perr := net.Pump(30*time.Second, pr.BothDone); perr != nil || !pr.BothOK() {
		ex.Skip = fmt.Sprintf("handshake failed: pump=%v client=%v server=%v", perr, pr.C.HS, pr.S.HS)
		return
	}
	// Let post-handshake traffic (DTLS 1.3 ACK / NewSessionTicket) drain over a reliable network.
	for i := 0; i < 4; i++ {
		net.Flush()
		w.Settle()
		w.Sleep(5 * time.Millisecond)
	}
	net.Flush()
	w.Settle()
	if len(w.InFlight()) != 0 {
		ex.Skip = "network not quiet after the handshake"
		return
	}

	if sc.Resumed {
		x := pr.S
		if sc.S2C {
			x = pr.C
		}
		st, ok := x.Conn.ConnectionState()
		if !ok {
			ex.Skip = "no connection state to export"
			return
		}
		x.Detach()
		nx, rerr := x.ResumeFrom(p, &st)
		if rerr != nil {
			ex.Violation, ex.Key = fmt.Sprintf("%s: ResumeWithOptions refused the exported state: %v", sc, rerr), "resume-refused"
			return
		}
		hs := nx.StartResumedHandshake()
		w.Settle()
		if !hs.OK() {
			ex.Violation, ex.Key = fmt.Sprintf("%s: the resumed receiver did not start: %v", sc, hs), "resume-refused"
			return
		}
		if sc.S2C {
			pr.C = nx
		} else {
			pr.S = nx
		}
	}
	snd, rcv := pr.C, pr.S
	if sc.S2C {
		snd, rcv = pr.S, pr.C
	}
	cidLen := 0
	if rcv.Cfg.CIDLen > 0 {
		cidLen = rcv.Cfg.CIDLen
	}

	// The application reader on the receiver.
	var mu sync.Mutex
	var reads [][]byte
	startReader := func() *world.Op {
		return w.Go(rcv.Name+".ReadLoop", func(op *world.Op) error {
			buf := make([]byte, 8192)
			for {
				k, rerr := rcv.Conn.Read(buf)
				if rerr != nil {
					return rerr
				}
				mu.Lock()
				reads = append(reads, append([]byte(nil), buf[:k]...))
				mu.Unlock()
			}
		})
	}
	var rd *world.Op
	stopReader := func() {
		if rd == nil {
			return
		}
		_ = rcv.Conn.SetReadDeadline(time.Unix(1, 0)) // in the past of the bubble clock
		w.Settle()
		if !rd.Done() {
			ex.Violation = "harness: reader did not stop on deadline"
			ex.Key = "harness-reader-stuck"
		}
		rd = nil
	}
	defer stopReader()
	if !sc.Lazy {
		rd = startReader()
		w.Settle()
	}

	// Write n distinct payloads; capture the datagrams without delivering them.
	// Sequence numbers: k-th Write <-> k-th captured datagram, one application-data record each (checked
	// with the harness wire parser; DTLS 1.2 carries the number in clear, DTLS 1.3 encrypts it, there it is
	// the sender's record counter of the epoch before the write + position).
	dgs := make([]*world.Datagram, 0, sc.N)
	seqs := make([]uint64, sc.N)
	epochs := make([]int, sc.N) // 0 for the first epoch used, 1 after the key update
	ref := []*refWindow{newRefWindow(sc.effW()), newRefWindow(sc.effW())}
	v13 := v.V13
	phase := func(ph, from, to int) bool {
		if ph == 0 && sc.PresetSeq > 0 {
			dtls.VerifPoke(snd.Conn, func(in dtls.VerifInternals) {
				cs := dtlsstate.CommonState(in.State)
				cs.LocalSequenceNumber[cs.LocalEpoch()] = sc.PresetSeq
			})
			primer := []byte(fmt.Sprintf("primer-record-at-%d", sc.PresetSeq))
			pw := w.Go(snd.Name+".Primer", func(*world.Op) error { _, e := snd.Conn.Write(primer); return e })
			w.Settle()
			for _, d := range w.InFlight() {
				w.Deliver(d)
				w.Settle()
			}
			mu.Lock()
			okp := pw.OK() && len(reads) == 1 && bytes.Equal(reads[0], primer)
			reads = nil
			mu.Unlock()
			if !okp {
				ex.Violation = fmt.Sprintf("%s: the record written at sequence number %d (first record after a jump of the sender's counter) was not delivered: write=%v", sc, sc.PresetSeq, pw)
				ex.Key = "record-after-counter-jump-not-delivered"
				return false
			}
		}
		snap := snd.Snapshot()
		localEpoch := int(snap.LocalEpoch)
		var base uint64
		if localEpoch < len(snap.LocalSeq) {
			base = snap.LocalSeq[localEpoch]
		}
		if ph == 0 {
			ex.BaseSeq = base
		}
		wr := w.Go(snd.Name+".Writes", func(op *world.Op) error {
			for k := from; k < to; k++ {
				pl := payload(k)
				m, werr := snd.Conn.Write(pl)
				if werr != nil {
					return fmt.Errorf("write %d: %w", k, werr)
				}
				if m != len(pl) {
					return fmt.Errorf("write %d: short write %d/%d", k, m, len(pl))
				}
			}
			return nil
		})
		w.Settle()
		if !wr.OK() {
			ex.Skip = "writes did not complete: " + wr.String()
			return false
		}
		got := 0
		for _, d := range w.InFlight() {
			w.Take(d)
			if d.Src == snd.Addr {
				dgs = append(dgs, d)
				got++
			}
		}
		if got != to-from {
			ex.Skip = fmt.Sprintf("captured %d datagrams for %d writes", got, to-from)
			return false
		}
		for k := from; k < to; k++ {
			d := dgs[k]
			epochs[k] = ph
			recs, perr := world.ParseDatagram(d.Data, cidLen)
			if perr != nil || len(recs) != 1 {
				ex.Skip = fmt.Sprintf("datagram %d: %d records, err=%v (%s)", k, len(recs), perr, world.DescribeCID(d.Data, cidLen))
				return false
			}
			r := recs[0]
			kind := ""
			switch {
			case v13:
				if !r.Unified || int(r.Epoch) != localEpoch&3 {
					ex.Skip = fmt.Sprintf("datagram %d is not a unified-header record of epoch %d: %s", k, localEpoch, world.DescribeCID(d.Data, cidLen))
					return false
				}
				seqs[k] = base + uint64(k-from)
				kind = fmt.Sprintf("U(e%d)", localEpoch)
			default:
				wantType := byte(world.CTAppData)
				if cidLen > 0 {
					wantType = world.CTCID
				}
				if r.Unified || r.Type != wantType || int(r.Epoch) != localEpoch {
					ex.Skip = fmt.Sprintf("datagram %d is not a type-%d record of epoch %d: %s", k, wantType, localEpoch, world.DescribeCID(d.Data, cidLen))
					return false
				}
				seqs[k] = r.Seq
				if r.Seq != base+uint64(k-from) {
					ex.Skip = fmt.Sprintf("datagram %d carries sequence number %d, expected %d", k, r.Seq, base+uint64(k-from))
					return false
				}
				kind = fmt.Sprintf("ct%d(e%d)", r.Type, r.Epoch)
			}
			if k == from {
				if ex.RecKinds != "" {
					ex.RecKinds += "+"
				}
				ex.RecKinds += kind
			}
		}
		// Records of this epoch sent (and delivered) before the application data — e.g. the DTLS 1.2
		// Finished, sequence number 0 of epoch 1 — were accepted by the receiver already.
		if base > 0 {
			ref[ph].seed(base - 1)
		}
		return true
	}
	if sc.KeyUpdateAfter <= 0 {
		if !phase(0, 0, sc.N) {
			return
		}
	} else {
		if !phase(0, 0, sc.KeyUpdateAfter) {
			return
		}
		// The sender updates its sending keys: KeyUpdate (in the old epoch) -> ACK, over a reliable network.
		before := snd.Snapshot()
		ku := w.Go(snd.Name+".UpdateKeys", func(op *world.Op) error {
			return snd.Conn.UpdateKeys(context.Background(), dtls.KeyUpdateOptions{})
		})
		for i := 0; i < 20 && !ku.Done(); i++ {
			w.Settle()
			for _, d := range w.InFlight() {
				w.Deliver(d)
				w.Settle()
			}
			if !ku.Done() && len(w.InFlight()) == 0 {
				w.Sleep(10 * time.Millisecond)
			}
		}
		w.Settle()
		for _, d := range w.InFlight() {
			w.Deliver(d)
			w.Settle()
		}
		if !ku.OK() {
			ex.Skip = "key update did not complete: " + ku.String()
			return
		}
		after := snd.Snapshot()
		if after.LocalEpoch != before.LocalEpoch+1 {
			ex.Skip = fmt.Sprintf("key update did not advance the sending epoch: %d -> %d", before.LocalEpoch, after.LocalEpoch)
			return
		}
		// The KeyUpdate record(s) travelled in the old epoch after the captured application data and were
		// accepted by the receiver (the update was acknowledged): they are the newest accepted of that epoch.
		oe := int(before.LocalEpoch)
		if after.LocalSeq[oe] <= before.LocalSeq[oe] {
			ex.Skip = "key update consumed no sequence number of the old epoch"
			return
		}
		ex.KUSeqs = int(after.LocalSeq[oe] - before.LocalSeq[oe])
		ref[0].seed(after.LocalSeq[oe] - 1)
		if !phase(1, sc.KeyUpdateAfter, sc.N) {
			return
		}
	}

	byPayload := map[string]int{}
	for k := 0; k < sc.N; k++ {
		byPayload[string(payload(k))] = k
	}
	ex.Counts = make([]int, sc.N)
	must := make([]bool, sc.N)
	arrived := make([]bool, sc.N)
	consumed := 0
	// absorb accounts for the payloads Read returned since the last call.
	absorb := func() (int, string) {
		mu.Lock()
		fresh := reads[consumed:]
		consumed = len(reads)
		mu.Unlock()
		for _, b := range fresh {
			j, ok := byPayload[string(b)]
			if !ok {
				return len(fresh), fmt.Sprintf("Read returned %d bytes %q that no Write ever sent", len(b), trunc(b))
			}
			ex.Counts[j]++
		}
		return len(fresh), ""
	}
	lastStepOf := func(j int) step {
		for x := len(ex.Steps) - 1; x >= 0; x-- {
			if ex.Steps[x].Rec == j {
				return ex.Steps[x]
			}
		}
		return step{Rec: j, Dist: -1}
	}
	firstStepOf := func(j int) step {
		for _, st := range ex.Steps {
			if st.Rec == j {
				return st
			}
		}
		return step{Rec: j, Dist: -1}
	}
	judge := func(i int, when string) bool {
		for j := 0; j < sc.N; j++ {
			if ex.Counts[j] > 1 {
				// cause: where the replayed record stood relative to the window when it arrived again
				st := lastStepOf(j)
				ex.Key = fmt.Sprintf("payload-delivered-twice/%s/%s/%s/dist%s", sc.V.Name, ex.RecKinds, wClass(sc.effW()), relW(st.Dist, sc.effW()))
				ex.Violation = fmt.Sprintf("%s arrivals=%s: payload of record %d (seq %d) was returned by Read %d times but written once (%s arrival #%d; its last arrival had reference verdict %s, distance %d, W=%d); per-record deliveries: %s",
					sc, compact(arrivals), j, seqs[j], ex.Counts[j], when, i, st.Verdict, st.Dist, sc.effW(), countsStr(ex.Counts))
				return false
			}
			if must[j] && ex.Counts[j] != 1 {
				st := firstStepOf(j)
				ex.Key = fmt.Sprintf("in-window-record-not-delivered/%s/%s/%s/%s/dist%s", sc.V.Name, ex.RecKinds, wClass(sc.effW()), st.Verdict, relW(st.Dist, sc.effW()))
				ex.Violation = fmt.Sprintf("%s arrivals=%s: record %d (seq %d) was %q at its first arrival (distance %d behind the newest accepted record, W=%d; -1 = newer than all) but its payload was not returned by Read (%s arrival #%d); per-record deliveries: %s",
					sc, compact(arrivals), j, seqs[j], st.Verdict, st.Dist, sc.effW(), when, i, countsStr(ex.Counts))
				return false
			}
		}
		return true
	}

	for i, a := range arrivals {
		e := epochs[a]
		vd := ref[e].classify(seqs[a])
		dist := int64(-1)
		if d, behind := ref[e].distance(seqs[a]); behind {
			dist = int64(d)
		}
		if !arrived[a] {
			arrived[a] = true
			if vd == vNewer || vd == vInWindow {
				must[a] = true
				ref[e].accept(seqs[a])
			}
		}
		w.Logf("c06: arrival #%d record %d seq %d: reference %s dist %d", i, a, seqs[a], vd, dist)
		w.Push(snd.Addr, rcv.Addr, dgs[a].Data)
		w.Settle()
		st := step{Rec: a, Verdict: vd, Dist: dist}
		if !sc.Lazy {
			got, bad := absorb()
			st.Delivered = got
			ex.Steps = append(ex.Steps, st)
			if bad != "" {
				ex.Violation = fmt.Sprintf("%s arrivals=%s: after arrival #%d: %s", sc, compact(arrivals), i, bad)
				ex.Key = "read-returned-unwritten-bytes/" + sc.V.Name
				return
			}
			if !judge(i, "after") {
				return
			}
		} else {
			ex.Steps = append(ex.Steps, st)
		}
	}
	if sc.Lazy {
		rd = startReader()
		w.Settle()
		_, bad := absorb()
		// attribute the deliveries to the FIRST arrival of each record (later arrivals: 0)
		firstSeen := map[int]bool{}
		for x := range ex.Steps {
			if j := ex.Steps[x].Rec; !firstSeen[j] {
				firstSeen[j] = true
				ex.Steps[x].Delivered = ex.Counts[j]
			}
		}
		if bad != "" {
			ex.Violation = fmt.Sprintf("%s arrivals=%s: reading after all arrivals: %s", sc, compact(arrivals), bad)
			ex.Key = "read-returned-unwritten-bytes/" + sc.V.Name
			return
		}
		if len(ex.Steps) > 0 && !judge(len(arrivals)-1, "reading after") {
			return
		}
	}
	// Nothing may trickle in later either (fake time passes, nothing else arrives).
	w.Sleep(50 * time.Millisecond)
	if rd != nil {
		if _, bad := absorb(); bad != "" {
			ex.Violation = fmt.Sprintf("%s arrivals=%s: late read: %s", sc, compact(arrivals), bad)
			ex.Key = "read-returned-unwritten-bytes/" + sc.V.Name
			return
		}
		if len(ex.Steps) > 0 {
			judge(len(arrivals)-1, "50ms after")
		}
	}
}

func trunc(b []byte) string {
	if len(b) > 40 {
		return string(b[:40]) + "..."
	}
	return string(b)
}

// compact renders an arrival sequence with runs of consecutive indices folded ("0..34 34..0 7 7").
func compact(a []int) string {
	var parts []string
	for i := 0; i < len(a); {
		j := i
		if i+1 < len(a) && (a[i+1]-a[i] == 1 || a[i+1]-a[i] == -1) {
			st := a[i+1] - a[i]
			for j+1 < len(a) && a[j+1]-a[j] == st {
				j++
			}
		}
		if j-i >= 2 {
			parts = append(parts, fmt.Sprintf("%d..%d", a[i], a[j]))
			i = j + 1
			continue
		}
		parts = append(parts, fmt.Sprint(a[i]))
		i++
	}
	return "[" + strings.Join(parts, " ") + "]"
}

// countsStr renders the per-record delivery counts, listing only the records not delivered exactly once.
func countsStr(c []int) string {
	var odd []string
	for j, n := range c {
		if n != 1 {
			odd = append(odd, fmt.Sprintf("rec%d:%dx", j, n))
		}
	}
	return fmt.Sprintf("%d records, 1x each except {%s} (0x: not delivered or never arrived)", len(c), strings.Join(odd, " "))
}
